# Top-level build of the verification framework.  Everything is rebuilt from files on
# disk; Generated/Consts.v is regenerated from /repo/src first.
PY := PYTHONPATH=/repo/src PYTHONHASHSEED=0 PYTHONDONTWRITEBYTECODE=1 /venv/bin/python -B
JOBS ?= 16

.PHONY: all setup consts coq runner gate clean

all: setup

setup: consts coq runner gate

consts:
	@$(PY) harness/gen_consts.py theories/Generated/Consts.v || \
	  (echo "gen_consts aborted: falling back to committed Consts.v"; git checkout -- theories/Generated/Consts.v 2>/dev/null || true)
	@$(PY) harness/gen_logic.py theories/Generated/LogicGen.v || \
	  (echo "gen_logic aborted: falling back to committed LogicGen.v"; git checkout -- theories/Generated/LogicGen.v 2>/dev/null || true)

Makefile.coq: _CoqProject
	coq_makefile -f _CoqProject -o Makefile.coq

coq: Makefile.coq
	timeout 3000 $(MAKE) -f Makefile.coq -j$(JOBS)
	@if [ -f model.ml ]; then mv -f model.ml model.mli runner/; fi

runner: coq
	@if [ ! -f runner/driver ] || [ runner/model.ml -nt runner/driver ] || [ runner/driver.ml -nt runner/driver ]; then \
	  cd runner && ocamlfind ocamlopt -O2 -w -a model.mli model.ml driver.ml -o driver 2>&1 | grep -v "^ocamlfind: \|options -O2" ; \
	  rm -f *.cmi *.cmx *.o ; fi
	@test -x runner/driver

gate:
	@if grep -rnE 'Admitted|admit\b|\bAxiom\b|\bParameter\b|\bConjecture\b|Unset Guard|bypass_check|type-in-type|impredicative-set|Admit Obligations' theories --include=*.v ; then \
	  echo "GATE FAILED: forbidden construct in theories/"; exit 1; else echo "gate ok"; fi

clean:
	-$(MAKE) -f Makefile.coq clean
	rm -f Makefile.coq Makefile.coq.conf runner/driver runner/model.ml runner/model.mli
