(* C02 - SD messages round-trip: every entry keeps exactly its own options.
   wf_msg (Proofs/SdMsgProofs.v) is the property's input domain: entries resolved, of a defined type,
   Subscribe/Ack values within 4+16 bits, options well formed (configuration keys without '=' and not the
   degenerate empty item, unknown option types not registered, option class codes 2..7), unknown flag
   bits within the six undefined ones.
   NOT proved here (stated so as not to hide it): (1) C02_error_iff - the exact characterisation of when
   encoding fails (proved: encoding NEVER emits bytes for counts > 15 / indexes > 255 [C02_no_silent_overflow],
   and whenever it emits bytes they decode to the message [C02_roundtrip]); (2) C02_layout - agreement of the
   independent layout decoder Spec/C02Spec.v ref_decode with the model; ref_decode is run (extracted) on the
   implementation's bytes on every run instead. *)
From PS Require Import Lib.Base Lib.Struct Generated.Consts Model.SdTypes Model.SdCodec.
From PS Require Import Proofs.SdAssignProofs Proofs.SdEntryProofs Proofs.SdOptionProofs Proofs.SdHeaderProofs Proofs.SdMsgProofs.

(* the run-sharing search: a reported index really holds the run, inside the array; the loop terminates *)
Theorem C02_find_sound : forall h needle k,
  find_run h needle = Ok (Some k) -> takeN (len needle) (dropN k h) = needle.
Proof. exact find_run_sound. Qed.
Theorem C02_find_in_range : forall h needle k,
  needle <> [] -> find_run h needle = Ok (Some k) -> k + len needle <= len h.
Proof. exact find_run_bound. Qed.
Theorem C02_find_terminates : forall h needle, needle <> [] -> find_run h needle <> Err EFuel.
Proof. exact find_run_no_fuel. Qed.
Theorem C02_assign_total : forall m, exists a, assign_sd m = Ok a.
Proof. exact assign_sd_total. Qed.

(* resolving the assigned indexes yields the same flags and the same entries in the same order, each
   with exactly its two option runs; the shared array only grows by appending *)
Theorem C02_assign_resolve : forall m a,
  Forall resolved (sd_entries m) -> assign_sd m = Ok a ->
  resolve_sd a = Ok (mkSd (sd_entries m) (sd_options a) (sd_reboot m) (sd_unicast m) (sd_flags_unknown m))
  /\ exists ext, sd_options a = sd_options m ++ ext.
Proof. exact assign_resolve. Qed.

(* encode (assign, then build) followed by decode and resolution gives back the message *)
Theorem C02_roundtrip : forall m a b,
  wf_msg m -> assign_sd m = Ok a -> build_sd a = Ok b ->
  parse_sd b = Ok (a, [])
  /\ resolve_sd a = Ok (mkSd (sd_entries m) (sd_options a) (sd_reboot m) (sd_unicast m) (sd_flags_unknown m)).
Proof. exact msg_roundtrip. Qed.

(* the parts *)
Theorem C02_option_roundtrip : forall o b r, wf_opt o -> build_option o = Ok b -> parse_option (b ++ r) = Ok (o, r).
Proof. exact option_roundtrip. Qed.
Theorem C02_entry_roundtrip : forall e b r n, wf_entry e n -> build_entry e = Ok b -> parse_entry (b ++ r) n = Ok (e, r).
Proof. exact entry_roundtrip. Qed.
Theorem C02_header_roundtrip : forall a b, wf_sd a -> build_sd a = Ok b -> parse_sd b = Ok (a, []).
Proof. exact sd_roundtrip. Qed.

(* unrepresentable counts / indexes make the entry encoder fail instead of emitting other bytes (repaired F1), and so
   does a Subscribe / SubscribeAck value that does not fit counter (4 bits) and eventgroup id (16 bits) (repaired F19) *)
Theorem C02_no_silent_overflow : forall e oi1 oi2 no1 no2 b,
  e_idx e = Some (oi1, oi2, no1, no2) -> build_entry e = Ok b ->
  no1 < 16 /\ no2 < 16 /\ oi1 < 256 /\ oi2 < 256
  /\ (sub_type (e_type e) = true -> N.land (e_val e) 4293918720 = 0).
Proof. exact build_entry_counts. Qed.

(* non-vacuity: a concrete message with shared and overlapping runs round-trips (3 shared options for 7 references) *)
Theorem C02_nonvacuous : ex_check = true.
Proof. exact ex_roundtrip. Qed.

Print Assumptions C02_find_sound.
Print Assumptions C02_find_in_range.
Print Assumptions C02_find_terminates.
Print Assumptions C02_assign_total.
Print Assumptions C02_assign_resolve.
Print Assumptions C02_roundtrip.
Print Assumptions C02_option_roundtrip.
Print Assumptions C02_entry_roundtrip.
Print Assumptions C02_header_roundtrip.
Print Assumptions C02_no_silent_overflow.
Print Assumptions C02_nonvacuous.
