(* C07 - Peer reboot is detected exactly, per sender and per channel.
   spec_detect is the property read literally (Spec/C07Spec.v); the code additionally requires the
   previous session id to be non-zero (finding F12), so exactness holds on F12-free histories and is
   refuted by a concrete witness otherwise. *)
From PS Require Import Lib.Base Model.Session Spec.C07Spec Proofs.C07Proofs Generated.LogicGen Proofs.GenEquiv.
From PS Require Import Model.StackTypes Model.Stack Model.Skel Proofs.GenSkel.

(* what the code computes, for every history *)
Theorem C07_exact_code : forall h, run_check sess_init h = spec_detect_code h.
Proof. exact exact_code. Qed.
(* the property, on histories without the F12 pattern (flag stays set, previous id 0, new id 0) *)
Theorem C07_exact : forall h, f12_free h = true -> run_check sess_init h = spec_detect h.
Proof. exact exact. Qed.
(* the full statement is false of the faithful model: the witness is the known finding F12 *)
Theorem C07_exact_refuted : exists h, run_check sess_init h <> spec_detect h.
Proof. exact exact_refuted. Qed.
(* the two specifications differ only at F12 positions *)
Theorem C07_f12_is_the_only_gap : forall prev f sid,
  f12_at prev f sid = false -> detect_code prev f sid = detect_lit prev f sid.
Proof. exact detect_agree. Qed.

(* corollaries spelled out in the property *)
Theorem C07_first_message_never : forall prev f sid, prev = None -> detect_lit prev f sid = false.
Proof. exact first_never. Qed.
Theorem C07_flag_clear_never : forall prev sid, detect_lit prev false sid = false.
Proof. exact clear_never. Qed.
Theorem C07_other_senders_and_channels_ignored : forall k a mc f sid revp,
  in_key_eqb k (a, mc) = false -> last_same k ((a, mc, f, sid) :: revp) = last_same k revp.
Proof. exact other_keys_ignored. Qed.

Example C07_nonvacuous : f12_free [(1, false, false, 5); (1, false, true, 1); (1, true, true, 1); (1, false, true, 1)] = true
  /\ run_check sess_init [(1, false, false, 5); (1, false, true, 1); (1, true, true, 1); (1, false, true, 1)] = [false; true; false; true].
Proof. split; reflexivity. Qed.

(* tie to the source: the model function IS the Python function, translated from the source text on every run *)
Theorem C07_model_is_the_translated_source : forall s a mc f sid, gen_check_received s a mc f sid = check_received s a mc f sid.
Proof. exact gen_check_received_eq. Qed.

(* the fan-out of a detection is the control flow translated from the source text of sd.py on every run: the announcer at
   once, the subscriber (which does nothing) and the discovery through call_soon, each with the address of THIS detection *)
Theorem C07_reboot_fan_out_is_the_translated_source : forall a w,
  reboot_detected a w = fold_left (run_ract a) gen_reboot_detected w.
Proof. exact reboot_detected_is_the_translated_source. Qed.

Print Assumptions C07_reboot_fan_out_is_the_translated_source.
Print Assumptions C07_exact_code.
Print Assumptions C07_exact.
Print Assumptions C07_exact_refuted.
Print Assumptions C07_f12_is_the_only_gap.
Print Assumptions C07_first_message_never.
Print Assumptions C07_flag_clear_never.
Print Assumptions C07_other_senders_and_channels_ignored.
Print Assumptions C07_model_is_the_translated_source.
