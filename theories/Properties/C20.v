(* C20 - Decoding canonicalises: decode-encode-decode equals decode.
   Proved for EVERY accepted input of all four decoders:
     SOME/IP messages (with byte equality of the consumed input), SD entries (also byte-equal),
     SD options and whole SD messages (decode . encode . decode = decode, nothing left over; the rebuilt bytes may
     differ from the input exactly where the decoder is lenient: reserved bytes, the ignored tail of a
     configuration option).  What the decoder keeps (unknown option types with payloads, unknown flag bits, unknown
     protocol numbers, unreferenced options, raw indexes and counts) is part of the decoded VALUE, so equality of the
     values is the "survives unchanged" clause.
   The correspondence runs the same cycle on the implementation for every accepted input it generates. *)
From PS Require Import Lib.Base Lib.Struct Generated.Consts Model.SdTypes Model.Someip Model.SdCodec Spec.C01Spec.
From PS Require Import Proofs.C01Proofs Proofs.SdEntryProofs Proofs.SdOptionProofs Proofs.SdHeaderProofs
  Proofs.C20OptionProofs Proofs.C20SdProofs.

Theorem C20_someip : forall b m r, bytes_ok b -> parse_msg b = Ok (m, r) ->
  exists b', build_msg m = Ok b' /\ b = b' ++ r /\ parse_msg b' = Ok (m, []).
Proof.
  intros b m r Hb Hp. destruct (parse_sound b m r Hb Hp) as (Hwf & b' & Hbuild & Heq).
  exists b'. split; [exact Hbuild|]. split; [exact Heq|].
  rewrite <- (app_nil_r b'). apply roundtrip; assumption.
Qed.

Theorem C20_entry : forall b n e r, bytes_ok b -> parse_entry b n = Ok (e, r) ->
  wf_entry e n /\ exists b', build_entry e = Ok b' /\ b = b' ++ r /\ parse_entry b' n = Ok (e, []).
Proof. exact entry_canonical. Qed.

Theorem C20_option : forall b o r, bytes_ok b -> parse_option b = Ok (o, r) ->
  exists b', build_option o = Ok b' /\ parse_option b' = Ok (o, []).
Proof. exact option_canonical. Qed.

Theorem C20_sd : forall b a r, bytes_ok b -> parse_sd b = Ok (a, r) ->
  exists b', build_sd a = Ok b' /\ parse_sd b' = Ok (a, []).
Proof. exact sd_canonical. Qed.

(* the image of the decoders: what they accept is exactly what the round-trip theorems are about, and re-encoding
   never needs more bytes than were consumed *)
Theorem C20_option_image : forall b o r, bytes_ok b -> parse_option b = Ok (o, r) ->
  wf_opt o /\ bytes_ok r /\ exists b', build_option o = Ok b' /\ len b' + len r <= len b.
Proof. exact option_image. Qed.

Theorem C20_sd_image : forall b a r, bytes_ok b -> parse_sd b = Ok (a, r) -> wf_sd a /\ exists b', build_sd a = Ok b'.
Proof. exact sd_image. Qed.

(* a configuration option is accepted exactly as: the items' encodings, a zero length byte, an ignored tail *)
Theorem C20_config_items_are_all_the_decoder_keeps : forall fuel nl b acc res, bytes_ok (nl :: b) ->
  parse_cfgs fuel nl b acc = Ok res ->
  exists items tail, res = rev acc ++ items /\ nl :: b = concat (map enc_item items) ++ 0 :: tail
                     /\ Forall wf_cfg items /\ Forall good_cfg items.
Proof. exact parse_cfgs_image. Qed.

Theorem C20_option_wf : forall o b, wf_opt o -> build_option o = Ok b -> parse_option b = Ok (o, []).
Proof. intros o b Hwf Hb. rewrite <- (app_nil_r b). apply option_roundtrip; assumption. Qed.

Theorem C20_sd_wf : forall a b, wf_sd a -> build_sd a = Ok b -> parse_sd b = Ok (a, []).
Proof. exact sd_roundtrip. Qed.

(* non-vacuity: a lenient input (non-zero reserved byte, garbage after the terminating zero) is accepted, and its
   canonical re-encoding is a different, shorter byte string that decodes to the same value *)
Example C20_example :
  let b := [0; 8; 1; 85; 3; 97; 61; 98; 0; 170; 187] in
  let b' := [0; 6; 1; 0; 3; 97; 61; 98; 0] in
  bytes_ok b /\ parse_option b = Ok (OConfig [([97], Some [98])], [])
  /\ build_option (OConfig [([97], Some [98])]) = Ok b' /\ parse_option b' = Ok (OConfig [([97], Some [98])], []).
Proof.
  cbv zeta. split; [repeat constructor|]. split; [vm_compute; reflexivity|]. split; vm_compute; reflexivity.
Qed.

Print Assumptions C20_someip.
Print Assumptions C20_entry.
Print Assumptions C20_option.
Print Assumptions C20_sd.
Print Assumptions C20_option_image.
Print Assumptions C20_sd_image.
Print Assumptions C20_config_items_are_all_the_decoder_keeps.
Print Assumptions C20_option_wf.
Print Assumptions C20_sd_wf.
Print Assumptions C20_example.
