(* C20 - Decoding canonicalises: decode-encode-decode equals decode.
   Proved for SOME/IP messages (with byte equality of the consumed input) and for SD entries (also byte-equal).
   PARTIAL: for SD options and whole SD messages the statement
     C20_option : bytes_ok b -> parse_option b = Ok (o, r) -> exists b', build_option o = Ok b' /\ parse_option b' = Ok (o, [])
     C20_sd     : the same for parse_sd / build_sd
   is not yet proved for every accepted input; proved instead: every option / message inside wf_opt / wf_sd
   re-decodes to itself (C20_option_wf, C20_sd_wf).  The correspondence runs the full cycle on the
   implementation for every accepted input it generates. *)
From PS Require Import Lib.Base Lib.Struct Generated.Consts Model.SdTypes Model.Someip Model.SdCodec Spec.C01Spec.
From PS Require Import Proofs.C01Proofs Proofs.SdEntryProofs Proofs.SdOptionProofs Proofs.SdHeaderProofs.

Theorem C20_someip : forall b m r, bytes_ok b -> parse_msg b = Ok (m, r) ->
  exists b', build_msg m = Ok b' /\ b = b' ++ r /\ parse_msg b' = Ok (m, []).
Proof.
  intros b m r Hb Hp. destruct (parse_sound b m r Hb Hp) as (Hwf & b' & Hbuild & Heq).
  exists b'. split; [exact Hbuild|]. split; [exact Heq|].
  rewrite <- (app_nil_r b'). apply roundtrip; assumption.
Qed.

Theorem C20_entry : forall b n e r, bytes_ok b -> parse_entry b n = Ok (e, r) ->
  wf_entry e n /\ exists b', build_entry e = Ok b' /\ b = b' ++ r /\ parse_entry b' n = Ok (e, []).
Proof. exact entry_canonical. Qed.

Theorem C20_option_wf_partial : forall o b, wf_opt o -> build_option o = Ok b -> parse_option b = Ok (o, []).
Proof. intros o b Hwf Hb. rewrite <- (app_nil_r b). apply option_roundtrip; assumption. Qed.

Theorem C20_sd_wf_partial : forall a b, wf_sd a -> build_sd a = Ok b -> parse_sd b = Ok (a, []).
Proof. exact sd_roundtrip. Qed.

Print Assumptions C20_someip.
Print Assumptions C20_entry.
Print Assumptions C20_option_wf_partial.
Print Assumptions C20_sd_wf_partial.
