(* C11 - Every unicast Subscribe gets exactly one correct Ack or Nack.  Function-level theorems over every world;
   the transmission of what is queued is C15.  NOT proved end-to-end through the loop; checked on every run. *)
From PS Require Import Lib.Base Generated.Consts Model.SdTypes Model.Config Model.Session Model.StackTypes Model.Stack
  Proofs.StackOpsProofs Model.Skel Generated.LogicGen Proofs.GenSkel.

Theorem C11_ack_echoes : forall e ttl, e_val e < 1048576 ->
  let a := to_ack_entry (from_subscribe_entry e) ttl in
  e_type a = ET_SubscribeAck /\ e_sid a = e_sid e /\ e_iid a = e_iid e /\ e_maj a = e_maj e
  /\ e_val a = e_val e /\ e_ttl a = ttl /\ e_opts1 a = [] /\ e_opts2 a = [].
Proof. exact ack_echoes. Qed.
Theorem C11_no_match_one_nack : forall e a w,
  (forall i w', inst_handle_subscribe e a i w' = (w', false)) ->
  announcer_handle_subscribe e a w = queue_send (to_ack_entry (from_subscribe_entry e) 0) (Some a) w.
Proof. exact no_match_nack. Qed.
Theorem C11_matching_instance_answers_once : forall e a i w ins t,
  get_inst i w = Some ins -> in_task ins = Some t -> matches_subscribe (in_service ins) e = Ok true -> e_ttl e <> 0 ->
  let sub := from_subscribe_entry e in
  let '(w1, ok) := store_refresh (SSubs i) (e_ttl e) a (KSub sub) w in
  inst_handle_subscribe e a i w = (queue_send (to_ack_entry sub (if ok then e_ttl e else 0)) (Some a) w1, true).
Proof. exact inst_answers_once. Qed.
Theorem C11_other_instances_untouched : forall e a i w,
  (match get_inst i w with
   | Some ins => in_task ins = None \/ matches_subscribe (in_service ins) e <> Ok true
   | None => True end) -> inst_handle_subscribe e a i w = (w, false).
Proof. exact inst_ignores. Qed.
Theorem C11_stop_subscribe_no_answer : forall e a i w ins t,
  get_inst i w = Some ins -> in_task ins = Some t -> matches_subscribe (in_service ins) e = Ok true -> e_ttl e = 0 ->
  inst_handle_subscribe e a i w = (store_stop (SSubs i) a (KSub (from_subscribe_entry e)) w, true).
Proof. exact stop_subscribe_no_answer. Qed.
Theorem C11_multicast_ignored : forall e a w, e_type e = ET_Subscribe ->
  sd_message_received (mkSd [e] [] false true 0) a true w = w.
Proof. exact multicast_subscribe_ignored. Qed.

(* the control flow of ServiceInstance.handle_subscribe in the model IS the one translated from the source text on every
   run: not running / not matching -> no answer from this instance; TTL 0 -> the store's stop; otherwise the store's
   refresh and then exactly one of Ack (listener accepted) / Nack (NakSubscription) *)
Theorem C11_handle_subscribe_is_the_translated_source : forall e a i w ins,
  get_inst i w = Some ins ->
  let accepted := snd (store_refresh (SSubs i) (sb_ttl (from_subscribe_entry e)) a (KSub (from_subscribe_entry e)) w) in
  let '(acts, r) := gen_inst_handle_subscribe (match in_task ins with None => true | Some _ => false end)
                      (match matches_subscribe (in_service ins) e with Ok true => true | _ => false end) e accepted in
  fold_left (run_sub_act e a i) acts (Some w) = Some (fst (inst_handle_subscribe e a i w)) /\ r = snd (inst_handle_subscribe e a i w).
Proof. exact inst_handle_subscribe_is_the_translated_source. Qed.

(* the announcer asks every announced instance and queues a Nack for the sender exactly when none of them took the entry: the
   control flow translated from the source text of sd.py on every run *)
Theorem C11_announcer_handle_subscribe_is_the_translated_source : forall e a w,
  announcer_handle_subscribe e a w
  = let r := fold_left (fun acc i => let '(w', m) := inst_handle_subscribe e a i (fst acc) in (w', snd acc || m)) (announcing w) (w, false) in
    if gen_announcer_subscribe_nack (snd r) then send_subscribe_nack (from_subscribe_entry e) a (fst r) else fst r.
Proof. exact announcer_handle_subscribe_is_the_translated_source. Qed.

Print Assumptions C11_announcer_handle_subscribe_is_the_translated_source.
Print Assumptions C11_ack_echoes.
Print Assumptions C11_no_match_one_nack.
Print Assumptions C11_matching_instance_answers_once.
Print Assumptions C11_other_instances_untouched.
Print Assumptions C11_stop_subscribe_no_answer.
Print Assumptions C11_multicast_ignored.
Print Assumptions C11_handle_subscribe_is_the_translated_source.
