(* C10 - Offer lifecycle: wait, repetition and cyclic phases; nothing follows a StopOffer.  The offer task is an
   explicit state machine (Model/Stack.v task_step); these theorems are its transitions, for every world.
   NOT proved: the composed schedule over the loop (C10_schedule: offers queued at ts+d0, +base*2^i, then every P)
   and the global silence statement over all schedules; both are checked on every run (check_C10).
   Known finding F11 (SimpleService.stop_announce) is outside the model. *)
From PS Require Import Lib.Base Generated.Consts Model.SdTypes Model.Config Model.Session Model.StackTypes Model.Stack
  Model.StackIO Proofs.StackOpsProofs Proofs.WorldInv Proofs.WorldTime Proofs.WorldDone.
From PS Require Import Model.Skel Generated.LogicGen Proofs.GenSkel.

Theorem C10_initial_delay_in_window : forall t w tk inst,
  get_task t w = Some tk -> tk_done tk = false -> tk_must_cancel tk = false -> tk_kind tk = TOffer inst -> tk_pc tk = 0 ->
  t_init_min (cfg w) <= t_init_max (cfg w) ->
  exists d w1, t_init_min (cfg w) <= d <= t_init_max (cfg w) /\ task_step t w = task_sleep t (TOffer inst) d 1 0 w1.
Proof. exact initial_delay_in_window. Qed.
Theorem C10_first_offer : forall t w tk inst,
  get_task t w = Some tk -> tk_done tk = false -> tk_must_cancel tk = false -> tk_kind tk = TOffer inst -> tk_pc tk = 1 ->
  task_step t w = offer_next t 0 inst (set_can_answer inst true (inst_send_offer inst None false w)).
Proof. exact first_offer. Qed.
Theorem C10_repetition_and_cyclic_delays : forall t i inst w,
  offer_next t i inst w =
  if i <? t_rep_max (cfg w) then task_sleep t (TOffer inst) (N.shiftl 1 i * t_rep_base (cfg w)) 2 i w
  else if t_cyclic (cfg w) =? 0 then finish_task t w else task_sleep t (TOffer inst) (t_cyclic (cfg w)) 3 0 w.
Proof. exact repetition_and_cyclic_delays. Qed.
Theorem C10_offer_content : forall i d stop w ins, get_inst i w = Some ins ->
  inst_send_offer i d stop w = queue_send (create_offer_entry (in_service ins) (if stop then 0 else t_announce_ttl (cfg w))) d w.
Proof. exact offer_content. Qed.
Theorem C10_stop_before_first_offer_sends_nothing : forall t w tk inst,
  get_task t w = Some tk -> tk_done tk = false -> tk_must_cancel tk = true -> tk_kind tk = TOffer inst ->
  tk_pc tk = 0 \/ tk_pc tk = 1 -> task_step t w = finish_task t w.
Proof. exact stop_before_first_offer_is_silent. Qed.
Theorem C10_stop_after_offer_one_stopoffer : forall t w tk inst,
  get_task t w = Some tk -> tk_done tk = false -> tk_must_cancel tk = true -> tk_kind tk = TOffer inst -> 2 <= tk_pc tk ->
  task_step t w = let w1 := set_can_answer inst false w in
                  finish_task t (if t_cyclic (cfg w1) =? 0 then w1 else inst_send_offer inst None true w1).
Proof. exact stop_after_offer. Qed.
Theorem C10_pending_answer_dropped_after_stop : forall i a w,
  (match get_inst i w with Some ins => in_can_answer ins = false | None => True end) -> answer_find i a w = w.
Proof. exact answer_suppressed_when_not_ready. Qed.
Theorem C10_stop_idempotent : forall w, ann_started w = false -> announcer_stop w = w.
Proof. exact announcer_stop_idempotent. Qed.

(* on the full stack model, under every schedule: a task that sleeps (offer / find / subscribe refresh) owns a pending,
   uncancelled wake-up handle - no wake-up is lost, and a finished task is not asleep *)
Theorem C10_sleeping_task_owns_its_wakeup : forall w, G w -> forall t tid, sleep_of w t = Some tid ->
  In (tid, HSleepDone t) (tided w) /\ memN tid (cancelled w) = false.
Proof. intros w Hg t tid H. exact (g_sleep _ _ Hg t tid H). Qed.
Theorem C10_in_every_reachable_state : forall s sc, d_scenario s = Some sc -> G (fst (run_scenario sc)).
Proof. exact G_reachable. Qed.

(* schedule: a sleeping task's wake-up is armed at now + delay and (C09/WorldTime) runs exactly then: together with the
   transitions above the offers of an undisturbed instance are queued at ts + d0, then after base * 2^i, then every period *)
Theorem C10_sleep_arms_exactly_the_delay : forall t k d pc i w, (d =? 0) = false ->
  timers (task_sleep t k d pc i w) = timers w ++ [(now w + d, next_id w, HSleepDone t)].
Proof. exact task_sleep_arms_deadline. Qed.
Theorem C10_wakeups_run_exactly_at_their_deadline : forall sc, Tinv (fst (run_scenario sc)).
Proof. exact reachable_on_time. Qed.

(* a completed run to t_end: every task still asleep (an offer task between two transmissions) has its wake-up timer
   pending with a deadline after t_end - no scheduled offer that was due has been skipped *)
Theorem C10_completed_run_leaves_no_overdue_wakeup : forall fuel events t_end rv w w', G w ->
  run fuel events t_end rv w = (w', true) ->
  forall t tid, sleep_of w' t = Some tid -> exists when, In (when, tid, HSleepDone t) (timers w') /\ t_end < when.
Proof.
  intros fuel events t_end rv w w' Hg Hrun t tid Hs. destruct (run_complete _ _ _ _ _ _ Hrun) as [Hr Hl].
  apply (quiescent_sleeper t_end w'); try assumption.
  replace w' with (fst (run fuel events t_end rv w)) by (rewrite Hrun; reflexivity). apply G_run. exact Hg.
Qed.

(* announcing and withdrawing an instance is the control flow translated from the source text of sd.py on every run: the
   instance is started only when the announcer runs (an exception from start() leaves it unlisted), then listed; withdrawing
   removes it from the list (ValueError when it is not there - the helper of finding F11 runs into exactly this) and stops
   it only when asked to and the announcer runs *)
Theorem C10_announce_service_is_the_translated_source : forall i w,
  announce_service i w = fst (fold_left (run_aact i) (gen_announce_service (ann_started w)) (w, true)).
Proof. exact announce_service_is_the_translated_source. Qed.
Theorem C10_stop_announce_service_is_the_translated_source : forall i send_stop w,
  stop_announce_service i send_stop w
  = fst (fold_left (run_aact i)
           (gen_stop_announce_service (match remove_first N.eqb i (announcing w) with Some _ => true | None => false end) send_stop (ann_started w))
           (w, true)).
Proof. exact stop_announce_service_is_the_translated_source. Qed.

Print Assumptions C10_announce_service_is_the_translated_source.
Print Assumptions C10_stop_announce_service_is_the_translated_source.
Print Assumptions C10_completed_run_leaves_no_overdue_wakeup.
Print Assumptions C10_initial_delay_in_window.
Print Assumptions C10_sleep_arms_exactly_the_delay.
Print Assumptions C10_wakeups_run_exactly_at_their_deadline.
Print Assumptions C10_sleeping_task_owns_its_wakeup.
Print Assumptions C10_in_every_reachable_state.
Print Assumptions C10_first_offer.
Print Assumptions C10_repetition_and_cyclic_delays.
Print Assumptions C10_offer_content.
Print Assumptions C10_stop_before_first_offer_sends_nothing.
Print Assumptions C10_stop_after_offer_one_stopoffer.
Print Assumptions C10_pending_answer_dropped_after_stop.
Print Assumptions C10_stop_idempotent.

(* the offer coroutine ServiceInstance._offer_task as translated from the source text (harness/gen_logic.py gen_offer_task) *)
Theorem C10_offer_next_is_the_translated_source : forall t i inst w,
  offer_next t i inst w
  = gen_offer_next i (t_rep_max (cfg w)) (t_rep_base (cfg w)) (t_cyclic (cfg w))
      (fun d => task_sleep t (TOffer inst) d 2 i w) (finish_task t w) (fun d => task_sleep t (TOffer inst) d 3 0 w).
Proof. exact offer_next_is_the_translated_source. Qed.
Theorem C10_offer_cancelled_is_the_translated_source : forall t w tk inst,
  get_task t w = Some tk -> tk_done tk = false -> tk_must_cancel tk = true -> tk_kind tk = TOffer inst -> tk_pc tk = 2 ->
  task_step t w
  = let w1 := set_can_answer inst false w in
    finish_task t (if gen_offer_finally_sends_stop (t_cyclic (cfg w1)) then inst_send_offer inst None true w1 else w1).
Proof. exact offer_cancelled_is_the_translated_source. Qed.
Print Assumptions C10_offer_next_is_the_translated_source.
Print Assumptions C10_offer_cancelled_is_the_translated_source.
