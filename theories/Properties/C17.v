(* C17 - Event notifications reach exactly the current subscribers, correctly addressed.
   Model: Model/ServiceStack.v (SimpleEventgroup + SimpleService.client_subscribed/unsubscribed on its own event-loop
   model).  Proved, for every world / value map / schedule:
   (1) what one _notify_single transmits decodes - with the datagram decoder of C01 - into exactly one NOTIFICATION per
       requested event: service id, method id 0x8000|event, client 0, interface version = major version, E_OK, the
       event's current value, and that destination's next session ids (which by C08 count 1..0xFFFF skipping 0);
   (2) a subscription for an unknown eventgroup or with other than exactly one endpoint is refused and changes nothing;
   (3) the subscriber data is a counter of live subscriptions per endpoint: subscribe adds one, unsubscribe removes
       one, an endpoint is addressed iff at least one live subscription names it, once each - as an invariant of
       EVERY reachable state of the loop model under every schedule (sexec_inv lifted to srun);
   (4) a round creates exactly one _notify_single per addressed endpoint, and none (and no task at all) when there
       are no subscribers.
   NOT proved: the timed end-to-end statement (which rounds happen when: Spec/C17Spec.v expected_sends) as a
   refinement of the loop model; it is the extracted checker check_C17 that judges every implementation trace. *)
From PS Require Import Lib.Base Lib.Struct Generated.Consts Model.SdTypes Model.Session Model.Someip Model.SdCodec
  Model.ServiceStack Spec.C01Spec Spec.C08Spec Spec.C17Spec Proofs.C01Proofs Proofs.C07Proofs Proofs.C17Proofs.
From PS Require Import Model.Skel Generated.LogicGen Proofs.GenService.

Theorem C17_datagram_is_the_notifications : forall w e spec, values_ok w ->
  forall buf s', build_notifications w (ep_dest e) (events_of spec w) [] (s_sess w) = Some (buf, s') ->
  datagram_split buf = (notif_msgs w (ep_dest e) (events_of spec w) (s_sess w), None)
  /\ length (notif_msgs w (ep_dest e) (events_of spec w) (s_sess w)) = length (events_of spec w).
Proof. exact notify_send_datagram. Qed.
Theorem C17_header_fields : forall w dest evs s m, In m (notif_msgs w dest evs s) ->
  m_sid m = s_svc w /\ m_cid m = 0 /\ m_pv m = 1 /\ m_iv m = s_major w /\ m_mt m = MT_NOTIFICATION /\ m_rc m = RC_E_OK
  /\ exists ev p, In ev evs /\ aget N.eqb ev (s_values w) = Some p /\ m_mid m = N.lor EVENT_BIT ev /\ m_payload m = p.
Proof. exact notif_msgs_header. Qed.
Theorem C17_one_notification_per_event_in_order : forall w dest evs s,
  length (notif_msgs w dest evs s) = length evs ->
  map (fun m => (m_mid m, m_payload m)) (notif_msgs w dest evs s)
  = map (fun ev => (N.lor EVENT_BIT ev, match aget N.eqb ev (s_values w) with Some p => p | None => [] end)) evs.
Proof. exact notif_msgs_events. Qed.
Theorem C17_session_ids_are_the_destinations_next : forall w dest evs s,
  map m_sess (notif_msgs w dest evs s) = map snd (run_assign s (repeat (Some dest) (length (notif_msgs w dest evs s)))).
Proof. exact notif_msgs_sessions. Qed.
Theorem C17_session_ids_cycle : forall ds, run_assign sess_init ds = spec_assign [] ds.
Proof. exact assign_cycle. Qed.
Theorem C17_transmission : forall w e spec,
  notify_send e spec w =
  match build_notifications w (ep_dest e) (events_of spec w) [] (s_sess w) with
  | Some ([], s') => sw_sess s' w
  | Some (buf, s') => semit (SvSent (ep_dest e) buf) (sw_sess s' w)
  | None => sw_sess (consume_ids w (ep_dest e) (events_of spec w) (s_sess w)) w
  end.
Proof. exact notify_send_emits. Qed.

Theorem C17_refuse_unknown_eventgroup : forall eg eps w, eg <> s_eg w -> exec_sapi (SSubscribe eg eps) w = semit SvNak w.
Proof. exact refuse_unknown_eventgroup. Qed.
Theorem C17_refuse_not_exactly_one_endpoint : forall eps w, length eps <> 1%nat -> exec_sapi (SSubscribe (s_eg w) eps) w = semit SvNak w.
Proof. exact refuse_not_one_endpoint. Qed.
Theorem C17_refusal_changes_nothing : forall ev w, s_eps (semit ev w) = s_eps w /\ s_has_clients (semit ev w) = s_has_clients w
  /\ s_tasks (semit ev w) = s_tasks w /\ s_ready (semit ev w) = s_ready w /\ s_timers (semit ev w) = s_timers w
  /\ s_values (semit ev w) = s_values w /\ s_sess (semit ev w) = s_sess w.
Proof. exact semit_frame. Qed.

Theorem C17_invariant_every_callback : forall h w, EpsInv w -> EpsInv (sexec h w).
Proof. exact sexec_inv. Qed.
Theorem C17_invariant_every_reachable_state : forall sc, EpsInv (fst (srun_scenario sc)).
Proof. exact reachable_inv. Qed.
Theorem C17_subscribe_adds_one : forall e e' w,
  count_ep e' (s_eps (eg_subscribe e w)) = count_ep e' (s_eps w) + (if ep_eqb e' e then 1 else 0).
Proof. exact count_subscribe. Qed.
Theorem C17_unsubscribe_removes_one : forall e e' w, EpsInv w ->
  count_ep e' (s_eps (fst (eg_unsubscribe e w))) = count_ep e' (s_eps w) - (if ep_eqb e' e then 1 else 0).
Proof. exact count_unsubscribe. Qed.
Theorem C17_addressed_iff_a_live_subscription_names_it : forall e w, EpsInv w ->
  (In e (map fst (s_eps w)) <-> 1 <= count_ep e (s_eps w)).
Proof. exact addressed_iff_live. Qed.

Theorem C17_round_one_child_per_endpoint : forall t k spec pc w, s_eps w <> [] ->
  start_round t k spec pc w =
  (sput t (mkSTask k pc (len (map fst (s_eps w))) false)
        (fold_left (fun acc e => snd (snew (KSingle e spec (Some t)) acc)) (map fst (s_eps w)) w), true).
Proof. exact round_children. Qed.
Theorem C17_round_without_subscribers : forall t k spec pc w, s_eps w = [] -> start_round t k spec pc w = (w, false).
Proof. exact round_without_subscribers. Qed.
Theorem C17_notify_once_without_clients : forall evs w, s_has_clients w = false -> exec_sapi (SNotifyOnce evs) w = w.
Proof. exact notify_once_without_clients. Qed.

(* non-vacuity: a concrete scenario (two subscribers, one leaves, explicit and cyclic rounds) passes the checker on
   the model's own trace *)
Definition ex_sc : sscenario :=
  mkSSc 4660 1 5 1048576 0 [(1, [7]); (2, [])]
        [(10, SSubscribe 5 [mkEp false 1 4000]); (20, SSubscribe 5 [mkEp true 3 4000]); (30, SNotifyOnce [2; 1]);
         (40, SUnsubscribe 5 [mkEp false 1 4000]); (50, SSubscribe 6 [mkEp false 1 4000]); (3000000, SSetValue 1 [9; 9])]
        4000000 5000.
Example C17_example : let r := srun_scenario ex_sc in
  snd r = true /\ check_C17 ex_sc (rev (s_out (fst r))) = [] /\ Nat.leb 6 (length (s_out (fst r))) = true.
Proof. vm_compute. auto. Qed.

(* who is accepted and how subscriptions are counted is the logic translated from the source text of service.py on every run:
   a subscription is accepted exactly for a known eventgroup and exactly ONE endpoint (whatever its protocol or family);
   subscribe adds one to the endpoint's count, unsubscribe takes one off and removes the endpoint when none is left *)
Theorem C17_client_subscribed_is_the_translated_source : forall eg eps w,
  exec_sapi (SSubscribe eg eps) w
  = if gen_client_subscribed_accepts (eg =? s_eg w) (N.of_nat (length eps))
    then match eps with e :: _ => eg_subscribe e w | [] => w end
    else semit SvNak w.
Proof. exact client_subscribed_is_the_translated_source. Qed.
Theorem C17_subscribe_counts_as_the_translated_source : forall e w,
  s_eps (eg_subscribe e w)
  = match aget ep_eqb e (s_eps w) with
    | Some n => aset ep_eqb e (gen_eg_subscribe_count n) (s_eps w)
    | None => s_eps w ++ [(e, gen_eg_subscribe_count 0)]
    end.
Proof. exact eg_subscribe_counts_as_the_translated_source. Qed.
Theorem C17_unsubscribe_is_the_translated_source : forall e w,
  eg_unsubscribe e w
  = match gen_eg_unsubscribe (match aget ep_eqb e (s_eps w) with Some _ => true | None => false end)
                             (match aget ep_eqb e (s_eps w) with Some n => n | None => 0 end) with
    | None => (w, false)
    | Some r =>
        let eps := match r with None => adel ep_eqb e (s_eps w) | Some c => aset ep_eqb e c (s_eps w) end in
        (sw_group eps (match eps with [] => false | _ => s_has_clients w end) (s_cy_waiting w) w, true)
    end.
Proof. exact eg_unsubscribe_is_the_translated_source. Qed.

Print Assumptions C17_client_subscribed_is_the_translated_source.
Print Assumptions C17_subscribe_counts_as_the_translated_source.
Print Assumptions C17_unsubscribe_is_the_translated_source.
Print Assumptions C17_datagram_is_the_notifications.
Print Assumptions C17_header_fields.
Print Assumptions C17_one_notification_per_event_in_order.
Print Assumptions C17_session_ids_are_the_destinations_next.
Print Assumptions C17_session_ids_cycle.
Print Assumptions C17_transmission.
Print Assumptions C17_refuse_unknown_eventgroup.
Print Assumptions C17_refuse_not_exactly_one_endpoint.
Print Assumptions C17_refusal_changes_nothing.
Print Assumptions C17_invariant_every_callback.
Print Assumptions C17_invariant_every_reachable_state.
Print Assumptions C17_subscribe_adds_one.
Print Assumptions C17_unsubscribe_removes_one.
Print Assumptions C17_addressed_iff_a_live_subscription_names_it.
Print Assumptions C17_round_one_child_per_endpoint.
Print Assumptions C17_round_without_subscribers.
Print Assumptions C17_notify_once_without_clients.
