(* C12 - FindService is answered only by matching, ready instances, by unicast, in time.  Function-level theorems
   over every world; wildcard matching itself is C19.  NOT proved end-to-end through the loop; checked on every run. *)
From PS Require Import Lib.Base Generated.Consts Model.SdTypes Model.Config Model.Session Model.StackTypes Model.Stack
  Proofs.StackOpsProofs Model.Skel Generated.LogicGen Proofs.GenSkel.

Theorem C12_who : forall e i w, inst_matches_find e i w = true <->
  exists ins, get_inst i w = Some ins /\ in_can_answer ins = true /\ matches_find (in_service ins) e = Ok true.
Proof. exact find_who. Qed.
Theorem C12_unicast_without_delay : forall e a w,
  announcer_handle_findservice e a false w
  = fold_left (fun acc i => call_soon (HAnswerFind i a) acc) (filter (fun i => inst_matches_find e i w) (announcing w)) w.
Proof. exact find_unicast_immediately. Qed.
Theorem C12_multicast_within_window : forall e a w,
  filter (fun i => inst_matches_find e i w) (announcing w) <> [] ->
  let d := fst (draw (t_rr_min (cfg w)) (t_rr_max (cfg w)) w) in
  announcer_handle_findservice e a true w
  = fold_left (fun acc i => snd (call_later d (HAnswerFind i a) acc))
              (filter (fun i => inst_matches_find e i w) (announcing w)) (snd (draw (t_rr_min (cfg w)) (t_rr_max (cfg w)) w)).
Proof. exact find_multicast_delayed. Qed.
Theorem C12_delay_in_window : forall lo hi w, lo <= hi -> lo <= fst (draw lo hi w) <= hi.
Proof. exact draw_in_window. Qed.
Theorem C12_nobody_else_answers : forall e a mc w,
  filter (fun i => inst_matches_find e i w) (announcing w) = [] -> announcer_handle_findservice e a mc w = w.
Proof. exact find_nobody_matches. Qed.
Theorem C12_answer_content : forall i a w ins, get_inst i w = Some ins -> in_can_answer ins = true ->
  answer_find i a w = queue_send (create_offer_entry (in_service ins) (t_announce_ttl (cfg w))) (Some a) w.
Proof. exact answer_is_configured_offer. Qed.
Theorem C12_not_ready_silent : forall i a w,
  (match get_inst i w with Some ins => in_can_answer ins = false | None => True end) -> answer_find i a w = w.
Proof. exact answer_suppressed_when_not_ready. Qed.

(* every FindService entry of a received message reaches the announcer, whatever precedes it in the message: the per-entry
   dispatch of sd_message_received in the model IS the control flow translated from the source text on every run *)
Theorem C12_dispatch_is_the_translated_source : forall h a mc w,
  Some (sd_message_received h a mc w) = if gen_sd_accept (sd_unicast h) then run_dispatch (sd_entries h) a mc w else Some w.
Proof. exact sd_message_received_is_the_translated_source. Qed.

(* answering a FindService is the control flow translated from the source text of sd.py on every run: which instances match
   (ready AND the service's wildcard rules), nothing when none does, the answers deferred by one drawn delay (multicast) or
   to the next iteration (unicast), and readiness judged again when the answer fires *)
Theorem C12_handle_findservice_is_the_translated_source : forall e a mc w,
  let matching := filter (fun i => inst_matches_find e i w) (announcing w) in
  announcer_handle_findservice e a mc w
  = fst (fold_left (run_fact e a matching) (gen_handle_find (match matching with [] => false | _ => true end) mc) (w, 0)).
Proof. exact handle_findservice_is_the_translated_source. Qed.
Theorem C12_instance_matches_find_is_the_translated_source : forall e i w ins,
  get_inst i w = Some ins ->
  inst_matches_find e i w
  = gen_inst_matches_find (in_can_answer ins) (match matches_find (in_service ins) e with Ok true => true | _ => false end).
Proof. exact inst_matches_find_is_the_translated_source. Qed.
Theorem C12_answer_find_is_the_translated_source : forall i a w ins,
  get_inst i w = Some ins ->
  answer_find i a w = fold_left (fun acc f => match f with FSendOffer => inst_send_offer i (Some a) false acc | _ => acc end)
                                (gen_answer_find (in_can_answer ins)) w.
Proof. exact answer_find_is_the_translated_source. Qed.

Print Assumptions C12_handle_findservice_is_the_translated_source.
Print Assumptions C12_instance_matches_find_is_the_translated_source.
Print Assumptions C12_answer_find_is_the_translated_source.
Print Assumptions C12_who.
Print Assumptions C12_unicast_without_delay.
Print Assumptions C12_multicast_within_window.
Print Assumptions C12_delay_in_window.
Print Assumptions C12_nobody_else_answers.
Print Assumptions C12_answer_content.
Print Assumptions C12_not_ready_silent.
Print Assumptions C12_dispatch_is_the_translated_source.
