(* C15 - Queued SD entries are sent exactly once, in order, to the right peer, in time.
   Proved for EVERY sequence of queue requests and collector firings (abstract machine mirroring
   queue_send / collector_timeout of Model/Stack.v): per destination, transmitted ++ pending = queued;
   a collector never changes destination; and what the model functions do case by case (zero timeout: one
   message per entry at once; open collector: append; none: new collector with one timer at now + timeout;
   timeout: send_sd of exactly the collected entries to the collector's destination).
   NOT proved: the deadline clause end-to-end through the loop model (that the timer created by
   queue_send_new fires at its deadline is the loop model's iteration rule); checked on every run. *)
From PS Require Import Lib.Base Generated.Consts Model.SdTypes Model.Config Model.Session Model.StackTypes Model.Stack
  Model.StackIO Spec.AnnSpec Proofs.QueueProofs Proofs.WorldInv Proofs.WorldTime.

Theorem C15_conservation : forall ops s d, QInv s ->
  sent_for d (snd (q_run s ops)) ++ pending_for (fst (q_run s ops)) d = pending_for s d ++ queued_for d ops.
Proof. exact run_conservation. Qed.
Theorem C15_exactly_once_in_order : forall ops d,
  let r := q_run q_init ops in pending_for (fst r) d = [] -> sent_for d (snd r) = queued_for d ops.
Proof. exact exactly_once_in_order. Qed.
Theorem C15_no_mixing : forall s o c co, QInv s -> aget N.eqb c (q_colls s) = Some co ->
  exists co', aget N.eqb c (q_colls (fst (q_step s o))) = Some co' /\ co_dest co' = co_dest co.
Proof. exact batch_destination_fixed. Qed.
Theorem C15_zero_timeout_immediate : forall e d w, t_collect (cfg w) = 0 -> queue_send e d w = send_sd [e] d w.
Proof. exact queue_send_zero. Qed.
Theorem C15_append_to_open_collector : forall e d w c co,
  t_collect (cfg w) <> 0 -> open_collector w d = Some (c, co) ->
  queue_send e d w = set_collectors (aset N.eqb c (mkColl (co_dest co) (co_data co ++ [e]) false) (collectors w)) w.
Proof. exact queue_send_append. Qed.
Theorem C15_new_collector_deadline : forall e d w,
  t_collect (cfg w) <> 0 -> open_collector w d = None ->
  let w' := queue_send e d w in
  out w' = out w /\ ready w' = ready w
  /\ timers w' = timers w ++ [(now w + t_collect (cfg w), next_id w, HCollector (next_id w))]
  /\ next_id w' = next_id w + 1
  /\ aget dest_eqb d (queues w') = Some (next_id w)
  /\ collectors w' = collectors w ++ [(next_id w, mkColl d [e] false)].
Proof. exact queue_send_new. Qed.
Theorem C15_timeout_sends_collected : forall c w co,
  aget N.eqb c (collectors w) = Some co ->
  collector_timeout c w = send_sd (co_data co) (co_dest co)
      (set_collectors (aset N.eqb c (mkColl (co_dest co) (co_data co) true) (collectors w)) w).
Proof. exact collector_timeout_spec. Qed.

(* on the full stack model, under every schedule: an open collector always owns its pending, uncancelled timeout handle,
   so every collected batch is transmitted (collector_timeout) and no other component can cancel it *)
Theorem C15_open_collector_owns_its_timeout : forall w, G w -> forall c, open_coll w c = true ->
  In (c, HCollector c) (tided w) /\ memN c (cancelled w) = false.
Proof. intros w Hg c H. exact (g_coll _ _ Hg c H). Qed.
Theorem C15_in_every_reachable_state : forall s sc, d_scenario s = Some sc -> G (fst (run_scenario sc)).
Proof. exact G_reachable. Qed.

(* deadline: the collector's timeout handle is armed at now + timeout (C15_new_collector_deadline) and every timer callback
   the loop runs was armed for exactly the current instant: a collected batch leaves exactly when its window closes *)
Theorem C15_timeouts_run_exactly_at_their_deadline : forall arrivals rv w, Tinv w ->
  let w1 := fold_left (fun acc h => call_soon h acc) arrivals w in
  (exists due', ready (iter_pre arrivals rv w) = ready w1 ++ map (fun t : N * N * handle => (Some (snd (fst t)), snd t)) due'
                /\ forall t, In t due' -> In t (timers w) /\ fst (fst t) = now w)
  /\ Tinv (iteration arrivals rv w) /\ now (iteration arrivals rv w) = now w.
Proof. exact iteration_on_time. Qed.

(* non-vacuity of the checker's domain restriction: an ordinary offer entry is encodable, one with a 17-bit instance id is not *)
Example C15_unencodable_examples :
  unencodable (mkEntry ET_OfferService 4369 1 1 3 7 [] [] None) = false
  /\ unencodable (mkEntry ET_OfferService 4369 74565 1 3 0 [] [] None) = true.
Proof. vm_compute. split; reflexivity. Qed.

Print Assumptions C15_conservation.
Print Assumptions C15_timeouts_run_exactly_at_their_deadline.
Print Assumptions C15_open_collector_owns_its_timeout.
Print Assumptions C15_in_every_reachable_state.
Print Assumptions C15_exactly_once_in_order.
Print Assumptions C15_no_mixing.
Print Assumptions C15_zero_timeout_immediate.
Print Assumptions C15_append_to_open_collector.
Print Assumptions C15_new_collector_deadline.
Print Assumptions C15_timeout_sends_collected.
