(* C15 - Queued SD entries are sent exactly once, in order, to the right peer, in time.
   Proved for EVERY sequence of queue requests and collector firings (abstract machine mirroring
   queue_send / collector_timeout of Model/Stack.v): per destination, transmitted ++ pending = queued;
   a collector never changes destination; and what the model functions do case by case (zero timeout: one
   message per entry at once; open collector: append; none: new collector with one timer at now + timeout;
   timeout: send_sd of exactly the collected entries to the collector's destination).
   On the full loop model (Model/Stack.v), for every scenario, schedule and reachable state: an open collector owns
   its pending uncancelled timeout (WorldInv), timer callbacks run exactly at their deadline (WorldTime), every pending
   collector timeout lies within [now, now + collection timeout] and an entry just queued sits last in the open
   collector of its destination with such a deadline (WorldDeadline), and a completed run leaves no collector whose
   deadline was due (WorldDone).  Together with C15_timeout_sends_collected this is the "in time, exactly once, in
   order" chain link by link.
   And over WHOLE RUNS of the full stack, for every scenario and schedule (Proofs/WorldLog.v, by a ghost history of
   queue requests and hand-overs that every callback is proved to keep consistent): per destination,
       entries handed over for transmission so far ++ entries pending in the open collector = entries queued so far
   - nothing lost, duplicated, reordered or moved to another destination; a collector's timeout runs at most once.
   The time clause over whole runs as well (Proofs/WorldLogTime.v): every hand-over in the history took exactly the
   entries queued for its destination since the previous hand-over, each queued at most one collection timeout earlier
   (intime), and what is still pending has a timeout due at most one collection timeout after its queue time.
   The wire as well: in every reachable state the datagrams in the observable trace are exactly the logged
   transmissions, encoded (C15_wire_is_the_history), and an encoded transmission decodes - SOME/IP header, SD header,
   option resolution - to exactly the entries handed to send_sd with the session id and reboot flag it was given
   (C15_transmitted_datagram_decodes; for entries whose options are well formed, the domain of C02).
   What the theorems do not cover is the implementation itself: that is the correspondence (complete traces, bytes and
   ticks, model versus real stack) and the extracted check_C15 on every run. *)
From PS Require Import Lib.Base Generated.Consts Model.SdTypes Model.Config Model.Session Model.Someip Model.SdCodec Model.StackTypes Model.Stack
  Model.StackIO Spec.AnnSpec Proofs.QueueProofs Proofs.WorldInv Proofs.WorldTime Proofs.WorldDone Proofs.WorldDeadline Proofs.WorldLog Proofs.WorldLogTime Proofs.SdMsgProofs Proofs.WireProofs Model.Skel Generated.LogicGen Proofs.GenSkel.

Theorem C15_conservation : forall ops s d, QInv s ->
  sent_for d (snd (q_run s ops)) ++ pending_for (fst (q_run s ops)) d = pending_for s d ++ queued_for d ops.
Proof. exact run_conservation. Qed.
Theorem C15_exactly_once_in_order : forall ops d,
  let r := q_run q_init ops in pending_for (fst r) d = [] -> sent_for d (snd r) = queued_for d ops.
Proof. exact exactly_once_in_order. Qed.
Theorem C15_no_mixing : forall s o c co, QInv s -> aget N.eqb c (q_colls s) = Some co ->
  exists co', aget N.eqb c (q_colls (fst (q_step s o))) = Some co' /\ co_dest co' = co_dest co.
Proof. exact batch_destination_fixed. Qed.
Theorem C15_zero_timeout_immediate : forall e d w, t_collect (cfg w) = 0 ->
  queue_send e d w = send_sd [e] d (ghost (GFlush d [e]) (ghost (GQueue e d) w)).
Proof. exact queue_send_zero. Qed.
Theorem C15_append_to_open_collector : forall e d w c co,
  t_collect (cfg w) <> 0 -> open_collector w d = Some (c, co) ->
  queue_send e d w = set_collectors (aset N.eqb c (mkColl (co_dest co) (co_data co ++ [e]) false) (collectors w))
                                    (ghost (GQueue e d) w).
Proof. exact queue_send_append. Qed.
Theorem C15_new_collector_deadline : forall e d w,
  t_collect (cfg w) <> 0 -> open_collector w d = None ->
  let w' := queue_send e d w in
  out w' = out w /\ ready w' = ready w
  /\ timers w' = timers w ++ [(now w + t_collect (cfg w), next_id w, HCollector (next_id w))]
  /\ next_id w' = next_id w + 1
  /\ aget dest_eqb d (queues w') = Some (next_id w)
  /\ collectors w' = collectors w ++ [(next_id w, mkColl d [e] false)].
Proof. exact queue_send_new. Qed.
Theorem C15_timeout_sends_collected : forall c w co,
  aget N.eqb c (collectors w) = Some co ->
  collector_timeout c w = send_sd (co_data co) (co_dest co)
      (set_collectors (aset N.eqb c (mkColl (co_dest co) (co_data co) true) (collectors w))
                      (ghost (GFlush (co_dest co) (co_data co)) w)).
Proof. exact collector_timeout_spec. Qed.

(* on the full stack model, under every schedule: an open collector always owns its pending, uncancelled timeout handle,
   so every collected batch is transmitted (collector_timeout) and no other component can cancel it *)
Theorem C15_open_collector_owns_its_timeout : forall w, G w -> forall c, open_coll w c = true ->
  In (c, HCollector c) (tided w) /\ memN c (cancelled w) = false.
Proof. intros w Hg c H. exact (g_coll _ _ Hg c H). Qed.
Theorem C15_in_every_reachable_state : forall s sc, d_scenario s = Some sc -> G (fst (run_scenario sc)).
Proof. exact G_reachable. Qed.

(* deadline: the collector's timeout handle is armed at now + timeout (C15_new_collector_deadline) and every timer callback
   the loop runs was armed for exactly the current instant: a collected batch leaves exactly when its window closes *)
Theorem C15_timeouts_run_exactly_at_their_deadline : forall arrivals rv w, Tinv w ->
  let w1 := fold_left (fun acc h => call_soon h acc) arrivals w in
  (exists due', ready (iter_pre arrivals rv w) = ready w1 ++ map (fun t : N * N * handle => (Some (snd (fst t)), snd t)) due'
                /\ forall t, In t due' -> In t (timers w) /\ fst (fst t) = now w)
  /\ Tinv (iteration arrivals rv w) /\ now (iteration arrivals rv w) = now w.
Proof. exact iteration_on_time. Qed.

(* deadline bound, end to end: in every reachable state of every scenario each open collector has its timeout pending,
   uncancelled, not overdue and at most one collection timeout away *)
Theorem C15_open_collectors_flush_within_the_timeout : forall s sc, d_scenario s = Some sc ->
  let w := fst (run_scenario sc) in
  G w /\ Tinv w /\ Jc w
  /\ forall c, open_coll w c = true ->
       exists when, In (when, c, HCollector c) (timers w) /\ memN c (cancelled w) = false
                    /\ now w <= when <= now w + t_collect (cfg w).
Proof. exact reachable_collectors_in_time. Qed.

(* one queued entry: it is the last element of the open collector registered for its destination, whose timeout is
   pending, uncancelled and due no later than now + collection timeout *)
Theorem C15_queued_entry_has_a_deadline : forall e d w, G w -> Jc w -> t_collect (cfg w) <> 0 ->
  let w' := queue_send e d w in
  exists c co, open_collector w' d = Some (c, co) /\ last (co_data co) e = e /\ In e (co_data co)
    /\ In (c, HCollector c) (tided w') /\ memN c (cancelled w') = false
    /\ (forall when, In (when, c, HCollector c) (timers w') -> when <= now w + t_collect (cfg w)).
Proof. exact queued_entry_has_a_deadline. Qed.

(* the invariant Jc is kept by every callback of the stack and by every run *)
Theorem C15_deadline_bound_kept_by_every_callback : forall h w, Jc w -> Jc (exec h w).
Proof. intros h w Hj. eapply Jc_cext; [apply C_exec|exact Hj]. Qed.
Theorem C15_deadline_bound_kept_by_every_run : forall fuel events t_end rv w, Jc w -> Jc (fst (run fuel events t_end rv w)).
Proof. exact Jc_run. Qed.

(* a completed run to t_end: no runnable handle is left and whatever collector is still open is due after t_end *)
Theorem C15_completed_run_leaves_no_overdue_collector : forall fuel events t_end rv w w', G w ->
  run fuel events t_end rv w = (w', true) ->
  ready w' = [] /\ forall c, open_coll w' c = true -> exists when, In (when, c, HCollector c) (timers w') /\ t_end < when.
Proof.
  intros fuel events t_end rv w w' Hg Hrun. destruct (run_complete _ _ _ _ _ _ Hrun) as [Hr Hl].
  split; [exact Hr|]. intros c Ho. apply (quiescent_collector t_end w'); try assumption.
  replace w' with (fst (run fuel events t_end rv w)) by (rewrite Hrun; reflexivity). apply G_run. exact Hg.
Qed.

(* conservation over whole runs of the stack: every reachable state of every scenario, whatever the schedule *)
Theorem C15_conservation_on_the_stack : forall s sc, d_scenario s = Some sc ->
  let w := fst (run_scenario sc) in
  forall d, log_flushed d (glog w) ++ w_pending w d = log_queued d (glog w).
Proof. exact reachable_conservation. Qed.
Theorem C15_exactly_once_in_order_on_the_stack : forall s sc, d_scenario s = Some sc ->
  let w := fst (run_scenario sc) in
  forall d, open_collector w d = None -> log_flushed d (glog w) = log_queued d (glog w).
Proof. exact reachable_exactly_once_in_order. Qed.
(* the invariant behind it is kept by every callback that is not a timer expiry / collector timeout, by queue_send, by
   a collector's timeout when its handle is popped, hence by every step of the loop *)
Theorem C15_history_invariant_kept_by_queue_send : forall X e d w, GP X w -> Kinv w -> Kinv (queue_send e d w).
Proof. exact K_queue_send. Qed.
Theorem C15_history_invariant_kept_by_a_collector_timeout : forall w tid c r, G w -> Kinv w ->
  ready w = (Some tid, HCollector c) :: r -> Kinv (collector_timeout c (set_ready r w)).
Proof. exact K_collector_fire. Qed.
Theorem C15_history_invariant_kept_by_every_loop_step : forall w, GGK [] w -> GGK [] (lstep1 w).
Proof. exact GGK_lstep1. Qed.
Theorem C15_history_invariant_kept_by_every_run : forall fuel events t_end rv w,
  Forall (fun e => soon_ok (snd e) = true) events -> GGK [] w -> GGK [] (fst (run fuel events t_end rv w)).
Proof. exact GGK_run. Qed.
(* what is logged: send_sd records the (flag, id) it was given with the entries it transmits *)
Theorem C15_hand_over_is_transmitted : forall e es d w,
  exists f i, glog (send_sd (e :: es) d w) = (now w, GSend (e :: es) d f i) :: glog w
              /\ fst (assign_outgoing (sess w) d) = (f, i).
Proof. exact send_sd_log. Qed.

(* the time clause over whole runs of the stack: every reachable state of every scenario, whatever the schedule *)
Theorem C15_every_hand_over_in_time_on_the_stack : forall s sc, d_scenario s = Some sc ->
  let w := fst (run_scenario sc) in intime (t_collect (cfg w)) (glog w) = true.
Proof. exact reachable_flush_in_time. Qed.
Theorem C15_pending_entries_have_a_deadline_on_the_stack : forall s sc, d_scenario s = Some sc ->
  let w := fst (run_scenario sc) in
  forall d c co, open_collector w d = Some (c, co) ->
    length (ptimes d (glog w)) = length (co_data co)
    /\ forall when, In (when, c, HCollector c) (timers w) -> forall tq, In tq (ptimes d (glog w)) -> when <= tq + t_collect (cfg w).
Proof. exact reachable_pending_deadlines. Qed.
(* intime distinguishes: on time / late / a hand-over that does not take everything pending *)
Example C15_intime_example :
  let e := mkEntry ET_OfferService 1 1 1 3 0 [] [] None in
  intime 5 [(12, GFlush None [e; e]); (9, GQueue e None); (7, GQueue e None)] = true
  /\ intime 5 [(13, GFlush None [e; e]); (9, GQueue e None); (7, GQueue e None)] = false
  /\ intime 5 [(12, GFlush None [e]); (9, GQueue e None); (7, GQueue e None)] = false.
Proof. exact intime_example. Qed.

(* the observable transmissions are the logged ones, encoded - in every reachable state of every scenario *)
Theorem C15_wire_is_the_history : forall s sc, d_scenario s = Some sc ->
  let w := fst (run_scenario sc) in wire (out w) = gwire (glog w).
Proof. exact reachable_wire. Qed.
(* and one encoded transmission decodes to exactly what was handed to send_sd *)
Theorem C15_transmitted_datagram_decodes : forall es f i b, Forall wf_rentry es -> sd_datagram es f i = Ok b ->
  exists a p,
    parse_msg b = Ok (mkMsg SD_SERVICE SD_METHOD 0 i 1 MT_NOTIFICATION 1 RC_E_OK p, [])
    /\ parse_sd p = Ok (a, [])
    /\ sd_reboot a = f
    /\ resolve_sd a = Ok (mkSd es (sd_options a) f true 0).
Proof. exact sd_datagram_decodes. Qed.

(* non-vacuity of the checker's domain restriction: an ordinary offer entry is encodable, one with a 17-bit instance id is not *)
Example C15_unencodable_examples :
  unencodable (mkEntry ET_OfferService 4369 1 1 3 7 [] [] None) = false
  /\ unencodable (mkEntry ET_OfferService 4369 74565 1 3 0 [] [] None) = true.
Proof. vm_compute. split; reflexivity. Qed.

(* ServiceAnnouncer.queue_send is the control flow translated from the source text of sd.py on every run: the zero-timeout
   bypass, the collector looked up under the destination AS GIVEN, a new collector (whose timeout is armed then) when none is
   open, the entry appended - in every state the ownership invariant holds in (collector ids are timer ids) *)
Theorem C15_queue_send_is_the_translated_source : forall X e remote w, GP X w ->
  let wg := ghost (GQueue e remote) w in
  queue_send e remote w
  = fold_left (run_qact e remote)
      (gen_queue_send (t_collect (cfg w) =? 0) (match open_coll_of remote wg with Some _ => true | None => false end)) wg.
Proof. intros X e remote w Hg. apply queue_send_is_the_translated_source. apply (g_collfresh X w Hg). Qed.

Print Assumptions C15_queue_send_is_the_translated_source.
Print Assumptions C15_conservation.
Print Assumptions C15_conservation_on_the_stack.
Print Assumptions C15_wire_is_the_history.
Print Assumptions C15_transmitted_datagram_decodes.
Print Assumptions C15_every_hand_over_in_time_on_the_stack.
Print Assumptions C15_pending_entries_have_a_deadline_on_the_stack.
Print Assumptions C15_exactly_once_in_order_on_the_stack.
Print Assumptions C15_history_invariant_kept_by_queue_send.
Print Assumptions C15_history_invariant_kept_by_a_collector_timeout.
Print Assumptions C15_history_invariant_kept_by_every_loop_step.
Print Assumptions C15_history_invariant_kept_by_every_run.
Print Assumptions C15_hand_over_is_transmitted.
Print Assumptions C15_open_collectors_flush_within_the_timeout.
Print Assumptions C15_queued_entry_has_a_deadline.
Print Assumptions C15_deadline_bound_kept_by_every_callback.
Print Assumptions C15_deadline_bound_kept_by_every_run.
Print Assumptions C15_completed_run_leaves_no_overdue_collector.
Print Assumptions C15_timeouts_run_exactly_at_their_deadline.
Print Assumptions C15_open_collector_owns_its_timeout.
Print Assumptions C15_in_every_reachable_state.
Print Assumptions C15_exactly_once_in_order.
Print Assumptions C15_no_mixing.
Print Assumptions C15_zero_timeout_immediate.
Print Assumptions C15_append_to_open_collector.
Print Assumptions C15_new_collector_deadline.
Print Assumptions C15_timeout_sends_collected.
