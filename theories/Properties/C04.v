(* C04 - Two SD stacks converge: offers are discovered, subscriptions established.
   Model: Model/System.v - two Model/Stack.v worlds (each with its own event loop) and a network with per-datagram
   loss / duplication / delay decided by an oracle inside a fault window, graceful stop/start, crash and restart.
   Proved (interface lemmas of the composition, for every state):
     - a crashed node sends nothing and keeps nothing; a restarted node is a fresh world (fresh session storage);
     - the first message of a restarted node to any destination carries (reboot flag, session id 1), and every peer
       that has heard from it before detects the reboot (ids sent before are >= 1 by C08), a peer that never did
       does not;
     - outside the fault window the network delivers every datagram that has a receiver exactly once, in sending
       order, after the constant latency (>= 1 tick: the two loops never interact within one instant), and does not
       consume the fault oracle.
   The component guarantees the convergence argument composes are those of C05/C09 (TTL store), C06/C11
   (subscriptions, acknowledgements), C07/C08 (sessions), C10 (offers), C14 (subscriber).
   NOT proved: the convergence statement itself over the composed model (C04_converge: for every scenario in the
   domain, after last disturbance + TTL + period both listener views equal the truth and stay).  It is decided on
   every run by executing the composed model AND two real stacks on the same scenarios (complete traces compared,
   event by event) and judging the implementation traces with the extracted check_C04 below. *)
From PS Require Import Lib.Base Generated.Consts Model.SdTypes Model.Config Model.Session Model.StackTypes Model.Stack
  Model.StackIO Model.System Spec.C08Spec Spec.C04Spec Proofs.C07Proofs Proofs.WorldInv Proofs.SystemProofs Model.Skel Generated.LogicGen Proofs.GenSkel Proofs.KeyEquiv Proofs.WorldInv2 Proofs.WorldLog Proofs.WorldSubs Proofs.FoundLog Proofs.WorldFound Proofs.SystemInv Proofs.SystemWhole Proofs.WorldLogTime Proofs.WorldExpiry.

Theorem C04_crash_is_silent : forall t b nd fuel rv arrived w tr,
  node_step t b nd fuel rv [CCrash] arrived w tr = (None, match w with Some x => out x ++ tr | None => tr end, [], true).
Proof. exact crash_is_silent. Qed.
Theorem C04_restart_is_fresh : forall t nd, let w := fresh_world t nd in
  now w = t /\ sess w = sess_init /\ found w = [] /\ sub_entries w = [] /\ watched w = [] /\ timers w = [] /\ ready w = []
  /\ tasks w = [] /\ collectors w = [] /\ out w = [] /\ cfg w = nd_cfg nd /\ draws w = nd_draws nd.
Proof. exact restart_is_fresh. Qed.
Theorem C04_first_message_after_restart : forall d, fst (assign_outgoing sess_init d) = (true, 1).
Proof. exact first_message_after_restart. Qed.
Theorem C04_ids_sent_before_are_positive : forall k, 1 <= nth_id k <= 65535.
Proof. exact nth_id_range. Qed.
Theorem C04_reboot_evidence_detected : forall s a mc f old,
  aget in_key_eqb (a, mc) (incoming s) = Some (f, old) -> 1 <= old -> fst (check_received s a mc true 1) = true.
Proof. exact reboot_evidence_detected. Qed.
Theorem C04_first_contact_is_no_reboot : forall s a mc f sid,
  aget in_key_eqb (a, mc) (incoming s) = None -> fst (check_received s a mc f sid) = false.
Proof. exact first_contact_is_no_reboot. Qed.
Theorem C04_network_reliable_outside_fault_window : forall t lat fe from to_ other sends s, fe <= t ->
  let s' := enqueue t lat fe from to_ sends other s in
  sy_net s' = sy_net s ++ map (as_dgram t lat from to_ other) (filter (deliverable other) sends)
  /\ sy_dec s' = sy_dec s /\ sy_a s' = sy_a s /\ sy_b s' = sy_b s.
Proof. exact reliable_outside_fault_window. Qed.
Theorem C04_latency_positive : forall t lat from to_ other sd, t < dg_at (as_dgram t lat from to_ other sd).
Proof. exact latency_positive. Qed.

(* non-vacuity: a concrete run of the composed model - the offerer crashes 5 ticks after start and restarts, two
   datagrams are lost / duplicated, the watcher is stopped gracefully at 1 s and started again - is inside the domain, is judged, and
   satisfies check_C04 on the model's own traces; and the checker does reject a trace without the watcher's events *)
Definition ex_sexp : sexp := L [L [A 1; L [A 0; A 0; A 0; A 0; A 1; A 10240; A 524288; A 3; A 2; A 2; L [A 524288]; A 0]; L [L [A 1; L [A 4369; A 1; A 1; A 7; L []; L []; L [A 5; A 6]]; L []]]; L [A 0; A 0; A 0; A 0]; L [L [A 17; A 1]; L [A 0]]]; L [A 2; L [A 0; A 0; A 0; A 0; A 1; A 10240; A 524288; A 3; A 2; A 2; L [A 524288]; A 0]; L []; L [A 0; A 0; A 0; A 0]; L [L [A 3; L [A 4369; A 1; A 1; A 4294967295; L []; L []; L []]; L [A 0; A 0]]; L [A 7; L [A 4369; A 1; A 1; A 5; L [A 0; B [10; 0; 0; 9]; A 4100]; A 17]]; L [A 0]]]; L [L [A 0; A 0; L [A 2]]; L [A 0; A 1; L [A 2]]; L [A 5; A 0; L [A 1]]; L [A 131072; A 0; L [A 2]]; L [A 1048576; A 1; L [A 0; L [A 1]]]; L [A 1179648; A 1; L [A 0; L [A 0]]]]; L [L []; L [A 1; A 1]]; A 262144; A 1; A 5152792; A 0; A 4000].
Definition ex_verdict : option (list N * list N * bool * bool) :=
  match d_sys_scenario ex_sexp with
  | Some sc => let '(s, completed) := sys_run_scenario sc in
               let ta := full_trace (sy_a s) (sy_tra s) in
               let tb := full_trace (sy_b s) (sy_trb s) in
               Some (check_C04 sc ta tb, check_C04 sc ta [], completed && sy_ok s, in_domain sc)
  | None => None
  end.
Example C04_example : ex_verdict = Some ([], [1], true, true).
Proof. vm_compute. reflexivity. Qed.

(* both stacks satisfy the ownership invariant (C09/C10/C15: stored entries own live expiry timers, sleeping tasks own their
   wake-ups, open collectors own their timeouts) in every state of every run of the composition - after any sequence of
   stop / start / crash / restart and any loss, duplication or reordering *)
Theorem C04_both_stacks_well_formed_in_every_state : forall sc,
  fresh_insts (nd_insts (ss_a sc)) -> fresh_insts (nd_insts (ss_b sc)) -> sys_ok (fst (sys_run_scenario sc)).
Proof. exact sys_reachable_ok. Qed.

(* the whole-run invariants of one stack - C15 conservation / C08 session ids / wire = history (Kinv), the truthful
   alternating histories of the server listeners (S6, C06) and of the discovery listeners (F5, C05) - hold for the stack
   living at EITHER address in every state of every run of the composition: after any sequence of graceful stop / start,
   crash and restart of either side and any loss, duplication or reordering of datagrams *)
Theorem C04_whole_run_invariants_in_the_composition : forall sc w,
  fresh_insts (nd_insts (ss_a sc)) -> fresh_insts (nd_insts (ss_b sc)) ->
  (sy_a (fst (sys_run_scenario sc)) = Some w \/ sy_b (fst (sys_run_scenario sc)) = Some w) ->
  Kinv w /\ S6 w /\ F5 w.
Proof. exact sys_whole_run_theorems. Qed.
Theorem C04_listener_histories_truthful_in_the_composition : forall sc w,
  fresh_insts (nd_insts (ss_a sc)) -> fresh_insts (nd_insts (ss_b sc)) ->
  (sy_a (fst (sys_run_scenario sc)) = Some w \/ sy_b (fst (sys_run_scenario sc)) = Some w) ->
  ((forall i a k, sub_live i a k (out w) = amem key_eqb (KSub k) (inner a (get_store (SSubs i) w))) /\ alt_ok (out w) = true)
  /\ (forall id, tainted id (glog w) = false ->
        (forall a k, up_l id a k (out w) = stored a k w && regm id k w) /\ altl id (out w) = true).
Proof. exact sys_listener_histories. Qed.

(* the time-dependent invariants too - every collector hands over within its timeout (C15), every expiry exactly TTL
   after the latest refresh (C09) - while every settle of the run completed (sy_ok: no iteration budget ran out); each
   stack is then quiet between the instants of the composition and its clock is the composition's *)
Theorem C04_timed_invariants_in_the_composition : forall sc w,
  fresh_insts (nd_insts (ss_a sc)) -> fresh_insts (nd_insts (ss_b sc)) ->
  sy_ok (fst (sys_run_scenario sc)) = true ->
  (sy_a (fst (sys_run_scenario sc)) = Some w \/ sy_b (fst (sys_run_scenario sc)) = Some w) ->
  GGT [] w /\ GGR [] w /\ ready w = [] /\ now w = sy_now (fst (sys_run_scenario sc)).
Proof. exact sys_timed. Qed.

(* steps of the convergence argument, for every world: a received Offer (TTL > 0) of a watched service is recorded
   whatever was stored before, and every recording listener registered for it has "offered" as its latest notification;
   a Subscribe for a running matching instance is recorded before it is acknowledged (C06_instance_records_then_answers),
   a StopOffer removes the record (C05_stop_offer_withdraws_watched_or_not).  NOT proved: the liveness statement itself
   (that within TTL + period these steps happen), which the co-simulation decides. *)
Theorem C04_received_offer_is_recorded : forall X e a s w,
  GP X w -> F5 w -> from_offer_entry e = Ok s -> (e_ttl e =? 0) = false -> is_watching e w = true ->
  forall k, fkey s k = true -> stored a k (handle_offer e a w) = true.
Proof. exact offer_recorded. Qed.
Theorem C04_received_offer_is_reported : forall X e a s w,
  GP X w -> F5 w -> from_offer_entry e = Ok s -> (e_ttl e =? 0) = false -> is_watching e w = true ->
  forall id, tainted id (glog (handle_offer e a w)) = false -> regm id s (handle_offer e a w) = true ->
  up_l id a s (out (handle_offer e a w)) = true.
Proof. exact offer_reported. Qed.

(* ... and a NEW offer (nothing stored for that service from that source) makes an auto-subscribe listener registered
   for it add the subscription entry for (its eventgroup, the source): the Subscribe follows with the next round, or at
   once when the subscriber is running *)
Theorem C04_new_offer_makes_the_watcher_subscribe : forall e a s w g g' f ls,
  from_offer_entry e = Ok s -> (e_ttl e =? 0) = false -> is_watching e w = true ->
  aget key_eqb (KService s) (inner a (found w)) = None ->
  for_service g s = Some g' -> In (f, ls) (watched w) -> matches_service f s = true -> In (LAuto g) ls ->
  In (g', a) (sub_entries (handle_offer e a w)).
Proof. exact new_offer_subscribes. Qed.

(* the per-entry dispatch of ServiceDiscoveryProtocol.sd_message_received in the model IS the control flow translated
   from the source text on every run (which component handles which entry type, directly or through call_soon) *)
Theorem C04_dispatch_is_the_translated_source : forall h a mc w,
  Some (sd_message_received h a mc w) = if gen_sd_accept (sd_unicast h) then run_dispatch (sd_entries h) a mc w else Some w.
Proof. exact sd_message_received_is_the_translated_source. Qed.

(* start / stop of the protocol object call the three components in the order translated from the source text of sd.py *)
Theorem C04_start_stop_order_is_the_translated_source : forall w,
  proto_start w = fold_left (run_pact true) gen_proto_start w /\ proto_stop w = fold_left (run_pact false) gen_proto_stop w.
Proof. exact proto_start_stop_are_the_translated_source. Qed.

Print Assumptions C04_start_stop_order_is_the_translated_source.
Print Assumptions C04_crash_is_silent.
Print Assumptions C04_both_stacks_well_formed_in_every_state.
Print Assumptions C04_restart_is_fresh.
Print Assumptions C04_first_message_after_restart.
Print Assumptions C04_ids_sent_before_are_positive.
Print Assumptions C04_reboot_evidence_detected.
Print Assumptions C04_first_contact_is_no_reboot.
Print Assumptions C04_network_reliable_outside_fault_window.
Print Assumptions C04_latency_positive.
Print Assumptions C04_dispatch_is_the_translated_source.
Print Assumptions C04_whole_run_invariants_in_the_composition.
Print Assumptions C04_listener_histories_truthful_in_the_composition.
Print Assumptions C04_received_offer_is_recorded.
Print Assumptions C04_received_offer_is_reported.
Print Assumptions C04_timed_invariants_in_the_composition.
Print Assumptions C04_new_offer_makes_the_watcher_subscribe.
