(* C05 - Discovery listeners see a truthful, strictly alternating service history.
   Proved: the abstract specification (Spec/StoreSpec.v) that prescribes, per (listener, service, source), the
   history of offered/stopped notifications as a function of the inputs alone alternates for EVERY input history,
   reports a reboot's "stopped" before the same message's "offered", reports removal exactly once, and expires on
   time; plus the TimedStore machine invariant (see C09).
   Over WHOLE RUNS of the full stack model, for every scenario and schedule (Proofs/WorldFound.v, invariant F5 kept by
   every callback, loop step and run): for every recording listener that never was registered while it already had a
   registration (ghost event GMulti - outside that domain lives finding F13) the latest notification about (source,
   service) is "offered" EXACTLY when an offer of that service from that source is stored and the listener is
   registered for it (a filter that matches, or watch-all); "offered" is only ever notified when the latest notification
   is not "offered", "stopped" only when it is.  A StopOffer removes the stored offer whether or not anybody is
   watching (the model-level statement of the repair of finding F17).
   NOT proved: the timed part of the refinement (that the stored offers are exactly those the inputs prescribe, instant
   by instant - finding F18 shows the code deviates when nobody watches); checked on every run by complete-trace
   correspondence and by check_C05 (with check_C05_last) on implementation traces. *)
From PS Require Import Lib.Base Generated.Consts Model.SdTypes Model.Config Model.Session Model.StackTypes Model.Stack Model.StackIO
  Spec.TraceSpec Spec.StoreSpec Proofs.StoreSpecProofs Proofs.KeyEquiv Proofs.WorldInv Proofs.WorldInv2 Proofs.FoundLog Proofs.Same5 Proofs.WorldFound Model.Skel Generated.LogicGen Proofs.GenSkel.

Theorem C05_history_alternates : forall touches t_end e,
  expected_history touches t_end = Some e -> alternates true (map snd e) = true.
Proof. exact expected_alternates. Qed.
Theorem C05_reboot_stopped_before_offered : forall t0 t1 na t_end, t0 < t1 ->
  expected_history [(t0, TUp TTL_FOREVER na true); (t1, TDown); (t1, TUp TTL_FOREVER na true)] t_end
  = Some [(t0, true); (t1, false); (t1, true)].
Proof. exact reboot_then_offer_same_instant. Qed.
Theorem C05_withdrawn_once : forall t0 ttl t1 na t_end,
  ttl <> TTL_FOREVER -> t0 <= t1 -> t1 < t0 + sec ttl ->
  expected_history [(t0, TUp ttl na true); (t1, TDown)] t_end = Some [(t0, true); (t1, false)].
Proof. exact removed_is_silent. Qed.
Theorem C05_expires_on_time : forall t0 ttl na t_end,
  ttl <> TTL_FOREVER -> t0 + sec ttl <= t_end ->
  expected_history [(t0, TUp ttl na true)] t_end = Some [(t0, true); (t0 + sec ttl, false)].
Proof. exact expiry_exactly_once_on_time. Qed.

(* over whole runs of the stack: truthful and alternating, in every reachable state of every scenario *)
Theorem C05_truthful_alternating_history_on_the_stack : forall s sc, d_scenario s = Some sc ->
  let w := fst (run_scenario sc) in
  forall id, tainted id (glog w) = false ->
    (forall a k, up_l id a k (out w) = stored a k w && regm id k w) /\ altl id (out w) = true.
Proof. exact reachable_discovery_truthful. Qed.
(* a StopOffer withdraws the stored offer, watched or not *)
Theorem C05_stop_offer_withdraws_watched_or_not : forall X e a s w, GP X w -> from_offer_entry e = Ok s -> e_ttl e = 0 ->
  forall k, fkey s k = true -> stored a k (handle_offer e a w) = false.
Proof. exact stop_offer_withdraws. Qed.
(* the control flow of ServiceDiscover.handle_offer / is_watching_service in the model IS the one translated from the
   source text on every run: which of service_offer_stopped / service_offered is called under which condition *)
Theorem C05_handle_offer_is_the_translated_source : forall e a w,
  Some (handle_offer e a w) = fold_left (run_offer_act e a) (gen_handle_offer e (is_watching e w)) (Some w).
Proof. exact handle_offer_is_the_translated_source. Qed.
Theorem C05_is_watching_is_the_translated_source : forall e w,
  is_watching e w = gen_is_watching (match watch_all w with [] => false | _ :: _ => true end)
                                    (existsb (fun p => match matches_offer (fst p) e with Ok true => true | _ => false end) (watched w)).
Proof. exact is_watching_is_the_translated_source. Qed.
(* the invariant is kept by each operation on its own ... *)
Theorem C05_kept_by_new_offer_and_refresh : forall X ttl a k w, GP X w -> F5 w -> F5 (fst (store_refresh SFound ttl a k w)).
Proof. exact F5_store_refresh_found. Qed.
Theorem C05_kept_by_stop_offer : forall X a k w, GP X w -> F5 w -> F5 (store_stop SFound a k w).
Proof. exact F5_store_stop_found. Qed.
Theorem C05_kept_by_expiry : forall X a k w, GP X w -> F5 w -> F5 (store_expired SFound a k w).
Proof. exact F5_store_expired_found. Qed.
Theorem C05_kept_by_reboot_cleanup : forall X a w, GP X w -> F5 w -> F5 (store_stop_all_for_address SFound a w).
Proof. exact F5_store_stop_all_for_address_found. Qed.
Theorem C05_kept_by_connection_loss : forall X w, GP X w -> F5 w -> F5 (store_stop_all SFound w).
Proof. exact F5_store_stop_all_found. Qed.
Theorem C05_kept_by_watch : forall X f l w, GP X w -> F5 w -> F5 (watch_service f l w).
Proof. exact F5_watch_service. Qed.
Theorem C05_kept_by_unwatch : forall X f l w, GP X w -> F5 w -> F5 (stop_watch_service f l w).
Proof. exact F5_stop_watch_service. Qed.
Theorem C05_kept_by_watch_all : forall X l w, GP X w -> F5 w -> F5 (watch_all_services l w).
Proof. exact F5_watch_all_services. Qed.
Theorem C05_kept_by_unwatch_all : forall X l w, GP X w -> F5 w -> F5 (stop_watch_all_services l w).
Proof. exact F5_stop_watch_all_services. Qed.
(* ... and by every step of the loop *)
Theorem C05_kept_by_every_loop_step : forall w, GGF [] w -> GGF [] (lstep1 w).
Proof. exact GGF_lstep1. Qed.
(* altl / up_l distinguish: a proper history / offered twice / stopped first / another listener's events do not count;
   the taint is read off the ghost history *)
Example C05_altl_example :
  let s := mkService 0x1111 1 1 7 [] [] [] in
  altl 0 [(3, EOffered 0 s 7); (2, EStopped 0 s 7); (1, EOffered 0 s 7)] = true
  /\ up_l 0 7 s [(3, EOffered 0 s 7); (2, EStopped 0 s 7); (1, EOffered 0 s 7)] = true
  /\ altl 0 [(2, EOffered 0 s 7); (1, EOffered 0 s 7)] = false
  /\ altl 0 [(1, EStopped 0 s 7)] = false
  /\ altl 0 [(2, EOffered 1 s 7); (1, EOffered 0 s 7)] = true
  /\ altl 0 [(2, EOffered 0 s 8); (1, EOffered 0 s 7)] = true
  /\ tainted 0 [(5, GMulti 0)] = true /\ tainted 1 [(5, GMulti 0)] = false.
Proof. cbv zeta. repeat split; vm_compute; reflexivity. Qed.

Print Assumptions C05_history_alternates.
Print Assumptions C05_reboot_stopped_before_offered.
Print Assumptions C05_withdrawn_once.
Print Assumptions C05_expires_on_time.
Print Assumptions C05_truthful_alternating_history_on_the_stack.
Print Assumptions C05_stop_offer_withdraws_watched_or_not.
Print Assumptions C05_kept_by_watch.
Print Assumptions C05_kept_by_unwatch.
Print Assumptions C05_kept_by_every_loop_step.
Print Assumptions C05_kept_by_new_offer_and_refresh.
Print Assumptions C05_kept_by_stop_offer.
Print Assumptions C05_kept_by_expiry.
Print Assumptions C05_kept_by_reboot_cleanup.
Print Assumptions C05_kept_by_connection_loss.
Print Assumptions C05_kept_by_watch_all.
Print Assumptions C05_kept_by_unwatch_all.
Print Assumptions C05_handle_offer_is_the_translated_source.
Print Assumptions C05_is_watching_is_the_translated_source.
