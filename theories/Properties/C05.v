(* C05 - Discovery listeners see a truthful, strictly alternating service history.
   Proved: the abstract specification (Spec/StoreSpec.v) that prescribes, per (listener, service, source), the
   history of offered/stopped notifications as a function of the inputs alone alternates for EVERY input history,
   reports a reboot's "stopped" before the same message's "offered", reports removal exactly once, and expires on
   time; plus the TimedStore machine invariant (see C09).  NOT proved: the end-to-end refinement
   C05_model_refines_spec (Model/Stack.v run produces exactly that history for every scenario and schedule);
   checked on every run by complete-trace correspondence and by check_C05 on implementation traces.
   Hypothesis of the specification: a listener is registered under at most one filter matching a given
   service (otherwise known finding F13). *)
From PS Require Import Lib.Base Generated.Consts Model.SdTypes Model.Config Model.Session Model.StackTypes
  Spec.TraceSpec Spec.StoreSpec Proofs.StoreSpecProofs.

Theorem C05_history_alternates : forall touches t_end e,
  expected_history touches t_end = Some e -> alternates true (map snd e) = true.
Proof. exact expected_alternates. Qed.
Theorem C05_reboot_stopped_before_offered : forall t0 t1 na t_end, t0 < t1 ->
  expected_history [(t0, TUp TTL_FOREVER na true); (t1, TDown); (t1, TUp TTL_FOREVER na true)] t_end
  = Some [(t0, true); (t1, false); (t1, true)].
Proof. exact reboot_then_offer_same_instant. Qed.
Theorem C05_withdrawn_once : forall t0 ttl t1 na t_end,
  ttl <> TTL_FOREVER -> t0 <= t1 -> t1 < t0 + sec ttl ->
  expected_history [(t0, TUp ttl na true); (t1, TDown)] t_end = Some [(t0, true); (t1, false)].
Proof. exact removed_is_silent. Qed.
Theorem C05_expires_on_time : forall t0 ttl na t_end,
  ttl <> TTL_FOREVER -> t0 + sec ttl <= t_end ->
  expected_history [(t0, TUp ttl na true)] t_end = Some [(t0, true); (t0 + sec ttl, false)].
Proof. exact expiry_exactly_once_on_time. Qed.

Print Assumptions C05_history_alternates.
Print Assumptions C05_reboot_stopped_before_offered.
Print Assumptions C05_withdrawn_once.
Print Assumptions C05_expires_on_time.
