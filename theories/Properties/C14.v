(* C14 - Client subscription messages mirror the requested subscription set.  Function-level theorems for every
   world.  NOT proved: the mirror statement over all request sequences and schedules (C14_mirror: an ideal server
   applying the sent entries in order holds exactly the requested set at every idle point) and the refresh bound;
   both are judged on every run by check_C14 on implementation traces. *)
From PS Require Import Lib.Base Generated.Consts Model.SdTypes Model.Config Model.Session Model.StackTypes Model.Stack
  Proofs.StackOpsProofs Model.StackIO Spec.TraceSpec.

Theorem C14_message_content : forall ttl remote gs w,
  send_subscribe ttl remote gs w = send_sd (map (fun g => create_subscribe_entry g ttl 0) gs) (Some remote) w.
Proof. exact subscribe_message_content. Qed.
Theorem C14_entry_content : forall g ttl, g_id g < 65536 -> let e := create_subscribe_entry g ttl 0 in
  e_type e = ET_Subscribe /\ e_sid e = g_sid g /\ e_iid e = g_iid g /\ e_maj e = g_maj g /\ e_ttl e = ttl /\ e_val e = g_id g
  /\ e_opts1 e = [OIP (if sk_v6 (g_sock g) then 5 else 2) (sk_addr (g_sock g)) (g_proto g) (sk_port (g_sock g))]
  /\ e_opts2 e = [].
Proof. exact subscribe_entry_content. Qed.
Theorem C14_subscribe_while_alive : forall g ep w, sub_alive w = true ->
  subscribe_eventgroup g ep w = call_soon (HSendStartSub ep [g]) (set_sub_entries (sub_entries w ++ [(g, ep)]) w).
Proof. exact subscribe_while_alive. Qed.
Theorem C14_stop_unknown_is_noop : forall g ep send w,
  remove_first sub_entry_eqb (g, ep) (sub_entries w) = None -> stop_subscribe_eventgroup g ep send w = w.
Proof. exact stop_subscribe_unknown. Qed.

(* application calls made one or more loop iterations into an instant (ApiSoon) are judged as taking effect after the
   other events of that instant, fewer iterations first; events of other instants keep their places *)
Example C14_deferred_calls_are_ordered_behind_their_instant :
  map (fun e => (fst e, ev_hops e))
      (order_events [(1, HApi (ApiSoon (ApiSoon ApiSubStart))); (1, HApi ApiStart); (1, HApi (ApiSoon ApiStop)); (1, HApi ApiAnnStart); (2, HApi ApiStop)])
  = [(1, 0%nat); (1, 0%nat); (1, 1%nat); (1, 2%nat); (2, 0%nat)]
  /\ exec_api (ApiSoon ApiStop) = call_soon (HApi ApiStop).
Proof. split; reflexivity. Qed.

Print Assumptions C14_message_content.
Print Assumptions C14_entry_content.
Print Assumptions C14_subscribe_while_alive.
Print Assumptions C14_stop_unknown_is_noop.
