(* C14 - Client subscription messages mirror the requested subscription set.
   The mirror statement is proved over WHOLE RUNS of the stack model (Proofs/WorldMirror.v): for every scenario made of
   subscribe / stop-subscribe / start / stop calls of the subscriber at arbitrary times (also deferred into an instant),
   every tie order, every refresh configuration and fuel, a server that applies the Subscribe / StopSubscribe entries it
   was sent, in the order sent (`holds`, read off the transmissions of the ghost history, which is the wire by
   C08/C15's wire = history), holds in every idle state exactly the eventgroups requested from it while the
   subscriber runs and none after it was stopped; in every other state the difference is exactly what the pending
   callbacks are going to send (`futx`).  Domain as in the property: no subscribe call for ids already requested from the
   same server (ghost event GDupSub, `clean`).  Plus function-level theorems for every world (content of the messages).
   NOT proved: the refresh bound in time; judged on every run by check_C14 on implementation traces. *)
From PS Require Import Lib.Base Generated.Consts Model.SdTypes Model.Config Model.Session Model.StackTypes Model.Stack
  Proofs.StackOpsProofs Model.StackIO Spec.TraceSpec Proofs.MirrorLog Proofs.WorldMirror Model.Skel Generated.LogicGen Proofs.GenSkel.

(* every scenario of subscriber calls, every schedule: at idle the ideal server holds exactly what is requested *)
Theorem C14_requests_mirrored_when_idle : forall sc, sub_scenario sc ->
  let w := fst (run_scenario sc) in
  clean (glog w) = true -> ready w = [] ->
  forall a k, holds a k (glog w) = sub_alive w && req a k (sub_entries w).
Proof. exact requests_mirrored_when_idle. Qed.
(* ... and in every state, idle or not, what it holds and what is pending add up to what is requested *)
Theorem C14_requests_mirrored_in_every_state : forall sc, sub_scenario sc ->
  let w := fst (run_scenario sc) in
  clean (glog w) = true -> forall a k, futx a k [] w = sub_alive w && req a k (sub_entries w).
Proof. exact requests_mirrored_in_every_state. Qed.
(* the invariant behind both is kept by the callback of every handle of such a run *)
Theorem C14_mirror_kept_by_every_callback : forall h w, MIx [h] w -> MI (exec h w).
Proof. exact MI_exec. Qed.

(* what the subscribe / stop-subscribe calls record and defer, and what the deferred transmissions send, is the control flow
   translated from the source text of sd.py on every run (Generated/LogicGen.v) *)
Theorem C14_subscribe_call_is_the_translated_source : forall g ep w,
  fold_left (run_sact g ep) (gen_sub_subscribe (sub_alive w)) (Some w) = Some (subscribe_core g ep w).
Proof. exact subscribe_eventgroup_is_the_translated_source. Qed.
Theorem C14_stop_subscribe_call_is_the_translated_source : forall g ep send w,
  let found := match remove_first sub_entry_eqb (g, ep) (sub_entries w) with Some _ => true | None => false end in
  fold_left (run_sact g ep) (gen_sub_stop_subscribe found send) (Some w) = Some (stop_subscribe_eventgroup g ep send w).
Proof. exact stop_subscribe_eventgroup_is_the_translated_source. Qed.
Theorem C14_deferred_transmissions_are_the_translated_source : forall ep gs w,
  exec (HSendStartSub ep gs) w
    = send_sd (gen_sub_entries (fun g ttl => create_subscribe_entry g ttl 0) (gen_sub_start_ttl (t_subscribe_ttl (cfg w))) gs) (Some ep) w
  /\ exec (HSendStopSub ep gs) w
    = send_sd (gen_sub_entries (fun g ttl => create_subscribe_entry g ttl 0) (gen_sub_stop_ttl (t_subscribe_ttl (cfg w))) gs) (Some ep) w.
Proof. exact send_start_stop_are_the_translated_source. Qed.

(* non-vacuity: start, subscribe two eventgroups with one server, stop-subscribe the first, let the loop run - the run is
   inside the domain, idle, and the server holds the second eventgroup only; after stop it holds nothing *)
Definition c14_cfg : timings := mkTimings 0 0 0 0 0 1 0 3 3 5 (Some 2097152) 0.
Definition c14_g1 : eventgroup := mkEg 4660 1 1 7 (mkSock false [10; 0; 0; 1] 3000) 17.
Definition c14_g2 : eventgroup := mkEg 4660 1 1 8 (mkSock false [10; 0; 0; 1] 3000) 17.
Definition c14_sc (stop : bool) : scenario :=
  mkScenario c14_cfg [] []
    ([(0, HApi ApiSubStart); (0, HApi (ApiSubscribe c14_g1 9)); (1048576, HApi (ApiSoon (ApiSubscribe c14_g2 9)));
      (1048576, HApi (ApiStopSubscribe c14_g1 9 true))] ++ (if stop then [(4194304, HApi (ApiSubStop true))] else []))
    6291456 false 1000.
Example C14_mirror_example :
  let w := fst (run_scenario (c14_sc false)) in let w' := fst (run_scenario (c14_sc true)) in
  forallb (fun e => ext_h (snd e)) (sc_events (c14_sc true)) = true
  /\ clean (glog w) = true /\ ready w = [] /\ sub_alive w = true
  /\ holds 9 (key_of_eg c14_g1) (glog w) = false /\ holds 9 (key_of_eg c14_g2) (glog w) = true
  /\ clean (glog w') = true /\ ready w' = [] /\ holds 9 (key_of_eg c14_g2) (glog w') = false.
Proof. vm_compute. repeat split. Qed.

Theorem C14_message_content : forall ttl remote gs w,
  send_subscribe ttl remote gs w = send_sd (map (fun g => create_subscribe_entry g ttl 0) gs) (Some remote) w.
Proof. exact subscribe_message_content. Qed.
Theorem C14_entry_content : forall g ttl, g_id g < 65536 -> let e := create_subscribe_entry g ttl 0 in
  e_type e = ET_Subscribe /\ e_sid e = g_sid g /\ e_iid e = g_iid g /\ e_maj e = g_maj g /\ e_ttl e = ttl /\ e_val e = g_id g
  /\ e_opts1 e = [OIP (if sk_v6 (g_sock g) then 5 else 2) (sk_addr (g_sock g)) (g_proto g) (sk_port (g_sock g))]
  /\ e_opts2 e = [].
Proof. exact subscribe_entry_content. Qed.
Theorem C14_subscribe_while_alive : forall g ep w, sub_alive w = true -> requested g ep (sub_entries w) = false ->
  subscribe_eventgroup g ep w = call_soon (HSendStartSub ep [g]) (set_sub_entries (sub_entries w ++ [(g, ep)]) w).
Proof. exact subscribe_while_alive. Qed.
Theorem C14_stop_unknown_is_noop : forall g ep send w,
  remove_first sub_entry_eqb (g, ep) (sub_entries w) = None -> stop_subscribe_eventgroup g ep send w = w.
Proof. exact stop_subscribe_unknown. Qed.

(* application calls made one or more loop iterations into an instant (ApiSoon) are judged as taking effect after the
   other events of that instant, fewer iterations first; events of other instants keep their places *)
Example C14_deferred_calls_are_ordered_behind_their_instant :
  map (fun e => (fst e, ev_hops e))
      (order_events [(1, HApi (ApiSoon (ApiSoon ApiSubStart))); (1, HApi ApiStart); (1, HApi (ApiSoon ApiStop)); (1, HApi ApiAnnStart); (2, HApi ApiStop)])
  = [(1, 0%nat); (1, 0%nat); (1, 1%nat); (1, 2%nat); (2, 0%nat)]
  /\ exec_api (ApiSoon ApiStop) = call_soon (HApi ApiStop).
Proof. split; reflexivity. Qed.

Print Assumptions C14_requests_mirrored_when_idle.
Print Assumptions C14_requests_mirrored_in_every_state.
Print Assumptions C14_mirror_kept_by_every_callback.
Print Assumptions C14_mirror_example.
Print Assumptions C14_subscribe_call_is_the_translated_source.
Print Assumptions C14_stop_subscribe_call_is_the_translated_source.
Print Assumptions C14_deferred_transmissions_are_the_translated_source.
Print Assumptions C14_message_content.
Print Assumptions C14_entry_content.
Print Assumptions C14_subscribe_while_alive.
Print Assumptions C14_stop_unknown_is_noop.

(* the subscribe coroutine ServiceSubscriber._subscribe as translated from the source text (harness/gen_logic.py gen_subscribe_task) *)
Theorem C14_subscribe_round_is_the_translated_source : forall t w,
  subscribe_round t w
  = gen_subscribe_round (group_entries (sub_entries w))
      (fun p acc => send_subscribe (t_subscribe_ttl (cfg acc)) (fst p) (snd p) acc)
      (fun w1 => t_refresh (cfg w1)) (finish_task t) (fun r => task_sleep t TSub r 1 0) w.
Proof. exact subscribe_round_is_the_translated_source. Qed.
Theorem C14_subscribe_task_is_the_translated_source : forall t w tk,
  get_task t w = Some tk -> tk_done tk = false -> tk_kind tk = TSub ->
  task_step t w = if tk_must_cancel tk && gen_subscribe_cancelled_in_sleep_ends then finish_task t w else subscribe_round t w.
Proof. exact subscribe_task_is_the_translated_source. Qed.
Print Assumptions C14_subscribe_round_is_the_translated_source.
Print Assumptions C14_subscribe_task_is_the_translated_source.
