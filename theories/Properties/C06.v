(* C06 - Server subscription records are truthful; acknowledged subscriptions are held.
   Proved: the abstract specification of the per-(instance, subscriber, subscription) history alternates for every
   input history, never records or reports a rejected subscription, reports removal (StopSubscribe / reboot /
   service stop) once and expiry on time; function-level: a matching running instance answers by exactly one
   queue_send after store_refresh (the listener is consulted BEFORE recording); a StopSubscribe is handled by
   the store alone.
   Over WHOLE RUNS of the full stack model, for every scenario and schedule (Proofs/WorldSubs.v, invariant kept by every
   callback, loop step and run): the server listeners' notifications are a truthful, strictly alternating history -
   the latest notification for (instance, subscriber, subscription) is "subscribed, accepted" EXACTLY when that
   subscription is stored; "subscribed" is only ever notified for a subscription that is not live and "unsubscribed"
   only for one that is; a rejected subscription is neither recorded nor ever reported gone.
   NOT proved: the timed part of the refinement (that the history equals the specification's expected_history instant
   by instant); checked on every run. *)
From PS Require Import Lib.Base Generated.Consts Model.SdTypes Model.Config Model.Session Model.StackTypes Model.Stack
  Model.StackIO Spec.TraceSpec Spec.StoreSpec Proofs.StoreSpecProofs Proofs.StackOpsProofs Proofs.KeyEquiv Proofs.WorldInv Proofs.WorldInv2 Proofs.WorldSubs Model.Skel Generated.LogicGen Proofs.GenSkel.

Theorem C06_history_alternates : forall touches t_end e,
  expected_history touches t_end = Some e -> alternates true (map snd e) = true.
Proof. exact expected_alternates. Qed.
Theorem C06_rejected_not_recorded : forall t0 ttl t_end, expected_history [(t0, TUp ttl true false)] t_end = Some [].
Proof. exact rejected_not_recorded. Qed.
Theorem C06_reboot_before_subscribe : forall t0 t1 na t_end, t0 < t1 ->
  expected_history [(t0, TUp TTL_FOREVER na true); (t1, TDown); (t1, TUp TTL_FOREVER na true)] t_end
  = Some [(t0, true); (t1, false); (t1, true)].
Proof. exact reboot_then_offer_same_instant. Qed.
Theorem C06_refresh_restarts_ttl : forall t0 ttl1 t1 ttl2 na t_end,
  ttl1 <> TTL_FOREVER -> t0 <= t1 -> t1 < t0 + sec ttl1 -> ttl2 <> TTL_FOREVER -> t1 + sec ttl2 <= t_end ->
  expected_history [(t0, TUp ttl1 na true); (t1, TUp ttl2 na true)] t_end = Some [(t0, true); (t1 + sec ttl2, false)].
Proof. exact refresh_replaces_deadline. Qed.
Theorem C06_instance_records_then_answers : forall e a i w ins t,
  get_inst i w = Some ins -> in_task ins = Some t -> matches_subscribe (in_service ins) e = Ok true -> e_ttl e <> 0 ->
  let sub := from_subscribe_entry e in
  let '(w1, ok) := store_refresh (SSubs i) (e_ttl e) a (KSub sub) w in
  inst_handle_subscribe e a i w = (queue_send (to_ack_entry sub (if ok then e_ttl e else 0)) (Some a) w1, true).
Proof. exact inst_answers_once. Qed.

(* over whole runs of the stack: truthful and alternating, in every reachable state of every scenario *)
Theorem C06_truthful_alternating_history_on_the_stack : forall s sc, d_scenario s = Some sc ->
  let w := fst (run_scenario sc) in
  (forall i a k, sub_live i a k (out w) = amem key_eqb (KSub k) (inner a (get_store (SSubs i) w)))
  /\ alt_ok (out w) = true.
Proof. exact reachable_subscriptions_truthful. Qed.
(* the invariant is kept by each TimedStore operation on its own ... *)
Theorem C06_kept_by_refresh : forall X st ttl a k w, GP X w -> S6 w -> has_store st w = true -> S6 (fst (store_refresh st ttl a k w)).
Proof. exact S6_store_refresh. Qed.
Theorem C06_kept_by_stop : forall X st a k w, GP X w -> S6 w -> S6 (store_stop st a k w).
Proof. exact S6_store_stop. Qed.
Theorem C06_kept_by_expiry : forall X st a k w, GP X w -> S6 w -> S6 (store_expired st a k w).
Proof. exact S6_store_expired. Qed.
Theorem C06_kept_by_reboot_cleanup : forall X st a w, GP X w -> S6 w -> S6 (store_stop_all_for_address st a w).
Proof. exact S6_store_stop_all_for_address. Qed.
Theorem C06_kept_by_service_stop : forall X st w, GP X w -> S6 w -> S6 (store_stop_all st w).
Proof. exact S6_store_stop_all. Qed.
(* ... and by every step of the loop *)
Theorem C06_kept_by_every_loop_step : forall w, GGS [] w -> GGS [] (lstep1 w).
Proof. exact GGS_lstep1. Qed.
(* alt_ok distinguishes: a proper history / unsubscribed twice / subscribed twice / a rejected subscription reported gone *)
Example C06_alt_ok_example :
  let s := mkSub 1 1 1 5 0 3 [] [] in
  alt_ok [(3, EUnsubscribed 1 s 7); (2, ESubscribed 1 s 7 true); (1, ESubscribed 1 s 7 false)] = true
  /\ alt_ok [(3, EUnsubscribed 1 s 7); (2, EUnsubscribed 1 s 7); (1, ESubscribed 1 s 7 true)] = false
  /\ alt_ok [(2, ESubscribed 1 s 7 true); (1, ESubscribed 1 s 7 true)] = false
  /\ alt_ok [(2, EUnsubscribed 1 s 7); (1, ESubscribed 1 s 7 false)] = false.
Proof. exact alt_ok_example. Qed.

(* a lost connection reaches subscriber, discovery and announcer through call_soon, in that order: the control flow
   translated from the source text of sd.py on every run *)
Theorem C06_connection_lost_is_the_translated_source : forall w,
  connection_lost w = fold_left (run_ract 0) gen_connection_lost w.
Proof. exact connection_lost_is_the_translated_source. Qed.

Print Assumptions C06_connection_lost_is_the_translated_source.
Print Assumptions C06_truthful_alternating_history_on_the_stack.
Print Assumptions C06_kept_by_refresh.
Print Assumptions C06_kept_by_stop.
Print Assumptions C06_kept_by_expiry.
Print Assumptions C06_kept_by_reboot_cleanup.
Print Assumptions C06_kept_by_service_stop.
Print Assumptions C06_kept_by_every_loop_step.
Print Assumptions C06_history_alternates.
Print Assumptions C06_rejected_not_recorded.
Print Assumptions C06_reboot_before_subscribe.
Print Assumptions C06_refresh_restarts_ttl.
Print Assumptions C06_instance_records_then_answers.
