(* C06 - Server subscription records are truthful; acknowledged subscriptions are held.
   Proved: the abstract specification of the per-(instance, subscriber, subscription) history alternates for every
   input history, never records or reports a rejected subscription, reports removal (StopSubscribe / reboot /
   service stop) once and expiry on time; function-level: a matching running instance answers by exactly one
   queue_send after store_refresh (the listener is consulted BEFORE recording); a StopSubscribe is handled by
   the store alone.  NOT proved: the end-to-end refinement C06_model_refines_spec; checked on every run. *)
From PS Require Import Lib.Base Generated.Consts Model.SdTypes Model.Config Model.Session Model.StackTypes Model.Stack
  Spec.TraceSpec Spec.StoreSpec Proofs.StoreSpecProofs Proofs.StackOpsProofs.

Theorem C06_history_alternates : forall touches t_end e,
  expected_history touches t_end = Some e -> alternates true (map snd e) = true.
Proof. exact expected_alternates. Qed.
Theorem C06_rejected_not_recorded : forall t0 ttl t_end, expected_history [(t0, TUp ttl true false)] t_end = Some [].
Proof. exact rejected_not_recorded. Qed.
Theorem C06_reboot_before_subscribe : forall t0 t1 na t_end, t0 < t1 ->
  expected_history [(t0, TUp TTL_FOREVER na true); (t1, TDown); (t1, TUp TTL_FOREVER na true)] t_end
  = Some [(t0, true); (t1, false); (t1, true)].
Proof. exact reboot_then_offer_same_instant. Qed.
Theorem C06_refresh_restarts_ttl : forall t0 ttl1 t1 ttl2 na t_end,
  ttl1 <> TTL_FOREVER -> t0 <= t1 -> t1 < t0 + sec ttl1 -> ttl2 <> TTL_FOREVER -> t1 + sec ttl2 <= t_end ->
  expected_history [(t0, TUp ttl1 na true); (t1, TUp ttl2 na true)] t_end = Some [(t0, true); (t1 + sec ttl2, false)].
Proof. exact refresh_replaces_deadline. Qed.
Theorem C06_instance_records_then_answers : forall e a i w ins t,
  get_inst i w = Some ins -> in_task ins = Some t -> matches_subscribe (in_service ins) e = Ok true -> e_ttl e <> 0 ->
  let sub := from_subscribe_entry e in
  let '(w1, ok) := store_refresh (SSubs i) (e_ttl e) a (KSub sub) w in
  inst_handle_subscribe e a i w = (queue_send (to_ack_entry sub (if ok then e_ttl e else 0)) (Some a) w1, true).
Proof. exact inst_answers_once. Qed.

Print Assumptions C06_history_alternates.
Print Assumptions C06_rejected_not_recorded.
Print Assumptions C06_reboot_before_subscribe.
Print Assumptions C06_refresh_restarts_ttl.
Print Assumptions C06_instance_records_then_answers.
