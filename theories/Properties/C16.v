(* C16 - Method calls get exactly one correctly correlated reply.
   spec_reply is the property's table (Spec/C16Spec.v), with literal message-type / return-code numbers. *)
From PS Require Import Lib.Base Generated.Consts Model.SdTypes Model.ServiceRecv Spec.C16Spec Proofs.C16Proofs Model.Skel Generated.LogicGen Proofs.GenSkel.

Theorem C16_reply : forall svc ver ms m mc h,
  fst (service_receive svc ver ms m mc h) = spec_reply svc ver ms m mc h.
Proof. exact reply_spec. Qed.
(* "at most one reply" is the type: the receive path yields an option *)
Theorem C16_ff_no_response : forall svc ver ms m mc h r,
  m_mt m = 1 -> spec_reply svc ver ms m mc h = Some r -> m_mt r = 129.
Proof. exact ff_no_response. Qed.
Theorem C16_reply_correlated : forall svc ver ms m mc h r,
  spec_reply svc ver ms m mc h = Some r ->
  m_sid r = m_sid m /\ m_mid r = m_mid m /\ m_cid r = m_cid m /\ m_sess r = m_sess m
  /\ m_iv r = m_iv m /\ m_pv r = m_pv m
  /\ ((m_mt r = 129 /\ m_payload r = []) \/ (m_mt r = 128 /\ m_rc r = 0)).
Proof. exact reply_correlated. Qed.
Theorem C16_multicast_never_answered : forall svc ver ms m h, spec_reply svc ver ms m true h = None.
Proof. exact multicast_silent. Qed.
Theorem C16_handler_called_iff : forall svc ver ms m mc h,
  snd (service_receive svc ver ms m mc h) = true <->
  (mc = false /\ m_sid m = svc /\ m_iv m = ver /\ memN (m_mid m) ms = true
   /\ (m_mt m = 0 \/ m_mt m = 1) /\ m_rc m = 0).
Proof. exact handler_called_iff. Qed.

Example C16_nonvacuous :
  fst (service_receive 0x1234 1 [7] (mkMsg 0x1234 7 9 3 1 0 1 0 [1;2]) false (HBytes [5]))
  = Some (mkMsg 0x1234 7 9 3 1 128 1 0 [5]).
Proof. reflexivity. Qed.

(* the decision chain of SimpleService.message_received in the model IS the chain translated from the source text of
   service.py on every run: the order of the checks, the error code of each, when the handler is called *)
Theorem C16_model_is_the_translated_source : forall svc_id ver methods m mc h,
  service_receive svc_id ver methods m mc h
  = let '(g, called) := gen_service_receive svc_id ver (memN (m_mid m) methods) m mc
                          (match h with HMalformed => true | _ => false end) (match h with HBytes _ => true | _ => false end) in
    (reply_of m h g, called).
Proof. exact service_receive_is_the_translated_source. Qed.

Print Assumptions C16_reply.
Print Assumptions C16_ff_no_response.
Print Assumptions C16_reply_correlated.
Print Assumptions C16_multicast_never_answered.
Print Assumptions C16_handler_called_iff.
Print Assumptions C16_model_is_the_translated_source.
