(* C09 - TTL expiry fires exactly once, on time, never early; a refresh postpones it.
   Three layers:
   (A) the TimedStore algorithm as an abstract machine (Proofs/TimedStoreProofs.v): for EVERY sequence of
       refresh / stop / remove-where / timer firings the invariant "live expiry timers <-> stored entries with a
       timer, one to one" holds; hence no stale timer exists, the infinite TTL owns no timer, a removed entry
       has no timer left;
   (B) the abstract specification of the per-key notification history (Spec/StoreSpec.v expected_history), which
       judges every implementation trace: exactly one expiry exactly at t0+ttl, none earlier, refresh replaces the
       deadline (also by the infinite one), removal silences, alternation for every input history;
   (C) the ownership invariant of the FULL stack model (Proofs/WorldInv.v), proved for every callback of the loop
       (exec of every handle), every iteration and every reachable state, i.e. under every schedule: every stored
       finite-TTL entry of both stores owns a pending expiry handle that is not cancelled (so no entry is ever left
       without its timer, and cancelling another component's timer never hits it), keys at one address are pairwise
       inequivalent (one entry per key), and running _expired(key) leaves nothing equivalent to the key behind;
       and conversely (Proofs/WorldInv2.v) every pending expiry handle that is not cancelled belongs to the entry
       CURRENTLY stored under its key: live expiry timers and stored finite-TTL entries correspond one to one, the timer
       of a refreshed / stopped / removed entry is never live and so can never remove a successor;
   (C') timing (Proofs/WorldTime.v), for every run: refresh with a finite TTL arms exactly one timer at now + ttl seconds
       (the infinite TTL arms none); the clock never passes a live deadline; every timer callback the loop runs was armed
       for EXACTLY the current instant - so the expiry of an untouched entry is reported exactly at t0 + ttl, never
       earlier, never later (the model has no lateness; real-time lateness is outside it);
   (D) NOT proved: that the timed notification history of Model/Stack.v equals (B) for every scenario (the end-to-end
       refinement C09_model_refines_spec).  Checked on every run by
       comparing complete model traces with the implementation and judging the implementation traces with (B). *)
From PS Require Import Lib.Base Generated.Consts Model.SdTypes Model.Config Model.Session Model.StackTypes
  Model.Stack Model.StackIO Spec.TraceSpec Spec.StoreSpec Proofs.StoreSpecProofs Proofs.TimedStoreProofs Proofs.KeyEquiv Proofs.WorldInv Proofs.WorldInv2 Proofs.WorldTime Proofs.WorldDone Proofs.WorldExpiry Model.Skel Generated.LogicGen Proofs.GenSkel.

Section A.
  Context {K : Type} (keqb : K -> K -> bool) (keqb_eq : forall a b, keqb a b = true <-> a = b).
  Theorem C09_timer_invariant : forall ops, Inv (fold_left (step keqb) ops (mkTs [] [] 1)).
  Proof. exact (inv_reachable keqb keqb_eq). Qed.
  Theorem C09_no_stale_timer : forall ops tid k,
    let s := fold_left (step keqb) ops (mkTs [] [] 1) in
    In (tid, k) (t_live s) -> aget keqb k (t_entries s) = Some (Some tid).
  Proof. exact (live_timer_owned keqb keqb_eq). Qed.
  Theorem C09_forever_owns_no_timer : forall ops k,
    let s := fold_left (step keqb) ops (mkTs [] [] 1) in
    In (k, None) (t_entries s) -> forall tid, ~ In (tid, k) (t_live s).
  Proof. exact (forever_owns_no_timer keqb keqb_eq). Qed.
  Theorem C09_removed_entry_has_no_timer : forall ops k,
    let s := m_stop keqb k (fold_left (step keqb) ops (mkTs [] [] 1)) in forall tid, ~ In (tid, k) (t_live s).
  Proof. exact (stopped_entry_has_no_timer keqb keqb_eq). Qed.
End A.

Theorem C09_exactly_once_on_time : forall t0 ttl na t_end,
  ttl <> TTL_FOREVER -> t0 + sec ttl <= t_end ->
  expected_history [(t0, TUp ttl na true)] t_end = Some [(t0, true); (t0 + sec ttl, false)].
Proof. exact expiry_exactly_once_on_time. Qed.
Theorem C09_never_early : forall t0 ttl na t_end,
  ttl <> TTL_FOREVER -> t_end + 1 < t0 + sec ttl ->
  expected_history [(t0, TUp ttl na true)] t_end = Some [(t0, true)].
Proof. exact no_expiry_before_deadline. Qed.
Theorem C09_forever : forall t0 na t_end, expected_history [(t0, TUp TTL_FOREVER na true)] t_end = Some [(t0, true)].
Proof. exact forever_never_expires. Qed.
Theorem C09_refresh_replaces : forall t0 ttl1 t1 ttl2 na t_end,
  ttl1 <> TTL_FOREVER -> t0 <= t1 -> t1 < t0 + sec ttl1 -> ttl2 <> TTL_FOREVER -> t1 + sec ttl2 <= t_end ->
  expected_history [(t0, TUp ttl1 na true); (t1, TUp ttl2 na true)] t_end = Some [(t0, true); (t1 + sec ttl2, false)].
Proof. exact refresh_replaces_deadline. Qed.
Theorem C09_refresh_by_forever : forall t0 ttl1 t1 na t_end,
  ttl1 <> TTL_FOREVER -> t0 <= t1 -> t1 < t0 + sec ttl1 ->
  expected_history [(t0, TUp ttl1 na true); (t1, TUp TTL_FOREVER na true)] t_end = Some [(t0, true)].
Proof. exact refresh_by_forever_cancels_expiry. Qed.
Theorem C09_removed_is_silent : forall t0 ttl t1 na t_end,
  ttl <> TTL_FOREVER -> t0 <= t1 -> t1 < t0 + sec ttl ->
  expected_history [(t0, TUp ttl na true); (t1, TDown)] t_end = Some [(t0, true); (t1, false)].
Proof. exact removed_is_silent. Qed.
Theorem C09_history_alternates : forall touches t_end e,
  expected_history touches t_end = Some e -> alternates true (map snd e) = true.
Proof. exact expected_alternates. Qed.

(* (C) on the full stack model *)
Theorem C09_ownership_kept_by_every_callback : forall h X w, GP X w -> GP X (exec h w).
Proof. exact keeps_exec. Qed.
Theorem C09_ownership_kept_by_every_iteration : forall arrivals rv w, G w -> G (iteration arrivals rv w).
Proof. exact G_iteration. Qed.
Theorem C09_ownership_in_every_reachable_state : forall s sc, d_scenario s = Some sc -> G (fst (run_scenario sc)).
Proof. exact G_reachable. Qed.
Theorem C09_stored_entry_owns_a_live_timer : forall w, G w -> forall st a k tid,
  In (k, Some tid) (inner a (get_store st w)) -> In (tid, HExpired st a k) (tided w) /\ memN tid (cancelled w) = false.
Proof. intros w Hg st a k tid H. exact (g_store _ _ Hg st a k tid H). Qed.
Theorem C09_one_entry_per_key : forall w, G w -> forall st a, NoDupE (inner a (get_store st w)).
Proof. intros w Hg. exact (g_keys _ _ Hg). Qed.
Theorem C09_expiry_leaves_nothing_under_the_key : forall X st a k w, GP X w ->
  forall p, In p (inner a (get_store st (store_expired st a k w))) -> key_eqb k (fst p) = false.
Proof. exact expired_removes. Qed.

Theorem C09_both_directions_in_every_reachable_state : forall s sc, d_scenario s = Some sc -> GG [] (fst (run_scenario sc)).
Proof. exact GG_reachable. Qed.
Theorem C09_both_directions_kept_by_every_loop_step : forall w, GG [] w -> GG [] (lstep1 w).
Proof. exact GG_lstep1. Qed.
Theorem C09_live_timer_belongs_to_the_stored_entry : forall w, GG [] w -> forall tid st a k,
  In (tid, HExpired st a k) (tided w) -> memN tid (cancelled w) = false -> In (k, Some tid) (inner a (get_store st w)).
Proof. intros w [_ [H _]]. exact H. Qed.
Theorem C09_expiry_of_a_live_timer_removes_exactly_its_entry : forall w tid st a k r, GG [] w ->
  ready w = (Some tid, HExpired st a k) :: r -> memN tid (cancelled w) = false -> G2 (store_expired st a k (set_ready r w)).
Proof. exact G2_expired_popped. Qed.

Theorem C09_refresh_arms_exactly_the_deadline : forall st ttl a k w, (ttl =? TTL_FOREVER) = false ->
  timers (fst (refresh_tail st ttl a k w)) = timers w ++ [(now w + ttl * usec_per_sec, next_id w, HExpired st a k)].
Proof. exact refresh_arms_deadline. Qed.
Theorem C09_infinite_ttl_arms_nothing : forall st a k w, timers (fst (refresh_tail st TTL_FOREVER a k w)) = timers w.
Proof. exact refresh_forever_arms_nothing. Qed.
Theorem C09_timer_callbacks_run_exactly_at_their_deadline : forall arrivals rv w, Tinv w ->
  let w1 := fold_left (fun acc h => call_soon h acc) arrivals w in
  (exists due', ready (iter_pre arrivals rv w) = ready w1 ++ map (fun t : N * N * handle => (Some (snd (fst t)), snd t)) due'
                /\ forall t, In t due' -> In t (timers w) /\ fst (fst t) = now w)
  /\ Tinv (iteration arrivals rv w) /\ now (iteration arrivals rv w) = now w.
Proof. exact iteration_on_time. Qed.
Theorem C09_no_live_timer_is_ever_overdue : forall sc, Tinv (fst (run_scenario sc)).
Proof. exact reachable_on_time. Qed.
Theorem C09_callbacks_never_move_the_clock_nor_arm_the_past : forall h w, ext w (exec h w).
Proof. exact E_exec. Qed.

(* "never late", end to end: when a run of ANY scenario completes (nothing runnable, next deadline beyond the end), every
   finite-TTL entry still stored has its expiry timer pending with a deadline after the end; every open collector and
   every sleeping task likewise.  Nothing that was due by the end has been left undone. *)
Theorem C09_completed_run_leaves_nothing_overdue : forall s sc, d_scenario s = Some sc ->
  let w := fst (run_scenario sc) in
  snd (run_scenario sc) = true ->
  (forall st a k tid, In (k, Some tid) (inner a (get_store st w)) ->
     exists when, In (when, tid, HExpired st a k) (timers w) /\ sc_end sc < when)
  /\ (forall c, open_coll w c = true -> exists when, In (when, c, HCollector c) (timers w) /\ sc_end sc < when)
  /\ (forall t tid, sleep_of w t = Some tid -> exists when, In (when, tid, HSleepDone t) (timers w) /\ sc_end sc < when).
Proof. exact completed_scenario_nothing_overdue. Qed.
Theorem C09_completed_run_is_quiescent : forall fuel events t_end rv w w',
  run fuel events t_end rv w = (w', true) -> ready w' = [] /\ live_after t_end w'.
Proof. exact run_complete. Qed.

(* "on time, never early; a refresh replaces the deadline; the infinite TTL never expires", over WHOLE RUNS of the full stack
   model, for every scenario and schedule (Proofs/WorldExpiry.v; the ghost history records every (re)storing of an entry
   with its TTL and every removal by an expiry timer): every expiry in the history happened exactly TTL seconds after the
   LATEST refresh of that entry, which did not carry the infinite TTL; and every stored entry with a timer was last
   refreshed with a finite TTL and its timer is due exactly that TTL after that refresh. *)
Theorem C09_expiries_on_time_on_the_stack : forall s sc, d_scenario s = Some sc ->
  let w := fst (run_scenario sc) in
  expiry_ok (glog w) = true
  /\ forall st a k tid, In (k, Some tid) (inner a (get_store st w)) ->
       exists tr ttl, last_refresh st a k (glog w) = Some (tr, ttl) /\ (ttl =? TTL_FOREVER) = false
         /\ forall when, In (when, tid, HExpired st a k) (timers w) -> when = tr + ttl * usec_per_sec.
Proof. exact reachable_expiries_on_time. Qed.
(* the step that matters: the expiry callback the loop runs for a live timer *)
Theorem C09_expiry_callback_is_on_time : forall w tid st a k r, GG [] w -> Rk w ->
  ready w = (Some tid, HExpired st a k) :: r -> memN tid (cancelled w) = false ->
  Rk (store_expired st a k (set_ready r w)).
Proof. exact R_expired_popped. Qed.
Theorem C09_refresh_records_the_new_deadline : forall X st ttl a k w1, GP X w1 -> Rk w1 -> has_store st w1 = true ->
  Rk (fst (refresh_tail st ttl a k w1)).
Proof. exact R_refresh_tail. Qed.
(* expiry_ok distinguishes: on time after the latest refresh / at the old deadline / an infinite TTL / twice *)
Example C09_expiry_ok_example :
  let k := KService (mkService 1 1 1 0 [] [] []) in
  expiry_ok [(3 * usec_per_sec + 5, GExpire SFound 7 k); (5, GRefresh SFound 7 k 3); (1, GRefresh SFound 7 k 1)] = true
  /\ expiry_ok [(1 * usec_per_sec + 1, GExpire SFound 7 k); (5, GRefresh SFound 7 k 3); (1, GRefresh SFound 7 k 1)] = false
  /\ expiry_ok [(9, GExpire SFound 7 k); (5, GRefresh SFound 7 k TTL_FOREVER)] = false
  /\ expiry_ok [(2 * usec_per_sec + 5, GExpire SFound 7 k); (usec_per_sec + 5, GExpire SFound 7 k); (5, GRefresh SFound 7 k 1)] = false.
Proof. exact expiry_ok_example. Qed.

(* TimedStore.refresh / stop / _expired / the loop body of stop_all_for_address are the control flow translated from the
   source text of sd.py on every run (Generated/LogicGen.v, the gen_ts definitions): pop, cancel the popped handle, callback_new (whose
   NakSubscription ends refresh), arm the timer unless the TTL is infinite, store, call the popped callback - in that order *)
Theorem C09_refresh_is_the_translated_source : forall st ttl a k w,
  let d0 := inner a (Stack.touch a (get_store st w)) in
  let found := match aget key_eqb k d0 with Some _ => true | None => false end in
  let timer := match aget key_eqb k d0 with Some (Some _) => true | _ => false end in
  let s := run_tacts st ttl a k (gen_ts_refresh found timer (ttl =? TTL_FOREVER)) w None in
  store_refresh st ttl a k w = (sk_w s, sk_ok s).
Proof. exact store_refresh_is_the_translated_source. Qed.
Theorem C09_stop_is_the_translated_source : forall st a k w o,
  aget key_eqb k (inner a (Stack.touch a (get_store st w))) = Some o ->
  store_stop st a k w = sk_w (run_tacts st 0 a k (gen_ts_stop true (match o with Some _ => true | None => false end)) w None).
Proof. exact store_stop_is_the_translated_source. Qed.
Theorem C09_expired_is_the_translated_source : forall st a k w o,
  aget key_eqb k (inner a (Stack.touch a (get_store st w))) = Some o ->
  store_expired st a k w = ghost (GExpire st a k) (sk_w (run_tacts st 0 a k (gen_ts_expired true (match o with Some _ => true | None => false end)) w None)).
Proof. exact store_expired_is_the_translated_source. Qed.
Theorem C09_unknown_entry_does_nothing : forall timer, gen_ts_stop false timer = [] /\ gen_ts_expired false timer = [].
Proof. exact store_stop_expired_unknown_entry_does_nothing. Qed.
Theorem C09_stop_all_round_is_the_translated_source : forall st a k o acc,
  store_callback st k a (cancel_opt o acc)
  = sk_w (run_tacts st 0 a k (gen_ts_stop_all_each (match o with Some _ => true | None => false end)) acc o).
Proof. exact store_stop_all_each_is_the_translated_source. Qed.

Print Assumptions C09_refresh_is_the_translated_source.
Print Assumptions C09_stop_is_the_translated_source.
Print Assumptions C09_expired_is_the_translated_source.
Print Assumptions C09_unknown_entry_does_nothing.
Print Assumptions C09_stop_all_round_is_the_translated_source.
Print Assumptions C09_expiries_on_time_on_the_stack.
Print Assumptions C09_expiry_callback_is_on_time.
Print Assumptions C09_refresh_records_the_new_deadline.
Print Assumptions C09_completed_run_leaves_nothing_overdue.
Print Assumptions C09_completed_run_is_quiescent.
Print Assumptions C09_timer_invariant.
Print Assumptions C09_refresh_arms_exactly_the_deadline.
Print Assumptions C09_infinite_ttl_arms_nothing.
Print Assumptions C09_timer_callbacks_run_exactly_at_their_deadline.
Print Assumptions C09_no_live_timer_is_ever_overdue.
Print Assumptions C09_callbacks_never_move_the_clock_nor_arm_the_past.
Print Assumptions C09_both_directions_in_every_reachable_state.
Print Assumptions C09_both_directions_kept_by_every_loop_step.
Print Assumptions C09_live_timer_belongs_to_the_stored_entry.
Print Assumptions C09_expiry_of_a_live_timer_removes_exactly_its_entry.
Print Assumptions C09_ownership_kept_by_every_callback.
Print Assumptions C09_ownership_kept_by_every_iteration.
Print Assumptions C09_ownership_in_every_reachable_state.
Print Assumptions C09_stored_entry_owns_a_live_timer.
Print Assumptions C09_one_entry_per_key.
Print Assumptions C09_expiry_leaves_nothing_under_the_key.
Print Assumptions C09_no_stale_timer.
Print Assumptions C09_forever_owns_no_timer.
Print Assumptions C09_removed_entry_has_no_timer.
Print Assumptions C09_exactly_once_on_time.
Print Assumptions C09_never_early.
Print Assumptions C09_forever.
Print Assumptions C09_refresh_replaces.
Print Assumptions C09_refresh_by_forever.
Print Assumptions C09_removed_is_silent.
Print Assumptions C09_history_alternates.
