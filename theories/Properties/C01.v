(* C01 - SOME/IP message encoding round-trips and matches the wire layout.
   Statements only; proofs in Proofs/C01Proofs.v.  wf_msgb / fits_msgb / spec_layout: Spec/C01Spec.v. *)
From PS Require Import Lib.Base Lib.Struct Generated.Consts Model.SdTypes Model.Someip Model.SdCodec
  Spec.C01Spec Proofs.C01Proofs.

(* every message whose fields fit their widths encodes to the specified byte layout *)
Theorem C01_layout : forall m, fits_msgb m = true -> build_msg m = Ok (spec_layout m).
Proof. exact build_layout. Qed.

(* decoding those bytes with any trailing bytes returns an equal message and exactly the trailing bytes *)
Theorem C01_roundtrip : forall m b r, wf_msgb m = true -> build_msg m = Ok b -> parse_msg (b ++ r) = Ok (m, r).
Proof. exact roundtrip. Qed.
Theorem C01_roundtrip_layout : forall m r, wf_msgb m = true -> parse_msg (spec_layout m ++ r) = Ok (m, r).
Proof. exact roundtrip_layout. Qed.

(* nothing but encodings decode *)
Theorem C01_parse_sound : forall b m r, bytes_ok b -> parse_msg b = Ok (m, r) ->
  wf_msgb m = true /\ exists b', build_msg m = Ok b' /\ b = b' ++ r.
Proof. exact parse_sound. Qed.

(* encoding fails exactly when a field exceeds its width, with struct.error *)
Theorem C01_build_error : forall m e, build_msg m = Err e -> e = EStruct /\ fits_msgb m = false.
Proof. exact build_error. Qed.
Theorem C01_build_ok_fits : forall m b, build_msg m = Ok b -> fits_msgb m = true.
Proof. exact build_ok_fits. Qed.

(* several messages concatenated in one datagram are delivered one by one, in order *)
Theorem C01_datagram : forall ms data, build_all ms = Ok data ->
  Forall (fun m => wf_msgb m = true) ms -> datagram_split data = (ms, None).
Proof. exact datagram_clean. Qed.
(* ... and a datagram whose next message does not decode delivers exactly the messages before it *)
Theorem C01_datagram_prefix : forall ms data bad e, build_all ms = Ok data ->
  Forall (fun m => wf_msgb m = true) ms -> bad <> [] -> parse_msg bad = Err e ->
  datagram_split (data ++ bad) = (ms, Some e).
Proof. exact datagram_prefix. Qed.
(* the loop terminates (fuel |data|+1 always suffices) *)
Theorem C01_datagram_terminates : forall data ms, datagram_split data = (ms, Some EFuel) -> False.
Proof. intros data ms. apply datagram_no_fuel. apply le_n. Qed.

Print Assumptions C01_layout.
Print Assumptions C01_roundtrip.
Print Assumptions C01_roundtrip_layout.
Print Assumptions C01_parse_sound.
Print Assumptions C01_build_error.
Print Assumptions C01_build_ok_fits.
Print Assumptions C01_datagram.
Print Assumptions C01_datagram_prefix.
Print Assumptions C01_datagram_terminates.
