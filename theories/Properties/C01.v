(* C01 - SOME/IP message encoding round-trips and matches the wire layout.
   Statements only; proofs in Proofs/C01Proofs.v.  wf_msgb / fits_msgb / spec_layout: Spec/C01Spec.v. *)
From PS Require Import Lib.Base Lib.Struct Generated.Consts Model.SdTypes Model.Someip Model.SdCodec
  Spec.C01Spec Proofs.C01Proofs.

(* every message whose fields fit their widths encodes to the specified byte layout *)
Theorem C01_layout : forall m, fits_msgb m = true -> build_msg m = Ok (spec_layout m).
Proof. exact build_layout. Qed.

(* decoding those bytes with any trailing bytes returns an equal message and exactly the trailing bytes *)
Theorem C01_roundtrip : forall m b r, wf_msgb m = true -> build_msg m = Ok b -> parse_msg (b ++ r) = Ok (m, r).
Proof. exact roundtrip. Qed.
Theorem C01_roundtrip_layout : forall m r, wf_msgb m = true -> parse_msg (spec_layout m ++ r) = Ok (m, r).
Proof. exact roundtrip_layout. Qed.

(* nothing but encodings decode *)
Theorem C01_parse_sound : forall b m r, bytes_ok b -> parse_msg b = Ok (m, r) ->
  wf_msgb m = true /\ exists b', build_msg m = Ok b' /\ b = b' ++ r.
Proof. exact parse_sound. Qed.

(* encoding fails exactly when a field exceeds its width, with struct.error *)
Theorem C01_build_error : forall m e, build_msg m = Err e -> e = EStruct /\ fits_msgb m = false.
Proof. exact build_error. Qed.
Theorem C01_build_ok_fits : forall m b, build_msg m = Ok b -> fits_msgb m = true.
Proof. exact build_ok_fits. Qed.

(* several messages concatenated in one datagram are delivered one by one, in order *)
Theorem C01_datagram : forall ms data, build_all ms = Ok data ->
  Forall (fun m => wf_msgb m = true) ms -> datagram_split data = (ms, None).
Proof. exact datagram_clean. Qed.
(* ... and a datagram whose next message does not decode delivers exactly the messages before it *)
Theorem C01_datagram_prefix : forall ms data bad e, build_all ms = Ok data ->
  Forall (fun m => wf_msgb m = true) ms -> bad <> [] -> parse_msg bad = Err e ->
  datagram_split (data ++ bad) = (ms, Some e).
Proof. exact datagram_prefix. Qed.
(* the loop terminates (fuel |data|+1 always suffices) *)
Theorem C01_datagram_terminates : forall data ms, datagram_split data = (ms, Some EFuel) -> False.
Proof. intros data ms. apply datagram_no_fuel. apply le_n. Qed.

(* the numbers the symbolic message types and return codes stand for on the wire, written out from the SOME/IP
   specification (PRS_SOMEIP_00055 / PRS_SOMEIP_00191) - the left-hand sides are GENERATED from the live enums, so a changed
   enum value breaks this proof *)
Theorem C01_enum_values_are_those_of_the_specification :
  [MT_REQUEST; MT_REQUEST_NO_RETURN; MT_NOTIFICATION; MT_REQUEST_ACK; MT_REQUEST_NO_RETURN_ACK; MT_NOTIFICATION_ACK;
   MT_RESPONSE; MT_ERROR; MT_RESPONSE_ACK; MT_ERROR_ACK] = [0; 1; 2; 64; 65; 66; 128; 129; 192; 193]
  /\ msg_type_values = [0; 1; 2; 64; 65; 66; 128; 129; 192; 193]
  /\ [RC_E_OK; RC_E_NOT_OK; RC_E_UNKNOWN_SERVICE; RC_E_UNKNOWN_METHOD; RC_E_NOT_READY; RC_E_NOT_REACHABLE; RC_E_TIMEOUT;
      RC_E_WRONG_PROTOCOL_VERSION; RC_E_WRONG_INTERFACE_VERSION; RC_E_MALFORMED_MESSAGE; RC_E_WRONG_MESSAGE_TYPE]
     = [0; 1; 2; 3; 4; 5; 6; 7; 8; 9; 10]
  /\ ret_code_values = [0; 1; 2; 3; 4; 5; 6; 7; 8; 9; 10].
Proof. repeat split; reflexivity. Qed.

Print Assumptions C01_layout.
Print Assumptions C01_enum_values_are_those_of_the_specification.
Print Assumptions C01_roundtrip.
Print Assumptions C01_roundtrip_layout.
Print Assumptions C01_parse_sound.
Print Assumptions C01_build_error.
Print Assumptions C01_build_ok_fits.
Print Assumptions C01_datagram.
Print Assumptions C01_datagram_prefix.
Print Assumptions C01_datagram_terminates.
