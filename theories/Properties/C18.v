(* C18 - Stream and datagram framing agree under arbitrary segmentation.
   The model reads from the concatenated stream: independence from the chunking is a property of
   asyncio.StreamReader.readexactly (trusted; the harness varies the cuts). *)
From PS Require Import Lib.Base Lib.Struct Generated.Consts Model.SdTypes Model.Someip Spec.C01Spec
  Proofs.C01Proofs Proofs.C18Proofs.

(* one message: same message and same remaining bytes, or the same parse error, or
   (stream incomplete <-> buffer incomplete) *)
Theorem C18_agree : forall s, read_msg s = map_err (parse_msg s).
Proof. exact read_parse_agree. Qed.

(* message by message: the same messages in the same order and the same terminal condition at the same index *)
Theorem C18_sequence : forall s, stream_split s = map_split (datagram_split s).
Proof. exact stream_split_agree. Qed.

(* a stream cut inside a message never yields that message *)
Theorem C18_no_truncation : forall m b k,
  wf_msgb m = true -> build_msg m = Ok b -> k < len b -> read_msg (takeN k b) = Err EStreamEnd.
Proof. exact no_truncation. Qed.

Print Assumptions C18_agree.
Print Assumptions C18_sequence.
Print Assumptions C18_no_truncation.
