(* C03 - Malformed or foreign input is rejected cleanly and changes nothing.
   Decoder half (this file, part 1): every decoder terminates, returns a value plus a suffix of its input,
   or fails with the library's parse error / incomplete-read error, or - only if the input contains a byte
   >= 0x80 - the Unicode error.  "No other Python exception type escapes" is a statement about CPython and
   is carried by the correspondence (any foreign exception maps to a code the model never yields).
   Receive-path half: see the C03_receive_* theorems below (model of the discovery endpoint). *)
From PS Require Import Lib.Base Lib.Struct Generated.Consts Model.SdTypes Model.Someip Model.SdCodec.
From PS Require Import Proofs.C01Proofs Proofs.SdEntryProofs Proofs.SdTotalProofs.
From PS Require Import Model.Config Model.Session Model.StackTypes Model.Stack Model.Skel Generated.LogicGen Proofs.GenSkel.

Theorem C03_someip_error_kinds : forall b e, parse_msg b = Err e -> e = EParse \/ e = EIncomplete.
Proof. exact parse_error_kinds. Qed.
Theorem C03_someip_suffix : forall b m r, parse_msg b = Ok (m, r) -> exists c, b = c ++ r /\ 16 <= len c.
Proof. exact parse_suffix. Qed.
Theorem C03_datagram_loop_terminates : forall data ms, datagram_split data = (ms, Some EFuel) -> False.
Proof. intros data ms. apply datagram_no_fuel. apply le_n. Qed.

Theorem C03_entry_error_kinds : forall b n e, parse_entry b n = Err e -> e = EParse \/ e = EIncomplete.
Proof. exact parse_entry_errs. Qed.
Theorem C03_entry_suffix : forall b n e r, parse_entry b n = Ok (e, r) -> r = dropN 16 b /\ 16 <= len b.
Proof. exact parse_entry_suffix. Qed.

Theorem C03_option_error_kinds : forall b e,
  parse_option b = Err e -> e = EParse \/ e = EIncomplete \/ (e = EUnicode /\ has_nonascii b).
Proof. exact parse_option_err. Qed.
Theorem C03_option_suffix : forall b o r, parse_option b = Ok (o, r) -> exists c, b = c ++ r /\ 3 <= len c.
Proof. exact parse_option_suffix. Qed.

Theorem C03_sd_error_kinds : forall b e,
  parse_sd b = Err e -> e = EParse \/ e = EIncomplete \/ (e = EUnicode /\ has_nonascii b).
Proof. exact parse_sd_err. Qed.
Theorem C03_sd_suffix : forall b h r, parse_sd b = Ok (h, r) -> exists c, b = c ++ r.
Proof. exact parse_sd_suffix. Qed.

(* ServiceDiscoveryProtocol.message_received is the control flow translated from the source text of sd.py on every run: a
   message that is not an SD notification, or whose payload does not decode, does NOTHING (empty action list) - in
   particular the session state is rewritten and a reboot is acted on only after the payload decoded *)
Theorem C03_message_received_is_the_translated_source : forall m a mc w,
  message_received m a mc w
  = match parse_sd (m_payload m) with
    | Ok (h, _) =>
        fold_left (run_mact m h a mc)
          (gen_message_received (is_sd_message m) true (fst (check_received (sess w) a mc (sd_reboot h) (m_sess m)))) w
    | Err _ => fold_left (run_mact m (mkSd [] [] false false 0) a mc) (gen_message_received (is_sd_message m) false false) w
    end.
Proof. exact message_received_is_the_translated_source. Qed.
Theorem C03_rejected_message_has_no_action : forall reboot, gen_message_received false true reboot = [] /\ gen_message_received true false reboot = [].
Proof. intros reboot. split; reflexivity. Qed.

Print Assumptions C03_message_received_is_the_translated_source.
Print Assumptions C03_rejected_message_has_no_action.
Print Assumptions C03_someip_error_kinds.
Print Assumptions C03_someip_suffix.
Print Assumptions C03_datagram_loop_terminates.
Print Assumptions C03_entry_error_kinds.
Print Assumptions C03_entry_suffix.
Print Assumptions C03_option_error_kinds.
Print Assumptions C03_option_suffix.
Print Assumptions C03_sd_error_kinds.
Print Assumptions C03_sd_suffix.
