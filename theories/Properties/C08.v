(* C08 - Outgoing session ids count 1..0xFFFF per destination; reboot flag clears on wrap.
   nth_id k = ((k-1) mod 65535) + 1, nth_flag k = (k <=? 65535)  (Spec/C08Spec.v). *)
From PS Require Import Lib.Base Lib.Struct Generated.Consts Model.SdTypes Model.Config Model.Session Model.Someip Model.SdCodec
  Model.StackTypes Model.Stack Model.StackIO Spec.C08Spec Proofs.C07Proofs Proofs.StackOpsProofs Generated.LogicGen Proofs.GenEquiv
  Proofs.WorldInv Proofs.WorldLog.
From PS Require Import Model.Skel Proofs.GenSkel.

(* for every interleaving of destinations, the k-th id handed out for a destination depends on k alone *)
Theorem C08_cycle : forall ds, run_assign sess_init ds = spec_assign [] ds.
Proof. exact assign_cycle. Qed.
Theorem C08_never_zero : forall k, 1 <= nth_id k <= 65535.
Proof. exact nth_id_range. Qed.
Theorem C08_first_is_one : nth_id 1 = 1.
Proof. exact nth_id_first. Qed.
Theorem C08_no_gap_no_repeat : forall k, 1 <= k -> nth_id (k + 1) = if nth_id k =? 65535 then 1 else nth_id k + 1.
Proof. exact nth_id_succ. Qed.
(* send_sd: an empty entry list transmits nothing and consumes no id; otherwise exactly one id is taken *)
Theorem C08_empty_send : forall d w, send_sd [] d w = w.
Proof. exact send_sd_empty. Qed.
Theorem C08_send_takes_one_id : forall es d w,
  sess (send_sd es d w) = match es with [] => sess w | _ => snd (assign_outgoing (sess w) d) end.
Proof. exact send_sd_sess. Qed.
Theorem C08_send_ids_cycle : forall reqs,
  sends_ids sess_init reqs = spec_assign [] (map snd (filter (fun r => match fst r with [] => false | _ => true end) reqs)).
Proof. exact send_ids_cycle. Qed.
(* the id is the SOME/IP session id of the datagram and the flag is the SD reboot flag *)
Theorem C08_id_and_flag_on_the_wire : forall entries flag sid b,
  sd_datagram entries flag sid = Ok b ->
  exists a p, assign_sd (mkSd entries [] flag true 0) = Ok a /\ build_sd a = Ok p
              /\ build_msg (mkMsg SD_SERVICE SD_METHOD 0 sid 1 MT_NOTIFICATION 1 RC_E_OK p) = Ok b /\ sd_reboot a = flag.
Proof. exact sd_datagram_fields. Qed.

(* over WHOLE RUNS of the full stack (Model/Stack.v), for every scenario and every schedule of the event loop: the
   (reboot flag, session id) pairs given to the SD transmissions, in the order they were made, are exactly what the
   specification's per-destination counters hand out for that sequence of destinations - whatever else the stack does
   in between (received messages, reboot detections, timers).  slog reads the ghost history written by send_sd. *)
Theorem C08_session_ids_on_the_stack : forall s sc, d_scenario s = Some sc ->
  let w := fst (run_scenario sc) in
  map snd (slog (glog w)) = spec_assign [] (map fst (slog (glog w))).
Proof. exact reachable_session_ids. Qed.
(* receiving never touches the outgoing table *)
Theorem C08_receiving_leaves_outgoing_ids_alone : forall s a mc f i, outgoing (snd (check_received s a mc f i)) = outgoing s.
Proof. exact check_received_outgoing. Qed.

Example C08_wrap : map (fun k => (nth_flag k, nth_id k)) [65534; 65535; 65536; 131070; 131071]
  = [(true, 65534); (true, 65535); (false, 1); (false, 65535); (false, 1)].
Proof. reflexivity. Qed.

(* tie to the source: the model function IS the Python function, translated from the source text on every run *)
Theorem C08_model_is_the_translated_source : forall s d, gen_assign_outgoing s d = assign_outgoing s d.
Proof. exact gen_assign_outgoing_eq. Qed.

(* send_sd is the control flow translated from the source text of sd.py on every run: an empty entry list consumes no
   session id and sends nothing; otherwise the destination's id is taken first, then the message is built (flags, client id,
   interface version as written in the source) and sent *)
Theorem C08_send_sd_is_the_translated_source : forall entries remote w,
  send_sd entries remote w
  = fst (fold_left (run_sdact entries remote) (gen_send_sd (match entries with [] => true | _ => false end)) (w, (false, 0))).
Proof. exact send_sd_is_the_translated_source. Qed.
Theorem C08_sd_datagram_is_the_translated_source : forall entries flag sid,
  sd_datagram entries flag sid
  = (do a <- assign_sd (mkSd entries [] flag gen_sd_flag_unicast 0);
     do p <- build_sd a;
     build_msg (mkMsg SD_SERVICE SD_METHOD gen_sd_client_id sid gen_sd_interface_version MT_NOTIFICATION 1 RC_E_OK p)).
Proof. exact sd_datagram_is_the_translated_source. Qed.

Print Assumptions C08_send_sd_is_the_translated_source.
Print Assumptions C08_sd_datagram_is_the_translated_source.
Print Assumptions C08_cycle.
Print Assumptions C08_session_ids_on_the_stack.
Print Assumptions C08_receiving_leaves_outgoing_ids_alone.
Print Assumptions C08_never_zero.
Print Assumptions C08_first_is_one.
Print Assumptions C08_no_gap_no_repeat.
Print Assumptions C08_empty_send.
Print Assumptions C08_send_takes_one_id.
Print Assumptions C08_send_ids_cycle.
Print Assumptions C08_id_and_flag_on_the_wire.
Print Assumptions C08_model_is_the_translated_source.
