(* C13 - FindService is sent only for watched services not yet found, bounded in number.  Transitions of the find
   task (Model/Stack.v), for every world.  NOT proved: the composed round schedule over the loop; checked on every
   run (check_C13, with liveness of offers computed by the abstract TTL-store specification). *)
From PS Require Import Lib.Base Generated.Consts Model.SdTypes Model.Config Model.Session Model.StackTypes Model.Stack
  Proofs.StackOpsProofs Model.Skel Generated.LogicGen Proofs.GenSkel.

Theorem C13_round_content : forall w, find_entries w
  = flat_map (fun p => if service_found (fst p) w then [] else [create_find_entry (fst p) (t_find_ttl (cfg w))]) (watched w).
Proof. exact find_round_content. Qed.
Theorem C13_wildcards_preserved : forall f ttl, let e := create_find_entry f ttl in
  e_type e = ET_FindService /\ e_sid e = s_sid f /\ e_iid e = s_iid f /\ e_maj e = s_maj f /\ e_val e = s_min f
  /\ e_ttl e = ttl /\ e_opts1 e = [] /\ e_opts2 e = [].
Proof. exact find_entry_preserves_wildcards. Qed.
Theorem C13_rounds_bounded : forall t i w, t_rep_max (cfg w) <= i -> find_next t i w = finish_task t w.
Proof. exact find_rounds_bounded. Qed.
Theorem C13_quiet_when_all_found : forall t w tk,
  get_task t w = Some tk -> tk_done tk = false -> tk_must_cancel tk = false -> tk_kind tk = TFind -> 1 <= tk_pc tk ->
  find_entries w = [] -> task_step t w = finish_task t w.
Proof. exact find_quiet_when_all_found. Qed.

(* the find task of the model is the coroutine ServiceDiscover.send_find_services as translated from the source text
   (harness/gen_logic.py gen_find_task: comprehension of _build_entries, _service_found, the delay (2 ** i) * base, range(REPETITIONS_MAX)) *)
Theorem C13_service_found_is_the_translated_source : forall f w,
  service_found f w
  = gen_service_found (fun s k => match k with KService s' => matches_service s s' | _ => false end) f (store_keys (found w)).
Proof. exact service_found_is_the_translated_source. Qed.
Theorem C13_find_entries_is_the_translated_source : forall w,
  find_entries w = gen_find_entries (fun s => service_found s w) create_find_entry (t_find_ttl (cfg w)) (map fst (watched w)).
Proof. exact find_entries_is_the_translated_source. Qed.
Theorem C13_find_next_is_the_translated_source : forall t i w,
  find_next t i w
  = if gen_find_has_round i (t_rep_max (cfg w)) then task_sleep t TFind (gen_find_delay i (t_rep_base (cfg w))) 2 i w
    else finish_task t w.
Proof. exact find_next_is_the_translated_source. Qed.
Theorem C13_find_round_is_the_translated_source : forall t w tk,
  get_task t w = Some tk -> tk_done tk = false -> tk_must_cancel tk = false -> tk_kind tk = TFind -> 1 <= tk_pc tk ->
  task_step t w
  = gen_find_round (find_entries w) (fun es => send_sd es None)
      (find_next t (if tk_pc tk =? 1 then 0 else tk_i tk + 1)) (finish_task t) w.
Proof. exact find_round_is_the_translated_source. Qed.

Print Assumptions C13_round_content.
Print Assumptions C13_wildcards_preserved.
Print Assumptions C13_rounds_bounded.
Print Assumptions C13_quiet_when_all_found.
Print Assumptions C13_service_found_is_the_translated_source.
Print Assumptions C13_find_entries_is_the_translated_source.
Print Assumptions C13_find_next_is_the_translated_source.
Print Assumptions C13_find_round_is_the_translated_source.
