(* C13 - FindService is sent only for watched services not yet found, bounded in number.  Transitions of the find
   task (Model/Stack.v), for every world.  NOT proved: the composed round schedule over the loop; checked on every
   run (check_C13, with liveness of offers computed by the abstract TTL-store specification). *)
From PS Require Import Lib.Base Generated.Consts Model.SdTypes Model.Config Model.Session Model.StackTypes Model.Stack
  Proofs.StackOpsProofs.

Theorem C13_round_content : forall w, find_entries w
  = flat_map (fun p => if service_found (fst p) w then [] else [create_find_entry (fst p) (t_find_ttl (cfg w))]) (watched w).
Proof. exact find_round_content. Qed.
Theorem C13_wildcards_preserved : forall f ttl, let e := create_find_entry f ttl in
  e_type e = ET_FindService /\ e_sid e = s_sid f /\ e_iid e = s_iid f /\ e_maj e = s_maj f /\ e_val e = s_min f
  /\ e_ttl e = ttl /\ e_opts1 e = [] /\ e_opts2 e = [].
Proof. exact find_entry_preserves_wildcards. Qed.
Theorem C13_rounds_bounded : forall t i w, t_rep_max (cfg w) <= i -> find_next t i w = finish_task t w.
Proof. exact find_rounds_bounded. Qed.
Theorem C13_quiet_when_all_found : forall t w tk,
  get_task t w = Some tk -> tk_done tk = false -> tk_must_cancel tk = false -> tk_kind tk = TFind -> 1 <= tk_pc tk ->
  find_entries w = [] -> task_step t w = finish_task t w.
Proof. exact find_quiet_when_all_found. Qed.

Print Assumptions C13_round_content.
Print Assumptions C13_wildcards_preserved.
Print Assumptions C13_rounds_bounded.
Print Assumptions C13_quiet_when_all_found.
