(* C19 - Service and eventgroup matching obeys the wildcard laws.
   This file contains only statements; proofs live in Proofs/C19Proofs.v. *)
From PS Require Import Lib.Base Generated.Consts Model.SdTypes Model.Config Spec.C19Spec Proofs.C19Proofs Generated.LogicGen Proofs.GenEquiv.

(* ids compared exactly, the other fields exactly unless the wildcard side carries the wildcard *)
Theorem C19_exact_offer : forall s e, e_type e = ET_OfferService -> matches_offer s e = Ok (spec_offer s e).
Proof. exact offer_exact. Qed.
Theorem C19_exact_find : forall s e, e_type e = ET_FindService -> matches_find s e = Ok (spec_find s e).
Proof. exact find_exact. Qed.
Theorem C19_exact_subscribe : forall s e, e_type e = ET_Subscribe -> matches_subscribe s e = Ok (spec_subscribe s e).
Proof. exact subscribe_exact. Qed.
Theorem C19_exact_service : forall a b, matches_service a b = spec_service a b.
Proof. exact service_exact. Qed.
Theorem C19_wrong_type_offer : forall s e, e_type e <> ET_OfferService -> matches_offer s e = Err EValue.
Proof. exact offer_wrong_type. Qed.
Theorem C19_wrong_type_find : forall s e, e_type e <> ET_FindService -> matches_find s e = Err EValue.
Proof. exact find_wrong_type. Qed.
Theorem C19_wrong_type_subscribe : forall s e, e_type e <> ET_Subscribe -> matches_subscribe s e = Err EValue.
Proof. exact subscribe_wrong_type. Qed.

Theorem C19_service_sym : forall a b, matches_service a b = matches_service b a.
Proof. exact service_sym. Qed.

Theorem C19_wildcard_monotone_offer : forall s e wi wj wm,
  matches_offer s e = Ok true -> matches_offer (widen s wi wj wm) e = Ok true.
Proof. exact offer_monotone. Qed.
Theorem C19_wildcard_monotone_subscribe : forall s e wi wj wm,
  matches_subscribe s e = Ok true -> matches_subscribe (widen s wi wj wm) e = Ok true.
Proof. exact subscribe_monotone. Qed.
Theorem C19_wildcard_monotone_service : forall a b wi wj wm,
  matches_service a b = true -> matches_service (widen a wi wj wm) b = true.
Proof. exact service_monotone. Qed.
Theorem C19_wildcard_monotone_find : forall s e wi wj wm,
  matches_find s e = Ok true -> matches_find s (widen_entry e wi wj wm) = Ok true.
Proof. exact find_monotone. Qed.

Theorem C19_find_offer_dual : forall s f t1 t2,
  matches_find s (create_find_entry f t1) = matches_offer f (create_offer_entry s t2).
Proof. exact find_offer_dual. Qed.

Theorem C19_subscribe_own_entry : forall s g ttl c, g_id g < 65536 ->
  matches_subscribe s (create_subscribe_entry g ttl c)
  = Ok ((s_sid s =? g_sid g) && field_ok 65535 (s_iid s) (g_iid g)
        && field_ok 255 (s_maj s) (g_maj g) && memN (g_id g) (s_egs s)).
Proof. exact subscribe_own_entry. Qed.

Theorem C19_offer_roundtrip : forall s ttl,
  from_offer_entry (create_offer_entry s ttl)
  = Ok (mkService (s_sid s) (s_iid s) (s_maj s) (s_min s) (s_opts1 s) (s_opts2 s) []).
Proof. exact offer_roundtrip. Qed.

Theorem C19_for_service : forall g s g',
  for_service g s = Some g' <->
  matches_offer (as_service g) (create_offer_entry s 3) = Ok true
  /\ g' = mkEg (g_sid g) (s_iid s) (s_maj s) (g_id g) (g_sock g) (g_proto g).
Proof. exact for_service_iff. Qed.

Theorem C19_for_service_spec : forall g s,
  for_service g s =
  if (g_sid g =? s_sid s) && field_ok 65535 (g_iid g) (s_iid s) && field_ok 255 (g_maj g) (s_maj s)
  then Some (mkEg (g_sid g) (s_iid s) (s_maj s) (g_id g) (g_sock g) (g_proto g)) else None.
Proof. exact for_service_spec. Qed.

(* tie to the source: the model functions ARE the Python functions, translated from the source text on every run *)
Theorem C19_model_is_the_translated_source :
  (forall s e, gen_matches_offer s e = matches_offer s e) /\ (forall s e, gen_matches_find s e = matches_find s e)
  /\ (forall s e, gen_matches_subscribe s e = matches_subscribe s e) /\ (forall a b, gen_matches_service a b = matches_service a b).
Proof. exact (conj gen_matches_offer_eq (conj gen_matches_find_eq (conj gen_matches_subscribe_eq gen_matches_service_eq))). Qed.

Print Assumptions C19_exact_offer.
Print Assumptions C19_exact_find.
Print Assumptions C19_exact_subscribe.
Print Assumptions C19_exact_service.
Print Assumptions C19_wrong_type_offer.
Print Assumptions C19_wrong_type_find.
Print Assumptions C19_wrong_type_subscribe.
Print Assumptions C19_service_sym.
Print Assumptions C19_wildcard_monotone_offer.
Print Assumptions C19_wildcard_monotone_subscribe.
Print Assumptions C19_wildcard_monotone_service.
Print Assumptions C19_wildcard_monotone_find.
Print Assumptions C19_find_offer_dual.
Print Assumptions C19_subscribe_own_entry.
Print Assumptions C19_offer_roundtrip.
Print Assumptions C19_for_service.
Print Assumptions C19_for_service_spec.
Print Assumptions C19_model_is_the_translated_source.
