(* C08: the k-th id handed out for one destination (k >= 1), independent of other destinations. *)
From PS Require Import Lib.Base Model.Session.

Definition nth_flag (k : N) : bool := k <=? 65535.
Definition nth_id (k : N) : N := (k - 1) mod 65535 + 1.

Definition cnt_get (cnt : list (dest * N)) (d : dest) : N :=
  match aget dest_eqb d cnt with Some k => k | None => 0 end.

(* cnt: how many ids each destination has been given so far *)
Fixpoint spec_assign (cnt : list (dest * N)) (ds : list dest) : list (bool * N) :=
  match ds with
  | [] => []
  | d :: r => let k := cnt_get cnt d + 1 in
              (nth_flag k, nth_id k) :: spec_assign (aset dest_eqb d k cnt) r
  end.
