(* C01: the SOME/IP wire layout written out from the specification (no use of pack/be). *)
From PS Require Import Lib.Base Generated.Consts Model.SdTypes.

Definition b16 (v : N) : bytes := [v / 256; v mod 256].
Definition b32 (v : N) : bytes := [v / 16777216; (v / 65536) mod 256; (v / 256) mod 256; v mod 256].

Definition spec_layout (m : someip) : bytes :=
  b16 (m_sid m) ++ b16 (m_mid m) ++ b32 (len (m_payload m) + 8) ++ b16 (m_cid m) ++ b16 (m_sess m)
  ++ [m_pv m; m_iv m; m_mt m; m_rc m] ++ m_payload m.

(* fields fit their wire widths (what "build" accepts) *)
Definition fits_msgb (m : someip) : bool :=
  (m_sid m <? 65536) && (m_mid m <? 65536) && (m_cid m <? 65536) && (m_sess m <? 65536)
  && (m_iv m <? 256) && (m_pv m <? 256) && (m_mt m <? 256) && (m_rc m <? 256)
  && (len (m_payload m) + 8 <? 4294967296).

(* a message as the library's own types allow it (enum-typed type/code, protocol version 1) *)
Definition wf_msgb (m : someip) : bool :=
  fits_msgb m && (m_pv m =? 1) && memN (m_mt m) msg_type_values && memN (m_rc m) ret_code_values
  && bytes_okb (m_payload m).
