(* C02: an independent decoder of the SOME/IP-SD wire layout, written from the specification with
   index arithmetic (no struct formats, no option registry, none of the model's parse functions). *)
From PS Require Import Lib.Base Model.SdTypes.

Definition at8 (b : bytes) (i : N) : N := nth (N.to_nat i) b 0.
Definition at16 (b : bytes) (i : N) : N := at8 b i * 256 + at8 b (i + 1).
Definition at24 (b : bytes) (i : N) : N := at8 b i * 65536 + at16 b (i + 1).
Definition at32 (b : bytes) (i : N) : N := at16 b i * 65536 + at16 b (i + 2).
Definition slice {X} (b : list X) (i n : N) : list X := firstn (N.to_nat n) (skipn (N.to_nat i) b).

Definition ref_ascii (s : bytes) : option (list N) :=
  if existsb (fun c => 127 <? c) s then None else Some s.

Definition split_eq (s : bytes) : bytes * option bytes :=
  (fix go (acc l : bytes) : bytes * option bytes :=
     match l with
     | [] => (rev acc, None)
     | c :: r => if c =? 61 then (rev acc, Some r) else go (c :: acc) r
     end) [] s.

(* configuration strings: [len][len bytes] ... [0]; body = option body after the reserved byte *)
Fixpoint ref_cfgs (fuel : nat) (body : bytes) : option (list (list N * option (list N))) :=
  match fuel with
  | O => None
  | S f =>
      match body with
      | [] => None
      | 0 :: _ => Some []
      | l :: r =>
          if len r <? l + 1 then None else
          let s := slice r 0 l in
          let '(k, v) := split_eq s in
          match ref_ascii k, (match v with None => Some None | Some v' => option_map Some (ref_ascii v') end),
                ref_cfgs f (skipn (N.to_nat l) r) with
          | Some k', Some v', Some rest => Some ((k', v') :: rest)
          | _, _, _ => None
          end
      end
  end.

Definition ref_option (ty : N) (body : bytes) : option sdopt :=
  let ip (cls alen : N) :=
    if len body =? alen + 5 then
      Some (OIP cls (slice body 1 alen) (at8 body (alen + 2)) (at16 body (alen + 3)))
    else None in
  match ty with
  | 1 => if len body <? 2 then None else option_map OConfig (ref_cfgs (length body) (skipn 1 body))
  | 2 => if len body =? 5 then Some (OLoadBal (at16 body 1) (at16 body 3)) else None
  | 4 => ip 2 4 | 20 => ip 3 4 | 36 => ip 4 4
  | 6 => ip 5 16 | 22 => ip 6 16 | 38 => ip 7 16
  | _ => Some (OUnknown ty body)
  end.

Fixpoint ref_options (fuel : nat) (b : bytes) (p stop : N) : option (list sdopt) :=
  if p =? stop then Some [] else
  match fuel with
  | O => None
  | S f =>
      if stop <? p + 3 then None else
      let l := at16 b p in
      if stop <? p + 3 + l then None else
      match ref_option (at8 b (p + 2)) (slice b (p + 3) l), ref_options f b (p + 3 + l) stop with
      | Some o, Some r => Some (o :: r)
      | _, _ => None
      end
  end.

Definition ref_entry (b : bytes) (o : N) (opts : list sdopt) : option sdentry :=
  let ty := at8 b o in
  let i1 := at8 b (o + 1) in let i2 := at8 b (o + 2) in
  let n1 := at8 b (o + 3) / 16 in let n2 := at8 b (o + 3) mod 16 in
  if negb ((ty =? 0) || (ty =? 1) || (ty =? 6) || (ty =? 7)) then None else
  if (len opts <? i1 + n1) || (len opts <? i2 + n2) then None else
  if ((ty =? 6) || (ty =? 7)) && (1048575 <? at32 b (o + 12)) then None else
  Some (mkEntry ty (at16 b (o + 4)) (at16 b (o + 6)) (at8 b (o + 8)) (at24 b (o + 9)) (at32 b (o + 12))
                (slice opts i1 n1) (slice opts i2 n2) None).

Fixpoint ref_entries (n : nat) (b : bytes) (o : N) (opts : list sdopt) : option (list sdentry) :=
  match n with
  | O => Some []
  | S n' => match ref_entry b o opts, ref_entries n' b (o + 16) opts with
            | Some e, Some r => Some (e :: r)
            | _, _ => None
            end
  end.

(* the whole SD payload, options resolved *)
Definition ref_decode (b : bytes) : option sdheader :=
  if len b <? 12 then None else
  let elen := at32 b 4 in
  if len b <? 12 + elen then None else
  if negb (elen mod 16 =? 0) then None else
  let olen := at32 b (8 + elen) in
  if negb (len b =? 12 + elen + olen) then None else
  match ref_options (length b) b (12 + elen) (12 + elen + olen) with
  | None => None
  | Some opts =>
      match ref_entries (N.to_nat (elen / 16)) b 8 opts with
      | None => None
      | Some es =>
          let fl := at8 b 0 in
          Some (mkSd es opts (128 <=? fl) (64 <=? fl mod 128) (fl mod 64))
      end
  end.

Definition sdheader_eqb (a b : sdheader) : bool :=
  list_eqb sdentry_eqb (sd_entries a) (sd_entries b) && list_eqb sdopt_eqb (sd_options a) (sd_options b)
  && Bool.eqb (sd_reboot a) (sd_reboot b) && Bool.eqb (sd_unicast a) (sd_unicast b)
  && (sd_flags_unknown a =? sd_flags_unknown b).

(* the checker run on implementation output: the bytes decode (independently) to the original
   flags and entries, each entry with exactly its own option runs *)
Definition check_C02 (m : sdheader) (wire : bytes) : bool :=
  match ref_decode wire with
  | Some d =>
      list_eqb sdentry_eqb (sd_entries d) (sd_entries m)
      && Bool.eqb (sd_reboot d) (sd_reboot m) && Bool.eqb (sd_unicast d) (sd_unicast m)
      && (sd_flags_unknown d =? sd_flags_unknown m)
  | None => false
  end.

(* when is a resolved message representable on the wire *)
Definition opt_fits (o : sdopt) : bool :=
  match o with
  | OUnknown ty p => (ty <? 256) && (len p <? 65536)
  | OLoadBal p w => (p <? 65536) && (w <? 65536)
  | OConfig cfgs =>
      forallb (fun kv => let l := len (fst kv) + match snd kv with Some v => len v + 1 | None => 0 end in
                         (l <? 256) && forallb (fun c => c <? 128) (fst kv)
                         && match snd kv with Some v => forallb (fun c => c <? 128) v | None => true end) cfgs
  | OIP c a proto port => (len a =? (if is_v6_cls c then 16 else 4)) && (proto <? 256) && (port <? 65536)
  end.
