(* C07: reboot detection read literally from the property. *)
From PS Require Import Lib.Base Model.Session.

(* the previous message with the same sender and channel: scan the reversed prefix *)
Fixpoint last_same (k : in_key) (rev_prefix : list rx) : option (bool * N) :=
  match rev_prefix with
  | [] => None
  | (a, mc, f, sid) :: r => if in_key_eqb k (a, mc) then Some (f, sid) else last_same k r
  end.

(* reboot <-> a previous message exists and (flag went clear->set, or stayed set while the id did not increase) *)
Definition detect_lit (prev : option (bool * N)) (f : bool) (sid : N) : bool :=
  match prev with
  | None => false
  | Some (of, osid) => f && (negb of || (sid <=? osid))
  end.

(* what the code does: additionally requires the previous id to be non-zero (finding F12) *)
Definition detect_code (prev : option (bool * N)) (f : bool) (sid : N) : bool :=
  match prev with
  | None => false
  | Some (of, osid) => f && (negb of || ((0 <? osid) && (sid <=? osid)))
  end.

Fixpoint spec_go (detect : option (bool * N) -> bool -> N -> bool) (rev_prefix h : list rx) : list bool :=
  match h with
  | [] => []
  | (a, mc, f, sid) :: r =>
      detect (last_same (a, mc) rev_prefix) f sid :: spec_go detect ((a, mc, f, sid) :: rev_prefix) r
  end.
Definition spec_detect (h : list rx) : list bool := spec_go detect_lit [] h.
Definition spec_detect_code (h : list rx) : list bool := spec_go detect_code [] h.

(* F12: the one place where the two differ: flag stayed set, previous id 0 and new id 0 *)
Definition f12_at (prev : option (bool * N)) (f : bool) (sid : N) : bool :=
  match prev with
  | Some (true, 0) => f && (sid =? 0)
  | _ => false
  end.
Fixpoint f12_go (rev_prefix h : list rx) : list bool :=
  match h with
  | [] => []
  | (a, mc, f, sid) :: r =>
      f12_at (last_same (a, mc) rev_prefix) f sid :: f12_go ((a, mc, f, sid) :: rev_prefix) r
  end.
Definition f12_positions (h : list rx) : list bool := f12_go [] h.
Definition f12_free (h : list rx) : bool := forallb negb (f12_positions h).
