(* What the peer said and what the application asked, extracted from a scenario: the inputs the
   properties quantify over.  Reboot evidence is classified with the literal C07 rule. *)
From PS Require Import Lib.Base Generated.Consts Model.SdTypes Model.Config Model.Session Model.Someip
  Model.SdCodec Model.StackTypes Model.Stack Model.StackIO Spec.C07Spec.

Inductive input :=
| IOffer (a : addr) (s : service) (ttl : N)       (* ttl <> 0 *)
| IStopOffer (a : addr) (s : service)
| IReboot (a : addr)
| ISubscribe (a : addr) (e : sdentry)             (* received by unicast; ttl may be 0 (StopSubscribe) *)
| IFind (a : addr) (e : sdentry) (mc : bool)
| IApi (c : api).

Definition entry_inputs (a : addr) (mc : bool) (e : sdentry) : list input :=
  if e_type e =? ET_OfferService then
    match from_offer_entry e with
    | Ok s => if e_ttl e =? 0 then [IStopOffer a s] else [IOffer a s (e_ttl e)]
    | Err _ => []
    end
  else if e_type e =? ET_FindService then [IFind a e mc]
  else if (e_type e =? ET_Subscribe) && negb mc then [ISubscribe a e]
  else [].

(* one SOME/IP message: (inputs, new reverse history of received SD messages for the C07 rule) *)
Definition message_inputs (a : addr) (mc : bool) (m : someip) (hist : list rx) : list input * list rx :=
  if negb (is_sd_message m) then ([], hist) else
  match parse_sd (m_payload m) with
  | Err _ => ([], hist)
  | Ok (h, _) =>
      let rb := detect_code (last_same (a, mc) hist) (sd_reboot h) (m_sess m) in
      let hist' := (a, mc, sd_reboot h, m_sess m) :: hist in
      let ents := match resolve_sd h with
                  | Ok hr => if sd_unicast hr then flat_map (entry_inputs a mc) (sd_entries hr) else []
                  | Err _ => []
                  end in
      ((if rb then [IReboot a] else []) ++ ents, hist')
  end.

Fixpoint inputs_go (events : list (N * handle)) (hist : list rx) : list (N * input) :=
  match events with
  | [] => []
  | (t, HDatagram a mc data) :: r =>
      let '(ins, hist') :=
        fold_left (fun acc m => let '(i, h') := message_inputs a mc m (snd acc) in (fst acc ++ i, h'))
                  (fst (datagram_split data)) ([], hist) in
      map (fun i => (t, i)) ins ++ inputs_go r hist'
  | (t, HApi c) :: r => (t, IApi (api_strip c)) :: inputs_go r hist
  | _ :: r => inputs_go r hist
  end.
(* application calls made some loop iterations into their instant (ApiSoon) take effect after everything that arrives
   in the first iteration of that instant: they are moved behind the other events of the instant, fewer hops first
   (a stable insertion sort on (time, hops); the events are sorted by time already) *)
Fixpoint api_hops (c : api) : nat := match c with ApiSoon c' => S (api_hops c') | _ => O end.
Definition ev_hops (e : N * handle) : nat := match snd e with HApi c => api_hops c | _ => O end.
Definition ev_before (x y : N * handle) : bool :=     (* x may stay in front of y *)
  (fst x <? fst y) || ((fst x =? fst y) && Nat.leb (ev_hops x) (ev_hops y)).
Fixpoint insert_ev (x : N * handle) (l : list (N * handle)) : list (N * handle) :=
  match l with
  | [] => [x]
  | y :: r => if ev_before x y then x :: l else y :: insert_ev x r
  end.
Definition order_events (l : list (N * handle)) : list (N * handle) := fold_right insert_ev [] l.
Definition inputs_of (sc : scenario) : list (N * input) := inputs_go (order_events (sc_events sc)) [].

(* decoded SD entries of a sent datagram: (reboot flag, session id, resolved entries) *)
Definition decode_sent (data : bytes) : option (bool * N * list sdentry) :=
  match parse_msg data with
  | Ok (m, []) =>
      if negb (is_sd_message m) then None else
      match parse_sd (m_payload m) with
      | Ok (h, []) => match resolve_sd h with
                      | Ok hr => Some (sd_reboot hr, m_sess m, sd_entries hr)
                      | Err _ => None
                      end
      | _ => None
      end
  | _ => None
  end.

(* all transmitted entries with time and destination, in transmission order; None if a datagram does not decode *)
Fixpoint sent_entries (tr : trace) : option (list (N * dest * sdentry)) :=
  match tr with
  | [] => Some []
  | (t, ESent d data) :: r =>
      match decode_sent data, sent_entries r with
      | Some (_, _, es), Some rest => Some (map (fun e => (t, d, e)) es ++ rest)
      | _, _ => None
      end
  | _ :: r => sent_entries r
  end.

Definition service_key_eqb (a b : service) : bool :=
  (s_sid a =? s_sid b) && (s_iid a =? s_iid b) && (s_maj a =? s_maj b) && (s_min a =? s_min b).

Definition sec (ttl : N) : N := ttl * usec_per_sec.

(* strictly alternating up, down, up, ... beginning with up *)
Fixpoint alternates (expect_up : bool) (l : list bool) : bool :=
  match l with
  | [] => true
  | b :: r => Bool.eqb b expect_up && alternates (negb expect_up) r
  end.

Definition count {X} (f : X -> bool) (l : list X) : N := len (filter f l).
