(* C19: the one-line specifications of the matching functions (the property read literally). *)
From PS Require Import Lib.Base Generated.Consts Model.SdTypes Model.Config.

(* the one-line specification: [w] is the wildcard, [wild] the side that may carry it *)
Definition field_ok (w wild other : N) : bool := (wild =? w) || (wild =? other).
Definition field_ok2 (w a b : N) : bool := (a =? w) || (b =? w) || (a =? b).

Definition spec_offer (s : service) (e : sdentry) : bool :=
  (s_sid s =? e_sid e) && field_ok 65535 (s_iid s) (e_iid e)
  && field_ok 255 (s_maj s) (e_maj e) && field_ok 4294967295 (s_min s) (e_val e).
Definition spec_find (s : service) (e : sdentry) : bool :=
  (s_sid s =? e_sid e) && field_ok 65535 (e_iid e) (s_iid s)
  && field_ok 255 (e_maj e) (s_maj s) && field_ok 4294967295 (e_val e) (s_min s).
Definition spec_subscribe (s : service) (e : sdentry) : bool :=
  (s_sid s =? e_sid e) && field_ok 65535 (s_iid s) (e_iid e)
  && field_ok 255 (s_maj s) (e_maj e) && memN (N.land (e_val e) 65535) (s_egs s).
Definition spec_service (a b : service) : bool :=
  (s_sid a =? s_sid b) && field_ok2 65535 (s_iid a) (s_iid b)
  && field_ok2 255 (s_maj a) (s_maj b) && field_ok2 4294967295 (s_min a) (s_min b).

