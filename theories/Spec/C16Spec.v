(* C16: the reply table of the property, first failing check decides. *)
From PS Require Import Lib.Base Generated.Consts Model.SdTypes Model.ServiceRecv.

Inductive verdict := NoReply | ErrorReply (rc : N) | Response (p : bytes).

Definition spec_verdict (svc_id ver : N) (methods : list N) (m : someip) (mc : bool) (h : hres) : verdict :=
  if mc then NoReply else
  if negb (m_sid m =? svc_id) then ErrorReply 2 (* E_UNKNOWN_SERVICE *) else
  if negb (m_iv m =? ver) then ErrorReply 8 (* E_WRONG_INTERFACE_VERSION *) else
  if negb (memN (m_mid m) methods) then ErrorReply 3 (* E_UNKNOWN_METHOD *) else
  if negb ((m_mt m =? 0) || (m_mt m =? 1)) then ErrorReply 10 (* E_WRONG_MESSAGE_TYPE *) else
  if negb (m_rc m =? 0) then ErrorReply 10 else
  match h with
  | HMalformed => ErrorReply 9 (* E_MALFORMED_MESSAGE *)
  | HNone => NoReply
  | HBytes p => if m_mt m =? 0 then Response p else NoReply
  end.

(* every reply copies service, method, client, session ids, interface and protocol version *)
Definition reply_of (m : someip) (v : verdict) : option someip :=
  match v with
  | NoReply => None
  | ErrorReply rc => Some (mkMsg (m_sid m) (m_mid m) (m_cid m) (m_sess m) (m_iv m) 129 (m_pv m) rc [])
  | Response p => Some (mkMsg (m_sid m) (m_mid m) (m_cid m) (m_sess m) (m_iv m) 128 (m_pv m) 0 p)
  end.

Definition spec_reply svc_id ver methods m mc h : option someip :=
  reply_of m (spec_verdict svc_id ver methods m mc h).
