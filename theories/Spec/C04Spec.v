(* C04: two stacks converge.  The checker reads the truth ("is the offerer offering", "is the watcher running")
   from the control events of the scenario alone and judges the listener views recorded in the two traces after
   the settle bound: last disturbance + one TTL + one period (+ the start-up phases and network latency). *)
From PS Require Import Lib.Base Generated.Consts Model.SdTypes Model.Config Model.Session Model.StackTypes Model.Stack
  Model.StackIO Model.System Spec.TraceSpec.

Record nstate := mkNs { ns_alive : bool; ns_started : bool; ns_since : N }.

Definition init_starts (nd : node_cfg) : bool := existsb (fun c => match c with ApiStart => true | _ => false end) (nd_init nd).

Definition node_state (sc : sys_scenario) (is_b : bool) : nstate :=
  let nd := if is_b then ss_b sc else ss_a sc in
  fold_left (fun st e =>
    if negb (Bool.eqb (fst (snd e)) is_b) then st else
    match snd (snd e) with
    | CCrash => mkNs false false (ns_since st)
    | CRestart => if ns_alive st then st else mkNs true (init_starts nd) (fst e)
    | CApi ApiStart => if ns_alive st then mkNs true true (ns_since st) else st
    | CApi ApiStop => if ns_alive st then mkNs true false (ns_since st) else st
    | CApi _ => st
    end) (ss_events sc) (mkNs false false 0).

Definition max_list (l : list N) : N := fold_left N.max l 0.

Definition last_disturbance (sc : sys_scenario) : N :=
  N.max (max_list (map fst (ss_events sc)))
        (match ss_decisions sc with
         | [] => 0
         | ds => ss_fault_end sc + max_list (flat_map (fun d => d) ds)
         end).

Definition fin_ttl (ttl : N) : N := if ttl =? TTL_FOREVER then 0 else ttl * usec_per_sec.
Definition rep_total (c : timings) : N := t_init_max c + (N.shiftl 1 (t_rep_max c)) * t_rep_base c.

Definition settle_bound (sc : sys_scenario) : N :=
  let ca := nd_cfg (ss_a sc) in
  let cb := nd_cfg (ss_b sc) in
  let ttl := N.max (N.max (fin_ttl (t_announce_ttl ca)) (fin_ttl (t_subscribe_ttl cb))) (fin_ttl (t_find_ttl cb)) in
  let period := N.max (t_cyclic ca) (match t_refresh cb with Some r => r | None => 0 end) in
  let slack := rep_total ca + rep_total cb + t_rr_max ca + 2 * (t_collect ca + t_collect cb) + 4 * (ss_latency sc + 1) + 16 in
  last_disturbance sc + ttl + period + slack.

(* the listener views: (time, up?) changes, oldest first, of the current incarnation *)
Definition watcher_view (sc : sys_scenario) (trb : trace) : list (N * bool) :=
  let since := ns_since (node_state sc true) in
  let a := nd_addr (ss_a sc) in
  flat_map (fun p => if fst p <? since then [] else
                     match snd p with
                     | EOffered _ _ a' => if a' =? a then [(fst p, true)] else []
                     | EStopped _ _ a' => if a' =? a then [(fst p, false)] else []
                     | _ => []
                     end) trb.

Definition server_view (sc : sys_scenario) (tra : trace) : list (N * bool) :=
  let since := ns_since (node_state sc false) in
  let b := nd_addr (ss_b sc) in
  flat_map (fun p => if fst p <? since then [] else
                     match snd p with
                     | ESubscribed _ _ a' ok => if (a' =? b) && ok then [(fst p, true)] else []
                     | EUnsubscribed _ _ a' => if a' =? b then [(fst p, false)] else []
                     | _ => []
                     end) tra.

Definition view_now (v : list (N * bool)) : bool := match rev v with (_, b) :: _ => b | [] => false end.
Definition changes_after (d : N) (v : list (N * bool)) : bool := existsb (fun p => d <? fst p) v.

(* the domain of the property: finite TTLs longer than the periods (or: infinite TTLs, nobody left crashed) *)
Definition ttl_covers (ttl period lat : N) : bool := (ttl =? TTL_FOREVER) || (period + 2 * lat + 2 <? ttl * usec_per_sec).
Definition in_domain (sc : sys_scenario) : bool :=
  let ca := nd_cfg (ss_a sc) in
  let cb := nd_cfg (ss_b sc) in
  (* a non-cyclic offerer (period 0) is in the domain with an infinite offer TTL: after its repetition phase the answers
     to FindService entries are what a late watcher learns it from *)
  (negb (t_cyclic ca =? 0) || (t_announce_ttl ca =? TTL_FOREVER))
  && ttl_covers (t_announce_ttl ca) (t_cyclic ca + t_collect ca) (ss_latency sc)
  && match t_refresh cb with
     | Some r => ttl_covers (t_subscribe_ttl cb) (r + t_collect ca + t_collect cb) (ss_latency sc)
     | None => t_subscribe_ttl cb =? TTL_FOREVER
     end
  && ((t_cyclic ca =? 0) || (rep_total ca <=? t_cyclic ca))
  (* what a peer learnt with an infinite TTL from a peer that crashed and did not come back can never be unlearnt: the
     property speaks of restarts "after which the restarted peer sends at least one SD message" *)
  && (negb (t_announce_ttl ca =? TTL_FOREVER) || ns_alive (node_state sc false))
  && (negb (t_subscribe_ttl cb =? TTL_FOREVER) || ns_alive (node_state sc true)).

(* Finding F16: SOME/IP-SD detects reboots per sender AND per channel.  A watcher that has heard the offerer only by
   unicast (the answer to its FindService) has no multicast history of it: when the offerer crashes before its next
   multicast offer and restarts, its first messages are first contacts on the multicast channel and carry no reboot
   evidence the watcher can see.  With an infinite subscription TTL and no refresh the watcher never subscribes again. *)
Definition f16_pattern (sc : sys_scenario) (tra : trace) : bool :=
  let cb := nd_cfg (ss_b sc) in
  let sa := node_state sc false in
  let sb := node_state sc true in
  (t_subscribe_ttl cb =? TTL_FOREVER) && match t_refresh cb with None => true | Some _ => false end
  && (ns_since sb <? ns_since sa)
  && negb (existsb (fun p => match snd p with
                             | ESent None _ => (ns_since sb <=? fst p + ss_latency sc + 1) && (fst p <? ns_since sa)
                             | _ => false
                             end) tra).

(* F20 (open finding, a consequence of F15): with an infinite subscription TTL and no refresh, an answer to the watcher's
   FindService that leaves the offerer AFTER its StopOffer (F15: queued before the stop, its collection window closes
   later) makes the watcher store an offer of a stopped service; when the offerer is started again its offers only
   refresh that entry, nobody is notified and the watcher never subscribes again.  Recognised on the offerer's trace: a
   unicast Offer (TTL > 0) transmitted after a multicast StopOffer and before the next multicast Offer. *)
Definition f20_pattern (sc : sys_scenario) (tra : trace) : bool :=
  let cb := nd_cfg (ss_b sc) in
  (t_subscribe_ttl cb =? TTL_FOREVER) && match t_refresh cb with None => true | Some _ => false end
  && match sent_entries tra with
     | None => false
     | Some l =>
         snd (fold_left (fun st x =>
                let '(after, found) := st in
                let '(_, d, e) := x in
                if e_type e =? ET_OfferService then
                  match d with
                  | None => (e_ttl e =? 0, found)
                  | Some _ => (after, found || (after && negb (e_ttl e =? 0)))
                  end
                else st) l (false, false))
     end.

(* F21 (open finding): a restart is detected once per CHANNEL (C07).  After a crash + restart of a NON-cyclic offerer the
   watcher detects it on the multicast channel (the new incarnation's offer: stopped, offered, Subscribe) and then AGAIN on
   the unicast channel (the new incarnation's first unicast message, the SubscribeAck, repeats session id 1): the second
   clean-up withdraws the offer just learnt from the new incarnation.  With cyclic offers the next one repairs it; without,
   nothing does.  Pattern: no cyclic offers and the offerer crashed at least once. *)
Definition f21_pattern (sc : sys_scenario) : bool :=
  (t_cyclic (nd_cfg (ss_a sc)) =? 0)
  && existsb (fun e => negb (fst (snd e)) && match snd (snd e) with CCrash => true | _ => false end) (ss_events sc).

(* codes: 1 watcher view wrong after the bound, 2 watcher view still changing after the bound, 3 server view wrong,
   4 server view still changing, 16 = code 3 under the F16 pattern, 20 = code 3 under the F20 pattern, 21 = code 1 / 3 under the F21 pattern, 90 not judged (outside the domain or the run ends before the bound) *)
Definition check_C04 (sc : sys_scenario) (tra trb : trace) : list N :=
  let sa := node_state sc false in
  let sb := node_state sc true in
  let offering := ns_alive sa && ns_started sa in
  let watching := ns_alive sb && ns_started sb in
  let d := settle_bound sc in
  if negb (in_domain sc) || (ss_end sc <? d + 2) then [90] else
  let wv := watcher_view sc trb in
  let sv := server_view sc tra in
  (if watching then
     (if Bool.eqb (view_now wv) offering then [] else [if f21_pattern sc then 21 else 1]) ++ (if changes_after d wv then [2] else [])
   else [])
  ++ (if ns_alive sa then
        (if Bool.eqb (view_now sv) (offering && watching) then [] else [if f16_pattern sc tra then 16 else if f20_pattern sc tra then 20 else if f21_pattern sc then 21 else 3]) ++ (if changes_after d sv then [4] else [])
      else []).
