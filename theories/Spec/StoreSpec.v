(* Abstract specification of the two TTL stores (found services, server subscriptions) read from the
   properties C05, C06, C09: per key, the history of "up"/"down" notifications a listener must see,
   as a function of the timed inputs alone (no event loop, no timers, no callbacks).  The checkers
   compare the listener notifications of a trace with this specification. *)
From PS Require Import Lib.Base Generated.Consts Model.SdTypes Model.Config Model.Session
  Model.StackTypes Model.Stack Model.StackIO Spec.TraceSpec.

(* ---- what touches one key ---- *)
Inductive touch :=
| TUp (ttl : N) (needs_accept : bool) (accepted : bool)  (* offer / subscribe; a NEW entry is only recorded if accepted *)
| TDown.                                                 (* stop-offer / stop-subscribe / reboot / connection loss / service stop *)

(* per-key state: None = down, Some d = up with deadline d (None = never expires) *)
Definition kstate := option (option N).

(* emitted notifications newest-first; ambiguous = a touch exactly at a pending deadline (either order accepted) *)
Record hist := mkHist { h_state : kstate; h_out : list (N * bool); h_ambiguous : bool }.

Definition expire_before (t : N) (h : hist) : hist :=
  match h_state h with
  | Some (Some d) =>
      if d <? t then mkHist None ((d, false) :: h_out h) (h_ambiguous h)
      else if d =? t then mkHist (h_state h) (h_out h) true
      else h
  | _ => h
  end.

Definition deadline_of (t ttl : N) : option N := if ttl =? TTL_FOREVER then None else Some (t + sec ttl).

Definition apply_touch (t : N) (x : touch) (h0 : hist) : hist :=
  let h := expire_before t h0 in
  match x, h_state h with
  | TUp ttl _ _, Some _ => mkHist (Some (deadline_of t ttl)) (h_out h) (h_ambiguous h)        (* refresh *)
  | TUp ttl na acc, None =>
      if na && negb acc then h                                                              (* rejected: not recorded *)
      else mkHist (Some (deadline_of t ttl)) ((t, true) :: h_out h) (h_ambiguous h)
  | TDown, Some _ => mkHist None ((t, false) :: h_out h) (h_ambiguous h)
  | TDown, None => h
  end.

(* the expected history of one key up to t_end (inclusive); None when ambiguous *)
Definition expected_history (touches : list (N * touch)) (t_end : N) : option (list (N * bool)) :=
  let h := fold_left (fun acc p => apply_touch (fst p) (snd p) acc) touches (mkHist None [] false) in
  let h' := expire_before (t_end + 1) h in
  if h_ambiguous h' then None else Some (rev (h_out h')).

(* a touch exactly at a pending deadline: the expiry ran first, or the touch did - the histories of BOTH orders, for every
   such coincidence of the key (None when there are more than 64 of them).  Used where expected_history gives up. *)
Definition expire_alts (t : N) (h : hist) : list hist :=
  match h_state h with
  | Some (Some d) =>
      if d <? t then [mkHist None ((d, false) :: h_out h) false]
      else if d =? t then [mkHist None ((d, false) :: h_out h) false; mkHist (h_state h) (h_out h) false]
      else [h]
  | _ => [h]
  end.
Definition touch_after (t : N) (x : touch) (h : hist) : hist :=
  match x, h_state h with
  | TUp ttl _ _, Some _ => mkHist (Some (deadline_of t ttl)) (h_out h) false
  | TUp ttl na acc, None =>
      if na && negb acc then h else mkHist (Some (deadline_of t ttl)) ((t, true) :: h_out h) false
  | TDown, Some _ => mkHist None ((t, false) :: h_out h) false
  | TDown, None => h
  end.
Definition expected_histories (touches : list (N * touch)) (t_end : N) : option (list (list (N * bool))) :=
  let hs := fold_left (fun acc p =>
              match acc with
              | None => None
              | Some l => let l' := flat_map (fun h => map (touch_after (fst p) (snd p)) (expire_alts (fst p) h)) l in
                          if Nat.leb (length l') 64 then Some l' else None
              end) touches (Some [mkHist None [] false]) in
  match hs with
  | None => None
  | Some l => Some (map (fun h => rev (h_out h)) (flat_map (expire_alts (t_end + 1)) l))
  end.

(* ---- announcer lifecycle: which instances run (spec-level replay of the API calls) ---- *)
Record lstate := mkL { l_started : bool; l_announcing : list N; l_running : list N }.
Definition l_init : lstate := mkL false [] [].

Fixpoint start_all (l : list N) (running : list N) : list N * bool :=
  match l with
  | [] => (running, true)
  | i :: r => if memN i running then (running, false) else start_all r (running ++ [i])
  end.
Definition remove_all (l running : list N) : list N := filter (fun i => negb (memN i l)) running.

Definition lifecycle_step (known : list N) (c : api) (s : lstate) : lstate :=
  let ann_start (s : lstate) :=
    let '(run, ok) := start_all (l_announcing s) (l_running s) in mkL (if ok then true else l_started s) (l_announcing s) run in
  let ann_stop (s : lstate) :=
    if l_started s then mkL false (l_announcing s) (remove_all (l_announcing s) (l_running s)) else s in
  match c with
  | ApiStart | ApiAnnStart => ann_start s
  | ApiStop | ApiAnnStop | ApiConnLost => ann_stop s
  | ApiAnnounce i =>
      if negb (memN i known) then mkL (l_started s) (l_announcing s ++ [i]) (l_running s) else
      if l_started s then
        (if memN i (l_running s) then s else mkL true (l_announcing s ++ [i]) (l_running s ++ [i]))
      else mkL false (l_announcing s ++ [i]) (l_running s)
  | ApiStopAnnounce i send =>
      match remove_first N.eqb i (l_announcing s) with
      | None => s
      | Some l => mkL (l_started s) l (if send && l_started s then remove_all [i] (l_running s) else l_running s)
      end
  | _ => s
  end.

(* ---- found services: touches of key (a, service ids) ---- *)
Definition found_touches (ins : list (N * input)) (a : addr) (k : service) : list (N * touch) :=
  flat_map (fun p =>
    match snd p with
    | IOffer a' s ttl => if (a' =? a) && service_key_eqb s k then [(fst p, TUp ttl false true)] else []
    | IStopOffer a' s => if (a' =? a) && service_key_eqb s k then [(fst p, TDown)] else []
    | IReboot a' => if a' =? a then [(fst p, TDown)] else []
    | IApi ApiConnLost => [(fst p, TDown)]
    | _ => []
    end) ins.

(* ---- server subscriptions: touches of key (instance, subscriber address, subscription identity) ---- *)
Definition sub_key_eqb := sub_eqb.

Fixpoint subs_touches_go (insts : list (N * inst)) (ins : list (N * input)) (ls : lstate) (rej : list N)
  (i : N) (a : addr) (k : subscription) : list (N * touch) :=
  match ins with
  | [] => []
  | (t, x) :: r =>
      let known := map fst insts in
      let ls' := match x with IApi c => lifecycle_step known c ls | _ => ls end in
      let was_running := memN i (l_running ls) in
      let here :=
        match x with
        | ISubscribe a' e =>
            match aget N.eqb i insts with
            | Some ins_i =>
                if (a' =? a) && was_running && memN i (l_announcing ls)
                   && match matches_subscribe (in_service ins_i) e with Ok true => true | _ => false end
                   && sub_key_eqb (from_subscribe_entry e) k
                then if e_ttl e =? 0 then [(t, TDown)]
                     else [(t, TUp (e_ttl e) true (negb (memN (sb_id k) rej)))]
                else []
            | None => []
            end
        | IReboot a' => if (a' =? a) && memN i (l_announcing ls) then [(t, TDown)] else []
        | IApi _ => if was_running && negb (memN i (l_running ls')) then [(t, TDown)] else []
        | _ => []
        end in
      let rej' := match x with IApi (ApiSetReject j egs) => if j =? i then egs else rej | _ => rej end in
      here ++ subs_touches_go insts r ls' rej' i a k
  end.
Definition subs_touches insts ins i a k :=
  subs_touches_go insts ins l_init (match aget N.eqb i insts with Some x => in_reject x | None => [] end) i a k.

(* ---- what the trace shows for one key ---- *)
Definition found_actual (tr : trace) (lid : N) (a : addr) (k : service) : list (N * bool) :=
  flat_map (fun p =>
    match snd p with
    | EOffered l s a' => if (l =? lid) && (a' =? a) && service_key_eqb s k then [(fst p, true)] else []
    | EStopped l s a' => if (l =? lid) && (a' =? a) && service_key_eqb s k then [(fst p, false)] else []
    | _ => []
    end) tr.

Definition subs_actual (tr : trace) (i : N) (a : addr) (k : subscription) : list (N * bool) :=
  flat_map (fun p =>
    match snd p with
    | ESubscribed i' s a' true => if (i' =? i) && (a' =? a) && sub_key_eqb s k then [(fst p, true)] else []
    | EUnsubscribed i' s a' => if (i' =? i) && (a' =? a) && sub_key_eqb s k then [(fst p, false)] else []
    | _ => []
    end) tr.

Definition hist_eqb (a b : list (N * bool)) : bool :=
  list_eqb (fun x y => (fst x =? fst y) && Bool.eqb (snd x) (snd y)) a b.

(* ---- listener registrations (discovery) ---- *)
(* static: every registration happens at time 0 before the first datagram and nothing is ever unregistered *)
Definition is_reg_api (c : api) : bool :=
  match c with ApiWatch _ _ | ApiWatchAll _ => true | _ => false end.
Definition is_unreg_api (c : api) : bool :=
  match c with ApiUnwatch _ _ | ApiUnwatchAll _ | ApiStopFindSub _ => true | _ => false end.
Definition static_registration (ins : list (N * input)) : bool :=
  forallb (fun p => match snd p with
                    | IApi c => (negb (is_reg_api c) || (fst p =? 0)) && negb (is_unreg_api c)
                    | _ => negb (fst p =? 0)
                    end) ins.

(* how many registrations of listener lid match service s (F13: more than one gives duplicate notifications) *)
Definition matching_regs (ins : list (N * input)) (lid : N) (s : service) : N :=
  count (fun p => match snd p with
                  | IApi (ApiWatch f (LRec l)) => (l =? lid) && matches_service f s
                  | IApi (ApiWatchAll (LRec l)) => l =? lid
                  | _ => false
                  end) ins.

(* the discovery stores an offer only while somebody watches a matching filter *)
Definition anyone_watching (ins : list (N * input)) (s : service) : bool :=
  existsb (fun p => match snd p with
                    | IApi (ApiWatch f _) => matches_service f s
                    | IApi (ApiWatchAll _) => true
                    | IApi (ApiFindSub g) => matches_service (as_service g) s
                    | _ => false
                    end) ins.

Fixpoint dedup {X} (eqb : X -> X -> bool) (l : list X) : list X :=
  match l with
  | [] => []
  | x :: r => if existsb (eqb x) r then dedup eqb r else x :: dedup eqb r
  end.

Definition conn_lost_coincides (ins : list (N * input)) : bool :=
  existsb (fun p => match snd p with
                    | IApi ApiConnLost => 1 <? count (fun q => fst q =? fst p) ins
                    | _ => false
                    end) ins.

(* ------------------------------------------------------------------ C05 *)
Definition found_keys (tr : trace) (ins : list (N * input)) : list (N * addr * service) :=
  let from_trace := flat_map (fun p => match snd p with
                                       | EOffered l s a | EStopped l s a => [(l, a, s)]
                                       | _ => []
                                       end) tr in
  let lids := dedup N.eqb (flat_map (fun p => match snd p with
                                              | IApi (ApiWatch _ (LRec l)) | IApi (ApiWatchAll (LRec l)) => [l]
                                              | _ => []
                                              end) ins) in
  let offers := flat_map (fun p => match snd p with IOffer a s _ => [(a, s)] | _ => [] end) ins in
  dedup (fun x y => (fst (fst x) =? fst (fst y)) && (snd (fst x) =? snd (fst y)) && service_key_eqb (snd x) (snd y))
        (from_trace ++ flat_map (fun l => map (fun o => (l, fst o, snd o)) offers) lids).

(* ---- registrations at any time (watch / unwatch / watch-all / unwatch-all calls in the history) ----
   replay of the registration calls of listener lid, as far as they concern service s offered by a:
   d_regs  the listener's current registrations (None = watch-all, Some f = filter f), a set like the code's
   d_max   the largest number of simultaneous registrations matching s            (> 1: F13)
   d_dup   a registration was repeated while it was in force (the replay of "offered" is repeated: F13 family)
   d_last  the listener was registered for s when the most recent offer of (a, s) arrived *)
Record dyn := mkDyn { d_regs : list (option service); d_max : N; d_dup : bool; d_last : bool }.

Definition reg_eqb (x y : option service) : bool :=
  match x, y with
  | None, None => true
  | Some f, Some g => service_eqb f g
  | _, _ => false
  end.
Definition reg_matching (s : service) (regs : list (option service)) : N :=
  count (fun r => match r with None => true | Some f => matches_service f s end) regs.

Definition dyn_add (s : service) (r : option service) (d : dyn) : dyn :=
  if existsb (reg_eqb r) (d_regs d) then mkDyn (d_regs d) (d_max d) true (d_last d)
  else let regs := r :: d_regs d in mkDyn regs (N.max (d_max d) (reg_matching s regs)) (d_dup d) (d_last d).
Definition dyn_remove (r : option service) (d : dyn) : dyn :=
  mkDyn (filter (fun x => negb (reg_eqb r x)) (d_regs d)) (d_max d) (d_dup d) (d_last d).

Definition dyn_step (lid : N) (a : addr) (s : service) (x : input) (d : dyn) : dyn :=
  match x with
  | IApi (ApiWatch f (LRec l)) => if l =? lid then dyn_add s (Some f) d else d
  | IApi (ApiWatchAll (LRec l)) => if l =? lid then dyn_add s None d else d
  | IApi (ApiUnwatch f (LRec l)) => if l =? lid then dyn_remove (Some f) d else d
  | IApi (ApiUnwatchAll (LRec l)) => if l =? lid then dyn_remove None d else d
  | IOffer a' s' _ =>
      if (a' =? a) && service_key_eqb s' s then mkDyn (d_regs d) (d_max d) (d_dup d) (0 <? reg_matching s (d_regs d)) else d
  | _ => d
  end.
Definition dyn_of (ins : list (N * input)) (lid : N) (a : addr) (s : service) : dyn :=
  fold_left (fun d p => dyn_step lid a s (snd p) d) ins (mkDyn [] 0 false false).

(* the state of key (a, s) once the loop is idle after t_end, from ALL offers / withdrawals the stack received -
   whether or not anybody was watching at that moment: the property speaks of "that source's most recent offer" *)
Definition final_hist (touches : list (N * touch)) (t_end : N) : hist :=
  expire_before (t_end + 1) (fold_left (fun acc p => apply_touch (fst p) (snd p) acc) touches (mkHist None [] false)).

(* F18 (open finding): the same touches as the code sees them - an offer that arrives while nobody watches its service
   is ignored even when an older offer of that service is still stored.  watched_services is a defaultdict: a filter
   stays a key once watch_service or stop_watch_service has named it; watch-all counts while its set is non-empty *)
Fixpoint found_touches_gated (ins : list (N * input)) (filters : list service) (all : list listener)
  (a : addr) (k : service) : list (N * touch) :=
  match ins with
  | [] => []
  | (t, x) :: r =>
      let watching := match all with _ :: _ => true | [] => existsb (fun f => matches_service f k) filters end in
      let here :=
        match x with
        | IOffer a' s ttl => if (a' =? a) && service_key_eqb s k && watching then [(t, TUp ttl false true)] else []
        | IStopOffer a' s => if (a' =? a) && service_key_eqb s k then [(t, TDown)] else []
        | IReboot a' => if a' =? a then [(t, TDown)] else []
        | IApi ApiConnLost => [(t, TDown)]
        | _ => []
        end in
      let filters' := match x with
                      | IApi (ApiWatch f _) | IApi (ApiUnwatch f _) => f :: filters
                      | IApi (ApiFindSub g) | IApi (ApiStopFindSub g) => as_service g :: filters
                      | _ => filters
                      end in
      let all' := match x with
                  | IApi (ApiWatchAll l) => l :: all
                  | IApi (ApiUnwatchAll l) => filter (fun l' => negb (listener_eqb l l')) all
                  | _ => all
                  end in
      here ++ found_touches_gated r filters' all' a k
  end.

(* clauses 2 and 3 of C05 at the end of the run, for any registration history of one listener:
   4 = the latest notification is "offered" although the most recent offer has expired or was withdrawn;
   18 = the same, and the offer that expired arrived while nobody was watching the service: finding F18;
   5 = the latest notification is not "offered" although the most recent offer is live, arrived while the listener
       was registered for it, and the listener is still registered *)
Definition check_C05_last (actual : list (N * bool)) (ins : list (N * input)) (t_end : N) (d : dyn)
  (a : addr) (s : service) : N :=
  let h := final_hist (found_touches ins a s) t_end in
  if h_ambiguous h then 0 else
  (* a registration call in the very instant of an offer / withdrawal of this key: the call runs at once, the offer entries
     of a datagram one loop iteration later (handle_offer is deferred) - which of them came first is not what the listed
     order says; not judged *)
  let touches_key (q : N * input) := match snd q with
                                     | IOffer a' s' _ => (a' =? a) && service_key_eqb s' s
                                     | IStopOffer a' s' => (a' =? a) && service_key_eqb s' s
                                     | IReboot a' => a' =? a
                                     | _ => false
                                     end in
  if existsb (fun p => match snd p with
                       | IApi c => (is_reg_api c || is_unreg_api c) && existsb (fun q => (fst q =? fst p) && touches_key q) ins
                       | _ => false
                       end) ins then 0 else
  let last_up := match rev actual with p :: _ => snd p | [] => false end in
  match h_state h with
  | None =>
      if negb last_up then 0 else
      let g := final_hist (found_touches_gated ins [] [] a s) t_end in
      if h_ambiguous g then 0 else match h_state g with Some _ => 18 | None => 4 end
  | Some _ => if d_last d && (0 <? reg_matching s (d_regs d)) && negb last_up then 5 else 0
  end.

(* result codes: 0 ok; 1 alternation broken; 2 history differs from the specification; 4, 5 see check_C05_last;
   9 = F13 pattern (one listener under several registrations matching the service, or one registration repeated) *)
Definition check_C05_key (tr : trace) (ins : list (N * input)) (t_end : N) (static : bool)
  (key : N * addr * service) : N :=
  let '(lid, a, s) := key in
  let actual := found_actual tr lid a s in
  let d := dyn_of ins lid a s in
  if (1 <? d_max d) || d_dup d then (if alternates true (map snd actual) then 0 else 9) else
  if negb (alternates true (map snd actual)) then 1 else
  if conn_lost_coincides ins then 0 else
  let c :=
    if static then
      if (matching_regs ins lid s =? 0) || negb (anyone_watching ins s) then (match actual with [] => 0 | _ => 2 end) else
      match expected_history (found_touches ins a s) t_end with
      | None => 0
      | Some e => if hist_eqb actual e then 0 else 2
      end
    else 0 in
  if negb (c =? 0) then c else check_C05_last actual ins t_end d a s.

(* reboot order: at the instant of a datagram that reveals a reboot of a, every "stopped" for a precedes
   every "offered" for a (checked when it is the only datagram from a at that instant and no listener is registered
   or unregistered in that instant) *)
Definition reboot_order_ok (tr : trace) (ins : list (N * input)) : bool :=
  forallb (fun p =>
    match snd p with
    | IReboot a =>
        let t := fst p in
        if 1 <? count (fun q => (fst q =? t) && match snd q with IReboot a' => a' =? a | _ => false end) ins then true else
        (* a watch call in the same instant replays "offered" for what is stored, before or after the datagram *)
        if existsb (fun q => (fst q =? t) && match snd q with IApi c => is_reg_api c || is_unreg_api c | _ => false end) ins then true else
        let evs := flat_map (fun q => if fst q =? t then
                       match snd q with
                       | EOffered _ _ a' => if a' =? a then [true] else []
                       | EStopped _ _ a' => if a' =? a then [false] else []
                       | _ => []
                       end else []) tr in
        (* no "stopped" after an "offered" *)
        (fix ok (seen_up : bool) (l : list bool) : bool :=
           match l with [] => true | true :: r => ok true r | false :: r => negb seen_up && ok seen_up r end) false evs
    | _ => true
    end) ins.

Definition check_C05 (sc : scenario) (tr : trace) : list N :=
  let ins := inputs_of sc in
  let static := static_registration ins in
  let codes := map (check_C05_key tr ins (sc_end sc) static) (found_keys tr ins) in
  (if reboot_order_ok tr ins then [] else [3]) ++ filter (fun c => negb (c =? 0)) codes.

(* ------------------------------------------------------------------ C06 *)
Definition subs_keys (tr : trace) (insts : list (N * inst)) (ins : list (N * input)) : list (N * addr * subscription) :=
  let from_trace := flat_map (fun p => match snd p with
                                       | ESubscribed i s a _ | EUnsubscribed i s a => [(i, a, s)]
                                       | _ => []
                                       end) tr in
  let from_inputs := flat_map (fun p => match snd p with
                                        | ISubscribe a e => map (fun ii => (fst ii, a, from_subscribe_entry e)) insts
                                        | _ => []
                                        end) ins in
  dedup (fun x y => (fst (fst x) =? fst (fst y)) && (snd (fst x) =? snd (fst y)) && sub_key_eqb (snd x) (snd y))
        (from_trace ++ from_inputs).

(* a rejected subscription must never be reported unsubscribed: covered by alternation over accepted events *)
Definition check_C06_key (sc : scenario) (tr : trace) (ins : list (N * input)) (key : N * addr * subscription) : N :=
  let '(i, a, k) := key in
  let actual := subs_actual tr i a k in
  if negb (alternates true (map snd actual)) then 1 else
  if conn_lost_coincides ins then 0 else
  match expected_history (subs_touches (sc_insts sc) ins i a k) (sc_end sc) with
  | None =>
      (* a Subscribe / StopSubscribe exactly at the deadline: either order of the expiry and the touch, nothing else *)
      match expected_histories (subs_touches (sc_insts sc) ins i a k) (sc_end sc) with
      | None => 0
      | Some es => if existsb (hist_eqb actual) es then 0 else 2
      end
  | Some e => if hist_eqb actual e then 0 else 2
  end.

(* a positive acknowledgement implies the subscription was reported subscribed at some instant between
   the moment the Ack was queued (at most the collection timeout earlier) and the moment it left *)
Fixpoint up_interval_meets (lo hi : N) (h : list (N * bool)) : bool :=
  match h with
  | [] => false
  | (t, true) :: r =>
      ((t <=? hi) && match r with [] => true | (t', _) :: _ => lo <=? t' end) || up_interval_meets lo hi r
  | (_, false) :: r => up_interval_meets lo hi r
  end.

Definition ack_held (sc : scenario) (tr : trace) (ins : list (N * input)) : bool :=
  match sent_entries tr with
  | None => false
  | Some sent =>
      forallb (fun x =>
        let '(t, d, e) := x in
        if (e_type e =? ET_SubscribeAck) && negb (e_ttl e =? 0) then
          match d with
          | Some a =>
              existsb (fun key =>
                 let '(i, a', k) := key in
                 (a' =? a) && (sb_sid k =? e_sid e) && (sb_iid k =? e_iid e) && (sb_maj k =? e_maj e)
                 && (N.lor (N.shiftl (sb_counter k) 16) (sb_id k) =? e_val e)
                 && up_interval_meets (t - t_collect (sc_cfg sc)) t (subs_actual tr i a k))
                (subs_keys tr (sc_insts sc) ins)
          | None => false
          end
        else true) sent
  end.

Definition check_C06 (sc : scenario) (tr : trace) : list N :=
  let ins := inputs_of sc in
  let codes := map (check_C06_key sc tr ins) (subs_keys tr (sc_insts sc) ins) in
  (if ack_held sc tr ins then [] else [4]) ++ filter (fun c => negb (c =? 0)) codes.

(* ------------------------------------------------------------------ C09: the TTL clauses alone, for both stores *)
Definition check_C09 (sc : scenario) (tr : trace) : list N :=
  filter (fun c => (c =? 2) || (c =? 1)) (check_C05 sc tr ++ check_C06 sc tr).
