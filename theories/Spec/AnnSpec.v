(* Trace checkers for the announcer / subscriber / discovery-client properties
   C08, C10, C11, C12, C13, C14, C15: each reads the property from the timed inputs of the scenario
   and judges the decoded transmissions of a trace. *)
From PS Require Import Lib.Base Lib.Struct Generated.Consts Model.SdTypes Model.Config Model.Session Model.SdCodec
  Model.StackTypes Model.Stack Model.StackIO Spec.TraceSpec Spec.StoreSpec Spec.C08Spec.

Definition dest_eq := dest_eqb.
Definition sent_t := (N * dest * sdentry)%type.
Definition st_time (x : sent_t) : N := fst (fst x).
Definition st_dest (x : sent_t) : dest := snd (fst x).
Definition st_entry (x : sent_t) : sdentry := snd x.

Definition entry_ids_eqb (a b : sdentry) : bool :=
  (e_type a =? e_type b) && (e_sid a =? e_sid b) && (e_iid a =? e_iid b) && (e_maj a =? e_maj b)
  && (e_ttl a =? e_ttl b) && (e_val a =? e_val b)
  && list_eqb sdopt_eqb (e_opts1 a) (e_opts1 b) && list_eqb sdopt_eqb (e_opts2 a) (e_opts2 b).

Definition all_equal (l : list N) : bool :=
  match l with [] => true | x :: r => forallb (N.eqb x) r end.

(* ------------------------------------------------------------------ C15 *)
Definition queued_of (ins : list (N * input)) : list sent_t :=
  flat_map (fun p => match snd p with IApi (ApiQueueSend e d) => [(fst p, d, e)] | _ => [] end) ins.

Fixpoint pairwise_ok (collect : N) (q s : list sent_t) : N :=
  match q, s with
  | [], [] => 0
  | x :: q', y :: s' =>
      if negb (entry_ids_eqb (st_entry x) (st_entry y)) then 1
      else if negb ((st_time x <=? st_time y) && (st_time y <=? st_time x + collect)) then 2
      else pairwise_ok collect q' s'
  | _, _ => 1
  end.

Definition dests_of (l : list sent_t) : list dest := dedup dest_eq (map st_dest l).

(* an entry that cannot be encoded: its whole batch raises in send_sd and is lost (outside the property's domain) *)
Definition unencodable (e : sdentry) : bool := match sd_datagram [e] true 1 with Ok _ => false | Err _ => true end.

Definition check_C15 (sc : scenario) (tr : trace) : list N :=
  match sent_entries tr with
  | None => [98]
  | Some sent =>
      let q := queued_of (inputs_of sc) in
      let collect := t_collect (sc_cfg sc) in
      let per_dest := map (fun d =>
          let qd := filter (fun x => dest_eq (st_dest x) d) q in
          let sd := filter (fun x => dest_eq (st_dest x) d) sent in
          match filter (fun x => unencodable (st_entry x)) qd with
          | [] => pairwise_ok collect qd sd
          | bad =>
              (* judged: what is queued for d after the last unencodable entry's window; if something was queued inside
                 that window it may or may not share the lost batch: not judged *)
              let tb := fold_left (fun acc x => N.max acc (st_time x)) bad 0 in
              if existsb (fun x => (tb <? st_time x) && (st_time x <=? tb + collect)) qd then 0
              else pairwise_ok collect (filter (fun x => tb + collect <? st_time x) qd) (filter (fun x => tb + collect <? st_time x) sd)
          end) (dests_of (q ++ sent)) in
      let zero :=
        if collect =? 0 then
          (* every datagram carries exactly one entry *)
          if forallb (fun p => match snd p with
                               | ESent _ data => match decode_sent data with Some (_, _, [_]) => true | _ => false end
                               | _ => true
                               end) tr then [] else [3]
        else [] in
      filter (fun c => negb (c =? 0)) per_dest ++ zero
  end.

(* ------------------------------------------------------------------ C08 *)
Fixpoint sent_headers (tr : trace) : option (list (dest * bool * N)) :=
  match tr with
  | [] => Some []
  | (_, ESent d data) :: r =>
      match decode_sent data, sent_headers r with
      | Some (flag, sid, _), Some rest => Some ((d, flag, sid) :: rest)
      | _, _ => None
      end
  | _ :: r => sent_headers r
  end.

Definition check_C08 (sc : scenario) (tr : trace) : list N :=
  match sent_headers tr with
  | None => [98]
  | Some hs =>
      let requested := flat_map (fun p => match snd p with
                                          | IApi (ApiSendSd (_ :: _) d) => [d]
                                          | _ => []
                                          end) (inputs_of sc) in
      let expected := spec_assign [] requested in
      let actual := map (fun h => (snd (fst h), snd h)) hs in
      (if list_eqb dest_eq (map (fun h => fst (fst h)) hs) requested then [] else [1])
      ++ (if list_eqb (fun a b => Bool.eqb (fst a) (fst b) && (snd a =? snd b)) actual expected then [] else [2])
  end.

(* ------------------------------------------------------------------ lifecycle helpers *)
(* announcer state before each input *)
Fixpoint lifecycle_trace (known : list N) (ins : list (N * input)) (s : lstate) : list (N * input * lstate * lstate) :=
  match ins with
  | [] => []
  | (t, x) :: r =>
      let s' := match x with IApi c => lifecycle_step known c s | _ => s end in
      (t, x, s, s') :: lifecycle_trace known r s'
  end.

(* running intervals of instance i: (start, stop) with stop = None while still running at the end *)
Fixpoint intervals_go (i : N) (lt : list (N * input * lstate * lstate)) (open : option N) : list (N * option N) :=
  match lt with
  | [] => match open with Some ts => [(ts, None)] | None => [] end
  | (t, _, s, s') :: r =>
      let was := memN i (l_running s) in
      let is := memN i (l_running s') in
      match open with
      | None => if negb was && is then intervals_go i r (Some t) else intervals_go i r None
      | Some ts => if was && negb is then (ts, Some t) :: intervals_go i r None else intervals_go i r (Some ts)
      end
  end.
Definition intervals (i : N) (lt : list (N * input * lstate * lstate)) := intervals_go i lt None.

Definition running_at (i : N) (t : N) (ivs : list (N * option N)) : option N :=
  (* the start time of the interval containing t (start <= t < stop); stop at exactly t: not running *)
  fold_left (fun acc iv =>
    match acc with
    | Some _ => acc
    | None => if (fst iv <=? t) && match snd iv with Some te => t <? te | None => true end then Some (fst iv) else None
    end) ivs None.

Definition stop_api_at (ins : list (N * input)) (t : N) : bool :=
  existsb (fun p => (fst p =? t) && match snd p with
                                    | IApi ApiStop | IApi ApiAnnStop | IApi ApiConnLost | IApi (ApiStopAnnounce _ _) => true
                                    | _ => false
                                    end) ins.
(* the inputs that precede the first stop-like call made at instant te (everything earlier, and what comes before that
   call within the instant) *)
Fixpoint before_stop_at (te : N) (ins : list (N * input)) : list (N * input) :=
  match ins with
  | [] => []
  | p :: r =>
      if (fst p =? te) && match snd p with
                          | IApi ApiStop | IApi ApiAnnStop | IApi ApiConnLost | IApi (ApiStopAnnounce _ _) => true
                          | _ => false
                          end
      then [] else p :: before_stop_at te r
  end.
Definition start_api_at (ins : list (N * input)) (t : N) : bool :=
  existsb (fun p => (fst p =? t) && match snd p with
                                    | IApi ApiStart | IApi ApiAnnStart | IApi (ApiAnnounce _) => true
                                    | _ => false
                                    end) ins.

(* the oracle value every draw of the run returns - known only when all supplied draws are equal AND the run cannot
   exhaust them (an exhausted oracle returns the lower bound): every start of an instance / of the find client and every
   multicast FindService may take one *)
Definition draw_consumers (sc : scenario) : nat :=
  let ins := inputs_of sc in
  let starts := length (filter (fun p => match snd p with
                                         | IApi ApiStart | IApi ApiAnnStart | IApi (ApiAnnounce _) | IApi ApiDiscStart => true
                                         | _ => false end) ins) in
  let finds := length (filter (fun p => match snd p with IFind _ _ _ => true | _ => false end) ins) in
  (starts * S (length (sc_insts sc)) + finds)%nat.
Definition the_draw (sc : scenario) (lo hi : N) : option N :=
  if all_equal (sc_draws sc) && Nat.leb (draw_consumers sc) (length (sc_draws sc)) then
    match sc_draws sc with [] => Some lo | d :: _ => Some (N.max lo (N.min hi d)) end
  else None.

(* the instants at which a running instance queues its multicast offers, from start time ts, before limit *)
Fixpoint schedule_reps (n : nat) (t base : N) (i : N) : list N :=
  match n with
  | O => []
  | S n' => let t' := t + N.shiftl 1 i * base in t' :: schedule_reps n' t' base (i + 1)
  end.
Fixpoint schedule_cyclic (fuel : nat) (t period limit : N) : list N :=
  match fuel with
  | O => []
  | S f => let t' := t + period in if limit <? t' then [] else t' :: schedule_cyclic f t' period limit
  end.
Definition offer_schedule (c : timings) (ts d0 limit : N) : list N :=
  let first := ts + d0 in
  let reps := schedule_reps (N.to_nat (t_rep_max c)) first (t_rep_base c) 0 in
  let last := match rev reps with x :: _ => x | [] => first end in
  let cyc := if t_cyclic c =? 0 then [] else schedule_cyclic 4000 last (t_cyclic c) limit in
  filter (fun t => t <=? limit) (first :: reps ++ cyc).

Definition is_offer_of (s : service) (e : sdentry) : bool :=
  (e_type e =? ET_OfferService) && (e_sid e =? s_sid s) && (e_iid e =? s_iid s).

(* ------------------------------------------------------------------ C10 *)
(* codes: 1 schedule (count or instant), 2 content, 3 StopOffer count, 4 something sent though stopped before the
   first offer, 5 offer with TTL<>0 after the StopOffer, 6 stop raised *)
Definition check_C10_inst (sc : scenario) (ins : list (N * input)) (sent : list sent_t)
  (lt : list (N * input * lstate * lstate)) (ii : N * inst) : list N :=
  let '(i, ins_i) := ii in
  let c := sc_cfg sc in
  let svc := in_service ins_i in
  (* when another instance shares service and instance id (a service announced again with other options), an offer is
     attributed by its whole content *)
  let twins := existsb (fun jj => negb (fst jj =? i) && (s_sid (in_service (snd jj)) =? s_sid svc)
                                  && (s_iid (in_service (snd jj)) =? s_iid svc)) (sc_insts sc) in
  let mine := filter (fun x => is_offer_of svc (st_entry x)
                               && (negb twins || entry_ids_eqb (st_entry x) (create_offer_entry svc (e_ttl (st_entry x))))) sent in
  let ivs := intervals i lt in
  match the_draw sc (t_init_min c) (t_init_max c) with
  | None => []
  | Some d0 =>
      flat_map (fun iv =>
        let '(ts, te_o) := iv in
        let te := match te_o with Some te => te | None => sc_end sc + 1 end in
        (* ambiguous when an offer instant coincides with the stop, or a restart happens at the stop instant *)
        let sched_all := offer_schedule c ts d0 te in
        if existsb (N.eqb te) sched_all || (start_api_at ins te && stop_api_at ins te) then [] else
        let sched := filter (fun t => t <? te) sched_all in
        (* another start/stop of this instance within one collection window of this interval's ends: the two
           intervals' entries share datagrams, counts per interval are not judged *)
        let crowded := existsb (fun iv2 => match snd iv2 with
                                           | Some te2 => (te2 <=? ts) && (ts <=? te2 + t_collect c)
                                           | None => false end
                                           || ((te <=? fst iv2) && (fst iv2 <=? te + t_collect c))) ivs in
        let window_end := match te_o with Some _ => te + t_collect c | None => sc_end sc end in
        let offers := filter (fun x => (ts <=? st_time x) && (st_time x <=? window_end) && negb (e_ttl (st_entry x) =? 0)
                                       && dest_eq (st_dest x) None) mine in
        let sched_seen := filter (fun t => t + t_collect c <=? sc_end sc) sched in
        let offers_seen := firstn (length sched_seen) offers in
        let c1 := if crowded then [] else if Nat.leb (length sched_seen) (length offers) && Nat.leb (length offers) (length sched)
                     && forallb (fun p => (fst p <=? st_time (snd p)) && (st_time (snd p) <=? fst p + t_collect c))
                                (combine sched_seen offers_seen) then [] else [1] in
        let c2 := if forallb (fun x => entry_ids_eqb (st_entry x) (create_offer_entry svc (t_announce_ttl c))) offers then [] else [2] in
        let stops := filter (fun x => (te <=? st_time x) && (st_time x <=? te + t_collect c) && (e_ttl (st_entry x) =? 0)
                                      && dest_eq (st_dest x) None) mine in
        let c3 := match te_o with
                  | None => []
                  | Some _ =>
                      if crowded then [] else
                      if te + t_collect c <? sc_end sc then
                        match sched with
                        | _ :: _ => if Nat.eqb (length stops) 1 then [] else [3]
                        | [] => if negb (t_cyclic c =? 0) then
                                  (if existsb (fun x => (ts <=? st_time x) && (st_time x <=? te + t_collect c)) mine then [4] else [])
                                else []
                        end
                      else []
                  end in
        (* silence: no offer with a non-zero TTL is SENT after the StopOffer was sent (trace order), until the next start.
           An answer to a FindService that was QUEUED strictly before the stop and only left later because its
           collection window closed after the StopOffer's is classified 15 (finding F15), everything else 5. *)
        let next_start := fold_left (fun acc iv2 => if (te <=? fst iv2) && (fst iv2 <? acc) then fst iv2 else acc) ivs (sc_end sc + 1) in
        let is_stop (x : sent_t) := (te <=? st_time x) && (e_ttl (st_entry x) =? 0) && dest_eq (st_dest x) None in
        let after_stop := (fix go (l : list sent_t) : list sent_t :=
                             match l with [] => [] | x :: r => if is_stop x then r else go r end) mine in
        let suffix := if existsb is_stop mine then after_stop else filter (fun x => te + t_collect c <? st_time x) mine in
        let late := filter (fun x => (st_time x <? next_start) && negb (e_ttl (st_entry x) =? 0)) suffix in
        let explained (x : sent_t) :=
          negb (t_collect c =? 0) &&
          match the_draw sc (t_rr_min c) (t_rr_max c) with
          | None => false
          | Some drr =>
              (* a request may share the instant of the stop if it precedes it there: a unicast one is answered (queued) at
                 once, a multicast one with a zero delay one loop iteration later - before a stop the application makes
                 two or more iterations into the instant *)
              existsb (fun p => match snd p with
                                | IFind a e mc =>
                                    let tq := fst p + (if mc then drr else 0) in
                                    dest_eq (st_dest x) (Some a) && (tq <=? te)
                                    && (tq <=? st_time x) && (st_time x <=? tq + t_collect c)
                                    && match matches_find svc e with Ok true => true | _ => false end
                                | _ => false
                                end) (before_stop_at te ins)
          end in
        (* an EARLIER lifetime whose stop window is still open when this one is stopped: its StopOffer leaves in the same
           datagram as this lifetime's offers and cannot be told from this lifetime's own - silence is not judged here *)
        let stop_before := existsb (fun iv2 => match snd iv2 with
                                               | Some te2 => (te2 <=? ts) && (te <=? te2 + t_collect c) && negb ((fst iv2 =? ts) && (te2 =? te))
                                               | None => false end) ivs in
        let c5 := match te_o with
                  | None => []
                  | Some _ => if stop_before then [] else
                              (if existsb (fun x => negb (explained x)) late then [5] else [])
                              ++ (if existsb explained late then [15] else [])
                  end in
        c1 ++ c2 ++ c3 ++ c5) ivs
      ++
      (* over the whole run (also when intervals follow each other within one collection window or at one instant, where
         the per-interval count is not judged): one StopOffer per stop after having offered, none for a cyclic instance
         stopped before its first offer; a non-cyclic instance stopped before its first offer may send one *)
      (let ended := flat_map (fun iv => match snd iv with Some te => [(fst iv, te)] | None => [] end) ivs in
       let all_observed := forallb (fun p => snd p + t_collect c <? sc_end sc) ended in
       let ambiguous := existsb (fun p => snd p =? fst p + d0) ended in
       let lower := length (filter (fun p => fst p + d0 <? snd p) ended) in
       let upper := if t_cyclic c =? 0 then length ended else lower in
       let total := length (filter (fun x => (e_ttl (st_entry x) =? 0) && dest_eq (st_dest x) None) mine) in
       if all_observed && negb ambiguous then (if Nat.leb lower total && Nat.leb total upper then [] else [3]) else [])
  end.

Definition stop_raised (ins : list (N * input)) (tr : trace) : bool :=
  existsb (fun p => match snd p with
                    | ERaised 8 => stop_api_at ins (fst p) && negb (start_api_at ins (fst p))
                    | _ => false
                    end) tr.

Definition check_C10 (sc : scenario) (tr : trace) : list N :=
  match sent_entries tr with
  | None => [98]
  | Some sent =>
      let ins := inputs_of sc in
      (* connection loss is applied one loop hop later: inputs at that very instant are order-dependent, not judged *)
      if conn_lost_coincides ins then [] else
      let lt := lifecycle_trace (map fst (sc_insts sc)) ins l_init in
      flat_map (check_C10_inst sc ins sent lt) (sc_insts sc) ++ (if stop_raised ins tr then [6] else [])
  end.

(* ------------------------------------------------------------------ C12 *)
(* codes: 1 number of answers, 2 an answer outside every expected window / to somebody who did not ask, 3 content *)
Definition check_C12_inst (sc : scenario) (ins : list (N * input)) (sent : list sent_t)
  (lt : list (N * input * lstate * lstate)) (ii : N * inst) : list N :=
  let '(i, ins_i) := ii in
  let c := sc_cfg sc in
  let svc := in_service ins_i in
  let ivs := intervals i lt in
  match the_draw sc (t_init_min c) (t_init_max c), the_draw sc (t_rr_min c) (t_rr_max c) with
  | Some d0, Some drr =>
      (* finds that must be answered by instance i: (requester, earliest instant, latest instant); None = ambiguous *)
      let finds := flat_map (fun q =>
        let '(t, x, s, _) := q in
        match x with
        | IFind a e mc =>
            let delay := if mc then drr else 0 in
            match running_at i t ivs with
            | Some ts =>
                if negb (memN i (l_announcing s)) then [] else
                match matches_find svc e with
                | Ok true =>
                    (* a stop / start in the very instant of the request: which lifetime it met depends on their order *)
                    if stop_api_at ins t || start_api_at ins t then [None] else
                    if ts + d0 =? t then [None] else
                    if t <? ts + d0 then [] else
                    (* still running when the answer is due? *)
                    match running_at i (t + delay) ivs with
                    | Some ts' => if (ts' =? ts) && negb (stop_api_at ins (t + delay)) && negb (stop_api_at ins t)
                                  then [Some (a, t + delay, t + delay + t_collect c)]
                                  else [None]   (* stopped (and perhaps restarted) while the answer was pending: the answer may
                                                   be dropped or, if the instance is ready again, sent - not judged *)
                    | None => if stop_api_at ins (t + delay) then [None] else []
                    end
                | _ => []
                end
            | None => if stop_api_at ins t || start_api_at ins t then [None] else []
            end
        | _ => []
        end) lt in
      (* when another instance shares service and instance id, an answer is attributed by its versions as well *)
      let shared := existsb (fun jj => negb (fst jj =? i) && (s_sid (in_service (snd jj)) =? s_sid svc)
                                       && (s_iid (in_service (snd jj)) =? s_iid svc)) (sc_insts sc) in
      let answers := filter (fun x => is_offer_of svc (st_entry x)
                                      && (negb shared || ((e_maj (st_entry x) =? s_maj svc) && (e_val (st_entry x) =? s_min svc)))
                                      && match st_dest x with Some _ => true | None => false end) sent in
      (* whatever is ambiguous about WHICH requests are answered: an answer leaves only while the instance is past its first
         offer and not yet stopped (queued then; it may leave up to one collection timeout later) - never during the
         initial wait of a (re)started instance, never from a stopped one *)
      let ready_when (x : sent_t) :=
        existsb (fun iv => (fst iv + d0 <=? st_time x)
                           && match snd iv with Some te => st_time x <=? te + t_collect c | None => true end) ivs in
      (if forallb ready_when answers then [] else [4]) ++
      if existsb (fun f => match f with None => true | _ => false end) finds then [] else
      let wins := flat_map (fun f => match f with Some w => [w] | None => [] end) finds in
      let in_window (x : sent_t) :=
        existsb (fun w => let '(a, lo, hi) := w in dest_eq (st_dest x) (Some a) && (lo <=? st_time x) && (st_time x <=? hi)) wins in
      let visible := filter (fun w => snd w <=? sc_end sc) wins in
      (if Nat.leb (length visible) (length answers) && Nat.leb (length answers) (length wins) then [] else [1])
      ++ (if forallb in_window answers then [] else [2])
      ++ (if forallb (fun x => entry_ids_eqb (st_entry x) (create_offer_entry svc (t_announce_ttl c))) answers then [] else [3])
  | _, _ => []
  end.

Definition check_C12 (sc : scenario) (tr : trace) : list N :=
  match sent_entries tr with
  | None => [98]
  | Some sent =>
      let ins := inputs_of sc in
      (* connection loss is applied one loop hop later: inputs at that very instant are order-dependent, not judged *)
      if conn_lost_coincides ins then [] else
      let lt := lifecycle_trace (map fst (sc_insts sc)) ins l_init in
      flat_map (check_C12_inst sc ins sent lt) (sc_insts sc)
  end.

(* ------------------------------------------------------------------ C11 *)
(* expected acknowledgements for subscriber a, in arrival order: (entry, optional?, earliest, latest) *)
(* the eventgroup ids the listener of instance i rejects just before the n-th input *)
Definition reject_at (ins : list (N * input)) (n : nat) (i : N) (dflt : list N) : list N :=
  fold_left (fun acc p => match snd p with IApi (ApiSetReject j egs) => if j =? i then egs else acc | _ => acc end) (firstn n ins) dflt.

Definition expected_acks (sc : scenario) (lt : list (N * input * lstate * lstate)) (a : addr)
  : option (list (sdentry * bool * N * N)) :=
  let c := sc_cfg sc in
  let ins := inputs_of sc in
  fold_left (fun acc nq =>
    let '(n, q) := nq in
    match acc with
    | None => None
    | Some l =>
        let '(t, x, s, _) := q in
        match x with
        | ISubscribe a' e =>
            if negb (a' =? a) then Some l else
            let matching := filter (fun ii => memN (fst ii) (l_running s) && memN (fst ii) (l_announcing s)
                                              && match matches_subscribe (in_service (snd ii)) e with Ok true => true | _ => false end)
                                   (sc_insts sc) in
            let sub := from_subscribe_entry e in
            match matching with
            | [] => Some (l ++ [(to_ack_entry sub 0, e_ttl e =? 0, t, t + t_collect c)])
            | [ii] =>
                if e_ttl e =? 0 then Some l else
                let ok := negb (memN (sb_id sub) (reject_at ins n (fst ii) (in_reject (snd ii)))) in
                Some (l ++ [(to_ack_entry sub (if ok then e_ttl e else 0), false, t, t + t_collect c)])
            | _ => None
            end
        | IApi _ => if stop_api_at [(t, x)] t || start_api_at [(t, x)] t then
                      (* a Subscribe at the instant of a lifecycle change: order-dependent, do not judge *)
                      (if existsb (fun q2 => (fst (fst (fst q2)) =? t) && match snd (fst (fst q2)) with ISubscribe _ _ => true | _ => false end) lt
                       then None else Some l)
                    else Some l
        | _ => Some l
        end
    end) (combine (seq 0 (length lt)) lt) (Some []).

Fixpoint match_acks (expected : list (sdentry * bool * N * N)) (actual : list sent_t) : N :=
  match expected, actual with
  | [], [] => 0
  | (e, optional, lo, hi) :: r, x :: r' =>
      if entry_ids_eqb e (st_entry x) && (lo <=? st_time x) && (st_time x <=? hi) then match_acks r r'
      else if optional then match_acks r actual else 1
  | (_, true, _, _) :: r, [] => match_acks r []
  | _, _ => 1
  end.

Definition check_C11 (sc : scenario) (tr : trace) : list N :=
  match sent_entries tr with
  | None => [98]
  | Some sent =>
      let ins := inputs_of sc in
      (* connection loss is applied one loop hop later: inputs at that very instant are order-dependent, not judged *)
      if conn_lost_coincides ins then [] else
      let lt := lifecycle_trace (map fst (sc_insts sc)) ins l_init in
      let acks := filter (fun x => e_type (st_entry x) =? ET_SubscribeAck) sent in
      let subscribers := dedup N.eqb (flat_map (fun p => match snd p with ISubscribe a _ => [a] | _ => [] end) ins) in
      (* acknowledgements only ever go to a unicast subscriber address *)
      (if forallb (fun x => match st_dest x with Some a => memN a subscribers | None => false end) acks then [] else [2])
      ++ flat_map (fun a =>
           match expected_acks sc lt a with
           | None => []
           | Some ex =>
               let ex_seen := filter (fun q => snd q <=? sc_end sc) ex in
               let actual := filter (fun x => dest_eq (st_dest x) (Some a)) acks in
               if match_acks ex_seen actual =? 0 then [] else [1]
           end) subscribers
  end.

(* ------------------------------------------------------------------ C14 *)
Record sstate := mkS { ss_alive : bool; ss_req : list (eventgroup * addr) }.

Definition sub_step (c : api) (s : sstate) : sstate :=
  match c with
  | ApiSubscribe g ep => mkS (ss_alive s) (ss_req s ++ [(g, ep)])
  | ApiStopSubscribe g ep _ =>
      match remove_first sub_entry_eqb (g, ep) (ss_req s) with
      | Some l => mkS (ss_alive s) l
      | None => s
      end
  | ApiSubStart | ApiStart => mkS true (ss_req s)
  | ApiSubStop _ | ApiStop | ApiConnLost => mkS false (ss_req s)
  | _ => s
  end.

Definition eg_ids_eqb (g : eventgroup) (e : sdentry) : bool :=
  (g_sid g =? e_sid e) && (g_iid g =? e_iid e) && (g_maj g =? e_maj e) && (g_id g =? N.land (e_val e) 65535).

(* the ideal server: applies Subscribe / StopSubscribe entries in the order sent *)
Definition ideal_server (sent : list sent_t) (srv : addr) : list (N * N * N * N) :=
  fold_left (fun acc x =>
    if dest_eq (st_dest x) (Some srv) && (e_type (st_entry x) =? ET_Subscribe) then
      let e := st_entry x in
      let k := (e_sid e, e_iid e, e_maj e, N.land (e_val e) 65535) in
      let keq (p q : N * N * N * N) := let '(a1, a2, a3, a4) := p in let '(b1, b2, b3, b4) := q in
                                        (a1 =? b1) && (a2 =? b2) && (a3 =? b3) && (a4 =? b4) in
      let without := filter (fun q => negb (keq k q)) acc in
      if e_ttl e =? 0 then without else without ++ [k]
    else acc) sent [].

(* codes: 1 final set, 2 content / destination, 3 refresh gap *)
Definition check_C14 (sc : scenario) (tr : trace) : list N :=
  match sent_entries tr with
  | None => [98]
  | Some sent =>
      let ins := inputs_of sc in
      let c := sc_cfg sc in
      let final := fold_left (fun s p => match snd p with IApi a => sub_step a s | _ => s end) ins (mkS false []) in
      let ever := flat_map (fun p => match snd p with IApi (ApiSubscribe g ep) => [(fst p, g, ep)] | _ => [] end) ins in
      let servers := dedup N.eqb (map (fun x => snd x) ever) in
      let stopped_silently := existsb (fun p => match snd p with IApi (ApiSubStop false) | IApi ApiConnLost | IApi (ApiStopSubscribe _ _ false) => true | _ => false end) ins in
      let last_api := fold_left (fun acc p => match snd p with IApi _ => fst p | _ => acc end) ins 0 in
      let subs := filter (fun x => e_type (st_entry x) =? ET_Subscribe) sent in
      let c1 :=
        if stopped_silently then [] else
        flat_map (fun srv =>
          let want := if ss_alive final then
                        dedup (fun p q => eventgroup_eqb p q) (map fst (filter (fun p => snd p =? srv) (ss_req final)))
                      else [] in
          let have := ideal_server sent srv in
          if Nat.eqb (length want) (length have)
             && forallb (fun g => existsb (fun k => let '(a1, a2, a3, a4) := k in
                                            (a1 =? g_sid g) && (a2 =? g_iid g) && (a3 =? g_maj g) && (a4 =? g_id g)) have) want
          then [] else [1]) servers in
      let c2 :=
        if forallb (fun x =>
             let e := st_entry x in
             match st_dest x with
             | Some srv =>
                 existsb (fun r => let '(t, g, ep) := r in
                            (ep =? srv) && (t <=? st_time x) && eg_ids_eqb g e
                            && entry_ids_eqb e (create_subscribe_entry g (e_ttl e) 0)) ever
                 && ((e_ttl e =? 0) || (e_ttl e =? t_subscribe_ttl c))
             | None => false
             end) subs then [] else [2] in
      let c3 :=
        match t_refresh c with
        | None => []
        | Some R =>
            (* while nothing is asked of the subscriber any more and it is alive, every requested pair is renewed at least every R *)
            if ss_alive final then
              flat_map (fun p =>
                let '(g, srv) := p in
                let times := map st_time (filter (fun x => dest_eq (st_dest x) (Some srv) && eg_ids_eqb g (st_entry x)
                                                           && negb (e_ttl (st_entry x) =? 0) && (last_api <=? st_time x)) subs) in
                let ok := (fix gaps (prev : N) (l : list N) : bool :=
                             match l with
                             | [] => sc_end sc <? prev + R + 1
                             | t :: r => (t <=? prev + R) && gaps t r
                             end) last_api times in
                if ok then [] else [3]) (ss_req final)
            else []
        end in
      c1 ++ c2 ++ c3
  end.

(* ------------------------------------------------------------------ C13 *)
(* codes: 1 find not to multicast, 2 too many rounds, 3 round at an unscheduled instant, 4 content,
   5 find for a service with a known live offer, 6 round omits an unfound watched service,
   7 a find after a round instant at which every watched service was found *)
Definition live_at (ins : list (N * input)) (t_end : N) (a : addr) (s : service) (t : N) : option bool :=
  (* None: ambiguous at t (a change exactly at t) *)
  match expected_history (found_touches ins a s) t_end with
  | None => None
  | Some h =>
      if existsb (fun p => fst p =? t) h then None else
      Some (match rev (filter (fun p => fst p <? t) h) with (_, up) :: _ => up | [] => false end)
  end.

Definition check_C13 (sc : scenario) (tr : trace) : list N :=
  match sent_entries tr with
  | None => [98]
  | Some sent =>
      let ins := inputs_of sc in
      let c := sc_cfg sc in
      let finds := filter (fun x => e_type (st_entry x) =? ET_FindService) sent in
      let starts := flat_map (fun p => match snd p with IApi ApiDiscStart | IApi ApiStart => [fst p] | _ => [] end) ins in
      let watched_at (t : N) := flat_map (fun p => if fst p <=? t then
                                   match snd p with
                                   | IApi (ApiWatch f _) => [f]
                                   | IApi (ApiFindSub g) => [as_service g]
                                   | _ => []
                                   end else []) ins in
      let offers := dedup (fun x y => (fst x =? fst y) && service_key_eqb (snd x) (snd y))
                          (flat_map (fun p => match snd p with IOffer a s _ => [(a, s)] | _ => [] end) ins) in
      let c1 := if forallb (fun x => dest_eq (st_dest x) None) finds then [] else [1] in
      let round_times := dedup N.eqb (map st_time finds) in
      match starts, the_draw sc (t_init_min c) (t_init_max c) with
      | [ts], Some d0 =>
          let sched := (ts + d0) :: schedule_reps (N.to_nat (t_rep_max c)) (ts + d0) (t_rep_base c) 0 in
          let c2 := if Nat.leb (length round_times) (S (N.to_nat (t_rep_max c))) then [] else [2] in
          let c3 := if forallb (fun t => existsb (N.eqb t) sched) round_times then [] else [3] in
          let c4 := if forallb (fun x => existsb (fun f => entry_ids_eqb (st_entry x) (create_find_entry f (t_find_ttl c)))
                                                 (watched_at (st_time x))) finds then [] else [4] in
          let found_filter (f : service) (t : N) : option bool :=
            fold_left (fun acc o => match acc, live_at ins (sc_end sc) (fst o) (snd o) t with
                                    | None, _ | _, None => if matches_service f (snd o) then None else acc
                                    | Some b, Some l => Some (b || (l && matches_service f (snd o)))
                                    end) offers (Some false) in
          let c5 := if forallb (fun x =>
                         forallb (fun f => if entry_ids_eqb (st_entry x) (create_find_entry f (t_find_ttl c))
                                           then match found_filter f (st_time x) with Some true => false | _ => true end
                                           else true) (watched_at (st_time x))) finds then [] else [5] in
          let c6 := if forallb (fun t =>
                         forallb (fun f => match found_filter f t with
                                           | Some false => existsb (fun x => (st_time x =? t) && entry_ids_eqb (st_entry x) (create_find_entry f (t_find_ttl c))) finds
                                           | _ => true
                                           end) (watched_at (t - 1))) round_times then [] else [6] in
          (* the find phase ends at the first round instant at which every watched service is found: nothing follows
             (an instant at which liveness or the watched set is ambiguous ends the judgement) *)
          let c7 := (fix go (l : list N) : list N :=
                       match l with
                       | [] => []
                       | t :: r =>
                           let ws := watched_at (t - 1) in
                           if negb (Nat.eqb (length ws) (length (watched_at t)))
                              || existsb (fun f => match found_filter f t with None => true | _ => false end) ws then []
                           else if forallb (fun f => match found_filter f t with Some true => true | _ => false end) ws
                                then (if existsb (fun x => t <? st_time x) finds then [7] else [])
                                else go r
                       end) sched in
          c1 ++ c2 ++ c3 ++ c4 ++ c5 ++ c6 ++ c7
      | _, _ => c1
      end
  end.
