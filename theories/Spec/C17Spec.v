(* C17: the notifications a service endpoint must send, as a function of the timed inputs alone. *)
From PS Require Import Lib.Base Generated.Consts Model.SdTypes Model.Session Model.Someip Model.ServiceStack Spec.C08Spec.

Definition vals_at (sc : sscenario) (t : N) : list (N * bytes) :=
  fold_left (fun acc p => if fst p <=? t then
                            match snd p with SSetValue ev b => aset N.eqb ev b acc | _ => acc end
                          else acc) (ss_events sc) (ss_values sc).

Definition accepted (sc : sscenario) (c : sapi) : option ep :=
  match c with
  | SSubscribe eg [e] => if eg =? ss_egid sc then Some e else None
  | _ => None
  end.
Definition refused (sc : sscenario) (c : sapi) : bool :=
  match c with
  | SSubscribe eg eps => negb (eg =? ss_egid sc) || match eps with [_] => false | _ => true end
  | _ => false
  end.

Fixpoint remove_one (e : ep) (l : list ep) : list ep :=
  match l with [] => [] | x :: r => if ep_eqb e x then r else x :: remove_one e r end.
Fixpoint dedup_ep (l : list ep) : list ep :=
  match l with [] => [] | x :: r => if existsb (ep_eqb x) r then dedup_ep r else x :: dedup_ep r end.

(* live subscriptions (a multiset: two subscriptions may name the same endpoint) after the inputs up to and including t *)
Definition live_at (sc : sscenario) (t : N) : list ep :=
  fold_left (fun acc p => if fst p <=? t then
                            match snd p with
                            | SUnsubscribe eg (e :: _) => if eg =? ss_egid sc then remove_one e acc else acc
                            | c => match accepted sc c with Some e => acc ++ [e] | None => acc end
                            end
                          else acc) (ss_events sc) [].

Definition busy_at (sc : sscenario) (t : N) : N := len (filter (fun p => fst p =? t) (ss_events sc)).

(* an expected transmission: (instant, destination, notifications (event, payload)) *)
Definition exp := (N * N * list (N * bytes))%type.

Definition round_exp (sc : sscenario) (t : N) (evs : list N) : list exp :=
  let tv := t + ss_resolve sc in
  let vals := vals_at sc tv in
  match fold_right (fun ev acc => match acc, aget N.eqb ev vals with
                                  | Some l, Some p => Some ((ev, p) :: l)
                                  | _, _ => None
                                  end) (Some []) evs with
  | Some [] | None => []
  | Some body => map (fun e => (tv, ep_dest e, body)) (dedup_ep (live_at sc t))
  end.

(* the cyclic rounds (cyclic_notify): wait until there is a client; sleep one interval; run a round over the
   endpoints present at the wake-up (it lasts as long as the address resolution); back to the top of the loop.
   A waiter that was woken continues even if the event was cleared again in the meantime (asyncio.Event.wait). *)
Fixpoint cyclic_rounds (fuel : nat) (sc : sscenario) (sleeping_until : option N) (pending : list (N * sapi))
  : list N * bool :=    (* (round instants, ambiguous?) *)
  match fuel with
  | O => ([], true)
  | S f =>
      match sleeping_until with
      | Some T =>
          if ss_end sc <? T then ([], false) else
          let amb := negb (busy_at sc T =? 0) in
          match live_at sc T with
          | [] =>
              let '(r, a) := cyclic_rounds f sc None (filter (fun p => negb (fst p <=? T)) pending) in (T :: r, a || amb)
          | _ =>
              let T2 := T + ss_resolve sc in
              let amb2 := negb (ss_resolve sc =? 0) && negb (busy_at sc T2 =? 0) in
              let pending' := filter (fun p => negb (fst p <=? T2)) pending in
              let '(r, a) := match live_at sc T2 with
                             | [] => cyclic_rounds f sc None pending'
                             | _ => cyclic_rounds f sc (Some (T2 + ss_interval sc)) pending'
                             end in
              (T :: r, a || amb || amb2)
          end
      | None =>
          match pending with
          | [] => ([], false)
          | (t, c) :: r =>
              match accepted sc c with
              | Some _ => cyclic_rounds f sc (Some (t + ss_interval sc)) r
              | None => cyclic_rounds f sc None r
              end
          end
      end
  end.

(* the domain of the property: every explicitly requested event has a value when requested and when sent *)
Definition in_domain (sc : sscenario) : bool :=
  forallb (fun p => match snd p with
                    | SNotifyOnce evs => let v1 := vals_at sc (fst p) in
                                         let v2 := vals_at sc (fst p + ss_resolve sc) in
                                         forallb (fun ev => amem N.eqb ev v1 && amem N.eqb ev v2) evs
                    | _ => true
                    end) (ss_events sc).

Definition expected_sends (sc : sscenario) : list exp * bool * list N :=
  let initial := flat_map (fun p => match accepted sc (snd p) with
                                    | Some e => let tv := fst p + ss_resolve sc in
                                                match vals_at sc tv with
                                                | [] => []
                                                | vals => [(tv, ep_dest e, vals)]
                                                end
                                    | None => []
                                    end) (ss_events sc) in
  let once := flat_map (fun p => match snd p with
                                 | SNotifyOnce evs => round_exp sc (fst p) evs
                                 | _ => []
                                 end) (ss_events sc) in
  let '(cyc, amb) := if ss_interval sc =? 0 then ([], false)
                     else cyclic_rounds 4000 sc None (ss_events sc) in
  let cyclic := flat_map (fun T => round_exp sc T (map fst (vals_at sc (T + ss_resolve sc)))) cyc in
  (* explicit rounds are judged only when nothing but explicit rounds happens at that instant (the snapshot of the
     subscribers is taken one hop later); several explicit rounds requested in one instant are each owed.  The
     transmissions of the other instants are not judged (ambt), everything else is *)
  let ambt := flat_map (fun p => match snd p with
                                 | SNotifyOnce _ =>
                                     if existsb (fun q => (fst q =? fst p) && match snd q with SNotifyOnce _ => false | _ => true end) (ss_events sc)
                                     then [fst p + ss_resolve sc] else []
                                 | _ => []
                                 end) (ss_events sc) in
  let amb3 := existsb (fun p => match snd p with SSetValue _ _ => negb (ss_resolve sc =? 0) | _ => false end) (ss_events sc)
              && false in
  (filter (fun x => (fst (fst x) <=? ss_end sc) && negb (memN (fst (fst x)) ambt)) (initial ++ once ++ cyclic), amb || amb3, ambt).

(* what the trace shows *)
Definition decode_notifications (w_svc w_major : N) (data : bytes) : option (list (N * N * bytes)) :=  (* (event, session id, payload) *)
  match datagram_split data with
  | (ms, None) =>
      if forallb (fun m => (m_sid m =? w_svc) && (m_cid m =? 0) && (m_iv m =? w_major) && (m_mt m =? MT_NOTIFICATION)
                           && (m_rc m =? RC_E_OK) && (m_pv m =? 1) && (EVENT_BIT <=? m_mid m)) ms
      then Some (map (fun m => (m_mid m - EVENT_BIT, m_sess m, m_payload m)) ms) else None
  | _ => None
  end.

Definition body_eqb (a b : list (N * bytes)) : bool :=
  list_eqb (fun x y => (fst x =? fst y) && list_eqb N.eqb (snd x) (snd y)) a b.
Definition exp_eqb (a b : exp) : bool :=
  (fst (fst a) =? fst (fst b)) && (snd (fst a) =? snd (fst b)) && body_eqb (snd a) (snd b).
Fixpoint remove_exp (x : exp) (l : list exp) : option (list exp) :=
  match l with
  | [] => None
  | y :: r => if exp_eqb x y then Some r
              else match remove_exp x r with Some r' => Some (y :: r') | None => None end
  end.
(* multiset equality: every element of a is removed once from b, nothing may remain *)
Fixpoint multiset_eqb (a b : list exp) : bool :=
  match a with
  | [] => match b with [] => true | _ => false end
  | x :: r => match remove_exp x b with Some b' => multiset_eqb r b' | None => false end
  end.

Fixpoint ids_from (k : N) (ids : list N) : bool :=
  match ids with [] => true | x :: r => (x =? nth_id k) && ids_from (k + 1) r end.

(* F14: two live subscriptions naming the same endpoint at some instant *)
Definition f14_pattern (sc : sscenario) : bool :=
  existsb (fun p => let l := live_at sc (fst p) in negb (Nat.eqb (length l) (length (dedup_ep l)))) (ss_events sc).

(* codes: 1 header of a notification wrong / undecodable, 2 per-destination session ids not 1,2,3,...,
   3 transmissions differ from the expected initial / explicit / cyclic notifications, 5 refusals *)
Definition check_C17 (sc : sscenario) (tr : strace) : list N :=
  let sends := flat_map (fun p => match snd p with SvSent d data => [(fst p, d, data)] | _ => [] end) tr in
  let decoded := map (fun x => (x, decode_notifications (ss_svc sc) (ss_major sc) (snd x))) sends in
  if negb (forallb (fun x => match snd x with Some _ => true | None => false end) decoded) then [1] else
  let flat := flat_map (fun x => match snd x with
                                 | Some l => map (fun n => (snd (fst (fst x)), n)) l
                                 | None => []
                                 end) decoded in
  let dests := (fix dd (l : list N) := match l with [] => [] | x :: r => if memN x r then dd r else x :: dd r end) (map fst flat) in
  let c2 := if negb (in_domain sc) then [] else if forallb (fun d =>
                  let ids := map (fun x => snd (fst (snd x))) (filter (fun x => fst x =? d) flat) in
                  ids_from 1 ids) dests then [] else [2] in
  let actual := map (fun x => match snd x with
                              | Some l => (fst (fst (fst x)), snd (fst (fst x)), map (fun n => (fst (fst n), snd n)) l)
                              | None => (0, 0, [])
                              end) decoded in
  let '(expected, amb, ambt) := expected_sends sc in
  let c3 := if amb || negb (in_domain sc) then []
            else if multiset_eqb (filter (fun x => negb (memN (fst (fst x)) ambt)) actual) expected then [] else [3] in
  let naks := len (filter (fun p => match snd p with SvNak => true | _ => false end) tr) in
  let c5 := if naks =? len (filter (fun p => refused sc (snd p)) (ss_events sc)) then [] else [5] in
  c2 ++ c3 ++ c5.
