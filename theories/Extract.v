(* Extraction of the executable model.  Only ExtrOcamlBasic's directives are used
   (bool, option, unit, list, prod, sumbool, sumor -> OCaml types); N/positive stay
   the extracted inductive types.  No Extract Constant of ours. *)
From Coq Require Import Extraction ExtrOcamlBasic.
From PS Require Import Lib.Base Model.Dispatch.
Extraction Language OCaml.
Extraction "model.ml" dispatch.
