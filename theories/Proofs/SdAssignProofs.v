(* C02 core: the option-sharing search is sound, and resolving assigned indexes gives back every
   entry with exactly its own option runs (the shared array only ever grows by appending). *)
From PS Require Import Lib.Base Generated.Consts Model.SdTypes Model.SdCodec.
From PS Require Import Proofs.StructFacts Proofs.EqFacts.
From Coq Require Import Lia ZArith ZifyN ZifyBool ZifyNat.

Lemma find_loop_sound : forall fuel h needle n hl i k,
  find_loop fuel h needle n hl i = Ok (Some k) -> takeN n (dropN k h) = needle.
Proof.
  induction fuel as [|f IH]; intros h needle n hl i k H; cbn [find_loop] in H; [discriminate|].
  destruct (i <? hl); [|discriminate].
  destruct (list_eqb sdopt_eqb (takeN n (dropN (i + 1 - n) h)) needle) eqn:E.
  - injection H as <-. apply sdopts_eqb_eq. exact E.
  - destruct (nth_opt h (N.to_nat i)); [|discriminate]. eapply IH. exact H.
Qed.

Lemma find_run_sound h needle k :
  find_run h needle = Ok (Some k) -> takeN (len needle) (dropN k h) = needle.
Proof. apply find_loop_sound. Qed.

Lemma find_run_bound h needle k :
  needle <> [] -> find_run h needle = Ok (Some k) -> k + len needle <= len h.
Proof.
  intros Hne H. apply find_run_sound in H.
  assert (Hl : len (takeN (len needle) (dropN k h)) = len needle) by (rewrite H; reflexivity).
  unfold len, takeN, dropN in *. rewrite firstn_length, skipn_length in Hl.
  destruct needle; [congruence|]. cbn [length] in *. lia.
Qed.

(* a slice that holds in l keeps holding when l is extended at the end *)
Lemma slice_extends {X} (l ext run : list X) oi :
  takeN (len run) (dropN oi l) = run -> takeN (len run) (dropN oi (l ++ ext)) = run.
Proof.
  intros H. destruct run as [|x run'] eqn:Er; [reflexivity|]. rewrite <- Er in *.
  assert (Hl : len (takeN (len run) (dropN oi l)) = len run) by (rewrite H; reflexivity).
  unfold len, takeN, dropN in *. rewrite Nat2N.id in *.
  rewrite firstn_length, skipn_length in Hl.
  assert (Hlen : (N.to_nat oi + length run <= length l)%nat) by (subst run; cbn [length] in *; lia).
  rewrite skipn_app. rewrite firstn_app. rewrite skipn_length.
  replace (length run - (length l - N.to_nat oi))%nat with 0%nat by lia.
  replace (N.to_nat oi - length l)%nat with 0%nat by lia. cbn [skipn firstn]. rewrite app_nil_r. exact H.
Qed.

Lemma assign_option_spec run hdr oi no hdr' :
  assign_option run hdr = Ok ((oi, no), hdr') ->
  (exists ext, hdr' = hdr ++ ext) /\ no = len run /\ takeN no (dropN oi hdr') = run.
Proof.
  unfold assign_option. destruct run as [|x run'] eqn:Er.
  - intros H; injection H as <- <- <-. split; [exists []; rewrite app_nil_r; reflexivity|]. split; reflexivity.
  - rewrite <- Er. destruct (find_run hdr run) as [[k|]|] eqn:Ef; cbn [bind]; [| |discriminate].
    + intros H; injection H as <- <- <-. split; [exists []; rewrite app_nil_r; reflexivity|].
      split; [reflexivity|]. apply find_run_sound. exact Ef.
    + intros H; injection H as <- <- <-. split; [exists run; reflexivity|]. split; [reflexivity|].
      rewrite dropN_app_exact. apply takeN_all.
Qed.

Definition resolved (e : sdentry) : Prop := e_idx e = None.

Lemma assign_entry_spec e hdr e' hdr' :
  resolved e -> assign_entry e hdr = Ok (e', hdr') ->
  (exists ext, hdr' = hdr ++ ext) /\ forall more, resolve_entry e' (hdr' ++ more) = Ok e.
Proof.
  unfold resolved, assign_entry. intros Hr. rewrite Hr.
  destruct (assign_option (e_opts1 e) hdr) as [[[oi1 no1] h1]|] eqn:E1; cbn [bind]; [|discriminate].
  destruct (assign_option (e_opts2 e) h1) as [[[oi2 no2] h2]|] eqn:E2; cbn [bind]; [|discriminate].
  intros H; injection H as <- <-.
  apply assign_option_spec in E1. destruct E1 as ((x1 & Hx1) & Hn1 & Hs1).
  apply assign_option_spec in E2. destruct E2 as ((x2 & Hx2) & Hn2 & Hs2).
  split; [exists (x1 ++ x2); subst; rewrite app_assoc; reflexivity|].
  intros more. unfold resolve_entry. cbn [e_idx e_type e_sid e_iid e_maj e_ttl e_val].
  subst no1 no2. rewrite (slice_extends h2 more _ oi2 Hs2).
  rewrite Hx2, <- app_assoc. rewrite (slice_extends h1 (x2 ++ more) _ oi1 Hs1).
  destruct e; cbn in *. subst. reflexivity.
Qed.

Lemma assign_entries_spec : forall es hdr es' hdr',
  Forall resolved es -> assign_entries es hdr = Ok (es', hdr') ->
  (exists ext, hdr' = hdr ++ ext) /\ forall more, resolve_entries es' (hdr' ++ more) = Ok es.
Proof.
  induction es as [|e es IH]; intros hdr es' hdr' Hr H; cbn [assign_entries] in H.
  - injection H as <- <-. split; [exists []; rewrite app_nil_r; reflexivity|reflexivity].
  - inversion Hr as [|? ? He Hes]; subst.
    destruct (assign_entry e hdr) as [[e1 h1]|] eqn:E1; cbn [bind] in H; [|discriminate].
    destruct (assign_entries es h1) as [[r1 h2]|] eqn:E2; cbn [bind] in H; [|discriminate].
    injection H as <- <-.
    apply (assign_entry_spec _ _ _ _ He) in E1. destruct E1 as ((x1 & Hx1) & R1).
    apply (IH _ _ _ Hes) in E2. destruct E2 as ((x2 & Hx2) & R2).
    split; [exists (x1 ++ x2); subst; rewrite app_assoc; reflexivity|].
    intros more. cbn [resolve_entries]. rewrite R2. subst h2. rewrite <- app_assoc. rewrite R1. reflexivity.
Qed.

(* resolve (assign m) = m, up to the shared array that assign built *)
Theorem assign_resolve m a :
  Forall resolved (sd_entries m) -> assign_sd m = Ok a ->
  resolve_sd a = Ok (mkSd (sd_entries m) (sd_options a) (sd_reboot m) (sd_unicast m) (sd_flags_unknown m))
  /\ exists ext, sd_options a = sd_options m ++ ext.
Proof.
  intros Hr. unfold assign_sd.
  destruct (assign_entries (sd_entries m) (sd_options m)) as [[es opts]|] eqn:E; cbn [bind]; [|discriminate].
  intros H; injection H as <-. apply (assign_entries_spec _ _ _ _ Hr) in E. destruct E as (Hext & R).
  split; [|exact Hext]. unfold resolve_sd. cbn [sd_entries sd_options sd_reboot sd_unicast sd_flags_unknown].
  specialize (R []). rewrite app_nil_r in R. rewrite R. reflexivity.
Qed.

(* every index pair handed out lies inside the shared array *)
Lemma assign_option_in_range run hdr oi no hdr' :
  assign_option run hdr = Ok ((oi, no), hdr') -> oi + no <= len hdr' \/ no = 0.
Proof.
  intros H. apply assign_option_spec in H. destruct H as (_ & Hn & Hs).
  destruct (N.eq_dec no 0) as [Hz|Hz]; [right; exact Hz|left].
  assert (Hl : len (takeN no (dropN oi hdr')) = no) by (rewrite Hs; auto).
  unfold len, takeN, dropN in *. rewrite firstn_length, skipn_length in Hl. lia.
Qed.

(* the search never runs out of fuel: every iteration advances i by a skip >= 1 *)
Lemma skip_scan_pos needle n i x cur : 1 <= cur -> (forall j, i <= j -> j + 1 < n -> 1 <= n - j - 1) ->
  1 <= skip_scan needle n i x cur.
Proof.
  revert i cur. induction needle as [|y r IH]; intros i cur Hc Hn; cbn [skip_scan]; [exact Hc|].
  apply IH.
  - destruct (N.ltb_spec (i + 1) n) as [E|E]; cbn [andb]; [|exact Hc].
    destruct (sdopt_eqb y x); [apply Hn; lia|exact Hc].
  - intros j Hj. apply Hn. lia.
Qed.

Lemma skip_of_pos needle x : needle <> [] -> 1 <= skip_of needle x.
Proof.
  intros Hne. unfold skip_of. apply skip_scan_pos.
  - destruct needle; [congruence|]. rewrite len_cons. lia.
  - intros j _ Hj. lia.
Qed.

Lemma find_loop_fuel : forall fuel h needle n hl i,
  needle <> [] -> hl = len h -> (N.to_nat hl - N.to_nat i < fuel)%nat ->
  find_loop fuel h needle n hl i <> Err EFuel.
Proof.
  induction fuel as [|f IH]; intros h needle n hl i Hne Hhl Hf; [lia|].
  cbn [find_loop]. destruct (N.ltb_spec i hl) as [E|E]; [|discriminate].
  destruct (list_eqb sdopt_eqb _ needle); [discriminate|].
  destruct (nth_opt h (N.to_nat i)) as [x|] eqn:En.
  - apply IH; [exact Hne|exact Hhl|]. pose proof (skip_of_pos needle x Hne). lia.
  - exfalso. subst hl. clear -E En. unfold len in E.
    assert (Hi : (N.to_nat i < length h)%nat) by lia. clear E.
    revert En Hi. generalize (N.to_nat i). intros k. revert k.
    induction h as [|y h IHh]; intros k En Hi; cbn [length] in Hi; [lia|].
    destruct k; cbn [nth_opt] in En; [discriminate|]. apply (IHh k En). lia.
Qed.

Lemma find_run_no_fuel h needle : needle <> [] -> find_run h needle <> Err EFuel.
Proof.
  intros Hne. unfold find_run. apply find_loop_fuel; [exact Hne|reflexivity|]. unfold len. lia.
Qed.

Lemma find_loop_errs : forall fuel h needle n hl i e, find_loop fuel h needle n hl i = Err e -> e = EFuel.
Proof.
  induction fuel as [|f IH]; intros h needle n hl i e H; cbn [find_loop] in H; [congruence|].
  destruct (i <? hl); [|discriminate]. destruct (list_eqb _ _ _); [discriminate|].
  destruct (nth_opt h (N.to_nat i)); [eapply IH; exact H|congruence].
Qed.

(* hence index assignment never fails *)
Lemma assign_option_total run hdr : exists r, assign_option run hdr = Ok r.
Proof.
  unfold assign_option. destruct run as [|x run'] eqn:Er; [eexists; reflexivity|]. rewrite <- Er.
  destruct (find_run hdr run) as [[k|]|e] eqn:Ef; cbn [bind]; try (eexists; reflexivity).
  exfalso. assert (e = EFuel) by (eapply find_loop_errs; exact Ef). subst e.
  apply (find_run_no_fuel hdr run); [subst run; discriminate|exact Ef].
Qed.
