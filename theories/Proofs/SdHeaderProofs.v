(* SD header: parse (build a ++ r) = (a, r) for an assigned, well-formed header. *)
From PS Require Import Lib.Base Lib.Struct Generated.Consts Model.SdTypes Model.SdCodec.
From PS Require Import Proofs.StructFacts Proofs.BitFacts Proofs.SdEntryProofs Proofs.SdOptionProofs.
From Coq Require Import Lia ZArith ZifyN ZifyBool ZifyNat.

Lemma build_option_len o b : build_option o = Ok b -> 3 <= len b.
Proof.
  assert (H : forall ty body b, build_option_hdr ty body = Ok b -> 3 <= len b).
  { intros ty body b0. unfold build_option_hdr. destruct (pack fmt_sdoption _) as [h|] eqn:Hp; cbn [bind]; [|discriminate].
    intros E; injection E as <-. rewrite len_app. apply pack_len in Hp. change (fmt_size fmt_sdoption) with 3 in Hp. lia. }
  destruct o; cbn [build_option].
  - apply H.
  - destruct (pack _ _); cbn [bind]; [apply H|discriminate].
  - destruct (build_cfgs _ _); cbn [bind]; [apply H|discriminate].
  - destruct (pack _ _); cbn [bind]; [apply H|discriminate].
Qed.

Lemma parse_options_concat : forall opts fuel acc ob r,
  Forall wf_opt opts -> concat_map_res build_option opts = Ok ob -> r = [] ->
  (length ob < fuel)%nat ->
  parse_options fuel (ob ++ r) acc = Ok (rev acc ++ opts).
Proof.
  induction opts as [|o opts IH]; intros fuel acc ob r Hwf Hb Hr Hf; subst r; rewrite app_nil_r.
  - cbn in Hb. injection Hb as <-. destruct fuel; cbn [parse_options]; rewrite app_nil_r; reflexivity.
  - cbn [concat_map_res] in Hb.
    destruct (build_option o) as [b1|] eqn:H1; cbn [bind] in Hb; [|discriminate].
    destruct (concat_map_res build_option opts) as [b2|] eqn:H2; cbn [bind] in Hb; [|discriminate].
    injection Hb as <-. inversion Hwf as [|? ? Ho Hos]; subst.
    pose proof (build_option_len _ _ H1) as Hl.
    destruct fuel as [|f]; [lia|].
    destruct (b1 ++ b2) as [|x xs] eqn:E.
    { apply (f_equal len) in E. rewrite len_app in E. change (len []) with 0 in E. lia. }
    cbn [parse_options]. rewrite <- E. rewrite (option_roundtrip o b1 b2 Ho H1). cbn [bind].
    rewrite <- (app_nil_r b2). rewrite (IH f (o :: acc) b2 [] Hos eq_refl eq_refl).
    + cbn [rev]. rewrite <- app_assoc. reflexivity.
    + rewrite <- E in Hf. rewrite app_length in Hf. unfold len in Hl. lia.
Qed.

Lemma parse_entries_concat : forall es fuel acc eb n,
  Forall (fun e => wf_entry e n) es -> concat_map_res build_entry es = Ok eb ->
  (length eb < fuel)%nat ->
  parse_entries fuel eb n acc = Ok (rev acc ++ es).
Proof.
  induction es as [|e es IH]; intros fuel acc eb n Hwf Hb Hf.
  - cbn in Hb. injection Hb as <-. destruct fuel; cbn [parse_entries]; rewrite app_nil_r; reflexivity.
  - cbn [concat_map_res] in Hb.
    destruct (build_entry e) as [b1|] eqn:H1; cbn [bind] in Hb; [|discriminate].
    destruct (concat_map_res build_entry es) as [b2|] eqn:H2; cbn [bind] in Hb; [|discriminate].
    injection Hb as <-. inversion Hwf as [|? ? He Hes]; subst.
    pose proof (entry_len _ _ H1) as Hl.
    destruct fuel as [|f]; [lia|].
    destruct (b1 ++ b2) as [|x xs] eqn:E.
    { apply (f_equal len) in E. rewrite len_app in E. change (len []) with 0 in E. lia. }
    cbn [parse_entries]. rewrite <- E. rewrite (entry_roundtrip e b1 b2 n He H1). cbn [bind].
    rewrite (IH f (e :: acc) b2 n Hes eq_refl).
    + cbn [rev]. rewrite <- app_assoc. reflexivity.
    + rewrite <- E in Hf. rewrite app_length in Hf. unfold len in Hl. lia.
Qed.

(* flags: the six undefined bits are kept, the two defined ones are the booleans (finite sweep) *)
Definition flags_of (fu : N) (rb uc : bool) : N :=
  N.lor (N.lor fu (if rb then 128 else 0)) (if uc then 64 else 0).
Definition flags_okb (fu : N) : bool :=
  forallb (fun rb => forallb (fun uc =>
     let f := flags_of fu rb uc in
     (f <? 256) && Bool.eqb (negb (N.land f 128 =? 0)) rb && Bool.eqb (negb (N.land f 64 =? 0)) uc
     && (N.land f 63 =? fu)) [true; false]) [true; false].
Lemma flags_sweep : forallb flags_okb (map N.of_nat (seq 0 64)) = true.
Proof. vm_compute. reflexivity. Qed.
Lemma flags_ok fu rb uc : fu < 64 ->
  let f := flags_of fu rb uc in
  f < 256 /\ negb (N.land f 128 =? 0) = rb /\ negb (N.land f 64 =? 0) = uc /\ N.land f 63 = fu.
Proof.
  intros Hfu. pose proof flags_sweep as H. rewrite forallb_forall in H.
  specialize (H fu). assert (Hin : In fu (map N.of_nat (seq 0 64))).
  { replace fu with (N.of_nat (N.to_nat fu)) by apply N2Nat.id. apply in_map. apply in_seq. lia. }
  specialize (H Hin). unfold flags_okb in H. rewrite forallb_forall in H.
  specialize (H rb ltac:(destruct rb; cbn; auto)). rewrite forallb_forall in H.
  specialize (H uc ltac:(destruct uc; cbn; auto)). cbn zeta in H.
  rewrite !andb_true_iff in H. destruct H as (((H1 & H2) & H3) & H4).
  apply N.ltb_lt in H1. apply Bool.eqb_prop in H2. apply Bool.eqb_prop in H3. apply N.eqb_eq in H4. auto.
Qed.

Definition wf_sd (a : sdheader) : Prop :=
  Forall wf_opt (sd_options a) /\ Forall (fun e => wf_entry e (len (sd_options a))) (sd_entries a)
  /\ sd_flags_unknown a < 64.

Lemma pack_u32 n b : pack [U32] [VI n] = Ok b -> b = be 4 n /\ n < 4294967296.
Proof.
  cbn [pack pack1]. destruct (N.ltb_spec n 4294967296) as [E|E]; cbn [bind]; [|discriminate].
  intros H; injection H as <-. rewrite ?app_nil_r. auto.
Qed.

Local Opaque be.

Theorem sd_roundtrip a b :
  wf_sd a -> build_sd a = Ok b -> parse_sd b = Ok (a, []).
Proof.
  intros (Hwo & Hwe & Hfu) Hb. unfold build_sd in Hb.
  fold (flags_of (sd_flags_unknown a) (sd_reboot a) (sd_unicast a)) in Hb.
  pose proof (flags_ok (sd_flags_unknown a) (sd_reboot a) (sd_unicast a) Hfu) as (Hf1 & Hf2 & Hf3 & Hf4).
  set (fl := flags_of _ _ _) in *.
  unfold byte_append in Hb. destruct (N.ltb_spec fl 256) as [_|E]; [|lia]. cbn [bind app] in Hb.
  destruct (concat_map_res build_entry (sd_entries a)) as [eb|] eqn:He; cbn [bind] in Hb; [|discriminate].
  destruct (concat_map_res build_option (sd_options a)) as [ob|] eqn:Ho; cbn [bind] in Hb; [|discriminate].
  destruct (pack [U32] [VI (len eb)]) as [le|] eqn:Hle; cbn [bind] in Hb; [|discriminate].
  destruct (pack [U32] [VI (len ob)]) as [lo|] eqn:Hlo; cbn [bind] in Hb; [|discriminate].
  apply pack_u32 in Hle. destruct Hle as [-> Hle]. apply pack_u32 in Hlo. destruct Hlo as [-> Hlo].
  injection Hb as <-. unfold parse_sd.
  assert (L4 : forall n, len (be 4 n) = 4) by (intros n; apply be_len).
  (* length guard *)
  match goal with |- context [len ?x <? 12] => assert (Hlen : len x = 12 + len eb + len ob) end.
  { cbn [app]. rewrite !len_cons, !len_app, !L4. lia. }
  rewrite Hlen. destruct (N.ltb_spec (12 + len eb + len ob) 12) as [E|_]; [lia|].
  cbn [app].
  set (X := eb ++ be 4 (len ob) ++ ob).
  assert (H4 : forall fl', dropN 4 (fl' :: 0 :: 0 :: 0 :: be 4 (len eb) ++ X) = be 4 (len eb) ++ X) by reflexivity.
  assert (H8 : forall fl', dropN 8 (fl' :: 0 :: 0 :: 0 :: be 4 (len eb) ++ X) = X).
  { intros fl'. change (dropN 8 (fl' :: 0 :: 0 :: 0 :: be 4 (len eb) ++ X)) with (dropN 4 (be 4 (len eb) ++ X)).
    rewrite <- (L4 (len eb)) at 1. apply dropN_app_exact. }
  rewrite !H4, !H8.
  assert (T4 : forall n Y, takeN 4 (be 4 n ++ Y) = be 4 n).
  { intros n Y. rewrite <- (L4 n) at 1. apply takeN_app_exact. }
  assert (D4 : forall n Y, dropN 4 (be 4 n ++ Y) = Y).
  { intros n Y. rewrite <- (L4 n) at 1. apply dropN_app_exact. }
  rewrite !T4. rewrite unbe_be by (cbn; lia).
  unfold X. rewrite !len_app, !L4.
  destruct (N.ltb_spec (len eb + (4 + len ob)) (len eb + 4)) as [E|_]; [lia|].
  rewrite !takeN_app_exact, !dropN_app_exact. rewrite !T4, !D4. rewrite unbe_be by (cbn; lia).
  destruct (N.ltb_spec (len ob) (len ob)) as [E|_]; [lia|].
  rewrite takeN_all, dropN_all.
  rewrite <- (app_nil_r ob) at 2.
  rewrite (parse_options_concat (sd_options a) (S (length ob)) [] ob [] Hwo Ho eq_refl) by lia.
  cbn [bind rev app].
  rewrite (parse_entries_concat (sd_entries a) (S (length eb)) [] eb _ Hwe He) by lia.
  cbn [bind rev app]. rewrite Hf2, Hf3, Hf4. destruct a; reflexivity.
Qed.
