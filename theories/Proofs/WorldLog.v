(* History theorems over WHOLE RUNS of the full stack model, for every schedule, via the ghost history (glog):
   (1) conservation of the send queue (C15): per destination, what the collectors have handed over for transmission so
       far ++ what is pending in the open collector = what has been queued so far - nothing lost, duplicated, reordered
       or moved to another destination, by any callback, in any reachable state;
   (2) session ids (C08): the (flag, id) pairs given to the SD transmissions, in order, are exactly what the
       specification's per-destination counters hand out for that sequence of destinations.
   Lifted through all protocol functions by Proofs/Lift.v. *)
From Coq Require Import Lia Permutation.
From PS Require Import Lib.Base Lib.Struct Generated.Consts Model.SdTypes Model.Config Model.Session Model.Someip Model.SdCodec
  Model.StackTypes Model.Stack Model.StackIO Proofs.AListFacts Proofs.EqFacts Proofs.KeyEquiv Proofs.C07Proofs Proofs.QueueProofs
  Proofs.WorldInv Proofs.WorldInv2 Proofs.WorldTime.
From PS Require Proofs.Lift.

(* ------------------------------------------------------------------ reading the ghost history (newest first) *)
Definition q_contrib (d : dest) (g : gev) : list sdentry :=
  match g with GQueue e d' => if dest_eqb d' d then [e] else [] | _ => [] end.
Definition f_contrib (d : dest) (g : gev) : list sdentry :=
  match g with GFlush d' es => if dest_eqb d' d then es else [] | _ => [] end.
Fixpoint log_queued (d : dest) (l : list (N * gev)) : list sdentry :=
  match l with [] => [] | p :: r => log_queued d r ++ q_contrib d (snd p) end.
Fixpoint log_flushed (d : dest) (l : list (N * gev)) : list sdentry :=
  match l with [] => [] | p :: r => log_flushed d r ++ f_contrib d (snd p) end.
Definition w_pending (w : world) (d : dest) : list sdentry :=
  match open_collector w d with Some (_, co) => co_data co | None => [] end.

Lemma lq_qlog d l : log_queued d (qlog l) = log_queued d l.
Proof.
  induction l as [|[t g] l IH]; [reflexivity|]. destruct g as [e d'|d' es|es d' f i|st a k ttl|st a k|ml|dep].
  - change (log_queued d ((t, GQueue e d') :: qlog l) = log_queued d ((t, GQueue e d') :: l)). cbn [log_queued]. rewrite IH. reflexivity.
  - change (log_queued d ((t, GFlush d' es) :: qlog l) = log_queued d ((t, GFlush d' es) :: l)). cbn [log_queued]. rewrite IH. reflexivity.
  - change (log_queued d (qlog l) = log_queued d ((t, GSend es d' f i) :: l)). cbn [log_queued snd q_contrib]. rewrite app_nil_r. exact IH.
  - change (log_queued d (qlog l) = log_queued d ((t, GRefresh st a k ttl) :: l)). cbn [log_queued snd q_contrib]. rewrite app_nil_r. exact IH.
  - change (log_queued d (qlog l) = log_queued d ((t, GExpire st a k) :: l)). cbn [log_queued snd q_contrib]. rewrite app_nil_r. exact IH.
  - change (log_queued d (qlog l) = log_queued d ((t, GMulti ml) :: l)). cbn [log_queued snd q_contrib]. rewrite app_nil_r. exact IH.
  - change (log_queued d (qlog l) = log_queued d ((t, GDupSub dep) :: l)). cbn [log_queued snd q_contrib]. rewrite app_nil_r. exact IH.
Qed.
Lemma lf_qlog d l : log_flushed d (qlog l) = log_flushed d l.
Proof.
  induction l as [|[t g] l IH]; [reflexivity|]. destruct g as [e d'|d' es|es d' f i|st a k ttl|st a k|ml|dep].
  - change (log_flushed d ((t, GQueue e d') :: qlog l) = log_flushed d ((t, GQueue e d') :: l)). cbn [log_flushed]. rewrite IH. reflexivity.
  - change (log_flushed d ((t, GFlush d' es) :: qlog l) = log_flushed d ((t, GFlush d' es) :: l)). cbn [log_flushed]. rewrite IH. reflexivity.
  - change (log_flushed d (qlog l) = log_flushed d ((t, GSend es d' f i) :: l)). cbn [log_flushed snd f_contrib]. rewrite app_nil_r. exact IH.
  - change (log_flushed d (qlog l) = log_flushed d ((t, GRefresh st a k ttl) :: l)). cbn [log_flushed snd f_contrib]. rewrite app_nil_r. exact IH.
  - change (log_flushed d (qlog l) = log_flushed d ((t, GExpire st a k) :: l)). cbn [log_flushed snd f_contrib]. rewrite app_nil_r. exact IH.
  - change (log_flushed d (qlog l) = log_flushed d ((t, GMulti ml) :: l)). cbn [log_flushed snd f_contrib]. rewrite app_nil_r. exact IH.
  - change (log_flushed d (qlog l) = log_flushed d ((t, GDupSub dep) :: l)). cbn [log_flushed snd f_contrib]. rewrite app_nil_r. exact IH.
Qed.

(* ------------------------------------------------------------------ the history invariant *)
Record Kinv (w : world) : Prop := mkK {
  k_cons : forall d, log_flushed d (glog w) ++ w_pending w d = log_queued d (glog w);
  k_reg : forall c co, aget N.eqb c (collectors w) = Some co -> co_done co = false -> aget dest_eqb (co_dest co) (queues w) = Some c;
  k_dest : forall d c co, aget dest_eqb d (queues w) = Some c -> aget N.eqb c (collectors w) = Some co -> co_dest co = d;
  k_present : forall d c, aget dest_eqb d (queues w) = Some c -> exists co, aget N.eqb c (collectors w) = Some co;
  k_once : forall tid c, In (tid, HCollector c) (tided w) -> tid = c /\ open_coll w c = true;
  k_soon : forall h, In (None, h) (ready w) -> nocoll_b h = true;
  k_zero : t_collect (cfg w) = 0 -> collectors w = [];
  k_sess : osteps [] (slog (glog w)) = Some (outgoing (sess w));
  k_wire : wire (out w) = gwire (glog w) }.

Lemma open_collector_frame w w' : collectors w' = collectors w -> queues w' = queues w -> forall d, open_collector w' d = open_collector w d.
Proof. intros A B d. unfold open_collector. rewrite A, B. reflexivity. Qed.
Lemma open_coll_frame w w' : collectors w' = collectors w -> forall c, open_coll w' c = open_coll w c.
Proof. intros A c. unfold open_coll. rewrite A. reflexivity. Qed.

(* what a step may do without the invariant noticing *)
Record kx (w w' : world) : Prop := mkKx {
  kx_collectors : collectors w' = collectors w;
  kx_queues : queues w' = queues w;
  kx_qlog : qlog (glog w') = qlog (glog w);
  kx_cfg : cfg w' = cfg w;
  kx_tided : forall tid c, In (tid, HCollector c) (tided w') -> In (tid, HCollector c) (tided w);
  kx_ctimers : forall when tid c, In (when, tid, HCollector c) (timers w') -> In (when, tid, HCollector c) (timers w);
  kx_ready : forall h, In (None, h) (ready w') -> In (None, h) (ready w) \/ nocoll_b h = true;
  kx_sess : exists l, slog (glog w') = slog (glog w) ++ l /\ osteps (outgoing (sess w)) l = Some (outgoing (sess w'));
  kx_wire : exists m, wire (out w') = wire (out w) ++ m /\ gwire (glog w') = gwire (glog w) ++ m }.

Lemma kx_refl w : kx w w.
Proof. constructor; auto; exists []; rewrite ?app_nil_r; split; reflexivity. Qed.
Lemma kx_trans a b c : kx a b -> kx b c -> kx a c.
Proof.
  intros [A1 A2 A3 A4 A5 At A6 (m1 & As1 & As2) (n1 & Aw1 & Aw2)] [B1 B2 B3 B4 B5 Bt B6 (m2 & Bs1 & Bs2) (n2 & Bw1 & Bw2)]. constructor; try congruence.
  - intros tid x H. apply A5, B5, H.
  - intros when tid x H. apply At, Bt, H.
  - intros h H. destruct (B6 h H) as [H1|H1]; [apply A6; exact H1|right; exact H1].
  - exists (m1 ++ m2). rewrite Bs1, As1, app_assoc. split; [reflexivity|]. rewrite osteps_app, As2. exact Bs2.
  - exists (n1 ++ n2). rewrite Bw1, Aw1, Bw2, Aw2, !app_assoc. split; reflexivity.
Qed.
Lemma same_kx {b} w w' : sameb b w w' -> kx w w'.
Proof.
  intros Hs. constructor; try apply Hs.
  - intros tid c. rewrite (same_tided _ _ Hs). auto.
  - intros when tid c. rewrite (sm_tmr _ _ Hs). auto.
  - intros h Hin. destruct (sm_ready _ _ Hs) as (l & A & B). rewrite A in Hin. apply in_app_iff in Hin.
    destruct Hin as [Hin|Hin]; [left; exact Hin|right]. rewrite Forall_forall in B. apply (B _ Hin).
Qed.

Lemma kx_K w w' : kx w w' -> Kinv w -> Kinv w'.
Proof.
  intros [A1 A2 A3 A4 A5 At A6 (m & As1 & As2) (n & Aw1 & Aw2)] [K1 K2 K3 K4 K5 K6 K7 K8 K9]. constructor.
  - intros d. unfold w_pending. rewrite (open_collector_frame w w' A1 A2 d).
    rewrite <- (lf_qlog d (glog w')), <- (lq_qlog d (glog w')), A3, lf_qlog, lq_qlog. apply K1.
  - intros c co. rewrite A1, A2. apply K2.
  - intros d c co. rewrite A1, A2. apply K3.
  - intros d c. rewrite A1, A2. apply K4.
  - intros tid c H. rewrite (open_coll_frame w w' A1). apply K5, A5, H.
  - intros h H. destruct (A6 h H) as [H1|H1]; [apply K6; exact H1|exact H1].
  - rewrite A4, A1. exact K7.
  - rewrite As1, osteps_app, K8. exact As2.
  - rewrite Aw1, Aw2, K9. reflexivity.
Qed.
Lemma same_K {b} w w' : sameb b w w' -> Kinv w -> Kinv w'.
Proof. intros Hs. eapply kx_K, same_kx, Hs. Qed.

Definition Xk (f : world -> world) : Prop := forall w, kx w (f w).
Lemma Xk_fold {Y} (f : world -> Y -> world) l : (forall x, Xk (fun w => f w x)) -> Xk (fun w => fold_left f l w).
Proof. intros H. induction l as [|x l IH]; intros w; cbn [fold_left]; [apply kx_refl|]. eapply kx_trans; [apply (H x w)|apply IH]. Qed.
Lemma Xk_neutral {b} f : (forall w, sameb b w (f w)) -> Xk f.
Proof. intros H w. eapply same_kx, H. Qed.

(* ------------------------------------------------------------------ primitives that the invariant does not notice *)
Ltac nosess := exists []; rewrite ?app_nil_r; split; reflexivity.
Lemma Xk_call_later d h w : nocoll_b h = true -> kx w (snd (call_later d h w)).
Proof.
  intros Hc. constructor; try reflexivity; [| | |nosess|nosess].
  - intros tid c Hin. apply in_tided_call_later in Hin. destruct Hin as [Hin|Hin]; [|exact Hin].
    injection Hin as _ <-. discriminate.
  - intros when tid c Hin. cbn in Hin. apply in_app_iff in Hin. destruct Hin as [Hin|[Hin|[]]]; [exact Hin|].
    inversion Hin; subst. discriminate.
  - intros h0 Hin. left. exact Hin.
Qed.
Lemma Xk_cancel tid : Xk (cancel_timer tid).
Proof. intros w. constructor; try reflexivity; [auto|auto|auto|nosess|nosess]. Qed.
Lemma Xk_cancel_opt o : Xk (cancel_opt o). Proof. destruct o; [apply Xk_cancel|intros w; apply kx_refl]. Qed.
Lemma Xk_put_store st s : Xk (put_store st s).
Proof.
  intros w. destruct (put_store_frame st s w) as (F1 & F2 & F3 & _ & _ & F6).
  constructor; [exact F6| | | | | | | |]; try (destruct st as [|i]; cbn; [reflexivity|destruct (aget N.eqb i (insts w)); reflexivity]).
  - intros tid c. rewrite put_store_tided. auto.
  - intros when tid c. rewrite F1. auto.
  - intros h. rewrite F2. auto.
  - exists []. rewrite app_nil_r. destruct st as [|i]; cbn; [split; reflexivity|destruct (aget N.eqb i (insts w)); split; reflexivity].
  - exists []. rewrite !app_nil_r. destruct st as [|i]; cbn; [split; reflexivity|destruct (aget N.eqb i (insts w)); split; reflexivity].
Qed.
Definition tlog_b (g : gev) : bool := match g with GRefresh _ _ _ _ | GExpire _ _ _ => true | _ => false end.
Lemma Xk_ghost g : tlog_b g = true -> Xk (ghost g).
Proof. intros Hg w. destruct g; try discriminate; (constructor; try reflexivity; [auto|auto|auto|nosess|nosess]). Qed.
Lemma Xk_put_task t tk : Xk (put_task t tk). Proof. intros w. constructor; try reflexivity; [auto|auto|auto|nosess|nosess]. Qed.
Lemma Xk_put_inst i x : Xk (put_inst i x). Proof. intros w. constructor; try reflexivity; [auto|auto|auto|nosess|nosess]. Qed.
Lemma Xk_call_soon h : nocoll_b h = true -> Xk (call_soon h).
Proof.
  intros Hc w. constructor; try reflexivity; [|auto| |nosess|nosess].
  - intros tid c Hin. unfold tided, rdy, call_soon in *. cbn [ready set_ready timers] in Hin. rewrite flat_map_app in Hin. cbn in Hin.
    rewrite app_nil_r in Hin. exact Hin.
  - intros h0 Hin. cbn [call_soon ready set_ready] in Hin. apply in_app_iff in Hin. destruct Hin as [Hin|[Hin|[]]]; [left; exact Hin|right].
    injection Hin as <-. exact Hc.
Qed.

(* ---- store operations *)
Lemma Xk_store_stop st a k : Xk (store_stop st a k).
Proof.
  intros w. unfold store_stop. destruct (aget key_eqb k _); [|apply Xk_put_store].
  eapply kx_trans; [|eapply Xk_neutral, n_store_callback]. eapply kx_trans; [apply Xk_put_store|apply Xk_cancel_opt].
Qed.
Lemma Xk_store_expired st a k : Xk (store_expired st a k).
Proof.
  intros w. unfold store_expired. destruct (aget key_eqb k _); [|apply Xk_put_store].
  eapply kx_trans; [|apply Xk_ghost; reflexivity]. eapply kx_trans; [apply Xk_put_store|eapply Xk_neutral, n_store_callback].
Qed.
Lemma Xk_store_stop_all_for_address st a : Xk (store_stop_all_for_address st a).
Proof.
  intros w. unfold store_stop_all_for_address. eapply kx_trans; [apply Xk_put_store|].
  apply (Xk_fold (fun acc p => store_callback st (fst p) a (cancel_opt (snd p) acc))). intros p w0.
  eapply kx_trans; [apply Xk_cancel_opt|eapply Xk_neutral, n_store_callback].
Qed.
Lemma Xk_store_stop_all st : Xk (store_stop_all st).
Proof.
  intros w. unfold store_stop_all. eapply kx_trans; [|apply Xk_put_store].
  apply (Xk_fold (fun acc p => store_stop_all_for_address st (fst p) acc)). intros p. apply Xk_store_stop_all_for_address.
Qed.
Lemma Xk_refresh_tail st ttl a k : Xk (fun w => fst (refresh_tail st ttl a k w)).
Proof.
  intros w0. unfold refresh_tail. cbv zeta. apply (kx_trans _ (ghost (GRefresh st a k ttl) w0)); [apply Xk_ghost; reflexivity|].
  generalize (ghost (GRefresh st a k ttl) w0). clear w0. intros w.
  destruct (ttl =? TTL_FOREVER); [cbn [fst]; apply Xk_put_store|].
  destruct (call_later (ttl * usec_per_sec) (HExpired st a k) w) as [t w'] eqn:Ec. cbn [fst].
  assert (w' = snd (call_later (ttl * usec_per_sec) (HExpired st a k) w)) as -> by (rewrite Ec; reflexivity).
  eapply kx_trans; [apply (Xk_call_later (ttl * usec_per_sec) (HExpired st a k) w eq_refl)|apply Xk_put_store].
Qed.
Lemma Xk_store_refresh st ttl a k : Xk (fun w => fst (store_refresh st ttl a k w)).
Proof.
  intros w. rewrite store_refresh_unfold. cbv zeta. destruct (aget key_eqb k _) as [old|].
  - eapply kx_trans; [|apply Xk_refresh_tail]. eapply kx_trans; [apply Xk_put_store|apply Xk_cancel_opt].
  - destruct st as [|i], k as [s|sub]; try (eapply kx_trans; [apply Xk_put_store|apply Xk_refresh_tail]).
    + eapply kx_trans; [|apply Xk_refresh_tail]. eapply kx_trans; [apply Xk_put_store|].
      eapply Xk_neutral. apply n_notify_service. intros l. apply n_listener_offered.
    + destruct (client_subscribed i sub a _) as [w' ok] eqn:Ec.
      match type of Ec with client_subscribed _ _ _ ?w0 = _ => pose proof (n_client_subscribed i sub a w0) as Hs; cbv beta in Hs; rewrite Ec in Hs; cbn [fst] in Hs end.
      destruct ok; cbn [negb fst]; (eapply kx_trans; [apply Xk_put_store|]); [eapply kx_trans; [eapply same_kx; exact Hs|apply Xk_refresh_tail]|eapply same_kx; exact Hs].
Qed.


(* ---- tasks *)
Lemma Xk_new_task k : Xk (fun w => snd (new_task k w)).
Proof.
  intros w. unfold new_task. cbn [snd]. eapply kx_trans; [|apply Xk_call_soon; reflexivity].
  constructor; try reflexivity; [auto|auto|auto|nosess|nosess].
Qed.
Lemma Xk_finish_task t : Xk (finish_task t).
Proof. intros w. unfold finish_task. destruct (get_task t w); [apply Xk_put_task|apply kx_refl]. Qed.
Lemma Xk_task_sleep t k d pc i : Xk (task_sleep t k d pc i).
Proof.
  intros w. unfold task_sleep. destruct (d =? 0); [eapply kx_trans; [apply Xk_put_task|apply Xk_call_soon; reflexivity]|].
  destruct (call_later d (HSleepDone t) w) as [tid w1] eqn:Ec.
  assert (w1 = snd (call_later d (HSleepDone t) w)) as -> by (rewrite Ec; reflexivity).
  eapply kx_trans; [apply (Xk_call_later d (HSleepDone t) w eq_refl)|apply Xk_put_task].
Qed.
Lemma Xk_cancel_task t : Xk (cancel_task t).
Proof.
  intros w. unfold cancel_task. destruct (get_task t w) as [tk|]; [|apply kx_refl]. destruct (tk_done tk); [apply kx_refl|].
  destruct (tk_sleep tk); [|apply Xk_put_task].
  eapply kx_trans; [apply Xk_put_task|]. eapply kx_trans; [apply Xk_cancel|apply Xk_call_soon; reflexivity].
Qed.
Lemma Xk_sleep_done t : Xk (sleep_done t).
Proof.
  intros w. unfold sleep_done. destruct (get_task t w) as [tk|]; [|apply kx_refl]. destruct (tk_done tk); [apply kx_refl|].
  eapply kx_trans; [apply Xk_put_task|apply Xk_call_soon; reflexivity].
Qed.

(* ------------------------------------------------------------------ the invariant together with the ownership invariants *)
Definition GGK (X : list (N * handle)) (w : world) : Prop := GG X w /\ Kinv w.
Definition kkK (f : world -> world) : Prop := forall X w, GGK X w -> GGK X (f w).

Lemma kkK_of f : kk f -> Xk f -> kkK f.
Proof. intros H1 H2 X w [Hg Hk]. split; [apply H1; exact Hg|eapply kx_K; [apply H2|exact Hk]]. Qed.
Lemma GGK_same {b} X w w' : sameb b w w' -> GGK X w -> GGK X w'.
Proof. intros Hs [Hg Hk]. split; [eapply GG_same; eauto|eapply same_K; eauto]. Qed.
Lemma kkK_neutral f : neutral f -> kkK f.
Proof. intros H X w Hg. eapply GGK_same; [apply H|exact Hg]. Qed.
Lemma kkK_fold {Y} (f : world -> Y -> world) l : (forall x, kkK (fun w => f w x)) -> kkK (fun w => fold_left f l w).
Proof. intros H. induction l as [|x l IH]; intros X w Hg; cbn [fold_left]; [exact Hg|]. apply IH. apply (H x). exact Hg. Qed.

Lemma kkK_call_later d h : soon_ok h = true -> kkK (fun w => snd (call_later d h w)).
Proof.
  intros Hs. unfold soon_ok in Hs. apply andb_true_iff in Hs. destruct Hs as [Hn Hc].
  apply kkK_of; [apply kk_call_later; exact Hn|intros w; apply Xk_call_later; exact Hc].
Qed.
Lemma kkK_store_stop st a k : kkK (store_stop st a k). Proof. apply kkK_of; [apply kk_store_stop|apply Xk_store_stop]. Qed.
Lemma kkK_store_stop_all_for_address st a : kkK (store_stop_all_for_address st a).
Proof. apply kkK_of; [apply kk_store_stop_all_for_address|apply Xk_store_stop_all_for_address]. Qed.
Lemma kkK_store_stop_all st : kkK (store_stop_all st). Proof. apply kkK_of; [apply kk_store_stop_all|apply Xk_store_stop_all]. Qed.
Lemma kkK_store_refresh X st ttl a k w : GGK X w -> has_store st w = true -> GGK X (fst (store_refresh st ttl a k w)).
Proof. intros [Hg Hk] Hh. split; [apply kk_store_refresh; assumption|eapply kx_K; [apply Xk_store_refresh|exact Hk]]. Qed.
Lemma kkK_new_task k : kkK (fun w => snd (new_task k w)). Proof. apply kkK_of; [apply kk_new_task|apply Xk_new_task]. Qed.
Lemma kkK_finish_task t : kkK (finish_task t). Proof. apply kkK_of; [apply kk_finish_task|apply Xk_finish_task]. Qed.
Lemma kkK_task_sleep t k d pc i : kkK (task_sleep t k d pc i). Proof. apply kkK_of; [apply kk_task_sleep|apply Xk_task_sleep]. Qed.
Lemma kkK_cancel_task t : kkK (cancel_task t). Proof. apply kkK_of; [apply kk_cancel_task|apply Xk_cancel_task]. Qed.
Lemma kkK_sleep_done t : kkK (sleep_done t). Proof. apply kkK_of; [apply kk_sleep_done|apply Xk_sleep_done]. Qed.

(* ------------------------------------------------------------------ queue_send keeps the invariant *)
Lemma queue_send_new_eq e d w : t_collect (cfg w) <> 0 -> open_collector w d = None ->
  queue_send e d w
  = set_queues (aset dest_eqb d (next_id w) (queues w))
      (set_collectors (collectors w ++ [(next_id w, mkColl d [e] false)])
         (snd (call_later (t_collect (cfg w)) (HCollector (next_id w)) (ghost (GQueue e d) w)))).
Proof.
  intros Hc Ho. unfold queue_send, queue_core. cbn [cfg ghost set_glog queues collectors].
  destruct (N.eqb_spec (t_collect (cfg w)) 0) as [E|_]; [contradiction|].
  unfold open_collector in Ho. rewrite Ho. reflexivity.
Qed.

Lemma open_collector_some w d c co : open_collector w d = Some (c, co) ->
  aget dest_eqb d (queues w) = Some c /\ aget N.eqb c (collectors w) = Some co /\ co_done co = false.
Proof.
  unfold open_collector. destruct (aget dest_eqb d (queues w)) as [c0|]; [|discriminate].
  destruct (aget N.eqb c0 (collectors w)) as [co0|] eqn:E; [|discriminate]. destruct (co_done co0) eqn:Ed; [discriminate|].
  intros H; injection H as <- <-. auto.
Qed.

Lemma K_queue_send X e d w : GP X w -> Kinv w -> Kinv (queue_send e d w).
Proof.
  intros Hg [K1 K2 K3 K4 K5 K6 K7 K8].
  destruct (N.eqb_spec (t_collect (cfg w)) 0) as [Hz|Hnz].
  - (* zero timeout: handed over at once; there are no collectors at all *)
    rewrite (queue_send_zero e d w Hz). eapply same_K; [apply n_send_sd|].
    assert (Hnone : forall d', w_pending w d' = []).
    { intros d'. unfold w_pending, open_collector. rewrite (K7 Hz). destruct (aget dest_eqb d' (queues w)); reflexivity. }
    constructor; cbn [ghost set_glog glog collectors queues ready cfg sess]; try assumption.
    + intros d'. change (w_pending (ghost (GFlush d [e]) (ghost (GQueue e d) w)) d') with (w_pending w d').
      cbn [log_flushed log_queued snd f_contrib q_contrib]. specialize (K1 d'). rewrite Hnone in *. rewrite !app_nil_r in *.
      rewrite K1. reflexivity.
  - destruct (open_collector w d) as [[c co]|] eqn:Eo.
    + (* appended to the open collector of d *)
      rewrite (queue_send_append e d w c co Hnz Eo). destruct (open_collector_some _ _ _ _ Eo) as (Q1 & Q2 & Q3).
      set (co' := mkColl (co_dest co) (co_data co ++ [e]) false).
      assert (Hd : co_dest co = d) by (eapply K3; eauto).
      constructor; cbn [set_collectors ghost set_glog glog collectors queues ready cfg sess]; try assumption.
      * intros d'. cbn [log_flushed log_queued snd f_contrib q_contrib]. rewrite app_nil_r.
        unfold w_pending, open_collector. cbn [set_collectors ghost set_glog collectors queues].
        destruct (eqb_dec dest_eqb dest_eqb_eq d d') as [<-|Hne].
        -- rewrite (proj2 (dest_eqb_eq d d) eq_refl), Q1, (aget_aset_same N.eqb N.eqb_eq). cbn [co' co_done co_data].
           specialize (K1 d). unfold w_pending in K1. rewrite Eo in K1. rewrite app_assoc, K1. reflexivity.
        -- rewrite (eqb_neq dest_eqb dest_eqb_eq d d' Hne), app_nil_r.
           specialize (K1 d'). unfold w_pending, open_collector in K1.
           destruct (aget dest_eqb d' (queues w)) as [c'|] eqn:Eq'; [|exact K1].
           destruct (N.eqb_spec c' c) as [->|Hcc].
           ++ exfalso. apply Hne. rewrite <- Hd. eapply K3; eauto.
           ++ rewrite (aget_aset_other N.eqb N.eqb_eq) by exact Hcc. exact K1.
      * intros c1 co1 H1 H2. destruct (N.eqb_spec c1 c) as [->|Hcc].
        -- rewrite (aget_aset_same N.eqb N.eqb_eq) in H1. injection H1 as <-. cbn [co' co_dest]. apply K2; assumption.
        -- rewrite (aget_aset_other N.eqb N.eqb_eq) in H1 by exact Hcc. apply K2; assumption.
      * intros d1 c1 co1 H1 H2. destruct (N.eqb_spec c1 c) as [->|Hcc].
        -- rewrite (aget_aset_same N.eqb N.eqb_eq) in H2. injection H2 as <-. cbn [co' co_dest]. eapply K3; eauto.
        -- rewrite (aget_aset_other N.eqb N.eqb_eq) in H2 by exact Hcc. eapply K3; eauto.
      * intros d1 c1 H1. destruct (N.eqb_spec c1 c) as [->|Hcc].
        -- exists co'. apply (aget_aset_same N.eqb N.eqb_eq).
        -- rewrite (aget_aset_other N.eqb N.eqb_eq) by exact Hcc. eapply K4; eauto.
      * intros tid c1 Hin. destruct (K5 tid c1 Hin) as [-> Hop]. split; [reflexivity|].
        unfold open_coll in *. cbn [set_collectors ghost set_glog collectors]. destruct (N.eqb_spec c1 c) as [->|Hcc].
        -- rewrite (aget_aset_same N.eqb N.eqb_eq). reflexivity.
        -- rewrite (aget_aset_other N.eqb N.eqb_eq) by exact Hcc. exact Hop.
      * intros Hz. contradiction.
    + (* a new collector *)
      rewrite (queue_send_new_eq e d w Hnz Eo). set (n := next_id w).
      assert (Hfresh : aget N.eqb n (collectors w) = None).
      { destruct (aget N.eqb n (collectors w)) as [co0|] eqn:E0; [|reflexivity]. exfalso.
        assert (Hin : In (n, co0) (collectors w)).
        { clear - E0. induction (collectors w) as [|[k v] l IH]; [discriminate|]. cbn [aget] in E0.
          destruct (N.eqb_spec n k) as [->|Hne]; [injection E0 as ->; left; reflexivity|right; apply IH; exact E0]. }
        pose proof (g_collfresh _ _ Hg _ _ Hin). unfold n in *. lia. }
      assert (Hnoopen : forall c co, aget N.eqb c (collectors w) = Some co -> co_done co = false -> co_dest co <> d).
      { intros c co H1 H2 Hd. pose proof (K2 c co H1 H2) as Hq. rewrite Hd in Hq.
        unfold open_collector in Eo. rewrite Hq, H1, H2 in Eo. discriminate. }
      constructor; cbn [set_queues set_collectors call_later snd set_next_id set_timers ghost set_glog glog collectors queues ready cfg sess];
        try assumption.
      * intros d'. cbn [log_flushed log_queued snd f_contrib q_contrib]. rewrite app_nil_r.
        unfold w_pending, open_collector.
        cbn [set_queues set_collectors call_later snd set_next_id set_timers ghost set_glog collectors queues].
        destruct (eqb_dec dest_eqb dest_eqb_eq d d') as [<-|Hne].
        -- rewrite (proj2 (dest_eqb_eq d d) eq_refl), (aget_aset_same dest_eqb dest_eqb_eq).
           rewrite (aget_app_notin n (collectors w) _ Hfresh). cbn [fst snd]. rewrite N.eqb_refl. cbn [co_done co_data].
           specialize (K1 d). unfold w_pending in K1. rewrite Eo, app_nil_r in K1. rewrite K1. reflexivity.
        -- rewrite (eqb_neq dest_eqb dest_eqb_eq d d' Hne), app_nil_r.
           rewrite (aget_aset_other dest_eqb dest_eqb_eq) by (intros E; apply Hne; symmetry; exact E).
           specialize (K1 d'). unfold w_pending, open_collector in K1.
           destruct (aget dest_eqb d' (queues w)) as [c'|] eqn:Eq'; [|exact K1].
           destruct (K4 d' c' Eq') as (co1 & E1). rewrite (aget_app_in c' (collectors w) _ co1 E1). rewrite E1 in K1. exact K1.
      * intros c1 co1 H1 H2. destruct (aget N.eqb c1 (collectors w)) as [co2|] eqn:E2.
        -- rewrite (aget_app_in c1 (collectors w) _ co2 E2) in H1. injection H1 as <-.
           rewrite (aget_aset_other dest_eqb dest_eqb_eq) by (apply (Hnoopen c1 co2 E2 H2)). apply K2; assumption.
        -- rewrite (aget_app_notin c1 (collectors w) _ E2) in H1. cbn [fst snd] in H1.
           destruct (N.eqb_spec c1 n) as [->|_]; [|discriminate]. injection H1 as <-. cbn [co_dest].
           apply (aget_aset_same dest_eqb dest_eqb_eq).
      * intros d1 c1 co1 H1 H2. destruct (eqb_dec dest_eqb dest_eqb_eq d1 d) as [->|Hne].
        -- rewrite (aget_aset_same dest_eqb dest_eqb_eq) in H1. injection H1 as <-.
           rewrite (aget_app_notin n (collectors w) _ Hfresh) in H2. cbn [fst snd] in H2. rewrite N.eqb_refl in H2. injection H2 as <-. reflexivity.
        -- rewrite (aget_aset_other dest_eqb dest_eqb_eq) in H1 by exact Hne.
           destruct (K4 d1 c1 H1) as (co2 & E2). rewrite (aget_app_in c1 (collectors w) _ co2 E2) in H2. injection H2 as <-. eapply K3; eauto.
      * intros d1 c1 H1. destruct (eqb_dec dest_eqb dest_eqb_eq d1 d) as [->|Hne].
        -- rewrite (aget_aset_same dest_eqb dest_eqb_eq) in H1. injection H1 as <-.
           exists (mkColl d [e] false). rewrite (aget_app_notin n (collectors w) _ Hfresh). cbn [fst snd]. rewrite N.eqb_refl. reflexivity.
        -- rewrite (aget_aset_other dest_eqb dest_eqb_eq) in H1 by exact Hne. destruct (K4 d1 c1 H1) as (co2 & E2).
           exists co2. apply (aget_app_in c1 (collectors w) _ co2 E2).
      * intros tid c1 Hin.
        assert (Hin' : In (tid, HCollector c1) (tided (snd (call_later (t_collect (cfg w)) (HCollector n) (ghost (GQueue e d) w))))) by exact Hin.
        apply in_tided_call_later in Hin'. unfold open_coll.
        cbn [set_queues set_collectors call_later snd set_next_id set_timers ghost set_glog collectors].
        destruct Hin' as [Hin'|Hin'].
        -- injection Hin' as Ht Hc. subst tid c1. split; [reflexivity|].
           rewrite (aget_app_notin n (collectors w) _ Hfresh). cbn [fst snd]. rewrite N.eqb_refl. reflexivity.
        -- destruct (K5 tid c1 Hin') as [-> Hop]. split; [reflexivity|]. unfold open_coll in Hop.
           destruct (aget N.eqb c1 (collectors w)) as [co2|] eqn:E2; [|discriminate].
           rewrite (aget_app_in c1 (collectors w) _ co2 E2). exact Hop.
      * intros Hz. contradiction.
Qed.

Lemma kkK_queue_send e d : kkK (queue_send e d).
Proof. intros X w [Hg Hk]. split; [apply kk_queue_send; exact Hg|eapply K_queue_send; [exact (proj1 Hg)|exact Hk]]. Qed.

(* ------------------------------------------------------------------ composite functions *)
(* the generic lifting of Proofs/Lift.v with the primitives above: every protocol function, and every callback that is
   neither an expiry nor a collector timeout, keeps ownership and history invariants together *)
Theorem kkK_exec h : soon_ok h = true -> kkK (exec h).
Proof.
  exact (Lift.kk_exec GGK GGK_same kkK_call_later kkK_store_stop kkK_store_stop_all_for_address kkK_store_stop_all kkK_store_refresh
           kkK_new_task kkK_finish_task kkK_task_sleep kkK_cancel_task kkK_sleep_done kkK_queue_send h).
Qed.

(* ------------------------------------------------------------------ the loop *)
Lemma tided_pop w otid h r : ready w = (otid, h) :: r -> forall p, In p (tided (set_ready r w)) -> In p (tided w).
Proof.
  intros Hr p Hp. unfold tided, tmr, rdy in *. cbn [ready set_ready timers] in Hp. rewrite Hr.
  apply in_app_iff in Hp. apply in_or_app. destruct Hp as [Hp|Hp]; [left; exact Hp|right].
  cbn [flat_map]. apply in_or_app. right. exact Hp.
Qed.

Lemma Kinv_pop w otid h r : Kinv w -> ready w = (otid, h) :: r -> Kinv (set_ready r w).
Proof.
  intros [K1 K2 K3 K4 K5 K6 K7 K8] Hr. constructor; try assumption.
  - intros tid c Hin. apply K5. eapply tided_pop; eauto.
  - intros h0 Hin. apply K6. rewrite Hr. right. exact Hin.
Qed.

(* the timeout of a collector: it is open (its handle ran at most once), it is the registered collector of its
   destination, and everything it collected is handed over *)
Lemma K_collector_fire w tid c r : G w -> Kinv w -> ready w = (Some tid, HCollector c) :: r ->
  Kinv (collector_timeout c (set_ready r w)).
Proof.
  intros Hg Hk Hr.
  assert (Hpend : In (tid, HCollector c) (tided w)).
  { unfold tided, rdy. rewrite Hr. apply in_or_app. right. cbn [flat_map fst snd app]. left. reflexivity. }
  destruct (k_once _ Hk tid c Hpend) as [-> Hopen].
  pose proof (pop_GP w c (HCollector c) r Hg Hr) as Hp.
  pose proof (Kinv_pop w _ _ r Hk Hr) as Hk1. set (w1 := set_ready r w) in *.
  assert (Hgone : forall h, ~ In (c, h) (tided w1)).
  { intros h Hin. pose proof (g_nodup _ _ Hp) as Hnd. cbn [app map fst] in Hnd. inversion Hnd as [|? ? Hni _]; subst.
    apply Hni. apply (in_map fst) in Hin. exact Hin. }
  unfold open_coll in Hopen. change (collectors w) with (collectors w1) in Hopen.
  unfold collector_timeout. destruct (aget N.eqb c (collectors w1)) as [co|] eqn:Eco; [|discriminate].
  apply negb_true_iff in Hopen.
  eapply same_K; [apply n_send_sd|].
  destruct Hk1 as [K1 K2 K3 K4 K5 K6 K7 K8].
  pose proof (K2 c co Eco Hopen) as Hreg. set (d0 := co_dest co) in *.
  constructor; cbn [set_collectors ghost set_glog glog collectors queues ready cfg sess]; try assumption.
  - intros d. cbn [log_flushed log_queued snd f_contrib q_contrib]. rewrite app_nil_r.
    unfold w_pending, open_collector. cbn [set_collectors ghost set_glog collectors queues].
    destruct (eqb_dec dest_eqb dest_eqb_eq d0 d) as [<-|Hne].
    + rewrite (proj2 (dest_eqb_eq d0 d0) eq_refl), Hreg, (aget_aset_same N.eqb N.eqb_eq). cbn [co_done]. rewrite app_nil_r.
      specialize (K1 d0). unfold w_pending, open_collector in K1. rewrite Hreg, Eco, Hopen in K1. exact K1.
    + rewrite (eqb_neq dest_eqb dest_eqb_eq d0 d Hne), app_nil_r.
      specialize (K1 d). unfold w_pending, open_collector in K1.
      destruct (aget dest_eqb d (queues w1)) as [c'|] eqn:Eq'; [|exact K1].
      destruct (N.eqb_spec c' c) as [->|Hcc].
      * exfalso. apply Hne. eapply K3; eauto.
      * rewrite (aget_aset_other N.eqb N.eqb_eq) by exact Hcc. exact K1.
  - intros c1 co1 H1 H2. destruct (N.eqb_spec c1 c) as [->|Hcc].
    + rewrite (aget_aset_same N.eqb N.eqb_eq) in H1. injection H1 as <-. discriminate.
    + rewrite (aget_aset_other N.eqb N.eqb_eq) in H1 by exact Hcc. apply K2; assumption.
  - intros d1 c1 co1 H1 H2. destruct (N.eqb_spec c1 c) as [->|Hcc].
    + rewrite (aget_aset_same N.eqb N.eqb_eq) in H2. injection H2 as <-. cbn [co_dest]. eapply K3; eauto.
    + rewrite (aget_aset_other N.eqb N.eqb_eq) in H2 by exact Hcc. eapply K3; eauto.
  - intros d1 c1 H1. destruct (N.eqb_spec c1 c) as [->|Hcc].
    + eexists. apply (aget_aset_same N.eqb N.eqb_eq).
    + rewrite (aget_aset_other N.eqb N.eqb_eq) by exact Hcc. eapply K4; eauto.
  - intros tid c1 Hin. destruct (K5 tid c1 Hin) as [-> Hop]. split; [reflexivity|].
    unfold open_coll in *. cbn [set_collectors ghost set_glog collectors]. destruct (N.eqb_spec c1 c) as [->|Hcc].
    + exfalso. eapply Hgone; eauto.
    + rewrite (aget_aset_other N.eqb N.eqb_eq) by exact Hcc. exact Hop.
  - intros Hz. rewrite (K7 Hz) in Eco. discriminate.
Qed.

Theorem GGK_lstep1 w : GGK [] w -> GGK [] (lstep1 w).
Proof.
  intros [Hgg Hk]. split; [apply GG_lstep1; exact Hgg|].
  destruct Hgg as [Hg H2]. unfold lstep1. destruct (ready w) as [|[[tid|] h] r] eqn:Hr; [exact Hk| |].
  - cbv zeta. destruct (is_cancelled tid (set_ready r w)) eqn:Ec; [eapply Kinv_pop; eauto|].
    destruct (soon_ok h) eqn:Es.
    + refine (proj2 (kkK_exec h Es [(tid, h)] (set_ready r w) _)). split; [split; [apply pop_GP; assumption|eapply G2_pop; eauto]|eapply Kinv_pop; eauto].
    + destruct h; try discriminate; cbn [exec].
      * eapply kx_K; [apply Xk_store_expired|eapply Kinv_pop; eauto].
      * eapply K_collector_fire; eauto.
  - cbv zeta. assert (Es : soon_ok h = true).
    { unfold soon_ok. apply andb_true_iff. split.
      - destruct H2 as [_ Hne]. unfold ne_ready in Hne. rewrite Hr in Hne. cbn [forallb fst snd] in Hne. apply andb_true_iff in Hne. tauto.
      - apply (k_soon _ Hk). rewrite Hr. left. reflexivity. }
    refine (proj2 (kkK_exec h Es [] (set_ready r w) _)). split; [split; [|eapply G2_pop; eauto]|eapply Kinv_pop; eauto].
    apply (same_G_weak _ w); [|exact Hg]. unfold tided, tmr, rdy. cbn [ready set_ready timers]. rewrite Hr. reflexivity.
Qed.

Lemma GGK_run_ready : forall n w, GGK [] w -> GGK [] (run_ready n w).
Proof. induction n as [|n IH]; intros w Hg; [exact Hg|]. rewrite run_ready_step. apply IH, GGK_lstep1, Hg. Qed.


Lemma K_arrivals : forall hs w, all_notexp hs -> Kinv w -> Kinv (fold_left (fun acc h => call_soon h acc) hs w).
Proof.
  induction hs as [|h hs IH]; intros w Ha Hk; cbn [fold_left]; [exact Hk|]. inversion Ha as [|? ? Hh Ha']; subst.
  apply IH; [exact Ha'|]. eapply kx_K; [apply Xk_call_soon|exact Hk].
  unfold soon_ok in Hh. apply andb_true_iff in Hh. tauto.
Qed.

Lemma K_iter_pre arrivals rv w : all_notexp arrivals -> Kinv w -> Kinv (iter_pre arrivals rv w).
Proof.
  intros Ha Hk. pose proof (K_arrivals arrivals w Ha Hk) as Hk1.
  destruct (iter_pre_sub arrivals rv w) as (Hsub & _). cbv zeta in *.
  eapply kx_K; [|exact Hk1]. unfold iter_pre. cbv zeta.
  set (w1 := fold_left (fun acc h => call_soon h acc) arrivals w) in *.
  constructor; try reflexivity.
  - intros tid c Hin. apply Hsub. exact Hin.
  - intros when tid c Hin. cbn [timers set_timers] in Hin. apply filter_In in Hin. apply Hin.
  - intros h Hin. cbn [ready set_timers set_ready] in Hin. apply in_app_iff in Hin. destruct Hin as [Hin|Hin]; [left; exact Hin|].
    apply in_map_iff in Hin. destruct Hin as (t & E & _). discriminate.
  - exists []. rewrite app_nil_r. split; reflexivity.
  - exists []. rewrite !app_nil_r. split; reflexivity.
Qed.

Theorem GGK_iteration arrivals rv w : all_notexp arrivals -> GGK [] w -> GGK [] (iteration arrivals rv w).
Proof.
  intros Ha [Hg Hk]. rewrite iteration_pre. apply GGK_run_ready. split; [apply GG_iter_pre; assumption|apply K_iter_pre; assumption].
Qed.

Lemma K_set_now t w : Kinv w -> Kinv (set_now t w).
Proof. intros [K1 K2 K3 K4 K5 K6 K7 K8 K9]. constructor; assumption. Qed.

Theorem GGK_run : forall fuel events t_end rv w, Forall (fun e => soon_ok (snd e) = true) events -> GGK [] w ->
  GGK [] (fst (run fuel events t_end rv w)).
Proof.
  induction fuel as [|f IH]; intros events t_end rv w Hev Hg; cbn [run fst]; [exact Hg|].
  destruct (split_arrived (now w) events) as [arrived later] eqn:Es.
  destruct (split_arrived_notexp _ _ _ _ Hev Es) as [Ha Hl].
  set (dn := match next_timer w with Some t => t <=? now w | None => false end).
  destruct (ready w) as [|x r] eqn:Er; [destruct arrived as [|a ar]; [destruct dn|]|];
    try (apply IH; [exact Hl|]; apply GGK_iteration; [exact Ha|exact Hg]).
  destruct (omin _ _) as [t|]; [|exact Hg]. destruct (t_end <? t); [exact Hg|].
  apply IH; [exact Hev|]. destruct Hg as [[A [B C]] D]. split; [split; [apply GP_set_now; exact A|split; [exact B|exact C]]|apply K_set_now; exact D].
Qed.

Lemma K_empty now0 c ins dr :
  Kinv (mkWorld now0 [] [] [] 1 c sess_init false None [] [] [] [] None false [] ins [] [] [] dr [] []).
Proof. constructor; try reflexivity; try (intros; discriminate); intros; contradiction. Qed.

(* the history invariant holds in every reachable state of every scenario *)
Theorem GGK_reachable s sc : d_scenario s = Some sc -> GGK [] (fst (run_scenario sc)).
Proof.
  intros Hd. unfold run_scenario.
  destruct s as [| |l]; try discriminate. cbn [d_scenario] in Hd.
  destruct l as [|c [|ins [|dr [|ev [|[te| |] [|rv [|[fu| |] [|]]]]]]]]; try discriminate.
  destruct (d_timings c); cbn [obind] in Hd; [|discriminate].
  destruct (dlist d_inst ins) as [ins'|] eqn:Ei; cbn [obind] in Hd; [|discriminate].
  destruct (dlist dN dr); cbn [obind] in Hd; [|discriminate].
  destruct (dlist d_event_in ev) as [evs|] eqn:Ee; cbn [obind] in Hd; [|discriminate].
  destruct (dbool rv); cbn [obind] in Hd; [|discriminate]. injection Hd as <-. cbn [sc_events sc_end sc_rev sc_fuel].
  apply GGK_run.
  - unfold dlist in Ee. destruct (dL ev); cbn [obind] in Ee; [|discriminate]. eapply dmap_event_notexp; eauto.
  - unfold init_world. cbn [sc_cfg sc_insts sc_draws]. split; [|apply K_empty]. apply GG_empty.
    unfold dlist in Ei. destruct (dL ins); cbn [obind] in Ei; [|discriminate]. eapply dmap_inst_fresh; eauto.
Qed.

(* ------------------------------------------------------------------ what the invariant says, for users *)
(* C15, on the full stack, for every scenario and schedule: per destination, handed over ++ pending = queued *)
Theorem reachable_conservation s sc : d_scenario s = Some sc ->
  let w := fst (run_scenario sc) in
  forall d, log_flushed d (glog w) ++ w_pending w d = log_queued d (glog w).
Proof. intros Hd w d. exact (k_cons _ (proj2 (GGK_reachable s sc Hd)) d). Qed.

Corollary reachable_exactly_once_in_order s sc : d_scenario s = Some sc ->
  let w := fst (run_scenario sc) in
  forall d, open_collector w d = None -> log_flushed d (glog w) = log_queued d (glog w).
Proof.
  intros Hd w d Ho. pose proof (reachable_conservation s sc Hd d) as H. cbv zeta in H. fold w in H.
  unfold w_pending in H. rewrite Ho, app_nil_r in H. exact H.
Qed.

(* what a hand-over is: the collector's entries, logged, closed, and passed to send_sd in the same step; send_sd logs the
   (flag, id) it was given *)
Lemma send_sd_log e es d w :
  exists f i, glog (send_sd (e :: es) d w) = (now w, GSend (e :: es) d f i) :: glog w
              /\ fst (assign_outgoing (sess w) d) = (f, i).
Proof.
  unfold send_sd. destruct (assign_outgoing (sess w) d) as [[f i] s']. exists f, i.
  destruct (sd_datagram _ _ _); split; reflexivity.
Qed.

(* C08, on the full stack, for every scenario and schedule: the (flag, id) pairs given to the SD transmissions, in
   order, are those of the specification's per-destination counters *)
Lemma fi_eqb_eq a b : fi_eqb a b = true -> a = b.
Proof.
  destruct a as [f1 i1], b as [f2 i2]. unfold fi_eqb. cbn [fst snd]. intros H. apply andb_true_iff in H. destruct H as [H1 H2].
  apply Bool.eqb_prop in H1. apply N.eqb_eq in H2. congruence.
Qed.
Lemma run_assign_out : forall ds inc o, run_assign (mkSess inc o) ds = run_assign (mkSess [] o) ds.
Proof.
  induction ds as [|d ds IH]; intros inc o; [reflexivity|]. cbn [run_assign]. unfold assign_outgoing, out_get. cbn [outgoing incoming].
  destruct (aget dest_eqb d o) as [[f i]|]; cbn; f_equal; rewrite (IH inc); reflexivity.
Qed.
Lemma osteps_run : forall l o o', osteps o l = Some o' -> map snd l = run_assign (mkSess [] o) (map fst l).
Proof.
  induction l as [|[d v] l IH]; intros o o' H; [reflexivity|]. cbn [osteps] in H. cbn [map fst snd run_assign].
  destruct (assign_outgoing (mkSess [] o) d) as [v' s'] eqn:Ea. destruct (fi_eqb v v') eqn:Ef; [|discriminate].
  apply fi_eqb_eq in Ef. subst v'. f_equal. rewrite (IH _ _ H). destruct s' as [inc' o2]. cbn [outgoing]. symmetry. apply run_assign_out.
Qed.

Theorem reachable_session_ids s sc : d_scenario s = Some sc ->
  let w := fst (run_scenario sc) in
  map snd (slog (glog w)) = C08Spec.spec_assign [] (map fst (slog (glog w))).
Proof.
  intros Hd w. pose proof (k_sess _ (proj2 (GGK_reachable s sc Hd))) as H. fold w in H.
  rewrite (osteps_run _ _ _ H). apply assign_cycle.
Qed.

(* ------------------------------------------------------------------ the bytes on the wire *)
(* the transmissions in the observable trace are exactly the logged transmissions, encoded: in every reachable state *)
Theorem reachable_wire s sc : d_scenario s = Some sc ->
  let w := fst (run_scenario sc) in wire (out w) = gwire (glog w).
Proof. intros Hd w. exact (k_wire _ (proj2 (GGK_reachable s sc Hd))). Qed.
