(* C02 main theorem: encode (= build o assign) then parse and resolve gives back the message. *)
From PS Require Import Lib.Base Lib.Struct Generated.Consts Model.SdTypes Model.SdCodec.
From PS Require Import Proofs.StructFacts Proofs.EqFacts Proofs.SdAssignProofs Proofs.SdEntryProofs
  Proofs.SdOptionProofs Proofs.SdHeaderProofs.
From Coq Require Import Lia ZArith ZifyN ZifyBool ZifyNat.

(* a resolved message inside the property's domain *)
Definition wf_rentry (e : sdentry) : Prop :=
  resolved e /\ memN (e_type e) entry_type_values = true
  /\ (sub_type (e_type e) = true -> N.land (e_val e) 4293918720 = 0)
  /\ Forall wf_opt (e_opts1 e) /\ Forall wf_opt (e_opts2 e).
Definition wf_msg (m : sdheader) : Prop :=
  Forall wf_opt (sd_options m) /\ Forall wf_rentry (sd_entries m) /\ sd_flags_unknown m < 64.

Lemma assign_option_wf run hdr oi no hdr' :
  Forall wf_opt hdr -> Forall wf_opt run -> assign_option run hdr = Ok ((oi, no), hdr') ->
  Forall wf_opt hdr' /\ oi + no <= len hdr'.
Proof.
  intros Hh Hr H. pose proof (assign_option_in_range _ _ _ _ _ H) as Hrange.
  unfold assign_option in H. destruct run as [|x run'] eqn:Er.
  - injection H as <- <- <-. split; [exact Hh|lia].
  - rewrite <- Er in *. destruct (find_run hdr run) as [[k|]|] eqn:Ef; cbn [bind] in H; [| |discriminate].
    + injection H as <- <- <-. split; [exact Hh|]. destruct Hrange as [Hg|Hz]; [exact Hg|].
      subst run. rewrite len_cons in Hz. lia.
    + injection H as <- <- <-. split; [apply Forall_app; auto|]. rewrite len_app. lia.
Qed.

Lemma assign_entry_wf e hdr e' hdr' :
  Forall wf_opt hdr -> wf_rentry e -> assign_entry e hdr = Ok (e', hdr') ->
  Forall wf_opt hdr' /\ (exists ext, hdr' = hdr ++ ext) /\ forall n, len hdr' <= n -> wf_entry e' n.
Proof.
  intros Hh (Hres & Hty & Hval & Ho1 & Ho2) H.
  pose proof (assign_entry_spec e hdr e' hdr' Hres H) as [Hext _].
  unfold assign_entry in H. unfold resolved in Hres. rewrite Hres in H.
  destruct (assign_option (e_opts1 e) hdr) as [[[oi1 no1] h1]|] eqn:E1; cbn [bind] in H; [|discriminate].
  destruct (assign_option (e_opts2 e) h1) as [[[oi2 no2] h2]|] eqn:E2; cbn [bind] in H; [|discriminate].
  injection H as <- <-.
  pose proof (assign_option_wf _ _ _ _ _ Hh Ho1 E1) as [Hh1 R1].
  pose proof (assign_option_wf _ _ _ _ _ Hh1 Ho2 E2) as [Hh2 R2].
  apply assign_option_spec in E2. destruct E2 as ((x2 & Hx2) & _ & _).
  split; [exact Hh2|]. split; [exact Hext|]. intros n Hn.
  exists oi1, oi2, no1, no2. cbn. repeat split; try assumption; try lia.
  subst h2. rewrite len_app in Hn. lia.
Qed.

Lemma assign_entries_wf : forall es hdr es' hdr',
  Forall wf_opt hdr -> Forall wf_rentry es -> assign_entries es hdr = Ok (es', hdr') ->
  Forall wf_opt hdr' /\ (exists ext, hdr' = hdr ++ ext) /\ forall n, len hdr' <= n -> Forall (fun e => wf_entry e n) es'.
Proof.
  induction es as [|e es IH]; intros hdr es' hdr' Hh Hes H; cbn [assign_entries] in H.
  - injection H as <- <-. split; [exact Hh|]. split; [exists []; rewrite app_nil_r; reflexivity|]. intros; constructor.
  - inversion Hes as [|? ? He Hes']; subst.
    destruct (assign_entry e hdr) as [[e1 h1]|] eqn:E1; cbn [bind] in H; [|discriminate].
    destruct (assign_entries es h1) as [[r1 h2]|] eqn:E2; cbn [bind] in H; [|discriminate].
    injection H as <- <-.
    destruct (assign_entry_wf _ _ _ _ Hh He E1) as (Hh1 & (x1 & Hx1) & W1).
    destruct (IH _ _ _ Hh1 Hes' E2) as (Hh2 & (x2 & Hx2) & W2).
    split; [exact Hh2|]. split; [exists (x1 ++ x2); subst; rewrite app_assoc; reflexivity|].
    intros n Hn. constructor; [|apply W2; exact Hn]. apply W1. subst h2. rewrite len_app in Hn. lia.
Qed.

Lemma assign_sd_wf m a : wf_msg m -> assign_sd m = Ok a -> wf_sd a.
Proof.
  intros (Ho & He & Hf). unfold assign_sd.
  destruct (assign_entries (sd_entries m) (sd_options m)) as [[es opts]|] eqn:E; cbn [bind]; [|discriminate].
  intros H; injection H as <-. destruct (assign_entries_wf _ _ _ _ Ho He E) as (H1 & _ & H2).
  unfold wf_sd. cbn [sd_options sd_entries sd_flags_unknown]. split; [exact H1|]. split; [apply H2; lia|exact Hf].
Qed.

Lemma assign_entries_total : forall es hdr, exists r, assign_entries es hdr = Ok r.
Proof.
  induction es as [|e es IH]; intros hdr; cbn [assign_entries]; [eexists; reflexivity|].
  assert (He : exists r, assign_entry e hdr = Ok r).
  { unfold assign_entry. destruct (e_idx e); [eexists; reflexivity|].
    destruct (assign_option_total (e_opts1 e) hdr) as [[[oi1 no1] h1] ->]. cbn [bind].
    destruct (assign_option_total (e_opts2 e) h1) as [[[oi2 no2] h2] ->]. cbn [bind]. eexists; reflexivity. }
  destruct He as [[e1 h1] ->]. cbn [bind]. destruct (IH h1) as [[r1 h2] ->]. cbn [bind]. eexists; reflexivity.
Qed.

Lemma assign_sd_total m : exists a, assign_sd m = Ok a.
Proof.
  unfold assign_sd. destruct (assign_entries_total (sd_entries m) (sd_options m)) as [[es opts] ->].
  cbn [bind]. eexists; reflexivity.
Qed.

Theorem msg_roundtrip m a b :
  wf_msg m -> assign_sd m = Ok a -> build_sd a = Ok b ->
  parse_sd b = Ok (a, [])
  /\ resolve_sd a = Ok (mkSd (sd_entries m) (sd_options a) (sd_reboot m) (sd_unicast m) (sd_flags_unknown m)).
Proof.
  intros Hwf Ha Hb. split.
  - apply sd_roundtrip; [eapply assign_sd_wf; eassumption|exact Hb].
  - apply assign_resolve; [|exact Ha]. destruct Hwf as (_ & He & _).
    eapply Forall_impl; [|exact He]. intros e (Hr & _). exact Hr.
Qed.

(* the entry encoder refuses the unrepresentable counts (repaired defect F1) and, for Subscribe / SubscribeAck, a value
   that does not fit the 4 + 16 bits of counter and eventgroup id (repaired defect F19) *)
Lemma build_entry_counts e oi1 oi2 no1 no2 b :
  e_idx e = Some (oi1, oi2, no1, no2) -> build_entry e = Ok b ->
  no1 < 16 /\ no2 < 16 /\ oi1 < 256 /\ oi2 < 256
  /\ (sub_type (e_type e) = true -> N.land (e_val e) 4293918720 = 0).
Proof.
  intros Hi. unfold build_entry. rewrite Hi.
  destruct (N.ltb_spec no1 16) as [H1|H1]; cbn [andb negb]; [|discriminate].
  destruct (N.ltb_spec no2 16) as [H2|H2]; cbn [andb negb]; [|discriminate].
  fold (sub_type (e_type e)).
  assert (Hsub : forall X : result bytes, (if sub_type (e_type e) && negb (N.land (e_val e) 4293918720 =? 0) then Err EStruct else X) = Ok b ->
                 X = Ok b /\ (sub_type (e_type e) = true -> N.land (e_val e) 4293918720 = 0)).
  { intros X. destruct (sub_type (e_type e)); cbn [andb]; [|intros HX; split; [exact HX|discriminate]].
    destruct (N.eqb_spec (N.land (e_val e) 4293918720) 0) as [E|E]; cbn [negb]; [intros HX; split; [exact HX|intros _; exact E]|discriminate]. }
  intros H0. destruct (Hsub _ H0) as [H Hv]. clear H0 Hsub. revert H.
  unfold fmt_sdentry. cbn [pack pack1]. intros H.
  destruct (N.ltb_spec (e_type e) 256); cbn [bind] in H; [|discriminate].
  destruct (N.ltb_spec oi1 256); cbn [bind] in H; [|discriminate].
  destruct (N.ltb_spec oi2 256); cbn [bind] in H; [|discriminate]. auto.
Qed.

(* non-vacuity: a concrete message with shared and overlapping runs *)
Definition ex_o1 := OIP 2 [10; 0; 0; 1] 17 30501.
Definition ex_o2 := OConfig [([97], Some [98; 61; 99]); ([107], None)].
Definition ex_o3 := OLoadBal 1 2.
Definition ex_msg := mkSd
  [mkEntry ET_OfferService 1 2 3 3 4 [ex_o1; ex_o2] [ex_o3] None;
   mkEntry ET_Subscribe 1 2 3 3 (N.lor (N.shiftl 5 16) 7) [ex_o2; ex_o3] [ex_o1; ex_o2] None] [] true true 0.
Definition ex_check : bool :=
  match assign_sd ex_msg with
  | Ok a => match build_sd a with
            | Ok b => match parse_sd b, resolve_sd a with
                      | Ok (a', []), Ok m' =>
                          (length (sd_options a) =? 3)%nat && list_eqb sdentry_eqb (sd_entries a') (sd_entries a)
                          && list_eqb sdentry_eqb (sd_entries m') (sd_entries ex_msg)
                      | _, _ => false
                      end
            | _ => false
            end
  | _ => false
  end.
Example ex_roundtrip : ex_check = true.
Proof. vm_compute. reflexivity. Qed.
