(* The frame of the discovery-listener invariant (C05 over whole runs, Proofs/WorldFound.v): a step that leaves the found
   services, the registrations, the client-listener notifications and the registration ghost events alone.  same5 = the
   neutral relation of Proofs/WorldInv.v together with this frame; the n5_ lemmas are the n_ lemmas of WorldInv.v at
   that strength, in the shapes Proofs/Lift5.v (a copy of Lift.v over same5) uses them. *)
From Coq Require Import Lia.
From PS Require Import Lib.Base Lib.Struct Generated.Consts Model.SdTypes Model.Config Model.Session Model.Someip Model.SdCodec
  Model.StackTypes Model.Stack Model.StackIO Proofs.AListFacts Proofs.EqFacts Proofs.KeyEquiv Proofs.WorldInv Proofs.FoundLog.

Record fx (w w' : world) : Prop := mkFx {
  fx_found : found w' = found w; fx_watched : watched w' = watched w; fx_all : watch_all w' = watch_all w;
  fx_cn : cnlog (out w') = cnlog (out w); fx_ml : mlog (glog w') = mlog (glog w) }.
Lemma fx_refl w : fx w w. Proof. constructor; reflexivity. Qed.
Lemma fx_trans a b c : fx a b -> fx b c -> fx a c.
Proof. intros [A1 A2 A3 A4 A5] [B1 B2 B3 B4 B5]. constructor; congruence. Qed.
Lemma fx_fold {Y} (f : world -> Y -> world) l : (forall x w, fx w (f w x)) -> forall w, fx w (fold_left f l w).
Proof. intros H. induction l as [|x l IH]; intros w; cbn [fold_left]; [apply fx_refl|]. eapply fx_trans; [apply H|apply IH]. Qed.

(* destructs the matches of a small function body, then compares the five projections *)
Ltac fx_go :=
  repeat match goal with
         | |- fx _ (match ?x with _ => _ end) => destruct x
         | |- fx _ (if ?x then _ else _) => destruct x
         end;
  try (constructor; reflexivity).

Definition notcn_b (e : event) : bool := match e with EOffered _ _ _ | EStopped _ _ _ => false | _ => true end.
Lemma fx_emit e w : notcn_b e = true -> fx w (emit e w).
Proof. intros H. constructor; try reflexivity. cbn [emit out set_out]. rewrite cnlog_cons. destruct e; try discriminate; reflexivity. Qed.
Definition notml_b (g : gev) : bool := match g with GMulti _ => false | _ => true end.
Lemma fx_ghost g w : notml_b g = true -> fx w (ghost g w).
Proof. intros H. constructor; try reflexivity. cbn [ghost glog set_glog]. unfold mlog. cbn [filter snd]. destruct g; try discriminate; reflexivity. Qed.

Lemma fx_call_soon h w : fx w (call_soon h w). Proof. constructor; reflexivity. Qed.
Lemma fx_call_later d h w : fx w (snd (call_later d h w)). Proof. constructor; reflexivity. Qed.
Lemma fx_cancel_timer t w : fx w (cancel_timer t w). Proof. constructor; reflexivity. Qed.
Lemma fx_cancel_opt o w : fx w (cancel_opt o w). Proof. destruct o; [apply fx_cancel_timer|apply fx_refl]. Qed.
Lemma fx_put_task t tk w : fx w (put_task t tk w). Proof. constructor; reflexivity. Qed.
Lemma fx_put_inst i x w : fx w (put_inst i x w). Proof. constructor; reflexivity. Qed.
Lemma fx_put_subs i s w : fx w (put_store (SSubs i) s w).
Proof. cbn [put_store]. destruct (aget N.eqb i (insts w)); constructor; reflexivity. Qed.
Lemma fx_new_task k w : fx w (snd (new_task k w)). Proof. constructor; reflexivity. Qed.
Lemma fx_finish_task t w : fx w (finish_task t w). Proof. unfold finish_task. fx_go. Qed.
Lemma fx_task_sleep t k d pc i w : fx w (task_sleep t k d pc i w). Proof. unfold task_sleep, call_later. destruct (d =? 0); constructor; reflexivity. Qed.
Lemma fx_cancel_task t w : fx w (cancel_task t w). Proof. unfold cancel_task. fx_go. Qed.
Lemma fx_sleep_done t w : fx w (sleep_done t w). Proof. unfold sleep_done. fx_go. Qed.
Lemma fx_send_sd es d w : fx w (send_sd es d w).
Proof.
  unfold send_sd. destruct es as [|e es]; [apply fx_refl|]. destruct (assign_outgoing (sess w) d) as [[fl sid] s'].
  destruct (sd_datagram (e :: es) fl sid); constructor; reflexivity.
Qed.
Lemma fx_queue_send e d w : fx w (queue_send e d w).
Proof.
  unfold queue_send, queue_core. cbn [cfg ghost set_glog queues collectors].
  destruct (t_collect (cfg w) =? 0).
  - eapply fx_trans; [|apply fx_send_sd]. constructor; reflexivity.
  - match goal with |- fx w (match ?o with Some _ => _ | None => _ end) => destruct o as [[c co]|] end; constructor; reflexivity.
Qed.
Lemma fx_collector_timeout c w : fx w (collector_timeout c w).
Proof.
  unfold collector_timeout. destruct (aget N.eqb c (collectors w)) as [co|]; [|apply fx_refl].
  eapply fx_trans; [|apply fx_send_sd]. constructor; reflexivity.
Qed.
Lemma fx_subscribe_eventgroup g ep w : fx w (subscribe_eventgroup g ep w). Proof. unfold subscribe_eventgroup, subscribe_core, note_dup. destruct (requested _ _ _); fx_go. Qed.
Lemma fx_stop_subscribe_eventgroup g ep b w : fx w (stop_subscribe_eventgroup g ep b w). Proof. unfold stop_subscribe_eventgroup. fx_go. Qed.

(* ------------------------------------------------------------------ same5 and the n5_ lemmas *)
Definition same5 (w w' : world) : Prop := same w w' /\ fx w w'.
Definition neutral5 (f : world -> world) : Prop := forall w, same5 w (f w).
Lemma same5_refl w : same5 w w. Proof. split; [apply same_refl|apply fx_refl]. Qed.
Lemma same5_trans a b c : same5 a b -> same5 b c -> same5 a c.
Proof. intros [A1 A2] [B1 B2]. split; [eapply same_trans; eauto|eapply fx_trans; eauto]. Qed.

Definition plain5_b (e : event) : bool := plain_b e && notcn_b e.
Lemma n5_emit e : plain5_b e = true -> neutral5 (emit e).
Proof. intros H w. apply andb_true_iff in H. destruct H as [H1 H2]. split; [apply n_emit; exact H1|apply fx_emit; exact H2]. Qed.
Lemma n5_set_sub_task s : neutral5 (set_sub_task s). Proof. intros w. split; [apply n_set_sub_task|constructor; reflexivity]. Qed.
Lemma n5_set_sub_alive s : neutral5 (set_sub_alive s). Proof. intros w. split; [apply n_set_sub_alive|constructor; reflexivity]. Qed.
Lemma n5_set_disc_task s : neutral5 (set_disc_task s). Proof. intros w. split; [apply n_set_disc_task|constructor; reflexivity]. Qed.
Lemma n5_set_ann_started s : neutral5 (set_ann_started s). Proof. intros w. split; [apply n_set_ann_started|constructor; reflexivity]. Qed.
Lemma n5_set_announcing s : neutral5 (set_announcing s). Proof. intros w. split; [apply n_set_announcing|constructor; reflexivity]. Qed.
Lemma n5_call_soon h : soon_ok h = true -> neutral5 (call_soon h).
Proof. intros H w. split; [apply n_call_soon; exact H|apply fx_call_soon]. Qed.
Lemma n5_draw lo hi : neutral5 (fun w => snd (draw lo hi w)).
Proof. intros w. split; [apply n_draw|]. unfold draw. destruct (draws w); constructor; reflexivity. Qed.
Lemma n5_send_sd es d : neutral5 (send_sd es d). Proof. intros w. split; [apply n_send_sd|apply fx_send_sd]. Qed.
Lemma n5_send_subscribe ttl a gs : neutral5 (send_subscribe ttl a gs). Proof. intros w. apply n5_send_sd. Qed.
Lemma n5_set_sess_rx w a mc f i : same5 w (set_sess (snd (check_received (sess w) a mc f i)) w).
Proof. split; [apply n_set_sess_rx|constructor; reflexivity]. Qed.
Lemma n5_put_inst i ins' w ins : get_inst i w = Some ins -> in_subs ins' = in_subs ins -> same5 w (put_inst i ins' w).
Proof. intros A B. split; [eapply n_put_inst; eauto|apply fx_put_inst]. Qed.
Lemma n5_set_can_answer i b : neutral5 (set_can_answer i b).
Proof. intros w. split; [apply n_set_can_answer|]. unfold set_can_answer. destruct (get_inst i w); [apply fx_put_inst|apply fx_refl]. Qed.
Lemma n5_subscribe_eventgroup g ep : neutral5 (subscribe_eventgroup g ep).
Proof. intros w. split; [apply n_subscribe_eventgroup|apply fx_subscribe_eventgroup]. Qed.
Lemma n5_stop_subscribe_eventgroup g ep b : neutral5 (stop_subscribe_eventgroup g ep b).
Proof. intros w. split; [apply n_stop_subscribe_eventgroup|apply fx_stop_subscribe_eventgroup]. Qed.
Lemma n5_connection_lost : neutral5 connection_lost.
Proof. intros w. split; [apply n_connection_lost|constructor; reflexivity]. Qed.
