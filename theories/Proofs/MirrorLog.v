(* C14, pure part: the ideal server that applies the Subscribe / StopSubscribe entries it is sent in the order sent
   (read off the ghost history's transmissions), the requested set, and the symbolic execution of the subscriber's
   pending callbacks (deferred Subscribe / StopSubscribe transmissions and wake-ups of the refresh task). *)
From Coq Require Import Lia.
From PS Require Import Lib.Base Lib.Struct Generated.Consts Model.SdTypes Model.Config Model.Session
  Model.StackTypes Model.Stack.

(* ------------------------------------------------------------------ keys *)
Definition skey := (N * N * N * N)%type.
Definition skey_eqb (p q : skey) : bool :=
  let '(a1, a2, a3, a4) := p in let '(b1, b2, b3, b4) := q in (a1 =? b1) && (a2 =? b2) && (a3 =? b3) && (a4 =? b4).
Definition key_of_eg (g : eventgroup) : skey := (g_sid g, g_iid g, g_maj g, g_id g).
Definition key_of_entry (e : sdentry) : skey := (e_sid e, e_iid e, e_maj e, e_val e).

Lemma skey_eqb_eq p q : skey_eqb p q = true <-> p = q.
Proof.
  destruct p as [[[a1 a2] a3] a4], q as [[[b1 b2] b3] b4]. unfold skey_eqb. rewrite !andb_true_iff, !N.eqb_eq.
  split; [intros [[[-> ->] ->] ->]; reflexivity|intros H; inversion H; auto].
Qed.
Lemma skey_eqb_refl p : skey_eqb p p = true. Proof. apply skey_eqb_eq. reflexivity. Qed.
Lemma skey_eqb_sym p q : skey_eqb p q = skey_eqb q p.
Proof.
  destruct (skey_eqb p q) eqn:E.
  - apply skey_eqb_eq in E. subst. symmetry. apply skey_eqb_refl.
  - destruct (skey_eqb q p) eqn:E'; [|reflexivity]. apply skey_eqb_eq in E'. subst. rewrite skey_eqb_refl in E. discriminate.
Qed.
Lemma eg_ids_eq_key a b : eg_ids_eq a b = skey_eqb (key_of_eg a) (key_of_eg b).
Proof. reflexivity. Qed.

(* ------------------------------------------------------------------ the ideal server *)
Definition app_entry (k : skey) (cur : bool) (e : sdentry) : bool :=
  if (e_type e =? ET_Subscribe) && skey_eqb (key_of_entry e) k then negb (e_ttl e =? 0) else cur.
(* glog is newest first: does server a hold the subscription k after everything it was sent? *)
Fixpoint holds (a : addr) (k : skey) (l : list (N * gev)) : bool :=
  match l with
  | [] => false
  | (_, GSend es d _ _) :: r => if dest_eqb d (Some a) then fold_left (app_entry k) es (holds a k r) else holds a k r
  | _ :: r => holds a k r
  end.

Definition hit (a : addr) (k : skey) (ep : addr) (gs : list eventgroup) : bool :=
  (ep =? a) && existsb (fun g => skey_eqb (key_of_eg g) k) gs.
Definition req (a : addr) (k : skey) (l : list (eventgroup * addr)) : bool :=
  existsb (fun p => skey_eqb (key_of_eg (fst p)) k && (snd p =? a)) l.

Lemma requested_req g ep l : requested g ep l = req ep (key_of_eg g) l.
Proof. reflexivity. Qed.

Lemma key_of_subscribe_entry g ttl : key_of_entry (create_subscribe_entry g ttl 0) = key_of_eg g.
Proof. unfold key_of_entry, create_subscribe_entry, key_of_eg. cbn [e_sid e_iid e_maj e_val]. rewrite N.shiftl_0_l, N.lor_0_l. reflexivity. Qed.

Lemma app_subscribe_entries k ttl : forall gs cur,
  fold_left (app_entry k) (map (fun g => create_subscribe_entry g ttl 0) gs) cur
  = if existsb (fun g => skey_eqb (key_of_eg g) k) gs then negb (ttl =? 0) else cur.
Proof.
  induction gs as [|g gs IH]; intros cur; cbn [map fold_left existsb]; [reflexivity|].
  rewrite IH. unfold app_entry at 1. rewrite key_of_subscribe_entry. cbn [e_type e_ttl create_subscribe_entry].
  rewrite N.eqb_refl. cbn [andb]. destruct (skey_eqb (key_of_eg g) k); cbn [orb]; [|reflexivity].
  destruct (existsb _ gs); reflexivity.
Qed.

(* ------------------------------------------------------------------ group_entries covers exactly the requested pairs *)
Definition covered (a : addr) (k : skey) (G : list (addr * list eventgroup)) : bool :=
  existsb (fun p => hit a k (fst p) (snd p)) G.

Lemma covered_group_add a k ep g : forall acc,
  covered a k (group_add ep g acc) = covered a k acc || ((ep =? a) && skey_eqb (key_of_eg g) k).
Proof.
  induction acc as [|[ep' gs] acc IH]; cbn [group_add covered existsb fst snd].
  - unfold hit. cbn [existsb]. rewrite !orb_false_r. reflexivity.
  - destruct (N.eqb_spec ep ep') as [->|Hne]; cbn [covered existsb fst snd].
    + unfold hit at 1 3. rewrite existsb_app. cbn [existsb]. rewrite orb_false_r.
      fold (covered a k acc). destruct (ep' =? a); cbn [andb orb].
      * rewrite <- !orb_assoc. f_equal. apply orb_comm.
      * rewrite orb_false_r. reflexivity.
    + fold (covered a k (group_add ep g acc)). fold (covered a k acc). rewrite IH. rewrite orb_assoc. reflexivity.
Qed.
Lemma covered_fold a k : forall l acc,
  covered a k (fold_left (fun acc p => group_add (snd p) (fst p) acc) l acc) = covered a k acc || req a k l.
Proof.
  induction l as [|[g ep] l IH]; intros acc; cbn [fold_left req existsb fst snd]; [rewrite orb_false_r; reflexivity|].
  rewrite IH, covered_group_add. fold (req a k l). rewrite <- orb_assoc. f_equal. f_equal. apply andb_comm.
Qed.
Lemma covered_group_entries a k l : covered a k (group_entries l) = req a k l.
Proof. unfold group_entries. rewrite covered_fold. reflexivity. Qed.

(* ------------------------------------------------------------------ no two requests for the same ids to the same server *)
Fixpoint nodupk (l : list (eventgroup * addr)) : bool :=
  match l with
  | [] => true
  | p :: r => negb (req (snd p) (key_of_eg (fst p)) r) && nodupk r
  end.
Lemma req_app a k l1 l2 : req a k (l1 ++ l2) = req a k l1 || req a k l2.
Proof. unfold req. apply existsb_app. Qed.
Lemma nodupk_snoc g ep : forall l, nodupk l = true -> req ep (key_of_eg g) l = false -> nodupk (l ++ [(g, ep)]) = true.
Proof.
  induction l as [|[g' ep'] l IH]; intros Hn Hr; cbn [app nodupk fst snd] in *; [reflexivity|].
  apply andb_true_iff in Hn. destruct Hn as [H1 H2]. cbn [req existsb fst snd] in Hr. apply orb_false_iff in Hr. destruct Hr as [Hr1 Hr2].
  rewrite req_app. cbn [req existsb fst snd]. rewrite orb_false_r.
  apply negb_true_iff in H1. fold (req ep' (key_of_eg g') l). rewrite H1. cbn [orb].
  rewrite skey_eqb_sym, (N.eqb_sym ep ep'). rewrite Hr1. cbn [negb andb]. apply IH; assumption.
Qed.

(* removing the first entry equal to (g, ep) *)
Lemma sub_entry_eqb_key g ep y : sub_entry_eqb (g, ep) y = true -> key_of_eg (fst y) = key_of_eg g /\ snd y = ep.
Proof.
  unfold sub_entry_eqb, eventgroup_eqb. cbn [fst snd]. rewrite !andb_true_iff, !N.eqb_eq.
  intros [[[[[[H1 H2] H3] H4] _] _] H5]. unfold key_of_eg. rewrite H1, H2, H3, H4. split; [reflexivity|symmetry; exact H5].
Qed.
Lemma remove_first_hit g ep : forall l r, remove_first sub_entry_eqb (g, ep) l = Some r -> req ep (key_of_eg g) l = true.
Proof.
  induction l as [|[gz epz] l IHl]; intros r Er; cbn [remove_first] in Er; [discriminate|].
  cbn [req existsb fst snd]. destruct (sub_entry_eqb (g, ep) (gz, epz)) eqn:Ez.
  - destruct (sub_entry_eqb_key _ _ _ Ez) as [Hk He]. cbn [fst snd] in Hk, He. rewrite Hk, He, skey_eqb_refl, N.eqb_refl. reflexivity.
  - destruct (remove_first sub_entry_eqb (g, ep) l) as [r'|]; [|discriminate]. fold (req ep (key_of_eg g) l). rewrite (IHl r' eq_refl). apply orb_true_r.
Qed.
Lemma remove_first_req g ep : forall l l', remove_first sub_entry_eqb (g, ep) l = Some l' -> nodupk l = true ->
  nodupk l' = true /\ req ep (key_of_eg g) l' = false /\
  forall a k, (skey_eqb (key_of_eg g) k && (ep =? a)) = false -> req a k l' = req a k l.
Proof.
  induction l as [|[gy epy] l IH]; intros l' Hr Hn; cbn [remove_first] in Hr; [discriminate|].
  cbn [nodupk fst snd] in Hn. apply andb_true_iff in Hn. destruct Hn as [H1 H2]. apply negb_true_iff in H1.
  destruct (sub_entry_eqb (g, ep) (gy, epy)) eqn:E.
  - inversion Hr; subst l'. destruct (sub_entry_eqb_key _ _ _ E) as [Hk He]. cbn [fst snd] in Hk, He. rewrite Hk, He in H1.
    split; [exact H2|]. split; [exact H1|]. intros a k Hne. cbn [req existsb fst snd]. rewrite Hk, He, Hne. reflexivity.
  - destruct (remove_first sub_entry_eqb (g, ep) l) as [r|] eqn:Er; [|discriminate]. inversion Hr; subst l'.
    destruct (IH r eq_refl H2) as [I1 [I2 I3]]. split; [|split].
    + cbn [nodupk fst snd]. rewrite I1, andb_true_r. apply negb_true_iff.
      destruct (skey_eqb (key_of_eg g) (key_of_eg gy) && (ep =? epy)) eqn:Eq.
      * apply andb_true_iff in Eq. destruct Eq as [Ek Ee]. apply skey_eqb_eq in Ek. apply N.eqb_eq in Ee. rewrite <- Ek, <- Ee. exact I2.
      * rewrite (I3 _ _ Eq). exact H1.
    + cbn [req existsb fst snd]. fold (req ep (key_of_eg g) r). rewrite I2, orb_false_r.
      destruct (skey_eqb (key_of_eg gy) (key_of_eg g) && (epy =? ep)) eqn:Eq; [|reflexivity].
      exfalso. apply andb_true_iff in Eq. destruct Eq as [Ek Ee]. apply skey_eqb_eq in Ek. apply N.eqb_eq in Ee.
      (* the ids are equal but the eventgroups are not, and an equal entry follows: y is a duplicate *)
      rewrite Ek, Ee, (remove_first_hit _ _ _ _ Er) in H1. discriminate.
    + intros a k Hne. cbn [req existsb fst snd]. fold (req a k r). fold (req a k l). rewrite (I3 a k Hne). reflexivity.
Qed.

(* ------------------------------------------------------------------ symbolic execution of the pending callbacks *)
(* live: which tasks would run a round when woken; rq: is (k, a) requested; one: no refresh (the task returns after
   its first round); the second component collects the tasks that have returned meanwhile *)
Definition step_eff (a : addr) (k : skey) (live : N -> bool) (rq one : bool) (s : bool * list N) (h : handle) : bool * list N :=
  match h with
  | HSendStartSub ep gs => (if hit a k ep gs then true else fst s, snd s)
  | HSendStopSub ep gs => (if hit a k ep gs then false else fst s, snd s)
  | HTaskWake t => if live t && negb (memN t (snd s))
                   then (if rq then true else fst s, if one then t :: snd s else snd s) else s
  | _ => s
  end.
Definition futl a k live rq one hs s := fold_left (step_eff a k live rq one) hs s.

Lemma futl_ext a k live live' rq one : (forall t, live t = live' t) -> forall hs s, futl a k live rq one hs s = futl a k live' rq one hs s.
Proof.
  intros H. unfold futl. induction hs as [|h hs IH]; intros s; cbn [fold_left]; [reflexivity|].
  rewrite IH. f_equal. destruct h; cbn [step_eff]; try reflexivity. rewrite H. reflexivity.
Qed.
(* not requested: wake-ups do not matter *)
Lemma futl_norq a k live live' one one' : forall hs s s', fst s = fst s' ->
  fst (futl a k live false one hs s) = fst (futl a k live' false one' hs s').
Proof.
  unfold futl. induction hs as [|h hs IH]; intros s s' Hs; cbn [fold_left]; [exact Hs|].
  apply IH. destruct h; cbn [step_eff fst snd]; try exact Hs; try (rewrite Hs; reflexivity).
  destruct (live t && _), (live' t && _); cbn [fst]; exact Hs.
Qed.
(* a task that has returned: the same as a dead task *)
Lemma futl_kill a k live rq one t : forall hs c fin fin',
  (forall x, memN x fin = (x =? t) || memN x fin') ->
  fst (futl a k (fun x => live x && negb (x =? t)) rq one hs (c, fin')) = fst (futl a k live rq one hs (c, fin)).
Proof.
  unfold futl. induction hs as [|h hs IH]; intros c fin fin' Hf; cbn [fold_left]; [reflexivity|].
  destruct h; cbn [step_eff fst snd]; try (apply IH; exact Hf).
  rename t0 into u. rewrite (Hf u). destruct (N.eqb_spec u t) as [->|Hne]; cbn [negb andb orb].
  - rewrite andb_false_r. cbn [andb]. apply IH. exact Hf.
  - rewrite andb_true_r. destruct (live u && negb (memN u fin')); [|apply IH; exact Hf].
    apply IH. destruct one; [|exact Hf]. intros x. cbn [memN existsb]. fold (memN x fin). fold (memN x fin'). rewrite (Hf x).
    destruct (x =? u), (x =? t); reflexivity.
Qed.
(* deferred StopSubscribe transmissions for every group *)
Lemma futl_stops a k live rq one : forall (G : list (addr * list eventgroup)) s,
  fst (futl a k live rq one (map (fun p => HSendStopSub (fst p) (snd p)) G) s) = if covered a k G then false else fst s.
Proof.
  unfold futl. induction G as [|[ep gs] G IH]; intros s; cbn [map fold_left covered existsb fst snd]; [reflexivity|].
  rewrite IH. cbn [step_eff fst snd]. fold (covered a k G). destruct (hit a k ep gs), (covered a k G); reflexivity.
Qed.
Lemma futl_app a k live rq one hs1 hs2 s : futl a k live rq one (hs1 ++ hs2) s = futl a k live rq one hs2 (futl a k live rq one hs1 s).
Proof. unfold futl. apply fold_left_app. Qed.

Definition clean (l : list (N * gev)) : bool :=
  negb (existsb (fun p => match snd p with GDupSub _ => true | _ => false end) l).
