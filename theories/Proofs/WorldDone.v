(* What a COMPLETED run of the loop model (run returned true: nothing runnable, next deadline / arrival beyond the end)
   leaves behind: no runnable handle, and every live timer is due after the end.  With the ownership invariant G this is
   the "in time" half end to end: after a completed run to t_end, every TTL entry still stored, every collector still
   open and every task still asleep has its deadline AFTER t_end - nothing that was due has been left undone. *)
From Coq Require Import Lia.
From PS Require Import Lib.Base Lib.Struct Generated.Consts Model.SdTypes Model.Config Model.Session Model.Someip Model.SdCodec
  Model.StackTypes Model.Stack Model.StackIO Proofs.AListFacts Proofs.EqFacts Proofs.KeyEquiv Proofs.WorldInv Proofs.WorldTime.

Definition live_after (t_end : N) (w : world) : Prop :=
  forall t, In t (timers w) -> memN (snd (fst t)) (cancelled w) = false -> t_end < fst (fst t).

Theorem run_complete : forall fuel events t_end rv w w',
  run fuel events t_end rv w = (w', true) -> ready w' = [] /\ live_after t_end w'.
Proof.
  induction fuel as [|f IH]; intros events t_end rv w w' H; cbn [run] in H; [discriminate|].
  destruct (split_arrived (now w) events) as [arrived later].
  destruct (ready w) as [|x r] eqn:Er; [|exact (IH _ _ _ _ _ H)].
  destruct arrived as [|a ar]; [|exact (IH _ _ _ _ _ H)].
  destruct (next_timer w) as [m|] eqn:En.
  - destruct (m <=? now w); [exact (IH _ _ _ _ _ H)|].
    destruct (omin (Some m) _) as [t|] eqn:Eo.
    + destruct (N.ltb_spec t_end t) as [Hlt|Hge]; [|exact (IH _ _ _ _ _ H)].
      injection H as <-. split; [exact Er|]. intros t0 Hin Hc.
      pose proof (next_timer_le w m En t0 Hin Hc) as H1.
      assert (t <= m) by (destruct (match later with [] => None | e :: _ => Some (fst e) end); cbn in Eo; injection Eo as <-; lia).
      lia.
    + destruct (match later with [] => None | e :: _ => Some (fst e) end); discriminate.
  - destruct (omin None _) as [t|] eqn:Eo.
    + destruct (N.ltb_spec t_end t) as [Hlt|Hge]; [|exact (IH _ _ _ _ _ H)].
      injection H as <-. split; [exact Er|]. intros t0 Hin Hc. exfalso.
      rewrite next_timer_fold in En. destruct (nt_fold_none w _ _ En) as [_ Hall]. rewrite (Hall _ Hin) in Hc. discriminate.
    + injection H as <-. split; [exact Er|]. intros t0 Hin Hc. exfalso.
      rewrite next_timer_fold in En. destruct (nt_fold_none w _ _ En) as [_ Hall]. rewrite (Hall _ Hin) in Hc. discriminate.
Qed.

Lemma rdy_nil w : ready w = [] -> rdy w = [].
Proof. unfold rdy. intros ->. reflexivity. Qed.

(* a pending handle of a quiescent world is a timer *)
Lemma tided_quiescent w tid h : ready w = [] -> In (tid, h) (tided w) -> exists when, In (when, tid, h) (timers w).
Proof.
  intros Hr Hin. unfold tided in Hin. rewrite (rdy_nil _ Hr), app_nil_r in Hin. unfold tmr in Hin.
  apply in_map_iff in Hin. destruct Hin as ([[when tid'] h'] & E & Hin). cbn in E. injection E as -> ->.
  exists when. exact Hin.
Qed.

Lemma quiescent_entry t_end w st a k tid : G w -> ready w = [] -> live_after t_end w ->
  In (k, Some tid) (inner a (get_store st w)) ->
  exists when, In (when, tid, HExpired st a k) (timers w) /\ t_end < when.
Proof.
  intros Hg Hr Hl Hin. destruct (g_store _ _ Hg st a k tid Hin) as [Hp Hc]. cbn [app] in Hp.
  destruct (tided_quiescent w _ _ Hr Hp) as (when & Ht). exists when. split; [exact Ht|exact (Hl _ Ht Hc)].
Qed.

Lemma quiescent_collector t_end w c : G w -> ready w = [] -> live_after t_end w -> open_coll w c = true ->
  exists when, In (when, c, HCollector c) (timers w) /\ t_end < when.
Proof.
  intros Hg Hr Hl Ho. destruct (g_coll _ _ Hg c Ho) as [Hp Hc]. cbn [app] in Hp.
  destruct (tided_quiescent w _ _ Hr Hp) as (when & Ht). exists when. split; [exact Ht|exact (Hl _ Ht Hc)].
Qed.

Lemma quiescent_sleeper t_end w t tid : G w -> ready w = [] -> live_after t_end w -> sleep_of w t = Some tid ->
  exists when, In (when, tid, HSleepDone t) (timers w) /\ t_end < when.
Proof.
  intros Hg Hr Hl Hs. destruct (g_sleep _ _ Hg t tid Hs) as [Hp Hc]. cbn [app] in Hp.
  destruct (tided_quiescent w _ _ Hr Hp) as (when & Ht). exists when. split; [exact Ht|exact (Hl _ Ht Hc)].
Qed.

(* for every scenario: if the run completed, nothing due by the end is left *)
Theorem completed_scenario_nothing_overdue s sc : d_scenario s = Some sc ->
  let w := fst (run_scenario sc) in
  snd (run_scenario sc) = true ->
  (forall st a k tid, In (k, Some tid) (inner a (get_store st w)) ->
     exists when, In (when, tid, HExpired st a k) (timers w) /\ sc_end sc < when)
  /\ (forall c, open_coll w c = true -> exists when, In (when, c, HCollector c) (timers w) /\ sc_end sc < when)
  /\ (forall t tid, sleep_of w t = Some tid -> exists when, In (when, tid, HSleepDone t) (timers w) /\ sc_end sc < when).
Proof.
  intros Hd w Hdone. pose proof (G_reachable s sc Hd) as Hg. fold w in Hg.
  assert (Hrun : run_scenario sc = (w, true)) by (unfold w; rewrite <- Hdone; destruct (run_scenario sc); reflexivity).
  unfold run_scenario in Hrun. destruct (run_complete _ _ _ _ _ _ Hrun) as [Hr Hl].
  split; [|split].
  - intros st a k tid. apply (quiescent_entry (sc_end sc) w); assumption.
  - intros c. apply (quiescent_collector (sc_end sc) w); assumption.
  - intros t tid. apply (quiescent_sleeper (sc_end sc) w); assumption.
Qed.
