(* C17: theorems about Model/ServiceStack.v (SimpleEventgroup / SimpleService.client_subscribed) for every world,
   every handle and every value map. *)
From Coq Require Import Lia.
From PS Require Import Lib.Base Lib.Struct Generated.Consts Model.SdTypes Model.Session Model.Someip Model.SdCodec
  Model.ServiceStack Spec.C01Spec Spec.C08Spec Proofs.AListFacts Proofs.C01Proofs Proofs.C07Proofs.

(* ------------------------------------------------------------------ what one _notify_single transmits *)
(* the notifications of one datagram, as the property states them *)
Fixpoint notif_msgs (w : sworld) (dest : N) (evs : list N) (s : Session.sess) : list someip :=
  match evs with
  | [] => []
  | ev :: r =>
      match aget N.eqb ev (s_values w) with
      | None => []
      | Some p => let '((_, sid), s') := assign_outgoing s (Some dest) in
                  mkMsg (s_svc w) (N.lor EVENT_BIT ev) 0 sid (s_major w) MT_NOTIFICATION 1 RC_E_OK p
                  :: notif_msgs w dest r s'
      end
  end.

Lemma notification_fields w ev sid p :
  notification w ev sid p = mkMsg (s_svc w) (N.lor EVENT_BIT ev) 0 sid (s_major w) MT_NOTIFICATION 1 RC_E_OK p.
Proof. reflexivity. Qed.

Lemma build_notifications_spec w dest : forall evs buf s buf' s',
  build_notifications w dest evs buf s = Some (buf', s') ->
  exists data, build_all (notif_msgs w dest evs s) = Ok data /\ buf' = buf ++ data
               /\ length (notif_msgs w dest evs s) = length evs.
Proof.
  induction evs as [|ev evs IH]; intros buf s buf' s' H; cbn [build_notifications notif_msgs] in *.
  - injection H as <- <-. exists []. cbn. rewrite app_nil_r. auto.
  - destruct (aget N.eqb ev (s_values w)) as [p|]; [|discriminate].
    destruct (assign_outgoing s (Some dest)) as [[fl sid] s1].
    destruct (build_msg (notification w ev sid p)) as [b|] eqn:Hb; [|discriminate].
    apply IH in H. destruct H as (data & Hd & -> & Hl).
    exists (b ++ data). cbn [build_all concat_map_res length]. rewrite notification_fields in Hb.
    rewrite Hb. cbn [bind]. unfold build_all in Hd. rewrite Hd. cbn [bind].
    rewrite app_assoc. rewrite Hl. auto.
Qed.

Lemma notif_msgs_events w dest : forall evs s,
  length (notif_msgs w dest evs s) = length evs ->
  map (fun m => (m_mid m, m_payload m)) (notif_msgs w dest evs s)
  = map (fun ev => (N.lor EVENT_BIT ev, match aget N.eqb ev (s_values w) with Some p => p | None => [] end)) evs.
Proof.
  induction evs as [|ev evs IH]; intros s Hl; cbn [notif_msgs map] in *; [reflexivity|].
  destruct (aget N.eqb ev (s_values w)) as [p|]; [|discriminate].
  destruct (assign_outgoing s (Some dest)) as [[fl sid] s1]. cbn [map length] in *.
  f_equal. apply IH. lia.
Qed.

Lemma notif_msgs_header w dest : forall evs s m, In m (notif_msgs w dest evs s) ->
  m_sid m = s_svc w /\ m_cid m = 0 /\ m_pv m = 1 /\ m_iv m = s_major w /\ m_mt m = MT_NOTIFICATION /\ m_rc m = RC_E_OK
  /\ exists ev p, In ev evs /\ aget N.eqb ev (s_values w) = Some p /\ m_mid m = N.lor EVENT_BIT ev /\ m_payload m = p.
Proof.
  induction evs as [|ev evs IH]; intros s m Hin; cbn [notif_msgs] in Hin; [contradiction|].
  destruct (aget N.eqb ev (s_values w)) as [p|] eqn:Hv; [|contradiction].
  destruct (assign_outgoing s (Some dest)) as [[fl sid] s1].
  destruct Hin as [<-|Hin].
  - cbn. repeat split. exists ev, p. cbn. auto.
  - destruct (IH _ _ Hin) as (H1 & H2 & H3 & H4 & H5 & H6 & ev' & p' & Hi & Hg & Hm & Hp).
    repeat split; try assumption. exists ev', p'. cbn. auto.
Qed.

(* the session ids of one datagram are the next ids of that destination, in order *)
Lemma notif_msgs_sessions w dest : forall evs s,
  map m_sess (notif_msgs w dest evs s)
  = map snd (run_assign s (repeat (Some dest) (length (notif_msgs w dest evs s)))).
Proof.
  induction evs as [|ev evs IH]; intros s; cbn [notif_msgs]; [reflexivity|].
  destruct (aget N.eqb ev (s_values w)) as [p|]; [|reflexivity].
  destruct (assign_outgoing s (Some dest)) as [[fl sid] s1] eqn:Ha.
  cbn [map length repeat run_assign]. rewrite Ha. cbn [map snd]. f_equal. apply IH.
Qed.

Definition values_ok (w : sworld) : Prop := Forall (fun p => bytes_okb (snd p) = true) (s_values w).

Lemma aget_in_values w ev p : aget N.eqb ev (s_values w) = Some p -> In (ev, p) (s_values w).
Proof.
  induction (s_values w) as [|[k v] l IH]; cbn [aget]; [discriminate|].
  destruct (N.eqb_spec ev k) as [->|_]; [intros H; injection H as ->; left; reflexivity|intros H; right; auto].
Qed.

Lemma notif_msgs_wf w dest evs s data : values_ok w ->
  build_all (notif_msgs w dest evs s) = Ok data -> Forall (fun m => wf_msgb m = true) (notif_msgs w dest evs s).
Proof.
  intros Hv. revert s data. induction evs as [|ev evs IH]; intros s data Hb; cbn [notif_msgs] in *; [constructor|].
  destruct (aget N.eqb ev (s_values w)) as [p|] eqn:Hg; [|constructor].
  destruct (assign_outgoing s (Some dest)) as [[fl sid] s1].
  cbn [build_all concat_map_res] in Hb.
  destruct (build_msg _) as [b|] eqn:Hb1; cbn [bind] in Hb; [|discriminate].
  destruct (concat_map_res build_msg _) as [b2|] eqn:Hb2; cbn [bind] in Hb; [|discriminate].
  constructor; [|apply (IH s1 b2); exact Hb2].
  apply build_ok_fits in Hb1. unfold wf_msgb. rewrite Hb1.
  apply aget_in_values in Hg. unfold values_ok in Hv. rewrite Forall_forall in Hv. apply Hv in Hg. cbn [snd] in Hg.
  cbn [m_pv m_mt m_rc m_payload]. rewrite Hg. reflexivity.
Qed.

(* C17_header: whatever _notify_single transmits decodes (by the datagram decoder of C01) into exactly the
   notifications of the requested events with the current values and that destination's next session ids. *)
Theorem notify_send_datagram w e spec : values_ok w ->
  let dest := ep_dest e in
  let evs := events_of spec w in
  forall buf s', build_notifications w dest evs [] (s_sess w) = Some (buf, s') ->
  datagram_split buf = (notif_msgs w dest evs (s_sess w), None)
  /\ length (notif_msgs w dest evs (s_sess w)) = length evs.
Proof.
  intros Hv dest evs buf s' H. apply build_notifications_spec in H. destruct H as (data & Hd & -> & Hl).
  cbn [app]. split; [|exact Hl]. apply datagram_clean; [exact Hd|]. eapply notif_msgs_wf; eauto.
Qed.

Theorem notify_send_emits w e spec :
  notify_send e spec w =
  match build_notifications w (ep_dest e) (events_of spec w) [] (s_sess w) with
  | Some ([], s') => sw_sess s' w
  | Some (buf, s') => semit (SvSent (ep_dest e) buf) (sw_sess s' w)
  | None => sw_sess (consume_ids w (ep_dest e) (events_of spec w) (s_sess w)) w
  end.
Proof.
  unfold notify_send. destruct (build_notifications _ _ _ _ _) as [[buf s']|]; [|reflexivity].
  destruct buf; reflexivity.
Qed.

(* ------------------------------------------------------------------ refusal *)
Theorem refuse_unknown_eventgroup eg eps w : eg <> s_eg w -> exec_sapi (SSubscribe eg eps) w = semit SvNak w.
Proof. intros H. cbn [exec_sapi]. destruct (N.eqb_spec eg (s_eg w)); [contradiction|reflexivity]. Qed.

Theorem refuse_not_one_endpoint eps w : length eps <> 1%nat -> exec_sapi (SSubscribe (s_eg w) eps) w = semit SvNak w.
Proof.
  intros H. cbn [exec_sapi]. rewrite N.eqb_refl. cbn [negb].
  destruct eps as [|e [|e2 r]]; [reflexivity|exfalso; apply H; reflexivity|reflexivity].
Qed.

Theorem accept_one_endpoint e w : exec_sapi (SSubscribe (s_eg w) [e]) w = eg_subscribe e w.
Proof. cbn [exec_sapi]. rewrite N.eqb_refl. reflexivity. Qed.

Lemma semit_frame ev w : s_eps (semit ev w) = s_eps w /\ s_has_clients (semit ev w) = s_has_clients w
  /\ s_tasks (semit ev w) = s_tasks w /\ s_ready (semit ev w) = s_ready w /\ s_timers (semit ev w) = s_timers w
  /\ s_values (semit ev w) = s_values w /\ s_sess (semit ev w) = s_sess w.
Proof. repeat split. Qed.

(* ------------------------------------------------------------------ the subscriber multiset *)
Lemma ep_eqb_eq (a b : ep) : ep_eqb a b = true <-> a = b.
Proof.
  destruct a as [a1 a2 a3], b as [b1 b2 b3]. unfold ep_eqb. cbn.
  rewrite !andb_true_iff, !N.eqb_eq, Bool.eqb_true_iff. split.
  - intros [[-> ->] ->]. reflexivity.
  - intros H. injection H as -> -> ->. auto.
Qed.

Definition count_ep (e : ep) (l : list (ep * N)) : N := match aget ep_eqb e l with Some n => n | None => 0 end.

Definition EpsInv (w : sworld) : Prop :=
  NoDup (map fst (s_eps w)) /\ Forall (fun p => 1 <= snd p) (s_eps w)
  /\ s_has_clients w = match s_eps w with [] => false | _ => true end.

Lemma forall_aset (P : N -> Prop) e n (l : list (ep * N)) :
  Forall (fun p => P (snd p)) l -> P n -> Forall (fun p => P (snd p)) (aset ep_eqb e n l).
Proof.
  intros Hl Hn. induction l as [|[k v] l IH]; cbn [aset]; [constructor; [exact Hn|constructor]|].
  inversion Hl as [|? ? Hv Hl']; subst. destruct (ep_eqb e k); constructor; cbn; auto.
Qed.

Lemma forall_adel (P : N -> Prop) e (l : list (ep * N)) :
  Forall (fun p => P (snd p)) l -> Forall (fun p => P (snd p)) (adel ep_eqb e l).
Proof.
  intros Hl. induction l as [|[k v] l IH]; cbn [adel]; [constructor|].
  inversion Hl as [|? ? Hv Hl']; subst. destruct (ep_eqb e k); [exact Hl'|constructor; auto].
Qed.

Lemma keys_adel e (l : list (ep * N)) : NoDup (map fst l) -> NoDup (map fst (adel ep_eqb e l)).
Proof.
  induction l as [|[k v] l IH]; cbn [adel map]; intros H; [constructor|].
  inversion H as [|? ? Hni Hnd]; subst. destruct (ep_eqb e k); [exact Hnd|].
  cbn [map fst]. constructor; [|apply IH; exact Hnd].
  intros Hin. apply Hni. clear -Hin. induction l as [|[k2 v2] l IH]; cbn [adel map] in *; [contradiction|].
  destruct (ep_eqb e k2); [right; exact Hin|]. destruct Hin as [H|H]; [left; exact H|right; auto].
Qed.

Lemma aset_nonempty e n (l : list (ep * N)) : aset ep_eqb e n l <> [].
Proof. destruct l as [|[k v] l]; cbn [aset]; [discriminate|destruct (ep_eqb e k); discriminate]. Qed.

(* frame: snew / ssoon / sput / slater / sw_sess / semit never touch the subscriber data *)
Lemma snew_eps k w : s_eps (snd (snew k w)) = s_eps w /\ s_has_clients (snd (snew k w)) = s_has_clients w.
Proof. split; reflexivity. Qed.

Lemma eg_subscribe_inv e w : EpsInv w -> EpsInv (eg_subscribe e w).
Proof.
  intros (Hnd & Hpos & Hhc). unfold eg_subscribe.
  set (eps := match aget ep_eqb e (s_eps w) with Some n => aset ep_eqb e (n + 1) (s_eps w) | None => s_eps w ++ [(e, 1)] end).
  assert (Heps : NoDup (map fst eps) /\ Forall (fun p => 1 <= snd p) eps /\ eps <> []).
  { unfold eps. destruct (aget ep_eqb e (s_eps w)) as [n|] eqn:Hg.
    - split; [apply (nodup_aset ep_eqb ep_eqb_eq); exact Hnd|]. split; [apply forall_aset; [exact Hpos|lia]|apply aset_nonempty].
    - split; [rewrite map_app; apply nodup_snoc; [exact Hnd|apply (aget_none_notin ep_eqb ep_eqb_eq); exact Hg]|].
      split; [apply Forall_app; split; [exact Hpos|constructor; [cbn; lia|constructor]]|].
      destruct (s_eps w); discriminate. }
  destruct Heps as (H1 & H2 & H3).
  match goal with |- EpsInv (snd (snew _ ?w2)) => assert (Hw2 : s_eps w2 = eps /\ s_has_clients w2 = true) end.
  { destruct (s_cy_task _) as [cy|]; [destruct (s_cy_waiting w && negb (s_has_clients w))|]; split; reflexivity. }
  destruct Hw2 as [He Hh]. unfold EpsInv.
  rewrite (proj1 (snew_eps _ _)), (proj2 (snew_eps _ _)), He, Hh.
  repeat split; [exact H1|exact H2|]. destruct eps; [contradiction|reflexivity].
Qed.

Lemma eg_unsubscribe_inv e w : EpsInv w -> EpsInv (fst (eg_unsubscribe e w)).
Proof.
  intros (Hnd & Hpos & Hhc). unfold eg_unsubscribe. destruct (aget ep_eqb e (s_eps w)) as [n|] eqn:Hg; [|repeat split; assumption].
  cbn [fst]. set (eps := if n <=? 1 then adel ep_eqb e (s_eps w) else aset ep_eqb e (n - 1) (s_eps w)).
  assert (Heps : NoDup (map fst eps) /\ Forall (fun p => 1 <= snd p) eps).
  { unfold eps. destruct (N.leb_spec n 1).
    - split; [apply keys_adel; exact Hnd|apply forall_adel; exact Hpos].
    - split; [apply (nodup_aset ep_eqb ep_eqb_eq); exact Hnd|apply forall_aset; [exact Hpos|lia]]. }
  destruct Heps as [H1 H2]. unfold EpsInv. cbn. repeat split; try assumption.
  destruct eps; [reflexivity|]. rewrite Hhc. destruct (s_eps w); [discriminate|reflexivity].
Qed.

(* counting semantics: subscribe adds one live subscription naming the endpoint, unsubscribe removes one *)
Lemma count_subscribe e e' w :
  count_ep e' (s_eps (eg_subscribe e w)) = count_ep e' (s_eps w) + (if ep_eqb e' e then 1 else 0).
Proof.
  unfold eg_subscribe.
  match goal with |- count_ep _ (s_eps (snd (snew _ ?w2))) = _ =>
    assert (Hw2 : s_eps w2 = match aget ep_eqb e (s_eps w) with Some n => aset ep_eqb e (n + 1) (s_eps w) | None => s_eps w ++ [(e, 1)] end) end.
  { destruct (s_cy_task _) as [cy|]; [destruct (s_cy_waiting w && negb (s_has_clients w))|]; reflexivity. }
  rewrite (proj1 (snew_eps _ _)), Hw2. unfold count_ep.
  destruct (ep_eqb e' e) eqn:Ee.
  - apply ep_eqb_eq in Ee. subst e'. destruct (aget ep_eqb e (s_eps w)) as [n|] eqn:Hg.
    + rewrite (aget_aset_same ep_eqb ep_eqb_eq). reflexivity.
    + assert (Hx : aget ep_eqb e (s_eps w ++ [(e, 1)]) = Some 1).
      { clear -Hg. induction (s_eps w) as [|[k v] l IH]; cbn [app aget] in *.
        - rewrite (proj2 (ep_eqb_eq e e) eq_refl). reflexivity.
        - destruct (ep_eqb e k); [discriminate|auto]. }
      rewrite Hx. reflexivity.
  - assert (Hne : e' <> e) by (intros ->; rewrite (proj2 (ep_eqb_eq e e) eq_refl) in Ee; discriminate).
    destruct (aget ep_eqb e (s_eps w)) as [n|] eqn:Hg.
    + rewrite (aget_aset_other ep_eqb ep_eqb_eq) by exact Hne. rewrite N.add_0_r. reflexivity.
    + assert (Hx : aget ep_eqb e' (s_eps w ++ [(e, 1)]) = aget ep_eqb e' (s_eps w)).
      { clear -Ee. induction (s_eps w) as [|[k v] l IH]; cbn [app aget].
        - rewrite Ee. reflexivity.
        - destruct (ep_eqb e' k); [reflexivity|exact IH]. }
      rewrite Hx, N.add_0_r. reflexivity.
Qed.

Lemma count_unsubscribe e e' w : EpsInv w ->
  count_ep e' (s_eps (fst (eg_unsubscribe e w))) = count_ep e' (s_eps w) - (if ep_eqb e' e then 1 else 0).
Proof.
  intros (Hnd & Hpos & _). unfold eg_unsubscribe, count_ep.
  destruct (aget ep_eqb e (s_eps w)) as [n|] eqn:Hg; cbn [fst].
  - cbn. destruct (ep_eqb e' e) eqn:Ee.
    + apply ep_eqb_eq in Ee. subst e'. rewrite Hg. destruct (N.leb_spec n 1).
      * rewrite (aget_adel_same ep_eqb ep_eqb_eq) by exact Hnd. lia.
      * rewrite (aget_aset_same ep_eqb ep_eqb_eq). reflexivity.
    + assert (Hne : e' <> e) by (intros ->; rewrite (proj2 (ep_eqb_eq e e) eq_refl) in Ee; discriminate).
      destruct (n <=? 1).
      * rewrite (aget_adel_other ep_eqb ep_eqb_eq) by exact Hne. rewrite N.sub_0_r. reflexivity.
      * rewrite (aget_aset_other ep_eqb ep_eqb_eq) by exact Hne. rewrite N.sub_0_r. reflexivity.
  - destruct (ep_eqb e' e) eqn:Ee; [|rewrite N.sub_0_r; reflexivity].
    apply ep_eqb_eq in Ee. subst e'. rewrite Hg. reflexivity.
Qed.

(* an endpoint is addressed by a round iff at least one live subscription names it; once each (NoDup of EpsInv) *)
Lemma addressed_iff_live e w : EpsInv w -> (In e (map fst (s_eps w)) <-> 1 <= count_ep e (s_eps w)).
Proof.
  intros (Hnd & Hpos & _). unfold count_ep. split.
  - intros Hin. destruct (aget ep_eqb e (s_eps w)) as [n|] eqn:Hg.
    + assert (In (e, n) (s_eps w)).
      { clear -Hg. induction (s_eps w) as [|[k v] l IH]; cbn [aget] in *; [discriminate|].
        destruct (ep_eqb e k) eqn:E; [apply ep_eqb_eq in E; subst; injection Hg as ->; left; reflexivity|right; auto]. }
      rewrite Forall_forall in Hpos. apply (Hpos _ H).
    + apply (aget_none_notin ep_eqb ep_eqb_eq) in Hg. contradiction.
  - intros H. destruct (aget ep_eqb e (s_eps w)) as [n|] eqn:Hg; [|lia].
    destruct (in_dec (eqb_dec ep_eqb ep_eqb_eq) e (map fst (s_eps w))) as [Hi|Hn]; [exact Hi|].
    apply (aget_none_notin ep_eqb ep_eqb_eq) in Hn. congruence.
Qed.

(* ------------------------------------------------------------------ rounds *)
Lemma fold_snew_kinds (K : ep -> skind) : forall eps w,
  let w' := fold_left (fun acc e => snd (snew (K e) acc)) eps w in
  map (fun p => sk_kind (snd p)) (s_tasks w') = map (fun p => sk_kind (snd p)) (s_tasks w) ++ map K eps
  /\ s_eps w' = s_eps w /\ s_has_clients w' = s_has_clients w /\ s_out w' = s_out w /\ s_sess w' = s_sess w.
Proof.
  induction eps as [|e eps IH]; intros w; cbn [fold_left map].
  - rewrite app_nil_r. auto.
  - destruct (IH (snd (snew (K e) w))) as (H1 & H2 & H3 & H4 & H5). cbn zeta in *.
    rewrite H1, H2, H3, H4, H5. cbn [snew snd]. cbn. rewrite map_app. cbn [map]. rewrite <- app_assoc. auto.
Qed.

(* a round with no subscribers creates no task and transmits nothing *)
Theorem round_without_subscribers t k spec pc w : s_eps w = [] -> start_round t k spec pc w = (w, false).
Proof. intros H. unfold start_round. rewrite H. reflexivity. Qed.

(* a round creates exactly one _notify_single per subscribed endpoint (the keys of the counter: once each,
   see EpsInv) and waits for that many children; fold_snew_kinds says what the created tasks are *)
Theorem round_children t k spec pc w : s_eps w <> [] ->
  start_round t k spec pc w =
  (sput t (mkSTask k pc (len (map fst (s_eps w))) false)
        (fold_left (fun acc e => snd (snew (KSingle e spec (Some t)) acc)) (map fst (s_eps w)) w), true).
Proof.
  intros Hne. unfold start_round. destruct (map fst (s_eps w)) as [|e0 eps0] eqn:He; [|reflexivity].
  destruct (s_eps w); [contradiction|discriminate].
Qed.

(* notify_once without subscribers does nothing at all *)
Theorem notify_once_without_clients evs w : s_has_clients w = false -> exec_sapi (SNotifyOnce evs) w = w.
Proof. intros H. cbn [exec_sapi]. rewrite H. reflexivity. Qed.

(* ------------------------------------------------------------------ the invariant holds in every reachable state *)
Definition frames (f : sworld -> sworld) : Prop :=
  forall w, s_eps (f w) = s_eps w /\ s_has_clients (f w) = s_has_clients w.

Lemma frames_comp f g : frames f -> frames g -> frames (fun w => f (g w)).
Proof. intros Hf Hg w. destruct (Hf (g w)) as [-> ->]. apply Hg. Qed.

Lemma frames_inv f w : frames f -> EpsInv w -> EpsInv (f w).
Proof. intros Hf (H1 & H2 & H3). destruct (Hf w) as [He Hh]. unfold EpsInv. rewrite He, Hh. auto. Qed.

Lemma frames_ssoon h : frames (ssoon h). Proof. intros w; split; reflexivity. Qed.
Lemma frames_semit e : frames (semit e). Proof. intros w; split; reflexivity. Qed.
Lemma frames_slater d h : frames (slater d h). Proof. intros w; split; reflexivity. Qed.
Lemma frames_sput t tk : frames (sput t tk). Proof. intros w; split; reflexivity. Qed.
Lemma frames_sw_sess s : frames (sw_sess s). Proof. intros w; split; reflexivity. Qed.
Lemma frames_sw_values v : frames (sw_values v). Proof. intros w; split; reflexivity. Qed.
Lemma frames_sw_ready v : frames (sw_ready v). Proof. intros w; split; reflexivity. Qed.
Lemma frames_sw_now v : frames (sw_now v). Proof. intros w; split; reflexivity. Qed.
Lemma frames_sw_timers v n : frames (sw_timers v n). Proof. intros w; split; reflexivity. Qed.
Lemma frames_snew k : frames (fun w => snd (snew k w)). Proof. intros w; split; reflexivity. Qed.
Lemma frames_id : frames (fun w => w). Proof. intros w; split; reflexivity. Qed.

Lemma frames_notify_send e spec : frames (notify_send e spec).
Proof.
  intros w. rewrite notify_send_emits. destruct (build_notifications _ _ _ _ _) as [[[|b buf] s']|]; split; reflexivity.
Qed.

Lemma frames_sfinish t : frames (sfinish t).
Proof.
  intros w. unfold sfinish. destruct (sget t w) as [tk|]; [|split; reflexivity].
  destruct (sk_kind tk) as [| |e sp [p|]]; split; reflexivity.
Qed.

Lemma frames_fold_snew (K : ep -> skind) eps : frames (fun w => fold_left (fun acc e => snd (snew (K e) acc)) eps w).
Proof. intros w. destruct (fold_snew_kinds K eps w) as (_ & H2 & H3 & _). cbn zeta in *. auto. Qed.

Lemma frames_start_round t k spec pc : frames (fun w => fst (start_round t k spec pc w)).
Proof.
  intros w. unfold start_round. destruct (map fst (s_eps w)) as [|e0 eps0]; [split; reflexivity|].
  cbn [fst]. destruct (frames_fold_snew (fun e => KSingle e spec (Some t)) (e0 :: eps0) w) as [H1 H2].
  split; [rewrite <- H1|rewrite <- H2]; reflexivity.
Qed.

Lemma frames_cyclic_sleep t : frames (cyclic_sleep t). Proof. intros w; split; reflexivity. Qed.
Lemma frames_cyclic_top t : frames (cyclic_top t).
Proof. intros w. unfold cyclic_top. destruct (s_has_clients w) eqn:E; split; cbn; congruence. Qed.

Lemma frames_sstep t : frames (sstep t).
Proof.
  intros w. unfold sstep. destruct (sget t w) as [tk|]; [|split; reflexivity].
  destruct (sk_done tk); [split; reflexivity|].
  destruct (sk_kind tk) as [|spec|e spec par].
  - destruct (sk_pc tk) as [|p]; [exact (frames_cyclic_top t w)|].
    repeat match goal with |- context [match ?q with xI _ => _ | xO _ => _ | xH => _ end] => destruct q end;
    first [exact (frames_cyclic_top t w) | exact (frames_cyclic_sleep t w)
          | destruct (start_round t KCyclic EvAll 3 w) as [w1 susp] eqn:Hs;
            pose proof (frames_start_round t KCyclic EvAll 3 w) as Hf; cbv beta in Hf; rewrite Hs in Hf; cbn [fst] in Hf;
            destruct susp; [exact Hf|destruct (frames_cyclic_top t w1) as [He1 He2]; rewrite He1, He2; exact Hf]].
  - destruct (sk_pc tk) as [|p]; [|exact (frames_sfinish t w)].
    destruct (start_round t (KAll spec) spec 1 w) as [w1 susp] eqn:Hs.
    pose proof (frames_start_round t (KAll spec) spec 1 w) as Hf. cbv beta in Hf. rewrite Hs in Hf. cbn [fst] in Hf.
    destruct susp; [exact Hf|destruct (frames_sfinish t w1) as [He1 He2]; rewrite He1, He2; exact Hf].
  - destruct (sk_pc tk) as [|p].
    + destruct (s_resolve w =? 0).
      * destruct (frames_sfinish t (notify_send e spec w)) as [He1 He2]. rewrite He1, He2. exact (frames_notify_send e spec w).
      * split; reflexivity.
    + destruct (frames_sfinish t (notify_send e spec w)) as [He1 He2]. rewrite He1, He2. exact (frames_notify_send e spec w).
Qed.

Lemma frames_child_done p : frames (child_done p).
Proof.
  intros w. unfold child_done. destruct (sget p w) as [tk|]; [|split; reflexivity].
  destruct (sk_done tk); [split; reflexivity|]. destruct (sk_pending tk - 1 =? 0); split; reflexivity.
Qed.

Lemma exec_sapi_inv c w : EpsInv w -> EpsInv (exec_sapi c w).
Proof.
  intros H. destruct c as [eg eps|eg eps|ev p|evs]; cbn [exec_sapi].
  - destruct (negb (eg =? s_eg w)); [apply frames_inv; [apply frames_semit|exact H]|].
    destruct eps as [|e [|e2 r]]; try (apply frames_inv; [apply frames_semit|exact H]). apply eg_subscribe_inv. exact H.
  - destruct (negb (eg =? s_eg w)); [apply frames_inv; [apply frames_semit|exact H]|].
    destruct eps as [|e r]; [apply frames_inv; [apply frames_semit|exact H]|]. apply eg_unsubscribe_inv. exact H.
  - apply frames_inv; [apply frames_sw_values|exact H].
  - destruct (s_has_clients w); [|exact H]. apply (frames_inv (fun w => snd (snew (KAll (EvList evs)) w))); [apply frames_snew|exact H].
Qed.

(* every callback the loop can run preserves the invariant: it holds under every schedule *)
Theorem sexec_inv h w : EpsInv w -> EpsInv (sexec h w).
Proof.
  intros H. destruct h as [c|t|t|p]; cbn [sexec].
  - apply exec_sapi_inv. exact H.
  - apply frames_inv; [apply frames_sstep|exact H].
  - apply frames_inv; [apply frames_ssoon|exact H].
  - apply frames_inv; [apply frames_child_done|exact H].
Qed.

Lemma srun_ready_inv : forall n w, EpsInv w -> EpsInv (srun_ready n w).
Proof.
  induction n as [|n IH]; intros w H; cbn [srun_ready]; [exact H|].
  destruct (s_ready w) as [|[o h] r]; [exact H|]. apply IH. apply sexec_inv.
  apply frames_inv; [apply frames_sw_ready|exact H].
Qed.

Lemma fold_ssoon_inv : forall hs w, EpsInv w -> EpsInv (fold_left (fun acc h => ssoon h acc) hs w).
Proof. induction hs as [|h hs IH]; intros w H; cbn [fold_left]; [exact H|]. apply IH. apply frames_inv; [apply frames_ssoon|exact H]. Qed.

Lemma siteration_inv arrivals w : EpsInv w -> EpsInv (siteration arrivals w).
Proof.
  intros H. unfold siteration. apply srun_ready_inv.
  apply frames_inv; [apply frames_sw_timers|]. apply frames_inv; [apply frames_sw_ready|]. apply fold_ssoon_inv. exact H.
Qed.

Lemma srun_inv : forall fuel events t_end w, EpsInv w -> EpsInv (fst (srun fuel events t_end w)).
Proof.
  induction fuel as [|f IH]; intros events t_end w H; cbn [srun]; [exact H|].
  destruct (ssplit (s_now w) events) as [arrived later].
  set (nx := match snext_timer w with Some t => t <=? s_now w | None => false end).
  destruct (s_ready w) as [|x r] eqn:Er; [destruct arrived as [|a ar]; [destruct nx|]|];
    try (apply IH; apply siteration_inv; exact H).
  match goal with |- context [match ?n with Some _ => _ | None => _ end] => destruct n as [t|] end; [|exact H].
  destruct (t_end <? t); [exact H|]. apply IH. apply frames_inv; [apply frames_sw_now|exact H].
Qed.

Lemma sinit_inv sc : EpsInv (sinit sc).
Proof.
  unfold sinit. destruct (ss_interval sc =? 0); repeat split; try constructor.
Qed.

Theorem reachable_inv sc : EpsInv (fst (srun_scenario sc)).
Proof. unfold srun_scenario. apply srun_inv. apply sinit_inv. Qed.
