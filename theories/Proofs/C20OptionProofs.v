(* C20 for SD options, for EVERY accepted input: what parse_option returns lies in wf_opt, can be built again,
   and the rebuilt bytes decode to the same option with nothing left over. *)
From PS Require Import Lib.Base Lib.Struct Generated.Consts Model.SdTypes Model.SdCodec.
From PS Require Import Proofs.StructFacts Proofs.SdOptionProofs.
From Coq Require Import Lia ZArith ZifyN ZifyBool ZifyNat.

Notation cfg_item := (list N * option (list N))%type (only parsing).

(* exactly what build_cfgs needs of an item (the Forall of build_cfgs_enc) *)
Definition good_cfg (c : cfg_item) : Prop :=
  decode_ascii (fst c) = Ok (fst c)
  /\ match snd c with Some v => decode_ascii v = Ok v | None => True end
  /\ match enc_item c with l :: _ => l < 256 | [] => False end.

Lemma decode_ascii_ok b k : decode_ascii b = Ok k -> k = b /\ decode_ascii b = Ok b /\ encode_ascii b = Ok b.
Proof.
  unfold decode_ascii, encode_ascii. destruct (forallb _ b); [|discriminate]. intros H; injection H as <-. auto.
Qed.

Lemma build_cfgs_total : forall cfgs buf, Forall good_cfg cfgs ->
  build_cfgs buf cfgs = Ok (buf ++ concat (map enc_item cfgs)).
Proof.
  induction cfgs as [|[k [v|]] cfgs IH]; intros buf HF; cbn [build_cfgs map concat].
  - rewrite app_nil_r. reflexivity.
  - inversion HF as [|c l [Dk [Dv Hl]] HF']; subst. cbn [fst snd enc_item app] in *.
    unfold byte_append. destruct (N.ltb_spec (len k + len v + 1) 256) as [E|E]; [|lia]. cbn [bind].
    apply decode_ascii_ok in Dk. destruct Dk as (_ & _ & ->). apply decode_ascii_ok in Dv. destruct Dv as (_ & _ & ->).
    cbn [bind]. rewrite IH by exact HF'. rewrite <- !app_assoc. reflexivity.
  - inversion HF as [|c l [Dk [_ Hl]] HF']; subst. cbn [fst snd enc_item app] in *.
    unfold byte_append. destruct (N.ltb_spec (len k) 256) as [E|E]; [|lia]. cbn [bind].
    apply decode_ascii_ok in Dk. destruct Dk as (_ & _ & ->).
    cbn [bind]. rewrite IH by exact HF'. rewrite <- !app_assoc. reflexivity.
Qed.

Definition find_go (x : N) :=
  fix go (i : nat) (l : bytes) : option nat :=
    match l with [] => None | y :: r => if y =? x then Some i else go (S i) r end.

Lemma find_go_none_inv x : forall l i, find_go x i l = None -> ~ In x l.
Proof.
  induction l as [|y l IH]; intros i H; [intros []|]. cbn [find_go] in H.
  destruct (N.eqb_spec y x) as [E|E]; [discriminate|]. intros [F|F]; [exact (E F)|]. exact (IH _ H F).
Qed.

Lemma find_go_some_inv x : forall l i j, find_go x i l = Some j ->
  exists n, j = (i + n)%nat /\ l = firstn n l ++ x :: skipn (S n) l /\ ~ In x (firstn n l).
Proof.
  induction l as [|y l IH]; intros i j H; [discriminate|]. cbn [find_go] in H.
  destruct (N.eqb_spec y x) as [E|E].
  - injection H as <-. exists 0%nat. subst y. cbn [firstn skipn app]. split; [lia|]. split; [reflexivity|]. intros [].
  - destruct (IH _ _ H) as (n & -> & Hl & Hno). exists (S n). split; [lia|]. cbn [firstn skipn app]. split.
    + f_equal. exact Hl.
    + intros [F|F]; [exact (E F)|exact (Hno F)].
Qed.

Lemma find_byte_none_inv x l : find_byte x l = None -> ~ In x l.
Proof. apply find_go_none_inv. Qed.

Lemma find_byte_some_inv x l j : find_byte x l = Some j ->
  l = firstn j l ++ x :: skipn (S j) l /\ ~ In x (firstn j l).
Proof. intros H. destruct (find_go_some_inv x l 0 j H) as (n & -> & Hl & Hno). cbn [Nat.add]. auto. Qed.

(* what the config-option loop accepts is exactly: the encodings of the items it returns, a zero length byte,
   and an arbitrary ignored tail *)
Lemma parse_cfgs_image : forall fuel nl b acc res, bytes_ok (nl :: b) ->
  parse_cfgs fuel nl b acc = Ok res ->
  exists items tail, res = rev acc ++ items /\ nl :: b = concat (map enc_item items) ++ 0 :: tail
                     /\ Forall wf_cfg items /\ Forall good_cfg items.
Proof.
  induction fuel as [|f IH]; intros nl b acc res Hb H; cbn [parse_cfgs] in H.
  - destruct (N.eqb_spec nl 0) as [->|Hn]; [|discriminate]. injection H as <-.
    exists [], b. rewrite app_nil_r. cbn. auto.
  - destruct (N.eqb_spec nl 0) as [->|Hn].
    { injection H as <-. exists [], b. rewrite app_nil_r. cbn. auto. }
    destruct (N.ltb_spec (len b) (nl + 1)) as [E|E]; [discriminate|].
    inversion Hb as [|x l Hnl Hb']; subst.
    set (cfg := takeN nl b) in *.
    assert (Hlen : len cfg = nl) by (apply len_takeN; lia).
    assert (Hitem : exists item, (match find_byte 61 cfg with
        | None => do k <- decode_ascii cfg; Ok (k, None)
        | Some i => do k <- decode_ascii (firstn i cfg); do v <- decode_ascii (skipn (S i) cfg); Ok (k, Some v)
        end) = Ok item /\ enc_item item = nl :: cfg /\ wf_cfg item /\ good_cfg item).
    { destruct (find_byte 61 cfg) as [i|] eqn:Ef.
      - destruct (decode_ascii (firstn i cfg)) as [k|] eqn:Dk; cbn [bind] in H; [|discriminate].
        destruct (decode_ascii (skipn (S i) cfg)) as [v|] eqn:Dv; cbn [bind] in H; [|discriminate].
        apply decode_ascii_ok in Dk. destruct Dk as (-> & Dk & _).
        apply decode_ascii_ok in Dv. destruct Dv as (-> & Dv & _).
        destruct (find_byte_some_inv _ _ _ Ef) as (Hsplit & Hno).
        assert (Hl : len (firstn i cfg) + len (skipn (S i) cfg) + 1 = nl).
        { rewrite <- Hlen. rewrite Hsplit at 3. rewrite len_app, len_cons. lia. }
        exists (firstn i cfg, Some (skipn (S i) cfg)). split; [reflexivity|]. split.
        + cbn [enc_item app]. rewrite Hl. f_equal. symmetry. exact Hsplit.
        + split.
          * split; [exact Hno|]. right. discriminate.
          * unfold good_cfg. cbn [fst snd enc_item app]. rewrite Hl. auto.
      - destruct (decode_ascii cfg) as [k|] eqn:Dk; cbn [bind] in H; [|discriminate].
        apply decode_ascii_ok in Dk. destruct Dk as (-> & Dk & _).
        exists (cfg, None). split; [reflexivity|]. split.
        + cbn [enc_item app]. rewrite Hlen. reflexivity.
        + split.
          * split; [exact (find_byte_none_inv _ _ Ef)|]. left. cbn [fst]. intros Hnil. rewrite Hnil in Hlen.
            cbn in Hlen. lia.
          * unfold good_cfg. cbn [fst snd enc_item app]. rewrite Hlen. auto. }
    destruct Hitem as (item & Hi & Henc & Hwf & Hgood). rewrite Hi in H. cbn [bind] in H.
    destruct (dropN nl b) as [|nl' b''] eqn:Ed; [discriminate|].
    assert (Hb2 : bytes_ok (nl' :: b'')) by (rewrite <- Ed; apply bytes_ok_dropN; exact Hb').
    destruct (IH _ _ _ _ Hb2 H) as (items & tail & -> & Hsplit & HF1 & HF2).
    exists (item :: items), tail. split.
    + cbn [rev]. rewrite <- app_assoc. reflexivity.
    + split.
      * cbn [map concat]. rewrite Henc. cbn [app]. f_equal. rewrite <- app_assoc, <- Hsplit, <- Ed.
        symmetry. apply takeN_dropN.
      * split; constructor; assumption.
Qed.

Lemma registry_get_inv ty cls : registry_get ty = Some cls ->
  (cls = 0 /\ ty = OT_0) \/ (cls = 1 /\ ty = OT_1) \/ (2 <= cls <= 7 /\ ty = cls_type cls).
Proof.
  unfold registry_get, opt_registry. cbn [aget].
  repeat match goal with
  | |- context [N.eqb ?a ?b] => destruct (N.eqb_spec a b) as [->|?]
  end; intros H; try discriminate; injection H as <-; cbn; auto; right; right; split; try lia; reflexivity.
Qed.

Lemma hdr_total ty body : ty < 256 -> len body < 65536 ->
  exists b, build_option_hdr ty body = Ok b /\ len b = 3 + len body.
Proof.
  intros Ht Hl. unfold build_option_hdr, fmt_sdoption. cbn [pack pack1].
  destruct (N.ltb_spec (len body) 65536) as [_|E]; [|lia]. cbn [bind].
  destruct (N.ltb_spec ty 256) as [_|E]; [|lia]. cbn [bind]. eexists; split; [reflexivity|].
  rewrite !len_app, !be_len. change (len []) with 0. lia.
Qed.

(* the two header fields of an accepted option *)
Lemma parse_option_hdr b o r : bytes_ok b -> parse_option b = Ok (o, r) ->
  exists l ty rest, l < 65536 /\ ty < 256 /\ l <= len rest /\ bytes_ok rest /\ len b = 3 + len rest /\ r = dropN l rest /\
    match registry_get ty with
    | None => o = OUnknown ty (takeN l rest)
    | Some cls => parse_option_body cls (takeN l rest) = Ok o
    end.
Proof.
  intros Hb H. unfold parse_option in H.
  destruct (unpack fmt_sdoption b) as [[vs rest]|] eqn:Hu; cbn [bind] in H; [|discriminate].
  apply unpack_ok_inv in Hu. destruct Hu as (Hsz & -> & ->).
  change (fmt_size fmt_sdoption) with 3 in *. unfold fmt_sdoption in H. cbn [unpack_all unpack1 fsize] in H.
  set (hd := takeN 3 b) in *.
  assert (Hhd : bytes_ok hd) by (apply bytes_ok_takeN; exact Hb).
  assert (Hl3 : len hd = 3) by (apply len_takeN; lia).
  set (l := unbe (takeN 2 hd)) in *. set (ty := unbe (takeN 1 (dropN 2 hd))) in *.
  assert (Hl : l < 65536).
  { pose proof (unbe_lt (takeN 2 hd) (bytes_ok_takeN _ _ Hhd)) as X. rewrite len_takeN in X by lia. exact X. }
  assert (Hty : ty < 256).
  { pose proof (unbe_lt (takeN 1 (dropN 2 hd)) (bytes_ok_takeN _ _ (bytes_ok_dropN _ _ Hhd))) as X.
    rewrite len_takeN in X by (rewrite len_dropN; lia). exact X. }
  destruct (N.ltb_spec (len (dropN 3 b)) l) as [E|E]; [discriminate|].
  exists l, ty, (dropN 3 b).
  repeat (split; [first [assumption | apply bytes_ok_dropN; exact Hb | rewrite len_dropN; lia]|]).
  destruct (registry_get ty) as [cls|].
  - destruct (parse_option_body cls (takeN l (dropN 3 b))) as [o'|] eqn:Hp; cbn [bind] in H; [|discriminate].
    injection H as <- <-. auto.
  - injection H as <- <-. auto.
Qed.

Lemma parse_body_image cls ob o : bytes_ok ob -> len ob < 65536 -> cls <= 7 ->
  parse_option_body cls ob = Ok o ->
  wf_opt o /\ exists body, len body <= len ob /\
    match o with
    | OUnknown _ _ => False
    | OLoadBal p w => cls = 0 /\ pack [U8; U16; U16] [VI 0; VI p; VI w] = Ok body
    | OConfig cfgs => cls = 1 /\ exists buf, build_cfgs [0] cfgs = Ok buf /\ body = buf ++ [0]
    | OIP c a proto port => c = cls /\ 2 <= cls /\
        pack (if is_v6_cls c then fmt_ipv6 else fmt_ipv4) [VI 0; VB a; VI 0; VI proto; VI port] = Ok body
    end.
Proof.
  intros Hb Hlen Hc H.
  assert (Hcase : cls = 0 \/ cls = 1 \/ 2 <= cls <= 7) by lia.
  destruct Hcase as [->|[->|Hc2]].
  - cbn [parse_option_body] in H. destruct (N.eqb_spec (len ob) 5) as [E|E]; cbn [negb] in H; [|discriminate].
    cbn [unpack_all unpack1 fsize] in H. injection H as <-. split; [exact I|].
    set (d := dropN 1 ob).
    assert (Hd : bytes_ok d) by (apply bytes_ok_dropN; exact Hb).
    assert (Hld : len d = 4) by (unfold d; rewrite len_dropN; lia).
    assert (H1 : unbe (takeN 2 d) < 65536).
    { pose proof (unbe_lt (takeN 2 d) (bytes_ok_takeN _ _ Hd)) as X. rewrite len_takeN in X by lia. exact X. }
    assert (H2 : unbe (takeN 2 (dropN 2 d)) < 65536).
    { pose proof (unbe_lt (takeN 2 (dropN 2 d)) (bytes_ok_takeN _ _ (bytes_ok_dropN _ _ Hd))) as X.
      rewrite len_takeN in X by (rewrite len_dropN; lia). exact X. }
    cbn [pack pack1]. change (0 <? 256) with true. cbn [bind].
    destruct (N.ltb_spec (unbe (takeN 2 d)) 65536) as [_|F]; [|lia]. cbn [bind].
    destruct (N.ltb_spec (unbe (takeN 2 (dropN 2 d))) 65536) as [_|F]; [|lia]. cbn [bind].
    eexists. split; [|split; reflexivity]. rewrite !len_app, !be_len. cbn. lia.
  - cbn [parse_option_body] in H. destruct (N.ltb_spec (len ob) 2) as [E|E]; [discriminate|].
    destruct (dropN 1 ob) as [|nl b] eqn:Ed; [discriminate|].
    destruct (parse_cfgs (length ob) nl b []) as [c|] eqn:Hp; cbn [bind] in H; [|discriminate]. injection H as <-.
    assert (Hb2 : bytes_ok (nl :: b)) by (rewrite <- Ed; apply bytes_ok_dropN; exact Hb).
    destruct (parse_cfgs_image _ _ _ _ _ Hb2 Hp) as (items & tail & -> & Hsplit & HF1 & HF2).
    cbn [rev app]. split; [exact HF1|].
    exists (([0] ++ concat (map enc_item items)) ++ [0]). split.
    + assert (Hl : len ob = 1 + len (nl :: b)).
      { rewrite <- Ed, len_dropN. lia. }
      rewrite Hl, Hsplit. unfold len. rewrite !app_length. cbn [length]. lia.
    + split; [reflexivity|]. exists ([0] ++ concat (map enc_item items)). split; [|reflexivity].
      apply build_cfgs_total. exact HF2.
  - assert (Hne : match cls with 0 | 1 => False | _ => True end).
    { destruct cls as [|[[|[]|]|[|[]|]|]]; cbn; auto; lia. }
    assert (Hp : (let f := if is_v6_cls cls then fmt_ipv6 else fmt_ipv4 in
         if negb (len ob =? fmt_size f) then Err EParse else
         match unpack_all f ob with
         | [VI _; VB a; VI _; VI proto; VI port] => Ok (OIP cls a proto port)
         | _ => Err EFuel
         end) = Ok o).
    { destruct cls as [|[[|[]|]|[|[]|]|]]; try contradiction; exact H. }
    clear H. cbv zeta in Hp. destruct (ip_fmt_shape cls) as (k & Hf). rewrite Hf in Hp.
    destruct (N.eqb_spec (len ob) (fmt_size [U8; Raw k; U8; U8; U16])) as [E|E]; cbn [negb] in Hp; [|discriminate].
    pose proof (pack_unpack_all _ _ Hb E) as Hpk.
    cbn [unpack_all unpack1 fsize] in Hp, Hpk. injection Hp as <-. split; [cbn [wf_opt]; lia|].
    rewrite Hf. cbn [fmt_size fsize] in E.
    (* replacing the two reserved fields by zero keeps every other field's pack1 *)
    cbn [pack] in Hpk.
    repeat match type of Hpk with
    | context [pack1 ?c ?v] => let e := fresh "P" in destruct (pack1 c v) as [?b|] eqn:e; cbn [bind] in Hpk; [|discriminate]
    end.
    cbn [pack]. change (pack1 U8 (VI 0)) with (Ok (be 1 0)). cbn [bind].
    repeat match goal with
    | Hx : pack1 ?c ?v = Ok _ |- context [pack1 ?c ?v] => rewrite Hx; cbn [bind]
    end.
    eexists. split; [|split; [reflexivity|split; [lia|reflexivity]]].
    repeat match goal with Hx : pack1 _ _ = Ok _ |- _ => apply pack1_len in Hx end.
    cbn [fsize] in *. rewrite !len_app, be_len. change (len []) with 0. change (N.of_nat 1) with 1. lia.
Qed.

Lemma cls_type_small c : cls_type c < 256.
Proof. unfold cls_type. repeat match goal with |- context [match ?x with _ => _ end] => destruct x end; reflexivity. Qed.

Theorem option_image b o r : bytes_ok b -> parse_option b = Ok (o, r) ->
  wf_opt o /\ bytes_ok r /\ exists b', build_option o = Ok b' /\ len b' + len r <= len b.
Proof.
  intros Hb H. destruct (parse_option_hdr b o r Hb H) as (l & ty & rest & Hl & Hty & Hle & Hrest & Hlb & Hr & Hcase).
  assert (Hob : bytes_ok (takeN l rest)) by (apply bytes_ok_takeN; exact Hrest).
  assert (Hlo : len (takeN l rest) = l) by (apply len_takeN; exact Hle).
  assert (Hlr : len r = len rest - l) by (subst r; apply len_dropN).
  assert (Hrok : bytes_ok r) by (subst r; apply bytes_ok_dropN; exact Hrest).
  assert (Hfin : forall ty' body, ty' < 256 -> len body <= l ->
            exists b', build_option_hdr ty' body = Ok b' /\ len b' + len r <= len b).
  { intros ty' body H1 H2. destruct (hdr_total ty' body H1 ltac:(lia)) as (b' & Hb' & Hlen).
    exists b'. split; [exact Hb'|lia]. }
  destruct (registry_get ty) as [cls|] eqn:Hreg.
  - assert (Hcls : cls <= 7) by (destruct (registry_get_inv _ _ Hreg) as [[-> _]|[[-> _]|[? _]]]; lia).
    destruct (parse_body_image cls _ o Hob ltac:(lia) Hcls Hcase) as (Hwf & body & Hlb2 & Hshape).
    split; [exact Hwf|]. split; [exact Hrok|]. rewrite Hlo in Hlb2.
    destruct o as [ty' p|prio w|cfgs|c a proto port]; cbn [build_option].
    + contradiction.
    + destruct Hshape as (_ & ->). cbn [bind]. apply Hfin; [reflexivity|lia].
    + destruct Hshape as (_ & buf & -> & ->). cbn [bind]. apply Hfin; [reflexivity|lia].
    + destruct Hshape as (-> & _ & ->). cbn [bind]. apply Hfin; [apply cls_type_small|lia].
  - subst o. split; [exact Hreg|]. split; [exact Hrok|]. cbn [build_option]. apply Hfin; [exact Hty|lia].
Qed.

Theorem option_canonical b o r : bytes_ok b -> parse_option b = Ok (o, r) ->
  exists b', build_option o = Ok b' /\ parse_option b' = Ok (o, []).
Proof.
  intros Hb H. destruct (option_image b o r Hb H) as (Hwf & _ & b' & Hbuild & _).
  exists b'. split; [exact Hbuild|]. rewrite <- (app_nil_r b'). apply option_roundtrip; assumption.
Qed.
