(* Ownership invariant of the SD stack model (Model/Stack.v) under EVERY schedule of the event loop:
   every stored finite-TTL entry of both TimedStores owns a pending, uncancelled expiry handle; so does every sleeping
   task (its wake-up) and every open send collector (its timeout).  Hence no entry is ever left without its timer, no
   wake-up and no collected batch is ever lost, and cancelling one component's timer never hits another's.
   Proved for every callback (exec of every handle) and lifted to iteration / run. *)
From Coq Require Import Lia.
From PS Require Import Lib.Base Lib.Struct Generated.Consts Model.SdTypes Model.Config Model.Session Model.Someip Model.SdCodec
  Model.StackTypes Model.Stack Proofs.AListFacts Proofs.EqFacts Proofs.KeyEquiv.

(* ------------------------------------------------------------------ pending handles that carry a timer id *)
Definition rdy (w : world) : list (N * handle) :=
  flat_map (fun r => match fst r with Some tid => [(tid, snd r)] | None => [] end) (ready w).
Definition tmr (w : world) : list (N * handle) := map (fun t => (snd (fst t), snd t)) (timers w).
Definition tided (w : world) : list (N * handle) := tmr w ++ rdy w.

Definition sleep_of (w : world) (t : N) : option N :=
  match get_task t w with Some tk => tk_sleep tk | None => None end.
(* handles queued without a timer id (call_soon, I/O) are never expiry callbacks *)
Definition notexp_b (h : handle) : bool := match h with HExpired _ _ _ => false | _ => true end.
Definition ne_ready (w : world) : bool :=
  forallb (fun r => match fst r with None => notexp_b (snd r) | Some _ => true end) (ready w).

(* a finished task is not asleep *)
Definition done_sleep (w : world) (t : N) : option N :=
  match get_task t w with Some tk => if tk_done tk then tk_sleep tk else None | None => None end.
Definition open_coll (w : world) (c : N) : bool :=
  match aget N.eqb c (collectors w) with Some co => negb (co_done co) | None => false end.

(* X: handles that count as pending although they are no longer in the loop's queues (the one being executed) *)
Record GP (X : list (N * handle)) (w : world) : Prop := mkG {
  g_nodup : NoDup (map fst (X ++ tided w));
  g_fresh : forall p, In p (X ++ tided w) -> fst p < next_id w;
  g_store : forall st a k tid, In (k, Some tid) (inner a (get_store st w)) ->
            In (tid, HExpired st a k) (X ++ tided w) /\ memN tid (cancelled w) = false;
  g_keys : forall st a, NoDupE (inner a (get_store st w));
  g_sleep : forall t tid, sleep_of w t = Some tid -> In (tid, HSleepDone t) (X ++ tided w) /\ memN tid (cancelled w) = false;
  g_coll : forall c, open_coll w c = true -> In (c, HCollector c) (X ++ tided w) /\ memN c (cancelled w) = false;
  g_collfresh : forall c co, In (c, co) (collectors w) -> c < next_id w;
  g_canfresh : forall tid, memN tid (cancelled w) = true -> tid < next_id w;
  g_done : forall t, done_sleep w t = None }.
Definition G := GP [].

(* handles that may be queued without a timer id: never an expiry callback, never a collector timeout *)
Definition nocoll_b (h : handle) : bool := match h with HCollector _ => false | _ => true end.
Definition soon_ok (h : handle) : bool := notexp_b h && nocoll_b h.
(* the part of the ghost history the conservation invariant reads: what was queued and what was handed over *)
Definition qlog (l : list (N * gev)) : list (N * gev) :=
  filter (fun p => match snd p with GQueue _ _ | GFlush _ _ => true | _ => false end) l.

(* the session-id part of the ghost history, oldest first: destination and the (flag, id) it was given *)
Fixpoint slog (l : list (N * gev)) : list (dest * (bool * N)) :=
  match l with
  | [] => []
  | (_, GSend _ d f i) :: r => slog r ++ [(d, (f, i))]
  | _ :: r => slog r
  end.
Definition fi_eqb (a b : bool * N) : bool := Bool.eqb (fst a) (fst b) && (snd a =? snd b).
(* replaying logged assignments on an outgoing-id table: None when a logged value is not what the table hands out *)
Fixpoint osteps (o : list (dest * (bool * N))) (l : list (dest * (bool * N))) : option (list (dest * (bool * N))) :=
  match l with
  | [] => Some o
  | (d, v) :: r => let '(v', s') := assign_outgoing (mkSess [] o) d in
                   if fi_eqb v v' then osteps (outgoing s') r else None
  end.

(* the transmissions in the observable trace (out, newest first), oldest first ... *)
Fixpoint wire (o : list (N * event)) : list (N * dest * bytes) :=
  match o with
  | [] => []
  | (t, ESent d b) :: r => wire r ++ [(t, d, b)]
  | _ :: r => wire r
  end.
(* ... and what the transmissions recorded in the ghost history put on the wire *)
Fixpoint gwire (l : list (N * gev)) : list (N * dest * bytes) :=
  match l with
  | [] => []
  | (t, GSend es d f i) :: r => gwire r ++ match sd_datagram es f i with Ok b => [(t, d, b)] | Err _ => [] end
  | _ :: r => gwire r
  end.
Definition notsent_b (e : event) : bool := match e with ESent _ _ => false | _ => true end.
(* the notifications of the server-side listeners in the observable trace (newest first, as out) *)
Definition snlog (o : list (N * event)) : list (N * event) :=
  filter (fun p => match snd p with ESubscribed _ _ _ _ | EUnsubscribed _ _ _ => true | _ => false end) o.
(* events a neutral step may emit: no transmission, no server-listener notification *)
Definition plain_b (e : event) : bool :=
  match e with ESent _ _ | ESubscribed _ _ _ _ | EUnsubscribed _ _ _ => false | _ => true end.

(* the TimedStore part of the ghost history *)
Definition tlog (l : list (N * gev)) : list (N * gev) :=
  filter (fun p => match snd p with GRefresh _ _ _ _ | GExpire _ _ _ => true | _ => false end) l.

(* two worlds that agree on everything the invariants read; with b = true also on the server-listener notifications
   (the two store callbacks that notify a server listener are steps of the weaker kind, b = false) *)
Record sameb (b : bool) (w w' : world) : Prop := mkSame {
  sm_tmr : timers w' = timers w; sm_rdy : rdy w' = rdy w; sm_can : cancelled w' = cancelled w;
  sm_next : next_id w' = next_id w; sm_store : forall st a, inner a (get_store st w') = inner a (get_store st w);
  sm_sleep : forall t, sleep_of w' t = sleep_of w t; sm_coll : forall c, open_coll w' c = open_coll w c;
  sm_colls : map fst (collectors w') = map fst (collectors w);
  sm_done : forall t, done_sleep w' t = done_sleep w t;
  sm_ne : ne_ready w' = ne_ready w;
  sm_now : now w' = now w;
  sm_cfg : cfg w' = cfg w;
  sm_collectors : collectors w' = collectors w;
  sm_queues : queues w' = queues w;
  sm_qlog : qlog (glog w') = qlog (glog w);
  sm_tlog : tlog (glog w') = tlog (glog w);
  sm_sess : exists l, slog (glog w') = slog (glog w) ++ l /\ osteps (outgoing (sess w)) l = Some (outgoing (sess w'));
  sm_wire : exists m, wire (out w') = wire (out w) ++ m /\ gwire (glog w') = gwire (glog w) ++ m;
  sm_snlog : b = true -> snlog (out w') = snlog (out w);
  sm_ready : exists l, ready w' = ready w ++ l /\ Forall (fun r => fst r = None /\ nocoll_b (snd r) = true) l }.

Arguments sm_tmr {b} w w' _.
Arguments sm_rdy {b} w w' _.
Arguments sm_can {b} w w' _.
Arguments sm_next {b} w w' _.
Arguments sm_store {b} w w' _.
Arguments sm_sleep {b} w w' _.
Arguments sm_coll {b} w w' _.
Arguments sm_colls {b} w w' _.
Arguments sm_done {b} w w' _.
Arguments sm_ne {b} w w' _.
Arguments sm_now {b} w w' _.
Arguments sm_cfg {b} w w' _.
Arguments sm_collectors {b} w w' _.
Arguments sm_queues {b} w w' _.
Arguments sm_qlog {b} w w' _.
Arguments sm_tlog {b} w w' _.
Arguments sm_sess {b} w w' _.
Arguments sm_wire {b} w w' _.
Arguments sm_snlog {b} w w' _.
Arguments sm_ready {b} w w' _.
Notation same := (sameb true).

Lemma osteps_app o l1 l2 : osteps o (l1 ++ l2) = match osteps o l1 with Some o' => osteps o' l2 | None => None end.
Proof.
  revert o. induction l1 as [|[d v] l1 IH]; intros o; cbn [app osteps]; [reflexivity|].
  destruct (assign_outgoing (mkSess [] o) d) as [v' s']. destruct (fi_eqb v v'); [apply IH|reflexivity].
Qed.
Lemma same_refl {b} w : sameb b w w.
Proof. constructor; try reflexivity; exists []; rewrite ?app_nil_r; split; first [reflexivity|constructor]. Qed.
Lemma same_weak {b} w w' : sameb b w w' -> sameb false w w'.
Proof. intros [A1 A2 A3 A4 A5 A6 A7 A8 A9 A10 A11 Ac Ad Ae Af At Ag Aw _ A12]. constructor; try assumption. discriminate. Qed.
Lemma same_trans {b} x y z : sameb b x y -> sameb b y z -> sameb b x z.
Proof.
  intros [A1 A2 A3 A4 A5 A6 A7 A8 A9 A10 A11 Ac Ad Ae Af At (m1 & As1 & As2) (n1 & Aw1 & Aw2) An (l1 & A12 & A13)]
         [B1 B2 B3 B4 B5 B6 B7 B8 B9 B10 B11 Bc Bd Be Bf Bt (m2 & Bs1 & Bs2) (n2 & Bw1 & Bw2) Bn (l2 & B12 & B13)].
  constructor; try congruence; try (intros; rewrite ?B5, ?B6, ?B7, ?B9; auto; fail).
  - exists (m1 ++ m2). rewrite Bs1, As1, app_assoc. split; [reflexivity|]. rewrite osteps_app, As2. exact Bs2.
  - exists (n1 ++ n2). rewrite Bw1, Aw1, Bw2, Aw2, !app_assoc. split; reflexivity.
  - intros Hb. rewrite (Bn Hb). apply An, Hb.
  - exists (l1 ++ l2). rewrite B12, A12, app_assoc. split; [reflexivity|apply Forall_app; auto].
Qed.
Lemma same_tided {b} w w' : sameb b w w' -> tided w' = tided w.
Proof. intros Hs. unfold tided, tmr. rewrite (sm_tmr _ _ Hs), (sm_rdy _ _ Hs). reflexivity. Qed.

Lemma same_G {b} X w w' : sameb b w w' -> GP X w -> GP X w'.
Proof.
  intros Hs [H1 H2 H3 H4 H5 H6 H7 H8 H9]. pose proof (same_tided _ _ Hs) as Ht. destruct Hs as [A1 A2 A3 A4 A5 A6 A7 A8 A9 A10 A11 Ac Ad Ae Af At Ag Aw An A12].
  constructor; rewrite ?Ht, ?A3, ?A4; try assumption.
  - intros st a k tid. rewrite A5. apply H3.
  - intros st a. rewrite A5. apply H4.
  - intros t tid. rewrite A6. apply H5.
  - intros c. rewrite A7. apply H6.
  - intros c co Hin. apply (in_map fst) in Hin. rewrite A8 in Hin. apply in_map_iff in Hin. destruct Hin as ([c' co'] & E & Hin).
    cbn in E. subst c'. eapply H7; eauto.
  - intros t. rewrite A9. apply H9.
Qed.

Definition neutral (f : world -> world) : Prop := forall w, same w (f w).
Definition neutral0 (f : world -> world) : Prop := forall w, sameb false w (f w).
Lemma neutral_0 f : neutral f -> neutral0 f.
Proof. intros H w. eapply same_weak, H. Qed.
Definition keeps (f : world -> world) : Prop := forall X w, GP X w -> GP X (f w).
Lemma neutral_keeps f : neutral f -> keeps f.
Proof. intros H X w Hg. eapply same_G; eauto. Qed.
Lemma neutral_comp f g : neutral f -> neutral g -> neutral (fun w => f (g w)).
Proof. intros Hf Hg w. eapply same_trans; [apply Hg|apply Hf]. Qed.
Lemma keeps_comp f g : keeps f -> keeps g -> keeps (fun w => f (g w)).
Proof. intros Hf Hg X w H. apply Hf, Hg, H. Qed.
Lemma neutral_fold {Y} (f : world -> Y -> world) l : (forall x, neutral (fun w => f w x)) -> neutral (fun w => fold_left f l w).
Proof.
  intros H. induction l as [|x l IH]; intros w; cbn [fold_left]; [apply same_refl|].
  eapply same_trans; [apply (H x w)|apply IH].
Qed.
Lemma keeps_fold {Y} (f : world -> Y -> world) l : (forall x, keeps (fun w => f w x)) -> keeps (fun w => fold_left f l w).
Proof. intros H. induction l as [|x l IH]; intros X w Hg; cbn [fold_left]; [exact Hg|]. apply IH. apply (H x). exact Hg. Qed.

(* ------------------------------------------------------------------ neutral primitives *)
Ltac triv_same := constructor; intros; try reflexivity; exists []; rewrite ?app_nil_r; split; first [reflexivity|constructor].
Lemma n_emit e : plain_b e = true -> neutral (emit e). Proof. intros H w. destruct e; try discriminate; triv_same. Qed.
Lemma n0_emit e : notsent_b e = true -> neutral0 (emit e).
Proof. intros H w. destruct e; try discriminate; constructor; intros; try reflexivity; try discriminate; exists []; rewrite ?app_nil_r; split; first [reflexivity|constructor]. Qed.
(* the session storage may change as long as the outgoing table does not (received messages only touch the incoming one) *)
Lemma n_set_sess_in s w : outgoing s = outgoing (sess w) -> same w (set_sess s w).
Proof. intros H. constructor; intros; try reflexivity; exists []; rewrite ?app_nil_r; split; first [reflexivity|constructor|cbn [osteps sess set_sess]; rewrite H; reflexivity]. Qed.
Lemma check_received_outgoing s a mc f i : outgoing (snd (check_received s a mc f i)) = outgoing s.
Proof. unfold check_received. destruct (aget _ _ _) as [[of oi]|]; reflexivity. Qed.
Lemma n_set_sess_rx w a mc f i : same w (set_sess (snd (check_received (sess w) a mc f i)) w).
Proof. apply n_set_sess_in, check_received_outgoing. Qed.
Lemma n_set_draws s : neutral (set_draws s). Proof. intros w. triv_same. Qed.
Lemma n_set_sub_entries s : neutral (set_sub_entries s). Proof. intros w. triv_same. Qed.
Lemma n_set_sub_alive s : neutral (set_sub_alive s). Proof. intros w. triv_same. Qed.
Lemma n_set_sub_task s : neutral (set_sub_task s). Proof. intros w. triv_same. Qed.
Lemma n_set_watched s : neutral (set_watched s). Proof. intros w. triv_same. Qed.
Lemma n_set_watch_all s : neutral (set_watch_all s). Proof. intros w. triv_same. Qed.
Lemma n_set_disc_task s : neutral (set_disc_task s). Proof. intros w. triv_same. Qed.
Lemma n_set_ann_started s : neutral (set_ann_started s). Proof. intros w. triv_same. Qed.
Lemma n_set_announcing s : neutral (set_announcing s). Proof. intros w. triv_same. Qed.
(* moving the clock changes nothing the ownership invariants read *)
Lemma GP_set_now X t w : GP X w -> GP X (set_now t w).
Proof. intros [H1 H2 H3 H4 H5 H6 H7 H8 H9]. constructor; assumption. Qed.
(* nor do the ghost history and the destination -> collector table *)
Lemma GP_ghost X g w : GP X w -> GP X (ghost g w).
Proof. intros [H1 H2 H3 H4 H5 H6 H7 H8 H9]. constructor; assumption. Qed.
Lemma GP_set_queues X q w : GP X w -> GP X (set_queues q w).
Proof. intros [H1 H2 H3 H4 H5 H6 H7 H8 H9]. constructor; assumption. Qed.

Lemma rdy_app (l1 l2 : list (option N * handle)) w :
  rdy (set_ready (l1 ++ l2) w) = rdy (set_ready l1 w) ++ rdy (set_ready l2 w).
Proof. unfold rdy. cbn [ready set_ready]. apply flat_map_app. Qed.
Lemma n_call_soon h : soon_ok h = true -> neutral (call_soon h).
Proof.
  intros Hs w. unfold soon_ok in Hs. apply andb_true_iff in Hs. destruct Hs as [Hn Hc]. constructor; try reflexivity.
  - unfold call_soon, rdy. cbn [ready set_ready]. rewrite flat_map_app. cbn. rewrite app_nil_r. reflexivity.
  - unfold call_soon, ne_ready. cbn [ready set_ready]. rewrite forallb_app. cbn. rewrite Hn, !andb_true_r. reflexivity.
  - exists []. rewrite app_nil_r. split; reflexivity.
  - exists []. rewrite !app_nil_r. split; reflexivity.
  - exists [(None, h)]. split; [reflexivity|constructor; [split; [reflexivity|exact Hc]|constructor]].
Qed.
Lemma n_id : neutral (fun w => w). Proof. intros w. apply same_refl. Qed.

(* for the invariant G alone any handle may be queued *)
Lemma keeps_call_soon_any h : forall X w, GP X w -> GP X (call_soon h w).
Proof.
  intros X w [H1 H2 H3 H4 H5 H6 H7 H8 H9].
  assert (Ht : tided (call_soon h w) = tided w).
  { unfold tided, tmr, rdy, call_soon. cbn [ready set_ready timers]. rewrite flat_map_app. cbn. rewrite app_nil_r. reflexivity. }
  constructor; rewrite ?Ht; assumption.
Qed.

Lemma n_draw lo hi : neutral (fun w => snd (draw lo hi w)).
Proof. intros w. unfold draw. destruct (draws w); cbn [snd]; [apply same_refl|apply n_set_draws]. Qed.

Lemma n_send_sd es d : neutral (send_sd es d).
Proof.
  intros w. unfold send_sd. destruct es as [|e es]; [apply same_refl|].
  assert (Ho : assign_outgoing (mkSess [] (outgoing (sess w))) d
               = (fst (assign_outgoing (sess w) d), mkSess [] (outgoing (snd (assign_outgoing (sess w) d))))).
  { unfold assign_outgoing, out_get. cbn [outgoing]. destruct (aget dest_eqb d (outgoing (sess w))) as [[f0 i0]|]; reflexivity. }
  destruct (assign_outgoing (sess w) d) as [[fl sid] s'] eqn:Ea. cbn [fst snd] in Ho.
  assert (Hsess : exists l, slog (glog (ghost (GSend (e :: es) d fl sid) w)) = slog (glog w) ++ l
                            /\ osteps (outgoing (sess w)) l = Some (outgoing s')).
  { exists [(d, (fl, sid))]. split; [reflexivity|]. cbn [osteps]. rewrite Ho. unfold fi_eqb. cbn [fst snd].
    rewrite Bool.eqb_reflx, N.eqb_refl. reflexivity. }
  destruct (sd_datagram (e :: es) fl sid) as [b|err] eqn:Ed.
  - constructor; intros; try reflexivity; [exact Hsess| |exists []; rewrite app_nil_r; split; [reflexivity|constructor]].
    exists [(now w, d, b)]. split; [reflexivity|]. cbn [emit set_out set_sess ghost set_glog glog gwire]. rewrite Ed. reflexivity.
  - constructor; intros; try reflexivity; [exact Hsess| |exists []; rewrite app_nil_r; split; [reflexivity|constructor]].
    exists []. rewrite !app_nil_r. split; [reflexivity|]. cbn [emit set_out set_sess ghost set_glog glog gwire]. rewrite Ed, app_nil_r. reflexivity.
Qed.

(* ------------------------------------------------------------------ basic facts *)
From Coq Require Import Permutation.

Lemma memN_cons x y l : memN x (y :: l) = (x =? y) || memN x l.
Proof. reflexivity. Qed.
Lemma memN_in x l : memN x l = true <-> In x l.
Proof.
  unfold memN. rewrite existsb_exists. split.
  - intros (y & Hy & E). apply N.eqb_eq in E. subst. exact Hy.
  - intros H. exists x. split; [exact H|apply N.eqb_refl].
Qed.

Lemma nodup_fst_fun {A B} (l : list (A * B)) x h1 h2 : NoDup (map fst l) -> In (x, h1) l -> In (x, h2) l -> h1 = h2.
Proof.
  induction l as [|[a b] l IH]; intros Hnd H1 H2; [contradiction|]. cbn [map fst] in Hnd. inversion Hnd as [|? ? Hni Hnd']; subst.
  destruct H1 as [H1|H1], H2 as [H2|H2].
  - congruence.
  - injection H1 as -> ->. exfalso. apply Hni. apply (in_map fst) in H2. exact H2.
  - injection H2 as -> ->. exfalso. apply Hni. apply (in_map fst) in H1. exact H1.
  - apply IH; assumption.
Qed.

Lemma inner_touch a a' (s : store) : inner a' (touch a s) = inner a' s.
Proof.
  unfold touch, inner, amem. destruct (aget N.eqb a s) eqn:E; [reflexivity|].
  destruct (N.eqb_spec a' a) as [->|Hne].
  - rewrite E. clear -E. induction s as [|[k v] s IH]; cbn [app aget] in *; [rewrite N.eqb_refl; reflexivity|].
    destruct (a =? k); [discriminate|auto].
  - clear -Hne. induction s as [|[k v] s IH]; cbn [app aget].
    + destruct (N.eqb_spec a' a); [contradiction|reflexivity].
    + destruct (a' =? k); [reflexivity|exact IH].
Qed.

Lemma inner_aset a a' d (s : store) : inner a' (aset N.eqb a d s) = if a' =? a then d else inner a' s.
Proof.
  unfold inner. destruct (N.eqb_spec a' a) as [->|Hne].
  - rewrite (aget_aset_same N.eqb N.eqb_eq). reflexivity.
  - rewrite (aget_aset_other N.eqb N.eqb_eq) by exact Hne. reflexivity.
Qed.

Lemma store_id_eqb_eq a b : store_id_eqb a b = true <-> a = b.
Proof.
  destruct a, b; cbn; try (split; [discriminate|congruence]); [tauto|]. rewrite N.eqb_eq. split; congruence.
Qed.

Definition has_store (st : store_id) (w : world) : bool :=
  match st with SFound => true | SSubs i => amem N.eqb i (insts w) end.

Lemma get_put_same st s w : has_store st w = true -> get_store st (put_store st s w) = s.
Proof.
  destruct st as [|i]; [reflexivity|]. cbn [has_store]. unfold amem, put_store, get_store.
  destruct (aget N.eqb i (insts w)) as [ins|] eqn:E; [|discriminate]. intros _. cbn [insts set_insts].
  rewrite (aget_aset_same N.eqb N.eqb_eq). reflexivity.
Qed.
Lemma get_put_missing st s w : has_store st w = false -> put_store st s w = w.
Proof.
  destruct st as [|i]; [discriminate|]. cbn [has_store]. unfold amem, put_store.
  destruct (aget N.eqb i (insts w)); [discriminate|reflexivity].
Qed.
Lemma get_put_other st st' s w : st' <> st -> get_store st' (put_store st s w) = get_store st' w.
Proof.
  intros Hne. destruct st as [|i], st' as [|j]; try reflexivity; try contradiction.
  - unfold put_store. destruct (aget N.eqb i (insts w)); reflexivity.
  - unfold put_store, get_store. destruct (aget N.eqb i (insts w)) as [ins|] eqn:E; [|reflexivity].
    cbn [insts set_insts]. rewrite (aget_aset_other N.eqb N.eqb_eq); [reflexivity|]. intros ->. apply Hne. reflexivity.
Qed.
Lemma put_store_frame st s w :
  timers (put_store st s w) = timers w /\ ready (put_store st s w) = ready w /\ cancelled (put_store st s w) = cancelled w
  /\ next_id (put_store st s w) = next_id w /\ tasks (put_store st s w) = tasks w /\ collectors (put_store st s w) = collectors w.
Proof. destruct st as [|i]; cbn; [repeat split|]. destruct (aget N.eqb i (insts w)); repeat split. Qed.

(* ------------------------------------------------------------------ changing the content of one store *)
Lemma keeps_put_store X st s w : GP X w ->
  (forall a, NoDupE (inner a s)) ->
  (forall a k tid, In (k, Some tid) (inner a s) -> In (tid, HExpired st a k) (X ++ tided w) /\ memN tid (cancelled w) = false) ->
  GP X (put_store st s w).
Proof.
  intros Hg Hk Hs. destruct (has_store st w) eqn:Hh; [|rewrite get_put_missing by exact Hh; exact Hg].
  destruct Hg as [H1 H2 H3 H4 H5 H6 H7 H8 H9]. destruct (put_store_frame st s w) as (F1 & F2 & F3 & F4 & F5 & F6).
  assert (Ht : tided (put_store st s w) = tided w) by (unfold tided, tmr, rdy; rewrite F1, F2; reflexivity).
  constructor; rewrite ?Ht, ?F3, ?F4; try assumption.
  - intros st' a k tid Hin. destruct (store_id_eqb st' st) eqn:E.
    + apply store_id_eqb_eq in E. subst st'. rewrite get_put_same in Hin by exact Hh. apply Hs. exact Hin.
    + rewrite get_put_other in Hin; [apply H3; exact Hin|]. intros ->. rewrite (proj2 (store_id_eqb_eq st st) eq_refl) in E. discriminate.
  - intros st' a. destruct (store_id_eqb st' st) eqn:E.
    + apply store_id_eqb_eq in E. subst st'. rewrite get_put_same by exact Hh. apply Hk.
    + rewrite get_put_other; [apply H4|]. intros ->. rewrite (proj2 (store_id_eqb_eq st st) eq_refl) in E. discriminate.
  - intros t tid. unfold sleep_of, get_task. rewrite F5. apply H5.
  - intros c. unfold open_coll. rewrite F6. apply H6.
  - rewrite F6. exact H7.
  - intros t. unfold done_sleep, get_task. rewrite F5. apply H9.
Qed.

(* ------------------------------------------------------------------ call_later *)
Lemma call_later_frame d h w : let w1 := snd (call_later d h w) in
  tmr w1 = tmr w ++ [(next_id w, h)] /\ ready w1 = ready w /\ cancelled w1 = cancelled w /\ next_id w1 = next_id w + 1
  /\ found w1 = found w /\ insts w1 = insts w /\ tasks w1 = tasks w /\ collectors w1 = collectors w /\ fst (call_later d h w) = next_id w.
Proof. cbn. unfold tmr. cbn. rewrite map_app. cbn. repeat split. Qed.

Lemma perm_mid {A} (X a b : list A) x : Permutation (X ++ (a ++ [x]) ++ b) (x :: X ++ a ++ b).
Proof.
  replace (X ++ (a ++ [x]) ++ b) with ((X ++ a) ++ x :: b) by (rewrite <- !app_assoc; reflexivity).
  replace (x :: X ++ a ++ b) with (x :: (X ++ a) ++ b) by (rewrite <- app_assoc; reflexivity).
  apply Permutation_sym, Permutation_middle.
Qed.

Lemma keeps_call_later d h : keeps (fun w => snd (call_later d h w)).
Proof.
  intros X w [H1 H2 H3 H4 H5 H6 H7 H8 H9]. destruct (call_later_frame d h w) as (F1 & F2 & F3 & F4 & F5 & F6 & F7 & F8 & _).
  set (w1 := snd (call_later d h w)) in *.
  assert (Hp : Permutation (X ++ tided w1) ((next_id w, h) :: X ++ tided w)).
  { unfold tided, rdy. rewrite F1, F2. apply perm_mid. }
  assert (Hin : forall p, In p (X ++ tided w) -> In p (X ++ tided w1)).
  { intros p Hp'. eapply Permutation_in; [apply Permutation_sym; exact Hp|]. right. exact Hp'. }
  assert (Hst : forall st, get_store st w1 = get_store st w) by (intros [|i]; unfold get_store; rewrite ?F5, ?F6; reflexivity).
  constructor; rewrite ?F3, ?F4.
  - eapply Permutation_NoDup; [apply Permutation_sym, Permutation_map, Hp|]. cbn [map fst]. constructor; [|exact H1].
    intros Hx. apply in_map_iff in Hx. destruct Hx as (p & E & Hp'). apply H2 in Hp'. lia.
  - intros p Hp'. eapply Permutation_in in Hp'; [|exact Hp]. destruct Hp' as [<-|Hp']; [cbn; lia|]. apply H2 in Hp'. lia.
  - intros st a k tid. rewrite Hst. intros Hi. destruct (H3 _ _ _ _ Hi) as [Ha Hb]. split; [apply Hin; exact Ha|exact Hb].
  - intros st a. rewrite Hst. apply H4.
  - intros t tid. unfold sleep_of, get_task. rewrite F7. intros Hi. destruct (H5 _ _ Hi) as [Ha Hb]. split; [apply Hin; exact Ha|exact Hb].
  - intros c. unfold open_coll. rewrite F8. intros Hi. destruct (H6 _ Hi) as [Ha Hb]. split; [apply Hin; exact Ha|exact Hb].
  - rewrite F8. intros c co Hi. apply H7 in Hi. lia.
  - intros tid Hi. apply H8 in Hi. lia.
  - intros t. unfold done_sleep, get_task. rewrite F7. apply H9.
Qed.

Lemma call_later_pending X d h w : In (next_id w, h) (X ++ tided (snd (call_later d h w))).
Proof.
  destruct (call_later_frame d h w) as (F1 & _). apply in_or_app. right. unfold tided. rewrite F1.
  apply in_or_app. left. apply in_or_app. right. left. reflexivity.
Qed.
Lemma call_later_not_cancelled X d h w : GP X w -> memN (next_id w) (cancelled (snd (call_later d h w))) = false.
Proof.
  intros Hg. change (cancelled (snd (call_later d h w))) with (cancelled w).
  destruct (memN (next_id w) (cancelled w)) eqn:E; [|reflexivity]. apply (g_canfresh _ _ Hg) in E. lia.
Qed.

(* ------------------------------------------------------------------ cancel *)
Lemma keeps_cancel X tid w : GP X w -> tid < next_id w ->
  (forall st a k, ~ In (k, Some tid) (inner a (get_store st w))) -> (forall t, sleep_of w t <> Some tid) -> open_coll w tid = false ->
  GP X (cancel_timer tid w).
Proof.
  intros [H1 H2 H3 H4 H5 H6 H7 H8 H9] Hlt Hs Ht Hc.
  constructor; try assumption.
  - intros st a k x Hi. change (get_store st (cancel_timer tid w)) with (get_store st w) in Hi.
    destruct (H3 _ _ _ _ Hi) as [Ha Hb]. split; [exact Ha|]. change (cancelled (cancel_timer tid w)) with (tid :: cancelled w).
    rewrite memN_cons, Hb. destruct (N.eqb_spec x tid) as [->|_]; [exfalso; eapply Hs; eauto|reflexivity].
  - intros t x Hi. change (sleep_of (cancel_timer tid w) t) with (sleep_of w t) in Hi.
    destruct (H5 _ _ Hi) as [Ha Hb]. split; [exact Ha|]. change (cancelled (cancel_timer tid w)) with (tid :: cancelled w).
    rewrite memN_cons, Hb. destruct (N.eqb_spec x tid) as [->|_]; [exfalso; eapply Ht; eauto|reflexivity].
  - intros c Hi. change (open_coll (cancel_timer tid w) c) with (open_coll w c) in Hi.
    destruct (H6 _ Hi) as [Ha Hb]. split; [exact Ha|]. change (cancelled (cancel_timer tid w)) with (tid :: cancelled w).
    rewrite memN_cons, Hb. destruct (N.eqb_spec c tid) as [->|_]; [congruence|reflexivity].
  - intros x. change (cancelled (cancel_timer tid w)) with (tid :: cancelled w). rewrite memN_cons.
    destruct (N.eqb_spec x tid) as [->|_]; cbn [orb]; [intros _; exact Hlt|apply H8].
Qed.

(* ------------------------------------------------------------------ neutral composite functions *)
Lemma n_send_subscribe ttl a gs : neutral (send_subscribe ttl a gs).
Proof. intros w. apply n_send_sd. Qed.

Lemma n_note_dup g ep : neutral (note_dup g ep).
Proof. intros w. unfold note_dup. destruct (requested _ _ _); [|apply same_refl]. triv_same. Qed.
Lemma n_subscribe_core g ep : neutral (subscribe_core g ep).
Proof.
  intros w. unfold subscribe_core. destruct (sub_alive _).
  - eapply same_trans; [apply n_set_sub_entries|apply n_call_soon; reflexivity].
  - apply n_set_sub_entries.
Qed.
Lemma n_subscribe_eventgroup g ep : neutral (subscribe_eventgroup g ep).
Proof. intros w. unfold subscribe_eventgroup. eapply same_trans; [apply n_note_dup|apply n_subscribe_core]. Qed.
Lemma n_stop_subscribe_eventgroup g ep b : neutral (stop_subscribe_eventgroup g ep b).
Proof.
  intros w. unfold stop_subscribe_eventgroup. destruct (remove_first _ _ _); [|apply same_refl].
  destruct b; [eapply same_trans; [apply n_set_sub_entries|apply n_call_soon; reflexivity]|apply n_set_sub_entries].
Qed.
Lemma n_listener_offered l s a : neutral (listener_offered l s a).
Proof.
  intros w. destruct l as [id|g]; cbn [listener_offered]; [apply n_emit; reflexivity|].
  destruct (for_service g s); [apply n_subscribe_eventgroup|apply same_refl].
Qed.
Lemma n_listener_stopped l s a : neutral (listener_stopped l s a).
Proof.
  intros w. destruct l as [id|g]; cbn [listener_stopped]; [apply n_emit; reflexivity|].
  destruct (for_service g s); [apply n_stop_subscribe_eventgroup|apply same_refl].
Qed.

Lemma n_notify_service f s a : (forall l, neutral (f l s a)) -> neutral (notify_service f s a).
Proof.
  intros Hf w. unfold notify_service.
  set (w1 := fold_left _ (watched w) w).
  assert (H1 : same w w1).
  { unfold w1. apply (neutral_fold (fun acc p => if matches_service (fst p) s then fold_left (fun acc2 l => f l s a acc2) (snd p) acc else acc)).
    intros p w0. destruct (matches_service (fst p) s); [|apply same_refl].
    apply (neutral_fold (fun acc2 l => f l s a acc2)). intros l. apply Hf. }
  eapply same_trans; [exact H1|]. apply (neutral_fold (fun acc l => f l s a acc)). intros l. apply Hf.
Qed.

(* the two steps that notify a server listener: neutral only in the weaker sense *)
Lemma n_client_subscribed i sub a : neutral0 (fun w => fst (client_subscribed i sub a w)).
Proof. intros w. unfold client_subscribed. destruct (aget N.eqb i (insts w)); cbn [fst]; [apply n0_emit; reflexivity|apply same_refl]. Qed.

Lemma n_store_callback st k a : neutral0 (store_callback st k a).
Proof.
  intros w. destruct st as [|i], k as [s|sub]; cbn [store_callback]; try apply same_refl.
  - apply neutral_0. apply n_notify_service. intros l. apply n_listener_stopped.
  - apply n0_emit; reflexivity.
Qed.

Lemma n_found_iter f g : (forall s a, neutral (g s a)) -> neutral (found_iter f g).
Proof.
  intros Hg w. unfold found_iter.
  apply (neutral_fold (fun acc p => fold_left (fun acc2 q => match fst q with KService s => if f s then g s (fst p) acc2 else acc2 | _ => acc2 end) (snd p) acc)).
  intros p w0. apply (neutral_fold (fun acc2 q => match fst q with KService s => if f s then g s (fst p) acc2 else acc2 | _ => acc2 end)).
  intros q w1. destruct (fst q) as [s|]; [|apply same_refl]. destruct (f s); [apply Hg|apply same_refl].
Qed.

Lemma n_note_multi l : neutral (note_multi l).
Proof.
  intros w. unfold note_multi. destruct l as [id|g]; [|apply same_refl]. destruct (Nat.eqb _ 0); [apply same_refl|]. triv_same.
Qed.
Lemma n_watch_service f l : neutral (watch_service f l).
Proof.
  intros w. unfold watch_service. eapply same_trans; [apply n_note_multi|]. eapply same_trans; [apply n_set_watched|].
  apply n_found_iter. intros s a. apply n_listener_offered.
Qed.
Lemma n_stop_watch_service f l : neutral (stop_watch_service f l).
Proof.
  intros w. unfold stop_watch_service. destruct (remove_first _ _ _).
  - eapply same_trans; [apply n_set_watched|]. apply n_found_iter. intros s a. apply n_listener_stopped.
  - eapply same_trans; [apply n_set_watched|apply n_emit; reflexivity].
Qed.
Lemma n_watch_all_services l : neutral (watch_all_services l).
Proof.
  intros w. unfold watch_all_services. eapply same_trans; [apply n_note_multi|]. eapply same_trans; [apply n_set_watch_all|].
  apply n_found_iter. intros s a. apply n_listener_offered.
Qed.
Lemma n_stop_watch_all_services l : neutral (stop_watch_all_services l).
Proof.
  intros w. unfold stop_watch_all_services. destruct (remove_first _ _ _); [|apply n_emit; reflexivity].
  eapply same_trans; [apply n_set_watch_all|]. apply n_found_iter. intros s a. apply n_listener_stopped.
Qed.
Lemma n_connection_lost : neutral connection_lost.
Proof. intros w. unfold connection_lost. eapply same_trans; [|apply n_call_soon; reflexivity]. eapply same_trans; [|apply n_call_soon; reflexivity]. apply n_call_soon; reflexivity. Qed.

(* ------------------------------------------------------------------ the TimedStore operations *)
Lemma put_store_tided st s w : tided (put_store st s w) = tided w.
Proof. destruct (put_store_frame st s w) as (F1 & F2 & _). unfold tided, tmr, rdy. rewrite F1, F2. reflexivity. Qed.

Lemma kind_clash_sleep X w tid st a k t : NoDup (map fst (X ++ tided w)) ->
  In (tid, HExpired st a k) (X ++ tided w) -> In (tid, HSleepDone t) (X ++ tided w) -> False.
Proof. intros Hn H1 H2. pose proof (nodup_fst_fun _ _ _ _ Hn H1 H2). discriminate. Qed.
Lemma kind_clash_coll X w tid st a k c : NoDup (map fst (X ++ tided w)) ->
  In (tid, HExpired st a k) (X ++ tided w) -> In (tid, HCollector c) (X ++ tided w) -> False.
Proof. intros Hn H1 H2. pose proof (nodup_fst_fun _ _ _ _ Hn H1 H2). discriminate. Qed.

(* remove the entry stored under (an equivalent of) k, without touching its timer *)
Lemma keeps_remove X st a k w : GP X w ->
  GP X (put_store st (aset N.eqb a (adel key_eqb k (inner a (touch a (get_store st w)))) (touch a (get_store st w))) w).
Proof.
  intros Hg. apply keeps_put_store; [exact Hg| |].
  - intros a'. rewrite inner_aset, !inner_touch. destruct (a' =? a); [apply nodupE_adel|]; apply (g_keys _ _ Hg).
  - intros a' k' tid. rewrite inner_aset, !inner_touch. destruct (N.eqb_spec a' a) as [->|_]; intros Hin.
    + apply (g_store _ _ Hg). eapply in_adel_E; eauto.
    + apply (g_store _ _ Hg). exact Hin.
Qed.

Lemma keeps_remove_cancel X st a k w old : GP X w -> aget key_eqb k (inner a (get_store st w)) = Some old ->
  GP X (cancel_opt old (put_store st (aset N.eqb a (adel key_eqb k (inner a (touch a (get_store st w)))) (touch a (get_store st w))) w)).
Proof.
  intros Hg Hget. pose proof (keeps_remove X st a k w Hg) as Hg1.
  set (w1 := put_store st _ w) in *.
  destruct old as [tid|]; [|exact Hg1]. cbn [cancel_opt].
  destruct (aget_in_E _ _ _ Hget) as (k0 & Hin0 & Heq0).
  destruct (g_store _ _ Hg _ _ _ _ Hin0) as [Hh0 _].
  assert (Ht1 : tided w1 = tided w) by apply put_store_tided.
  assert (Hhas : has_store st w = true).
  { destruct st as [|i]; [reflexivity|]. cbn [has_store]. unfold amem. unfold get_store in Hget.
    destruct (aget N.eqb i (insts w)); [reflexivity|]. cbn in Hget. discriminate. }
  apply keeps_cancel; [exact Hg1| | | |].
  - destruct (put_store_frame st (aset N.eqb a (adel key_eqb k (inner a (touch a (get_store st w)))) (touch a (get_store st w))) w) as (_ & _ & _ & F4 & _).
    fold w1 in F4. rewrite F4. apply (g_fresh _ _ Hg) in Hh0. exact Hh0.
  - intros st' a' k' Hin. destruct (g_store _ _ Hg1 _ _ _ _ Hin) as [Hh _]. rewrite Ht1 in Hh.
    pose proof (nodup_fst_fun _ _ _ _ (g_nodup _ _ Hg) Hh Hh0) as E. injection E as -> -> ->.
    unfold w1 in Hin. rewrite get_put_same in Hin by exact Hhas. rewrite inner_aset, N.eqb_refl, inner_touch in Hin.
    pose proof (adel_no_equiv k _ (g_keys _ _ Hg st a) _ Hin) as Hne. cbn [fst] in Hne. congruence.
  - intros t Hsl. destruct (g_sleep _ _ Hg1 _ _ Hsl) as [Hh _]. rewrite Ht1 in Hh.
    eapply kind_clash_sleep; [apply (g_nodup _ _ Hg)|exact Hh0|exact Hh].
  - destruct (open_coll w1 tid) eqn:E; [|reflexivity]. destruct (g_coll _ _ Hg1 _ E) as [Hh _]. rewrite Ht1 in Hh.
    exfalso. eapply kind_clash_coll; [apply (g_nodup _ _ Hg)|exact Hh0|exact Hh].
Qed.

Lemma keeps_store_stop st a k : keeps (store_stop st a k).
Proof.
  intros X w Hg. unfold store_stop. rewrite inner_touch.
  destruct (aget key_eqb k (inner a (get_store st w))) as [old|] eqn:E.
  - eapply same_G; [apply n_store_callback|]. rewrite <- (inner_touch a a (get_store st w)). apply keeps_remove_cancel; assumption.
  - apply keeps_put_store; [exact Hg| |].
    + intros a'. rewrite inner_touch. apply (g_keys _ _ Hg).
    + intros a' k' tid. rewrite inner_touch. apply (g_store _ _ Hg).
Qed.

Lemma keeps_store_expired st a k : keeps (store_expired st a k).
Proof.
  intros X w Hg. unfold store_expired. rewrite inner_touch.
  destruct (aget key_eqb k (inner a (get_store st w))) as [old|] eqn:E.
  - apply GP_ghost. eapply same_G; [apply n_store_callback|]. rewrite <- (inner_touch a a (get_store st w)). apply keeps_remove. exact Hg.
  - apply keeps_put_store; [exact Hg| |].
    + intros a'. rewrite inner_touch. apply (g_keys _ _ Hg).
    + intros a' k' tid. rewrite inner_touch. apply (g_store _ _ Hg).
Qed.

Lemma fold_cancel X st a : forall (l : list (key * option N)) w, GP X w -> inner a (get_store st w) = [] ->
  (forall k tid, In (k, Some tid) l -> In (tid, HExpired st a k) (X ++ tided w)) ->
  GP X (fold_left (fun acc p => store_callback st (fst p) a (cancel_opt (snd p) acc)) l w).
Proof.
  induction l as [|[k0 o] l IH]; intros w Hg He Hh; cbn [fold_left]; [exact Hg|]. cbn [fst snd].
  assert (Hg1 : GP X (cancel_opt o w)).
  { destruct o as [tid|]; [|exact Hg]. cbn [cancel_opt]. pose proof (Hh k0 tid (or_introl eq_refl)) as Hh0.
    apply keeps_cancel; [exact Hg| | | |].
    - apply (g_fresh _ _ Hg) in Hh0. exact Hh0.
    - intros st' a' k' Hin. destruct (g_store _ _ Hg _ _ _ _ Hin) as [Hh1 _].
      pose proof (nodup_fst_fun _ _ _ _ (g_nodup _ _ Hg) Hh1 Hh0) as E. injection E as -> -> ->. rewrite He in Hin. contradiction.
    - intros t Hsl. destruct (g_sleep _ _ Hg _ _ Hsl) as [Hh1 _]. eapply kind_clash_sleep; [apply (g_nodup _ _ Hg)|exact Hh0|exact Hh1].
    - destruct (open_coll w tid) eqn:E; [|reflexivity]. destruct (g_coll _ _ Hg _ E) as [Hh1 _].
      exfalso. eapply kind_clash_coll; [apply (g_nodup _ _ Hg)|exact Hh0|exact Hh1]. }
  pose proof (n_store_callback st k0 a (cancel_opt o w)) as Hs.
  assert (Hc1 : forall st' a', inner a' (get_store st' (cancel_opt o w)) = inner a' (get_store st' w)) by (destruct o; reflexivity).
  assert (Hc2 : tided (cancel_opt o w) = tided w) by (destruct o; reflexivity).
  apply IH.
  - eapply same_G; [apply n_store_callback|exact Hg1].
  - rewrite (sm_store _ _ Hs), Hc1. exact He.
  - intros k tid Hin. rewrite (same_tided _ _ Hs), Hc2. apply Hh. right. exact Hin.
Qed.

Lemma keeps_store_stop_all_for_address st a : keeps (store_stop_all_for_address st a).
Proof.
  intros X w Hg. unfold store_stop_all_for_address. rewrite inner_touch.
  set (s0 := touch a (get_store st w)). set (d0 := inner a (get_store st w)).
  destruct (has_store st w) eqn:Hh.
  - assert (Hg1 : GP X (put_store st (aset N.eqb a [] s0) w)).
    { apply keeps_put_store; [exact Hg| |].
      - intros a'. rewrite inner_aset. unfold s0. rewrite inner_touch. destruct (a' =? a); [constructor|apply (g_keys _ _ Hg)].
      - intros a' k' tid. rewrite inner_aset. unfold s0. rewrite inner_touch. destruct (a' =? a); [intros []|apply (g_store _ _ Hg)]. }
    apply fold_cancel; [exact Hg1| |].
    + rewrite get_put_same by exact Hh. rewrite inner_aset, N.eqb_refl. reflexivity.
    + intros k tid Hin. rewrite put_store_tided. apply (g_store _ _ Hg). exact Hin.
  - (* no such instance: the store is empty, nothing happens *)
    rewrite get_put_missing by exact Hh.
    assert (Hd : d0 = []).
    { unfold d0. destruct st as [|i]; [discriminate|]. cbn [has_store] in Hh. unfold amem in Hh. unfold get_store.
      destruct (aget N.eqb i (insts w)); [discriminate|reflexivity]. }
    rewrite Hd. exact Hg.
Qed.

Lemma keeps_store_stop_all st : keeps (store_stop_all st).
Proof.
  intros X w Hg. unfold store_stop_all.
  apply keeps_put_store.
  - apply (keeps_fold (fun acc p => store_stop_all_for_address st (fst p) acc)); [|exact Hg].
    intros p. apply keeps_store_stop_all_for_address.
  - intros a. constructor.
  - intros a k tid [].
Qed.

(* refresh: the bool is false when the listener rejected a new entry (nothing is recorded then) *)
Definition refresh_tail (st : store_id) (ttl : N) (a : addr) (k : key) (w1 : world) : world * bool :=
  let w1g := ghost (GRefresh st a k ttl) w1 in
  let '(tid, w2) :=
    if ttl =? TTL_FOREVER then (None, w1g)
    else let '(t, w') := call_later (ttl * usec_per_sec) (HExpired st a k) w1g in (Some t, w') in
  let s2 := touch a (get_store st w2) in
  (put_store st (aset N.eqb a (adel key_eqb k (inner a s2) ++ [(k, tid)]) s2) w2, true).

Lemma store_refresh_unfold st ttl a k w :
  store_refresh st ttl a k w =
  let s0 := touch a (get_store st w) in
  let d0 := inner a s0 in
  match aget key_eqb k d0 with
  | Some old => refresh_tail st ttl a k (cancel_opt old (put_store st (aset N.eqb a (adel key_eqb k d0) s0) w))
  | None =>
      match st, k with
      | SFound, KService s => refresh_tail st ttl a k (notify_service listener_offered s a (put_store st s0 w))
      | SSubs i, KSub sub => let '(w', ok) := client_subscribed i sub a (put_store st s0 w) in
                             if negb ok then (w', false) else refresh_tail st ttl a k w'
      | _, _ => refresh_tail st ttl a k (put_store st s0 w)
      end
  end.
Proof.
  unfold store_refresh, refresh_tail. cbv zeta. destruct (aget key_eqb k _); [reflexivity|].
  destruct st as [|i], k as [s|sub]; try reflexivity.
  destruct (client_subscribed i sub a _) as [w' ok]. destruct ok; reflexivity.
Qed.

Lemma keeps_refresh_tail st ttl a k : keeps (fun w => fst (refresh_tail st ttl a k w)).
Proof.
  intros X w0 Hg0. unfold refresh_tail. cbv zeta.
  assert (Hg1 : GP X (ghost (GRefresh st a k ttl) w0)) by (apply GP_ghost; exact Hg0).
  revert Hg1. generalize (ghost (GRefresh st a k ttl) w0). clear w0 Hg0. intros w1 Hg1.
  destruct (ttl =? TTL_FOREVER).
  - cbn [fst]. apply keeps_put_store; [exact Hg1| |].
    + intros a'. rewrite inner_aset, !inner_touch. destruct (a' =? a); [|apply (g_keys _ _ Hg1)].
      apply nodupE_snoc; [apply nodupE_adel, (g_keys _ _ Hg1)|]. apply adel_no_equiv. apply (g_keys _ _ Hg1).
    + intros a' k' tid. rewrite inner_aset, !inner_touch. destruct (N.eqb_spec a' a) as [->|_]; [|apply (g_store _ _ Hg1)].
      intros Hin. apply in_app_iff in Hin. destruct Hin as [Hin|[Hin|[]]]; [|discriminate].
      apply (g_store _ _ Hg1). eapply in_adel_E; eauto.
  - destruct (call_later (ttl * usec_per_sec) (HExpired st a k) w1) as [t w'] eqn:Ecl. cbn [fst].
    assert (Hw' : w' = snd (call_later (ttl * usec_per_sec) (HExpired st a k) w1)) by (rewrite Ecl; reflexivity).
    assert (Ht : t = next_id w1) by (destruct (call_later_frame (ttl * usec_per_sec) (HExpired st a k) w1) as (_&_&_&_&_&_&_&_&F9); rewrite Ecl in F9; exact F9).
    assert (Hg2 : GP X w') by (rewrite Hw'; apply keeps_call_later; exact Hg1).
    apply keeps_put_store; [exact Hg2| |].
    + intros a'. rewrite inner_aset, !inner_touch. destruct (a' =? a); [|apply (g_keys _ _ Hg2)].
      apply nodupE_snoc; [apply nodupE_adel, (g_keys _ _ Hg2)|]. apply adel_no_equiv. apply (g_keys _ _ Hg2).
    + intros a' k' tid. rewrite inner_aset, !inner_touch. destruct (N.eqb_spec a' a) as [->|_]; [|apply (g_store _ _ Hg2)].
      intros Hin. apply in_app_iff in Hin. destruct Hin as [Hin|[Hin|[]]].
      * apply (g_store _ _ Hg2). eapply in_adel_E; eauto.
      * injection Hin as <- <-. subst t. rewrite Hw'. split; [apply call_later_pending|apply (call_later_not_cancelled X); exact Hg1].
Qed.

Lemma keeps_store_refresh st ttl a k : keeps (fun w => fst (store_refresh st ttl a k w)).
Proof.
  intros X w Hg. rewrite store_refresh_unfold. cbv zeta. rewrite inner_touch.
  assert (Hg0 : GP X (put_store st (touch a (get_store st w)) w)).
  { apply keeps_put_store; [exact Hg| |].
    - intros a'. rewrite inner_touch. apply (g_keys _ _ Hg).
    - intros a' k' tid. rewrite inner_touch. apply (g_store _ _ Hg). }
  destruct (aget key_eqb k (inner a (get_store st w))) as [old|] eqn:E.
  - apply keeps_refresh_tail. rewrite <- (inner_touch a a (get_store st w)). apply keeps_remove_cancel; assumption.
  - destruct st as [|i], k as [s|sub]; try (apply keeps_refresh_tail; exact Hg0).
    + apply keeps_refresh_tail. eapply same_G; [|exact Hg0]. apply n_notify_service. intros l. apply n_listener_offered.
    + destruct (client_subscribed i sub a (put_store (SSubs i) (touch a (get_store (SSubs i) w)) w)) as [w' ok] eqn:Ec.
      pose proof (n_client_subscribed i sub a (put_store (SSubs i) (touch a (get_store (SSubs i) w)) w)) as Hs.
      cbv beta in Hs. rewrite Ec in Hs. cbn [fst] in Hs.
      destruct ok; cbn [negb]; [apply keeps_refresh_tail|cbn [fst]]; eapply same_G; eauto.
Qed.

(* ------------------------------------------------------------------ fewer obligations, more fresh ids *)
Lemma GP_weaken X w w' : GP X w ->
  tided w' = tided w -> cancelled w' = cancelled w -> next_id w <= next_id w' ->
  (forall st a, inner a (get_store st w') = inner a (get_store st w)) ->
  (forall t tid, sleep_of w' t = Some tid -> sleep_of w t = Some tid) ->
  (forall c, open_coll w' c = true -> open_coll w c = true) ->
  (forall c co, In (c, co) (collectors w') -> c < next_id w') ->
  (forall t, done_sleep w' t = None) ->
  GP X w'.
Proof.
  intros [H1 H2 H3 H4 H5 H6 H7 H8 H9] Ht Hc Hn Hs Hsl Hco Hcf Hd.
  constructor; rewrite ?Ht, ?Hc; try assumption.
  - intros p Hp. apply H2 in Hp. lia.
  - intros st a k tid. rewrite Hs. apply H3.
  - intros st a. rewrite Hs. apply H4.
  - intros t tid Hi. apply H5. apply Hsl. exact Hi.
  - intros c Hi. apply H6. apply Hco. exact Hi.
  - intros tid Hi. apply H8 in Hi. lia.
Qed.

(* ------------------------------------------------------------------ tasks *)
Lemma sleep_of_put_task t tk w t' : sleep_of (put_task t tk w) t' = if t' =? t then tk_sleep tk else sleep_of w t'.
Proof.
  unfold sleep_of, get_task, put_task. cbn [tasks set_tasks]. destruct (N.eqb_spec t' t) as [->|Hne].
  - rewrite (aget_aset_same N.eqb N.eqb_eq). reflexivity.
  - rewrite (aget_aset_other N.eqb N.eqb_eq) by exact Hne. reflexivity.
Qed.

Lemma done_sleep_put_task t tk w t' : done_sleep (put_task t tk w) t' = if t' =? t then (if tk_done tk then tk_sleep tk else None) else done_sleep w t'.
Proof.
  unfold done_sleep, get_task, put_task. cbn [tasks set_tasks]. destruct (N.eqb_spec t' t) as [->|Hne].
  - rewrite (aget_aset_same N.eqb N.eqb_eq). reflexivity.
  - rewrite (aget_aset_other N.eqb N.eqb_eq) by exact Hne. reflexivity.
Qed.

Lemma keeps_put_task X t tk w : GP X w ->
  (forall tid, tk_sleep tk = Some tid -> tk_done tk = false /\ In (tid, HSleepDone t) (X ++ tided w) /\ memN tid (cancelled w) = false) ->
  GP X (put_task t tk w).
Proof.
  intros [H1 H2 H3 H4 H5 H6 H7 H8 H9] Hn. constructor; try assumption.
  - intros t' tid. rewrite sleep_of_put_task. destruct (N.eqb_spec t' t) as [->|_]; [intros Hs; apply Hn in Hs; tauto|apply H5].
  - intros t'. rewrite done_sleep_put_task. destruct (N.eqb_spec t' t) as [->|_]; [|apply H9].
    destruct (tk_sleep tk) as [tid|] eqn:E; [|destruct (tk_done tk); reflexivity]. destruct (Hn tid eq_refl) as [-> _]. reflexivity.
Qed.

Lemma aget_snoc_N {V} c (l : list (N * V)) x :
  aget N.eqb c (l ++ [x]) = match aget N.eqb c l with Some v => Some v | None => if c =? fst x then Some (snd x) else None end.
Proof.
  induction l as [|[k v] l IH]; cbn [app aget]; [destruct x; reflexivity|]. destruct (c =? k); [reflexivity|exact IH].
Qed.

Lemma keeps_new_task k : keeps (fun w => snd (new_task k w)).
Proof.
  intros X w Hg. unfold new_task. cbn [snd]. eapply same_G; [apply n_call_soon; reflexivity|].
  eapply GP_weaken; [exact Hg|reflexivity|reflexivity|cbn; lia|reflexivity| | | |].
  - intros t tid. unfold sleep_of, get_task. cbn [tasks set_tasks set_next_id]. rewrite aget_snoc_N.
    destruct (aget N.eqb t (tasks w)); [auto|]. destruct (t =? _); cbn; discriminate.
  - intros c Hc. exact Hc.
  - intros c co Hin. cbn in Hin |- *. apply (g_collfresh _ _ Hg) in Hin. lia.
  - intros t. pose proof (g_done _ _ Hg t) as Hd. unfold done_sleep, get_task in *. cbn [tasks set_tasks set_next_id]. rewrite aget_snoc_N.
    destruct (aget N.eqb t (tasks w)); [exact Hd|]. destruct (t =? _); reflexivity.
Qed.

Lemma keeps_finish_task t : keeps (finish_task t).
Proof.
  intros X w Hg. unfold finish_task. destruct (get_task t w); [|exact Hg]. apply keeps_put_task; [exact Hg|]. cbn. discriminate.
Qed.

Lemma keeps_task_sleep t k d pc i : keeps (task_sleep t k d pc i).
Proof.
  intros X w Hg. unfold task_sleep. destruct (d =? 0).
  - eapply same_G; [apply n_call_soon; reflexivity|]. apply keeps_put_task; [exact Hg|]. cbn. discriminate.
  - destruct (call_later d (HSleepDone t) w) as [tid w1] eqn:E.
    assert (Hw1 : w1 = snd (call_later d (HSleepDone t) w)) by (rewrite E; reflexivity).
    assert (Ht : tid = next_id w) by (destruct (call_later_frame d (HSleepDone t) w) as (_&_&_&_&_&_&_&_&F9); rewrite E in F9; exact F9).
    apply keeps_put_task; [rewrite Hw1; apply keeps_call_later; exact Hg|].
    cbn [tk_sleep tk_done]. intros x Hx. injection Hx as <-. subst tid. rewrite Hw1.
    split; [reflexivity|]. split; [apply call_later_pending|apply (call_later_not_cancelled X); exact Hg].
Qed.

Lemma keeps_cancel_task t : keeps (cancel_task t).
Proof.
  intros X w Hg. unfold cancel_task. destruct (get_task t w) as [tk|] eqn:Et; [|exact Hg].
  destruct (tk_done tk); [exact Hg|].
  set (tk' := mkTask (tk_kind tk) (tk_pc tk) (tk_i tk) true None false).
  assert (Hg1 : GP X (put_task t tk' w)) by (apply keeps_put_task; [exact Hg|cbn; discriminate]).
  destruct (tk_sleep tk) as [tid|] eqn:Es; [|exact Hg1].
  assert (Hsl : sleep_of w t = Some tid) by (unfold sleep_of; rewrite Et; exact Es).
  destruct (g_sleep _ _ Hg _ _ Hsl) as [Hh0 _].
  eapply same_G; [apply n_call_soon; reflexivity|]. apply keeps_cancel; [exact Hg1| | | |].
  - apply (g_fresh _ _ Hg) in Hh0. exact Hh0.
  - intros st a k Hin. destruct (g_store _ _ Hg1 _ _ _ _ Hin) as [Hh _].
    eapply kind_clash_sleep; [apply (g_nodup _ _ Hg)|exact Hh|exact Hh0].
  - intros t'. rewrite sleep_of_put_task. destruct (N.eqb_spec t' t) as [->|Hne]; [cbn; discriminate|].
    intros Hs'. destruct (g_sleep _ _ Hg _ _ Hs') as [Hh _].
    pose proof (nodup_fst_fun _ _ _ _ (g_nodup _ _ Hg) Hh Hh0) as E. injection E as ->. contradiction.
  - change (open_coll (put_task t tk' w) tid) with (open_coll w tid).
    destruct (open_coll w tid) eqn:E; [|reflexivity]. destruct (g_coll _ _ Hg _ E) as [Hh _].
    pose proof (nodup_fst_fun _ _ _ _ (g_nodup _ _ Hg) Hh Hh0). discriminate.
Qed.

Lemma keeps_sleep_done t : keeps (sleep_done t).
Proof.
  intros X w Hg. unfold sleep_done. destruct (get_task t w) as [tk|]; [|exact Hg]. destruct (tk_done tk); [exact Hg|].
  eapply same_G; [apply n_call_soon; reflexivity|]. apply keeps_put_task; [exact Hg|cbn; discriminate].
Qed.

(* ------------------------------------------------------------------ send collectors *)
Lemma keys_aset_present {V} c (v : V) l : amem N.eqb c l = true -> map fst (aset N.eqb c v l) = map fst l.
Proof. intros H. pose proof (keys_aset N.eqb c v l) as K. unfold keys in K. rewrite K, H. reflexivity. Qed.

Lemma keeps_queue_send e d : keeps (queue_send e d).
Proof.
  intros X w0 Hg0. unfold queue_send.
  assert (Hg : GP X (ghost (GQueue e d) w0)) by (apply GP_ghost; exact Hg0).
  revert Hg. generalize (ghost (GQueue e d) w0). clear w0 Hg0. intros w Hg. unfold queue_core.
  destruct (t_collect (cfg w) =? 0); [eapply same_G; [apply n_send_sd|]; apply GP_ghost; exact Hg|].
  set (open := match aget dest_eqb d (queues w) with
               | Some c => match aget N.eqb c (collectors w) with Some co => if co_done co then None else Some (c, co) | None => None end
               | None => None end).
  destruct open as [[c co]|] eqn:Eo.
  - (* append to the open collector c: it stays open, nothing else changes *)
    assert (Hc : aget N.eqb c (collectors w) = Some co /\ co_done co = false).
    { unfold open in Eo. destruct (aget dest_eqb d (queues w)) as [c'|]; [|discriminate].
      destruct (aget N.eqb c' (collectors w)) as [co'|] eqn:E2; [|discriminate]. destruct (co_done co') eqn:E3; [discriminate|].
      injection Eo as <- <-. auto. }
    destruct Hc as [Hc1 Hc2].
    eapply GP_weaken; [exact Hg|reflexivity|reflexivity|cbn; lia|reflexivity|intros t tid H; exact H| | |apply (g_done _ _ Hg)].
    + intros c'. unfold open_coll. cbn [collectors set_collectors]. destruct (N.eqb_spec c' c) as [->|Hne].
      * rewrite (aget_aset_same N.eqb N.eqb_eq), Hc1, Hc2. auto.
      * rewrite (aget_aset_other N.eqb N.eqb_eq) by exact Hne. auto.
    + intros c' co' Hin. cbn [collectors set_collectors next_id] in *. apply (in_map fst) in Hin.
      rewrite keys_aset_present in Hin by (unfold amem; rewrite Hc1; reflexivity).
      apply in_map_iff in Hin. destruct Hin as ([c2 co2] & E & Hin). cbn in E. subst c2. eapply (g_collfresh _ _ Hg); eauto.
  - (* a new collector with its own timeout handle *)
    destruct (call_later (t_collect (cfg w)) (HCollector (next_id w)) w) as [tid w1] eqn:E.
    assert (Hw1 : w1 = snd (call_later (t_collect (cfg w)) (HCollector (next_id w)) w)) by (rewrite E; reflexivity).
    assert (Ht : tid = next_id w) by (destruct (call_later_frame (t_collect (cfg w)) (HCollector (next_id w)) w) as (_&_&_&_&_&_&_&_&F9); rewrite E in F9; exact F9).
    assert (Hg1 : GP X w1) by (rewrite Hw1; apply keeps_call_later; exact Hg).
    assert (Hcol : collectors w1 = collectors w) by (rewrite Hw1; reflexivity).
    assert (Hnx : next_id w1 = next_id w + 1) by (rewrite Hw1; reflexivity).
    apply GP_set_queues.
    destruct Hg1 as [H1 H2 H3 H4 H5 H6 H7 H8 H9]. constructor; try assumption.
    + intros c. unfold open_coll. cbn [collectors set_collectors]. rewrite aget_snoc_N. cbn [fst snd co_done negb].
      destruct (aget N.eqb c (collectors w1)) as [co'|] eqn:E2.
      * intros Hc. apply H6. unfold open_coll. rewrite E2. exact Hc.
      * destruct (N.eqb_spec c tid) as [->|_]; [|discriminate]. intros _. subst tid.
        rewrite Hw1. split; [apply call_later_pending|apply (call_later_not_cancelled X); exact Hg].
    + intros c co' Hin. cbn [collectors set_collectors next_id] in *. apply in_app_iff in Hin. destruct Hin as [Hin|[Hin|[]]].
      * eapply H7; eauto.
      * injection Hin as <- _. subst tid. rewrite Hnx. lia.
Qed.

Lemma keeps_collector_timeout c : keeps (collector_timeout c).
Proof.
  intros X w Hg. unfold collector_timeout. destruct (aget N.eqb c (collectors w)) as [co|] eqn:E; [|exact Hg].
  eapply same_G; [apply n_send_sd|].
  assert (Hg' : GP X (ghost (GFlush (co_dest co) (co_data co)) w)) by (apply GP_ghost; exact Hg).
  change (collectors w) with (collectors (ghost (GFlush (co_dest co) (co_data co)) w)) in E |- *.
  revert Hg' E. generalize (ghost (GFlush (co_dest co) (co_data co)) w). clear w Hg. intros w Hg E.
  eapply GP_weaken; [exact Hg|reflexivity|reflexivity|cbn; lia|reflexivity|intros t tid H; exact H| | |apply (g_done _ _ Hg)].
  - intros c'. unfold open_coll. cbn [collectors set_collectors]. destruct (N.eqb_spec c' c) as [->|Hne].
    + rewrite (aget_aset_same N.eqb N.eqb_eq). cbn. discriminate.
    + rewrite (aget_aset_other N.eqb N.eqb_eq) by exact Hne. auto.
  - intros c' co' Hin. cbn [collectors set_collectors next_id] in *. apply (in_map fst) in Hin.
    rewrite keys_aset_present in Hin by (unfold amem; rewrite E; reflexivity).
    apply in_map_iff in Hin. destruct Hin as ([c2 co2] & E2 & Hin). cbn in E2. subst c2. eapply (g_collfresh _ _ Hg); eauto.
Qed.

(* ------------------------------------------------------------------ composite functions of the stack *)
Ltac pair_keeps H E := let K := fresh "K" in pose proof H as K; cbv beta in K; rewrite E in K; cbn [fst snd] in K.

Lemma keeps_subscriber_start : keeps subscriber_start.
Proof.
  intros X w Hg. unfold subscriber_start. destruct (sub_alive w); [exact Hg|].
  destruct (new_task TSub (set_sub_alive true w)) as [t w1] eqn:E.
  eapply same_G; [apply n_set_sub_task|]. pair_keeps (keeps_new_task TSub X (set_sub_alive true w)) E.
  apply K. eapply same_G; [apply n_set_sub_alive|exact Hg].
Qed.

Lemma keeps_subscriber_stop b : keeps (subscriber_stop b).
Proof.
  intros X w Hg. unfold subscriber_stop. destruct (negb (sub_alive w)); [exact Hg|].
  set (w1 := set_sub_alive false w).
  assert (Hg1 : GP X w1) by (eapply same_G; [apply n_set_sub_alive|exact Hg]).
  set (w2 := match sub_task w1 with Some t => set_sub_task None (cancel_task t w1) | None => w1 end).
  assert (Hg2 : GP X w2).
  { unfold w2. destruct (sub_task w1); [|exact Hg1]. eapply same_G; [apply n_set_sub_task|]. apply keeps_cancel_task. exact Hg1. }
  destruct b; [|exact Hg2].
  apply (keeps_fold (fun acc p => call_soon (HSendStopSub (fst p) (snd p)) acc)); [|exact Hg2].
  intros p. apply neutral_keeps. apply n_call_soon. reflexivity.
Qed.

Lemma keeps_subscribe_round t : keeps (subscribe_round t).
Proof.
  intros X w Hg. unfold subscribe_round.
  set (w1 := fold_left _ (group_entries (sub_entries w)) w).
  assert (Hg1 : GP X w1).
  { unfold w1. apply (keeps_fold (fun acc p => send_subscribe (t_subscribe_ttl (cfg acc)) (fst p) (snd p) acc)); [|exact Hg].
    intros p X' w' Hg'. eapply same_G; [apply n_send_subscribe|exact Hg']. }
  destruct (t_refresh (cfg w1)); [apply keeps_task_sleep|apply keeps_finish_task]; exact Hg1.
Qed.

Lemma keeps_handle_offer e a : keeps (handle_offer e a).
Proof.
  intros X w Hg. unfold handle_offer.
  destruct (from_offer_entry e) as [s|]; [|exact Hg].
  destruct (e_ttl e =? 0); [apply keeps_store_stop; exact Hg|].
  destruct (negb (is_watching e w)); [exact Hg|apply keeps_store_refresh; exact Hg].
Qed.

Lemma keeps_discovery_start : keeps discovery_start.
Proof.
  intros X w Hg. unfold discovery_start.
  match goal with |- GP X (if ?b then _ else _) => destruct b end; [exact Hg|].
  destruct (new_task TFind w) as [t w1] eqn:E. eapply same_G; [apply n_set_disc_task|].
  pair_keeps (keeps_new_task TFind X w) E. apply K. exact Hg.
Qed.
Lemma keeps_discovery_stop : keeps discovery_stop.
Proof.
  intros X w Hg. unfold discovery_stop. destruct (disc_task w); [|exact Hg].
  eapply same_G; [apply n_set_disc_task|]. apply keeps_cancel_task. exact Hg.
Qed.

Lemma n_put_inst i ins' w ins : get_inst i w = Some ins -> in_subs ins' = in_subs ins -> same w (put_inst i ins' w).
Proof.
  intros Hget Hs. constructor; try reflexivity; [|exists []; rewrite app_nil_r; split; reflexivity|exists []; rewrite !app_nil_r; split; reflexivity|exists []; rewrite app_nil_r; split; [reflexivity|constructor]]. intros st a. destruct st as [|j]; [reflexivity|].
  unfold get_store, put_inst. cbn [insts set_insts]. destruct (N.eqb_spec j i) as [->|Hne].
  - rewrite (aget_aset_same N.eqb N.eqb_eq). unfold get_inst in Hget. rewrite Hget, Hs. reflexivity.
  - rewrite (aget_aset_other N.eqb N.eqb_eq) by exact Hne. reflexivity.
Qed.

Lemma n_set_can_answer i b : neutral (set_can_answer i b).
Proof. intros w. unfold set_can_answer. destruct (get_inst i w) as [ins|] eqn:E; [|apply same_refl]. eapply n_put_inst; [exact E|reflexivity]. Qed.

Lemma keeps_inst_send_offer i d b : keeps (inst_send_offer i d b).
Proof. intros X w Hg. unfold inst_send_offer. destruct (get_inst i w); [apply keeps_queue_send|]; exact Hg. Qed.

Lemma keeps_inst_start i : keeps (fun w => fst (inst_start i w)).
Proof.
  intros X w Hg. unfold inst_start. destruct (get_inst i w) as [ins|] eqn:Ei; [|exact Hg].
  destruct (in_task ins); [cbn [fst]; eapply same_G; [apply n_emit; reflexivity|exact Hg]|].
  destruct (new_task (TOffer i) w) as [t w1] eqn:E. cbn [fst].
  pair_keeps (keeps_new_task (TOffer i) X w) E.
  assert (Hi1 : get_inst i w1 = Some ins).
  { assert (w1 = snd (new_task (TOffer i) w)) as -> by (rewrite E; reflexivity). exact Ei. }
  eapply same_G; [eapply n_put_inst; [exact Hi1|reflexivity]|]. apply K. exact Hg.
Qed.

Lemma get_inst_cancel_task i t w : get_inst i (cancel_task t w) = get_inst i w.
Proof.
  unfold cancel_task. destruct (get_task t w) as [tk|]; [|reflexivity]. destruct (tk_done tk); [reflexivity|].
  destruct (tk_sleep tk); reflexivity.
Qed.

Lemma keeps_inst_stop i : keeps (fun w => fst (inst_stop i w)).
Proof.
  intros X w Hg. unfold inst_stop. destruct (get_inst i w) as [ins|] eqn:Ei; [|exact Hg].
  destruct (in_task ins) as [t|]; [|cbn [fst]; eapply same_G; [apply n_emit; reflexivity|exact Hg]].
  cbn [fst]. apply keeps_store_stop_all.
  set (w1 := put_inst i _ (cancel_task t w)).
  assert (Hg1 : GP X w1).
  { eapply same_G; [eapply n_put_inst; [rewrite get_inst_cancel_task; exact Ei|reflexivity]|]. apply keeps_cancel_task. exact Hg. }
  destruct (t_cyclic (cfg w1) =? 0); [apply keeps_inst_send_offer|]; exact Hg1.
Qed.

Lemma keeps_for_insts f : (forall i, keeps (fun w => fst (f i w))) -> forall l, keeps (fun w => fst (for_insts f l w)).
Proof.
  intros Hf. induction l as [|i l IH]; intros X w Hg; cbn [for_insts fst]; [exact Hg|].
  destruct (f i w) as [w1 ok] eqn:E. pair_keeps (Hf i X w) E. destruct ok; [apply IH; apply K; exact Hg|cbn [fst]; apply K; exact Hg].
Qed.

Lemma keeps_announcer_start : keeps announcer_start.
Proof.
  intros X w Hg. unfold announcer_start. destruct (for_insts inst_start (announcing w) w) as [w1 ok] eqn:E.
  pair_keeps (keeps_for_insts inst_start keeps_inst_start (announcing w) X w) E.
  destruct ok; [eapply same_G; [apply n_set_ann_started|]|]; apply K; exact Hg.
Qed.
Lemma keeps_announcer_stop : keeps announcer_stop.
Proof.
  intros X w Hg. unfold announcer_stop. destruct (negb (ann_started w)); [exact Hg|].
  destruct (for_insts inst_stop (announcing w) w) as [w1 ok] eqn:E.
  pair_keeps (keeps_for_insts inst_stop keeps_inst_stop (announcing w) X w) E.
  destruct ok; [eapply same_G; [apply n_set_ann_started|]|]; apply K; exact Hg.
Qed.
Lemma keeps_announce_service i : keeps (announce_service i).
Proof.
  intros X w Hg. unfold announce_service. destruct (ann_started w).
  - destruct (inst_start i w) as [w1 ok] eqn:E. pair_keeps (keeps_inst_start i X w) E.
    destruct ok; [eapply same_G; [apply n_set_announcing|]|]; apply K; exact Hg.
  - eapply same_G; [apply n_set_announcing|exact Hg].
Qed.
Lemma keeps_stop_announce_service i b : keeps (stop_announce_service i b).
Proof.
  intros X w Hg. unfold stop_announce_service. destruct (remove_first N.eqb i (announcing w)); [|eapply same_G; [apply n_emit; reflexivity|exact Hg]].
  assert (Hg1 : GP X (set_announcing l w)) by (eapply same_G; [apply n_set_announcing|exact Hg]).
  destruct (b && ann_started (set_announcing l w)); [apply keeps_inst_stop|]; exact Hg1.
Qed.

Lemma keeps_inst_handle_subscribe e a i : keeps (fun w => fst (inst_handle_subscribe e a i w)).
Proof.
  intros X w Hg. unfold inst_handle_subscribe. destruct (get_inst i w) as [ins|]; [|exact Hg].
  destruct (in_task ins); [|exact Hg]. destruct (matches_subscribe (in_service ins) e) as [[|]|]; try exact Hg.
  destruct (e_ttl e =? 0); [cbn [fst]; apply keeps_store_stop; exact Hg|].
  destruct (store_refresh (SSubs i) (sb_ttl (from_subscribe_entry e)) a (KSub (from_subscribe_entry e)) w) as [w1 ok] eqn:E.
  pair_keeps (keeps_store_refresh (SSubs i) (sb_ttl (from_subscribe_entry e)) a (KSub (from_subscribe_entry e)) X w) E.
  destruct ok; cbn [fst]; [apply keeps_queue_send|unfold send_subscribe_nack; apply keeps_queue_send]; apply K; exact Hg.
Qed.

Lemma keeps_announcer_handle_subscribe e a : keeps (announcer_handle_subscribe e a).
Proof.
  intros X w Hg. unfold announcer_handle_subscribe.
  assert (Hf : forall l acc, GP X (fst acc) ->
            GP X (fst (fold_left (fun acc i => let '(w', m) := inst_handle_subscribe e a i (fst acc) in (w', snd acc || m)) l acc))).
  { induction l as [|i l IH]; intros acc Ha; cbn [fold_left]; [exact Ha|]. apply IH.
    destruct (inst_handle_subscribe e a i (fst acc)) as [w' m] eqn:E. cbn [fst].
    pair_keeps (keeps_inst_handle_subscribe e a i X (fst acc)) E. apply K. exact Ha. }
  specialize (Hf (announcing w) (w, false) Hg).
  destruct (fold_left _ (announcing w) (w, false)) as [w1 any]. cbn [fst] in Hf.
  destruct any; [exact Hf|]. unfold send_subscribe_nack. apply keeps_queue_send. exact Hf.
Qed.

Lemma keeps_announcer_handle_findservice e a mc : keeps (announcer_handle_findservice e a mc).
Proof.
  intros X w Hg. unfold announcer_handle_findservice.
  destruct (filter _ (announcing w)) as [|i0 l0] eqn:Ef; [exact Hg|]. destruct mc.
  - destruct (draw (t_rr_min (cfg w)) (t_rr_max (cfg w)) w) as [d w1] eqn:Ed.
    pose proof (n_draw (t_rr_min (cfg w)) (t_rr_max (cfg w)) w) as Hs. cbv beta in Hs. rewrite Ed in Hs. cbn [snd] in Hs.
    apply (keeps_fold (fun acc i => snd (call_later d (HAnswerFind i a) acc))); [|eapply same_G; eauto].
    intros i. apply keeps_call_later.
  - apply (keeps_fold (fun acc i => call_soon (HAnswerFind i a) acc)); [|exact Hg].
    intros i. apply neutral_keeps, n_call_soon. reflexivity.
Qed.

Lemma keeps_answer_find i a : keeps (answer_find i a).
Proof.
  intros X w Hg. unfold answer_find. destruct (get_inst i w) as [ins|]; [|exact Hg].
  destruct (in_can_answer ins); [apply keeps_inst_send_offer|]; exact Hg.
Qed.

Lemma keeps_announcer_reboot_detected a : keeps (announcer_reboot_detected a).
Proof.
  intros X w Hg. unfold announcer_reboot_detected.
  apply (keeps_fold (fun acc i => store_stop_all_for_address (SSubs i) a acc)); [|exact Hg].
  intros i. apply keeps_store_stop_all_for_address.
Qed.

Lemma keeps_offer_next t i inst : keeps (offer_next t i inst).
Proof.
  intros X w Hg. unfold offer_next. destruct (i <? t_rep_max (cfg w)); [apply keeps_task_sleep; exact Hg|].
  destruct (t_cyclic (cfg w) =? 0); [apply keeps_finish_task|apply keeps_task_sleep]; exact Hg.
Qed.
Lemma keeps_find_next t i : keeps (find_next t i).
Proof.
  intros X w Hg. unfold find_next. destruct (i <? t_rep_max (cfg w)); [apply keeps_task_sleep|apply keeps_finish_task]; exact Hg.
Qed.

Lemma keeps_stop_offer_branch t inst : keeps (fun w =>
  let w1 := set_can_answer inst false w in finish_task t (if t_cyclic (cfg w1) =? 0 then w1 else inst_send_offer inst None true w1)).
Proof.
  intros X w Hg. cbv zeta. apply keeps_finish_task.
  assert (Hg1 : GP X (set_can_answer inst false w)) by (eapply same_G; [apply n_set_can_answer|exact Hg]).
  destruct (t_cyclic (cfg (set_can_answer inst false w)) =? 0); [|apply keeps_inst_send_offer]; exact Hg1.
Qed.

Lemma keeps_task_step t : keeps (task_step t).
Proof.
  intros X w Hg. unfold task_step. destruct (get_task t w) as [tk|]; [|exact Hg]. destruct (tk_done tk); [exact Hg|].
  destruct (tk_kind tk) as [| |inst].
  - (* subscriber *)
    destruct (tk_pc tk); destruct (tk_must_cancel tk); try (apply keeps_finish_task; exact Hg); apply keeps_subscribe_round; exact Hg.
  - (* find *)
    destruct (tk_pc tk) as [|p].
    + destruct (tk_must_cancel tk); [apply keeps_finish_task; exact Hg|].
      destruct (watched w); [apply keeps_finish_task; exact Hg|].
      destruct (draw (t_init_min (cfg w)) (t_init_max (cfg w)) w) as [d w1] eqn:Ed.
      pose proof (n_draw (t_init_min (cfg w)) (t_init_max (cfg w)) w) as Hs. cbv beta in Hs. rewrite Ed in Hs. cbn [snd] in Hs.
      apply keeps_task_sleep. eapply same_G; eauto.
    + destruct p; destruct (tk_must_cancel tk); try (apply keeps_finish_task; exact Hg);
        (destruct (find_entries w) eqn:Ef; [apply keeps_finish_task; exact Hg|]; apply keeps_find_next; eapply same_G; [apply n_send_sd|exact Hg]).
  - (* offer *)
    destruct (tk_pc tk) as [|p].
    + destruct (tk_must_cancel tk); [apply keeps_finish_task; exact Hg|].
      destruct (draw (t_init_min (cfg w)) (t_init_max (cfg w)) w) as [d w1] eqn:Ed.
      pose proof (n_draw (t_init_min (cfg w)) (t_init_max (cfg w)) w) as Hs. cbv beta in Hs. rewrite Ed in Hs. cbn [snd] in Hs.
      apply keeps_task_sleep. eapply same_G; eauto.
    + repeat match goal with |- context [match ?q with xI _ => _ | xO _ => _ | xH => _ end] => destruct q end;
      destruct (tk_must_cancel tk);
      first [ apply keeps_finish_task; exact Hg
            | apply (keeps_stop_offer_branch t inst); exact Hg
            | apply keeps_offer_next; first [ eapply same_G; [apply n_set_can_answer|]; apply keeps_inst_send_offer; exact Hg
                                            | apply keeps_inst_send_offer; exact Hg ]
            | apply keeps_task_sleep; apply keeps_inst_send_offer; exact Hg ].
Qed.

Lemma keeps_sd_message_received h a mc : keeps (sd_message_received h a mc).
Proof.
  intros X w Hg. unfold sd_message_received. destruct (negb (sd_unicast h)); [exact Hg|].
  apply (keeps_fold (fun acc e =>
     if e_type e =? ET_OfferService then call_soon (HHandleOffer e a) acc
     else if e_type e =? ET_SubscribeAck then acc
     else if e_type e =? ET_FindService then announcer_handle_findservice e a mc acc
     else if e_type e =? ET_Subscribe then (if mc then acc else announcer_handle_subscribe e a acc)
     else acc)); [|exact Hg].
  intros e X' w' Hg'. destruct (e_type e =? ET_OfferService); [eapply same_G; [apply n_call_soon; reflexivity|exact Hg']|].
  destruct (e_type e =? ET_SubscribeAck); [exact Hg'|].
  destruct (e_type e =? ET_FindService); [apply keeps_announcer_handle_findservice; exact Hg'|].
  destruct (e_type e =? ET_Subscribe); [|exact Hg']. destruct mc; [exact Hg'|apply keeps_announcer_handle_subscribe; exact Hg'].
Qed.

Lemma keeps_reboot_detected a : keeps (reboot_detected a).
Proof.
  intros X w Hg. unfold reboot_detected. eapply same_G; [apply n_call_soon; reflexivity|]. apply keeps_announcer_reboot_detected. exact Hg.
Qed.

Lemma keeps_message_received m a mc : keeps (message_received m a mc).
Proof.
  intros X w Hg. unfold message_received. destruct (negb (is_sd_message m)); [exact Hg|].
  destruct (parse_sd (m_payload m)) as [[h r]|]; [|exact Hg].
  pose proof (n_set_sess_rx w a mc (sd_reboot h) (m_sess m)) as Hrx.
  destruct (check_received (sess w) a mc (sd_reboot h) (m_sess m)) as [rb s']. cbn [snd] in Hrx.
  assert (Hg1 : GP X (set_sess s' w)) by (eapply same_G; [exact Hrx|exact Hg]).
  assert (Hg2 : GP X (if rb then reboot_detected a (set_sess s' w) else set_sess s' w)).
  { destruct rb; [apply keeps_reboot_detected|]; exact Hg1. }
  destruct (resolve_sd h); [apply keeps_sd_message_received|]; exact Hg2.
Qed.

Lemma keeps_datagram_received data a mc : keeps (datagram_received data a mc).
Proof.
  intros X w Hg. unfold datagram_received. apply (keeps_fold (fun acc m => message_received m a mc acc)); [|exact Hg].
  intros m. apply keeps_message_received.
Qed.

Lemma keeps_exec_api c : keeps (exec_api c).
Proof.
  intros X w Hg. destruct c; cbn [exec_api].
  - unfold proto_start. apply keeps_discovery_start, keeps_announcer_start, keeps_subscriber_start. exact Hg.
  - unfold proto_stop. apply keeps_subscriber_stop, keeps_announcer_stop, keeps_discovery_stop. exact Hg.
  - eapply same_G; [apply n_connection_lost|exact Hg].
  - eapply same_G; [apply n_watch_service|exact Hg].
  - eapply same_G; [apply n_stop_watch_service|exact Hg].
  - eapply same_G; [apply n_watch_all_services|exact Hg].
  - eapply same_G; [apply n_stop_watch_all_services|exact Hg].
  - eapply same_G; [apply n_watch_service|exact Hg].
  - eapply same_G; [apply n_stop_watch_service|exact Hg].
  - eapply same_G; [apply n_subscribe_eventgroup|exact Hg].
  - eapply same_G; [apply n_stop_subscribe_eventgroup|exact Hg].
  - apply keeps_subscriber_start; exact Hg.
  - apply keeps_subscriber_stop; exact Hg.
  - apply keeps_discovery_start; exact Hg.
  - apply keeps_discovery_stop; exact Hg.
  - apply keeps_announcer_start; exact Hg.
  - apply keeps_announcer_stop; exact Hg.
  - apply keeps_announce_service; exact Hg.
  - apply keeps_stop_announce_service; exact Hg.
  - apply keeps_queue_send; exact Hg.
  - eapply same_G; [apply n_send_sd|exact Hg].
  - destruct (get_inst i w) as [ins|] eqn:Ei; [|exact Hg]. eapply same_G; [eapply n_put_inst; [exact Ei|reflexivity]|exact Hg].
  - eapply same_G; [apply n_call_soon; reflexivity|exact Hg].
Qed.

(* every callback keeps the invariant, whatever else is pending *)
Theorem keeps_exec h : keeps (exec h).
Proof.
  intros X w Hg. destruct h; cbn [exec].
  - apply keeps_datagram_received; exact Hg.
  - apply keeps_exec_api; exact Hg.
  - apply keeps_subscriber_stop; exact Hg.
  - apply keeps_store_stop_all; exact Hg.
  - apply keeps_announcer_stop; exact Hg.
  - apply keeps_store_stop_all_for_address; exact Hg.
  - apply keeps_handle_offer; exact Hg.
  - eapply same_G; [apply n_send_subscribe|exact Hg].
  - eapply same_G; [apply n_send_subscribe|exact Hg].
  - apply keeps_store_expired; exact Hg.
  - apply keeps_collector_timeout; exact Hg.
  - apply keeps_answer_find; exact Hg.
  - apply keeps_task_step; exact Hg.
  - apply keeps_sleep_done; exact Hg.
Qed.

(* ------------------------------------------------------------------ the loop *)
Definition lstep1 (w : world) : world :=
  match ready w with
  | [] => w
  | (otid, h) :: r =>
      let w1 := set_ready r w in
      if match otid with Some tid => is_cancelled tid w1 | None => false end then w1 else exec h w1
  end.

Lemma run_ready_step n w : run_ready (S n) w = run_ready n (lstep1 w).
Proof.
  unfold lstep1. cbn [run_ready]. destruct (ready w) as [|[otid h] r] eqn:E; [|reflexivity].
  destruct n; cbn [run_ready]; [reflexivity|]. rewrite E. reflexivity.
Qed.

(* the handle being executed still counts as pending while its callback runs *)
Lemma pop_GP w tid h r : G w -> ready w = (Some tid, h) :: r -> GP [(tid, h)] (set_ready r w).
Proof.
  intros [H1 H2 H3 H4 H5 H6 H7 H8 H9] Hr.
  assert (Hp : Permutation ([(tid, h)] ++ tided (set_ready r w)) ([] ++ tided w)).
  { unfold tided, rdy, tmr. cbn [ready set_ready timers app]. rewrite Hr. cbn [flat_map fst snd app].
    apply Permutation_middle. }
  assert (Hin : forall p, In p ([] ++ tided w) -> In p ([(tid, h)] ++ tided (set_ready r w))).
  { intros p Hp'. eapply Permutation_in; [apply Permutation_sym; exact Hp|exact Hp']. }
  constructor; try assumption.
  - eapply Permutation_NoDup; [apply Permutation_sym, Permutation_map, Hp|exact H1].
  - intros p Hp'. apply H2. eapply Permutation_in; [exact Hp|exact Hp'].
  - intros st a k x Hi. destruct (H3 _ _ _ _ Hi) as [Ha Hb]. split; [apply Hin; exact Ha|exact Hb].
  - intros t x Hi. destruct (H5 _ _ Hi) as [Ha Hb]. split; [apply Hin; exact Ha|exact Hb].
  - intros c Hi. destruct (H6 _ Hi) as [Ha Hb]. split; [apply Hin; exact Ha|exact Hb].
Qed.

(* ... and can be forgotten once nobody owns it any more *)
Lemma drop_ghost tid h w : GP [(tid, h)] w ->
  (forall st a k, h = HExpired st a k -> ~ In (k, Some tid) (inner a (get_store st w))) ->
  (forall t, h = HSleepDone t -> sleep_of w t <> Some tid) ->
  (h = HCollector tid -> open_coll w tid = false) ->
  G w.
Proof.
  intros [H1 H2 H3 H4 H5 H6 H7 H8 H9] Hs Ht Hc. constructor; try assumption.
  - cbn [app map fst] in H1. inversion H1; assumption.
  - intros p Hp. apply H2. right. exact Hp.
  - intros st a k x Hi. destruct (H3 _ _ _ _ Hi) as [[Ha|Ha] Hb]; [|split; assumption].
    injection Ha as -> ->. exfalso. eapply Hs; eauto.
  - intros t x Hi. destruct (H5 _ _ Hi) as [[Ha|Ha] Hb]; [|split; assumption].
    injection Ha as -> ->. exfalso. eapply Ht; eauto.
  - intros c Hi. destruct (H6 _ Hi) as [[Ha|Ha] Hb]; [|split; assumption].
    injection Ha as -> ->. rewrite Hc in Hi by reflexivity. discriminate.
Qed.

Lemma aget_none_no_equiv {V} k (l : list (key * V)) : aget key_eqb k l = None -> forall p, In p l -> key_eqb k (fst p) = false.
Proof.
  induction l as [|[k2 v2] l IH]; intros H p Hp; [contradiction|]. cbn [aget] in H. destruct (key_eqb k k2) eqn:E; [discriminate|].
  destruct Hp as [<-|Hp]; [exact E|apply IH; assumption].
Qed.

(* after _expired(key) nothing equivalent to the key is stored at that address *)
Lemma expired_removes X st a k w : GP X w -> forall p, In p (inner a (get_store st (store_expired st a k w))) -> key_eqb k (fst p) = false.
Proof.
  intros Hg p. unfold store_expired. rewrite inner_touch.
  destruct (aget key_eqb k (inner a (get_store st w))) as [old|] eqn:E.
  - change (get_store st (ghost (GExpire st a k) ?x)) with (get_store st x). rewrite (sm_store _ _ (n_store_callback st k a _)).
    destruct (has_store st w) eqn:Hh.
    + rewrite get_put_same by exact Hh. rewrite inner_aset, N.eqb_refl, ?inner_touch. apply adel_no_equiv. apply (g_keys _ _ Hg).
    + rewrite get_put_missing by exact Hh. intros Hp. exfalso.
      destruct st as [|i]; [discriminate|]. cbn [has_store] in Hh. unfold amem in Hh. unfold get_store in E, Hp.
      destruct (aget N.eqb i (insts w)); [discriminate|]. cbn in E. discriminate.
  - destruct (has_store st w) eqn:Hh.
    + rewrite get_put_same by exact Hh. rewrite ?inner_touch. apply aget_none_no_equiv. exact E.
    + rewrite get_put_missing by exact Hh. apply aget_none_no_equiv. exact E.
Qed.

Lemma same_G_weak X w r : tided (set_ready r w) = tided w -> GP X w -> GP X (set_ready r w).
Proof. intros Ht [H1 H2 H3 H4 H5 H6 H7 H8 H9]. constructor; rewrite ?Ht; assumption. Qed.

Theorem G_lstep1 w : G w -> G (lstep1 w).
Proof.
  intros Hg. unfold lstep1. destruct (ready w) as [|[[tid|] h] r] eqn:Hr; [exact Hg| |].
  - pose proof (pop_GP w tid h r Hg Hr) as Hp. cbv zeta.
    destruct (is_cancelled tid (set_ready r w)) eqn:Ec.
    + (* a cancelled handle is skipped: nobody owns it (owners' handles are never cancelled) *)
      unfold is_cancelled in Ec. apply (drop_ghost tid h); [exact Hp| | |].
      * intros st a k -> Hin. destruct (g_store _ _ Hp _ _ _ _ Hin) as [_ Hb]. congruence.
      * intros t -> Hs. destruct (g_sleep _ _ Hp _ _ Hs) as [_ Hb]. congruence.
      * intros ->. destruct (open_coll (set_ready r w) tid) eqn:Eo; [|reflexivity].
        destruct (g_coll _ _ Hp _ Eo) as [_ Hb]. congruence.
    + pose proof (keeps_exec h _ _ Hp) as Hq. apply (drop_ghost tid h); [exact Hq| | |].
      * intros st a k -> Hin. cbn [exec] in Hin.
        pose proof (expired_removes _ st a k _ Hp _ Hin) as Hne. cbn [fst] in Hne. rewrite key_eqb_refl in Hne. discriminate.
      * intros t -> Hs. cbn [exec] in Hs. unfold sleep_done in Hs.
        pose proof (g_done _ _ Hp t) as Hd. unfold done_sleep in Hd. unfold sleep_of in Hs.
        destruct (get_task t (set_ready r w)) as [tk|] eqn:Et; [|rewrite Et in Hs; discriminate].
        destruct (tk_done tk) eqn:Ed.
        -- rewrite Et in Hs. congruence.
        -- unfold get_task, call_soon, put_task in Hs. cbn [tasks set_tasks set_ready] in Hs.
           rewrite (aget_aset_same N.eqb N.eqb_eq) in Hs. cbn in Hs. discriminate.
      * intros ->. cbn [exec]. unfold collector_timeout.
        destruct (aget N.eqb tid (collectors (set_ready r w))) as [co|] eqn:Eco.
        -- rewrite (sm_coll _ _ (n_send_sd _ _ _)). unfold open_coll. cbn [collectors set_collectors].
           rewrite (aget_aset_same N.eqb N.eqb_eq). reflexivity.
        -- unfold open_coll. rewrite Eco. reflexivity.
  - (* a handle without timer id (call_soon / I/O): nothing pending disappears *)
    cbv zeta. apply keeps_exec.
    apply (same_G_weak _ w); [|exact Hg]. unfold tided, tmr, rdy. cbn [ready set_ready timers]. rewrite Hr. reflexivity.
Qed.

Lemma G_run_ready : forall n w, G w -> G (run_ready n w).
Proof. induction n as [|n IH]; intros w Hg; [exact Hg|]. rewrite run_ready_step. apply IH, G_lstep1, Hg. Qed.

Lemma perm_insert x l : Permutation (insert_by_when x l) (x :: l).
Proof.
  induction l as [|y l IH]; cbn [insert_by_when]; [apply Permutation_refl|].
  destruct (fst (fst x) <=? fst (fst y)); [apply Permutation_refl|].
  eapply Permutation_trans; [apply perm_skip, IH|apply perm_swap].
Qed.
Lemma perm_sort l : Permutation (sort_by_when l) l.
Proof.
  unfold sort_by_when. induction l as [|x l IH]; cbn [fold_right]; [apply Permutation_refl|].
  eapply Permutation_trans; [apply perm_insert|apply perm_skip, IH].
Qed.

Lemma nodup_key_filter2 {A K} (kf : A -> K) (f g : A -> bool) (l : list A) :
  (forall p, f p = true -> g p = true -> False) -> NoDup (map kf l) -> NoDup (map kf (filter f l ++ filter g l)).
Proof.
  intros Hd. induction l as [|p l IH]; intros Hn; cbn [filter app map]; [constructor|].
  cbn [map] in Hn. inversion Hn as [|? ? Hni Hn']; subst.
  assert (Hsub : forall q, In q (map kf (filter f l ++ filter g l)) -> In q (map kf l)).
  { intros q Hq. apply in_map_iff in Hq. destruct Hq as (z & <- & Hz). apply in_map. apply in_app_iff in Hz.
    destruct Hz as [Hz|Hz]; apply filter_In in Hz; tauto. }
  destruct (f p) eqn:Ef, (g p) eqn:Eg.
  - exfalso. eauto.
  - cbn [app map]. constructor; [intros Hx; apply Hni, Hsub, Hx|apply IH, Hn'].
  - rewrite map_app. cbn [map].
    apply (Permutation_NoDup (l := kf p :: map kf (filter f l) ++ map kf (filter g l))); [apply Permutation_middle|].
    constructor; [rewrite <- map_app; intros Hx; apply Hni, Hsub, Hx|rewrite <- map_app; apply IH, Hn'].
  - apply IH, Hn'.
Qed.

Lemma nodup_app_intro {A} (l1 l2 : list A) : NoDup l1 -> NoDup l2 -> (forall x, In x l1 -> In x l2 -> False) -> NoDup (l1 ++ l2).
Proof.
  induction l1 as [|x l1 IH]; intros H1 H2 Hd; cbn [app]; [exact H2|]. inversion H1 as [|? ? Hni Hn']; subst.
  constructor; [intros Hx; apply in_app_iff in Hx; destruct Hx as [Hx|Hx]; [contradiction|eapply Hd; [left; reflexivity|exact Hx]]|].
  apply IH; [exact Hn'|exact H2|]. intros y Hy1 Hy2. eapply Hd; [right; exact Hy1|exact Hy2].
Qed.
Lemma nodup_app_elim {A} (l1 l2 : list A) : NoDup (l1 ++ l2) -> NoDup l1 /\ NoDup l2 /\ (forall x, In x l1 -> In x l2 -> False).
Proof.
  induction l1 as [|x l1 IH]; cbn [app]; intros H; [repeat split; [constructor|exact H|intros x []]|].
  inversion H as [|? ? Hni Hn']; subst. destruct (IH Hn') as (A1 & A2 & A3). repeat split; [|exact A2|].
  - constructor; [intros Hx; apply Hni; apply in_or_app; left; exact Hx|exact A1].
  - intros y [<-|Hy] Hy2; [apply Hni; apply in_or_app; right; exact Hy2|eapply A3; eauto].
Qed.

Lemma rdy_of_timers (l : list (N * N * handle)) :
  flat_map (fun r : option N * handle => match fst r with Some tid => [(tid, snd r)] | None => [] end)
           (map (fun t : N * N * handle => (Some (snd (fst t)), snd t)) l)
  = map (fun t : N * N * handle => (snd (fst t), snd t)) l.
Proof. induction l as [|x l IH]; cbn; [reflexivity|]. f_equal. exact IH. Qed.

(* one iteration of the loop: arrivals are appended, due timers move to the ready queue (cancelled ones vanish), then
   exactly the queued handles run *)
(* the state in which the queued handles start to run *)
Definition iter_pre (arrivals : list handle) (rev_ties : bool) (w : world) : world :=
  let w1 := fold_left (fun acc h => call_soon h acc) arrivals w in
  let due := filter (fun t => (fst (fst t) <=? now w1) && negb (is_cancelled (snd (fst t)) w1)) (timers w1) in
  let rest := filter (fun t => negb (fst (fst t) <=? now w1)) (timers w1) in
  let due' := sort_by_when (if rev_ties then rev due else due) in
  set_timers rest (set_ready (ready w1 ++ map (fun t => (Some (snd (fst t)), snd t)) due') w1).
Lemma iteration_pre arrivals rv w : iteration arrivals rv w = run_ready (length (ready (iter_pre arrivals rv w))) (iter_pre arrivals rv w).
Proof. reflexivity. Qed.

Lemma iter_pre_sub arrivals rv w : let w1 := fold_left (fun acc h => call_soon h acc) arrivals w in
  (forall p, In p (tided (iter_pre arrivals rv w)) -> In p (tided w1))
  /\ cancelled (iter_pre arrivals rv w) = cancelled w1 /\ found (iter_pre arrivals rv w) = found w1 /\ insts (iter_pre arrivals rv w) = insts w1.
Proof.
  cbv zeta. unfold iter_pre. cbv zeta. set (w1 := fold_left (fun acc h => call_soon h acc) arrivals w).
  repeat split. intros p Hp. unfold tided, tmr, rdy in *. cbn [timers ready set_timers set_ready] in Hp.
  rewrite flat_map_app, rdy_of_timers in Hp. apply in_app_iff in Hp. apply in_or_app.
  destruct Hp as [Hp|Hp].
  - left. apply in_map_iff in Hp. destruct Hp as (t & <- & Ht).
    apply (in_map (fun t0 : N * N * handle => (snd (fst t0), snd t0))). apply filter_In in Ht. tauto.
  - apply in_app_iff in Hp. destruct Hp as [Hp|Hp]; [right; exact Hp|left].
    apply in_map_iff in Hp. destruct Hp as (t & <- & Ht). apply (in_map (fun t0 : N * N * handle => (snd (fst t0), snd t0))).
    eapply Permutation_in in Ht; [|apply perm_sort]. destruct rv; [apply in_rev in Ht|]; apply filter_In in Ht; tauto.
Qed.

Theorem G_iter_pre arrivals rv w : G w -> G (iter_pre arrivals rv w).
Proof.
  intros Hg. unfold iter_pre.
  set (w1 := fold_left (fun acc h => call_soon h acc) arrivals w).
  assert (Hg1 : G w1).
  { unfold w1. apply (keeps_fold (fun acc h => call_soon h acc)); [|exact Hg]. intros h X' w' Hg'. apply keeps_call_soon_any. exact Hg'. }
  set (isdue := fun t : N * N * handle => (fst (fst t) <=? now w1) && negb (is_cancelled (snd (fst t)) w1)).
  set (islater := fun t : N * N * handle => negb (fst (fst t) <=? now w1)).
  set (due := filter isdue (timers w1)). set (rest := filter islater (timers w1)).
  set (due' := sort_by_when (if rv then rev due else due)).
  set (w2 := set_timers rest (set_ready (ready w1 ++ map (fun t => (Some (snd (fst t)), snd t)) due') w1)).
  change (G w2).
  assert (Hpd : Permutation due' due).
  { unfold due'. eapply Permutation_trans; [apply perm_sort|]. destruct rv; [apply Permutation_sym, Permutation_rev|apply Permutation_refl]. }
  pose (tf := fun t : N * N * handle => (snd (fst t), snd t)).
  assert (Ht2 : Permutation (tided w2) (map tf (rest ++ due) ++ rdy w1)).
  { unfold tided, tmr, rdy, w2. cbn [timers ready set_timers set_ready]. rewrite flat_map_app, rdy_of_timers. fold tf.
    rewrite map_app, <- app_assoc. apply Permutation_app_head.
    eapply Permutation_trans; [apply Permutation_app_comm|]. apply Permutation_app_tail. apply Permutation_map. exact Hpd. }
  assert (Hin2 : forall p, In p (map tf (rest ++ due)) -> In p (map tf (timers w1))).
  { intros p Hp. apply in_map_iff in Hp. destruct Hp as (t & <- & Ht). apply in_map. apply in_app_iff in Ht.
    destruct Ht as [Ht|Ht]; apply filter_In in Ht; tauto. }
  assert (Hsub : forall p, In p (tided w2) -> In p (tided w1)).
  { intros p Hp. eapply Permutation_in in Hp; [|exact Ht2]. unfold tided, tmr. fold tf.
    apply in_app_iff in Hp. apply in_or_app. destruct Hp as [Hp|Hp]; [left; apply Hin2; exact Hp|right; exact Hp]. }
  assert (Hkeep : forall p, In p (tided w1) -> memN (fst p) (cancelled w1) = false -> In p (tided w2)).
  { intros p Hp Hc. eapply Permutation_in; [apply Permutation_sym; exact Ht2|]. unfold tided, tmr in Hp. fold tf in Hp.
    apply in_app_iff in Hp. apply in_or_app. destruct Hp as [Hp|Hp]; [left|right; exact Hp].
    apply in_map_iff in Hp. destruct Hp as (t & <- & Ht). apply in_map. apply in_or_app.
    destruct (fst (fst t) <=? now w1) eqn:E.
    - right. apply filter_In. split; [exact Ht|]. unfold isdue, is_cancelled. rewrite E. cbn [tf fst] in Hc. rewrite Hc. reflexivity.
    - left. apply filter_In. split; [exact Ht|]. unfold islater. rewrite E. reflexivity. }
  destruct Hg1 as [H1 H2 H3 H4 H5 H6 H7 H8 H9]. cbn [app] in *. constructor; cbn [app]; try assumption.
  - eapply Permutation_NoDup; [apply Permutation_sym, Permutation_map, Ht2|].
    unfold tided, tmr in H1. fold tf in H1. rewrite map_app in H1 |- *.
    destruct (nodup_app_elim _ _ H1) as (A1 & A2 & A3).
    apply nodup_app_intro; [|exact A2|].
    + rewrite map_map. rewrite map_map in A1. apply nodup_key_filter2; [|exact A1].
      intros t Ha Hb. unfold islater, isdue in *. destruct (fst (fst t) <=? now w1); cbn in *; discriminate.
    + intros x Hx1 Hx2. apply (A3 x); [|exact Hx2]. apply in_map_iff in Hx1. destruct Hx1 as (p & <- & Hp). apply in_map. apply Hin2. exact Hp.
  - intros p Hp. apply H2. apply Hsub. exact Hp.
  - intros st a k tid Hi. destruct (H3 _ _ _ _ Hi) as [Ha Hb]. split; [|exact Hb]. apply Hkeep; [exact Ha|exact Hb].
  - intros t tid Hi. destruct (H5 _ _ Hi) as [Ha Hb]. split; [|exact Hb]. apply Hkeep; [exact Ha|exact Hb].
  - intros c Hi. destruct (H6 _ Hi) as [Ha Hb]. split; [|exact Hb]. apply Hkeep; [exact Ha|exact Hb].
Qed.

Theorem G_iteration arrivals rv w : G w -> G (iteration arrivals rv w).
Proof. intros Hg. rewrite iteration_pre. apply G_run_ready. apply G_iter_pre. exact Hg. Qed.

Theorem G_run : forall fuel events t_end rv w, G w -> G (fst (run fuel events t_end rv w)).
Proof.
  induction fuel as [|f IH]; intros events t_end rv w Hg; cbn [run fst]; [exact Hg|].
  destruct (split_arrived (now w) events) as [arrived later].
  set (dn := match next_timer w with Some t => t <=? now w | None => false end).
  destruct (ready w) as [|x r] eqn:Er; [destruct arrived as [|a ar]; [destruct dn|]|];
    try (apply IH; apply G_iteration; exact Hg).
  destruct (omin _ _) as [t|]; [|exact Hg]. destruct (t_end <? t); [exact Hg|].
  apply IH. apply GP_set_now. exact Hg.
Qed.

From PS Require Import Model.StackIO.

(* worlds whose instances start with empty subscription stores (every scenario decoded by StackIO.d_inst) *)
Definition fresh_insts (ins : list (N * inst)) : Prop := forall i x, In (i, x) ins -> in_subs x = [].

Lemma aget_in_N {V} c (l : list (N * V)) v : aget N.eqb c l = Some v -> In (c, v) l.
Proof.
  induction l as [|[k x] l IH]; cbn [aget]; [discriminate|]. destruct (N.eqb_spec c k) as [->|_].
  - intros H; injection H as ->. left. reflexivity.
  - intros H. right. apply IH, H.
Qed.

Lemma G_empty now0 c ins dr : fresh_insts ins ->
  G (mkWorld now0 [] [] [] 1 c sess_init false None [] [] [] [] None false [] ins [] [] [] dr [] []).
Proof.
  intros Hf.
  assert (Hst : forall st a, inner a (get_store st (mkWorld now0 [] [] [] 1 c sess_init false None [] [] [] [] None false [] ins [] [] [] dr [] [])) = []).
  { intros [|i] a; cbn; [reflexivity|]. unfold get_store. cbn [insts]. destruct (aget N.eqb i ins) as [x|] eqn:E; [|reflexivity].
    apply aget_in_N in E. rewrite (Hf _ _ E). reflexivity. }
  constructor.
  - cbn. constructor.
  - cbn. intros p [].
  - intros st a k tid. rewrite Hst. intros [].
  - intros st a. rewrite Hst. constructor.
  - intros t tid. cbn. discriminate.
  - intros x. cbn. discriminate.
  - cbn. intros x co [].
  - cbn. intros tid. discriminate.
  - intros t. reflexivity.
Qed.

Lemma d_inst_fresh s p : d_inst s = Some p -> in_subs (snd p) = [].
Proof.
  destruct s as [| |l]; try discriminate. cbn [d_inst].
  destruct l as [|[i| |] [|svc [|rej [|]]]]; try discriminate.
  destruct (d_service svc); cbn [obind]; [|discriminate]. destruct (dlist dN rej); cbn [obind]; [|discriminate].
  intros H; injection H as <-. reflexivity.
Qed.

Lemma dmap_inst_fresh : forall l ins, dmap d_inst l = Some ins -> fresh_insts ins.
Proof.
  induction l as [|s l IH]; intros ins H; cbn [dmap] in H.
  - injection H as <-. intros i x [].
  - destruct (d_inst s) as [p|] eqn:E; cbn [obind] in H; [|discriminate].
    destruct (dmap d_inst l) as [r|] eqn:E2; cbn [obind] in H; [|discriminate]. injection H as <-.
    intros i x [Hin|Hin]; [subst p; apply (d_inst_fresh _ _ E)|eapply IH; eauto].
Qed.

(* every scenario the runner accepts starts in a state that satisfies the invariant, hence every reachable state does *)
Theorem G_reachable s sc : d_scenario s = Some sc -> G (fst (run_scenario sc)).
Proof.
  intros Hd. unfold run_scenario. apply G_run. unfold init_world. apply G_empty.
  destruct s as [| |l]; try discriminate. cbn [d_scenario] in Hd.
  destruct l as [|c [|ins [|dr [|ev [|[te| |] [|rv [|[fu| |] [|]]]]]]]]; try discriminate.
  destruct (d_timings c); cbn [obind] in Hd; [|discriminate].
  destruct (dlist d_inst ins) as [ins'|] eqn:Ei; cbn [obind] in Hd; [|discriminate].
  destruct (dlist dN dr); cbn [obind] in Hd; [|discriminate].
  destruct (dlist d_event_in ev); cbn [obind] in Hd; [|discriminate].
  destruct (dbool rv); cbn [obind] in Hd; [|discriminate]. injection Hd as <-. cbn [sc_insts].
  unfold dlist in Ei. destruct (dL ins); cbn [obind] in Ei; [|discriminate]. eapply dmap_inst_fresh; eauto.
Qed.
