(* Deadlines of the send collectors, end to end on the loop model: every callback leaves clock and configuration alone and
   arms a collector timeout only for exactly now + collection timeout.  Hence in every reachable state every pending
   collector timeout is due no later than one collection timeout from now: an entry appended to an open collector now
   leaves within the timeout (the timer callback runs exactly at its deadline: Proofs/WorldTime.v; it transmits the
   collected entries: collector_timeout_spec; the open collector owns that timer: Proofs/WorldInv.v).
   The composite lemmas mirror the E_* lemmas of Proofs/WorldTime.v. *)
From Coq Require Import Lia Permutation.
From PS Require Import Lib.Base Lib.Struct Generated.Consts Model.SdTypes Model.Config Model.Session Model.Someip Model.SdCodec
  Model.StackTypes Model.Stack Model.StackIO Proofs.AListFacts Proofs.KeyEquiv Proofs.QueueProofs Proofs.WorldInv Proofs.WorldTime.

Definition armed (w : world) (t : N * N * handle) : Prop :=
  match snd t with HCollector _ => fst (fst t) = now w + t_collect (cfg w) | _ => True end.

Record cext (w w' : world) : Prop := mkCext {
  cx_now : now w' = now w;
  cx_cfg : cfg w' = cfg w;
  cx_tmr : forall t, In t (timers w') -> In t (timers w) \/ armed w t }.

Lemma cext_refl w : cext w w. Proof. constructor; auto. Qed.
Lemma cext_trans a b c : cext a b -> cext b c -> cext a c.
Proof.
  intros [A1 A2 A3] [B1 B2 B3]. constructor; [congruence|congruence|].
  intros t Ht. destruct (B3 t Ht) as [H|H]; [apply A3; exact H|right; unfold armed in *; rewrite <- A1, <- A2; exact H].
Qed.
Definition C (f : world -> world) : Prop := forall w, cext w (f w).
Lemma C_comp f g : C f -> C g -> C (fun w => f (g w)).
Proof. intros Hf Hg w. eapply cext_trans; [apply Hg|apply Hf]. Qed.
Lemma C_fold {Y} (f : world -> Y -> world) l : (forall x, C (fun w => f w x)) -> C (fun w => fold_left f l w).
Proof. intros H. induction l as [|x l IH]; intros w; cbn [fold_left]; [apply cext_refl|]. eapply cext_trans; [apply (H x w)|apply IH]. Qed.
Lemma same_cext {b} w w' : sameb b w w' -> cext w w'.
Proof. intros Hs. constructor; [apply (sm_now _ _ Hs)|apply (sm_cfg _ _ Hs)|rewrite (sm_tmr _ _ Hs); auto]. Qed.
Lemma C_neutral {b} f : (forall w, sameb b w (f w)) -> C f.
Proof. intros H w. eapply same_cext, H. Qed.

(* ---- primitives *)
Definition coll_ok (d : N) (h : handle) (w : world) : Prop :=
  match h with HCollector _ => d = t_collect (cfg w) | _ => True end.
Lemma C_call_later d h w : coll_ok d h w -> cext w (snd (call_later d h w)).
Proof.
  intros Hok. constructor; [reflexivity|reflexivity|]. intros t Ht. cbn in Ht. apply in_app_iff in Ht.
  destruct Ht as [Ht|[<-|[]]]; [left; exact Ht|right]. unfold armed. cbn [snd fst]. unfold coll_ok in Hok.
  destruct h; try exact I. rewrite Hok. reflexivity.
Qed.
Lemma C_cancel tid : C (cancel_timer tid). Proof. intros w. constructor; auto. Qed.
Lemma C_cancel_opt o : C (cancel_opt o). Proof. destruct o; [apply C_cancel|intros w; apply cext_refl]. Qed.
Lemma C_put_store st s : C (put_store st s).
Proof.
  intros w. destruct (put_store_frame st s w) as (F1 & F2 & F3 & _).
  constructor; [destruct st as [|i]; cbn; [reflexivity|destruct (aget N.eqb i (insts w)); reflexivity]
               |destruct st as [|i]; cbn; [reflexivity|destruct (aget N.eqb i (insts w)); reflexivity]|rewrite F1; auto].
Qed.
Lemma C_put_task t tk : C (put_task t tk). Proof. intros w. constructor; auto. Qed.
Lemma C_put_inst i x : C (put_inst i x). Proof. intros w. constructor; auto. Qed.
Lemma C_set_collectors c : C (set_collectors c). Proof. intros w. constructor; auto. Qed.
Lemma C_ghost g : C (ghost g). Proof. intros w. constructor; auto. Qed.
Lemma C_set_tasks c : C (set_tasks c). Proof. intros w. constructor; auto. Qed.
Lemma C_set_next_id c : C (set_next_id c). Proof. intros w. constructor; auto. Qed.
Lemma C_call_soon h : C (call_soon h). Proof. intros w. constructor; auto. Qed.

(* ---- store operations *)
Lemma C_store_stop st a k : C (store_stop st a k).
Proof.
  intros w. unfold store_stop. destruct (aget key_eqb k _); [|apply C_put_store].
  eapply cext_trans; [|eapply C_neutral, n_store_callback]. eapply cext_trans; [apply C_put_store|apply C_cancel_opt].
Qed.
Lemma C_store_expired st a k : C (store_expired st a k).
Proof.
  intros w. unfold store_expired. destruct (aget key_eqb k _); [|apply C_put_store].
  eapply cext_trans; [|apply C_ghost]. eapply cext_trans; [apply C_put_store|eapply C_neutral, n_store_callback].
Qed.
Lemma C_store_stop_all_for_address st a : C (store_stop_all_for_address st a).
Proof.
  intros w. unfold store_stop_all_for_address. eapply cext_trans; [apply C_put_store|].
  apply (C_fold (fun acc p => store_callback st (fst p) a (cancel_opt (snd p) acc))). intros p w0.
  eapply cext_trans; [apply C_cancel_opt|eapply C_neutral, n_store_callback].
Qed.
Lemma C_store_stop_all st : C (store_stop_all st).
Proof.
  intros w. unfold store_stop_all. eapply cext_trans; [|apply C_put_store].
  apply (C_fold (fun acc p => store_stop_all_for_address st (fst p) acc)). intros p. apply C_store_stop_all_for_address.
Qed.
Lemma C_refresh_tail st ttl a k : C (fun w => fst (refresh_tail st ttl a k w)).
Proof.
  intros w0. unfold refresh_tail. cbv zeta. apply (cext_trans _ (ghost (GRefresh st a k ttl) w0)); [apply C_ghost|].
  generalize (ghost (GRefresh st a k ttl) w0). clear w0. intros w.
  destruct (ttl =? TTL_FOREVER); [cbn [fst]; apply C_put_store|].
  destruct (call_later (ttl * usec_per_sec) (HExpired st a k) w) as [t w'] eqn:Ec. cbn [fst].
  assert (w' = snd (call_later (ttl * usec_per_sec) (HExpired st a k) w)) as -> by (rewrite Ec; reflexivity).
  eapply cext_trans; [apply (C_call_later (ttl * usec_per_sec) (HExpired st a k) w I)|apply C_put_store].
Qed.
Lemma C_store_refresh st ttl a k : C (fun w => fst (store_refresh st ttl a k w)).
Proof.
  intros w. rewrite store_refresh_unfold. cbv zeta. destruct (aget key_eqb k _) as [old|].
  - eapply cext_trans; [|apply C_refresh_tail]. eapply cext_trans; [apply C_put_store|apply C_cancel_opt].
  - destruct st as [|i], k as [s|sub]; try (eapply cext_trans; [apply C_put_store|apply C_refresh_tail]).
    + eapply cext_trans; [|apply C_refresh_tail]. eapply cext_trans; [apply C_put_store|].
      eapply C_neutral. apply n_notify_service. intros l. apply n_listener_offered.
    + destruct (client_subscribed i sub a _) as [w' ok] eqn:Ec.
      match type of Ec with client_subscribed _ _ _ ?w0 = _ => pose proof (n_client_subscribed i sub a w0) as Hs; cbv beta in Hs; rewrite Ec in Hs; cbn [fst] in Hs end.
      destruct ok; cbn [negb fst]; (eapply cext_trans; [apply C_put_store|]); [eapply cext_trans; [eapply same_cext; exact Hs|apply C_refresh_tail]|eapply same_cext; exact Hs].
Qed.

(* ---- tasks, collectors *)
Lemma C_new_task k : C (fun w => snd (new_task k w)).
Proof. intros w. unfold new_task. cbn [snd]. eapply cext_trans; [|apply C_call_soon]. constructor; auto. Qed.
Lemma C_finish_task t : C (finish_task t).
Proof. intros w. unfold finish_task. destruct (get_task t w); [apply C_put_task|apply cext_refl]. Qed.
Lemma C_task_sleep t k d pc i : C (task_sleep t k d pc i).
Proof.
  intros w. unfold task_sleep. destruct (d =? 0); [eapply cext_trans; [apply C_put_task|apply C_call_soon]|].
  destruct (call_later d (HSleepDone t) w) as [tid w1] eqn:Ec.
  assert (w1 = snd (call_later d (HSleepDone t) w)) as -> by (rewrite Ec; reflexivity).
  eapply cext_trans; [apply (C_call_later d (HSleepDone t) w I)|apply C_put_task].
Qed.
Lemma C_cancel_task t : C (cancel_task t).
Proof.
  intros w. unfold cancel_task. destruct (get_task t w) as [tk|]; [|apply cext_refl]. destruct (tk_done tk); [apply cext_refl|].
  destruct (tk_sleep tk); [|apply C_put_task].
  eapply cext_trans; [apply C_put_task|]. eapply cext_trans; [apply C_cancel|apply C_call_soon].
Qed.
Lemma C_sleep_done t : C (sleep_done t).
Proof. intros w. unfold sleep_done. destruct (get_task t w) as [tk|]; [|apply cext_refl]. destruct (tk_done tk); [apply cext_refl|]. eapply cext_trans; [apply C_put_task|apply C_call_soon]. Qed.
Lemma C_queue_send e d : C (queue_send e d).
Proof.
  intros w0. unfold queue_send. apply (cext_trans _ (ghost (GQueue e d) w0)); [apply C_ghost|]. generalize (ghost (GQueue e d) w0). clear w0.
  intros w. unfold queue_core. destruct (t_collect (cfg w) =? 0); [eapply cext_trans; [apply C_ghost|eapply C_neutral, n_send_sd]|].
  match goal with |- cext w (match ?o with Some _ => _ | None => _ end) => destruct o as [[c co]|] end; [apply C_set_collectors|].
  destruct (call_later (t_collect (cfg w)) (HCollector (next_id w)) w) as [tid w1] eqn:Ec.
  assert (w1 = snd (call_later (t_collect (cfg w)) (HCollector (next_id w)) w)) as -> by (rewrite Ec; reflexivity).
  eapply cext_trans; [apply (C_call_later (t_collect (cfg w)) (HCollector (next_id w)) w eq_refl)|]. constructor; auto.
Qed.
Lemma C_collector_timeout c : C (collector_timeout c).
Proof.
  intros w. unfold collector_timeout. destruct (aget N.eqb c (collectors w)); [|apply cext_refl].
  eapply cext_trans; [|eapply C_neutral, n_send_sd]. eapply cext_trans; [apply C_ghost|apply C_set_collectors].
Qed.

(* ---- composite functions *)
Ltac pair_C H E0 := let K := fresh "K" in pose proof H as K; cbv beta in K; rewrite E0 in K; cbn [fst snd] in K.

Lemma C_subscriber_start : C subscriber_start.
Proof.
  intros w. unfold subscriber_start. destruct (sub_alive w); [apply cext_refl|].
  destruct (new_task TSub (set_sub_alive true w)) as [t w1] eqn:E0. pair_C (C_new_task TSub (set_sub_alive true w)) E0.
  eapply cext_trans; [|eapply C_neutral, n_set_sub_task]. eapply cext_trans; [eapply C_neutral, n_set_sub_alive|exact K].
Qed.
Lemma C_subscriber_stop b : C (subscriber_stop b).
Proof.
  intros w. unfold subscriber_stop. destruct (negb (sub_alive w)); [apply cext_refl|].
  set (w1 := set_sub_alive false w). assert (H1 : cext w w1) by (eapply C_neutral, n_set_sub_alive).
  set (w2 := match sub_task w1 with Some t => set_sub_task None (cancel_task t w1) | None => w1 end).
  assert (H2 : cext w w2).
  { unfold w2. destruct (sub_task w1); [|exact H1]. eapply cext_trans; [exact H1|]. eapply cext_trans; [apply C_cancel_task|eapply C_neutral, n_set_sub_task]. }
  destruct b; [|exact H2]. eapply cext_trans; [exact H2|].
  apply (C_fold (fun acc p => call_soon (HSendStopSub (fst p) (snd p)) acc)). intros p. apply C_call_soon.
Qed.
Lemma C_subscribe_round t : C (subscribe_round t).
Proof.
  intros w. unfold subscribe_round. set (w1 := fold_left _ (group_entries (sub_entries w)) w).
  assert (H1 : cext w w1).
  { unfold w1. apply (C_fold (fun acc p => send_subscribe (t_subscribe_ttl (cfg acc)) (fst p) (snd p) acc)). intros p w0. eapply C_neutral, n_send_subscribe. }
  eapply cext_trans; [exact H1|]. destruct (t_refresh (cfg w1)); [apply C_task_sleep|apply C_finish_task].
Qed.
Lemma C_handle_offer e a : C (handle_offer e a).
Proof.
  intros w. unfold handle_offer.
  destruct (from_offer_entry e); [|apply cext_refl]. destruct (e_ttl e =? 0); [apply C_store_stop|].
  destruct (negb (is_watching e w)); [apply cext_refl|apply C_store_refresh].
Qed.
Lemma C_discovery_start : C discovery_start.
Proof.
  intros w. unfold discovery_start. match goal with |- cext w (if ?b then _ else _) => destruct b end; [apply cext_refl|].
  destruct (new_task TFind w) as [t w1] eqn:E0. pair_C (C_new_task TFind w) E0. eapply cext_trans; [exact K|eapply C_neutral, n_set_disc_task].
Qed.
Lemma C_discovery_stop : C discovery_stop.
Proof. intros w. unfold discovery_stop. destruct (disc_task w); [|apply cext_refl]. eapply cext_trans; [apply C_cancel_task|eapply C_neutral, n_set_disc_task]. Qed.
Lemma C_inst_send_offer i d b : C (inst_send_offer i d b).
Proof. intros w. unfold inst_send_offer. destruct (get_inst i w); [apply C_queue_send|apply cext_refl]. Qed.
Lemma C_inst_start i : C (fun w => fst (inst_start i w)).
Proof.
  intros w. unfold inst_start. destruct (get_inst i w) as [ins|]; [|apply cext_refl].
  destruct (in_task ins); [cbn [fst]; eapply C_neutral, n_emit; reflexivity|].
  destruct (new_task (TOffer i) w) as [t w1] eqn:E0. cbn [fst]. pair_C (C_new_task (TOffer i) w) E0.
  eapply cext_trans; [exact K|apply C_put_inst].
Qed.
Lemma C_inst_stop i : C (fun w => fst (inst_stop i w)).
Proof.
  intros w. unfold inst_stop. destruct (get_inst i w) as [ins|]; [|apply cext_refl].
  destruct (in_task ins) as [t|]; [|cbn [fst]; eapply C_neutral, n_emit; reflexivity]. cbn [fst].
  eapply cext_trans; [|apply C_store_stop_all].
  set (w1 := put_inst i _ (cancel_task t w)). assert (H1 : cext w w1) by (eapply cext_trans; [apply C_cancel_task|apply C_put_inst]).
  destruct (t_cyclic (cfg w1) =? 0); [eapply cext_trans; [exact H1|apply C_inst_send_offer]|exact H1].
Qed.
Lemma C_for_insts f : (forall i, C (fun w => fst (f i w))) -> forall l, C (fun w => fst (for_insts f l w)).
Proof.
  intros Hf. induction l as [|i l IH]; intros w; cbn [for_insts fst]; [apply cext_refl|].
  destruct (f i w) as [w1 ok] eqn:E0. pair_C (Hf i w) E0. destruct ok; [eapply cext_trans; [exact K|apply IH]|exact K].
Qed.
Lemma C_announcer_start : C announcer_start.
Proof.
  intros w. unfold announcer_start. destruct (for_insts inst_start (announcing w) w) as [w1 ok] eqn:E0.
  pair_C (C_for_insts inst_start C_inst_start (announcing w) w) E0.
  destruct ok; [eapply cext_trans; [exact K|eapply C_neutral, n_set_ann_started]|exact K].
Qed.
Lemma C_announcer_stop : C announcer_stop.
Proof.
  intros w. unfold announcer_stop. destruct (negb (ann_started w)); [apply cext_refl|].
  destruct (for_insts inst_stop (announcing w) w) as [w1 ok] eqn:E0.
  pair_C (C_for_insts inst_stop C_inst_stop (announcing w) w) E0.
  destruct ok; [eapply cext_trans; [exact K|eapply C_neutral, n_set_ann_started]|exact K].
Qed.
Lemma C_announce_service i : C (announce_service i).
Proof.
  intros w. unfold announce_service. destruct (ann_started w); [|eapply C_neutral, n_set_announcing].
  destruct (inst_start i w) as [w1 ok] eqn:E0. pair_C (C_inst_start i w) E0.
  destruct ok; [eapply cext_trans; [exact K|eapply C_neutral, n_set_announcing]|exact K].
Qed.
Lemma C_stop_announce_service i b : C (stop_announce_service i b).
Proof.
  intros w. unfold stop_announce_service. destruct (remove_first N.eqb i (announcing w)); [|eapply C_neutral, n_emit; reflexivity].
  destruct (b && ann_started (set_announcing l w)); [eapply cext_trans; [eapply C_neutral, n_set_announcing|apply C_inst_stop]|eapply C_neutral, n_set_announcing].
Qed.
Lemma C_inst_handle_subscribe e a i : C (fun w => fst (inst_handle_subscribe e a i w)).
Proof.
  intros w. unfold inst_handle_subscribe. destruct (get_inst i w) as [ins|]; [|apply cext_refl].
  destruct (in_task ins); [|apply cext_refl]. destruct (matches_subscribe (in_service ins) e) as [[|]|]; try apply cext_refl.
  destruct (e_ttl e =? 0); [cbn [fst]; apply C_store_stop|].
  destruct (store_refresh (SSubs i) (sb_ttl (from_subscribe_entry e)) a (KSub (from_subscribe_entry e)) w) as [w1 ok] eqn:E0.
  pair_C (C_store_refresh (SSubs i) (sb_ttl (from_subscribe_entry e)) a (KSub (from_subscribe_entry e)) w) E0.
  destruct ok; cbn [fst]; (eapply cext_trans; [exact K|]); [apply C_queue_send|unfold send_subscribe_nack; apply C_queue_send].
Qed.
Lemma C_announcer_handle_subscribe e a : C (announcer_handle_subscribe e a).
Proof.
  intros w. unfold announcer_handle_subscribe.
  assert (Hf : forall l acc, cext w (fst acc) ->
            cext w (fst (fold_left (fun acc i => let '(w', m) := inst_handle_subscribe e a i (fst acc) in (w', snd acc || m)) l acc))).
  { induction l as [|i l IH]; intros acc Ha; cbn [fold_left]; [exact Ha|]. apply IH.
    destruct (inst_handle_subscribe e a i (fst acc)) as [w' m] eqn:E0. cbn [fst].
    pair_C (C_inst_handle_subscribe e a i (fst acc)) E0. eapply cext_trans; eauto. }
  specialize (Hf (announcing w) (w, false) (cext_refl w)).
  destruct (fold_left _ (announcing w) (w, false)) as [w1 any]. cbn [fst] in Hf.
  destruct any; [exact Hf|]. unfold send_subscribe_nack. eapply cext_trans; [exact Hf|apply C_queue_send].
Qed.
Lemma C_announcer_handle_findservice e a mc : C (announcer_handle_findservice e a mc).
Proof.
  intros w. unfold announcer_handle_findservice. destruct (filter _ (announcing w)) as [|i0 l0]; [apply cext_refl|]. destruct mc.
  - destruct (draw (t_rr_min (cfg w)) (t_rr_max (cfg w)) w) as [d w1] eqn:Ed.
    pose proof (n_draw (t_rr_min (cfg w)) (t_rr_max (cfg w)) w) as Hs. cbv beta in Hs. rewrite Ed in Hs. cbn [snd] in Hs.
    eapply cext_trans; [eapply same_cext; exact Hs|]. apply (C_fold (fun acc i => snd (call_later d (HAnswerFind i a) acc))). intros i w0. apply (C_call_later d (HAnswerFind i a) w0 I).
  - apply (C_fold (fun acc i => call_soon (HAnswerFind i a) acc)). intros i. apply C_call_soon.
Qed.
Lemma C_answer_find i a : C (answer_find i a).
Proof. intros w. unfold answer_find. destruct (get_inst i w) as [ins|]; [|apply cext_refl]. destruct (in_can_answer ins); [apply C_inst_send_offer|apply cext_refl]. Qed.
Lemma C_announcer_reboot_detected a : C (announcer_reboot_detected a).
Proof. intros w. unfold announcer_reboot_detected. apply (C_fold (fun acc i => store_stop_all_for_address (SSubs i) a acc)). intros i. apply C_store_stop_all_for_address. Qed.
Lemma C_offer_next t i inst : C (offer_next t i inst).
Proof. intros w. unfold offer_next. destruct (i <? t_rep_max (cfg w)); [apply C_task_sleep|]. destruct (t_cyclic (cfg w) =? 0); [apply C_finish_task|apply C_task_sleep]. Qed.
Lemma C_find_next t i : C (find_next t i).
Proof. intros w. unfold find_next. destruct (i <? t_rep_max (cfg w)); [apply C_task_sleep|apply C_finish_task]. Qed.
Lemma C_stop_offer_branch t inst : C (fun w =>
  let w1 := set_can_answer inst false w in finish_task t (if t_cyclic (cfg w1) =? 0 then w1 else inst_send_offer inst None true w1)).
Proof.
  intros w. cbv zeta. eapply cext_trans; [|apply C_finish_task].
  destruct (t_cyclic (cfg (set_can_answer inst false w)) =? 0); [eapply C_neutral, n_set_can_answer|].
  eapply cext_trans; [eapply C_neutral, n_set_can_answer|apply C_inst_send_offer].
Qed.
Lemma C_task_step t : C (task_step t).
Proof.
  intros w. unfold task_step. destruct (get_task t w) as [tk|]; [|apply cext_refl]. destruct (tk_done tk); [apply cext_refl|].
  destruct (tk_kind tk) as [| |inst].
  - destruct (tk_pc tk); destruct (tk_must_cancel tk); try apply C_finish_task; apply C_subscribe_round.
  - destruct (tk_pc tk) as [|p].
    + destruct (tk_must_cancel tk); [apply C_finish_task|]. destruct (watched w); [apply C_finish_task|].
      destruct (draw (t_init_min (cfg w)) (t_init_max (cfg w)) w) as [d w1] eqn:Ed.
      pose proof (n_draw (t_init_min (cfg w)) (t_init_max (cfg w)) w) as Hs. cbv beta in Hs. rewrite Ed in Hs. cbn [snd] in Hs.
      eapply cext_trans; [eapply same_cext; exact Hs|apply C_task_sleep].
    + destruct p; destruct (tk_must_cancel tk); try apply C_finish_task;
        (destruct (find_entries w) eqn:Ef; [apply C_finish_task|]; eapply cext_trans; [eapply C_neutral, n_send_sd|apply C_find_next]).
  - destruct (tk_pc tk) as [|p].
    + destruct (tk_must_cancel tk); [apply C_finish_task|].
      destruct (draw (t_init_min (cfg w)) (t_init_max (cfg w)) w) as [d w1] eqn:Ed.
      pose proof (n_draw (t_init_min (cfg w)) (t_init_max (cfg w)) w) as Hs. cbv beta in Hs. rewrite Ed in Hs. cbn [snd] in Hs.
      eapply cext_trans; [eapply same_cext; exact Hs|apply C_task_sleep].
    + repeat match goal with |- context [match ?q with xI _ => _ | xO _ => _ | xH => _ end] => destruct q end;
      destruct (tk_must_cancel tk);
      first [ apply C_finish_task
            | apply (C_stop_offer_branch t inst)
            | eapply cext_trans; [|apply C_offer_next];
              first [ eapply cext_trans; [apply C_inst_send_offer|eapply C_neutral, n_set_can_answer] | apply C_inst_send_offer ]
            | eapply cext_trans; [apply C_inst_send_offer|apply C_task_sleep] ].
Qed.
Lemma C_sd_message_received h a mc : C (sd_message_received h a mc).
Proof.
  intros w. unfold sd_message_received. destruct (negb (sd_unicast h)); [apply cext_refl|].
  apply (C_fold (fun acc e =>
     if e_type e =? ET_OfferService then call_soon (HHandleOffer e a) acc
     else if e_type e =? ET_SubscribeAck then acc
     else if e_type e =? ET_FindService then announcer_handle_findservice e a mc acc
     else if e_type e =? ET_Subscribe then (if mc then acc else announcer_handle_subscribe e a acc)
     else acc)).
  intros e w'. destruct (e_type e =? ET_OfferService); [apply C_call_soon|]. destruct (e_type e =? ET_SubscribeAck); [apply cext_refl|].
  destruct (e_type e =? ET_FindService); [apply C_announcer_handle_findservice|].
  destruct (e_type e =? ET_Subscribe); [|apply cext_refl]. destruct mc; [apply cext_refl|apply C_announcer_handle_subscribe].
Qed.
Lemma C_reboot_detected a : C (reboot_detected a).
Proof. intros w. unfold reboot_detected. eapply cext_trans; [apply C_announcer_reboot_detected|apply C_call_soon]. Qed.
Lemma C_message_received m a mc : C (message_received m a mc).
Proof.
  intros w. unfold message_received. destruct (negb (is_sd_message m)); [apply cext_refl|].
  destruct (parse_sd (m_payload m)) as [[h r]|]; [|apply cext_refl].
  pose proof (n_set_sess_rx w a mc (sd_reboot h) (m_sess m)) as Hrx.
  destruct (check_received (sess w) a mc (sd_reboot h) (m_sess m)) as [rb s']. cbn [snd] in Hrx.
  assert (H2 : cext w (if rb then reboot_detected a (set_sess s' w) else set_sess s' w)).
  { destruct rb; [eapply cext_trans; [eapply same_cext; exact Hrx|apply C_reboot_detected]|eapply same_cext; exact Hrx]. }
  destruct (resolve_sd h); [eapply cext_trans; [exact H2|apply C_sd_message_received]|exact H2].
Qed.
Lemma C_datagram_received data a mc : C (datagram_received data a mc).
Proof. intros w. unfold datagram_received. apply (C_fold (fun acc m => message_received m a mc acc)). intros m. apply C_message_received. Qed.
Lemma C_exec_api c : C (exec_api c).
Proof.
  intros w. destruct c; cbn [exec_api].
  - unfold proto_start. eapply cext_trans; [apply C_subscriber_start|]. eapply cext_trans; [apply C_announcer_start|apply C_discovery_start].
  - unfold proto_stop. eapply cext_trans; [apply C_discovery_stop|]. eapply cext_trans; [apply C_announcer_stop|apply C_subscriber_stop].
  - eapply C_neutral, n_connection_lost.
  - eapply C_neutral, n_watch_service.
  - eapply C_neutral, n_stop_watch_service.
  - eapply C_neutral, n_watch_all_services.
  - eapply C_neutral, n_stop_watch_all_services.
  - eapply C_neutral, n_watch_service.
  - eapply C_neutral, n_stop_watch_service.
  - eapply C_neutral, n_subscribe_eventgroup.
  - eapply C_neutral, n_stop_subscribe_eventgroup.
  - apply C_subscriber_start.
  - apply C_subscriber_stop.
  - apply C_discovery_start.
  - apply C_discovery_stop.
  - apply C_announcer_start.
  - apply C_announcer_stop.
  - apply C_announce_service.
  - apply C_stop_announce_service.
  - apply C_queue_send.
  - eapply C_neutral, n_send_sd.
  - destruct (get_inst i w); [apply C_put_inst|apply cext_refl].
  - apply C_call_soon.
Qed.

(* every callback leaves the clock alone and arms timers only at or after the current instant *)
Theorem C_exec h : C (exec h).
Proof.
  intros w. destruct h; cbn [exec].
  - apply C_datagram_received. - apply C_exec_api. - apply C_subscriber_stop. - apply C_store_stop_all.
  - apply C_announcer_stop. - apply C_store_stop_all_for_address. - apply C_handle_offer.
  - eapply C_neutral, n_send_subscribe. - eapply C_neutral, n_send_subscribe. - apply C_store_expired.
  - apply C_collector_timeout. - apply C_answer_find. - apply C_task_step. - apply C_sleep_done.
Qed.

(* ------------------------------------------------------------------ the deadline invariant *)
(* every pending collector timeout is due within one collection timeout from now *)
Definition Jc (w : world) : Prop :=
  forall t, In t (timers w) ->
  match snd t with HCollector _ => fst (fst t) <= now w + t_collect (cfg w) | _ => True end.

Lemma Jc_cext w w' : cext w w' -> Jc w -> Jc w'.
Proof.
  intros [A1 A2 A3] H t Ht. rewrite A1, A2. destruct (A3 t Ht) as [Hin|Ha]; [apply H; exact Hin|].
  unfold armed in Ha. destruct (snd t); try exact I. lia.
Qed.

Lemma cext_frame w w' : now w' = now w -> cfg w' = cfg w -> (forall t, In t (timers w') -> In t (timers w)) -> cext w w'.
Proof. intros A B D. constructor; auto. Qed.

Lemma cext_lstep1 w : cext w (lstep1 w).
Proof.
  unfold lstep1. destruct (ready w) as [|[otid h] r]; [apply cext_refl|]. cbv zeta.
  match goal with |- context [if ?b then _ else _] => destruct b end.
  - apply cext_frame; auto.
  - eapply cext_trans; [|apply C_exec]. apply cext_frame; auto.
Qed.

Lemma cext_run_ready : forall n w, cext w (run_ready n w).
Proof.
  induction n as [|n IH]; intros w; [apply cext_refl|]. rewrite run_ready_step.
  eapply cext_trans; [apply cext_lstep1|apply IH].
Qed.

Lemma cext_iteration arrivals rv w : cext w (iteration arrivals rv w).
Proof.
  rewrite iteration_pre. eapply cext_trans; [|apply cext_run_ready].
  destruct (fold_call_soon_facts arrivals w) as (A & B & _). cbv zeta in *.
  assert (Hc : forall hs w0, cfg (fold_left (fun acc h => call_soon h acc) hs w0) = cfg w0).
  { induction hs as [|h hs IH]; intros w0; cbn [fold_left]; [reflexivity|]. rewrite IH. reflexivity. }
  apply cext_frame.
  - unfold iter_pre. cbn [now set_timers set_ready]. exact A.
  - unfold iter_pre. cbn [cfg set_timers set_ready]. apply Hc.
  - intros t Ht. unfold iter_pre in Ht. cbn [timers set_timers] in Ht. apply filter_In in Ht. rewrite <- B. apply Ht.
Qed.

Lemma Jc_set_now t w : now w <= t -> Jc w -> Jc (set_now t w).
Proof. intros Hle H x Hx. specialize (H x Hx). cbn [timers set_now now cfg] in *. destruct (snd x); try exact I. lia. Qed.

Theorem Jc_run : forall fuel events t_end rv w, Jc w -> Jc (fst (run fuel events t_end rv w)).
Proof.
  induction fuel as [|f IH]; intros events t_end rv w Hj; cbn [run fst]; [exact Hj|].
  destruct (split_arrived (now w) events) as [arrived later].
  assert (Hit : forall ev, Jc (fst (run f ev t_end rv (iteration (map snd arrived) rv w)))).
  { intros ev. apply IH. eapply Jc_cext; [apply cext_iteration|exact Hj]. }
  destruct (ready w) as [|x r]; [|apply Hit]. destruct arrived as [|a ar]; [|apply Hit].
  destruct (match next_timer w with Some t => t <=? now w | None => false end); [apply Hit|].
  destruct (omin (next_timer w) _) as [t|]; [|exact Hj]. destruct (t_end <? t); [exact Hj|].
  apply IH. apply Jc_set_now; [lia|exact Hj].
Qed.

Lemma Jc_init sc : Jc (init_world sc). Proof. intros t []. Qed.

Theorem Jc_reachable sc : Jc (fst (run_scenario sc)).
Proof. unfold run_scenario. apply Jc_run, Jc_init. Qed.

(* ------------------------------------------------------------------ one queued entry, end to end *)
Lemma aget_snoc_fresh {V} k (v : V) : forall l, (forall p, In p l -> fst p <> k) -> aget N.eqb k (l ++ [(k, v)]) = Some v.
Proof.
  induction l as [|[k' v'] l IH]; intros H; cbn [app aget].
  - rewrite N.eqb_refl. reflexivity.
  - destruct (N.eqb_spec k k') as [E|E]; [exfalso; apply (H (k', v')); [left; reflexivity|symmetry; exact E]|].
    apply IH. intros p Hp. apply H. right. exact Hp.
Qed.

(* Right after queue_send (non-zero timeout) the entry is the last one of the open collector registered for its
   destination; that collector owns a pending, uncancelled timeout handle (so collector_timeout will transmit it:
   collector_timeout_spec), and as long as that handle is still a timer its deadline is at most one collection timeout
   from now.  (When it is no longer a timer it is already in the ready queue of the current iteration and runs at the
   current instant.) *)
Theorem queued_entry_has_a_deadline e d w : G w -> Jc w -> t_collect (cfg w) <> 0 ->
  let w' := queue_send e d w in
  exists c co, open_collector w' d = Some (c, co) /\ last (co_data co) e = e /\ In e (co_data co)
    /\ In (c, HCollector c) (tided w') /\ memN c (cancelled w') = false
    /\ (forall when, In (when, c, HCollector c) (timers w') -> when <= now w + t_collect (cfg w)).
Proof.
  intros Hg Hj Hc w'.
  assert (Hg' : G w') by (apply keeps_queue_send; exact Hg).
  assert (Hj' : Jc w') by (eapply Jc_cext; [apply C_queue_send|exact Hj]).
  assert (Hnow : now w' = now w /\ cfg w' = cfg w) by (destruct (C_queue_send e d w) as [A B _]; split; assumption).
  assert (Hfin : forall c co, open_collector w' d = Some (c, co) -> In e (co_data co) -> last (co_data co) e = e ->
     exists c co, open_collector w' d = Some (c, co) /\ last (co_data co) e = e /\ In e (co_data co)
       /\ In (c, HCollector c) (tided w') /\ memN c (cancelled w') = false
       /\ (forall when, In (when, c, HCollector c) (timers w') -> when <= now w + t_collect (cfg w))).
  { intros c co Ho Hin Hlast. exists c, co. split; [exact Ho|]. split; [exact Hlast|]. split; [exact Hin|].
    assert (Hopen : open_coll w' c = true).
    { unfold open_collector in Ho. unfold open_coll. destruct (aget dest_eqb d (queues w')) as [c0|]; [|discriminate].
      destruct (aget N.eqb c0 (collectors w')) as [co0|] eqn:Ea; [|discriminate].
      destruct (co_done co0) eqn:Ed; [discriminate|]. injection Ho as -> ->. rewrite Ea, Ed. reflexivity. }
    destruct (g_coll _ _ Hg' c Hopen) as [Hp Hcan]. cbn [app] in Hp. split; [exact Hp|]. split; [exact Hcan|].
    intros when Hw. specialize (Hj' _ Hw). cbn [snd fst] in Hj'. destruct Hnow as [-> ->] in Hj'. exact Hj'. }
  destruct (open_collector w d) as [[c co]|] eqn:Eo.
  - pose proof (queue_send_append e d w c co Hc Eo) as Hq. fold w' in Hq.
    apply (Hfin c (mkColl (co_dest co) (co_data co ++ [e]) false)).
    + unfold open_collector. rewrite Hq. cbn [queues collectors set_collectors ghost set_glog].
      unfold open_collector in Eo. destruct (aget dest_eqb d (queues w)) as [c0|]; [|discriminate].
      destruct (aget N.eqb c0 (collectors w)) as [co0|]; [|discriminate]. destruct (co_done co0); [discriminate|].
      injection Eo as -> ->. rewrite (aget_aset_same N.eqb N.eqb_eq). reflexivity.
    + cbn [co_data]. apply in_or_app. right. left. reflexivity.
    + cbn [co_data]. apply last_last.
  - destruct (queue_send_new e d w Hc Eo) as (_ & _ & _ & _ & Hq & Hcs). fold w' in Hq, Hcs.
    apply (Hfin (next_id w) (mkColl d [e] false)).
    + unfold open_collector. rewrite Hq, Hcs. rewrite aget_snoc_fresh; [reflexivity|].
      intros p Hp Heq. destruct p as [c0 co0]. cbn [fst] in Heq. subst c0.
      pose proof (g_collfresh _ _ Hg _ _ Hp). lia.
    + left. reflexivity.
    + reflexivity.
Qed.

(* for every reachable state of every scenario: ownership, on-time execution and the deadline bound together *)
Theorem reachable_collectors_in_time s sc : d_scenario s = Some sc ->
  let w := fst (run_scenario sc) in
  G w /\ Tinv w /\ Jc w
  /\ forall c, open_coll w c = true ->
       exists when, In (when, c, HCollector c) (timers w) /\ memN c (cancelled w) = false
                    /\ now w <= when <= now w + t_collect (cfg w).
Proof.
  intros Hd w. pose proof (G_reachable s sc Hd) as Hg. pose proof (reachable_on_time sc) as Ht. pose proof (Jc_reachable sc) as Hj.
  fold w in Hg, Ht, Hj. split; [exact Hg|]. split; [exact Ht|]. split; [exact Hj|].
  intros c Ho. destruct (g_coll _ _ Hg c Ho) as [Hp Hcan]. cbn [app] in Hp. destruct Ht as [Hlate Hrdy].
  unfold tided in Hp. rewrite Hrdy, app_nil_r in Hp. unfold tmr in Hp. apply in_map_iff in Hp.
  destruct Hp as ([[when tid] h] & E & Hin). cbn in E. injection E as -> ->.
  exists when. split; [exact Hin|]. split; [exact Hcan|]. split.
  - exact (Hlate _ Hin Hcan).
  - exact (Hj _ Hin).
Qed.
