(* C09 "on time, never early; a refresh replaces the deadline; the infinite TTL never expires" over WHOLE RUNS of the full
   stack model, for every scenario and schedule.  The ghost history records every (re)storing of a TimedStore entry with
   its TTL (GRefresh) and every removal by an expiry timer (GExpire).  Invariant:
     r_ok  : every expiry in the history happened exactly TTL seconds after the LATEST refresh of that entry, and that
             refresh did not carry the infinite TTL;
     r_dead: every stored entry with a timer was last refreshed with a finite TTL, and its timer is due exactly that TTL
             after that refresh.
   Kept by every callback, loop step and run (with the ownership invariants, which give "exactly once" and "no stale
   timer", and "no live timer is overdue"). *)
From Coq Require Import Lia Permutation.
From PS Require Import Lib.Base Lib.Struct Generated.Consts Model.SdTypes Model.Config Model.Session Model.Someip Model.SdCodec
  Model.StackTypes Model.Stack Model.StackIO Proofs.AListFacts Proofs.EqFacts Proofs.KeyEquiv Proofs.WorldInv Proofs.WorldInv2
  Proofs.WorldTime.
From PS Require Proofs.Lift.

Definition same_entry (st : store_id) (a : addr) (k : key) (st' : store_id) (a' : addr) (k' : key) : bool :=
  store_id_eqb st' st && (a' =? a) && key_eqb k' k.

(* the newest refresh of the entry (time, TTL); None when there is none or an expiry of the entry is newer *)
Fixpoint last_refresh (st : store_id) (a : addr) (k : key) (l : list (N * gev)) : option (N * N) :=
  match l with
  | [] => None
  | (t, GRefresh st' a' k' ttl) :: r => if same_entry st a k st' a' k' then Some (t, ttl) else last_refresh st a k r
  | (_, GExpire st' a' k') :: r => if same_entry st a k st' a' k' then None else last_refresh st a k r
  | _ :: r => last_refresh st a k r
  end.
Fixpoint expiry_ok (l : list (N * gev)) : bool :=
  match l with
  | [] => true
  | (t, GExpire st a k) :: r =>
      match last_refresh st a k r with
      | Some (tr, ttl) => negb (ttl =? TTL_FOREVER) && (t =? tr + ttl * usec_per_sec)
      | None => false
      end && expiry_ok r
  | _ :: r => expiry_ok r
  end.

Lemma tlog_cons t g l : tlog ((t, g) :: l) = match g with GRefresh _ _ _ _ | GExpire _ _ _ => (t, g) :: tlog l | _ => tlog l end.
Proof. destruct g; reflexivity. Qed.
Lemma last_refresh_tlog st a k l : last_refresh st a k (tlog l) = last_refresh st a k l.
Proof. induction l as [|[t g] l IH]; [reflexivity|]. rewrite tlog_cons. destruct g; cbn [last_refresh]; rewrite ?IH; reflexivity. Qed.
Lemma expiry_ok_tlog l : expiry_ok (tlog l) = expiry_ok l.
Proof. induction l as [|[t g] l IH]; [reflexivity|]. rewrite tlog_cons. destruct g; cbn [expiry_ok]; rewrite ?IH, ?last_refresh_tlog; reflexivity. Qed.

Definition dead_ok (w : world) (st : store_id) (a : addr) (k : key) (tid : N) : Prop :=
  exists tr ttl, last_refresh st a k (glog w) = Some (tr, ttl) /\ (ttl =? TTL_FOREVER) = false
    /\ (forall when, In (when, tid, HExpired st a k) (timers w) -> when = tr + ttl * usec_per_sec)
    /\ (In (tid, HExpired st a k) (rdy w) -> now w = tr + ttl * usec_per_sec).

Record Rk (w : world) : Prop := mkR {
  r_ok : expiry_ok (glog w) = true;
  r_dead : forall st a k tid, In (k, Some tid) (inner a (get_store st w)) -> dead_ok w st a k tid }.

(* ------------------------------------------------------------------ steps that the invariant does not notice *)
Record rx (w w' : world) : Prop := mkRx {
  rx_tlog : tlog (glog w') = tlog (glog w);
  rx_store : forall st a, inner a (get_store st w') = inner a (get_store st w);
  rx_tmr : forall when tid st a k, In (when, tid, HExpired st a k) (timers w') ->
           In (when, tid, HExpired st a k) (timers w) \/ next_id w <= tid;
  rx_rdy : rdy w' = rdy w;
  rx_now : now w' = now w;
  rx_next : next_id w <= next_id w' }.

Lemma rx_refl w : rx w w. Proof. constructor; auto. lia. Qed.
Lemma rx_trans x y z : rx x y -> rx y z -> rx x z.
Proof.
  intros [A1 A2 A3 A4 A5 A6] [B1 B2 B3 B4 B5 B6]. constructor.
  - congruence.
  - intros st a. rewrite B2. apply A2.
  - intros when tid st a k H. destruct (B3 _ _ _ _ _ H) as [H1|H1]; [apply A3; exact H1|right; lia].
  - congruence.
  - congruence.
  - lia.
Qed.
Lemma same_rx {b} w w' : sameb b w w' -> rx w w'.
Proof.
  intros Hs. constructor; [apply (sm_tlog _ _ Hs)|apply (sm_store _ _ Hs)| |apply (sm_rdy _ _ Hs)|apply (sm_now _ _ Hs)|rewrite (sm_next _ _ Hs); lia].
  intros when tid st a k H. left. rewrite (sm_tmr _ _ Hs) in H. exact H.
Qed.

Lemma stored_fresh X w st a k tid : GP X w -> In (k, Some tid) (inner a (get_store st w)) -> tid < next_id w.
Proof. intros Hg Hin. destruct (g_store _ _ Hg _ _ _ _ Hin) as [Hp _]. exact (g_fresh _ _ Hg _ Hp). Qed.

Lemma rx_R X w w' : GP X w -> rx w w' -> Rk w -> Rk w'.
Proof.
  intros Hg [A1 A2 A3 A4 A5 A6] [R1 R2]. constructor.
  - rewrite <- expiry_ok_tlog, A1, expiry_ok_tlog. exact R1.
  - intros st a k tid Hin. rewrite A2 in Hin. destruct (R2 _ _ _ _ Hin) as (tr & ttl & L & F & T & D).
    exists tr, ttl. split; [rewrite <- last_refresh_tlog, A1, last_refresh_tlog; exact L|]. split; [exact F|]. split.
    + intros when Hw. destruct (A3 _ _ _ _ _ Hw) as [Hw'|Hw']; [apply T; exact Hw'|].
      pose proof (stored_fresh X w st a k tid Hg Hin). lia.
    + rewrite A4, A5. exact D.
Qed.

Lemma rx_of w w' : glog w' = glog w -> found w' = found w -> insts w' = insts w -> timers w' = timers w -> ready w' = ready w ->
  now w' = now w -> next_id w' = next_id w -> rx w w'.
Proof.
  intros A B C0 D0 E0 F0 G0. constructor; [rewrite A; reflexivity| | |unfold rdy; rewrite E0; reflexivity|exact F0|rewrite G0; lia].
  - intros st a. destruct st as [|i]; unfold get_store; rewrite ?B, ?C0; reflexivity.
  - intros when tid st a k H. left. rewrite D0 in H. exact H.
Qed.

Lemma rx_call_later d h w : rx w (snd (call_later d h w)).
Proof.
  constructor.
  - reflexivity.
  - intros st a. destruct st; reflexivity.
  - intros when tid st a k H. cbn in H. apply in_app_iff in H. destruct H as [H|[H|[]]]; [left; exact H|right]. inversion H; subst. lia.
  - reflexivity.
  - reflexivity.
  - cbn. lia.
Qed.
Lemma rx_cancel tid w : rx w (cancel_timer tid w). Proof. apply rx_of; reflexivity. Qed.
Lemma rx_cancel_opt o w : rx w (cancel_opt o w). Proof. destruct o; [apply rx_cancel|apply rx_refl]. Qed.
Lemma rx_call_soon h w : rx w (call_soon h w).
Proof.
  constructor.
  - reflexivity.
  - intros st a. destruct st; reflexivity.
  - intros; left; assumption.
  - unfold rdy, call_soon. cbn [ready set_ready]. rewrite flat_map_app. cbn. apply app_nil_r.
  - reflexivity.
  - cbn. lia.
Qed.
Lemma rx_new_task k w : rx w (snd (new_task k w)).
Proof.
  unfold new_task. cbn [snd]. eapply rx_trans; [|apply rx_call_soon].
  constructor.
  - reflexivity.
  - intros st a. destruct st; reflexivity.
  - intros; left; assumption.
  - reflexivity.
  - reflexivity.
  - cbn. lia.
Qed.
Lemma rx_put_task t tk w : rx w (put_task t tk w). Proof. apply rx_of; reflexivity. Qed.
Lemma rx_finish_task t w : rx w (finish_task t w).
Proof. unfold finish_task. destruct (get_task t w); [apply rx_put_task|apply rx_refl]. Qed.
Lemma rx_task_sleep t k d pc i w : rx w (task_sleep t k d pc i w).
Proof.
  unfold task_sleep. destruct (d =? 0); [eapply rx_trans; [apply rx_put_task|apply rx_call_soon]|].
  destruct (call_later d (HSleepDone t) w) as [tid w1] eqn:Ec.
  assert (w1 = snd (call_later d (HSleepDone t) w)) as -> by (rewrite Ec; reflexivity).
  eapply rx_trans; [apply rx_call_later|apply rx_put_task].
Qed.
Lemma rx_cancel_task t w : rx w (cancel_task t w).
Proof.
  unfold cancel_task. destruct (get_task t w) as [tk|]; [|apply rx_refl]. destruct (tk_done tk); [apply rx_refl|].
  destruct (tk_sleep tk); [|apply rx_put_task].
  eapply rx_trans; [apply rx_put_task|]. eapply rx_trans; [apply rx_cancel|apply rx_call_soon].
Qed.
Lemma rx_sleep_done t w : rx w (sleep_done t w).
Proof.
  unfold sleep_done. destruct (get_task t w) as [tk|]; [|apply rx_refl]. destruct (tk_done tk); [apply rx_refl|].
  eapply rx_trans; [apply rx_put_task|apply rx_call_soon].
Qed.
Lemma rx_ghost g w : match g with GRefresh _ _ _ _ | GExpire _ _ _ => False | _ => True end -> rx w (ghost g w).
Proof.
  intros Hg. constructor.
  - cbn [ghost glog set_glog]. rewrite tlog_cons. destruct g; try contradiction; reflexivity.
  - intros st a. destruct st; reflexivity.
  - intros; left; assumption.
  - reflexivity.
  - reflexivity.
  - cbn. lia.
Qed.
Lemma rx_queue_send e d w : rx w (queue_send e d w).
Proof.
  unfold queue_send. eapply rx_trans; [apply (rx_ghost (GQueue e d) w I)|]. generalize (ghost (GQueue e d) w). clear w. intros w.
  unfold queue_core. destruct (t_collect (cfg w) =? 0).
  - eapply rx_trans; [apply (rx_ghost (GFlush d [e]) w I)|]. eapply same_rx, n_send_sd.
  - match goal with |- rx w (match ?o with Some _ => _ | None => _ end) => destruct o as [[c co]|] end; [apply rx_of; reflexivity|].
    destruct (call_later (t_collect (cfg w)) (HCollector (next_id w)) w) as [tid w1] eqn:Ec.
    assert (w1 = snd (call_later (t_collect (cfg w)) (HCollector (next_id w)) w)) as -> by (rewrite Ec; reflexivity).
    eapply rx_trans; [apply rx_call_later|apply rx_of; reflexivity].
Qed.
Lemma rx_collector_timeout c w : rx w (collector_timeout c w).
Proof.
  unfold collector_timeout. destruct (aget N.eqb c (collectors w)) as [co|]; [|apply rx_refl].
  eapply rx_trans; [|eapply same_rx, n_send_sd]. eapply rx_trans; [apply (rx_ghost (GFlush (co_dest co) (co_data co)) w I)|apply rx_of; reflexivity].
Qed.

(* ------------------------------------------------------------------ the TimedStore operations *)
Lemma glog_put_store st s w : glog (put_store st s w) = glog w.
Proof. destruct st as [|i]; [reflexivity|]. unfold put_store. destruct (aget N.eqb i (insts w)); reflexivity. Qed.
Lemma now_put_store' st s w : now (put_store st s w) = now w.
Proof. destruct st as [|i]; [reflexivity|]. unfold put_store. destruct (aget N.eqb i (insts w)); reflexivity. Qed.
Lemma rdy_put_store st s w : rdy (put_store st s w) = rdy w.
Proof. destruct (put_store_frame st s w) as (_ & F2 & _). unfold rdy. rewrite F2. reflexivity. Qed.
Lemma timers_put_store st s w : timers (put_store st s w) = timers w.
Proof. apply (put_store_frame st s w). Qed.

Lemma dead_ok_frame w w' st a k tid : glog w' = glog w -> timers w' = timers w -> rdy w' = rdy w -> now w' = now w ->
  dead_ok w st a k tid -> dead_ok w' st a k tid.
Proof. intros A B C0 D0 (tr & ttl & L & F & T & R). exists tr, ttl. rewrite A, B, C0, D0. auto. Qed.

(* replacing the content of a store by a part of it *)
Lemma R_shrink st s' w : Rk w ->
  (forall a' k' tid', In (k', Some tid') (inner a' s') -> In (k', Some tid') (inner a' (get_store st w))) ->
  Rk (put_store st s' w).
Proof.
  intros [R1 R2] Hsub. destruct (has_store st w) eqn:Hh; [|rewrite get_put_missing by exact Hh; constructor; assumption].
  constructor; [rewrite glog_put_store; exact R1|].
  intros st2 a2 k2 tid2 Hin.
  apply (dead_ok_frame w); [apply glog_put_store|apply timers_put_store|apply rdy_put_store|apply now_put_store'|].
  apply R2. destruct (store_id_eqb st2 st) eqn:Es.
  - apply store_id_eqb_eq in Es. subst st2. rewrite get_put_same in Hin by exact Hh. apply Hsub. exact Hin.
  - rewrite get_put_other in Hin; [exact Hin|]. intros ->. rewrite (proj2 (store_id_eqb_eq st st) eq_refl) in Es. discriminate.
Qed.

Lemma R_remove st a k w : Rk w ->
  Rk (put_store st (aset N.eqb a (adel key_eqb k (inner a (touch a (get_store st w)))) (touch a (get_store st w))) w).
Proof.
  intros Hr. apply R_shrink; [exact Hr|]. intros a' k' tid'. rewrite inner_aset, !inner_touch.
  destruct (N.eqb_spec a' a) as [->|_]; [|auto]. apply in_adel_E.
Qed.
Lemma R_touch st a w : Rk w -> Rk (put_store st (touch a (get_store st w)) w).
Proof. intros Hr. apply R_shrink; [exact Hr|]. intros a' k' tid'. rewrite inner_touch. auto. Qed.
Lemma R_clear st a w : Rk w -> Rk (put_store st (aset N.eqb a [] (touch a (get_store st w))) w).
Proof.
  intros Hr. apply R_shrink; [exact Hr|]. intros a' k' tid'. rewrite inner_aset, inner_touch.
  destruct (a' =? a); [intros []|auto].
Qed.
Lemma R_empty st w : Rk w -> Rk (put_store st [] w).
Proof. intros Hr. apply R_shrink; [exact Hr|]. intros a' k' tid' []. Qed.

Lemma store_id_eqb_sym_false a b : store_id_eqb a b = false -> store_id_eqb b a = false.
Proof. destruct a as [|i], b as [|j]; cbn; try reflexivity; try discriminate. rewrite N.eqb_sym. auto. Qed.
Lemma same_entry_refl st a k : same_entry st a k st a k = true.
Proof. unfold same_entry. rewrite (proj2 (store_id_eqb_eq st st) eq_refl), N.eqb_refl, key_eqb_refl. reflexivity. Qed.

(* the tail of a refresh: the entry is (re)stored with a new timer, recorded in the history *)
Lemma R_refresh_tail X st ttl a k w1 : GP X w1 -> Rk w1 -> has_store st w1 = true -> Rk (fst (refresh_tail st ttl a k w1)).
Proof.
  intros Hg [R1 R2] Hh. unfold refresh_tail. cbv zeta.
  set (w1g := ghost (GRefresh st a k ttl) w1).
  assert (Hlog : glog w1g = (now w1, GRefresh st a k ttl) :: glog w1) by reflexivity.
  pose proof (g_keys _ _ Hg st a) as Hnd.
  (* an old entry of the store that survives is not the refreshed one, and keeps what it had *)
  assert (Hold : forall w3 st2 a2 k2 tid2, glog w3 = glog w1g -> rdy w3 = rdy w1 -> now w3 = now w1 ->
            (forall when, In (when, tid2, HExpired st2 a2 k2) (timers w3) -> In (when, tid2, HExpired st2 a2 k2) (timers w1) \/ tid2 = next_id w1) ->
            In (k2, Some tid2) (inner a2 (get_store st2 w1)) -> same_entry st2 a2 k2 st a k = false -> dead_ok w3 st2 a2 k2 tid2).
  { intros w3 st2 a2 k2 tid2 A B C0 D0 Hin Hne. destruct (R2 _ _ _ _ Hin) as (tr & ttl' & L & F & T & R).
    exists tr, ttl'. rewrite A, Hlog. cbn [last_refresh]. rewrite Hne. split; [exact L|]. split; [exact F|]. split.
    - intros when Hw. destruct (D0 _ Hw) as [Hw'|Hw']; [apply T; exact Hw'|].
      pose proof (stored_fresh X w1 _ _ _ _ Hg Hin). lia.
    - rewrite B, C0. exact R. }
  destruct (ttl =? TTL_FOREVER) eqn:Ef.
  - (* the infinite TTL: no timer *)
    cbn [fst]. change (get_store st w1g) with (get_store st w1).
    set (s3 := aset N.eqb a (adel key_eqb k (inner a (touch a (get_store st w1))) ++ [(k, None)]) (touch a (get_store st w1))).
    constructor; [rewrite glog_put_store, Hlog; exact R1|].
    intros st2 a2 k2 tid2 Hin.
    assert (Hin1 : In (k2, Some tid2) (inner a2 (get_store st2 w1)) /\ same_entry st2 a2 k2 st a k = false).
    { destruct (store_id_eqb st2 st) eqn:Es.
      - apply store_id_eqb_eq in Es. subst st2. rewrite get_put_same in Hin by exact Hh. unfold s3 in Hin. rewrite inner_aset, !inner_touch in Hin.
        destruct (N.eqb_spec a2 a) as [->|Hne].
        + apply in_app_iff in Hin. destruct Hin as [Hin|[Hin|[]]]; [|discriminate]. split; [eapply in_adel_E; eauto|].
          pose proof (adel_no_equiv k _ Hnd _ Hin) as Hq. cbn [fst] in Hq. unfold same_entry. rewrite Hq, andb_false_r. reflexivity.
        + split; [exact Hin|]. unfold same_entry. rewrite (proj2 (N.eqb_neq a a2)) by (intros E; apply Hne; symmetry; exact E). rewrite andb_false_r. reflexivity.
      - rewrite get_put_other in Hin by (intros ->; rewrite (proj2 (store_id_eqb_eq st st) eq_refl) in Es; discriminate).
        split; [exact Hin|]. unfold same_entry. rewrite (store_id_eqb_sym_false st2 st Es). reflexivity. }
    destruct Hin1 as [Hin1 Hne]. apply (Hold _ st2 a2 k2 tid2); [apply glog_put_store|rewrite rdy_put_store; reflexivity|rewrite now_put_store'; reflexivity| |exact Hin1|exact Hne].
    intros when Hw. rewrite timers_put_store in Hw. left. exact Hw.
  - destruct (call_later (ttl * usec_per_sec) (HExpired st a k) w1g) as [t w2] eqn:Ec. cbn [fst].
    assert (Hw2 : w2 = snd (call_later (ttl * usec_per_sec) (HExpired st a k) w1g)) by (rewrite Ec; reflexivity).
    assert (Ht' : t = next_id w1).
    { pose proof (f_equal fst Ec) as E0. cbn in E0. symmetry. exact E0. }
    subst t.
    assert (Hst2 : forall st', get_store st' w2 = get_store st' w1) by (intros [|i]; rewrite Hw2; reflexivity).
    assert (Hh2 : has_store st w2 = true) by (rewrite Hw2; exact Hh).
    assert (Htm2 : timers w2 = timers w1 ++ [(now w1 + ttl * usec_per_sec, next_id w1, HExpired st a k)]) by (rewrite Hw2; reflexivity).
    rewrite Hst2.
    set (s3 := aset N.eqb a (adel key_eqb k (inner a (touch a (get_store st w1))) ++ [(k, Some (next_id w1))]) (touch a (get_store st w1))).
    assert (Hg3 : glog (put_store st s3 w2) = glog w1g) by (rewrite glog_put_store, Hw2; reflexivity).
    assert (Hr3 : rdy (put_store st s3 w2) = rdy w1) by (rewrite rdy_put_store, Hw2; reflexivity).
    assert (Hn3 : now (put_store st s3 w2) = now w1) by (rewrite now_put_store', Hw2; reflexivity).
    assert (Ht3 : timers (put_store st s3 w2) = timers w1 ++ [(now w1 + ttl * usec_per_sec, next_id w1, HExpired st a k)]) by (rewrite timers_put_store; exact Htm2).
    assert (Hfresh : forall when h, ~ In (when, next_id w1, h) (timers w1)).
    { intros when h Hin. assert (Hp : In (next_id w1, h) (X ++ tided w1)).
      { apply in_or_app. right. unfold tided, tmr. apply in_or_app. left. apply (in_map (fun t0 : N * N * handle => (snd (fst t0), snd t0)) _ _ Hin). }
      pose proof (g_fresh _ _ Hg _ Hp) as Hlt. cbn [fst] in Hlt. lia. }
    constructor; [rewrite Hg3, Hlog; exact R1|].
    intros st2 a2 k2 tid2 Hin.
    assert (Hcase : (st2 = st /\ a2 = a /\ k2 = k /\ tid2 = next_id w1)
                    \/ (In (k2, Some tid2) (inner a2 (get_store st2 w1)) /\ same_entry st2 a2 k2 st a k = false)).
    { destruct (store_id_eqb st2 st) eqn:Es.
      - apply store_id_eqb_eq in Es. subst st2. rewrite get_put_same in Hin by exact Hh2. unfold s3 in Hin. rewrite inner_aset, !inner_touch in Hin.
        destruct (N.eqb_spec a2 a) as [->|Hne].
        + apply in_app_iff in Hin. destruct Hin as [Hin|[Hin|[]]].
          * right. split; [eapply in_adel_E; eauto|]. pose proof (adel_no_equiv k _ Hnd _ Hin) as Hq. cbn [fst] in Hq. unfold same_entry. rewrite Hq, andb_false_r. reflexivity.
          * injection Hin as <- <-. left. auto.
        + right. split; [exact Hin|]. unfold same_entry. rewrite (proj2 (N.eqb_neq a a2)) by (intros E; apply Hne; symmetry; exact E). rewrite andb_false_r. reflexivity.
      - right. rewrite get_put_other in Hin by (intros ->; rewrite (proj2 (store_id_eqb_eq st st) eq_refl) in Es; discriminate).
        rewrite Hst2 in Hin. split; [exact Hin|]. unfold same_entry. rewrite (store_id_eqb_sym_false st2 st Es). reflexivity. }
    destruct Hcase as [(-> & -> & -> & ->)|[Hin1 Hne]].
    + exists (now w1), ttl. rewrite Hg3, Hlog. cbn [last_refresh]. rewrite same_entry_refl. split; [reflexivity|]. split; [exact Ef|]. split.
      * intros when Hw. rewrite Ht3 in Hw. apply in_app_iff in Hw. destruct Hw as [Hw|[Hw|[]]]; [exfalso; eapply Hfresh; eauto|].
        injection Hw as <-. reflexivity.
      * intros Hin'. rewrite Hr3 in Hin'. exfalso.
        assert (Hp : In (next_id w1, HExpired st a k) (X ++ tided w1)) by (apply in_or_app; right; unfold tided; apply in_or_app; right; exact Hin').
        pose proof (g_fresh _ _ Hg _ Hp) as Hlt. cbn [fst] in Hlt. lia.
    + apply (Hold _ st2 a2 k2 tid2); [exact Hg3|exact Hr3|exact Hn3| |exact Hin1|exact Hne].
      intros when Hw. rewrite Ht3 in Hw. apply in_app_iff in Hw. destruct Hw as [Hw|[Hw|[]]]; [left; exact Hw|right]. injection Hw as _ E0 _. symmetry. exact E0.
Qed.

(* stored timer ids are older than the next id; with that, the invariant survives every unnoticed step *)
Definition fresh_ok (w : world) : Prop := forall st a k tid, In (k, Some tid) (inner a (get_store st w)) -> tid < next_id w.
Definition FR (w : world) : Prop := fresh_ok w /\ Rk w.

Lemma GP_fresh X w : GP X w -> fresh_ok w.
Proof. intros Hg st a k tid Hin. exact (stored_fresh X w st a k tid Hg Hin). Qed.

Lemma FR_rx w w' : rx w w' -> FR w -> FR w'.
Proof.
  intros Hx [Hf [R1 R2]]. destruct Hx as [A1 A2 A3 A4 A5 A6]. split.
  - intros st a k tid Hin. rewrite A2 in Hin. pose proof (Hf _ _ _ _ Hin). lia.
  - constructor.
    + rewrite <- expiry_ok_tlog, A1, expiry_ok_tlog. exact R1.
    + intros st a k tid Hin. rewrite A2 in Hin. destruct (R2 _ _ _ _ Hin) as (tr & ttl & L & F & T & D).
      exists tr, ttl. split; [rewrite <- last_refresh_tlog, A1, last_refresh_tlog; exact L|]. split; [exact F|]. split.
      * intros when Hw. destruct (A3 _ _ _ _ _ Hw) as [Hw'|Hw']; [apply T; exact Hw'|]. pose proof (Hf _ _ _ _ Hin). lia.
      * rewrite A4, A5. exact D.
Qed.

Lemma FR_shrink st s' w : FR w ->
  (forall a' k' tid', In (k', Some tid') (inner a' s') -> In (k', Some tid') (inner a' (get_store st w))) ->
  FR (put_store st s' w).
Proof.
  intros [Hf Hr] Hsub. split; [|apply R_shrink; assumption].
  destruct (has_store st w) eqn:Hh; [|rewrite get_put_missing by exact Hh; exact Hf].
  intros st2 a2 k2 tid2 Hin. destruct (put_store_frame st s' w) as (_ & _ & _ & F4 & _). rewrite F4.
  destruct (store_id_eqb st2 st) eqn:Es.
  - apply store_id_eqb_eq in Es. subst st2. rewrite get_put_same in Hin by exact Hh. eapply Hf. apply Hsub. exact Hin.
  - rewrite get_put_other in Hin; [eapply Hf; exact Hin|]. intros ->. rewrite (proj2 (store_id_eqb_eq st st) eq_refl) in Es. discriminate.
Qed.

Lemma FR_callbacks st a : forall (l : list (key * option N)) w, FR w ->
  FR (fold_left (fun acc p => store_callback st (fst p) a (cancel_opt (snd p) acc)) l w).
Proof.
  induction l as [|p l IH]; intros w Hf; cbn [fold_left]; [exact Hf|]. apply IH.
  eapply FR_rx; [|exact Hf]. eapply rx_trans; [apply rx_cancel_opt|eapply same_rx, n_store_callback].
Qed.

Lemma FR_store_stop st a k w : FR w -> FR (store_stop st a k w).
Proof.
  intros Hf. unfold store_stop. destruct (aget key_eqb k _).
  - eapply FR_rx; [eapply rx_trans; [apply rx_cancel_opt|eapply same_rx, n_store_callback]|].
    apply FR_shrink; [exact Hf|]. intros a' k' tid'. rewrite inner_aset, !inner_touch. destruct (N.eqb_spec a' a) as [->|_]; [|auto]. apply in_adel_E.
  - apply FR_shrink; [exact Hf|]. intros a' k' tid'. rewrite inner_touch. auto.
Qed.
Lemma FR_store_stop_all_for_address st a w : FR w -> FR (store_stop_all_for_address st a w).
Proof.
  intros Hf. unfold store_stop_all_for_address. apply FR_callbacks. apply FR_shrink; [exact Hf|].
  intros a' k' tid'. rewrite inner_aset, inner_touch. destruct (a' =? a); [intros []|auto].
Qed.
Lemma FR_store_stop_all st w : FR w -> FR (store_stop_all st w).
Proof.
  intros Hf. unfold store_stop_all.
  assert (H : forall (l : list (addr * list (key * option N))) w0, FR w0 -> FR (fold_left (fun acc p => store_stop_all_for_address st (fst p) acc) l w0)).
  { induction l as [|p l IH]; intros w0 H0; cbn [fold_left]; [exact H0|]. apply IH, FR_store_stop_all_for_address, H0. }
  apply FR_shrink; [apply H; exact Hf|]. intros a' k' tid' [].
Qed.

Lemma FR_store_refresh X st ttl a k w : GP X w -> FR w -> has_store st w = true -> FR (fst (store_refresh st ttl a k w)).
Proof.
  intros Hg Hf Hh. pose proof (keeps_store_refresh st ttl a k X w Hg) as Hgf. cbv beta in Hgf.
  split; [eapply GP_fresh; exact Hgf|].
  rewrite store_refresh_unfold. cbv zeta. rewrite inner_touch.
  assert (Hg0 : GP X (put_store st (touch a (get_store st w)) w)).
  { apply keeps_put_store; [exact Hg| |].
    - intros a'. rewrite inner_touch. apply (g_keys _ _ Hg).
    - intros a' k' tid. rewrite inner_touch. apply (g_store _ _ Hg). }
  assert (Hf0 : FR (put_store st (touch a (get_store st w)) w)).
  { apply FR_shrink; [exact Hf|]. intros a' k' tid'. rewrite inner_touch. auto. }
  assert (Hh0 : has_store st (put_store st (touch a (get_store st w)) w) = true) by (rewrite has_store_put_store; exact Hh).
  destruct (aget key_eqb k (inner a (get_store st w))) as [old|] eqn:E.
  - assert (Hg1 : GP X (cancel_opt old (put_store st (aset N.eqb a (adel key_eqb k (inner a (touch a (get_store st w)))) (touch a (get_store st w))) w)))
      by (apply keeps_remove_cancel; assumption).
    rewrite <- (inner_touch a a (get_store st w)).
    apply (R_refresh_tail X); [exact Hg1| |].
    + assert (Hsh : FR (put_store st (aset N.eqb a (adel key_eqb k (inner a (touch a (get_store st w)))) (touch a (get_store st w))) w)).
      { apply FR_shrink; [exact Hf|]. intros a' k' tid'. rewrite inner_aset, !inner_touch. destruct (N.eqb_spec a' a) as [->|_]; [|auto]. apply in_adel_E. }
      exact (proj2 (FR_rx _ _ (rx_cancel_opt old _) Hsh)).
    + destruct old; cbn [cancel_opt]; [change (has_store st (cancel_timer n ?x)) with (has_store st x)|]; rewrite has_store_put_store; exact Hh.
  - destruct st as [|i], k as [s|sub]; try (apply (R_refresh_tail X); [exact Hg0|exact (proj2 Hf0)|exact Hh0]).
    + assert (Hs : same (put_store SFound (touch a (get_store SFound w)) w) (notify_service listener_offered s a (put_store SFound (touch a (get_store SFound w)) w)))
        by (apply n_notify_service; intros l; apply n_listener_offered).
      apply (R_refresh_tail X); [eapply same_G; [exact Hs|exact Hg0]|exact (proj2 (FR_rx _ _ (same_rx _ _ Hs) Hf0))|reflexivity].
    + destruct (client_subscribed i sub a (put_store (SSubs i) (touch a (get_store (SSubs i) w)) w)) as [w' ok] eqn:Ec.
      pose proof (n_client_subscribed i sub a (put_store (SSubs i) (touch a (get_store (SSubs i) w)) w)) as Hs.
      cbv beta in Hs. rewrite Ec in Hs. cbn [fst] in Hs.
      destruct ok; cbn [negb fst].
      * apply (R_refresh_tail X); [eapply same_G; [exact Hs|exact Hg0]|exact (proj2 (FR_rx _ _ (same_rx _ _ Hs) Hf0))|].
        assert (Hi : insts w' = insts (put_store (SSubs i) (touch a (get_store (SSubs i) w)) w)).
        { unfold client_subscribed in Ec. destruct (aget N.eqb i (insts (put_store (SSubs i) (touch a (get_store (SSubs i) w)) w))); injection Ec as <- _; reflexivity. }
        cbn [has_store] in *. rewrite Hi. exact Hh0.
      * exact (proj2 (FR_rx _ _ (same_rx _ _ Hs) Hf0)).
Qed.

(* ------------------------------------------------------------------ lifted through every protocol function *)
Definition GGR (X : list (N * handle)) (w : world) : Prop := GG X w /\ Tlate w /\ Rk w.
Definition kkR (f : world -> world) : Prop := forall X w, GGR X w -> GGR X (f w).

Lemma GGR_FR X w : GGR X w -> FR w.
Proof. intros ([Hg _] & _ & Hr). split; [eapply GP_fresh; exact Hg|exact Hr]. Qed.

Lemma GGR_same X w w' : same w w' -> GGR X w -> GGR X w'.
Proof.
  intros Hs Hg. pose proof (GGR_FR _ _ Hg) as Hf. destruct Hg as (Hg & Hl & Hr).
  split; [eapply GG_same; eauto|]. split; [eapply Tlate_ext; [eapply same_ext; exact Hs|exact Hl]|].
  exact (proj2 (FR_rx _ _ (same_rx _ _ Hs) Hf)).
Qed.
Lemma kkR_of f : kk f -> E f -> (forall w, rx w (f w)) -> kkR f.
Proof.
  intros H1 H2 H3 X w Hg. pose proof (GGR_FR _ _ Hg) as Hf. destruct Hg as (Hg & Hl & Hr).
  split; [apply H1; exact Hg|]. split; [eapply Tlate_ext; [apply H2|exact Hl]|]. exact (proj2 (FR_rx _ _ (H3 w) Hf)).
Qed.
Lemma kkR_store f : kk f -> E f -> (forall w, FR w -> FR (f w)) -> kkR f.
Proof.
  intros H1 H2 H3 X w Hg. pose proof (GGR_FR _ _ Hg) as Hf. destruct Hg as (Hg & Hl & Hr).
  split; [apply H1; exact Hg|]. split; [eapply Tlate_ext; [apply H2|exact Hl]|]. exact (proj2 (H3 w Hf)).
Qed.

Theorem kkR_exec h : soon_ok h = true -> kkR (exec h).
Proof.
  refine (Lift.kk_exec GGR GGR_same _ _ _ _ _ _ _ _ _ _ _ h).
  - intros d h0 Hs. apply kkR_of; [apply kk_call_later; exact (proj1 (andb_prop _ _ Hs))|apply E_call_later|intros w; apply rx_call_later].
  - intros st a k. apply kkR_store; [apply kk_store_stop|apply E_store_stop|intros w; apply FR_store_stop].
  - intros st a. apply kkR_store; [apply kk_store_stop_all_for_address|apply E_store_stop_all_for_address|intros w; apply FR_store_stop_all_for_address].
  - intros st. apply kkR_store; [apply kk_store_stop_all|apply E_store_stop_all|intros w; apply FR_store_stop_all].
  - intros X st ttl a k w Hg Hh. pose proof (GGR_FR _ _ Hg) as Hf. destruct Hg as (Hg & Hl & Hr).
    split; [apply kk_store_refresh; assumption|]. split; [eapply Tlate_ext; [apply E_store_refresh|exact Hl]|].
    exact (proj2 (FR_store_refresh X st ttl a k w (proj1 Hg) Hf Hh)).
  - intros k. apply kkR_of; [apply kk_new_task|apply E_new_task|intros w; apply rx_new_task].
  - intros t. apply kkR_of; [apply kk_finish_task|apply E_finish_task|intros w; apply rx_finish_task].
  - intros t k d pc i. apply kkR_of; [apply kk_task_sleep|apply E_task_sleep|intros w; apply rx_task_sleep].
  - intros t. apply kkR_of; [apply kk_cancel_task|apply E_cancel_task|intros w; apply rx_cancel_task].
  - intros t. apply kkR_of; [apply kk_sleep_done|apply E_sleep_done|intros w; apply rx_sleep_done].
  - intros e d. apply kkR_of; [apply kk_queue_send|apply E_queue_send|intros w; apply rx_queue_send].
Qed.

(* ------------------------------------------------------------------ the loop *)
Lemma rdy_pop' w otid h r : ready w = (otid, h) :: r -> forall p, In p (rdy (set_ready r w)) -> In p (rdy w).
Proof. intros Hr p Hp. unfold rdy in *. cbn [ready set_ready] in Hp. rewrite Hr. cbn [flat_map]. apply in_or_app. right. exact Hp. Qed.

Lemma R_pop w otid h r : Rk w -> ready w = (otid, h) :: r -> Rk (set_ready r w).
Proof.
  intros [R1 R2] Hr. constructor; [exact R1|]. intros st a k tid Hin. destruct (R2 st a k tid Hin) as (tr & ttl & L & F & T & D).
  exists tr, ttl. split; [exact L|]. split; [exact F|]. split; [exact T|]. intros Hp. apply D. eapply rdy_pop'; eauto.
Qed.

(* the expiry callback run by the loop for a live timer: exactly TTL after the latest refresh of the entry *)
Lemma R_expired_popped w tid st a k r : GG [] w -> Rk w -> ready w = (Some tid, HExpired st a k) :: r -> memN tid (cancelled w) = false ->
  Rk (store_expired st a k (set_ready r w)).
Proof.
  intros [Hg [H2 Hne]] Hr0 Hr Hnc.
  assert (Hrd : In (tid, HExpired st a k) (rdy w)) by (unfold rdy; rewrite Hr; cbn [flat_map fst snd app]; left; reflexivity).
  assert (Hpend : In (tid, HExpired st a k) (tided w)) by (unfold tided; apply in_or_app; right; exact Hrd).
  pose proof (H2 _ _ _ _ Hpend Hnc) as Hent.
  destruct (r_dead _ Hr0 _ _ _ _ Hent) as (tr & ttl & L & F & _ & D). specialize (D Hrd).
  pose proof (g_keys _ _ Hg st a) as Hnd. pose proof (in_aget_E _ _ _ Hnd Hent) as Hget.
  pose proof (R_pop w _ _ r Hr0 Hr) as Hr1. set (w1 := set_ready r w) in *.
  assert (Hf1 : FR w1) by (split; [intros st2 a2 k2 tid2 Hin; exact (stored_fresh [] w st2 a2 k2 tid2 Hg Hin)|exact Hr1]).
  unfold store_expired. rewrite inner_touch. change (get_store st w1) with (get_store st w). rewrite Hget.
  set (w2 := store_callback st k a (put_store st (aset N.eqb a (adel key_eqb k (inner a (get_store st w))) (touch a (get_store st w))) w1)).
  assert (Hf2 : FR w2).
  { unfold w2. eapply FR_rx; [eapply same_rx, n_store_callback|]. apply FR_shrink; [exact Hf1|].
    intros a' k' tid'. rewrite inner_aset, inner_touch. destruct (N.eqb_spec a' a) as [->|_]; [|auto]. apply in_adel_E. }
  assert (Htl : tlog (glog w2) = tlog (glog w)).
  { unfold w2. rewrite (sm_tlog _ _ (n_store_callback st k a _)), glog_put_store. reflexivity. }
  assert (Hst2 : forall a', inner a' (get_store st w2) = if a' =? a then adel key_eqb k (inner a (get_store st w)) else inner a' (get_store st w)).
  { intros a'. unfold w2. rewrite (sm_store _ _ (n_store_callback st k a _)).
    assert (Hh : has_store st w1 = true).
    { destruct st as [|i]; [reflexivity|]. cbn [has_store]. unfold amem. unfold get_store in Hent. change (insts w1) with (insts w).
      destruct (aget N.eqb i (insts w)); [reflexivity|]. cbn in Hent. contradiction. }
    rewrite get_put_same by exact Hh. rewrite inner_aset, inner_touch. reflexivity. }
  destruct Hf2 as [_ [R1 R2]].
  constructor.
  - cbn [ghost glog set_glog expiry_ok]. rewrite <- last_refresh_tlog, Htl, last_refresh_tlog, L, F, R1. cbn [negb andb].
    assert (Hn : now w2 = now w) by (unfold w2; rewrite (sm_now _ _ (n_store_callback st k a _)), now_put_store'; reflexivity).
    rewrite Hn, D, N.eqb_refl. reflexivity.
  - intros st2 a2 k2 tid2 Hin. change (get_store st2 (ghost (GExpire st a k) w2)) with (get_store st2 w2) in Hin.
    destruct (R2 _ _ _ _ Hin) as (tr2 & ttl2 & L2 & F2 & T2 & D2).
    exists tr2, ttl2. cbn [ghost glog set_glog last_refresh].
    assert (Hse : same_entry st2 a2 k2 st a k = false).
    { unfold same_entry. destruct (store_id_eqb st st2) eqn:Es; [|reflexivity]. apply store_id_eqb_eq in Es. subst st2.
      destruct (N.eqb_spec a a2) as [<-|_]; [|reflexivity]. cbn [andb]. rewrite Hst2, N.eqb_refl in Hin.
      pose proof (adel_no_equiv k _ Hnd _ Hin) as Hq. exact Hq. }
    rewrite Hse. split; [exact L2|]. split; [exact F2|]. split; [exact T2|exact D2].
Qed.

Theorem GGR_lstep1 w : GGR [] w -> GGR [] (lstep1 w).
Proof.
  intros (Hgg & Hl & Hr0).
  split; [apply GG_lstep1; exact Hgg|]. split; [destruct (lstep1_facts w) as (l & _ & _ & _ & D); apply D; exact Hl|].
  pose proof Hgg as [Hg H2]. unfold lstep1. destruct (ready w) as [|[[tid|] h] r] eqn:Hr; [exact Hr0| |].
  - cbv zeta. pose proof (R_pop w _ _ r Hr0 Hr) as Hr1.
    destruct (is_cancelled tid (set_ready r w)) eqn:Ec; [exact Hr1|].
    assert (Hpre : GGR [(tid, h)] (set_ready r w)).
    { split; [split; [apply pop_GP; assumption|eapply G2_pop; eauto]|]. split; [exact Hl|exact Hr1]. }
    destruct (soon_ok h) eqn:Es.
    + exact (proj2 (proj2 (kkR_exec h Es _ _ Hpre))).
    + destruct h; try discriminate; cbn [exec].
      * eapply R_expired_popped; eauto.
      * exact (proj2 (FR_rx _ _ (rx_collector_timeout _ _) (GGR_FR _ _ Hpre))).
  - cbv zeta. pose proof (R_pop w _ _ r Hr0 Hr) as Hr1.
    assert (En : notexp_b h = true).
    { destruct H2 as [_ Hne]. unfold ne_ready in Hne. rewrite Hr in Hne. cbn [forallb fst snd] in Hne. apply andb_true_iff in Hne. tauto. }
    assert (Hpre : GGR [] (set_ready r w)).
    { split; [split; [|eapply G2_pop; eauto]|split; [exact Hl|exact Hr1]].
      apply (same_G_weak _ w); [|exact Hg]. unfold tided, tmr, rdy. cbn [ready set_ready timers]. rewrite Hr. reflexivity. }
    destruct (nocoll_b h) eqn:Ec.
    + refine (proj2 (proj2 (kkR_exec h _ _ _ Hpre))). unfold soon_ok. rewrite En, Ec. reflexivity.
    + destruct h; try discriminate. cbn [exec]. exact (proj2 (FR_rx _ _ (rx_collector_timeout _ _) (GGR_FR _ _ Hpre))).
Qed.

Lemma GGR_run_ready : forall n w, GGR [] w -> GGR [] (run_ready n w).
Proof. induction n as [|n IH]; intros w Hg; [exact Hg|]. rewrite run_ready_step. apply IH, GGR_lstep1, Hg. Qed.

Lemma rx_arrivals : forall hs w, rx w (fold_left (fun acc h => call_soon h acc) hs w).
Proof. induction hs as [|h hs IH]; intros w; cbn [fold_left]; [apply rx_refl|]. eapply rx_trans; [apply rx_call_soon|apply IH]. Qed.
Lemma E_arrivals' hs : E (fun w => fold_left (fun acc h => call_soon h acc) hs w).
Proof. apply (E_fold (fun acc h => call_soon h acc)). intros h. apply E_call_soon. Qed.

(* due timers become ready handles: an expiry timer that is due has a deadline equal to the current instant *)
Lemma R_iter_pre arrivals rv w : FR w -> Tlate w -> Rk (iter_pre arrivals rv w).
Proof.
  intros Hf Hl.
  set (w1 := fold_left (fun acc h => call_soon h acc) arrivals w).
  assert (Hf1 : FR w1) by (eapply FR_rx; [apply rx_arrivals|exact Hf]).
  assert (Hl1 : Tlate w1) by (eapply Tlate_ext; [apply E_arrivals'|exact Hl]).
  destruct Hf1 as [_ [R1 R2]]. unfold iter_pre. cbv zeta. fold w1.
  set (due := filter (fun t => (fst (fst t) <=? now w1) && negb (is_cancelled (snd (fst t)) w1)) (timers w1)).
  set (due' := sort_by_when (if rv then rev due else due)).
  constructor; [exact R1|].
  intros st a k tid Hin. change (In (k, Some tid) (inner a (get_store st w1))) in Hin.
  destruct (R2 _ _ _ _ Hin) as (tr & ttl & L & F & T & D). exists tr, ttl. split; [exact L|]. split; [exact F|].
  cbn [timers set_timers glog cfg now set_ready]. split.
  - intros when Hw. apply filter_In in Hw. apply T. apply Hw.
  - intros Hp. unfold rdy in Hp. cbn [ready set_timers set_ready] in Hp. rewrite flat_map_app in Hp. apply in_app_iff in Hp.
    destruct Hp as [Hp|Hp]; [apply D; exact Hp|].
    rewrite rdy_of_timers in Hp. apply in_map_iff in Hp. destruct Hp as ([[when tid'] h] & E0 & Hp). cbn [fst snd] in E0. injection E0 as -> ->.
    assert (Hd : In (when, tid, HExpired st a k) due).
    { unfold due'. eapply Permutation_in in Hp; [|apply perm_sort]. destruct rv; [apply in_rev in Hp|]; exact Hp. }
    apply filter_In in Hd. destruct Hd as [Hint Hb]. apply andb_true_iff in Hb. destruct Hb as [Hb1 Hb2]. cbn [fst snd] in Hb1, Hb2.
    apply N.leb_le in Hb1. unfold is_cancelled in Hb2. apply negb_true_iff in Hb2.
    pose proof (Hl1 _ Hint Hb2) as Hge. cbn [fst snd] in Hge. rewrite <- (T when Hint). lia.
Qed.

Theorem GGR_iteration arrivals rv w : all_notexp arrivals -> GGR [] w -> GGR [] (iteration arrivals rv w).
Proof.
  intros Ha Hg. pose proof (GGR_FR _ _ Hg) as Hf. destruct Hg as (Hg & Hl & Hr).
  rewrite iteration_pre. apply GGR_run_ready.
  split; [apply GG_iter_pre; assumption|]. split; [|apply R_iter_pre; assumption].
  destruct (fold_call_soon_facts arrivals w) as (A & B & Cc & D). cbv zeta in *.
  intros t Hin Hcan. unfold iter_pre in *. cbn [timers set_timers now cancelled set_ready] in *. apply filter_In in Hin.
  destruct Hin as [Hin Hb]. apply negb_true_iff, N.leb_gt in Hb. lia.
Qed.

Lemma R_set_now t w : rdy w = [] -> Rk w -> Rk (set_now t w).
Proof.
  intros Hr [R1 R2]. constructor; [exact R1|]. intros st a k tid Hin. destruct (R2 st a k tid Hin) as (tr & ttl & L & F & T & D).
  exists tr, ttl. split; [exact L|]. split; [exact F|]. split; [exact T|]. intros Hp. change (rdy (set_now t w)) with (rdy w) in Hp.
  rewrite Hr in Hp. contradiction.
Qed.

Theorem GGR_run : forall fuel events t_end rv w, Forall (fun e => soon_ok (snd e) = true) events -> GGR [] w ->
  GGR [] (fst (run fuel events t_end rv w)).
Proof.
  induction fuel as [|f IH]; intros events t_end rv w Hev Hg; cbn [run fst]; [exact Hg|].
  destruct (split_arrived (now w) events) as [arrived later] eqn:Es.
  destruct (split_arrived_notexp _ _ _ _ Hev Es) as [Ha Hl].
  destruct (next_timer w) as [m|] eqn:En.
  - destruct (ready w) as [|x r] eqn:Er; [destruct arrived as [|a ar]; [destruct (m <=? now w) eqn:Ed|]|];
      try (apply IH; [exact Hl|]; apply GGR_iteration; [exact Ha|exact Hg]).
    destruct (omin (Some m) _) as [t|] eqn:Eo; [|exact Hg]. destruct (t_end <? t); [exact Hg|]. apply IH; [exact Hev|].
    destruct Hg as ([A [B Cc]] & Hlate & Hr).
    assert (Htm : t <= m) by (destruct (match later with [] => None | e :: _ => Some (fst e) end); cbn in Eo; injection Eo as <-; lia).
    split; [split; [apply GP_set_now; exact A|split; [exact B|exact Cc]]|]. split.
    + intros t0 Hin Hc. cbn [now set_now]. pose proof (next_timer_le w m En t0 Hin Hc) as H1. pose proof (Hlate t0 Hin Hc) as H2. lia.
    + apply R_set_now; [unfold rdy; rewrite Er; reflexivity|exact Hr].
  - destruct (ready w) as [|x r] eqn:Er; [destruct arrived as [|a ar]|]; try (apply IH; [exact Hl|]; apply GGR_iteration; [exact Ha|exact Hg]).
    destruct (omin None _) as [t|] eqn:Eo; [|exact Hg]. destruct (t_end <? t); [exact Hg|]. apply IH; [exact Hev|].
    destruct Hg as ([A [B Cc]] & Hlate & Hr).
    split; [split; [apply GP_set_now; exact A|split; [exact B|exact Cc]]|]. split.
    + intros t0 Hin Hc. exfalso. rewrite next_timer_fold in En. destruct (nt_fold_none w _ _ En) as [_ Hall]. pose proof (Hall _ Hin) as Hx.
      cbn [timers cancelled set_now] in Hc. congruence.
    + apply R_set_now; [unfold rdy; rewrite Er; reflexivity|exact Hr].
Qed.

Lemma R_empty' now0 c ins dr : fresh_insts ins ->
  Rk (mkWorld now0 [] [] [] 1 c sess_init false None [] [] [] [] None false [] ins [] [] [] dr [] []).
Proof.
  intros Hf. constructor; [reflexivity|]. intros st a k tid Hin. exfalso. destruct st as [|i]; [exact Hin|].
  unfold get_store in Hin. cbn [insts] in Hin. destruct (aget N.eqb i ins) as [x|] eqn:E; [|exact Hin].
  rewrite (Hf i x (aget_in_N _ _ _ E)) in Hin. exact Hin.
Qed.

Theorem GGR_reachable s sc : d_scenario s = Some sc -> GGR [] (fst (run_scenario sc)).
Proof.
  intros Hd. unfold run_scenario.
  destruct s as [| |l]; try discriminate. cbn [d_scenario] in Hd.
  destruct l as [|c [|ins [|dr [|ev [|[te| |] [|rv [|[fu| |] [|]]]]]]]]; try discriminate.
  destruct (d_timings c); cbn [obind] in Hd; [|discriminate].
  destruct (dlist d_inst ins) as [ins'|] eqn:Ei; cbn [obind] in Hd; [|discriminate].
  destruct (dlist dN dr); cbn [obind] in Hd; [|discriminate].
  destruct (dlist d_event_in ev) as [evs|] eqn:Ee; cbn [obind] in Hd; [|discriminate].
  destruct (dbool rv); cbn [obind] in Hd; [|discriminate]. injection Hd as <-. cbn [sc_events sc_end sc_rev sc_fuel].
  apply GGR_run.
  - unfold dlist in Ee. destruct (dL ev); cbn [obind] in Ee; [|discriminate]. eapply dmap_event_notexp; eauto.
  - unfold init_world. cbn [sc_cfg sc_insts sc_draws].
    assert (Hf : fresh_insts ins') by (unfold dlist in Ei; destruct (dL ins); cbn [obind] in Ei; [|discriminate]; eapply dmap_inst_fresh; eauto).
    split; [apply GG_empty; exact Hf|]. split; [intros x []|apply R_empty'; exact Hf].
Qed.

(* ------------------------------------------------------------------ what it says, for users *)
Theorem reachable_expiries_on_time s sc : d_scenario s = Some sc ->
  let w := fst (run_scenario sc) in
  expiry_ok (glog w) = true
  /\ forall st a k tid, In (k, Some tid) (inner a (get_store st w)) ->
       exists tr ttl, last_refresh st a k (glog w) = Some (tr, ttl) /\ (ttl =? TTL_FOREVER) = false
         /\ forall when, In (when, tid, HExpired st a k) (timers w) -> when = tr + ttl * usec_per_sec.
Proof.
  intros Hd w. destruct (proj2 (proj2 (GGR_reachable s sc Hd))) as [R1 R2]. fold w in R1, R2. split; [exact R1|].
  intros st a k tid Hin. destruct (R2 _ _ _ _ Hin) as (tr & ttl & L & F & T & _). exists tr, ttl. auto.
Qed.

Example expiry_ok_example :
  let k := KService (mkService 1 1 1 0 [] [] []) in
  expiry_ok [(3 * usec_per_sec + 5, GExpire SFound 7 k); (5, GRefresh SFound 7 k 3); (1, GRefresh SFound 7 k 1)] = true
  /\ expiry_ok [(1 * usec_per_sec + 1, GExpire SFound 7 k); (5, GRefresh SFound 7 k 3); (1, GRefresh SFound 7 k 1)] = false
  /\ expiry_ok [(9, GExpire SFound 7 k); (5, GRefresh SFound 7 k TTL_FOREVER)] = false
  /\ expiry_ok [(2 * usec_per_sec + 5, GExpire SFound 7 k); (usec_per_sec + 5, GExpire SFound 7 k); (5, GRefresh SFound 7 k 1)] = false.
Proof. cbv zeta. repeat split; vm_compute; reflexivity. Qed.
