(* Lifting an invariant of the world through EVERY composite function of the stack model (Model/Stack.v), once and for all:
   given an invariant I (indexed by the handles that still count as pending while their callback runs) that is kept by
   the primitives - neutral steps, call_later, the TimedStore operations, the task operations, queue_send - it is kept by
   every protocol function and by the callback of every handle that is neither an expiry nor a collector timeout (those
   two are treated together with their pop from the ready queue by each invariant).  Instantiated for the ownership
   invariants (Proofs/WorldInv2.v), the history invariant (WorldLog.v) and the timing invariant (WorldLogTime.v). *)
From Coq Require Import Lia Permutation.
From PS Require Import Lib.Base Lib.Struct Generated.Consts Model.SdTypes Model.Config Model.Session Model.Someip Model.SdCodec
  Model.StackTypes Model.Stack Model.StackIO Proofs.AListFacts Proofs.EqFacts Proofs.KeyEquiv Proofs.WorldInv.

Section Lift.
  Variable GG : list (N * handle) -> world -> Prop.
  Definition kk (f : world -> world) : Prop := forall X w, GG X w -> GG X (f w).

  Hypothesis GG_same : forall X w w', same w w' -> GG X w -> GG X w'.
  Hypothesis kk_call_later : forall d h, soon_ok h = true -> kk (fun w => snd (call_later d h w)).
  Hypothesis kk_store_stop : forall st a k, kk (store_stop st a k).
  Hypothesis kk_store_stop_all_for_address : forall st a, kk (store_stop_all_for_address st a).
  Hypothesis kk_store_stop_all : forall st, kk (store_stop_all st).
  Hypothesis kk_store_refresh : forall X st ttl a k w, GG X w -> has_store st w = true -> GG X (fst (store_refresh st ttl a k w)).
  Hypothesis kk_new_task : forall k, kk (fun w => snd (new_task k w)).
  Hypothesis kk_finish_task : forall t, kk (finish_task t).
  Hypothesis kk_task_sleep : forall t k d pc i, kk (task_sleep t k d pc i).
  Hypothesis kk_cancel_task : forall t, kk (cancel_task t).
  Hypothesis kk_sleep_done : forall t, kk (sleep_done t).
  Hypothesis kk_queue_send : forall e d, kk (queue_send e d).

  Lemma kk_neutral f : neutral f -> kk f.
  Proof. intros H X w Hg. eapply GG_same; [apply H|exact Hg]. Qed.
  Lemma kk_fold {Y} (f : world -> Y -> world) l : (forall x, kk (fun w => f w x)) -> kk (fun w => fold_left f l w).
  Proof. intros H. induction l as [|x l IH]; intros X w Hg; cbn [fold_left]; [exact Hg|]. apply IH. apply (H x). exact Hg. Qed.

  (* ------------------------------------------------------------------ composite functions *)
  Ltac pair_kk H E := let K := fresh "K" in pose proof H as K; cbv beta in K; rewrite E in K; cbn [fst snd] in K.

  Lemma kk_subscriber_start : kk subscriber_start.
  Proof.
    intros X w Hg. unfold subscriber_start. destruct (sub_alive w); [exact Hg|].
    destruct (new_task TSub (set_sub_alive true w)) as [t w1] eqn:E.
    eapply GG_same; [apply n_set_sub_task|]. pair_kk (kk_new_task TSub X (set_sub_alive true w)) E.
    apply K. eapply GG_same; [apply n_set_sub_alive|exact Hg].
  Qed.
  Lemma kk_subscriber_stop b : kk (subscriber_stop b).
  Proof.
    intros X w Hg. unfold subscriber_stop. destruct (negb (sub_alive w)); [exact Hg|].
    set (w1 := set_sub_alive false w).
    assert (Hg1 : GG X w1) by (eapply GG_same; [apply n_set_sub_alive|exact Hg]).
    set (w2 := match sub_task w1 with Some t => set_sub_task None (cancel_task t w1) | None => w1 end).
    assert (Hg2 : GG X w2).
    { unfold w2. destruct (sub_task w1); [|exact Hg1]. eapply GG_same; [apply n_set_sub_task|]. apply kk_cancel_task. exact Hg1. }
    destruct b; [|exact Hg2].
    apply (kk_fold (fun acc p => call_soon (HSendStopSub (fst p) (snd p)) acc)); [|exact Hg2].
    intros p. apply kk_neutral. apply n_call_soon. reflexivity.
  Qed.
  Lemma kk_subscribe_round t : kk (subscribe_round t).
  Proof.
    intros X w Hg. unfold subscribe_round.
    set (w1 := fold_left _ (group_entries (sub_entries w)) w).
    assert (Hg1 : GG X w1).
    { unfold w1. apply (kk_fold (fun acc p => send_subscribe (t_subscribe_ttl (cfg acc)) (fst p) (snd p) acc)); [|exact Hg].
      intros p X' w' Hg'. eapply GG_same; [apply n_send_subscribe|exact Hg']. }
    destruct (t_refresh (cfg w1)); [apply kk_task_sleep|apply kk_finish_task]; exact Hg1.
  Qed.
  Lemma kk_handle_offer e a : kk (handle_offer e a).
  Proof.
    intros X w Hg. unfold handle_offer.
    destruct (from_offer_entry e) as [s|]; [|exact Hg].
    destruct (e_ttl e =? 0); [apply kk_store_stop; exact Hg|].
    destruct (negb (is_watching e w)); [exact Hg|apply kk_store_refresh; [exact Hg|reflexivity]].
  Qed.
  Lemma kk_discovery_start : kk discovery_start.
  Proof.
    intros X w Hg. unfold discovery_start.
    match goal with |- GG X (if ?b then _ else _) => destruct b end; [exact Hg|].
    destruct (new_task TFind w) as [t w1] eqn:E. eapply GG_same; [apply n_set_disc_task|].
    pair_kk (kk_new_task TFind X w) E. apply K. exact Hg.
  Qed.
  Lemma kk_discovery_stop : kk discovery_stop.
  Proof.
    intros X w Hg. unfold discovery_stop. destruct (disc_task w); [|exact Hg].
    eapply GG_same; [apply n_set_disc_task|]. apply kk_cancel_task. exact Hg.
  Qed.
  Lemma kk_inst_send_offer i d b : kk (inst_send_offer i d b).
  Proof. intros X w Hg. unfold inst_send_offer. destruct (get_inst i w); [apply kk_queue_send|]; exact Hg. Qed.
  Lemma kk_inst_start i : kk (fun w => fst (inst_start i w)).
  Proof.
    intros X w Hg. unfold inst_start. destruct (get_inst i w) as [ins|] eqn:Ei; [|exact Hg].
    destruct (in_task ins); [cbn [fst]; eapply GG_same; [apply n_emit; reflexivity|exact Hg]|].
    destruct (new_task (TOffer i) w) as [t w1] eqn:E. cbn [fst].
    pair_kk (kk_new_task (TOffer i) X w) E.
    assert (Hi1 : get_inst i w1 = Some ins).
    { assert (w1 = snd (new_task (TOffer i) w)) as -> by (rewrite E; reflexivity). exact Ei. }
    eapply GG_same; [eapply n_put_inst; [exact Hi1|reflexivity]|]. apply K. exact Hg.
  Qed.
  Lemma kk_inst_stop i : kk (fun w => fst (inst_stop i w)).
  Proof.
    intros X w Hg. unfold inst_stop. destruct (get_inst i w) as [ins|] eqn:Ei; [|exact Hg].
    destruct (in_task ins) as [t|]; [|cbn [fst]; eapply GG_same; [apply n_emit; reflexivity|exact Hg]].
    cbn [fst]. apply kk_store_stop_all.
    set (w1 := put_inst i _ (cancel_task t w)).
    assert (Hg1 : GG X w1).
    { eapply GG_same; [eapply n_put_inst; [rewrite get_inst_cancel_task; exact Ei|reflexivity]|]. apply kk_cancel_task. exact Hg. }
    destruct (t_cyclic (cfg w1) =? 0); [apply kk_inst_send_offer|]; exact Hg1.
  Qed.
  Lemma kk_for_insts f : (forall i, kk (fun w => fst (f i w))) -> forall l, kk (fun w => fst (for_insts f l w)).
  Proof.
    intros Hf. induction l as [|i l IH]; intros X w Hg; cbn [for_insts fst]; [exact Hg|].
    destruct (f i w) as [w1 ok] eqn:E. pair_kk (Hf i X w) E. destruct ok; [apply IH; apply K; exact Hg|cbn [fst]; apply K; exact Hg].
  Qed.
  Lemma kk_announcer_start : kk announcer_start.
  Proof.
    intros X w Hg. unfold announcer_start. destruct (for_insts inst_start (announcing w) w) as [w1 ok] eqn:E.
    pair_kk (kk_for_insts inst_start kk_inst_start (announcing w) X w) E.
    destruct ok; [eapply GG_same; [apply n_set_ann_started|]|]; apply K; exact Hg.
  Qed.
  Lemma kk_announcer_stop : kk announcer_stop.
  Proof.
    intros X w Hg. unfold announcer_stop. destruct (negb (ann_started w)); [exact Hg|].
    destruct (for_insts inst_stop (announcing w) w) as [w1 ok] eqn:E.
    pair_kk (kk_for_insts inst_stop kk_inst_stop (announcing w) X w) E.
    destruct ok; [eapply GG_same; [apply n_set_ann_started|]|]; apply K; exact Hg.
  Qed.
  Lemma kk_announce_service i : kk (announce_service i).
  Proof.
    intros X w Hg. unfold announce_service. destruct (ann_started w).
    - destruct (inst_start i w) as [w1 ok] eqn:E. pair_kk (kk_inst_start i X w) E.
      destruct ok; [eapply GG_same; [apply n_set_announcing|]|]; apply K; exact Hg.
    - eapply GG_same; [apply n_set_announcing|exact Hg].
  Qed.
  Lemma kk_stop_announce_service i b : kk (stop_announce_service i b).
  Proof.
    intros X w Hg. unfold stop_announce_service. destruct (remove_first N.eqb i (announcing w)); [|eapply GG_same; [apply n_emit; reflexivity|exact Hg]].
    assert (Hg1 : GG X (set_announcing l w)) by (eapply GG_same; [apply n_set_announcing|exact Hg]).
    destruct (b && ann_started (set_announcing l w)); [apply kk_inst_stop|]; exact Hg1.
  Qed.
  Lemma kk_inst_handle_subscribe e a i : kk (fun w => fst (inst_handle_subscribe e a i w)).
  Proof.
    intros X w Hg. unfold inst_handle_subscribe. destruct (get_inst i w) as [ins|] eqn:Ei; [|exact Hg].
    destruct (in_task ins); [|exact Hg]. destruct (matches_subscribe (in_service ins) e) as [[|]|]; try exact Hg.
    destruct (e_ttl e =? 0); [cbn [fst]; apply kk_store_stop; exact Hg|].
    assert (Hh : has_store (SSubs i) w = true) by (cbn [has_store]; unfold amem; unfold get_inst in Ei; rewrite Ei; reflexivity).
    pose proof (kk_store_refresh X (SSubs i) (sb_ttl (from_subscribe_entry e)) a (KSub (from_subscribe_entry e)) w Hg Hh) as K.
    destruct (store_refresh (SSubs i) (sb_ttl (from_subscribe_entry e)) a (KSub (from_subscribe_entry e)) w) as [w1 ok]. cbn [fst] in K.
    destruct ok; cbn [fst]; [apply kk_queue_send|unfold send_subscribe_nack; apply kk_queue_send]; exact K.
  Qed.
  Lemma kk_announcer_handle_subscribe e a : kk (announcer_handle_subscribe e a).
  Proof.
    intros X w Hg. unfold announcer_handle_subscribe.
    assert (Hf : forall l acc, GG X (fst acc) ->
              GG X (fst (fold_left (fun acc i => let '(w', m) := inst_handle_subscribe e a i (fst acc) in (w', snd acc || m)) l acc))).
    { induction l as [|i l IH]; intros acc Ha; cbn [fold_left]; [exact Ha|]. apply IH.
      destruct (inst_handle_subscribe e a i (fst acc)) as [w' m] eqn:E. cbn [fst].
      pair_kk (kk_inst_handle_subscribe e a i X (fst acc)) E. apply K. exact Ha. }
    specialize (Hf (announcing w) (w, false) Hg).
    destruct (fold_left _ (announcing w) (w, false)) as [w1 any]. cbn [fst] in Hf.
    destruct any; [exact Hf|]. unfold send_subscribe_nack. apply kk_queue_send. exact Hf.
  Qed.
  Lemma kk_announcer_handle_findservice e a mc : kk (announcer_handle_findservice e a mc).
  Proof.
    intros X w Hg. unfold announcer_handle_findservice.
    destruct (filter _ (announcing w)) as [|i0 l0] eqn:Ef; [exact Hg|]. destruct mc.
    - destruct (draw (t_rr_min (cfg w)) (t_rr_max (cfg w)) w) as [d w1] eqn:Ed.
      pose proof (n_draw (t_rr_min (cfg w)) (t_rr_max (cfg w)) w) as Hs. cbv beta in Hs. rewrite Ed in Hs. cbn [snd] in Hs.
      apply (kk_fold (fun acc i => snd (call_later d (HAnswerFind i a) acc))); [|eapply GG_same; eauto].
      intros i. apply kk_call_later. reflexivity.
    - apply (kk_fold (fun acc i => call_soon (HAnswerFind i a) acc)); [|exact Hg].
      intros i. apply kk_neutral, n_call_soon. reflexivity.
  Qed.
  Lemma kk_answer_find i a : kk (answer_find i a).
  Proof.
    intros X w Hg. unfold answer_find. destruct (get_inst i w) as [ins|]; [|exact Hg].
    destruct (in_can_answer ins); [apply kk_inst_send_offer|]; exact Hg.
  Qed.
  Lemma kk_announcer_reboot_detected a : kk (announcer_reboot_detected a).
  Proof.
    intros X w Hg. unfold announcer_reboot_detected.
    apply (kk_fold (fun acc i => store_stop_all_for_address (SSubs i) a acc)); [|exact Hg].
    intros i. apply kk_store_stop_all_for_address.
  Qed.
  Lemma kk_offer_next t i inst : kk (offer_next t i inst).
  Proof.
    intros X w Hg. unfold offer_next. destruct (i <? t_rep_max (cfg w)); [apply kk_task_sleep; exact Hg|].
    destruct (t_cyclic (cfg w) =? 0); [apply kk_finish_task|apply kk_task_sleep]; exact Hg.
  Qed.
  Lemma kk_find_next t i : kk (find_next t i).
  Proof.
    intros X w Hg. unfold find_next. destruct (i <? t_rep_max (cfg w)); [apply kk_task_sleep|apply kk_finish_task]; exact Hg.
  Qed.
  Lemma kk_stop_offer_branch t inst : kk (fun w =>
    let w1 := set_can_answer inst false w in finish_task t (if t_cyclic (cfg w1) =? 0 then w1 else inst_send_offer inst None true w1)).
  Proof.
    intros X w Hg. cbv zeta. apply kk_finish_task.
    assert (Hg1 : GG X (set_can_answer inst false w)) by (eapply GG_same; [apply n_set_can_answer|exact Hg]).
    destruct (t_cyclic (cfg (set_can_answer inst false w)) =? 0); [|apply kk_inst_send_offer]; exact Hg1.
  Qed.
  Lemma kk_task_step t : kk (task_step t).
  Proof.
    intros X w Hg. unfold task_step. destruct (get_task t w) as [tk|]; [|exact Hg]. destruct (tk_done tk); [exact Hg|].
    destruct (tk_kind tk) as [| |inst].
    - destruct (tk_pc tk); destruct (tk_must_cancel tk); try (apply kk_finish_task; exact Hg); apply kk_subscribe_round; exact Hg.
    - destruct (tk_pc tk) as [|p].
      + destruct (tk_must_cancel tk); [apply kk_finish_task; exact Hg|].
        destruct (watched w); [apply kk_finish_task; exact Hg|].
        destruct (draw (t_init_min (cfg w)) (t_init_max (cfg w)) w) as [d w1] eqn:Ed.
        pose proof (n_draw (t_init_min (cfg w)) (t_init_max (cfg w)) w) as Hs. cbv beta in Hs. rewrite Ed in Hs. cbn [snd] in Hs.
        apply kk_task_sleep. eapply GG_same; eauto.
      + destruct p; destruct (tk_must_cancel tk); try (apply kk_finish_task; exact Hg);
          (destruct (find_entries w) eqn:Ef; [apply kk_finish_task; exact Hg|]; apply kk_find_next; eapply GG_same; [apply n_send_sd|exact Hg]).
    - destruct (tk_pc tk) as [|p].
      + destruct (tk_must_cancel tk); [apply kk_finish_task; exact Hg|].
        destruct (draw (t_init_min (cfg w)) (t_init_max (cfg w)) w) as [d w1] eqn:Ed.
        pose proof (n_draw (t_init_min (cfg w)) (t_init_max (cfg w)) w) as Hs. cbv beta in Hs. rewrite Ed in Hs. cbn [snd] in Hs.
        apply kk_task_sleep. eapply GG_same; eauto.
      + repeat match goal with |- context [match ?q with xI _ => _ | xO _ => _ | xH => _ end] => destruct q end;
        destruct (tk_must_cancel tk);
        first [ apply kk_finish_task; exact Hg
              | apply (kk_stop_offer_branch t inst); exact Hg
              | apply kk_offer_next; first [ eapply GG_same; [apply n_set_can_answer|]; apply kk_inst_send_offer; exact Hg
                                           | apply kk_inst_send_offer; exact Hg ]
              | apply kk_task_sleep; apply kk_inst_send_offer; exact Hg ].
  Qed.
  Lemma kk_sd_message_received h a mc : kk (sd_message_received h a mc).
  Proof.
    intros X w Hg. unfold sd_message_received. destruct (negb (sd_unicast h)); [exact Hg|].
    apply (kk_fold (fun acc e =>
       if e_type e =? ET_OfferService then call_soon (HHandleOffer e a) acc
       else if e_type e =? ET_SubscribeAck then acc
       else if e_type e =? ET_FindService then announcer_handle_findservice e a mc acc
       else if e_type e =? ET_Subscribe then (if mc then acc else announcer_handle_subscribe e a acc)
       else acc)); [|exact Hg].
    intros e X' w' Hg'. destruct (e_type e =? ET_OfferService); [eapply GG_same; [apply n_call_soon; reflexivity|exact Hg']|].
    destruct (e_type e =? ET_SubscribeAck); [exact Hg'|].
    destruct (e_type e =? ET_FindService); [apply kk_announcer_handle_findservice; exact Hg'|].
    destruct (e_type e =? ET_Subscribe); [|exact Hg']. destruct mc; [exact Hg'|apply kk_announcer_handle_subscribe; exact Hg'].
  Qed.
  Lemma kk_reboot_detected a : kk (reboot_detected a).
  Proof.
    intros X w Hg. unfold reboot_detected. eapply GG_same; [apply n_call_soon; reflexivity|]. apply kk_announcer_reboot_detected. exact Hg.
  Qed.
  Lemma kk_message_received m a mc : kk (message_received m a mc).
  Proof.
    intros X w Hg. unfold message_received. destruct (negb (is_sd_message m)); [exact Hg|].
    destruct (parse_sd (m_payload m)) as [[h r]|]; [|exact Hg].
    pose proof (n_set_sess_rx w a mc (sd_reboot h) (m_sess m)) as Hrx.
    destruct (check_received (sess w) a mc (sd_reboot h) (m_sess m)) as [rb s']. cbn [snd] in Hrx.
    assert (Hg1 : GG X (set_sess s' w)) by (eapply GG_same; [exact Hrx|exact Hg]).
    assert (Hg2 : GG X (if rb then reboot_detected a (set_sess s' w) else set_sess s' w)).
    { destruct rb; [apply kk_reboot_detected|]; exact Hg1. }
    destruct (resolve_sd h); [apply kk_sd_message_received|]; exact Hg2.
  Qed.
  Lemma kk_datagram_received data a mc : kk (datagram_received data a mc).
  Proof.
    intros X w Hg. unfold datagram_received. apply (kk_fold (fun acc m => message_received m a mc acc)); [|exact Hg].
    intros m. apply kk_message_received.
  Qed.
  Lemma kk_exec_api c : kk (exec_api c).
  Proof.
    intros X w Hg. destruct c; cbn [exec_api].
    - unfold proto_start. apply kk_discovery_start, kk_announcer_start, kk_subscriber_start. exact Hg.
    - unfold proto_stop. apply kk_subscriber_stop, kk_announcer_stop, kk_discovery_stop. exact Hg.
    - eapply GG_same; [apply n_connection_lost|exact Hg].
    - eapply GG_same; [apply n_watch_service|exact Hg].
    - eapply GG_same; [apply n_stop_watch_service|exact Hg].
    - eapply GG_same; [apply n_watch_all_services|exact Hg].
    - eapply GG_same; [apply n_stop_watch_all_services|exact Hg].
    - eapply GG_same; [apply n_watch_service|exact Hg].
    - eapply GG_same; [apply n_stop_watch_service|exact Hg].
    - eapply GG_same; [apply n_subscribe_eventgroup|exact Hg].
    - eapply GG_same; [apply n_stop_subscribe_eventgroup|exact Hg].
    - apply kk_subscriber_start; exact Hg.
    - apply kk_subscriber_stop; exact Hg.
    - apply kk_discovery_start; exact Hg.
    - apply kk_discovery_stop; exact Hg.
    - apply kk_announcer_start; exact Hg.
    - apply kk_announcer_stop; exact Hg.
    - apply kk_announce_service; exact Hg.
    - apply kk_stop_announce_service; exact Hg.
    - apply kk_queue_send; exact Hg.
    - eapply GG_same; [apply n_send_sd|exact Hg].
    - destruct (get_inst i w) as [ins|] eqn:Ei; [|exact Hg]. eapply GG_same; [eapply n_put_inst; [exact Ei|reflexivity]|exact Hg].
    - eapply GG_same; [apply n_call_soon; reflexivity|exact Hg].
  Qed.

  (* every callback except an expiry keeps both invariants; the expiry callback is treated with its pop (below) *)
  Theorem kk_exec h : soon_ok h = true -> kk (exec h).
  Proof.
    intros Hn X w Hg. destruct h; cbn [exec]; try discriminate.
    - apply kk_datagram_received; exact Hg.
    - apply kk_exec_api; exact Hg.
    - apply kk_subscriber_stop; exact Hg.
    - apply kk_store_stop_all; exact Hg.
    - apply kk_announcer_stop; exact Hg.
    - apply kk_store_stop_all_for_address; exact Hg.
    - apply kk_handle_offer; exact Hg.
    - eapply GG_same; [apply n_send_subscribe|exact Hg].
    - eapply GG_same; [apply n_send_subscribe|exact Hg].
    - apply kk_answer_find; exact Hg.
    - apply kk_task_step; exact Hg.
    - apply kk_sleep_done; exact Hg.
  Qed.

End Lift.
