(* The keys of the two TimedStores (Service / EventgroupSubscription) are compared with equalities that ignore some
   fields and treat others as sets: key_eqb is an equivalence relation, not Leibniz equality. *)
From PS Require Import Lib.Base Model.SdTypes Model.Config Model.Session Model.StackTypes Proofs.EqFacts.

Section Subset.
  Context {X : Type} (eqb : X -> X -> bool) (eqb_eq : forall a b, eqb a b = true <-> a = b).
  Definition sub (a b : list X) : bool := forallb (fun x => existsb (eqb x) b) a.
  Lemma sub_spec a b : sub a b = true <-> (forall x, In x a -> In x b).
  Proof.
    unfold sub. rewrite forallb_forall. split; intros H x Hx.
    - apply H in Hx. apply existsb_exists in Hx. destruct Hx as (y & Hy & E). apply eqb_eq in E. subst. exact Hy.
    - apply existsb_exists. exists x. split; [apply H; exact Hx|apply eqb_eq; reflexivity].
  Qed.
  Lemma sub_refl a : sub a a = true. Proof. apply sub_spec. auto. Qed.
  Lemma sub_trans a b c : sub a b = true -> sub b c = true -> sub a c = true.
  Proof. rewrite !sub_spec. auto. Qed.
End Subset.

Lemma subsetN_sub a b : subsetN a b = sub N.eqb a b. Proof. reflexivity. Qed.
Lemma subset_opts_sub a b : subset_opts a b = sub sdopt_eqb a b. Proof. reflexivity. Qed.

Lemma service_eqb_refl a : service_eqb a a = true.
Proof. unfold service_eqb. rewrite !N.eqb_refl, !subsetN_sub, (sub_refl _ N.eqb_eq). reflexivity. Qed.
Lemma service_eqb_sym a b : service_eqb a b = service_eqb b a.
Proof.
  unfold service_eqb. rewrite (N.eqb_sym (s_sid a)), (N.eqb_sym (s_iid a)), (N.eqb_sym (s_maj a)), (N.eqb_sym (s_min a)).
  destruct (s_sid b =? s_sid a), (s_iid b =? s_iid a), (s_maj b =? s_maj a), (s_min b =? s_min a); cbn [andb]; try reflexivity.
  apply andb_comm.
Qed.
Lemma service_eqb_trans a b c : service_eqb a b = true -> service_eqb b c = true -> service_eqb a c = true.
Proof.
  unfold service_eqb. rewrite !andb_true_iff, !N.eqb_eq, !subsetN_sub.
  intros [[[[[-> ->] ->] ->] H1] H2] [[[[[-> ->] ->] ->] H3] H4].
  repeat split; try reflexivity; eapply (sub_trans _ N.eqb_eq); eauto.
Qed.

Lemma sub_eqb_refl a : sub_eqb a a = true.
Proof. unfold sub_eqb. rewrite !N.eqb_refl, !subset_opts_sub, (sub_refl _ sdopt_eqb_eq). reflexivity. Qed.
Lemma sub_eqb_sym a b : sub_eqb a b = sub_eqb b a.
Proof.
  unfold sub_eqb. rewrite (N.eqb_sym (sb_sid a)), (N.eqb_sym (sb_iid a)), (N.eqb_sym (sb_maj a)), (N.eqb_sym (sb_id a)), (N.eqb_sym (sb_counter a)).
  destruct (sb_sid b =? sb_sid a), (sb_iid b =? sb_iid a), (sb_maj b =? sb_maj a), (sb_id b =? sb_id a), (sb_counter b =? sb_counter a); cbn [andb]; try reflexivity.
  apply andb_comm.
Qed.
Lemma sub_eqb_trans a b c : sub_eqb a b = true -> sub_eqb b c = true -> sub_eqb a c = true.
Proof.
  unfold sub_eqb. rewrite !andb_true_iff, !N.eqb_eq, !subset_opts_sub.
  intros [[[[[[-> ->] ->] ->] ->] H1] H2] [[[[[[-> ->] ->] ->] ->] H3] H4].
  repeat split; try reflexivity; eapply (sub_trans _ sdopt_eqb_eq); eauto.
Qed.

Lemma key_eqb_refl k : key_eqb k k = true.
Proof. destruct k; cbn; [apply service_eqb_refl|apply sub_eqb_refl]. Qed.
Lemma key_eqb_sym a b : key_eqb a b = key_eqb b a.
Proof. destruct a, b; cbn; try reflexivity; [apply service_eqb_sym|apply sub_eqb_sym]. Qed.
Lemma key_eqb_trans a b c : key_eqb a b = true -> key_eqb b c = true -> key_eqb a c = true.
Proof. destruct a, b, c; cbn; try discriminate; [apply service_eqb_trans|apply sub_eqb_trans]. Qed.

(* association lists whose keys are pairwise inequivalent *)
Section EAlist.
  Context {V : Type}.
  Inductive NoDupE : list (key * V) -> Prop :=
  | nde_nil : NoDupE []
  | nde_cons k v l : (forall p, In p l -> key_eqb k (fst p) = false) -> NoDupE l -> NoDupE ((k, v) :: l).

  Lemma aget_in_E k (l : list (key * V)) v : aget key_eqb k l = Some v -> exists k', In (k', v) l /\ key_eqb k k' = true.
  Proof.
    induction l as [|[k2 v2] l IH]; cbn [aget]; [discriminate|].
    destruct (key_eqb k k2) eqn:E.
    - intros H; injection H as <-. exists k2. split; [left; reflexivity|exact E].
    - intros H. destruct (IH H) as (k' & Hi & He). exists k'. split; [right; exact Hi|exact He].
  Qed.

  Lemma in_aget_E k v (l : list (key * V)) : NoDupE l -> In (k, v) l -> aget key_eqb k l = Some v.
  Proof.
    induction l as [|[k2 v2] l IH]; intros Hnd Hin; [contradiction|]. inversion Hnd as [|? ? ? Hne Hnd']; subst.
    cbn [aget]. destruct Hin as [Hin|Hin].
    - injection Hin as -> ->. rewrite key_eqb_refl. reflexivity.
    - destruct (key_eqb k k2) eqn:E.
      + pose proof (Hne _ Hin) as Hx. cbn [fst] in Hx. rewrite key_eqb_sym in Hx. congruence.
      + apply IH; assumption.
  Qed.

  Lemma in_adel_E k p (l : list (key * V)) : In p (adel key_eqb k l) -> In p l.
  Proof.
    induction l as [|[k2 v2] l IH]; cbn [adel]; [tauto|]. destruct (key_eqb k k2); [intros H; right; exact H|].
    intros [H|H]; [left; exact H|right; apply IH; exact H].
  Qed.

  Lemma nodupE_adel k (l : list (key * V)) : NoDupE l -> NoDupE (adel key_eqb k l).
  Proof.
    induction l as [|[k2 v2] l IH]; intros Hnd; cbn [adel]; [constructor|]. inversion Hnd as [|? ? ? Hne Hnd']; subst.
    destruct (key_eqb k k2); [exact Hnd'|]. constructor; [|apply IH; exact Hnd'].
    intros p Hp. apply Hne. eapply in_adel_E; eauto.
  Qed.

  (* after deleting the entry equivalent to k, no remaining key is equivalent to k *)
  Lemma adel_no_equiv k (l : list (key * V)) : NoDupE l -> forall p, In p (adel key_eqb k l) -> key_eqb k (fst p) = false.
  Proof.
    induction l as [|[k2 v2] l IH]; intros Hnd p Hp; cbn [adel] in Hp; [contradiction|].
    inversion Hnd as [|? ? ? Hne Hnd']; subst. destruct (key_eqb k k2) eqn:E.
    - destruct (key_eqb k (fst p)) eqn:E2; [|reflexivity]. pose proof (Hne _ Hp) as Hx.
      assert (key_eqb k2 (fst p) = true) by (eapply key_eqb_trans; [rewrite key_eqb_sym; exact E|exact E2]). congruence.
    - destruct Hp as [<-|Hp]; [exact E|apply IH; assumption].
  Qed.

  Lemma nodupE_snoc k v (l : list (key * V)) : NoDupE l -> (forall p, In p l -> key_eqb k (fst p) = false) -> NoDupE (l ++ [(k, v)]).
  Proof.
    induction l as [|[k2 v2] l IH]; intros Hnd Hne; cbn [app]; [constructor; [intros p []|constructor]|].
    inversion Hnd as [|? ? ? Hne2 Hnd']; subst. constructor.
    - intros p Hp. apply in_app_iff in Hp. destruct Hp as [Hp|[<-|[]]]; [apply Hne2; exact Hp|].
      cbn [fst]. rewrite key_eqb_sym. apply (Hne (k2, v2)). left. reflexivity.
    - apply IH; [exact Hnd'|]. intros p Hp. apply Hne. right. exact Hp.
  Qed.

  (* the entry found by aget is the one adel removes: every other entry survives *)
  Lemma in_adel_other k p (l : list (key * V)) : In p l -> key_eqb k (fst p) = false -> In p (adel key_eqb k l).
  Proof.
    induction l as [|[k2 v2] l IH]; intros Hin Hne; [contradiction|]. cbn [adel].
    destruct (key_eqb k k2) eqn:E.
    - destruct Hin as [<-|Hin]; [cbn [fst] in Hne; congruence|exact Hin].
    - destruct Hin as [<-|Hin]; [left; reflexivity|right; apply IH; assumption].
  Qed.
End EAlist.
