(* Characterising lemmas of the insertion-ordered association lists. *)
From PS Require Import Lib.Base.

Lemma nodup_snoc {X} (l : list X) k : NoDup l -> ~ In k l -> NoDup (l ++ [k]).
Proof.
  induction l as [|x l IH]; cbn [app]; intros Hnd Hni.
  - constructor; [intros []|constructor].
  - inversion Hnd as [|? ? Hx Hl]; subst. constructor.
    + rewrite in_app_iff. cbn [In]. intros [H|[H|[]]]; [contradiction|]. subst. apply Hni. left. reflexivity.
    + apply IH; [exact Hl|]. intros H. apply Hni. right. exact H.
Qed.

Section Facts.
  Context {K V : Type} (eqb : K -> K -> bool).
  Hypothesis eqb_eq : forall a b, eqb a b = true <-> a = b.

  Lemma eqb_refl (a : K) : eqb a a = true.
  Proof. apply eqb_eq. reflexivity. Qed.
  Lemma eqb_neq (a b : K) : a <> b -> eqb a b = false.
  Proof. intros H. destruct (eqb a b) eqn:E; [|reflexivity]. apply eqb_eq in E. contradiction. Qed.
  Lemma eqb_dec (a b : K) : {a = b} + {a <> b}.
  Proof. destruct (eqb a b) eqn:E; [left; apply eqb_eq; exact E|right; intros H; apply eqb_eq in H; congruence]. Qed.

  Lemma aget_aset_same k (v : V) l : aget eqb k (aset eqb k v l) = Some v.
  Proof.
    induction l as [|[k' v'] l IH]; cbn [aset aget].
    - rewrite eqb_refl. reflexivity.
    - destruct (eqb k k') eqn:E; cbn [aget]; rewrite E; [reflexivity|exact IH].
  Qed.

  Lemma aget_aset_other k k' (v : V) l : k <> k' -> aget eqb k (aset eqb k' v l) = aget eqb k l.
  Proof.
    intros Hne. induction l as [|[k2 v2] l IH]; cbn [aset aget].
    - rewrite eqb_neq by exact Hne. reflexivity.
    - destruct (eqb k' k2) eqn:E; cbn [aget].
      + apply eqb_eq in E. subst k2. rewrite eqb_neq by exact Hne. reflexivity.
      + destruct (eqb k k2); [reflexivity|exact IH].
  Qed.

  Lemma aget_adel_other k k' (l : list (K * V)) : k <> k' -> aget eqb k (adel eqb k' l) = aget eqb k l.
  Proof.
    intros Hne. induction l as [|[k2 v2] l IH]; cbn [adel aget]; [reflexivity|].
    destruct (eqb k' k2) eqn:E; cbn [aget].
    - apply eqb_eq in E. subst k2. rewrite eqb_neq by exact Hne. reflexivity.
    - destruct (eqb k k2); [reflexivity|exact IH].
  Qed.

  Definition keys (l : list (K * V)) : list K := map fst l.

  Lemma aget_none_notin k (l : list (K * V)) : aget eqb k l = None <-> ~ In k (keys l).
  Proof.
    induction l as [|[k' v'] l IH]; cbn [aget keys map In]; [tauto|].
    destruct (eqb k k') eqn:E.
    - apply eqb_eq in E. subst. split; [discriminate|]. intros H. exfalso. apply H. left. reflexivity.
    - rewrite IH. split; intros H; [intros [H1|H1]; [subst; rewrite eqb_refl in E; discriminate|contradiction]|tauto].
  Qed.

  Lemma aget_adel_same k (l : list (K * V)) : NoDup (keys l) -> aget eqb k (adel eqb k l) = None.
  Proof.
    induction l as [|[k' v'] l IH]; intros Hnd; cbn [adel aget]; [reflexivity|].
    inversion Hnd as [|? ? Hni Hnd']; subst.
    destruct (eqb k k') eqn:E; cbn [aget].
    - apply eqb_eq in E. subst. apply aget_none_notin. exact Hni.
    - rewrite E. apply IH. exact Hnd'.
  Qed.

  Lemma keys_aset k (v : V) l :
    keys (aset eqb k v l) = if amem eqb k l then keys l else keys l ++ [k].
  Proof.
    unfold amem. induction l as [|[k' v'] l IH]; cbn [aset aget keys map app]; [reflexivity|].
    destruct (eqb k k') eqn:E; cbn [keys map]; [reflexivity|].
    fold (keys (aset eqb k v l)). fold (keys l). rewrite IH. destruct (aget eqb k l); reflexivity.
  Qed.

  Lemma nodup_aset k (v : V) l : NoDup (keys l) -> NoDup (keys (aset eqb k v l)).
  Proof.
    intros H. rewrite keys_aset. unfold amem. destruct (aget eqb k l) eqn:E; [exact H|].
    apply aget_none_notin in E. apply nodup_snoc; assumption.
  Qed.
End Facts.
