(* The "in time" clause of C15 over WHOLE RUNS of the full stack model: at every hand-over of a collector (GFlush in the
   ghost history) every entry it takes was queued at most one collection timeout earlier, and it takes exactly the
   entries queued for its destination since the previous hand-over.  Proved as an invariant kept by every callback,
   loop step and run, together with the history invariant (Proofs/WorldLog.v), the deadline bound (WorldDeadline.v)
   and "no live timer is overdue" (WorldTime.v).  Lifted through all protocol functions by Proofs/Lift.v. *)
From Coq Require Import Lia Permutation.
From PS Require Import Lib.Base Lib.Struct Generated.Consts Model.SdTypes Model.Config Model.Session Model.Someip Model.SdCodec
  Model.StackTypes Model.Stack Model.StackIO Proofs.AListFacts Proofs.EqFacts Proofs.KeyEquiv Proofs.C07Proofs Proofs.QueueProofs
  Proofs.WorldInv Proofs.WorldInv2 Proofs.WorldTime Proofs.WorldDeadline Proofs.WorldLog.
From PS Require Proofs.Lift.

(* queue times of the entries of destination d that have not been handed over yet, oldest first (history newest first) *)
Fixpoint ptimes (d : dest) (l : list (N * gev)) : list N :=
  match l with
  | [] => []
  | (t, GQueue _ d') :: r => if dest_eqb d' d then ptimes d r ++ [t] else ptimes d r
  | (_, GFlush d' _) :: r => if dest_eqb d' d then [] else ptimes d r
  | _ :: r => ptimes d r
  end.
(* every hand-over took exactly the pending entries of its destination, each queued at most tc earlier *)
Fixpoint intime (tc : N) (l : list (N * gev)) : bool :=
  match l with
  | [] => true
  | (t, GFlush d es) :: r =>
      forallb (fun tq => t <=? tq + tc) (ptimes d r) && Nat.eqb (length es) (length (ptimes d r)) && intime tc r
  | _ :: r => intime tc r
  end.

Lemma ptimes_qlog d l : ptimes d (qlog l) = ptimes d l.
Proof.
  induction l as [|[t g] l IH]; [reflexivity|]. destruct g as [e d'|d' es|es d' f i|st a k ttl|st a k|ml|dep].
  - change (ptimes d ((t, GQueue e d') :: qlog l) = ptimes d ((t, GQueue e d') :: l)). cbn [ptimes]. rewrite IH. reflexivity.
  - change (ptimes d ((t, GFlush d' es) :: qlog l) = ptimes d ((t, GFlush d' es) :: l)). cbn [ptimes]. rewrite IH. reflexivity.
  - change (ptimes d (qlog l) = ptimes d ((t, GSend es d' f i) :: l)). cbn [ptimes]. exact IH.
  - change (ptimes d (qlog l) = ptimes d ((t, GRefresh st a k ttl) :: l)). cbn [ptimes]. exact IH.
  - change (ptimes d (qlog l) = ptimes d ((t, GExpire st a k) :: l)). cbn [ptimes]. exact IH.
  - change (ptimes d (qlog l) = ptimes d ((t, GMulti ml) :: l)). cbn [ptimes]. exact IH.
  - change (ptimes d (qlog l) = ptimes d ((t, GDupSub dep) :: l)). cbn [ptimes]. exact IH.
Qed.
Lemma intime_qlog tc l : intime tc (qlog l) = intime tc l.
Proof.
  induction l as [|[t g] l IH]; [reflexivity|]. destruct g as [e d'|d' es|es d' f i|st a k ttl|st a k|ml|dep].
  - change (intime tc ((t, GQueue e d') :: qlog l) = intime tc ((t, GQueue e d') :: l)). cbn [intime]. exact IH.
  - change (intime tc ((t, GFlush d' es) :: qlog l) = intime tc ((t, GFlush d' es) :: l)). cbn [intime]. rewrite IH, ptimes_qlog. reflexivity.
  - change (intime tc (qlog l) = intime tc ((t, GSend es d' f i) :: l)). cbn [intime]. exact IH.
  - change (intime tc (qlog l) = intime tc ((t, GRefresh st a k ttl) :: l)). cbn [intime]. exact IH.
  - change (intime tc (qlog l) = intime tc ((t, GExpire st a k) :: l)). cbn [intime]. exact IH.
  - change (intime tc (qlog l) = intime tc ((t, GMulti ml) :: l)). cbn [intime]. exact IH.
  - change (intime tc (qlog l) = intime tc ((t, GDupSub dep) :: l)). cbn [intime]. exact IH.
Qed.

Definition deadline_ok (w : world) (d : dest) (c : N) : Prop :=
  (forall when, In (when, c, HCollector c) (timers w) -> forall tq, In tq (ptimes d (glog w)) -> when <= tq + t_collect (cfg w))
  /\ (In (c, HCollector c) (rdy w) -> forall tq, In tq (ptimes d (glog w)) -> now w <= tq + t_collect (cfg w)).

Record Tk (w : world) : Prop := mkT {
  t_intime : intime (t_collect (cfg w)) (glog w) = true;
  t_len : forall d, length (ptimes d (glog w)) = length (w_pending w d);
  t_dead : forall d c co, open_collector w d = Some (c, co) -> deadline_ok w d c }.

Lemma rdy_ext w w' : ext w w' -> rdy w' = rdy w.
Proof.
  intros Hx. destruct (ex_ready _ _ Hx) as (l & A & B). unfold rdy. rewrite A, flat_map_app, (rdy_none l B), app_nil_r. reflexivity.
Qed.

(* steps that the history invariant does not notice do not disturb the timing invariant either *)
Lemma T_frame w w' : kx w w' -> ext w w' -> Tk w -> Tk w'.
Proof.
  intros Hk Hx [T1 T2 T3].
  assert (Hp : forall d, ptimes d (glog w') = ptimes d (glog w)).
  { intros d. rewrite <- (ptimes_qlog d (glog w')), (kx_qlog _ _ Hk), ptimes_qlog. reflexivity. }
  assert (Ho : forall d, open_collector w' d = open_collector w d).
  { apply open_collector_frame; [apply (kx_collectors _ _ Hk)|apply (kx_queues _ _ Hk)]. }
  constructor.
  - rewrite (kx_cfg _ _ Hk), <- intime_qlog, (kx_qlog _ _ Hk), intime_qlog. exact T1.
  - intros d. unfold w_pending. rewrite Hp, Ho. apply T2.
  - intros d c co H. rewrite Ho in H. destruct (T3 d c co H) as [D1 D2]. split.
    + intros when Hin tq Htq. rewrite Hp in Htq. rewrite (kx_cfg _ _ Hk). apply (D1 when); [|exact Htq].
      apply (kx_ctimers _ _ Hk). exact Hin.
    + intros Hin tq Htq. rewrite Hp in Htq. rewrite (kx_cfg _ _ Hk), (ex_now _ _ Hx). apply D2; [|exact Htq].
      rewrite (rdy_ext _ _ Hx) in Hin. exact Hin.
Qed.

(* ------------------------------------------------------------------ all four invariants together *)
Definition GGT (X : list (N * handle)) (w : world) : Prop := GGK X w /\ Jc w /\ Tlate w /\ Tk w.
Definition kkT (f : world -> world) : Prop := forall X w, GGT X w -> GGT X (f w).

Lemma kkT_of f : kkK f -> Xk f -> C f -> E f -> kkT f.
Proof.
  intros H1 H2 H3 H4 X w (Hg & Hj & Hl & Ht). split; [apply H1; exact Hg|]. split; [eapply Jc_cext; [apply H3|exact Hj]|].
  split; [eapply Tlate_ext; [apply H4|exact Hl]|]. eapply T_frame; [apply H2|apply H4|exact Ht].
Qed.
Lemma GGT_same {b} X w w' : sameb b w w' -> GGT X w -> GGT X w'.
Proof.
  intros Hs (Hg & Hj & Hl & Ht). split; [eapply GGK_same; eauto|]. split; [eapply Jc_cext; [eapply same_cext; exact Hs|exact Hj]|].
  split; [eapply Tlate_ext; [eapply same_ext; exact Hs|exact Hl]|]. eapply T_frame; [eapply same_kx; exact Hs|eapply same_ext; exact Hs|exact Ht].
Qed.
Lemma kkT_neutral f : neutral f -> kkT f.
Proof. intros H X w Hg. eapply GGT_same; [apply H|exact Hg]. Qed.
Lemma kkT_fold {Y} (f : world -> Y -> world) l : (forall x, kkT (fun w => f w x)) -> kkT (fun w => fold_left f l w).
Proof. intros H. induction l as [|x l IH]; intros X w Hg; cbn [fold_left]; [exact Hg|]. apply IH. apply (H x). exact Hg. Qed.

Lemma kkT_call_later d h : soon_ok h = true -> kkT (fun w => snd (call_later d h w)).
Proof.
  intros Hs. pose proof Hs as Hs0. unfold soon_ok in Hs. apply andb_true_iff in Hs. destruct Hs as [Hn Hc].
  apply kkT_of; [apply kkK_call_later; exact Hs0|intros w; apply Xk_call_later; exact Hc| |apply E_call_later].
  intros w. apply C_call_later. destruct h; try discriminate; exact I.
Qed.
Lemma kkT_store_stop st a k : kkT (store_stop st a k).
Proof. apply kkT_of; [apply kkK_store_stop|apply Xk_store_stop|apply C_store_stop|apply E_store_stop]. Qed.
Lemma kkT_store_stop_all_for_address st a : kkT (store_stop_all_for_address st a).
Proof. apply kkT_of; [apply kkK_store_stop_all_for_address|apply Xk_store_stop_all_for_address|apply C_store_stop_all_for_address|apply E_store_stop_all_for_address]. Qed.
Lemma kkT_store_stop_all st : kkT (store_stop_all st).
Proof. apply kkT_of; [apply kkK_store_stop_all|apply Xk_store_stop_all|apply C_store_stop_all|apply E_store_stop_all]. Qed.
Lemma kkT_store_refresh X st ttl a k w : GGT X w -> has_store st w = true -> GGT X (fst (store_refresh st ttl a k w)).
Proof.
  intros (Hg & Hj & Hl & Ht) Hh. split; [apply kkK_store_refresh; assumption|].
  split; [eapply Jc_cext; [apply C_store_refresh|exact Hj]|]. split; [eapply Tlate_ext; [apply E_store_refresh|exact Hl]|].
  eapply T_frame; [apply Xk_store_refresh|apply E_store_refresh|exact Ht].
Qed.
Lemma kkT_new_task k : kkT (fun w => snd (new_task k w)).
Proof. apply kkT_of; [apply kkK_new_task|apply Xk_new_task|apply C_new_task|apply E_new_task]. Qed.
Lemma kkT_finish_task t : kkT (finish_task t).
Proof. apply kkT_of; [apply kkK_finish_task|apply Xk_finish_task|apply C_finish_task|apply E_finish_task]. Qed.
Lemma kkT_task_sleep t k d pc i : kkT (task_sleep t k d pc i).
Proof. apply kkT_of; [apply kkK_task_sleep|apply Xk_task_sleep|apply C_task_sleep|apply E_task_sleep]. Qed.
Lemma kkT_cancel_task t : kkT (cancel_task t).
Proof. apply kkT_of; [apply kkK_cancel_task|apply Xk_cancel_task|apply C_cancel_task|apply E_cancel_task]. Qed.
Lemma kkT_sleep_done t : kkT (sleep_done t).
Proof. apply kkT_of; [apply kkK_sleep_done|apply Xk_sleep_done|apply C_sleep_done|apply E_sleep_done]. Qed.

(* ------------------------------------------------------------------ queue_send *)
Lemma in_snoc {A} (x y : A) l : In x (l ++ [y]) -> In x l \/ x = y.
Proof. intros H. apply in_app_iff in H. destruct H as [H|[H|[]]]; auto. Qed.

Lemma T_queue_send X e d w : GP X w -> Kinv w -> Jc w -> Tk w -> Tk (queue_send e d w).
Proof.
  intros Hg Hk Hj [T1 T2 T3]. destruct Hk as [K1 K2 K3 K4 K5 K6 K7 K8].
  destruct (N.eqb_spec (t_collect (cfg w)) 0) as [Hz|Hnz].
  - (* zero timeout *)
    rewrite (queue_send_zero e d w Hz).
    eapply T_frame; [eapply same_kx, n_send_sd|eapply same_ext, n_send_sd|].
    assert (Hnone : forall d', open_collector w d' = None).
    { intros d'. unfold open_collector. rewrite (K7 Hz). destruct (aget dest_eqb d' (queues w)); reflexivity. }
    assert (Hpt : forall d', ptimes d' (glog w) = []).
    { intros d'. specialize (T2 d'). unfold w_pending in T2. rewrite Hnone in T2. destruct (ptimes d' (glog w)); [reflexivity|discriminate]. }
    constructor; cbn [ghost set_glog glog cfg].
    + cbn [intime ptimes]. rewrite (proj2 (dest_eqb_eq d d) eq_refl), Hpt. cbn [app forallb length Nat.eqb andb].
      rewrite T1, Hz, N.add_0_r, N.leb_refl. reflexivity.
    + intros d'. change (w_pending (ghost (GFlush d [e]) (ghost (GQueue e d) w)) d') with (w_pending w d').
      unfold w_pending. rewrite Hnone. cbn [ptimes]. destruct (dest_eqb d d'); [reflexivity|]. rewrite Hpt. reflexivity.
    + intros d' c co H. change (open_collector (ghost (GFlush d [e]) (ghost (GQueue e d) w)) d') with (open_collector w d') in H.
      rewrite Hnone in H. discriminate.
  - destruct (open_collector w d) as [[c co]|] eqn:Eo.
    + (* appended to the open collector of d *)
      rewrite (queue_send_append e d w c co Hnz Eo). destruct (open_collector_some _ _ _ _ Eo) as (Q1 & Q2 & Q3).
      set (co' := mkColl (co_dest co) (co_data co ++ [e]) false).
      set (w' := set_collectors (aset N.eqb c co' (collectors w)) (ghost (GQueue e d) w)).
      assert (Hother : forall d', d' <> d -> open_collector w' d' = open_collector w d').
      { intros d' Hne. unfold open_collector, w'. cbn [set_collectors ghost set_glog collectors queues].
        destruct (aget dest_eqb d' (queues w)) as [c'|] eqn:Eq'; [|reflexivity].
        destruct (N.eqb_spec c' c) as [->|Hcc]; [|rewrite (aget_aset_other N.eqb N.eqb_eq) by exact Hcc; reflexivity].
        exfalso. apply Hne. rewrite <- (K3 d' c co Eq' Q2). apply (K3 d c co Q1 Q2). }
      assert (Hsame : open_collector w' d = Some (c, co')).
      { unfold open_collector, w'. cbn [set_collectors ghost set_glog collectors queues]. rewrite Q1, (aget_aset_same N.eqb N.eqb_eq). reflexivity. }
      assert (Hlog : glog w' = (now w, GQueue e d) :: glog w) by reflexivity.
      assert (Hcfg : cfg w' = cfg w) by reflexivity.
      assert (Htm : timers w' = timers w) by reflexivity.
      assert (Hrd : rdy w' = rdy w) by reflexivity.
      assert (Hnw : now w' = now w) by reflexivity.
      constructor.
      * rewrite Hlog, Hcfg. cbn [intime]. exact T1.
      * intros d'. rewrite Hlog. cbn [ptimes]. destruct (eqb_dec dest_eqb dest_eqb_eq d d') as [<-|Hne].
        -- rewrite (proj2 (dest_eqb_eq d d) eq_refl). unfold w_pending. rewrite Hsame. cbn [co' co_data].
           rewrite !app_length. cbn [length]. specialize (T2 d). unfold w_pending in T2. rewrite Eo in T2. lia.
        -- rewrite (eqb_neq dest_eqb dest_eqb_eq d d' Hne). unfold w_pending. rewrite (Hother d') by (intros E; apply Hne; symmetry; exact E).
           apply T2.
      * intros d' c1 co1 H. unfold deadline_ok. rewrite Hlog, Hcfg, Htm, Hrd, Hnw. destruct (eqb_dec dest_eqb dest_eqb_eq d' d) as [->|Hne].
        -- rewrite Hsame in H. injection H as <- <-. destruct (T3 d c co Eo) as [D1 D2]. cbn [ptimes]. rewrite (proj2 (dest_eqb_eq d d) eq_refl). split.
           ++ intros when Hin tq Htq. apply in_snoc in Htq. destruct Htq as [Htq| ->]; [apply (D1 when Hin tq Htq)|].
              apply (Hj _ Hin).
           ++ intros Hin tq Htq. apply in_snoc in Htq. destruct Htq as [Htq| ->]; [apply (D2 Hin tq Htq)|]. lia.
        -- rewrite (Hother d' Hne) in H. destruct (T3 d' c1 co1 H) as [D1 D2]. cbn [ptimes].
           rewrite (eqb_neq dest_eqb dest_eqb_eq d d') by (intros E; apply Hne; symmetry; exact E). split; assumption.
    + (* a new collector *)
      rewrite (queue_send_new_eq e d w Hnz Eo). set (n := next_id w). set (tc := t_collect (cfg w)).
      set (w' := set_queues (aset dest_eqb d n (queues w))
                   (set_collectors (collectors w ++ [(n, mkColl d [e] false)])
                      (snd (call_later tc (HCollector n) (ghost (GQueue e d) w))))).
      assert (Hfresh : aget N.eqb n (collectors w) = None).
      { destruct (aget N.eqb n (collectors w)) as [co0|] eqn:E0; [|reflexivity]. exfalso.
        assert (Hin : In (n, co0) (collectors w)).
        { clear - E0. induction (collectors w) as [|[k v] l IH]; [discriminate|]. cbn [aget] in E0.
          destruct (N.eqb_spec n k) as [->|Hne]; [injection E0 as ->; left; reflexivity|right; apply IH; exact E0]. }
        pose proof (g_collfresh _ _ Hg _ _ Hin). unfold n in *. lia. }
      assert (Hother : forall d', d' <> d -> open_collector w' d' = open_collector w d').
      { intros d' Hne. unfold open_collector, w'.
        cbn [set_queues set_collectors call_later snd set_next_id set_timers ghost set_glog collectors queues].
        rewrite (aget_aset_other dest_eqb dest_eqb_eq) by exact Hne.
        destruct (aget dest_eqb d' (queues w)) as [c'|] eqn:Eq'; [|reflexivity].
        destruct (K4 d' c' Eq') as (co1 & E1). rewrite (aget_app_in c' (collectors w) _ co1 E1), E1. reflexivity. }
      assert (Hsame : open_collector w' d = Some (n, mkColl d [e] false)).
      { unfold open_collector, w'. cbn [set_queues set_collectors call_later snd set_next_id set_timers ghost set_glog collectors queues].
        rewrite (aget_aset_same dest_eqb dest_eqb_eq), (aget_app_notin n (collectors w) _ Hfresh). cbn [fst snd]. rewrite N.eqb_refl. reflexivity. }
      assert (Hpt : ptimes d (glog w) = []).
      { specialize (T2 d). unfold w_pending in T2. rewrite Eo in T2. destruct (ptimes d (glog w)); [reflexivity|discriminate]. }
      assert (Hidfresh : forall h, ~ In (n, h) (tided w)).
      { intros h Hin. pose proof (g_fresh _ _ Hg (n, h)) as Hf. cbn [fst] in Hf. unfold n in Hf.
        assert (next_id w < next_id w) by (apply Hf; apply in_or_app; right; exact Hin). lia. }
      assert (Hlog : glog w' = (now w, GQueue e d) :: glog w) by reflexivity.
      assert (Hcfg : cfg w' = cfg w) by reflexivity.
      assert (Htm : timers w' = timers w ++ [(now w + tc, n, HCollector n)]) by reflexivity.
      assert (Hrd : rdy w' = rdy w) by reflexivity.
      assert (Hnw : now w' = now w) by reflexivity.
      constructor.
      * rewrite Hlog, Hcfg. cbn [intime]. exact T1.
      * intros d'. rewrite Hlog. cbn [ptimes].
        destruct (eqb_dec dest_eqb dest_eqb_eq d d') as [<-|Hne].
        -- rewrite (proj2 (dest_eqb_eq d d) eq_refl), Hpt. unfold w_pending. rewrite Hsame. reflexivity.
        -- rewrite (eqb_neq dest_eqb dest_eqb_eq d d' Hne). unfold w_pending. rewrite (Hother d') by (intros E; apply Hne; symmetry; exact E). apply T2.
      * intros d' c1 co1 H. unfold deadline_ok. rewrite Hlog, Hcfg, Htm, Hrd, Hnw. cbn [ptimes].
        destruct (eqb_dec dest_eqb dest_eqb_eq d' d) as [->|Hne].
        -- rewrite Hsame in H. injection H as <- <-. rewrite (proj2 (dest_eqb_eq d d) eq_refl), Hpt. split.
           ++ intros when Hin tq Htq. destruct Htq as [<-|[]]. apply in_snoc in Hin.
              destruct Hin as [Hin|Hin].
              ** exfalso. apply (Hidfresh (HCollector n)). unfold tided, tmr. apply in_or_app. left.
                 apply (in_map (fun t : N * N * handle => (snd (fst t), snd t)) _ _ Hin).
              ** injection Hin as ->. fold tc. lia.
           ++ intros Hin. exfalso. apply (Hidfresh (HCollector n)). unfold tided. apply in_or_app. right. exact Hin.
        -- rewrite (Hother d' Hne) in H. destruct (T3 d' c1 co1 H) as [D1 D2].
           rewrite (eqb_neq dest_eqb dest_eqb_eq d d') by (intros E; apply Hne; symmetry; exact E).
           split.
           ++ intros when Hin tq Htq. apply in_snoc in Hin.
              destruct Hin as [Hin|Hin]; [apply (D1 when Hin tq Htq)|].
              injection Hin as _ Hc1. exfalso. destruct (open_collector_some _ _ _ _ H) as (_ & E1 & _). rewrite Hc1, Hfresh in E1. discriminate.
           ++ exact D2.
Qed.

Lemma kkT_queue_send e d : kkT (queue_send e d).
Proof.
  intros X w (Hg & Hj & Hl & Ht). split; [apply kkK_queue_send; exact Hg|].
  split; [eapply Jc_cext; [apply C_queue_send|exact Hj]|]. split; [eapply Tlate_ext; [apply E_queue_send|exact Hl]|].
  eapply T_queue_send; [exact (proj1 (proj1 Hg))|exact (proj2 Hg)|exact Hj|exact Ht].
Qed.

(* ------------------------------------------------------------------ composite functions *)
(* the generic lifting of Proofs/Lift.v with the primitives above *)
Theorem kkT_exec h : soon_ok h = true -> kkT (exec h).
Proof.
  exact (Lift.kk_exec GGT GGT_same kkT_call_later kkT_store_stop kkT_store_stop_all_for_address kkT_store_stop_all kkT_store_refresh
           kkT_new_task kkT_finish_task kkT_task_sleep kkT_cancel_task kkT_sleep_done kkT_queue_send h).
Qed.

(* ------------------------------------------------------------------ the loop *)
Lemma rdy_pop w otid h r : ready w = (otid, h) :: r -> forall p, In p (rdy (set_ready r w)) -> In p (rdy w).
Proof. intros Hr p Hp. unfold rdy in *. cbn [ready set_ready] in Hp. rewrite Hr. cbn [flat_map]. apply in_or_app. right. exact Hp. Qed.

Lemma T_pop w otid h r : Tk w -> ready w = (otid, h) :: r -> Tk (set_ready r w).
Proof.
  intros [T1 T2 T3] Hr. constructor; [exact T1|exact T2|].
  intros d c co H. destruct (T3 d c co H) as [D1 D2]. split; [exact D1|].
  intros Hin. apply D2. eapply rdy_pop; eauto.
Qed.

(* the hand-over itself: the popped timeout handle of an open collector *)
Lemma T_collector_fire w tid c r : G w -> Kinv w -> Tk w -> ready w = (Some tid, HCollector c) :: r ->
  Tk (collector_timeout c (set_ready r w)).
Proof.
  intros Hg Hk [T1 T2 T3] Hr.
  assert (Hrd : In (tid, HCollector c) (rdy w)).
  { unfold rdy. rewrite Hr. cbn [flat_map fst snd app]. left. reflexivity. }
  assert (Hpend : In (tid, HCollector c) (tided w)) by (unfold tided; apply in_or_app; right; exact Hrd).
  destruct (k_once _ Hk tid c Hpend) as [-> Hopen].
  pose proof (Kinv_pop w _ _ r Hk Hr) as Hk1. set (w1 := set_ready r w) in *.
  unfold open_coll in Hopen. change (collectors w) with (collectors w1) in Hopen.
  unfold collector_timeout. destruct (aget N.eqb c (collectors w1)) as [co|] eqn:Eco; [|discriminate].
  apply negb_true_iff in Hopen.
  eapply T_frame; [eapply same_kx, n_send_sd|eapply same_ext, n_send_sd|].
  destruct Hk1 as [K1 K2 K3 K4 K5 K6 K7 K8].
  pose proof (K2 c co Eco Hopen) as Hreg. set (d0 := co_dest co) in *.
  assert (Ho0 : open_collector w d0 = Some (c, co)).
  { unfold open_collector. change (queues w) with (queues w1). change (collectors w) with (collectors w1). rewrite Hreg, Eco, Hopen. reflexivity. }
  destruct (T3 d0 c co Ho0) as [_ D2]. specialize (D2 Hrd).
  set (w2 := set_collectors (aset N.eqb c (mkColl d0 (co_data co) true) (collectors w1)) (ghost (GFlush d0 (co_data co)) w1)).
  assert (Hlog : glog w2 = (now w, GFlush d0 (co_data co)) :: glog w) by reflexivity.
  assert (Hcfg : cfg w2 = cfg w) by reflexivity.
  assert (Htm : timers w2 = timers w) by reflexivity.
  assert (Hnw : now w2 = now w) by reflexivity.
  assert (Hother : forall d, d <> d0 -> open_collector w2 d = open_collector w d).
  { intros d Hne. unfold open_collector, w2. cbn [set_collectors ghost set_glog collectors queues].
    change (queues w1) with (queues w). change (collectors w1) with (collectors w).
    destruct (aget dest_eqb d (queues w)) as [c'|] eqn:Eq'; [|reflexivity].
    destruct (N.eqb_spec c' c) as [->|Hcc]; [|rewrite (aget_aset_other N.eqb N.eqb_eq) by exact Hcc; reflexivity].
    exfalso. apply Hne. symmetry. eapply K3; eauto. }
  assert (Hclosed : open_collector w2 d0 = None).
  { unfold open_collector, w2. cbn [set_collectors ghost set_glog collectors queues]. rewrite Hreg, (aget_aset_same N.eqb N.eqb_eq). reflexivity. }
  constructor.
  - rewrite Hlog, Hcfg. cbn [intime]. rewrite T1, andb_true_r. apply andb_true_iff. split.
    + apply forallb_forall. intros tq Htq. apply N.leb_le. apply D2. exact Htq.
    + specialize (T2 d0). unfold w_pending in T2. rewrite Ho0 in T2. rewrite T2. apply PeanoNat.Nat.eqb_refl.
  - intros d. rewrite Hlog. cbn [ptimes]. destruct (eqb_dec dest_eqb dest_eqb_eq d0 d) as [<-|Hne].
    + rewrite (proj2 (dest_eqb_eq d0 d0) eq_refl). unfold w_pending. rewrite Hclosed. reflexivity.
    + rewrite (eqb_neq dest_eqb dest_eqb_eq d0 d Hne). unfold w_pending. rewrite (Hother d) by (intros E; apply Hne; symmetry; exact E). apply T2.
  - intros d c1 co1 H. destruct (eqb_dec dest_eqb dest_eqb_eq d d0) as [->|Hne]; [rewrite Hclosed in H; discriminate|].
    rewrite (Hother d Hne) in H. destruct (T3 d c1 co1 H) as [E1 E2]. unfold deadline_ok. rewrite Hlog, Hcfg, Htm, Hnw. cbn [ptimes].
    rewrite (eqb_neq dest_eqb dest_eqb_eq d0 d) by (intros E; apply Hne; symmetry; exact E). split; [exact E1|].
    intros Hin. apply E2. apply (rdy_pop w _ _ r Hr). exact Hin.
Qed.

Theorem GGT_lstep1 w : GGT [] w -> GGT [] (lstep1 w).
Proof.
  intros (Hgk & Hj & Hl & Ht).
  split; [apply GGK_lstep1; exact Hgk|]. split; [eapply Jc_cext; [apply cext_lstep1|exact Hj]|].
  split; [destruct (lstep1_facts w) as (l & _ & _ & _ & D); apply D; exact Hl|].
  destruct Hgk as [[Hg H2] Hk]. unfold lstep1. destruct (ready w) as [|[[tid|] h] r] eqn:Hr; [exact Ht| |].
  - cbv zeta. destruct (is_cancelled tid (set_ready r w)) eqn:Ec; [eapply T_pop; eauto|].
    assert (Hpre : GGT [(tid, h)] (set_ready r w)).
    { split; [split; [split; [apply pop_GP; assumption|eapply G2_pop; eauto]|eapply Kinv_pop; eauto]|].
      split; [exact Hj|]. split; [exact Hl|eapply T_pop; eauto]. }
    destruct (soon_ok h) eqn:Es.
    + exact (proj2 (proj2 (proj2 (kkT_exec h Es _ _ Hpre)))).
    + destruct h; try discriminate; cbn [exec].
      * eapply T_frame; [apply Xk_store_expired|apply E_store_expired|eapply T_pop; eauto].
      * eapply T_collector_fire; eauto.
  - cbv zeta. assert (Es : soon_ok h = true).
    { unfold soon_ok. apply andb_true_iff. split.
      - destruct H2 as [_ Hne]. unfold ne_ready in Hne. rewrite Hr in Hne. cbn [forallb fst snd] in Hne. apply andb_true_iff in Hne. tauto.
      - apply (k_soon _ Hk). rewrite Hr. left. reflexivity. }
    assert (Hpre : GGT [] (set_ready r w)).
    { split; [split; [split; [|eapply G2_pop; eauto]|eapply Kinv_pop; eauto]|].
      - apply (same_G_weak _ w); [|exact Hg]. unfold tided, tmr, rdy. cbn [ready set_ready timers]. rewrite Hr. reflexivity.
      - split; [exact Hj|]. split; [exact Hl|eapply T_pop; eauto]. }
    exact (proj2 (proj2 (proj2 (kkT_exec h Es _ _ Hpre)))).
Qed.

Lemma GGT_run_ready : forall n w, GGT [] w -> GGT [] (run_ready n w).
Proof. induction n as [|n IH]; intros w Hg; [exact Hg|]. rewrite run_ready_step. apply IH, GGT_lstep1, Hg. Qed.

Lemma E_arrivals hs : E (fun w => fold_left (fun acc h => call_soon h acc) hs w).
Proof. apply (E_fold (fun acc h => call_soon h acc)). intros h. apply E_call_soon. Qed.
Lemma Xk_arrivals hs : all_notexp hs -> forall w, kx w (fold_left (fun acc h => call_soon h acc) hs w).
Proof.
  induction hs as [|h hs IH]; intros Ha w; cbn [fold_left]; [apply kx_refl|]. inversion Ha as [|? ? Hh Ha']; subst.
  eapply kx_trans; [apply Xk_call_soon|apply IH; exact Ha'].
  unfold soon_ok in Hh. apply andb_true_iff in Hh. tauto.
Qed.

(* due timers become ready handles: a collector timeout that is due has a deadline equal to the current instant *)
Lemma T_iter_pre arrivals rv w : all_notexp arrivals -> Tlate w -> Tk w -> Tk (iter_pre arrivals rv w).
Proof.
  intros Ha Hl Ht.
  set (w1 := fold_left (fun acc h => call_soon h acc) arrivals w).
  assert (Ht1 : Tk w1) by (eapply T_frame; [apply Xk_arrivals; exact Ha|apply E_arrivals|exact Ht]).
  assert (Hl1 : Tlate w1) by (eapply Tlate_ext; [apply E_arrivals|exact Hl]).
  destruct Ht1 as [T1 T2 T3]. unfold iter_pre. cbv zeta. fold w1.
  set (due := filter (fun t => (fst (fst t) <=? now w1) && negb (is_cancelled (snd (fst t)) w1)) (timers w1)).
  set (due' := sort_by_when (if rv then rev due else due)).
  constructor; [exact T1|exact T2|].
  intros d c co H. change (open_collector w1 d = Some (c, co)) in H. destruct (T3 d c co H) as [D1 D2].
  unfold deadline_ok. cbn [timers set_timers glog cfg now set_ready]. split.
  - intros when Hin tq Htq. apply filter_In in Hin. apply (D1 when (proj1 Hin) tq Htq).
  - intros Hin tq Htq. unfold rdy in Hin. cbn [ready set_timers set_ready] in Hin. rewrite flat_map_app in Hin. apply in_app_iff in Hin.
    destruct Hin as [Hin|Hin]; [apply (D2 Hin tq Htq)|].
    rewrite rdy_of_timers in Hin. apply in_map_iff in Hin. destruct Hin as ([[when tid] h] & E0 & Hin). cbn [fst snd] in E0. injection E0 as -> ->.
    assert (Hd : In (when, c, HCollector c) due).
    { unfold due'. eapply Permutation_in in Hin; [|apply perm_sort]. destruct rv; [apply in_rev in Hin|]; exact Hin. }
    apply filter_In in Hd. destruct Hd as [Hint Hb]. apply andb_true_iff in Hb. destruct Hb as [Hb1 Hb2]. cbn [fst snd] in Hb1, Hb2.
    apply N.leb_le in Hb1. unfold is_cancelled in Hb2. apply negb_true_iff in Hb2.
    pose proof (Hl1 _ Hint Hb2) as Hge. cbn [fst snd] in Hge.
    pose proof (D1 when Hint tq Htq). lia.
Qed.

Theorem GGT_iteration arrivals rv w : all_notexp arrivals -> GGT [] w -> GGT [] (iteration arrivals rv w).
Proof.
  intros Ha (Hgk & Hj & Hl & Ht). rewrite iteration_pre. apply GGT_run_ready.
  split; [destruct Hgk as [Hg Hk]; split; [apply GG_iter_pre; assumption|apply K_iter_pre; assumption]|].
  assert (Hc : forall hs w0, cfg (fold_left (fun acc h => call_soon h acc) hs w0) = cfg w0).
  { induction hs as [|h hs IH]; intros w0; cbn [fold_left]; [reflexivity|]. rewrite IH. reflexivity. }
  destruct (fold_call_soon_facts arrivals w) as (A & B & Cc & D). cbv zeta in *.
  split; [|split].
  - intros t Hin. unfold iter_pre in *. cbn [timers set_timers now cfg set_ready] in *. apply filter_In in Hin. rewrite B in Hin.
    rewrite A, Hc. apply (Hj t (proj1 Hin)).
  - intros t Hin Hcan. unfold iter_pre in *. cbn [timers set_timers now cancelled set_ready] in *. apply filter_In in Hin.
    destruct Hin as [Hin Hb]. apply negb_true_iff, N.leb_gt in Hb. lia.
  - apply T_iter_pre; assumption.
Qed.

Lemma T_set_now t w : rdy w = [] -> Tk w -> Tk (set_now t w).
Proof.
  intros Hr [T1 T2 T3]. constructor; [exact T1|exact T2|]. intros d c co H. destruct (T3 d c co H) as [D1 _]. split; [exact D1|].
  intros Hin. change (rdy (set_now t w)) with (rdy w) in Hin. rewrite Hr in Hin. contradiction.
Qed.

Theorem GGT_run : forall fuel events t_end rv w, Forall (fun e => soon_ok (snd e) = true) events -> GGT [] w ->
  GGT [] (fst (run fuel events t_end rv w)).
Proof.
  induction fuel as [|f IH]; intros events t_end rv w Hev Hg; cbn [run fst]; [exact Hg|].
  destruct (split_arrived (now w) events) as [arrived later] eqn:Es.
  destruct (split_arrived_notexp _ _ _ _ Hev Es) as [Ha Hl].
  destruct (next_timer w) as [m|] eqn:En.
  - destruct (ready w) as [|x r] eqn:Er; [destruct arrived as [|a ar]; [destruct (m <=? now w) eqn:Ed|]|];
      try (apply IH; [exact Hl|]; apply GGT_iteration; [exact Ha|exact Hg]).
    destruct (omin (Some m) _) as [t|] eqn:Eo; [|exact Hg]. destruct (t_end <? t); [exact Hg|]. apply IH; [exact Hev|].
    destruct Hg as ([[A [B Cc]] D] & Hj & Hlate & Ht).
    assert (Htm : t <= m) by (destruct (match later with [] => None | e :: _ => Some (fst e) end); cbn in Eo; injection Eo as <-; lia).
    split; [split; [split; [apply GP_set_now; exact A|split; [exact B|exact Cc]]|apply K_set_now; exact D]|].
    split; [apply Jc_set_now; [lia|exact Hj]|]. split.
    + intros t0 Hin Hc. cbn [now set_now]. pose proof (next_timer_le w m En t0 Hin Hc) as H1. pose proof (Hlate t0 Hin Hc) as H2. lia.
    + apply T_set_now; [unfold rdy; rewrite Er; reflexivity|exact Ht].
  - destruct (ready w) as [|x r] eqn:Er; [destruct arrived as [|a ar]|]; try (apply IH; [exact Hl|]; apply GGT_iteration; [exact Ha|exact Hg]).
    destruct (omin None _) as [t|] eqn:Eo; [|exact Hg]. destruct (t_end <? t); [exact Hg|]. apply IH; [exact Hev|].
    destruct Hg as ([[A [B Cc]] D] & Hj & Hlate & Ht).
    split; [split; [split; [apply GP_set_now; exact A|split; [exact B|exact Cc]]|apply K_set_now; exact D]|].
    split; [apply Jc_set_now; [lia|exact Hj]|]. split.
    + intros t0 Hin Hc. exfalso. rewrite next_timer_fold in En. destruct (nt_fold_none w _ _ En) as [_ Hall]. pose proof (Hall _ Hin) as Hx.
      cbn [timers cancelled set_now] in Hc. congruence.
    + apply T_set_now; [unfold rdy; rewrite Er; reflexivity|exact Ht].
Qed.

Lemma T_empty now0 c ins dr :
  Tk (mkWorld now0 [] [] [] 1 c sess_init false None [] [] [] [] None false [] ins [] [] [] dr [] []).
Proof. constructor; [reflexivity|intros d; reflexivity|intros d c0 co H; discriminate]. Qed.

Theorem GGT_reachable s sc : d_scenario s = Some sc -> GGT [] (fst (run_scenario sc)).
Proof.
  intros Hd. unfold run_scenario.
  destruct s as [| |l]; try discriminate. cbn [d_scenario] in Hd.
  destruct l as [|c [|ins [|dr [|ev [|[te| |] [|rv [|[fu| |] [|]]]]]]]]; try discriminate.
  destruct (d_timings c); cbn [obind] in Hd; [|discriminate].
  destruct (dlist d_inst ins) as [ins'|] eqn:Ei; cbn [obind] in Hd; [|discriminate].
  destruct (dlist dN dr); cbn [obind] in Hd; [|discriminate].
  destruct (dlist d_event_in ev) as [evs|] eqn:Ee; cbn [obind] in Hd; [|discriminate].
  destruct (dbool rv); cbn [obind] in Hd; [|discriminate]. injection Hd as <-. cbn [sc_events sc_end sc_rev sc_fuel].
  apply GGT_run.
  - unfold dlist in Ee. destruct (dL ev); cbn [obind] in Ee; [|discriminate]. eapply dmap_event_notexp; eauto.
  - unfold init_world. cbn [sc_cfg sc_insts sc_draws]. split; [split; [|apply K_empty]|].
    + apply GG_empty. unfold dlist in Ei. destruct (dL ins); cbn [obind] in Ei; [|discriminate]. eapply dmap_inst_fresh; eauto.
    + split; [intros x []|]. split; [intros x []|apply T_empty].
Qed.

(* ------------------------------------------------------------------ what it says, for users *)
(* C15 "in time", over whole runs of the full stack, for every scenario and schedule: every hand-over took exactly the
   entries queued for its destination since the previous one, each of them queued at most one collection timeout before *)
Theorem reachable_flush_in_time s sc : d_scenario s = Some sc ->
  let w := fst (run_scenario sc) in intime (t_collect (cfg w)) (glog w) = true.
Proof. intros Hd w. exact (t_intime _ (proj2 (proj2 (proj2 (GGT_reachable s sc Hd))))). Qed.

(* ... and what is still pending is not overdue: its collector's timeout is at most one timeout after its queue time *)
Theorem reachable_pending_deadlines s sc : d_scenario s = Some sc ->
  let w := fst (run_scenario sc) in
  forall d c co, open_collector w d = Some (c, co) ->
    length (ptimes d (glog w)) = length (co_data co)
    /\ forall when, In (when, c, HCollector c) (timers w) -> forall tq, In tq (ptimes d (glog w)) -> when <= tq + t_collect (cfg w).
Proof.
  intros Hd w d c co Ho. destruct (proj2 (proj2 (proj2 (GGT_reachable s sc Hd)))) as [_ T2 T3]. fold w in T2, T3.
  split; [specialize (T2 d); unfold w_pending in T2; rewrite Ho in T2; exact T2|]. exact (proj1 (T3 d c co Ho)).
Qed.

Example intime_example :
  let e := mkEntry ET_OfferService 1 1 1 3 0 [] [] None in
  intime 5 [(12, GFlush None [e; e]); (9, GQueue e None); (7, GQueue e None)] = true
  /\ intime 5 [(13, GFlush None [e; e]); (9, GQueue e None); (7, GQueue e None)] = false
  /\ intime 5 [(12, GFlush None [e]); (9, GQueue e None); (7, GQueue e None)] = false.
Proof. cbv zeta. repeat split; vm_compute; reflexivity. Qed.
