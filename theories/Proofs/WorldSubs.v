(* C06 over WHOLE RUNS of the full stack model, for every scenario and schedule: the notifications of the server-side
   listeners are a truthful, strictly alternating history of the stored subscriptions.
     s6_live: for every instance, subscriber address and subscription (up to the identity the library uses), the latest
              notification is "subscribed (accepted)" exactly when the subscription is stored;
     s6_alt : every "subscribed" notification (accepted or rejected) is made when the subscription is not live, every
              "unsubscribed" when it is live - the history alternates, a rejected subscription is never reported gone.
   Kept by every callback, loop step and run, together with the ownership invariants. *)
From Coq Require Import Lia Permutation.
From PS Require Import Lib.Base Lib.Struct Generated.Consts Model.SdTypes Model.Config Model.Session Model.Someip Model.SdCodec
  Model.StackTypes Model.Stack Model.StackIO Proofs.AListFacts Proofs.EqFacts Proofs.KeyEquiv Proofs.WorldInv Proofs.WorldInv2.
From PS Require Proofs.Lift.

Definition skey (s k : subscription) : bool := key_eqb (KSub s) (KSub k).

Fixpoint sub_live (i : N) (a : addr) (k : subscription) (o : list (N * event)) : bool :=
  match o with
  | [] => false
  | (_, ESubscribed i' s a' ok) :: r =>
      if (i' =? i) && (a' =? a) && skey s k && ok then true else sub_live i a k r
  | (_, EUnsubscribed i' s a') :: r =>
      if (i' =? i) && (a' =? a) && skey s k then false else sub_live i a k r
  | _ :: r => sub_live i a k r
  end.
Fixpoint alt_ok (o : list (N * event)) : bool :=
  match o with
  | [] => true
  | (_, ESubscribed i s a _) :: r => negb (sub_live i a s r) && alt_ok r
  | (_, EUnsubscribed i s a) :: r => sub_live i a s r && alt_ok r
  | _ :: r => alt_ok r
  end.

Lemma snlog_cons t e o : snlog ((t, e) :: o) = match e with ESubscribed _ _ _ _ | EUnsubscribed _ _ _ => (t, e) :: snlog o | _ => snlog o end.
Proof. destruct e; reflexivity. Qed.
Lemma sub_live_snlog i a k o : sub_live i a k (snlog o) = sub_live i a k o.
Proof.
  induction o as [|[t e] o IH]; [reflexivity|]. rewrite snlog_cons. destruct e; cbn [sub_live]; rewrite ?IH; reflexivity.
Qed.
Lemma alt_ok_snlog o : alt_ok (snlog o) = alt_ok o.
Proof.
  induction o as [|[t e] o IH]; [reflexivity|]. rewrite snlog_cons. destruct e; cbn [alt_ok]; rewrite ?IH, ?sub_live_snlog; reflexivity.
Qed.

(* the subscriptions of instance i stored for subscriber a *)
Definition D (i : N) (a : addr) (w : world) : list (key * option N) := inner a (get_store (SSubs i) w).

Record S6 (w : world) : Prop := mkS6 {
  s6_live : forall i a k, sub_live i a k (out w) = amem key_eqb (KSub k) (D i a w);
  s6_alt : alt_ok (out w) = true }.

(* ------------------------------------------------------------------ membership up to the key identity *)
Lemma key_eqb_cong k k' x : key_eqb k k' = true -> key_eqb k x = key_eqb k' x.
Proof.
  intros E. destruct (key_eqb k x) eqn:E1, (key_eqb k' x) eqn:E2; try reflexivity.
  - rewrite (key_eqb_trans k' k x) in E2; [discriminate|rewrite key_eqb_sym; exact E|exact E1].
  - rewrite (key_eqb_trans k k' x E E2) in E1. discriminate.
Qed.
Lemma amem_cong {V} k k' (l : list (key * V)) : key_eqb k k' = true -> amem key_eqb k l = amem key_eqb k' l.
Proof.
  intros E. unfold amem. induction l as [|[x v] l IH]; [reflexivity|]. cbn [aget]. rewrite (key_eqb_cong k k' x E).
  destruct (key_eqb k' x); [reflexivity|exact IH].
Qed.
Lemma amem_adel_same {V} k k' (l : list (key * V)) : NoDupE l -> key_eqb k k' = true -> amem key_eqb k' (adel key_eqb k l) = false.
Proof.
  intros Hnd E. unfold amem. destruct (aget key_eqb k' (adel key_eqb k l)) as [v|] eqn:Ea; [|reflexivity].
  destruct (aget_in_E _ _ _ Ea) as (x & Hin & Hx). pose proof (adel_no_equiv k l Hnd _ Hin) as Hne. cbn [fst] in Hne.
  rewrite (key_eqb_cong k k' x E) in Hne. congruence.
Qed.
Lemma amem_adel_other {V} k k' (l : list (key * V)) : key_eqb k k' = false -> amem key_eqb k' (adel key_eqb k l) = amem key_eqb k' l.
Proof.
  intros E. unfold amem. induction l as [|[x v] l IH]; [reflexivity|]. cbn [adel aget].
  destruct (key_eqb k x) eqn:E1.
  - destruct (key_eqb k' x) eqn:E2; [|reflexivity].
    exfalso. rewrite (key_eqb_trans k x k' E1) in E; [discriminate|rewrite key_eqb_sym; exact E2].
  - cbn [aget]. destruct (key_eqb k' x); [reflexivity|exact IH].
Qed.
Lemma amem_snoc {V} k k' (v : V) l : amem key_eqb k' (l ++ [(k, v)]) = amem key_eqb k' l || key_eqb k' k.
Proof.
  unfold amem. induction l as [|[x u] l IH]; cbn [app aget]; [destruct (key_eqb k' k); reflexivity|].
  destruct (key_eqb k' x); [reflexivity|exact IH].
Qed.

(* ------------------------------------------------------------------ the steps that touch the invariant *)
Lemma S6_frame w w' : snlog (out w') = snlog (out w) -> (forall i a, D i a w' = D i a w) -> S6 w -> S6 w'.
Proof.
  intros Ho Hd [L A]. constructor.
  - intros i a k. rewrite <- sub_live_snlog, Ho, sub_live_snlog, Hd. apply L.
  - rewrite <- alt_ok_snlog, Ho, alt_ok_snlog. exact A.
Qed.

Lemma S6_ghost g w : S6 w -> S6 (ghost g w).
Proof. apply S6_frame; reflexivity. Qed.

Lemma S6_unsub w w' t i a sub : S6 w -> NoDupE (D i a w) -> amem key_eqb (KSub sub) (D i a w) = true ->
  out w' = (t, EUnsubscribed i sub a) :: out w ->
  (forall i' a', D i' a' w' = if (i' =? i) && (a' =? a) then adel key_eqb (KSub sub) (D i a w) else D i' a' w) ->
  S6 w'.
Proof.
  intros [L A] Hnd Hm Ho Hd. constructor.
  - intros i' a' k. rewrite Ho, Hd. cbn [sub_live].
    destruct (N.eqb_spec i i') as [<-|Hi]; [|rewrite (proj2 (N.eqb_neq i' i)) by (intros E; apply Hi; symmetry; exact E); cbn [andb]; apply L].
    destruct (N.eqb_spec a a') as [<-|Ha]; [|rewrite N.eqb_refl, (proj2 (N.eqb_neq a' a)) by (intros E; apply Ha; symmetry; exact E); cbn [andb]; apply L].
    rewrite !N.eqb_refl. cbn [andb]. unfold skey. destruct (key_eqb (KSub sub) (KSub k)) eqn:E.
    + symmetry. apply amem_adel_same; assumption.
    + rewrite amem_adel_other by exact E. apply L.
  - rewrite Ho. cbn [alt_ok]. rewrite A, (L i a sub), Hm. reflexivity.
Qed.

Lemma S6_sub w w' t i a sub ok d' : S6 w -> amem key_eqb (KSub sub) (D i a w) = false ->
  out w' = (t, ESubscribed i sub a ok) :: out w ->
  (forall k, amem key_eqb k d' = amem key_eqb k (D i a w) || (ok && key_eqb k (KSub sub))) ->
  (forall i' a', D i' a' w' = if (i' =? i) && (a' =? a) then d' else D i' a' w) ->
  S6 w'.
Proof.
  intros [L A] Hm Ho Hd' Hd. constructor.
  - intros i' a' k. rewrite Ho, Hd. cbn [sub_live].
    destruct (N.eqb_spec i i') as [<-|Hi]; [|rewrite (proj2 (N.eqb_neq i' i)) by (intros E; apply Hi; symmetry; exact E); cbn [andb]; apply L].
    destruct (N.eqb_spec a a') as [<-|Ha]; [|rewrite N.eqb_refl, (proj2 (N.eqb_neq a' a)) by (intros E; apply Ha; symmetry; exact E); cbn [andb]; apply L].
    rewrite !N.eqb_refl. cbn [andb]. rewrite Hd', (L i a k). unfold skey. rewrite (key_eqb_sym (KSub k) (KSub sub)).
    destruct (key_eqb (KSub sub) (KSub k)) eqn:E, ok; cbn [andb orb]; rewrite ?orb_false_r, ?orb_true_r; reflexivity.
  - rewrite Ho. cbn [alt_ok]. rewrite A, (L i a sub), Hm. reflexivity.
Qed.

(* a refresh of a stored subscription replaces the entry under an equivalent key and notifies nobody *)
Lemma S6_replace w w' i a k tid : S6 w -> NoDupE (D i a w) -> amem key_eqb k (D i a w) = true ->
  snlog (out w') = snlog (out w) ->
  (forall i' a', D i' a' w' = if (i' =? i) && (a' =? a) then adel key_eqb k (D i a w) ++ [(k, tid)] else D i' a' w) ->
  S6 w'.
Proof.
  intros [L A] Hnd Hm Ho Hd. constructor.
  - intros i' a' k'. rewrite <- sub_live_snlog, Ho, sub_live_snlog, Hd, (L i' a' k').
    destruct ((i' =? i) && (a' =? a)) eqn:E; [|reflexivity]. apply andb_true_iff in E. destruct E as [E1 E2].
    apply N.eqb_eq in E1, E2. subst i' a'. rewrite amem_snoc. destruct (key_eqb k (KSub k')) eqn:E.
    + rewrite (key_eqb_sym (KSub k') k), E, orb_true_r. rewrite <- (amem_cong k (KSub k') _ E). exact Hm.
    + rewrite amem_adel_other by exact E. rewrite (key_eqb_sym (KSub k') k), E, orb_false_r. reflexivity.
  - rewrite <- alt_ok_snlog, Ho, alt_ok_snlog. exact A.
Qed.

(* ------------------------------------------------------------------ what the store primitives do to D *)
Lemma S6_frame' w w' : snlog (out w') = snlog (out w) ->
  (forall i a k, amem key_eqb (KSub k) (D i a w') = amem key_eqb (KSub k) (D i a w)) -> S6 w -> S6 w'.
Proof.
  intros Ho Hd [L A]. constructor.
  - intros i a k. rewrite <- sub_live_snlog, Ho, sub_live_snlog, Hd. apply L.
  - rewrite <- alt_ok_snlog, Ho, alt_ok_snlog. exact A.
Qed.

Lemma D_put_store i s w i' a' :
  D i' a' (put_store (SSubs i) s w) = if has_store (SSubs i) w && (i' =? i) then inner a' s else D i' a' w.
Proof.
  unfold D. destruct (has_store (SSubs i) w) eqn:Hh; cbn [andb].
  - destruct (N.eqb_spec i' i) as [->|Hne]; [rewrite get_put_same by exact Hh; reflexivity|].
    rewrite get_put_other; [reflexivity|]. intros E. injection E as E. contradiction.
  - rewrite get_put_missing by exact Hh. reflexivity.
Qed.
Lemma D_put_found s w i a : D i a (put_store SFound s w) = D i a w. Proof. reflexivity. Qed.
Lemma D_missing i a w : has_store (SSubs i) w = false -> D i a w = [].
Proof. unfold D, get_store, has_store, amem. destruct (aget N.eqb i (insts w)); [discriminate|reflexivity]. Qed.

(* a step of the stronger kind changes nothing the invariant reads *)
Lemma same_S6 w w' : same w w' -> S6 w -> S6 w'.
Proof. intros Hs. apply S6_frame; [apply (sm_snlog _ _ Hs); reflexivity|intros i a; apply (sm_store _ _ Hs)]. Qed.

Lemma out_put_store st s w : out (put_store st s w) = out w.
Proof. destruct st as [|i]; [reflexivity|]. unfold put_store. destruct (aget N.eqb i (insts w)); reflexivity. Qed.
Lemma out_cancel_opt o w : out (cancel_opt o w) = out w. Proof. destruct o; reflexivity. Qed.
Lemma D_cancel_opt o w i a : D i a (cancel_opt o w) = D i a w. Proof. destruct o; reflexivity. Qed.
Lemma now_put_store st s w : now (put_store st s w) = now w.
Proof. destruct st as [|i]; [reflexivity|]. unfold put_store. destruct (aget N.eqb i (insts w)); reflexivity. Qed.
Lemma now_cancel_opt o w : now (cancel_opt o w) = now w. Proof. destruct o; reflexivity. Qed.

(* stop / expiry of one entry *)
Lemma S6_remove_one X i a sub w w1 t :
  GP X w -> S6 w -> amem key_eqb (KSub sub) (D i a w) = true -> has_store (SSubs i) w = true ->
  out w1 = (t, EUnsubscribed i sub a) :: out w ->
  (forall i' a', D i' a' w1 = D i' a' (put_store (SSubs i) (aset N.eqb a (adel key_eqb (KSub sub) (D i a w)) (touch a (get_store (SSubs i) w))) w)) ->
  S6 w1.
Proof.
  intros Hg Hs Hm Hh Ho Hd. eapply (S6_unsub w w1 t i a sub); [exact Hs|apply (g_keys _ _ Hg (SSubs i) a)|exact Hm|exact Ho|].
  intros i' a'. rewrite Hd, D_put_store, Hh. cbn [andb]. destruct (N.eqb_spec i' i) as [->|Hne]; cbn [andb]; [|reflexivity].
  rewrite inner_aset. destruct (a' =? a); [reflexivity|]. rewrite inner_touch. reflexivity.
Qed.

Lemma aget_amem {V} k (l : list (key * V)) v : aget key_eqb k l = Some v -> amem key_eqb k l = true.
Proof. unfold amem. intros ->. reflexivity. Qed.
Lemma has_store_of_amem i a k w : amem key_eqb k (D i a w) = true -> has_store (SSubs i) w = true.
Proof. intros H. destruct (has_store (SSubs i) w) eqn:E; [reflexivity|]. rewrite (D_missing i a w E) in H. discriminate. Qed.

Lemma S6_store_stop X st a k w : GP X w -> S6 w -> S6 (store_stop st a k w).
Proof.
  intros Hg Hs. unfold store_stop. rewrite inner_touch.
  destruct (aget key_eqb k (inner a (get_store st w))) as [old|] eqn:Ea.
  - destruct st as [|i].
    + (* the discovery store: listeners of the other kind *)
      apply (S6_frame w); [| |exact Hs].
      * destruct k as [s|sub]; cbn [store_callback]; [|rewrite out_cancel_opt, out_put_store; reflexivity].
        rewrite (sm_snlog _ _ (n_notify_service listener_stopped s a (fun l => n_listener_stopped l s a) _) eq_refl).
        rewrite out_cancel_opt, out_put_store. reflexivity.
      * intros i0 a0. destruct k as [s|sub]; cbn [store_callback]; [|rewrite D_cancel_opt; reflexivity].
        unfold D. rewrite (sm_store _ _ (n_notify_service listener_stopped s a (fun l => n_listener_stopped l s a) _)).
        fold (D i0 a0 (cancel_opt old (put_store SFound (aset N.eqb a (adel key_eqb (KService s) (inner a (get_store SFound w))) (touch a (get_store SFound w))) w))).
        rewrite D_cancel_opt. reflexivity.
    + destruct k as [s|sub]; cbn [store_callback].
      * (* a key of the other kind in a subscription store: nothing a listener sees *)
        apply (S6_frame' w); [rewrite out_cancel_opt, out_put_store; reflexivity| |exact Hs].
        intros i' a' k'. rewrite D_cancel_opt, D_put_store. destruct (has_store (SSubs i) w && (i' =? i)) eqn:E; [|reflexivity].
        apply andb_true_iff in E. destruct E as [_ E]. apply N.eqb_eq in E. subst i'.
        rewrite inner_aset. destruct (N.eqb_spec a' a) as [->|Hne]; [|rewrite inner_touch; reflexivity].
        apply amem_adel_other. reflexivity.
      * eapply (S6_remove_one X i a sub w _ (now w)); [exact Hg|exact Hs|exact (aget_amem _ _ _ Ea)| | |].
        -- eapply has_store_of_amem. exact (aget_amem _ _ _ Ea).
        -- cbn [emit out set_out]. rewrite out_cancel_opt, out_put_store, now_cancel_opt, now_put_store. reflexivity.
        -- intros i' a'. change (D i' a' (emit (EUnsubscribed i sub a) ?x)) with (D i' a' x). rewrite D_cancel_opt. reflexivity.
  - (* nothing stored under the key: the store is only touched *)
    apply (S6_frame w); [apply f_equal, out_put_store| |exact Hs].
    intros i' a'. destruct st as [|i]; [reflexivity|]. rewrite D_put_store.
    destruct (has_store (SSubs i) w && (i' =? i)) eqn:E; [|reflexivity]. apply andb_true_iff in E. destruct E as [_ E]. apply N.eqb_eq in E. subst i'.
    apply inner_touch.
Qed.

Lemma S6_store_expired X st a k w : GP X w -> S6 w -> S6 (store_expired st a k w).
Proof.
  intros Hg Hs. unfold store_expired. rewrite inner_touch.
  destruct (aget key_eqb k (inner a (get_store st w))) as [old|] eqn:Ea.
  - apply S6_ghost. destruct st as [|i].
    + apply (S6_frame w); [| |exact Hs].
      * destruct k as [s|sub]; cbn [store_callback]; [|rewrite out_put_store; reflexivity].
        rewrite (sm_snlog _ _ (n_notify_service listener_stopped s a (fun l => n_listener_stopped l s a) _) eq_refl).
        rewrite out_put_store. reflexivity.
      * intros i0 a0. destruct k as [s|sub]; cbn [store_callback]; [|reflexivity].
        unfold D. rewrite (sm_store _ _ (n_notify_service listener_stopped s a (fun l => n_listener_stopped l s a) _)). reflexivity.
    + destruct k as [s|sub]; cbn [store_callback].
      * apply (S6_frame' w); [rewrite out_put_store; reflexivity| |exact Hs].
        intros i' a' k'. rewrite D_put_store. destruct (has_store (SSubs i) w && (i' =? i)) eqn:E; [|reflexivity].
        apply andb_true_iff in E. destruct E as [_ E]. apply N.eqb_eq in E. subst i'.
        rewrite inner_aset. destruct (N.eqb_spec a' a) as [->|Hne]; [|rewrite inner_touch; reflexivity].
        apply amem_adel_other. reflexivity.
      * eapply (S6_remove_one X i a sub w _ (now w)); [exact Hg|exact Hs|exact (aget_amem _ _ _ Ea)| | |].
        -- eapply has_store_of_amem. exact (aget_amem _ _ _ Ea).
        -- cbn [emit out set_out]. rewrite out_put_store, now_put_store. reflexivity.
        -- intros i' a'. reflexivity.
  - apply (S6_frame w); [apply f_equal, out_put_store| |exact Hs].
    intros i' a'. destruct st as [|i]; [reflexivity|]. rewrite D_put_store.
    destruct (has_store (SSubs i) w && (i' =? i)) eqn:E; [|reflexivity]. apply andb_true_iff in E. destruct E as [_ E]. apply N.eqb_eq in E. subst i'.
    apply inner_touch.
Qed.

(* ------------------------------------------------------------------ everything of one subscriber at once *)
Definition sx (w w' : world) : Prop := snlog (out w') = snlog (out w) /\ forall i a, D i a w' = D i a w.
Lemma sx_refl w : sx w w. Proof. split; reflexivity. Qed.
Lemma sx_trans x y z : sx x y -> sx y z -> sx x z.
Proof. intros [A1 A2] [B1 B2]. split; [congruence|intros i a; rewrite B2; apply A2]. Qed.
Lemma S6_sx w w' : sx w w' -> S6 w -> S6 w'.
Proof. intros [A B]. apply S6_frame; assumption. Qed.
Lemma same_sx w w' : same w w' -> sx w w'.
Proof. intros Hs. split; [apply (sm_snlog _ _ Hs); reflexivity|intros i a; apply (sm_store _ _ Hs)]. Qed.
Lemma sx_cancel_opt o w : sx w (cancel_opt o w). Proof. split; [rewrite out_cancel_opt; reflexivity|intros; apply D_cancel_opt]. Qed.
Lemma sx_put_found s w : sx w (put_store SFound s w). Proof. split; reflexivity. Qed.
Lemma sx_callback_found k a w : sx w (store_callback SFound k a w).
Proof. destruct k as [s|sub]; cbn [store_callback]; [apply same_sx, n_notify_service; intros l; apply n_listener_stopped|apply sx_refl]. Qed.

Lemma sx_fold {Y} (f : world -> Y -> world) l : (forall x w, sx w (f w x)) -> forall w, sx w (fold_left f l w).
Proof. intros H. induction l as [|x l IH]; intros w; cbn [fold_left]; [apply sx_refl|]. eapply sx_trans; [apply H|apply IH]. Qed.

(* the loop of stop_all_for_address on a subscription store: the store is emptied first, then one notification per entry *)
Lemma stop_all_loop i a w0 : forall rest acc, NoDupE rest ->
  (forall k, sub_live i a k (out acc) = amem key_eqb (KSub k) rest) ->
  (forall i' a' k, (i' =? i) && (a' =? a) = false -> sub_live i' a' k (out acc) = sub_live i' a' k (out w0)) ->
  alt_ok (out acc) = true ->
  let acc' := fold_left (fun x p => store_callback (SSubs i) (fst p) a (cancel_opt (snd p) x)) rest acc in
  (forall k, sub_live i a k (out acc') = false)
  /\ (forall i' a' k, (i' =? i) && (a' =? a) = false -> sub_live i' a' k (out acc') = sub_live i' a' k (out w0))
  /\ alt_ok (out acc') = true
  /\ (forall i' a', D i' a' acc' = D i' a' acc).
Proof.
  induction rest as [|[kp tid] rest IH]; intros acc Hnd Hl Ho Ha; cbn [fold_left]; cbv zeta.
  - repeat split; auto.
  - inversion Hnd as [|? ? ? Hne Hnd']; subst. cbn [fst snd].
    destruct kp as [s|sub]; cbn [store_callback].
    + (* a key of the other kind: no notification *)
      destruct (IH (cancel_opt tid acc) Hnd') as (R1 & R2 & R3 & R4).
      * intros k. rewrite out_cancel_opt, Hl. unfold amem. cbn [aget key_eqb]. reflexivity.
      * intros i' a' k E. rewrite out_cancel_opt. apply Ho, E.
      * rewrite out_cancel_opt. exact Ha.
      * cbv zeta in *. repeat split; auto. intros i' a'. rewrite R4. apply D_cancel_opt.
    + set (acc1 := emit (EUnsubscribed i sub a) (cancel_opt tid acc)).
      assert (Hout : out acc1 = (now acc, EUnsubscribed i sub a) :: out acc).
      { unfold acc1. cbn [emit out set_out]. rewrite out_cancel_opt, now_cancel_opt. reflexivity. }
      destruct (IH acc1 Hnd') as (R1 & R2 & R3 & R4).
      * intros k. rewrite Hout. cbn [sub_live]. rewrite !N.eqb_refl. cbn [andb]. unfold skey.
        destruct (key_eqb (KSub sub) (KSub k)) eqn:E.
        -- symmetry. unfold amem. destruct (aget key_eqb (KSub k) rest) as [v|] eqn:Eg; [|reflexivity].
           destruct (aget_in_E _ _ _ Eg) as (x & Hin & Hx). pose proof (Hne _ Hin) as Hq. cbn [fst] in Hq.
           rewrite (key_eqb_cong (KSub sub) (KSub k) x E) in Hq. congruence.
        -- rewrite Hl. unfold amem. cbn [aget]. rewrite (key_eqb_sym (KSub k) (KSub sub)), E. reflexivity.
      * intros i' a' k E. rewrite Hout. cbn [sub_live]. rewrite (N.eqb_sym i i'), (N.eqb_sym a a'), E. cbn [andb]. apply Ho, E.
      * rewrite Hout. cbn [alt_ok]. rewrite Ha, (Hl sub). unfold amem. cbn [aget]. rewrite key_eqb_refl. reflexivity.
      * cbv zeta in *. repeat split; auto. intros i' a'. rewrite R4. unfold acc1.
        change (D i' a' (emit (EUnsubscribed i sub a) (cancel_opt tid acc))) with (D i' a' (cancel_opt tid acc)). apply D_cancel_opt.
Qed.

Lemma S6_store_stop_all_for_address X st a w : GP X w -> S6 w -> S6 (store_stop_all_for_address st a w).
Proof.
  intros Hg Hs. unfold store_stop_all_for_address. rewrite inner_touch. destruct st as [|i].
  - eapply S6_sx; [|exact Hs]. eapply sx_trans; [apply sx_put_found|].
    apply (sx_fold (fun acc p => store_callback SFound (fst p) a (cancel_opt (snd p) acc))). intros p w0.
    eapply sx_trans; [apply sx_cancel_opt|apply sx_callback_found].
  - set (d0 := inner a (get_store (SSubs i) w)).
    set (w1 := put_store (SSubs i) (aset N.eqb a [] (touch a (get_store (SSubs i) w))) w).
    destruct Hs as [L A].
    destruct (has_store (SSubs i) w) eqn:Hh.
    + destruct (stop_all_loop i a w d0 w1 (g_keys _ _ Hg (SSubs i) a)) as (R1 & R2 & R3 & R4).
      * intros k. unfold w1. rewrite out_put_store. apply L.
      * intros i' a' k _. unfold w1. rewrite out_put_store. reflexivity.
      * unfold w1. rewrite out_put_store. exact A.
      * cbv zeta in *. constructor; [|exact R3]. intros i' a' k.
        destruct ((i' =? i) && (a' =? a)) eqn:E.
        -- apply andb_true_iff in E. destruct E as [E1 E2]. apply N.eqb_eq in E1, E2. subst i' a'. rewrite R1, R4. unfold w1.
           rewrite D_put_store, Hh, N.eqb_refl. cbn [andb]. rewrite inner_aset, N.eqb_refl. reflexivity.
        -- rewrite (R2 i' a' k E), R4, (L i' a' k). unfold w1. rewrite D_put_store, Hh. cbn [andb].
           destruct (N.eqb_spec i' i) as [->|Hne]; [|reflexivity].
           cbn [andb] in E. rewrite inner_aset, E, inner_touch. reflexivity.
    + (* no such instance: the store is empty and stays empty *)
      assert (Hd0 : d0 = []) by (apply (D_missing i a w Hh)). rewrite Hd0. cbn [fold_left].
      unfold w1. rewrite get_put_missing by exact Hh. constructor; assumption.
Qed.

(* ------------------------------------------------------------------ the whole store at once *)
Lemma D_store_callback st k a w i' a' : D i' a' (store_callback st k a w) = D i' a' w.
Proof. unfold D. apply (sm_store _ _ (n_store_callback st k a w)). Qed.
Lemma D_callbacks st a i' a' : forall l acc,
  D i' a' (fold_left (fun x p => store_callback st (fst p) a (cancel_opt (snd p) x)) l acc) = D i' a' acc.
Proof. induction l as [|p l IH]; intros acc; cbn [fold_left]; [reflexivity|]. rewrite IH, D_store_callback. apply D_cancel_opt. Qed.
Lemma D_stop_all_for_address st a w i' a' :
  D i' a' (store_stop_all_for_address st a w)
  = match st with
    | SFound => D i' a' w
    | SSubs i => if (i' =? i) && (a' =? a) then [] else D i' a' w
    end.
Proof.
  unfold store_stop_all_for_address. rewrite D_callbacks. destruct st as [|i]; [reflexivity|].
  rewrite D_put_store. destruct (has_store (SSubs i) w) eqn:Hh; cbn [andb].
  - destruct (N.eqb_spec i' i) as [->|Hne]; cbn [andb]; [|reflexivity].
    rewrite inner_aset. destruct (a' =? a); [reflexivity|]. rewrite inner_touch. reflexivity.
  - destruct ((i' =? i) && (a' =? a)) eqn:E; [|reflexivity]. apply andb_true_iff in E. destruct E as [E1 E2].
    apply N.eqb_eq in E1, E2. subst i' a'. apply (D_missing i a w Hh).
Qed.

Lemma stop_all_fold X st : forall (l : list (addr * list (key * option N))) w, GP X w -> S6 w ->
  GP X (fold_left (fun acc p => store_stop_all_for_address st (fst p) acc) l w)
  /\ S6 (fold_left (fun acc p => store_stop_all_for_address st (fst p) acc) l w).
Proof.
  induction l as [|p l IH]; intros w Hg Hs; cbn [fold_left]; [split; assumption|].
  apply IH; [apply keeps_store_stop_all_for_address; exact Hg|eapply S6_store_stop_all_for_address; eauto].
Qed.

Lemma stop_all_empties i : forall (l : list (addr * list (key * option N))) w a,
  (~ In a (map fst l) -> D i a w = []) ->
  D i a (fold_left (fun acc p => store_stop_all_for_address (SSubs i) (fst p) acc) l w) = [].
Proof.
  induction l as [|p l IH]; intros w a H; cbn [fold_left]; [apply H; intros []|].
  apply IH. intros Hn. rewrite D_stop_all_for_address, N.eqb_refl. cbn [andb].
  destruct (N.eqb_spec a (fst p)) as [E|E]; [reflexivity|]. apply H. cbn [map]. intros [F|F]; [apply E; symmetry; exact F|exact (Hn F)].
Qed.

Lemma S6_store_stop_all X st w : GP X w -> S6 w -> S6 (store_stop_all st w).
Proof.
  intros Hg Hs. unfold store_stop_all. destruct (stop_all_fold X st (get_store st w) w Hg Hs) as [Hg1 Hs1].
  set (w1 := fold_left _ (get_store st w) w) in *.
  apply (S6_frame w1); [apply f_equal, out_put_store| |exact Hs1].
  intros i a. destruct st as [|i0]; [reflexivity|]. rewrite D_put_store.
  destruct (has_store (SSubs i0) w1 && (i =? i0)) eqn:E; [|reflexivity]. apply andb_true_iff in E. destruct E as [_ E].
  apply N.eqb_eq in E. subst i0. unfold inner at 1. cbn [aget]. symmetry. unfold w1. apply stop_all_empties.
  intros Hn. unfold D, inner. destruct (aget N.eqb a (get_store (SSubs i) w)) as [d|] eqn:Ea; [|reflexivity].
  exfalso. apply Hn. clear -Ea. induction (get_store (SSubs i) w) as [|[k v] l IH]; [discriminate|]. cbn [aget] in Ea. cbn [map fst].
  destruct (N.eqb_spec a k) as [->|Hne]; [left; reflexivity|right; apply IH; exact Ea].
Qed.

(* ------------------------------------------------------------------ refresh *)
Lemma tail_facts i ttl a k w1 : has_store (SSubs i) w1 = true ->
  out (fst (refresh_tail (SSubs i) ttl a k w1)) = out w1
  /\ exists tid, forall i' a', D i' a' (fst (refresh_tail (SSubs i) ttl a k w1))
       = if (i' =? i) && (a' =? a) then adel key_eqb k (D i a w1) ++ [(k, tid)] else D i' a' w1.
Proof.
  intros Hh0. unfold refresh_tail. cbv zeta.
  change (out w1) with (out (ghost (GRefresh (SSubs i) a k ttl) w1)).
  assert (Hdg : forall i' a', D i' a' w1 = D i' a' (ghost (GRefresh (SSubs i) a k ttl) w1)) by reflexivity.
  assert (Hh : has_store (SSubs i) (ghost (GRefresh (SSubs i) a k ttl) w1) = true) by exact Hh0.
  enough (Hen : out (fst (let '(tid, w2) := if ttl =? TTL_FOREVER then (None, ghost (GRefresh (SSubs i) a k ttl) w1)
                                       else let '(t, w') := call_later (ttl * usec_per_sec) (HExpired (SSubs i) a k) (ghost (GRefresh (SSubs i) a k ttl) w1) in (Some t, w') in
                          (put_store (SSubs i) (aset N.eqb a (adel key_eqb k (inner a (touch a (get_store (SSubs i) w2))) ++ [(k, tid)]) (touch a (get_store (SSubs i) w2))) w2, true)))
                 = out (ghost (GRefresh (SSubs i) a k ttl) w1)
                 /\ exists tid, forall i' a', D i' a' (fst (let '(tid, w2) := if ttl =? TTL_FOREVER then (None, ghost (GRefresh (SSubs i) a k ttl) w1)
                                       else let '(t, w') := call_later (ttl * usec_per_sec) (HExpired (SSubs i) a k) (ghost (GRefresh (SSubs i) a k ttl) w1) in (Some t, w') in
                          (put_store (SSubs i) (aset N.eqb a (adel key_eqb k (inner a (touch a (get_store (SSubs i) w2))) ++ [(k, tid)]) (touch a (get_store (SSubs i) w2))) w2, true)))
                    = if (i' =? i) && (a' =? a) then adel key_eqb k (D i a (ghost (GRefresh (SSubs i) a k ttl) w1)) ++ [(k, tid)] else D i' a' (ghost (GRefresh (SSubs i) a k ttl) w1)).
  { exact Hen. }
  revert Hh. generalize (ghost (GRefresh (SSubs i) a k ttl) w1). clear w1 Hh0 Hdg. intros w1 Hh.
  destruct (ttl =? TTL_FOREVER).
  - cbn [fst]. split; [apply out_put_store|]. exists None. intros i' a'. rewrite D_put_store, Hh. cbn [andb].
    destruct (N.eqb_spec i' i) as [->|Hne]; cbn [andb]; [|reflexivity].
    rewrite inner_aset. destruct (a' =? a); [rewrite inner_touch; reflexivity|rewrite inner_touch; reflexivity].
  - destruct (call_later (ttl * usec_per_sec) (HExpired (SSubs i) a k) w1) as [t w2] eqn:Ec. cbn [fst].
    assert (Hw2 : w2 = snd (call_later (ttl * usec_per_sec) (HExpired (SSubs i) a k) w1)) by (rewrite Ec; reflexivity).
    assert (Hd2 : forall i' a', D i' a' w2 = D i' a' w1) by (intros; rewrite Hw2; reflexivity).
    assert (Hh2 : has_store (SSubs i) w2 = true) by (rewrite Hw2; exact Hh).
    split; [rewrite out_put_store, Hw2; reflexivity|]. exists (Some t). intros i' a'. rewrite D_put_store, Hh2. cbn [andb].
    destruct (N.eqb_spec i' i) as [->|Hne]; cbn [andb]; [|apply Hd2].
    rewrite inner_aset. destruct (a' =? a); rewrite inner_touch; [|apply Hd2]. fold (D i a w2). rewrite Hd2. reflexivity.
Qed.

Lemma tail_sx ttl a k w1 : sx w1 (fst (refresh_tail SFound ttl a k w1)).
Proof.
  unfold refresh_tail. cbv zeta. apply (sx_trans _ (ghost (GRefresh SFound a k ttl) w1)); [split; reflexivity|].
  generalize (ghost (GRefresh SFound a k ttl) w1). clear w1. intros w1.
  destruct (ttl =? TTL_FOREVER); [cbn [fst]; apply sx_put_found|].
  destruct (call_later (ttl * usec_per_sec) (HExpired SFound a k) w1) as [t w2] eqn:Ec. cbn [fst].
  assert (Hw2 : w2 = snd (call_later (ttl * usec_per_sec) (HExpired SFound a k) w1)) by (rewrite Ec; reflexivity).
  eapply sx_trans; [|apply sx_put_found]. rewrite Hw2. split; reflexivity.
Qed.

Lemma S6_store_refresh X st ttl a k w : GP X w -> S6 w -> has_store st w = true -> S6 (fst (store_refresh st ttl a k w)).
Proof.
  intros Hg Hs Hh. rewrite store_refresh_unfold. cbv zeta. rewrite inner_touch.
  destruct st as [|i].
  - (* the discovery store *)
    eapply S6_sx; [|exact Hs].
    destruct (aget key_eqb k (inner a (get_store SFound w))) as [old|].
    + eapply sx_trans; [|apply tail_sx]. eapply sx_trans; [apply sx_put_found|apply sx_cancel_opt].
    + destruct k as [s|sub]; (eapply sx_trans; [|apply tail_sx]); [|apply sx_put_found].
      eapply sx_trans; [apply sx_put_found|]. apply same_sx, n_notify_service. intros l. apply n_listener_offered.
  - fold (D i a w). destruct (aget key_eqb k (D i a w)) as [old|] eqn:Ea.
    + (* a stored subscription is refreshed: same identity, new timer, nobody is told *)
      set (w1 := cancel_opt old (put_store (SSubs i) (aset N.eqb a (adel key_eqb k (D i a w)) (touch a (get_store (SSubs i) w))) w)).
      assert (Hh1 : has_store (SSubs i) w1 = true).
      { unfold w1. destruct old; cbn [cancel_opt]; [change (has_store (SSubs i) (cancel_timer n ?x)) with (has_store (SSubs i) x)|]; rewrite has_store_put_store; exact Hh. }
      assert (Hd1 : forall i' a', D i' a' w1 = if (i' =? i) && (a' =? a) then adel key_eqb k (D i a w) else D i' a' w).
      { intros i' a'. unfold w1. rewrite D_cancel_opt, D_put_store, Hh. cbn [andb]. destruct (N.eqb_spec i' i) as [->|Hne]; cbn [andb]; [|reflexivity].
        rewrite inner_aset. destruct (a' =? a); [reflexivity|apply inner_touch]. }
      destruct (tail_facts i ttl a k w1 Hh1) as (Ho & tid & Hd).
      pose proof (g_keys _ _ Hg (SSubs i) a) as Hnd. fold (D i a w) in Hnd.
      apply (S6_replace w _ i a k tid Hs Hnd (aget_amem _ _ _ Ea)).
      * rewrite Ho. unfold w1. rewrite out_cancel_opt, out_put_store. reflexivity.
      * intros i' a'. rewrite Hd. destruct ((i' =? i) && (a' =? a)) eqn:E; [|rewrite Hd1, E; reflexivity].
        rewrite (Hd1 i a), !N.eqb_refl. cbn [andb]. f_equal. apply adel_none. apply no_equiv_aget_none. apply adel_no_equiv. exact Hnd.
    + set (w0 := put_store (SSubs i) (touch a (get_store (SSubs i) w)) w).
      assert (Hh0 : has_store (SSubs i) w0 = true) by (unfold w0; rewrite has_store_put_store; exact Hh).
      assert (Hd0 : forall i' a', D i' a' w0 = D i' a' w).
      { intros i' a'. unfold w0. rewrite D_put_store, Hh. cbn [andb]. destruct (N.eqb_spec i' i) as [->|Hne]; [apply inner_touch|reflexivity]. }
      assert (Hm : amem key_eqb k (D i a w) = false) by (unfold amem; rewrite Ea; reflexivity).
      destruct k as [s|sub].
      * (* a key of the other kind: stored, no listener involved *)
        destruct (tail_facts i ttl a (KService s) w0 Hh0) as (Ho & tid & Hd).
        apply (S6_frame' w); [rewrite Ho; unfold w0; rewrite out_put_store; reflexivity| |exact Hs].
        intros i' a' k'. rewrite Hd, !Hd0. destruct ((i' =? i) && (a' =? a)) eqn:E; [|reflexivity].
        apply andb_true_iff in E. destruct E as [E1 E2]. apply N.eqb_eq in E1, E2. subst i' a'.
        rewrite amem_snoc, amem_adel_other by reflexivity. cbn [key_eqb]. apply orb_false_r.
      * (* a new subscription: the listener decides *)
        unfold client_subscribed. cbn [has_store] in Hh0. unfold amem in Hh0. destruct (aget N.eqb i (insts w0)) as [ins|] eqn:Ei; [|discriminate].
        set (ok := negb (memN (sb_id sub) (in_reject ins))). set (w' := emit (ESubscribed i sub a ok) w0).
        assert (Ho' : out w' = (now w, ESubscribed i sub a ok) :: out w).
        { unfold w', w0. cbn [emit out set_out]. rewrite out_put_store, now_put_store. reflexivity. }
        assert (Hd' : forall i' a', D i' a' w' = D i' a' w) by (intros; apply Hd0).
        destruct ok eqn:Eok; cbn [negb fst].
        -- assert (Hh' : has_store (SSubs i) w' = true) by (cbn [has_store]; unfold amem; change (insts w') with (insts w0); rewrite Ei; reflexivity).
           destruct (tail_facts i ttl a (KSub sub) w' Hh') as (Ho2 & tid & Hd2).
           apply (S6_sub w _ (now w) i a sub true (D i a w ++ [(KSub sub, tid)]) Hs Hm).
           ++ rewrite Ho2. exact Ho'.
           ++ intros k'. rewrite amem_snoc. reflexivity.
           ++ intros i' a'. rewrite Hd2, !Hd'. destruct ((i' =? i) && (a' =? a)); [|reflexivity].
              f_equal. apply adel_none. exact Ea.
        -- apply (S6_sub w _ (now w) i a sub false (D i a w) Hs Hm Ho').
           ++ intros k'. cbn [andb]. rewrite orb_false_r. reflexivity.
           ++ intros i' a'. rewrite Hd'. destruct ((i' =? i) && (a' =? a)) eqn:E; [|reflexivity].
              apply andb_true_iff in E. destruct E as [E1 E2]. apply N.eqb_eq in E1, E2. subst i' a'. reflexivity.
Qed.

(* ------------------------------------------------------------------ everything else leaves the invariant alone *)
Lemma sx_of w w' : out w' = out w -> insts w' = insts w -> sx w w'.
Proof. intros A B. split; [rewrite A; reflexivity|]. intros i a. unfold D, get_store. rewrite B. reflexivity. Qed.

Lemma sx_call_later d h w : sx w (snd (call_later d h w)). Proof. apply sx_of; reflexivity. Qed.
Lemma sx_new_task k w : sx w (snd (new_task k w)). Proof. apply sx_of; reflexivity. Qed.
Lemma sx_finish_task t w : sx w (finish_task t w).
Proof. unfold finish_task. destruct (get_task t w); [apply sx_of; reflexivity|apply sx_refl]. Qed.
Lemma sx_task_sleep t k d pc i w : sx w (task_sleep t k d pc i w).
Proof. unfold task_sleep. destruct (d =? 0); apply sx_of; reflexivity. Qed.
Lemma sx_cancel_task t w : sx w (cancel_task t w).
Proof.
  unfold cancel_task. destruct (get_task t w) as [tk|]; [|apply sx_refl]. destruct (tk_done tk); [apply sx_refl|].
  destruct (tk_sleep tk); apply sx_of; reflexivity.
Qed.
Lemma sx_sleep_done t w : sx w (sleep_done t w).
Proof.
  unfold sleep_done. destruct (get_task t w) as [tk|]; [|apply sx_refl]. destruct (tk_done tk); [apply sx_refl|apply sx_of; reflexivity].
Qed.
Lemma sx_queue_send e d w : sx w (queue_send e d w).
Proof.
  unfold queue_send, queue_core. cbn [cfg ghost set_glog queues collectors].
  destruct (t_collect (cfg w) =? 0).
  - eapply sx_trans; [|apply same_sx, n_send_sd]. apply sx_of; reflexivity.
  - match goal with |- sx w (match ?o with Some _ => _ | None => _ end) => destruct o as [[c co]|] end; apply sx_of; reflexivity.
Qed.

(* ------------------------------------------------------------------ lifted through every protocol function *)
Definition GGS (X : list (N * handle)) (w : world) : Prop := GG X w /\ S6 w.
Definition kkS (f : world -> world) : Prop := forall X w, GGS X w -> GGS X (f w).

Lemma GGS_same X w w' : same w w' -> GGS X w -> GGS X w'.
Proof. intros Hs [Hg H6]. split; [eapply GG_same; eauto|eapply same_S6; eauto]. Qed.
Lemma kkS_of f : kk f -> (forall w, sx w (f w)) -> kkS f.
Proof. intros H1 H2 X w [Hg H6]. split; [apply H1; exact Hg|eapply S6_sx; [apply H2|exact H6]]. Qed.

Theorem kkS_exec h : soon_ok h = true -> kkS (exec h).
Proof.
  refine (Lift.kk_exec GGS GGS_same _ _ _ _ _ _ _ _ _ _ _ h).
  - intros d h0 Hs. apply kkS_of; [apply kk_call_later; exact (proj1 (andb_prop _ _ Hs))|intros w; apply sx_call_later].
  - intros st a k X w [Hg H6]. split; [apply kk_store_stop; exact Hg|eapply S6_store_stop; [exact (proj1 Hg)|exact H6]].
  - intros st a X w [Hg H6]. split; [apply kk_store_stop_all_for_address; exact Hg|eapply S6_store_stop_all_for_address; [exact (proj1 Hg)|exact H6]].
  - intros st X w [Hg H6]. split; [apply kk_store_stop_all; exact Hg|eapply S6_store_stop_all; [exact (proj1 Hg)|exact H6]].
  - intros X st ttl a k w [Hg H6] Hh. split; [apply kk_store_refresh; assumption|eapply S6_store_refresh; [exact (proj1 Hg)|exact H6|exact Hh]].
  - intros k. apply kkS_of; [apply kk_new_task|intros w; apply sx_new_task].
  - intros t. apply kkS_of; [apply kk_finish_task|intros w; apply sx_finish_task].
  - intros t k d pc i. apply kkS_of; [apply kk_task_sleep|intros w; apply sx_task_sleep].
  - intros t. apply kkS_of; [apply kk_cancel_task|intros w; apply sx_cancel_task].
  - intros t. apply kkS_of; [apply kk_sleep_done|intros w; apply sx_sleep_done].
  - intros e d. apply kkS_of; [apply kk_queue_send|intros w; apply sx_queue_send].
Qed.

(* ------------------------------------------------------------------ the loop *)
Lemma sx_collector_timeout c w : sx w (collector_timeout c w).
Proof.
  unfold collector_timeout. destruct (aget N.eqb c (collectors w)) as [co|]; [|apply sx_refl].
  eapply sx_trans; [|apply same_sx, n_send_sd]. apply sx_of; reflexivity.
Qed.

Theorem GGS_lstep1 w : GGS [] w -> GGS [] (lstep1 w).
Proof.
  intros [Hgg H6]. split; [apply GG_lstep1; exact Hgg|].
  destruct Hgg as [Hg H2]. unfold lstep1. destruct (ready w) as [|[[tid|] h] r] eqn:Hr; [exact H6| |].
  - cbv zeta. assert (H6p : S6 (set_ready r w)) by (apply (S6_sx w); [apply sx_of; reflexivity|exact H6]).
    destruct (is_cancelled tid (set_ready r w)) eqn:Ec; [exact H6p|].
    assert (Hp : GP [(tid, h)] (set_ready r w)) by (apply pop_GP; assumption).
    destruct (soon_ok h) eqn:Es.
    + refine (proj2 (kkS_exec h Es [(tid, h)] (set_ready r w) _)). split; [split; [exact Hp|eapply G2_pop; eauto]|exact H6p].
    + destruct h; try discriminate; cbn [exec].
      * eapply S6_store_expired; [exact Hp|exact H6p].
      * eapply S6_sx; [apply sx_collector_timeout|exact H6p].
  - cbv zeta. assert (H6p : S6 (set_ready r w)) by (apply (S6_sx w); [apply sx_of; reflexivity|exact H6]).
    assert (En : notexp_b h = true).
    { destruct H2 as [_ Hne]. unfold ne_ready in Hne. rewrite Hr in Hne. cbn [forallb fst snd] in Hne. apply andb_true_iff in Hne. tauto. }
    assert (Hp : GP [] (set_ready r w)).
    { apply (same_G_weak _ w); [|exact Hg]. unfold tided, tmr, rdy. cbn [ready set_ready timers]. rewrite Hr. reflexivity. }
    destruct (nocoll_b h) eqn:Ec.
    + refine (proj2 (kkS_exec h _ [] (set_ready r w) _)); [unfold soon_ok; rewrite En, Ec; reflexivity|].
      split; [split; [exact Hp|eapply G2_pop; eauto]|exact H6p].
    + destruct h; try discriminate. cbn [exec]. eapply S6_sx; [apply sx_collector_timeout|exact H6p].
Qed.

Lemma GGS_run_ready : forall n w, GGS [] w -> GGS [] (run_ready n w).
Proof. induction n as [|n IH]; intros w Hg; [exact Hg|]. rewrite run_ready_step. apply IH, GGS_lstep1, Hg. Qed.

Lemma sx_arrivals : forall hs w, sx w (fold_left (fun acc h => call_soon h acc) hs w).
Proof. induction hs as [|h hs IH]; intros w; cbn [fold_left]; [apply sx_refl|]. eapply sx_trans; [|apply IH]. apply sx_of; reflexivity. Qed.


Theorem GGS_iteration arrivals rv w : all_notexp arrivals -> GGS [] w -> GGS [] (iteration arrivals rv w).
Proof.
  intros Ha [Hg H6]. rewrite iteration_pre. apply GGS_run_ready. split; [apply GG_iter_pre; assumption|].
  eapply S6_sx; [|exact H6]. unfold iter_pre. cbv zeta. eapply sx_trans; [apply sx_arrivals|]. apply sx_of; reflexivity.
Qed.

Theorem GGS_run : forall fuel events t_end rv w, Forall (fun e => soon_ok (snd e) = true) events -> GGS [] w ->
  GGS [] (fst (run fuel events t_end rv w)).
Proof.
  induction fuel as [|f IH]; intros events t_end rv w Hev Hg; cbn [run fst]; [exact Hg|].
  destruct (split_arrived (now w) events) as [arrived later] eqn:Es.
  destruct (split_arrived_notexp _ _ _ _ Hev Es) as [Ha Hl].
  set (dn := match next_timer w with Some t => t <=? now w | None => false end).
  destruct (ready w) as [|x r] eqn:Er; [destruct arrived as [|a ar]; [destruct dn|]|];
    try (apply IH; [exact Hl|]; apply GGS_iteration; [exact Ha|exact Hg]).
  destruct (omin _ _) as [t|]; [|exact Hg]. destruct (t_end <? t); [exact Hg|].
  apply IH; [exact Hev|]. destruct Hg as [[A [B Cc]] D6]. split; [split; [apply GP_set_now; exact A|split; [exact B|exact Cc]]|].
  eapply S6_sx; [|exact D6]. apply sx_of; reflexivity.
Qed.

Lemma S6_empty now0 c ins dr : fresh_insts ins ->
  S6 (mkWorld now0 [] [] [] 1 c sess_init false None [] [] [] [] None false [] ins [] [] [] dr [] []).
Proof.
  intros Hf. constructor; [|reflexivity]. intros i a k. cbn [out sub_live]. unfold D, get_store. cbn [insts].
  destruct (aget N.eqb i ins) as [x|] eqn:E; [|reflexivity]. rewrite (Hf i x (aget_in_N _ _ _ E)). reflexivity.
Qed.

(* in every reachable state of every scenario *)
Theorem GGS_reachable s sc : d_scenario s = Some sc -> GGS [] (fst (run_scenario sc)).
Proof.
  intros Hd. unfold run_scenario.
  destruct s as [| |l]; try discriminate. cbn [d_scenario] in Hd.
  destruct l as [|c [|ins [|dr [|ev [|[te| |] [|rv [|[fu| |] [|]]]]]]]]; try discriminate.
  destruct (d_timings c); cbn [obind] in Hd; [|discriminate].
  destruct (dlist d_inst ins) as [ins'|] eqn:Ei; cbn [obind] in Hd; [|discriminate].
  destruct (dlist dN dr); cbn [obind] in Hd; [|discriminate].
  destruct (dlist d_event_in ev) as [evs|] eqn:Ee; cbn [obind] in Hd; [|discriminate].
  destruct (dbool rv); cbn [obind] in Hd; [|discriminate]. injection Hd as <-. cbn [sc_events sc_end sc_rev sc_fuel].
  apply GGS_run.
  - unfold dlist in Ee. destruct (dL ev); cbn [obind] in Ee; [|discriminate]. eapply dmap_event_notexp; eauto.
  - unfold init_world. cbn [sc_cfg sc_insts sc_draws].
    assert (Hf : fresh_insts ins') by (unfold dlist in Ei; destruct (dL ins); cbn [obind] in Ei; [|discriminate]; eapply dmap_inst_fresh; eauto).
    split; [apply GG_empty; exact Hf|apply S6_empty; exact Hf].
Qed.

(* ------------------------------------------------------------------ what it says, for users *)
Theorem reachable_subscriptions_truthful s sc : d_scenario s = Some sc ->
  let w := fst (run_scenario sc) in
  (forall i a k, sub_live i a k (out w) = amem key_eqb (KSub k) (inner a (get_store (SSubs i) w)))
  /\ alt_ok (out w) = true.
Proof. intros Hd w. destruct (proj2 (GGS_reachable s sc Hd)) as [L A]. split; assumption. Qed.

Example alt_ok_example :
  let s := mkSub 1 1 1 5 0 3 [] [] in
  alt_ok [(3, EUnsubscribed 1 s 7); (2, ESubscribed 1 s 7 true); (1, ESubscribed 1 s 7 false)] = true
  /\ alt_ok [(3, EUnsubscribed 1 s 7); (2, EUnsubscribed 1 s 7); (1, ESubscribed 1 s 7 true)] = false
  /\ alt_ok [(2, ESubscribed 1 s 7 true); (1, ESubscribed 1 s 7 true)] = false
  /\ alt_ok [(2, EUnsubscribed 1 s 7); (1, ESubscribed 1 s 7 false)] = false.
Proof. cbv zeta. repeat split; vm_compute; reflexivity. Qed.
