(* Timing of the loop model: the clock only moves between iterations and never past the earliest live deadline, every
   callback leaves the clock alone and only arms timers at or after the current instant.  Hence every timer callback the
   loop runs (TTL expiry, collector timeout, task wake-up, delayed find answer) runs at virtual time EXACTLY equal to the
   deadline it was armed with: never early, never late. *)
From Coq Require Import Lia Permutation.
From PS Require Import Lib.Base Lib.Struct Generated.Consts Model.SdTypes Model.Config Model.Session Model.Someip Model.SdCodec
  Model.StackTypes Model.Stack Model.StackIO Proofs.AListFacts Proofs.KeyEquiv Proofs.WorldInv.

Record ext (w w' : world) : Prop := mkExt {
  ex_now : now w' = now w;
  ex_tmr : forall t, In t (timers w') -> In t (timers w) \/ now w <= fst (fst t);
  ex_can : forall tid, memN tid (cancelled w) = true -> memN tid (cancelled w') = true;
  ex_ready : exists l, ready w' = ready w ++ l /\ Forall (fun r => fst r = None) l }.

Lemma ext_refl w : ext w w. Proof. constructor; auto. exists []. rewrite app_nil_r. auto. Qed.
Lemma ext_trans a b c : ext a b -> ext b c -> ext a c.
Proof.
  intros [A1 A2 A3 (l1 & A4 & A5)] [B1 B2 B3 (l2 & B4 & B5)]. constructor; [congruence| |auto|].
  - intros t Ht. destruct (B2 t Ht) as [H|H]; [apply A2; exact H|right; rewrite <- A1; exact H].
  - exists (l1 ++ l2). rewrite B4, A4, app_assoc. split; [reflexivity|apply Forall_app; auto].
Qed.
Ltac noready := exists []; rewrite app_nil_r; split; [reflexivity|constructor].
Definition E (f : world -> world) : Prop := forall w, ext w (f w).
Lemma E_comp f g : E f -> E g -> E (fun w => f (g w)).
Proof. intros Hf Hg w. eapply ext_trans; [apply Hg|apply Hf]. Qed.
Lemma E_fold {Y} (f : world -> Y -> world) l : (forall x, E (fun w => f w x)) -> E (fun w => fold_left f l w).
Proof. intros H. induction l as [|x l IH]; intros w; cbn [fold_left]; [apply ext_refl|]. eapply ext_trans; [apply (H x w)|apply IH]. Qed.
Lemma same_ext {b} w w' : sameb b w w' -> ext w w'.
Proof.
  intros Hs. constructor; [apply (sm_now _ _ Hs)|rewrite (sm_tmr _ _ Hs); auto|rewrite (sm_can _ _ Hs); auto|].
  destruct (sm_ready _ _ Hs) as (l & A & B). exists l. split; [exact A|]. eapply Forall_impl; [|exact B]. intros r Hr. apply Hr.
Qed.
Lemma E_neutral {b} f : (forall w, sameb b w (f w)) -> E f.
Proof. intros H w. eapply same_ext, H. Qed.

(* ---- primitives *)
Lemma E_call_later d h : E (fun w => snd (call_later d h w)).
Proof.
  intros w. constructor; [reflexivity| |auto|noready]. intros t Ht. cbn in Ht. apply in_app_iff in Ht.
  destruct Ht as [Ht|[<-|[]]]; [left; exact Ht|right; cbn; lia].
Qed.
Lemma E_cancel tid : E (cancel_timer tid).
Proof.
  intros w. constructor; [reflexivity|auto| |noready]. intros x Hx. change (cancelled (cancel_timer tid w)) with (tid :: cancelled w).
  rewrite memN_cons, Hx. apply orb_true_r.
Qed.
Lemma E_cancel_opt o : E (cancel_opt o). Proof. destruct o; [apply E_cancel|intros w; apply ext_refl]. Qed.
Lemma E_put_store st s : E (put_store st s).
Proof. intros w. destruct (put_store_frame st s w) as (F1 & F2 & F3 & _). constructor; [destruct st as [|i]; cbn; [reflexivity|destruct (aget N.eqb i (insts w)); reflexivity]|rewrite F1; auto|rewrite F3; auto|rewrite F2; noready]. Qed.
Lemma E_put_task t tk : E (put_task t tk). Proof. intros w. constructor; auto. noready. Qed.
Lemma E_put_inst i x : E (put_inst i x). Proof. intros w. constructor; auto. noready. Qed.
Lemma E_set_collectors c : E (set_collectors c). Proof. intros w. constructor; auto. noready. Qed.
Lemma E_ghost g : E (ghost g). Proof. intros w. constructor; auto. noready. Qed.
Lemma E_set_tasks c : E (set_tasks c). Proof. intros w. constructor; auto. noready. Qed.
Lemma E_set_next_id c : E (set_next_id c). Proof. intros w. constructor; auto. noready. Qed.
Lemma E_call_soon h : E (call_soon h). Proof. intros w. constructor; [reflexivity|intros t Ht; left; exact Ht|intros tid H; exact H|exists [(None, h)]; split; [reflexivity|constructor; [reflexivity|constructor]]]. Qed.

(* ---- store operations *)
Lemma E_store_stop st a k : E (store_stop st a k).
Proof.
  intros w. unfold store_stop. destruct (aget key_eqb k _); [|apply E_put_store].
  eapply ext_trans; [|eapply E_neutral, n_store_callback]. eapply ext_trans; [apply E_put_store|apply E_cancel_opt].
Qed.
Lemma E_store_expired st a k : E (store_expired st a k).
Proof.
  intros w. unfold store_expired. destruct (aget key_eqb k _); [|apply E_put_store].
  eapply ext_trans; [|apply E_ghost]. eapply ext_trans; [apply E_put_store|eapply E_neutral, n_store_callback].
Qed.
Lemma E_store_stop_all_for_address st a : E (store_stop_all_for_address st a).
Proof.
  intros w. unfold store_stop_all_for_address. eapply ext_trans; [apply E_put_store|].
  apply (E_fold (fun acc p => store_callback st (fst p) a (cancel_opt (snd p) acc))). intros p w0.
  eapply ext_trans; [apply E_cancel_opt|eapply E_neutral, n_store_callback].
Qed.
Lemma E_store_stop_all st : E (store_stop_all st).
Proof.
  intros w. unfold store_stop_all. eapply ext_trans; [|apply E_put_store].
  apply (E_fold (fun acc p => store_stop_all_for_address st (fst p) acc)). intros p. apply E_store_stop_all_for_address.
Qed.
Lemma E_refresh_tail st ttl a k : E (fun w => fst (refresh_tail st ttl a k w)).
Proof.
  intros w0. unfold refresh_tail. cbv zeta. apply (ext_trans _ (ghost (GRefresh st a k ttl) w0)); [apply E_ghost|].
  generalize (ghost (GRefresh st a k ttl) w0). clear w0. intros w.
  destruct (ttl =? TTL_FOREVER); [cbn [fst]; apply E_put_store|].
  destruct (call_later (ttl * usec_per_sec) (HExpired st a k) w) as [t w'] eqn:Ec. cbn [fst].
  assert (w' = snd (call_later (ttl * usec_per_sec) (HExpired st a k) w)) as -> by (rewrite Ec; reflexivity).
  eapply ext_trans; [apply E_call_later|apply E_put_store].
Qed.
Lemma E_store_refresh st ttl a k : E (fun w => fst (store_refresh st ttl a k w)).
Proof.
  intros w. rewrite store_refresh_unfold. cbv zeta. destruct (aget key_eqb k _) as [old|].
  - eapply ext_trans; [|apply E_refresh_tail]. eapply ext_trans; [apply E_put_store|apply E_cancel_opt].
  - destruct st as [|i], k as [s|sub]; try (eapply ext_trans; [apply E_put_store|apply E_refresh_tail]).
    + eapply ext_trans; [|apply E_refresh_tail]. eapply ext_trans; [apply E_put_store|].
      eapply E_neutral. apply n_notify_service. intros l. apply n_listener_offered.
    + destruct (client_subscribed i sub a _) as [w' ok] eqn:Ec.
      match type of Ec with client_subscribed _ _ _ ?w0 = _ => pose proof (n_client_subscribed i sub a w0) as Hs; cbv beta in Hs; rewrite Ec in Hs; cbn [fst] in Hs end.
      destruct ok; cbn [negb fst]; (eapply ext_trans; [apply E_put_store|]); [eapply ext_trans; [eapply same_ext; exact Hs|apply E_refresh_tail]|eapply same_ext; exact Hs].
Qed.

(* ---- tasks, collectors *)
Lemma E_new_task k : E (fun w => snd (new_task k w)).
Proof. intros w. unfold new_task. cbn [snd]. eapply ext_trans; [|apply E_call_soon]. constructor; [reflexivity|intros t Ht; left; exact Ht|intros tid H; exact H|noready]. Qed.
Lemma E_finish_task t : E (finish_task t).
Proof. intros w. unfold finish_task. destruct (get_task t w); [apply E_put_task|apply ext_refl]. Qed.
Lemma E_task_sleep t k d pc i : E (task_sleep t k d pc i).
Proof.
  intros w. unfold task_sleep. destruct (d =? 0); [eapply ext_trans; [apply E_put_task|apply E_call_soon]|].
  destruct (call_later d (HSleepDone t) w) as [tid w1] eqn:Ec.
  assert (w1 = snd (call_later d (HSleepDone t) w)) as -> by (rewrite Ec; reflexivity).
  eapply ext_trans; [apply E_call_later|apply E_put_task].
Qed.
Lemma E_cancel_task t : E (cancel_task t).
Proof.
  intros w. unfold cancel_task. destruct (get_task t w) as [tk|]; [|apply ext_refl]. destruct (tk_done tk); [apply ext_refl|].
  destruct (tk_sleep tk); [|apply E_put_task].
  eapply ext_trans; [apply E_put_task|]. eapply ext_trans; [apply E_cancel|apply E_call_soon].
Qed.
Lemma E_sleep_done t : E (sleep_done t).
Proof. intros w. unfold sleep_done. destruct (get_task t w) as [tk|]; [|apply ext_refl]. destruct (tk_done tk); [apply ext_refl|]. eapply ext_trans; [apply E_put_task|apply E_call_soon]. Qed.
Lemma E_queue_send e d : E (queue_send e d).
Proof.
  intros w0. unfold queue_send. apply (ext_trans _ (ghost (GQueue e d) w0)); [apply E_ghost|]. generalize (ghost (GQueue e d) w0). clear w0.
  intros w. unfold queue_core. destruct (t_collect (cfg w) =? 0); [eapply ext_trans; [apply E_ghost|eapply E_neutral, n_send_sd]|].
  match goal with |- ext w (match ?o with Some _ => _ | None => _ end) => destruct o as [[c co]|] end; [apply E_set_collectors|].
  destruct (call_later (t_collect (cfg w)) (HCollector (next_id w)) w) as [tid w1] eqn:Ec.
  assert (w1 = snd (call_later (t_collect (cfg w)) (HCollector (next_id w)) w)) as -> by (rewrite Ec; reflexivity).
  eapply ext_trans; [apply E_call_later|]. constructor; [reflexivity|intros t Ht; left; exact Ht|intros x H; exact H|noready].
Qed.
Lemma E_collector_timeout c : E (collector_timeout c).
Proof.
  intros w. unfold collector_timeout. destruct (aget N.eqb c (collectors w)); [|apply ext_refl].
  eapply ext_trans; [|eapply E_neutral, n_send_sd]. eapply ext_trans; [apply E_ghost|apply E_set_collectors].
Qed.

(* ---- composite functions *)
Ltac pair_E H E0 := let K := fresh "K" in pose proof H as K; cbv beta in K; rewrite E0 in K; cbn [fst snd] in K.

Lemma E_subscriber_start : E subscriber_start.
Proof.
  intros w. unfold subscriber_start. destruct (sub_alive w); [apply ext_refl|].
  destruct (new_task TSub (set_sub_alive true w)) as [t w1] eqn:E0. pair_E (E_new_task TSub (set_sub_alive true w)) E0.
  eapply ext_trans; [|eapply E_neutral, n_set_sub_task]. eapply ext_trans; [eapply E_neutral, n_set_sub_alive|exact K].
Qed.
Lemma E_subscriber_stop b : E (subscriber_stop b).
Proof.
  intros w. unfold subscriber_stop. destruct (negb (sub_alive w)); [apply ext_refl|].
  set (w1 := set_sub_alive false w). assert (H1 : ext w w1) by (eapply E_neutral, n_set_sub_alive).
  set (w2 := match sub_task w1 with Some t => set_sub_task None (cancel_task t w1) | None => w1 end).
  assert (H2 : ext w w2).
  { unfold w2. destruct (sub_task w1); [|exact H1]. eapply ext_trans; [exact H1|]. eapply ext_trans; [apply E_cancel_task|eapply E_neutral, n_set_sub_task]. }
  destruct b; [|exact H2]. eapply ext_trans; [exact H2|].
  apply (E_fold (fun acc p => call_soon (HSendStopSub (fst p) (snd p)) acc)). intros p. apply E_call_soon.
Qed.
Lemma E_subscribe_round t : E (subscribe_round t).
Proof.
  intros w. unfold subscribe_round. set (w1 := fold_left _ (group_entries (sub_entries w)) w).
  assert (H1 : ext w w1).
  { unfold w1. apply (E_fold (fun acc p => send_subscribe (t_subscribe_ttl (cfg acc)) (fst p) (snd p) acc)). intros p w0. eapply E_neutral, n_send_subscribe. }
  eapply ext_trans; [exact H1|]. destruct (t_refresh (cfg w1)); [apply E_task_sleep|apply E_finish_task].
Qed.
Lemma E_handle_offer e a : E (handle_offer e a).
Proof.
  intros w. unfold handle_offer.
  destruct (from_offer_entry e); [|apply ext_refl]. destruct (e_ttl e =? 0); [apply E_store_stop|].
  destruct (negb (is_watching e w)); [apply ext_refl|apply E_store_refresh].
Qed.
Lemma E_discovery_start : E discovery_start.
Proof.
  intros w. unfold discovery_start. match goal with |- ext w (if ?b then _ else _) => destruct b end; [apply ext_refl|].
  destruct (new_task TFind w) as [t w1] eqn:E0. pair_E (E_new_task TFind w) E0. eapply ext_trans; [exact K|eapply E_neutral, n_set_disc_task].
Qed.
Lemma E_discovery_stop : E discovery_stop.
Proof. intros w. unfold discovery_stop. destruct (disc_task w); [|apply ext_refl]. eapply ext_trans; [apply E_cancel_task|eapply E_neutral, n_set_disc_task]. Qed.
Lemma E_inst_send_offer i d b : E (inst_send_offer i d b).
Proof. intros w. unfold inst_send_offer. destruct (get_inst i w); [apply E_queue_send|apply ext_refl]. Qed.
Lemma E_inst_start i : E (fun w => fst (inst_start i w)).
Proof.
  intros w. unfold inst_start. destruct (get_inst i w) as [ins|]; [|apply ext_refl].
  destruct (in_task ins); [cbn [fst]; eapply E_neutral, n_emit; reflexivity|].
  destruct (new_task (TOffer i) w) as [t w1] eqn:E0. cbn [fst]. pair_E (E_new_task (TOffer i) w) E0.
  eapply ext_trans; [exact K|apply E_put_inst].
Qed.
Lemma E_inst_stop i : E (fun w => fst (inst_stop i w)).
Proof.
  intros w. unfold inst_stop. destruct (get_inst i w) as [ins|]; [|apply ext_refl].
  destruct (in_task ins) as [t|]; [|cbn [fst]; eapply E_neutral, n_emit; reflexivity]. cbn [fst].
  eapply ext_trans; [|apply E_store_stop_all].
  set (w1 := put_inst i _ (cancel_task t w)). assert (H1 : ext w w1) by (eapply ext_trans; [apply E_cancel_task|apply E_put_inst]).
  destruct (t_cyclic (cfg w1) =? 0); [eapply ext_trans; [exact H1|apply E_inst_send_offer]|exact H1].
Qed.
Lemma E_for_insts f : (forall i, E (fun w => fst (f i w))) -> forall l, E (fun w => fst (for_insts f l w)).
Proof.
  intros Hf. induction l as [|i l IH]; intros w; cbn [for_insts fst]; [apply ext_refl|].
  destruct (f i w) as [w1 ok] eqn:E0. pair_E (Hf i w) E0. destruct ok; [eapply ext_trans; [exact K|apply IH]|exact K].
Qed.
Lemma E_announcer_start : E announcer_start.
Proof.
  intros w. unfold announcer_start. destruct (for_insts inst_start (announcing w) w) as [w1 ok] eqn:E0.
  pair_E (E_for_insts inst_start E_inst_start (announcing w) w) E0.
  destruct ok; [eapply ext_trans; [exact K|eapply E_neutral, n_set_ann_started]|exact K].
Qed.
Lemma E_announcer_stop : E announcer_stop.
Proof.
  intros w. unfold announcer_stop. destruct (negb (ann_started w)); [apply ext_refl|].
  destruct (for_insts inst_stop (announcing w) w) as [w1 ok] eqn:E0.
  pair_E (E_for_insts inst_stop E_inst_stop (announcing w) w) E0.
  destruct ok; [eapply ext_trans; [exact K|eapply E_neutral, n_set_ann_started]|exact K].
Qed.
Lemma E_announce_service i : E (announce_service i).
Proof.
  intros w. unfold announce_service. destruct (ann_started w); [|eapply E_neutral, n_set_announcing].
  destruct (inst_start i w) as [w1 ok] eqn:E0. pair_E (E_inst_start i w) E0.
  destruct ok; [eapply ext_trans; [exact K|eapply E_neutral, n_set_announcing]|exact K].
Qed.
Lemma E_stop_announce_service i b : E (stop_announce_service i b).
Proof.
  intros w. unfold stop_announce_service. destruct (remove_first N.eqb i (announcing w)); [|eapply E_neutral, n_emit; reflexivity].
  destruct (b && ann_started (set_announcing l w)); [eapply ext_trans; [eapply E_neutral, n_set_announcing|apply E_inst_stop]|eapply E_neutral, n_set_announcing].
Qed.
Lemma E_inst_handle_subscribe e a i : E (fun w => fst (inst_handle_subscribe e a i w)).
Proof.
  intros w. unfold inst_handle_subscribe. destruct (get_inst i w) as [ins|]; [|apply ext_refl].
  destruct (in_task ins); [|apply ext_refl]. destruct (matches_subscribe (in_service ins) e) as [[|]|]; try apply ext_refl.
  destruct (e_ttl e =? 0); [cbn [fst]; apply E_store_stop|].
  destruct (store_refresh (SSubs i) (sb_ttl (from_subscribe_entry e)) a (KSub (from_subscribe_entry e)) w) as [w1 ok] eqn:E0.
  pair_E (E_store_refresh (SSubs i) (sb_ttl (from_subscribe_entry e)) a (KSub (from_subscribe_entry e)) w) E0.
  destruct ok; cbn [fst]; (eapply ext_trans; [exact K|]); [apply E_queue_send|unfold send_subscribe_nack; apply E_queue_send].
Qed.
Lemma E_announcer_handle_subscribe e a : E (announcer_handle_subscribe e a).
Proof.
  intros w. unfold announcer_handle_subscribe.
  assert (Hf : forall l acc, ext w (fst acc) ->
            ext w (fst (fold_left (fun acc i => let '(w', m) := inst_handle_subscribe e a i (fst acc) in (w', snd acc || m)) l acc))).
  { induction l as [|i l IH]; intros acc Ha; cbn [fold_left]; [exact Ha|]. apply IH.
    destruct (inst_handle_subscribe e a i (fst acc)) as [w' m] eqn:E0. cbn [fst].
    pair_E (E_inst_handle_subscribe e a i (fst acc)) E0. eapply ext_trans; eauto. }
  specialize (Hf (announcing w) (w, false) (ext_refl w)).
  destruct (fold_left _ (announcing w) (w, false)) as [w1 any]. cbn [fst] in Hf.
  destruct any; [exact Hf|]. unfold send_subscribe_nack. eapply ext_trans; [exact Hf|apply E_queue_send].
Qed.
Lemma E_announcer_handle_findservice e a mc : E (announcer_handle_findservice e a mc).
Proof.
  intros w. unfold announcer_handle_findservice. destruct (filter _ (announcing w)) as [|i0 l0]; [apply ext_refl|]. destruct mc.
  - destruct (draw (t_rr_min (cfg w)) (t_rr_max (cfg w)) w) as [d w1] eqn:Ed.
    pose proof (n_draw (t_rr_min (cfg w)) (t_rr_max (cfg w)) w) as Hs. cbv beta in Hs. rewrite Ed in Hs. cbn [snd] in Hs.
    eapply ext_trans; [eapply same_ext; exact Hs|]. apply (E_fold (fun acc i => snd (call_later d (HAnswerFind i a) acc))). intros i. apply E_call_later.
  - apply (E_fold (fun acc i => call_soon (HAnswerFind i a) acc)). intros i. apply E_call_soon.
Qed.
Lemma E_answer_find i a : E (answer_find i a).
Proof. intros w. unfold answer_find. destruct (get_inst i w) as [ins|]; [|apply ext_refl]. destruct (in_can_answer ins); [apply E_inst_send_offer|apply ext_refl]. Qed.
Lemma E_announcer_reboot_detected a : E (announcer_reboot_detected a).
Proof. intros w. unfold announcer_reboot_detected. apply (E_fold (fun acc i => store_stop_all_for_address (SSubs i) a acc)). intros i. apply E_store_stop_all_for_address. Qed.
Lemma E_offer_next t i inst : E (offer_next t i inst).
Proof. intros w. unfold offer_next. destruct (i <? t_rep_max (cfg w)); [apply E_task_sleep|]. destruct (t_cyclic (cfg w) =? 0); [apply E_finish_task|apply E_task_sleep]. Qed.
Lemma E_find_next t i : E (find_next t i).
Proof. intros w. unfold find_next. destruct (i <? t_rep_max (cfg w)); [apply E_task_sleep|apply E_finish_task]. Qed.
Lemma E_stop_offer_branch t inst : E (fun w =>
  let w1 := set_can_answer inst false w in finish_task t (if t_cyclic (cfg w1) =? 0 then w1 else inst_send_offer inst None true w1)).
Proof.
  intros w. cbv zeta. eapply ext_trans; [|apply E_finish_task].
  destruct (t_cyclic (cfg (set_can_answer inst false w)) =? 0); [eapply E_neutral, n_set_can_answer|].
  eapply ext_trans; [eapply E_neutral, n_set_can_answer|apply E_inst_send_offer].
Qed.
Lemma E_task_step t : E (task_step t).
Proof.
  intros w. unfold task_step. destruct (get_task t w) as [tk|]; [|apply ext_refl]. destruct (tk_done tk); [apply ext_refl|].
  destruct (tk_kind tk) as [| |inst].
  - destruct (tk_pc tk); destruct (tk_must_cancel tk); try apply E_finish_task; apply E_subscribe_round.
  - destruct (tk_pc tk) as [|p].
    + destruct (tk_must_cancel tk); [apply E_finish_task|]. destruct (watched w); [apply E_finish_task|].
      destruct (draw (t_init_min (cfg w)) (t_init_max (cfg w)) w) as [d w1] eqn:Ed.
      pose proof (n_draw (t_init_min (cfg w)) (t_init_max (cfg w)) w) as Hs. cbv beta in Hs. rewrite Ed in Hs. cbn [snd] in Hs.
      eapply ext_trans; [eapply same_ext; exact Hs|apply E_task_sleep].
    + destruct p; destruct (tk_must_cancel tk); try apply E_finish_task;
        (destruct (find_entries w) eqn:Ef; [apply E_finish_task|]; eapply ext_trans; [eapply E_neutral, n_send_sd|apply E_find_next]).
  - destruct (tk_pc tk) as [|p].
    + destruct (tk_must_cancel tk); [apply E_finish_task|].
      destruct (draw (t_init_min (cfg w)) (t_init_max (cfg w)) w) as [d w1] eqn:Ed.
      pose proof (n_draw (t_init_min (cfg w)) (t_init_max (cfg w)) w) as Hs. cbv beta in Hs. rewrite Ed in Hs. cbn [snd] in Hs.
      eapply ext_trans; [eapply same_ext; exact Hs|apply E_task_sleep].
    + repeat match goal with |- context [match ?q with xI _ => _ | xO _ => _ | xH => _ end] => destruct q end;
      destruct (tk_must_cancel tk);
      first [ apply E_finish_task
            | apply (E_stop_offer_branch t inst)
            | eapply ext_trans; [|apply E_offer_next];
              first [ eapply ext_trans; [apply E_inst_send_offer|eapply E_neutral, n_set_can_answer] | apply E_inst_send_offer ]
            | eapply ext_trans; [apply E_inst_send_offer|apply E_task_sleep] ].
Qed.
Lemma E_sd_message_received h a mc : E (sd_message_received h a mc).
Proof.
  intros w. unfold sd_message_received. destruct (negb (sd_unicast h)); [apply ext_refl|].
  apply (E_fold (fun acc e =>
     if e_type e =? ET_OfferService then call_soon (HHandleOffer e a) acc
     else if e_type e =? ET_SubscribeAck then acc
     else if e_type e =? ET_FindService then announcer_handle_findservice e a mc acc
     else if e_type e =? ET_Subscribe then (if mc then acc else announcer_handle_subscribe e a acc)
     else acc)).
  intros e w'. destruct (e_type e =? ET_OfferService); [apply E_call_soon|]. destruct (e_type e =? ET_SubscribeAck); [apply ext_refl|].
  destruct (e_type e =? ET_FindService); [apply E_announcer_handle_findservice|].
  destruct (e_type e =? ET_Subscribe); [|apply ext_refl]. destruct mc; [apply ext_refl|apply E_announcer_handle_subscribe].
Qed.
Lemma E_reboot_detected a : E (reboot_detected a).
Proof. intros w. unfold reboot_detected. eapply ext_trans; [apply E_announcer_reboot_detected|apply E_call_soon]. Qed.
Lemma E_message_received m a mc : E (message_received m a mc).
Proof.
  intros w. unfold message_received. destruct (negb (is_sd_message m)); [apply ext_refl|].
  destruct (parse_sd (m_payload m)) as [[h r]|]; [|apply ext_refl].
  pose proof (n_set_sess_rx w a mc (sd_reboot h) (m_sess m)) as Hrx.
  destruct (check_received (sess w) a mc (sd_reboot h) (m_sess m)) as [rb s']. cbn [snd] in Hrx.
  assert (H2 : ext w (if rb then reboot_detected a (set_sess s' w) else set_sess s' w)).
  { destruct rb; [eapply ext_trans; [eapply same_ext; exact Hrx|apply E_reboot_detected]|eapply same_ext; exact Hrx]. }
  destruct (resolve_sd h); [eapply ext_trans; [exact H2|apply E_sd_message_received]|exact H2].
Qed.
Lemma E_datagram_received data a mc : E (datagram_received data a mc).
Proof. intros w. unfold datagram_received. apply (E_fold (fun acc m => message_received m a mc acc)). intros m. apply E_message_received. Qed.
Lemma E_exec_api c : E (exec_api c).
Proof.
  intros w. destruct c; cbn [exec_api].
  - unfold proto_start. eapply ext_trans; [apply E_subscriber_start|]. eapply ext_trans; [apply E_announcer_start|apply E_discovery_start].
  - unfold proto_stop. eapply ext_trans; [apply E_discovery_stop|]. eapply ext_trans; [apply E_announcer_stop|apply E_subscriber_stop].
  - eapply E_neutral, n_connection_lost.
  - eapply E_neutral, n_watch_service.
  - eapply E_neutral, n_stop_watch_service.
  - eapply E_neutral, n_watch_all_services.
  - eapply E_neutral, n_stop_watch_all_services.
  - eapply E_neutral, n_watch_service.
  - eapply E_neutral, n_stop_watch_service.
  - eapply E_neutral, n_subscribe_eventgroup.
  - eapply E_neutral, n_stop_subscribe_eventgroup.
  - apply E_subscriber_start.
  - apply E_subscriber_stop.
  - apply E_discovery_start.
  - apply E_discovery_stop.
  - apply E_announcer_start.
  - apply E_announcer_stop.
  - apply E_announce_service.
  - apply E_stop_announce_service.
  - apply E_queue_send.
  - eapply E_neutral, n_send_sd.
  - destruct (get_inst i w); [apply E_put_inst|apply ext_refl].
  - apply E_call_soon.
Qed.

(* every callback leaves the clock alone and arms timers only at or after the current instant *)
Theorem E_exec h : E (exec h).
Proof.
  intros w. destruct h; cbn [exec].
  - apply E_datagram_received. - apply E_exec_api. - apply E_subscriber_stop. - apply E_store_stop_all.
  - apply E_announcer_stop. - apply E_store_stop_all_for_address. - apply E_handle_offer.
  - eapply E_neutral, n_send_subscribe. - eapply E_neutral, n_send_subscribe. - apply E_store_expired.
  - apply E_collector_timeout. - apply E_answer_find. - apply E_task_step. - apply E_sleep_done.
Qed.

(* ------------------------------------------------------------------ the timing invariant *)
(* no live timer is overdue, and no timer-born handle is left over between iterations *)
Definition Tinv (w : world) : Prop :=
  (forall t, In t (timers w) -> memN (snd (fst t)) (cancelled w) = false -> now w <= fst (fst t)) /\ rdy w = [].
Definition Tlate (w : world) : Prop :=
  forall t, In t (timers w) -> memN (snd (fst t)) (cancelled w) = false -> now w <= fst (fst t).

Lemma Tlate_ext w w' : ext w w' -> Tlate w -> Tlate w'.
Proof.
  intros [A1 A2 A3 _] H t Ht Hc. rewrite A1. destruct (A2 t Ht) as [Hin|Hle]; [|exact Hle]. apply H; [exact Hin|].
  destruct (memN (snd (fst t)) (cancelled w)) eqn:E; [|reflexivity]. apply A3 in E. congruence.
Qed.

Lemma ext_pop w otid h r : ready w = (otid, h) :: r -> forall w', ext (set_ready r w) w' ->
  now w' = now w /\ (exists l, ready w' = r ++ l /\ Forall (fun x => fst x = None) l) /\ (Tlate w -> Tlate w').
Proof.
  intros Hr w' Hx. split; [apply (ex_now _ _ Hx)|]. split; [exact (ex_ready _ _ Hx)|].
  intros Ht. eapply Tlate_ext; [exact Hx|]. exact Ht.
Qed.

Lemma lstep1_facts w : exists l, now (lstep1 w) = now w /\ ready (lstep1 w) = tl (ready w) ++ l /\ Forall (fun x => fst x = None) l
  /\ (Tlate w -> Tlate (lstep1 w)).
Proof.
  unfold lstep1. destruct (ready w) as [|[otid h] r] eqn:Hr.
  - exists []. rewrite Hr. cbn. repeat split; auto.
  - cbv zeta. match goal with |- context [if ?b then _ else _] => destruct b end.
    + exists []. cbn [tl]. rewrite app_nil_r. repeat split; auto.
    + destruct (ext_pop w otid h r Hr (exec h (set_ready r w)) (E_exec h (set_ready r w))) as (A & (l & B & C) & D).
      exists l. cbn [tl]. repeat split; assumption.
Qed.

Lemma rdy_none (l : list (option N * handle)) : Forall (fun x => fst x = None) l ->
  flat_map (fun r : option N * handle => match fst r with Some tid => [(tid, snd r)] | None => [] end) l = [].
Proof. induction 1 as [|x l Hx _ IH]; cbn; [reflexivity|]. rewrite Hx. exact IH. Qed.

(* running exactly the handles that were queued consumes every timer-born handle *)
Lemma run_ready_facts : forall n w l1 l2, ready w = l1 ++ l2 -> length l1 = n -> Forall (fun x => fst x = None) l2 ->
  now (run_ready n w) = now w /\ rdy (run_ready n w) = [] /\ (Tlate w -> Tlate (run_ready n w)).
Proof.
  induction n as [|n IH]; intros w l1 l2 Hr Hl Hn.
  - destruct l1; [|discriminate]. cbn [app] in Hr. cbn [run_ready]. repeat split; auto. unfold rdy. rewrite Hr. apply rdy_none, Hn.
  - destruct l1 as [|x l1]; [discriminate|]. rewrite run_ready_step.
    destruct (lstep1_facts w) as (l & A & B & C & D). rewrite Hr in B. cbn [app tl] in B.
    destruct (IH (lstep1 w) l1 (l2 ++ l)) as (E1 & E2 & E3).
    + rewrite B, app_assoc. reflexivity.
    + cbn in Hl. lia.
    + apply Forall_app. split; assumption.
    + rewrite E1, A. repeat split; auto.
Qed.

Lemma iter_pre_ready arrivals rv w : rdy w = [] ->
  let w1 := fold_left (fun acc h => call_soon h acc) arrivals w in
  exists due', ready (iter_pre arrivals rv w) = ready w1 ++ map (fun t : N * N * handle => (Some (snd (fst t)), snd t)) due'
    /\ (forall t, In t due' -> In t (timers w1) /\ fst (fst t) <= now w1 /\ memN (snd (fst t)) (cancelled w1) = false)
    /\ timers (iter_pre arrivals rv w) = filter (fun t => negb (fst (fst t) <=? now w1)) (timers w1)
    /\ now (iter_pre arrivals rv w) = now w1 /\ cancelled (iter_pre arrivals rv w) = cancelled w1.
Proof.
  intros Hr. cbv zeta. unfold iter_pre. cbv zeta. set (w1 := fold_left (fun acc h => call_soon h acc) arrivals w).
  eexists. split; [reflexivity|]. split; [|repeat split].
  intros t Ht. eapply Permutation_in in Ht; [|apply perm_sort].
  assert (Ht' : In t (filter (fun t => (fst (fst t) <=? now w1) && negb (is_cancelled (snd (fst t)) w1)) (timers w1))).
  { destruct rv; [apply in_rev in Ht|]; exact Ht. }
  apply filter_In in Ht'. destruct Ht' as [Hin Hb]. apply andb_true_iff in Hb. destruct Hb as [Hb1 Hb2].
  split; [exact Hin|]. split; [apply N.leb_le; exact Hb1|]. unfold is_cancelled in Hb2. destruct (memN _ _); [discriminate|reflexivity].
Qed.

Lemma fold_call_soon_facts : forall hs w, let w1 := fold_left (fun acc h => call_soon h acc) hs w in
  now w1 = now w /\ timers w1 = timers w /\ cancelled w1 = cancelled w /\ rdy w1 = rdy w.
Proof.
  induction hs as [|h hs IH]; intros w; cbn [fold_left]; cbv zeta; [auto|].
  destruct (IH (call_soon h w)) as (A & B & C & D). cbv zeta in *. rewrite A, B, C, D. repeat split.
  unfold rdy, call_soon. cbn [ready set_ready]. rewrite flat_map_app. cbn. rewrite app_nil_r. reflexivity.
Qed.

(* THE TIMING THEOREM: in every iteration, every timer callback that runs was armed for exactly the current instant *)
Theorem iteration_on_time arrivals rv w : Tinv w ->
  let w1 := fold_left (fun acc h => call_soon h acc) arrivals w in
  (exists due', ready (iter_pre arrivals rv w) = ready w1 ++ map (fun t : N * N * handle => (Some (snd (fst t)), snd t)) due'
                /\ forall t, In t due' -> In t (timers w) /\ fst (fst t) = now w)
  /\ Tinv (iteration arrivals rv w) /\ now (iteration arrivals rv w) = now w.
Proof.
  intros [Hl Hr]. cbv zeta. destruct (fold_call_soon_facts arrivals w) as (A & B & C & D). cbv zeta in *.
  destruct (iter_pre_ready arrivals rv w Hr) as (due' & P1 & P2 & P3 & P4 & P5). cbv zeta in *.
  split.
  - exists due'. split; [exact P1|]. intros t Ht. destruct (P2 t Ht) as (Q1 & Q2 & Q3). rewrite B in Q1. rewrite A in Q2. rewrite C in Q3.
    split; [exact Q1|]. pose proof (Hl t Q1 Q3). lia.
  - rewrite iteration_pre.
    assert (Hnone : Forall (fun x : option N * handle => fst x = None) (@nil (option N * handle))) by constructor.
    destruct (run_ready_facts (length (ready (iter_pre arrivals rv w))) (iter_pre arrivals rv w) (ready (iter_pre arrivals rv w)) []
                (eq_sym (app_nil_r _)) eq_refl Hnone) as (E1 & E2 & E3).
    rewrite E1, P4, A. split; [|reflexivity]. split; [|exact E2]. apply E3.
    intros t Ht Hc. rewrite P3 in Ht. apply filter_In in Ht. destruct Ht as [Hin Hb]. rewrite P4.
    apply negb_true_iff, N.leb_gt in Hb. lia.
Qed.

(* between iterations the clock advances to the earliest live deadline or arrival, never beyond a live deadline *)
Definition nt_step (w : world) (acc : option N) (t : N * N * handle) : option N :=
  if is_cancelled (snd (fst t)) w then acc else
  match acc with None => Some (fst (fst t)) | Some m => Some (N.min m (fst (fst t))) end.
Lemma next_timer_fold w : next_timer w = fold_left (nt_step w) (timers w) None. Proof. reflexivity. Qed.

Lemma nt_fold_some w : forall l acc m, fold_left (nt_step w) l acc = Some m ->
  (forall a, acc = Some a -> m <= a) /\ (forall t, In t l -> memN (snd (fst t)) (cancelled w) = false -> m <= fst (fst t)).
Proof.
  induction l as [|x l IH]; intros acc m H; cbn [fold_left] in H.
  - subst acc. split; [intros a E; injection E as <-; lia|intros t []].
  - destruct (IH _ _ H) as [I1 I2]. unfold nt_step, is_cancelled in I1. split.
    + intros a ->. destruct (memN (snd (fst x)) (cancelled w)); [apply I1; reflexivity|]. pose proof (I1 _ eq_refl). lia.
    + intros t [<-|Ht] Hc; [|apply I2; assumption]. rewrite Hc in I1. destruct acc as [a|]; pose proof (I1 _ eq_refl); lia.
Qed.
Lemma nt_fold_none w : forall l acc, fold_left (nt_step w) l acc = None ->
  acc = None /\ forall t, In t l -> memN (snd (fst t)) (cancelled w) = true.
Proof.
  induction l as [|x l IH]; intros acc H; cbn [fold_left] in H; [split; [exact H|intros ? []]|].
  destruct (IH _ H) as [I1 I2]. unfold nt_step, is_cancelled in I1.
  destruct (memN (snd (fst x)) (cancelled w)) eqn:Ec.
  - split; [exact I1|]. intros t [<-|Ht]; [exact Ec|apply I2; exact Ht].
  - destruct acc; discriminate.
Qed.

Lemma next_timer_le w : forall m, next_timer w = Some m ->
  forall t, In t (timers w) -> memN (snd (fst t)) (cancelled w) = false -> m <= fst (fst t).
Proof. intros m H. rewrite next_timer_fold in H. apply (nt_fold_some w _ _ _ H). Qed.

Theorem run_on_time : forall fuel events t_end rv w, Tinv w -> Tinv (fst (run fuel events t_end rv w)).
Proof.
  induction fuel as [|f IH]; intros events t_end rv w Ht; cbn [run fst]; [exact Ht|].
  destruct (split_arrived (now w) events) as [arrived later].
  destruct (next_timer w) as [m|] eqn:En.
  - destruct (ready w) as [|x r] eqn:Er; [destruct arrived as [|a ar]; [destruct (m <=? now w) eqn:Ed|]|];
      try (apply IH; apply (iteration_on_time _ rv w Ht)).
    destruct (omin (Some m) _) as [t|] eqn:Eo; [|exact Ht]. destruct (t_end <? t); [exact Ht|]. apply IH.
    destruct Ht as [Hl Hr]. split; [|exact Hr]. intros t0 Hin Hc. cbn [now set_now].
    pose proof (next_timer_le w m En t0 Hin Hc) as H1. pose proof (Hl t0 Hin Hc) as H2.
    assert (t <= m) by (destruct (match later with [] => None | e :: _ => Some (fst e) end); cbn in Eo; injection Eo as <-; lia). lia.
  - destruct (ready w) as [|x r] eqn:Er; [destruct arrived as [|a ar]|]; try (apply IH; apply (iteration_on_time _ rv w Ht)).
    destruct (omin None _) as [t|] eqn:Eo; [|exact Ht]. destruct (t_end <? t); [exact Ht|]. apply IH.
    destruct Ht as [Hl Hr]. split; [|exact Hr]. intros t0 Hin Hc. exfalso.
    (* no live timer at all *)
    rewrite next_timer_fold in En. destruct (nt_fold_none w _ _ En) as [_ Hall]. pose proof (Hall _ Hin) as Hx.
    cbn [timers cancelled set_now] in Hc. congruence.
Qed.

Lemma Tinv_init sc : Tinv (init_world sc).
Proof. split; [intros t []|reflexivity]. Qed.

Theorem reachable_on_time sc : Tinv (fst (run_scenario sc)).
Proof. unfold run_scenario. apply run_on_time, Tinv_init. Qed.

(* what arms the deadlines *)
Lemma refresh_arms_deadline st ttl a k w : (ttl =? TTL_FOREVER) = false ->
  timers (fst (refresh_tail st ttl a k w)) = timers w ++ [(now w + ttl * usec_per_sec, next_id w, HExpired st a k)].
Proof.
  intros H. unfold refresh_tail. rewrite H. cbn [call_later fst].
  match goal with |- timers (put_store ?s ?x ?y) = _ => destruct (put_store_frame s x y) as (F1 & _) end. rewrite F1. reflexivity.
Qed.
Lemma refresh_forever_arms_nothing st a k w : timers (fst (refresh_tail st TTL_FOREVER a k w)) = timers w.
Proof.
  unfold refresh_tail. rewrite N.eqb_refl. cbn [fst].
  match goal with |- timers (put_store ?s ?x ?y) = _ => destruct (put_store_frame s x y) as (F1 & _) end. exact F1.
Qed.
Lemma task_sleep_arms_deadline t k d pc i w : (d =? 0) = false ->
  timers (task_sleep t k d pc i w) = timers w ++ [(now w + d, next_id w, HSleepDone t)].
Proof. intros H. unfold task_sleep. rewrite H. reflexivity. Qed.
