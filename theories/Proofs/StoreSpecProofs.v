(* Theorems about the abstract TTL-store specification (Spec/StoreSpec.v): the per-key history it
   prescribes alternates, expires exactly once and exactly on time, is postponed by a refresh, never
   expires for the infinite TTL and is silent after a removal. *)
From PS Require Import Lib.Base Generated.Consts Model.SdTypes Model.Config Model.Session
  Model.StackTypes Model.Stack Model.StackIO Spec.TraceSpec Spec.StoreSpec.
From Coq Require Import Lia ZArith ZifyN ZifyBool.

(* newest-first view of a history: alternating, oldest event "up" *)
Inductive AltNF : list (N * bool) -> Prop :=
| AltNil : AltNF []
| AltOne t : AltNF [(t, true)]
| AltCons t b t' r : AltNF ((t', negb b) :: r) -> AltNF ((t, b) :: (t', negb b) :: r).
Definition head_up (l : list (N * bool)) : bool := match l with (_, b) :: _ => b | [] => false end.

Lemma alternates_app b l x :
  alternates b (l ++ [x]) = alternates b l && Bool.eqb x (if Nat.even (length l) then b else negb b).
Proof.
  revert b. induction l as [|y l IH]; intros b; cbn [app alternates length].
  - cbn. rewrite andb_true_r. reflexivity.
  - rewrite IH. rewrite <- andb_assoc. f_equal. f_equal.
    rewrite Nat.even_succ, <- Nat.negb_even. destruct (Nat.even (length l)), b; reflexivity.
Qed.

Lemma altnf_spec l : AltNF l ->
  alternates true (map snd (rev l)) = true /\ (l <> [] -> head_up l = negb (Nat.even (length l))).
Proof.
  induction 1 as [|t|t b t' r H [IH1 IH2]].
  - split; [reflexivity|congruence].
  - split; reflexivity.
  - specialize (IH2 ltac:(discriminate)). cbn [head_up length] in IH2.
    split.
    + change (rev ((t, b) :: (t', negb b) :: r)) with (rev ((t', negb b) :: r) ++ [(t, b)]).
      rewrite map_app. cbn [map snd]. rewrite alternates_app, IH1. rewrite map_length, rev_length. cbn [length andb].
      destruct (Nat.even (S (length r))), b; cbn in *; congruence.
    + intros _. cbn [head_up length]. rewrite Nat.even_succ, <- Nat.negb_even.
      destruct (Nat.even (S (length r))), b; cbn in *; congruence.
Qed.

(* the invariant of the specification's fold *)
Definition hist_ok (h : hist) : Prop :=
  AltNF (h_out h) /\ (head_up (h_out h) = match h_state h with Some _ => true | None => false end).

Lemma push_down t l : AltNF l -> head_up l = true -> AltNF ((t, false) :: l).
Proof. destruct l as [|[t' b'] r]; cbn; [discriminate|]. intros H1 H2. subst b'. apply (AltCons t false t' r). exact H1. Qed.
Lemma push_up t l : AltNF l -> head_up l = false -> AltNF ((t, true) :: l).
Proof. destruct l as [|[t' b'] r]; cbn; [intros; constructor|]. intros H1 H2. subst b'. apply (AltCons t true t' r). exact H1. Qed.

Ltac hist_fin H1 H2 Es :=
  split; cbn [h_out h_state]; [first [exact H1|apply push_down; [exact H1|rewrite H2, ?Es; reflexivity]
                                     |apply push_up; [exact H1|rewrite H2, ?Es; reflexivity]]
                              |first [reflexivity|rewrite H2, ?Es; reflexivity]].

Lemma expire_ok t h : hist_ok h -> hist_ok (expire_before t h).
Proof.
  intros [H1 H2]. unfold expire_before. destruct (h_state h) as [[d|]|] eqn:Es.
  - destruct (d <? t); [hist_fin H1 H2 Es|]. destruct (d =? t); hist_fin H1 H2 Es.
  - hist_fin H1 H2 Es.
  - hist_fin H1 H2 Es.
Qed.

Lemma touch_ok t x h : hist_ok h -> hist_ok (apply_touch t x h).
Proof.
  intros H. apply (expire_ok t) in H. unfold apply_touch. generalize dependent (expire_before t h). clear h.
  intros h' [H1 H2]. destruct x as [ttl na acc|]; destruct (h_state h') as [s|] eqn:Es.
  - hist_fin H1 H2 Es.
  - destruct (na && negb acc); hist_fin H1 H2 Es.
  - hist_fin H1 H2 Es.
  - hist_fin H1 H2 Es.
Qed.

Lemma fold_ok touches h : hist_ok h ->
  hist_ok (fold_left (fun acc p => apply_touch (fst p) (snd p) acc) touches h).
Proof. revert h. induction touches as [|p r IH]; intros h H; [exact H|]. cbn [fold_left]. apply IH. apply touch_ok. exact H. Qed.

(* C05/C06: whatever the inputs, the prescribed history alternates up, down, up, ... beginning with up *)
Theorem expected_alternates touches t_end e :
  expected_history touches t_end = Some e -> alternates true (map snd e) = true.
Proof.
  unfold expected_history. set (h := fold_left _ touches _).
  assert (H0 : hist_ok (mkHist None [] false)) by (split; [constructor|reflexivity]).
  pose proof (expire_ok (t_end + 1) _ (fold_ok touches _ H0)) as [H1 _]. fold h in H1.
  destruct (h_ambiguous _); [discriminate|]. intros E; injection E as <-.
  apply (altnf_spec _ H1).
Qed.

Ltac hsimp :=
  unfold expected_history, apply_touch, expire_before, deadline_of;
  cbn [fold_left fst snd h_state h_out h_ambiguous rev app andb negb].
Ltac hsolve :=
  hsimp; rewrite ?andb_false_r;
  repeat (match goal with
          | |- context [?a <? ?b] => destruct (N.ltb_spec a b); try lia
          | |- context [?a =? ?b] => destruct (N.eqb_spec a b); try lia; try contradiction
          end; hsimp);
  try reflexivity.

(* C09: one entry with a finite TTL, never touched again: exactly one expiry, exactly at t0 + ttl *)
Theorem expiry_exactly_once_on_time t0 ttl na t_end :
  ttl <> TTL_FOREVER -> t0 + sec ttl <= t_end ->
  expected_history [(t0, TUp ttl na true)] t_end = Some [(t0, true); (t0 + sec ttl, false)].
Proof. intros Hf He. hsolve. Qed.

(* ... and never early: before the deadline nothing is reported *)
Theorem no_expiry_before_deadline t0 ttl na t_end :
  ttl <> TTL_FOREVER -> t_end + 1 < t0 + sec ttl ->
  expected_history [(t0, TUp ttl na true)] t_end = Some [(t0, true)].
Proof. intros Hf He. hsolve. Qed.

(* the infinite TTL never expires, however long the run *)
Theorem forever_never_expires t0 na t_end :
  expected_history [(t0, TUp TTL_FOREVER na true)] t_end = Some [(t0, true)].
Proof. hsolve. Qed.

(* a refresh before the deadline replaces the deadline (also by a shorter or the infinite one) *)
Theorem refresh_replaces_deadline t0 ttl1 t1 ttl2 na t_end :
  ttl1 <> TTL_FOREVER -> t0 <= t1 -> t1 < t0 + sec ttl1 -> ttl2 <> TTL_FOREVER -> t1 + sec ttl2 <= t_end ->
  expected_history [(t0, TUp ttl1 na true); (t1, TUp ttl2 na true)] t_end
  = Some [(t0, true); (t1 + sec ttl2, false)].
Proof. intros H1 H01 Hd H2 He. hsolve. Qed.

Theorem refresh_by_forever_cancels_expiry t0 ttl1 t1 na t_end :
  ttl1 <> TTL_FOREVER -> t0 <= t1 -> t1 < t0 + sec ttl1 ->
  expected_history [(t0, TUp ttl1 na true); (t1, TUp TTL_FOREVER na true)] t_end = Some [(t0, true)].
Proof. intros H1 H01 Hd. hsolve. Qed.

(* an entry removed before its deadline (stop / reboot / connection loss / service stop) is reported once,
   at the removal, and never expires afterwards *)
Theorem removed_is_silent t0 ttl t1 na t_end :
  ttl <> TTL_FOREVER -> t0 <= t1 -> t1 < t0 + sec ttl ->
  expected_history [(t0, TUp ttl na true); (t1, TDown)] t_end = Some [(t0, true); (t1, false)].
Proof. intros H1 H01 Hd. hsolve. Qed.

(* a rejected new subscription is neither recorded nor ever reported *)
Theorem rejected_not_recorded t0 ttl t_end :
  expected_history [(t0, TUp ttl true false)] t_end = Some [].
Proof. reflexivity. Qed.

(* reboot evidence and a renewed offer in the same message: "down" strictly before "up", at the same instant *)
Theorem reboot_then_offer_same_instant t0 t1 na t_end :
  t0 < t1 ->
  expected_history [(t0, TUp TTL_FOREVER na true); (t1, TDown); (t1, TUp TTL_FOREVER na true)] t_end
  = Some [(t0, true); (t1, false); (t1, true)].
Proof. intros H. hsolve. Qed.
