(* C19: wildcard laws of the matching functions. *)
From PS Require Import Lib.Base Generated.Consts Model.SdTypes Model.Config Spec.C19Spec.
From Coq Require Import Lia.

Ltac eqbs :=
  repeat match goal with
         | |- context [N.eqb ?a ?b] => destruct (N.eqb_spec a b); subst; cbn [negb andb orb]
         end; try reflexivity; try congruence; try lia.

Lemma offer_exact s e : e_type e = ET_OfferService -> matches_offer s e = Ok (spec_offer s e).
Proof.
  intros Ht. unfold matches_offer, spec_offer, field_ok, W_IID, W_MAJ, W_MIN. rewrite Ht.
  change (ET_OfferService =? ET_OfferService) with true. cbn [negb].
  eqbs.
Qed.

Lemma offer_wrong_type s e : e_type e <> ET_OfferService -> matches_offer s e = Err EValue.
Proof.
  intros Ht. unfold matches_offer. destruct (N.eqb_spec (e_type e) ET_OfferService); [contradiction|reflexivity].
Qed.

Lemma find_exact s e : e_type e = ET_FindService -> matches_find s e = Ok (spec_find s e).
Proof.
  intros Ht. unfold matches_find, spec_find, field_ok, W_IID, W_MAJ, W_MIN. rewrite Ht.
  change (ET_FindService =? ET_FindService) with true. cbn [negb].
  eqbs.
Qed.

Lemma find_wrong_type s e : e_type e <> ET_FindService -> matches_find s e = Err EValue.
Proof.
  intros Ht. unfold matches_find. destruct (N.eqb_spec (e_type e) ET_FindService); [contradiction|reflexivity].
Qed.

Lemma subscribe_exact s e : e_type e = ET_Subscribe -> matches_subscribe s e = Ok (spec_subscribe s e).
Proof.
  intros Ht. unfold matches_subscribe, spec_subscribe, field_ok, W_IID, W_MAJ. rewrite Ht.
  change (ET_Subscribe =? ET_Subscribe) with true. cbn [negb].
  eqbs.
Qed.

Lemma subscribe_wrong_type s e : e_type e <> ET_Subscribe -> matches_subscribe s e = Err EValue.
Proof.
  intros Ht. unfold matches_subscribe. destruct (N.eqb_spec (e_type e) ET_Subscribe); [contradiction|reflexivity].
Qed.

Lemma service_exact a b : matches_service a b = spec_service a b.
Proof.
  unfold matches_service, spec_service, field_ok2, W_IID, W_MAJ, W_MIN. eqbs.
Qed.

Lemma service_sym a b : matches_service a b = matches_service b a.
Proof.
  rewrite !service_exact. unfold spec_service, field_ok2. eqbs.
Qed.

(* replacing a filter field by its wildcard never loses a match *)
Definition widen (s : service) (wi wj wm : bool) : service :=
  mkService (s_sid s) (if wi then 65535 else s_iid s) (if wj then 255 else s_maj s)
            (if wm then 4294967295 else s_min s) (s_opts1 s) (s_opts2 s) (s_egs s).

Lemma offer_monotone s e wi wj wm :
  matches_offer s e = Ok true -> matches_offer (widen s wi wj wm) e = Ok true.
Proof.
  destruct (N.eqb_spec (e_type e) ET_OfferService) as [Ht|Ht].
  - rewrite !offer_exact by exact Ht. unfold spec_offer, field_ok, widen; cbn [s_sid s_iid s_maj s_min].
    destruct wi, wj, wm; eqbs.
  - rewrite offer_wrong_type by exact Ht. discriminate.
Qed.

Lemma subscribe_monotone s e wi wj wm :
  matches_subscribe s e = Ok true -> matches_subscribe (widen s wi wj wm) e = Ok true.
Proof.
  destruct (N.eqb_spec (e_type e) ET_Subscribe) as [Ht|Ht].
  - rewrite !subscribe_exact by exact Ht.
    unfold spec_subscribe, field_ok, widen; cbn [s_sid s_iid s_maj s_min s_egs].
    destruct (memN _ _); destruct wi, wj, wm; eqbs.
  - rewrite subscribe_wrong_type by exact Ht. discriminate.
Qed.

Lemma service_monotone a b wi wj wm :
  matches_service a b = true -> matches_service (widen a wi wj wm) b = true.
Proof.
  rewrite !service_exact. unfold spec_service, field_ok2, widen; cbn [s_sid s_iid s_maj s_min].
  destruct wi, wj, wm; eqbs.
Qed.

(* the same for the entry side of a find request *)
Definition widen_entry (e : sdentry) (wi wj wm : bool) : sdentry :=
  mkEntry (e_type e) (e_sid e) (if wi then 65535 else e_iid e) (if wj then 255 else e_maj e)
          (e_ttl e) (if wm then 4294967295 else e_val e) (e_opts1 e) (e_opts2 e) (e_idx e).

Lemma find_monotone s e wi wj wm :
  matches_find s e = Ok true -> matches_find s (widen_entry e wi wj wm) = Ok true.
Proof.
  destruct (N.eqb_spec (e_type e) ET_FindService) as [Ht|Ht].
  - rewrite !find_exact by (try exact Ht; cbn; exact Ht).
    unfold spec_find, field_ok, widen_entry; cbn [e_sid e_iid e_maj e_val].
    destruct wi, wj, wm; eqbs.
  - rewrite find_wrong_type by exact Ht. discriminate.
Qed.

Lemma find_offer_dual s f t1 t2 :
  matches_find s (create_find_entry f t1) = matches_offer f (create_offer_entry s t2).
Proof.
  rewrite find_exact by reflexivity. rewrite offer_exact by reflexivity.
  unfold spec_find, spec_offer, field_ok, create_find_entry, create_offer_entry;
    cbn [e_sid e_iid e_maj e_val]. eqbs.
Qed.

Lemma offer_roundtrip s ttl :
  from_offer_entry (create_offer_entry s ttl)
  = Ok (mkService (s_sid s) (s_iid s) (s_maj s) (s_min s) (s_opts1 s) (s_opts2 s) []).
Proof. reflexivity. Qed.

Lemma offer_entry_fields s ttl :
  let e := create_offer_entry s ttl in
  e_type e = ET_OfferService /\ e_sid e = s_sid s /\ e_iid e = s_iid s /\ e_maj e = s_maj s
  /\ e_val e = s_min s /\ e_ttl e = ttl /\ e_opts1 e = s_opts1 s /\ e_opts2 e = s_opts2 s
  /\ e_idx e = None.
Proof. cbn. repeat split. Qed.

Lemma for_service_spec g s :
  for_service g s =
  if (g_sid g =? s_sid s) && field_ok 65535 (g_iid g) (s_iid s) && field_ok 255 (g_maj g) (s_maj s)
  then Some (mkEg (g_sid g) (s_iid s) (s_maj s) (g_id g) (g_sock g) (g_proto g)) else None.
Proof.
  unfold for_service. rewrite offer_exact by reflexivity.
  unfold spec_offer, field_ok, as_service, create_offer_entry; cbn [s_sid s_iid s_maj s_min e_sid e_iid e_maj e_val].
  change (WILD_MINOR =? 4294967295) with true. cbn [orb]. rewrite !andb_true_r.
  destruct (_ && _ && _); reflexivity.
Qed.

Lemma for_service_iff g s g' :
  for_service g s = Some g' <->
  matches_offer (as_service g) (create_offer_entry s 3) = Ok true
  /\ g' = mkEg (g_sid g) (s_iid s) (s_maj s) (g_id g) (g_sock g) (g_proto g).
Proof.
  unfold for_service. destruct (matches_offer _ _) as [[|]|]; split; intros H.
  - inversion H. split; reflexivity.
  - destruct H as [_ ->]. reflexivity.
  - discriminate.
  - destruct H as [H _]. discriminate.
  - discriminate.
  - destruct H as [H _]. discriminate.
Qed.

(* the bit-field reading used by matches_subscribe agrees with create_subscribe_entry *)
Lemma subscribe_entry_egid g ttl c :
  g_id g < 65536 -> N.land (e_val (create_subscribe_entry g ttl c)) 65535 = g_id g.
Proof.
  intros Hg. cbn [create_subscribe_entry e_val].
  change 65535 with (N.ones 16). rewrite N.land_ones.
  rewrite N.shiftl_mul_pow2.
  apply N.bits_inj. intros n.
  rewrite <- (N.land_ones _ 16). rewrite N.land_spec, N.lor_spec.
  rewrite <- N.shiftl_mul_pow2.
  destruct (N.ltb_spec n 16) as [Hn|Hn].
  - rewrite N.shiftl_spec_low by exact Hn. rewrite N.ones_spec_low by exact Hn.
    rewrite orb_false_l, andb_true_r. reflexivity.
  - rewrite N.ones_spec_high by exact Hn. rewrite andb_false_r.
    symmetry. destruct (N.eq_dec (g_id g) 0) as [->|Hz]; [apply N.bits_0|].
    apply N.bits_above_log2. apply N.log2_lt_pow2; [lia|].
    eapply N.lt_le_trans; [exact Hg|]. change 65536 with (2^16). apply N.pow_le_mono_r; lia.
Qed.

Lemma subscribe_own_entry s g ttl c :
  g_id g < 65536 ->
  matches_subscribe s (create_subscribe_entry g ttl c)
  = Ok ((s_sid s =? g_sid g) && field_ok 65535 (s_iid s) (g_iid g)
        && field_ok 255 (s_maj s) (g_maj g) && memN (g_id g) (s_egs s)).
Proof.
  intros Hg. rewrite subscribe_exact by reflexivity. unfold spec_subscribe.
  rewrite subscribe_entry_egid by exact Hg. reflexivity.
Qed.

(* non-vacuity: concrete instances *)
Example ex_match :
  matches_offer (mkService 7 65535 255 4294967295 [] [] [])
                (create_offer_entry (mkService 7 3 1 0 [] [] [5]) 3) = Ok true.
Proof. reflexivity. Qed.
Example ex_nomatch :
  matches_offer (mkService 7 65534 255 4294967295 [] [] [])
                (create_offer_entry (mkService 7 3 1 0 [] [] [5]) 3) = Ok false.
Proof. reflexivity. Qed.
