(* The whole-run theorems of one stack, for BOTH stacks of the two-stack composition in every state of every run:
   C15 conservation / C08 session ids / wire = history (Kinv), C06 truthful alternating server history (S6),
   C05 truthful alternating discovery history (F5) - under graceful stop / start, crash, restart and network faults. *)
From Coq Require Import Lia.
From PS Require Import Lib.Base Generated.Consts Model.SdTypes Model.Config Model.Session Model.StackTypes Model.Stack
  Model.StackIO Model.System Proofs.WorldInv Proofs.WorldInv2 Proofs.WorldLog Proofs.WorldSubs Proofs.FoundLog Proofs.Same5 Proofs.WorldFound
  Proofs.SystemProofs Proofs.SystemInv.

Definition ALL (w : world) : Prop := GGK [] w /\ S6 w /\ F5 w.

Lemma ALL_iteration arrivals rv w : all_notexp arrivals -> ALL w -> ALL (iteration arrivals rv w).
Proof.
  intros Ha (K & S & F). split; [apply GGK_iteration; assumption|]. split.
  - apply (proj2 (GGS_iteration arrivals rv w Ha (conj (proj1 K) S))).
  - apply (proj2 (GGF_iteration arrivals rv w Ha (conj (proj1 K) F))).
Qed.
Lemma ALL_set_now t w : ALL w -> ALL (set_now t w).
Proof.
  intros ([[A [B C]] D] & S & F). split; [split; [split; [apply GP_set_now; exact A|split; [exact B|exact C]]|apply K_set_now; exact D]|]. split.
  - eapply S6_sx; [|exact S]. apply sx_of; reflexivity.
  - eapply F5_fx; [|exact F]. apply fx_of; reflexivity.
Qed.
Lemma ALL_fresh t nd : fresh_insts (nd_insts nd) -> ALL (fresh_world t nd).
Proof.
  intros Hf. unfold fresh_world. split; [split; [apply GG_empty; exact Hf|apply K_empty]|]. split; [apply S6_empty; exact Hf|apply F5_empty].
Qed.

Theorem sys_reachable_all sc : fresh_insts (nd_insts (ss_a sc)) -> fresh_insts (nd_insts (ss_b sc)) ->
  sysI ALL (fst (sys_run_scenario sc)).
Proof. apply (sys_reachable_I ALL ALL_iteration ALL_set_now ALL_fresh). Qed.

(* spelled out for the stack living at either address at the end of the run *)
Theorem sys_whole_run_theorems sc w : fresh_insts (nd_insts (ss_a sc)) -> fresh_insts (nd_insts (ss_b sc)) ->
  (sy_a (fst (sys_run_scenario sc)) = Some w \/ sy_b (fst (sys_run_scenario sc)) = Some w) ->
  Kinv w /\ S6 w /\ F5 w.
Proof.
  intros Ha Hb Hw. destruct (sys_reachable_all sc Ha Hb) as [Ia Ib].
  destruct Hw as [Hw|Hw]; [destruct (Ia w Hw) as (K & S & F)|destruct (Ib w Hw) as (K & S & F)]; (split; [exact (proj2 K)|split; assumption]).
Qed.

Theorem sys_listener_histories sc w : fresh_insts (nd_insts (ss_a sc)) -> fresh_insts (nd_insts (ss_b sc)) ->
  (sy_a (fst (sys_run_scenario sc)) = Some w \/ sy_b (fst (sys_run_scenario sc)) = Some w) ->
  ((forall i a k, sub_live i a k (out w) = amem key_eqb (KSub k) (inner a (get_store (SSubs i) w))) /\ alt_ok (out w) = true)
  /\ (forall id, tainted id (glog w) = false ->
        (forall a k, up_l id a k (out w) = stored a k w && regm id k w) /\ altl id (out w) = true).
Proof.
  intros Ha Hb Hw. destruct (sys_whole_run_theorems sc w Ha Hb Hw) as (_ & [L A] & [_ _ U Al]).
  split; [split; assumption|]. intros id Hid. split; [intros a k; apply U, Hid|apply Al, Hid].
Qed.

(* ------------------------------------------------------------------ the time-dependent invariants, while every settle completes *)
From PS Require Import Proofs.WorldTime Proofs.WorldDeadline Proofs.WorldLogTime Proofs.WorldExpiry Proofs.SystemInvT.

Definition TIMED (w : world) : Prop := GGT [] w /\ GGR [] w.

Lemma TIMED_iteration arrivals rv w : all_notexp arrivals -> TIMED w -> TIMED (iteration arrivals rv w).
Proof. intros Ha [T R]. split; [apply GGT_iteration|apply GGR_iteration]; assumption. Qed.
Lemma rdy_nil w : ready w = [] -> rdy w = [].
Proof. intros H. unfold rdy. rewrite H. reflexivity. Qed.
Lemma TIMED_set_now t w : TIMED w -> ready w = [] -> now w <= t ->
  (forall tm, In tm (timers w) -> memN (snd (fst tm)) (cancelled w) = false -> t <= fst (fst tm)) -> TIMED (set_now t w).
Proof.
  intros [([[A [B C]] D] & J & L & T) ([A' [B' C']] & L' & R)] Hr Hn Ht.
  assert (Hl : Tlate (set_now t w)) by (intros tm Hin Hc; cbn [now set_now]; apply Ht; assumption).
  split.
  - split; [split; [split; [apply GP_set_now; exact A|split; [exact B|exact C]]|apply K_set_now; exact D]|].
    split; [apply Jc_set_now; assumption|]. split; [exact Hl|apply T_set_now; [apply rdy_nil, Hr|exact T]].
  - split; [split; [apply GP_set_now; exact A'|split; [exact B'|exact C']]|]. split; [exact Hl|apply R_set_now; [apply rdy_nil, Hr|exact R]].
Qed.
Lemma TIMED_fresh t nd : fresh_insts (nd_insts nd) -> TIMED (fresh_world t nd).
Proof.
  intros Hf. unfold fresh_world. split.
  - split; [split; [apply GG_empty; exact Hf|apply K_empty]|]. split; [intros x []|]. split; [intros x []|apply T_empty].
  - split; [apply GG_empty; exact Hf|]. split; [intros x []|apply R_empty'; exact Hf].
Qed.

(* C15 in time and C09 on time for both stacks of the composition, in every state of every run whose iteration budgets
   sufficed (sy_ok); every stack is then quiet between the instants and its clock is the composition's *)
Theorem sys_timed sc w : fresh_insts (nd_insts (ss_a sc)) -> fresh_insts (nd_insts (ss_b sc)) ->
  sy_ok (fst (sys_run_scenario sc)) = true ->
  (sy_a (fst (sys_run_scenario sc)) = Some w \/ sy_b (fst (sys_run_scenario sc)) = Some w) ->
  GGT [] w /\ GGR [] w /\ ready w = [] /\ now w = sy_now (fst (sys_run_scenario sc)).
Proof.
  intros Ha Hb Hok Hw.
  destruct (sys_reachable_T TIMED TIMED_iteration TIMED_set_now TIMED_fresh sc Ha Hb Hok) as [Ia Ib].
  destruct Hw as [Hw|Hw]; [destruct (Ia w Hw) as ([T R] & Hr & _ & Hn)|destruct (Ib w Hw) as ([T R] & Hr & _ & Hn)]; (split; [exact T|split; [exact R|split; [exact Hr|exact Hn]]]).
Qed.
