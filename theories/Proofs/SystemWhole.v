(* The whole-run theorems of one stack, for BOTH stacks of the two-stack composition in every state of every run:
   C15 conservation / C08 session ids / wire = history (Kinv), C06 truthful alternating server history (S6),
   C05 truthful alternating discovery history (F5) - under graceful stop / start, crash, restart and network faults. *)
From Coq Require Import Lia.
From PS Require Import Lib.Base Generated.Consts Model.SdTypes Model.Config Model.Session Model.StackTypes Model.Stack
  Model.StackIO Model.System Proofs.WorldInv Proofs.WorldInv2 Proofs.WorldLog Proofs.WorldSubs Proofs.FoundLog Proofs.Same5 Proofs.WorldFound
  Proofs.SystemProofs Proofs.SystemInv.

Definition ALL (w : world) : Prop := GGK [] w /\ S6 w /\ F5 w.

Lemma ALL_iteration arrivals rv w : all_notexp arrivals -> ALL w -> ALL (iteration arrivals rv w).
Proof.
  intros Ha (K & S & F). split; [apply GGK_iteration; assumption|]. split.
  - apply (proj2 (GGS_iteration arrivals rv w Ha (conj (proj1 K) S))).
  - apply (proj2 (GGF_iteration arrivals rv w Ha (conj (proj1 K) F))).
Qed.
Lemma ALL_set_now t w : ALL w -> ALL (set_now t w).
Proof.
  intros ([[A [B C]] D] & S & F). split; [split; [split; [apply GP_set_now; exact A|split; [exact B|exact C]]|apply K_set_now; exact D]|]. split.
  - eapply S6_sx; [|exact S]. apply sx_of; reflexivity.
  - eapply F5_fx; [|exact F]. apply fx_of; reflexivity.
Qed.
Lemma ALL_fresh t nd : fresh_insts (nd_insts nd) -> ALL (fresh_world t nd).
Proof.
  intros Hf. unfold fresh_world. split; [split; [apply GG_empty; exact Hf|apply K_empty]|]. split; [apply S6_empty; exact Hf|apply F5_empty].
Qed.

Theorem sys_reachable_all sc : fresh_insts (nd_insts (ss_a sc)) -> fresh_insts (nd_insts (ss_b sc)) ->
  sysI ALL (fst (sys_run_scenario sc)).
Proof. apply (sys_reachable_I ALL ALL_iteration ALL_set_now ALL_fresh). Qed.

(* spelled out for the stack living at either address at the end of the run *)
Theorem sys_whole_run_theorems sc w : fresh_insts (nd_insts (ss_a sc)) -> fresh_insts (nd_insts (ss_b sc)) ->
  (sy_a (fst (sys_run_scenario sc)) = Some w \/ sy_b (fst (sys_run_scenario sc)) = Some w) ->
  Kinv w /\ S6 w /\ F5 w.
Proof.
  intros Ha Hb Hw. destruct (sys_reachable_all sc Ha Hb) as [Ia Ib].
  destruct Hw as [Hw|Hw]; [destruct (Ia w Hw) as (K & S & F)|destruct (Ib w Hw) as (K & S & F)]; (split; [exact (proj2 K)|split; assumption]).
Qed.

Theorem sys_listener_histories sc w : fresh_insts (nd_insts (ss_a sc)) -> fresh_insts (nd_insts (ss_b sc)) ->
  (sy_a (fst (sys_run_scenario sc)) = Some w \/ sy_b (fst (sys_run_scenario sc)) = Some w) ->
  ((forall i a k, sub_live i a k (out w) = amem key_eqb (KSub k) (inner a (get_store (SSubs i) w))) /\ alt_ok (out w) = true)
  /\ (forall id, tainted id (glog w) = false ->
        (forall a k, up_l id a k (out w) = stored a k w && regm id k w) /\ altl id (out w) = true).
Proof.
  intros Ha Hb Hw. destruct (sys_whole_run_theorems sc w Ha Hb Hw) as (_ & [L A] & [_ _ U Al]).
  split; [split; assumption|]. intros id Hid. split; [intros a k; apply U, Hid|apply Al, Hid].
Qed.
