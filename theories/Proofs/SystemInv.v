(* The whole-run invariants of ONE stack hold for BOTH stacks in every state of every run of the two-stack composition
   (Model/System.v): after any sequence of graceful stop / start, crash and restart of either side and any loss,
   duplication or reordering of datagrams.  Generic in the invariant: it has to hold in a fresh world, to survive a
   move of the clock, and to be kept by one loop iteration whose arrivals are application calls and datagrams. *)
From Coq Require Import Lia.
From PS Require Import Lib.Base Generated.Consts Model.SdTypes Model.Config Model.Session Model.StackTypes Model.Stack
  Model.StackIO Model.System Proofs.WorldInv Proofs.WorldInv2 Proofs.SystemProofs.

Section SysInv.
  Variable I : world -> Prop.
  Hypothesis I_iteration : forall arrivals rv w, all_notexp arrivals -> I w -> I (iteration arrivals rv w).
  Hypothesis I_set_now : forall t w, I w -> I (set_now t w).
  Hypothesis I_fresh : forall t nd, fresh_insts (nd_insts nd) -> I (fresh_world t nd).

  Lemma I_settle : forall fuel arr rv w, all_notexp arr -> I w -> I (fst (settle fuel arr rv w)).
  Proof.
    induction fuel as [|f IH]; intros arr rv w Ha Hg; cbn [settle fst]; [exact Hg|].
    destruct (ready w) as [|x r] eqn:Er; [destruct arr as [|a ar]; [destruct (due_now w)|]|];
      try (apply IH; [constructor|apply I_iteration; assumption]). exact Hg.
  Qed.

  Definition okI (w : option world) : Prop := forall x, w = Some x -> I x.

  Lemma I_node_step t b nd fuel rv ctls arrived w tr : fresh_insts (nd_insts nd) -> okI w ->
    okI (fst (fst (fst (node_step t b nd fuel rv ctls arrived w tr)))).
  Proof.
    intros Hf Hw. unfold node_step.
    set (acc0 := (w, tr, @nil handle)).
    assert (Hfold : forall l acc, okI (fst (fst acc)) -> all_notexp (snd acc) ->
              okI (fst (fst (fold_left (fun acc c => let '(w0, tr0, ap) := acc in
                       match c with
                       | CCrash => (None, match w0 with Some x => out x ++ tr0 | None => tr0 end, [])
                       | CRestart => match w0 with Some _ => (w0, tr0, ap) | None => (Some (fresh_world t nd), tr0, map HApi (nd_init nd)) end
                       | CApi a => (w0, tr0, ap ++ [HApi a])
                       end) l acc)))
              /\ all_notexp (snd (fold_left (fun acc c => let '(w0, tr0, ap) := acc in
                       match c with
                       | CCrash => (None, match w0 with Some x => out x ++ tr0 | None => tr0 end, [])
                       | CRestart => match w0 with Some _ => (w0, tr0, ap) | None => (Some (fresh_world t nd), tr0, map HApi (nd_init nd)) end
                       | CApi a => (w0, tr0, ap ++ [HApi a])
                       end) l acc))).
    { induction l as [|c l IH]; intros [[w0 tr0] ap] Ha Hn; cbn [fold_left]; [split; assumption|]. cbn [fst snd] in Ha, Hn. apply IH.
      - destruct c as [a| |]; cbn [fst]; [exact Ha|intros x Hx; discriminate|].
        destruct w0; cbn [fst]; [exact Ha|]. intros x Hx. injection Hx as <-. apply I_fresh, Hf.
      - destruct c as [a| |]; cbn [snd]; [apply Forall_app; split; [exact Hn|constructor; [reflexivity|constructor]]|constructor|].
        destruct w0; cbn [snd]; [exact Hn|]. apply Forall_forall. intros h Hh. apply in_map_iff in Hh. destruct Hh as (c & <- & _). reflexivity. }
    destruct (Hfold ctls acc0 Hw (Forall_nil _)) as [Hf1 Hf2].
    destruct (fold_left _ ctls acc0) as [[w1 tr1] apis]. cbn [fst snd] in Hf1, Hf2.
    destruct w1 as [x|]; [|cbn [fst]; intros y Hy; discriminate].
    assert (Hx0 : I (set_now (N.max t (now x)) x)) by (apply I_set_now; apply Hf1; reflexivity).
    assert (Hhs : all_notexp (apis ++ map (fun d => HDatagram (dg_from d) (dg_mc d) (dg_data d)) arrived)).
    { apply Forall_app. split; [exact Hf2|]. apply Forall_forall. intros h Hh. apply in_map_iff in Hh. destruct Hh as (d & <- & _). reflexivity. }
    set (hs := apis ++ _) in *. clearbody hs.
    assert (Hset : okI (fst (fst (fst (let '(x1, ok) := settle fuel hs rv (set_now (N.max t (now x)) x) in
                                                 (Some x1, tr1, new_sends (out (set_now (N.max t (now x)) x)) (out x1), ok)))))).
    { pose proof (I_settle fuel hs rv _ Hhs Hx0) as Hq. destruct (settle fuel hs rv (set_now (N.max t (now x)) x)) as [x1 ok].
      cbn [fst] in *. intros y Hy. injection Hy as <-. exact Hq. }
    destruct hs as [|h0 hs']; [destruct (ready (set_now (N.max t (now x)) x)); [destruct (due_now (set_now (N.max t (now x)) x))|]|];
      try apply Hset.
    cbn [fst]. intros y Hy. injection Hy as <-. exact Hx0.
  Qed.

  Definition sysI (s : sys) : Prop := okI (sy_a s) /\ okI (sy_b s).

  Theorem sys_run_I sc : fresh_insts (nd_insts (ss_a sc)) -> fresh_insts (nd_insts (ss_b sc)) ->
    forall fuel evs s, sysI s -> sysI (fst (sys_run fuel sc evs s)).
  Proof.
    intros Ha Hb. induction fuel as [|f IH]; intros evs s Hs; cbn [sys_run fst]; [exact Hs|].
    destruct (next_instant sc evs s) as [t0|]; [|exact Hs].
    destruct (ss_end sc <? N.max t0 (sy_now s)); [exact Hs|]. cbv zeta.
    destruct Hs as [Hsa Hsb].
    match goal with |- context [node_step ?t false ?nd ?fu ?rv ?c ?ar (sy_a s) ?tr] =>
      pose proof (I_node_step t false nd fu rv c ar (sy_a s) tr Ha Hsa) as Ka;
      destruct (node_step t false nd fu rv c ar (sy_a s) tr) as [[[wa tra] sa] oka] end.
    match goal with |- context [node_step ?t true ?nd ?fu ?rv ?c ?ar (sy_b s) ?tr] =>
      pose proof (I_node_step t true nd fu rv c ar (sy_b s) tr Hb Hsb) as Kb;
      destruct (node_step t true nd fu rv c ar (sy_b s) tr) as [[[wb trb] sb] okb] end.
    cbn [fst] in Ka, Kb. apply IH. unfold sysI.
    match goal with |- okI (sy_a (enqueue ?t ?l ?fe ?fr ?to ?sd ?ot ?s2)) /\ _ =>
      destruct (enqueue_worlds t l fe fr to ot sd s2) as [-> ->] end.
    match goal with |- okI (sy_a (enqueue ?t ?l ?fe ?fr ?to ?sd ?ot ?s2)) /\ _ =>
      destruct (enqueue_worlds t l fe fr to ot sd s2) as [-> ->] end.
    cbn [sy_a sy_b]. split; assumption.
  Qed.

  Theorem sys_reachable_I sc : fresh_insts (nd_insts (ss_a sc)) -> fresh_insts (nd_insts (ss_b sc)) ->
    sysI (fst (sys_run_scenario sc)).
  Proof.
    intros Ha Hb. unfold sys_run_scenario. apply sys_run_I; [exact Ha|exact Hb|]. split; intros x Hx; discriminate.
  Qed.
End SysInv.
