(* Boolean equalities of the data types decide Leibniz equality. *)
From PS Require Import Lib.Base Model.SdTypes.

Lemma list_eqb_eq {X} (eqb : X -> X -> bool) :
  (forall a b, eqb a b = true <-> a = b) -> forall a b, list_eqb eqb a b = true <-> a = b.
Proof.
  intros H. induction a as [|x a IH]; intros [|y b]; cbn [list_eqb]; try (split; [discriminate|congruence]).
  - tauto.
  - rewrite andb_true_iff, H, IH. split; [intros [-> ->]; reflexivity|intros E; inversion E; auto].
Qed.

Lemma opt_eqb_eq {X} (eqb : X -> X -> bool) :
  (forall a b, eqb a b = true <-> a = b) -> forall a b, opt_eqb eqb a b = true <-> a = b.
Proof.
  intros H [a|] [b|]; cbn [opt_eqb]; try (split; [discriminate|congruence]).
  - rewrite H. split; congruence.
  - tauto.
Qed.

Lemma listN_eqb_eq (a b : list N) : list_eqb N.eqb a b = true <-> a = b.
Proof. apply list_eqb_eq. apply N.eqb_eq. Qed.

Lemma cfg_eqb_eq a b : cfg_eqb a b = true <-> a = b.
Proof.
  destruct a as [k1 v1], b as [k2 v2]. unfold cfg_eqb. cbn [fst snd].
  rewrite andb_true_iff, listN_eqb_eq, (opt_eqb_eq _ listN_eqb_eq).
  split; [intros [-> ->]; reflexivity|intros E; inversion E; auto].
Qed.

Lemma sdopt_eqb_eq a b : sdopt_eqb a b = true <-> a = b.
Proof.
  destruct a, b; cbn [sdopt_eqb]; try (split; [discriminate|congruence]).
  - rewrite andb_true_iff, N.eqb_eq, listN_eqb_eq. split; [intros [-> ->]; reflexivity|intros E; inversion E; auto].
  - rewrite andb_true_iff, !N.eqb_eq. split; [intros [-> ->]; reflexivity|intros E; inversion E; auto].
  - rewrite (list_eqb_eq _ cfg_eqb_eq). split; congruence.
  - rewrite !andb_true_iff, !N.eqb_eq, listN_eqb_eq.
    split; [intros [[[-> ->] ->] ->]; reflexivity|intros E; inversion E; auto].
Qed.

Lemma sdopts_eqb_eq (a b : list sdopt) : list_eqb sdopt_eqb a b = true <-> a = b.
Proof. apply list_eqb_eq. apply sdopt_eqb_eq. Qed.
