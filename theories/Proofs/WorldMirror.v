(* C14 over whole runs of the stack model: for every sequence of subscribe / stop-subscribe / start / stop calls of the
   subscriber at arbitrary times (also deferred INTO an instant), every tie order and every refresh configuration, a
   server that applies the Subscribe / StopSubscribe entries it was sent, in the order sent, holds - once the loop is
   idle - exactly the eventgroups currently requested from it while the subscriber runs and none after it was stopped;
   and at every moment in between the difference is exactly what the pending callbacks (deferred transmissions and
   wake-ups of the refresh task) are going to send.  Domain as in the property: no subscribe call for ids that are already
   requested from the same server (ghost event GDupSub). *)
From Coq Require Import Lia Permutation.
From PS Require Import Lib.Base Lib.Struct Generated.Consts Model.SdTypes Model.Config Model.Session Model.Someip Model.SdCodec
  Model.StackTypes Model.Stack Model.StackIO Proofs.AListFacts Proofs.QueueProofs Proofs.WorldInv Proofs.MirrorLog.

Definition live_task (t : N) (w : world) : bool :=
  match get_task t w with Some tk => negb (tk_done tk) && negb (tk_must_cancel tk) | None => false end.
Definition oneshot (w : world) : bool := match t_refresh (cfg w) with None => true | Some _ => false end.
Definition target (a : addr) (k : skey) (w : world) : bool := sub_alive w && req a k (sub_entries w).
(* what server a will hold for k once the handles x and then those in the ready queue have run *)
Definition futx (a : addr) (k : skey) (x : list handle) (w : world) : bool :=
  fst (futl a k (fun t => live_task t w) (req a k (sub_entries w)) (oneshot w) (x ++ map snd (ready w)) (holds a k (glog w), [])).

(* the calls C14 quantifies over *)
Fixpoint sub_api (c : api) : bool :=
  match c with
  | ApiSubscribe _ _ | ApiSubStart => true
  | ApiStopSubscribe _ _ s | ApiSubStop s => s
  | ApiSoon c' => sub_api c'
  | _ => false
  end.
Definition sub_h (h : handle) : bool :=
  match h with
  | HApi c => sub_api c
  | HSendStartSub _ _ | HSendStopSub _ _ | HTaskWake _ | HSleepDone _ => true
  | _ => false
  end.
Definition inert_b (h : handle) : bool :=
  match h with HSendStartSub _ _ | HSendStopSub _ _ | HTaskWake _ => false | _ => true end.

Record MIx (x : list handle) (w : world) : Prop := mkMI {
  mi_ttl : t_subscribe_ttl (cfg w) <> 0;
  mi_kind : forall t tk, get_task t w = Some tk -> tk_kind tk = TSub;
  mi_fresh : forall t tk, get_task t w = Some tk -> t < next_id w;
  mi_live : forall t, live_task t w = true -> sub_alive w = true /\ sub_task w = Some t;
  mi_hs : forall h, In h (x ++ map snd (ready w)) -> sub_h h = true /\ forall t, h = HTaskWake t -> t < next_id w;
  mi_otid : forall o h, In (o, h) (ready w) -> o <> None -> exists t, h = HSleepDone t;
  mi_timers : forall p, In p (timers w) -> exists t, snd p = HSleepDone t;
  mi_mirror : clean (glog w) = true -> nodupk (sub_entries w) = true /\ forall a k, futx a k x w = target a k w }.
Definition MI := MIx [].
Ltac spl := repeat match goal with |- _ /\ _ => split end.

(* ------------------------------------------------------------------ the symbolic execution, small facts *)
Lemma step_inert a k live rq one s h : inert_b h = true -> step_eff a k live rq one s h = s.
Proof. destruct h; cbn [inert_b step_eff]; intros H; try discriminate; reflexivity. Qed.
Lemma futl_inert a k live rq one : forall l s, forallb inert_b l = true -> futl a k live rq one l s = s.
Proof.
  unfold futl. induction l as [|h l IH]; intros s H; cbn [fold_left]; [reflexivity|]. cbn [forallb] in H. apply andb_true_iff in H.
  destruct H as [H1 H2]. rewrite step_inert by exact H1. apply IH, H2.
Qed.
Lemma step_wake_fst a k live rq one s t :
  fst (step_eff a k live rq one s (HTaskWake t)) = if live t && negb (memN t (snd s)) && rq then true else fst s.
Proof. cbn [step_eff]. destruct (live t && negb (memN t (snd s))); cbn [andb]; [destruct rq; reflexivity|reflexivity]. Qed.

(* ------------------------------------------------------------------ tasks *)
Lemma get_task_put t tk w t' : get_task t' (put_task t tk w) = if t' =? t then Some tk else get_task t' w.
Proof.
  unfold get_task, put_task. cbn [tasks set_tasks]. destruct (N.eqb_spec t' t) as [->|Hne].
  - apply (aget_aset_same N.eqb N.eqb_eq).
  - apply (aget_aset_other N.eqb N.eqb_eq). exact Hne.
Qed.
Lemma live_put t tk w t' : live_task t' (put_task t tk w) = if t' =? t then negb (tk_done tk) && negb (tk_must_cancel tk) else live_task t' w.
Proof. unfold live_task. rewrite get_task_put. destruct (t' =? t); reflexivity. Qed.

(* ------------------------------------------------------------------ transmissions *)
Lemma send_subscribe_proj ttl ep gs w :
  let w' := send_subscribe ttl ep gs w in
  cfg w' = cfg w /\ tasks w' = tasks w /\ next_id w' = next_id w /\ sub_alive w' = sub_alive w /\ sub_task w' = sub_task w
  /\ sub_entries w' = sub_entries w /\ ready w' = ready w /\ timers w' = timers w
  /\ clean (glog w') = clean (glog w)
  /\ forall a k, holds a k (glog w') = if hit a k ep gs then negb (ttl =? 0) else holds a k (glog w).
Proof.
  cbv zeta. unfold send_subscribe, send_sd. destruct gs as [|g gs].
  - cbn [map]. repeat split. intros a k. unfold hit. cbn [existsb]. rewrite andb_false_r. reflexivity.
  - set (es := map _ (g :: gs)). assert (Hes : es = map (fun g0 => create_subscribe_entry g0 ttl 0) (g :: gs)) by reflexivity.
    destruct es as [|e es']; [discriminate|]. destruct (assign_outgoing (sess w) (Some ep)) as [[f i] s'].
    assert (Hh : forall a k, holds a k ((now w, GSend (e :: es') (Some ep) f i) :: glog w) = if hit a k ep (g :: gs) then negb (ttl =? 0) else holds a k (glog w)).
    { intros a k. cbn [holds]. unfold dest_eqb, opt_eqb. unfold hit. destruct (ep =? a); cbn [andb]; [|reflexivity]. rewrite Hes. apply app_subscribe_entries. }
    destruct (sd_datagram (e :: es') f i); cbn; repeat split; exact Hh.
Qed.

(* ------------------------------------------------------------------ frame: a step that only adds inert handles and keeps the rest *)
Lemma MIx_frame x x' w w' :
  MIx x w -> cfg w' = cfg w -> tasks w' = tasks w -> next_id w <= next_id w' ->
  sub_alive w' = sub_alive w -> sub_task w' = sub_task w -> sub_entries w' = sub_entries w ->
  (exists l, x' ++ map snd (ready w') = (x ++ map snd (ready w)) ++ l /\ forallb inert_b l = true /\ forallb sub_h l = true) ->
  (forall o h, In (o, h) (ready w') -> o <> None -> exists t, h = HSleepDone t) ->
  (forall p, In p (timers w') -> exists t, snd p = HSleepDone t) ->
  (clean (glog w') = true -> clean (glog w) = true) -> (forall a k, holds a k (glog w') = holds a k (glog w)) ->
  MIx x' w'.
Proof.
  intros [A1 A2 A3 A4 A5 A6 A7 A8] Hc Ht Hn Ha Hs He [l [Hl [Hi Hsh]]] Ho Htm Hcl Hh.
  assert (Hg : forall t, get_task t w' = get_task t w) by (intros t; unfold get_task; rewrite Ht; reflexivity).
  assert (Hlv : forall t, live_task t w' = live_task t w) by (intros t; unfold live_task; rewrite Hg; reflexivity).
  constructor.
  - rewrite Hc. exact A1.
  - intros t tk H. rewrite Hg in H. eapply A2, H.
  - intros t tk H. rewrite Hg in H. apply A3 in H. lia.
  - intros t H. rewrite Hlv in H. rewrite Ha, Hs. apply A4, H.
  - intros h Hin. rewrite Hl in Hin. apply in_app_iff in Hin. destruct Hin as [Hin|Hin].
    + destruct (A5 h Hin) as [B1 B2]. split; [exact B1|]. intros t E. specialize (B2 t E). lia.
    + rewrite forallb_forall in Hsh, Hi. split; [apply Hsh, Hin|]. intros t E. subst h. specialize (Hi _ Hin). discriminate.
  - exact Ho.
  - exact Htm.
  - intros Hcw. destruct (A8 (Hcl Hcw)) as [B1 B2]. rewrite He. split; [exact B1|]. intros a k.
    unfold futx, target. rewrite Hl, He, Ha, Hh. unfold oneshot. rewrite Hc. rewrite futl_app.
    rewrite futl_inert by exact Hi. rewrite (futl_ext _ _ _ _ _ _ Hlv). exact (B2 a k).
Qed.

(* the head of the ready queue is popped and counts as pending while it runs *)
Lemma MI_pop w o h r : MI w -> ready w = (o, h) :: r -> MIx [h] (set_ready r w).
Proof.
  intros Hm Er. eapply (MIx_frame [] [h] w); try reflexivity; try exact Hm; try lia.
  - exists []. cbn [set_ready ready]. rewrite Er. cbn [map snd app]. rewrite app_nil_r. repeat split.
  - intros o' h' Hin. cbn [set_ready ready] in Hin. apply (mi_otid _ _ Hm). rewrite Er. right. exact Hin.
  - intros p Hin. apply (mi_timers _ _ Hm), Hin.
  - auto.
Qed.
(* an inert head may be dropped *)
Lemma MIx_drop h w : MIx [h] w -> inert_b h = true -> MI w.
Proof.
  intros [A1 A2 A3 A4 A5 A6 A7 A8] Hi. constructor; try assumption.
  - intros h' Hin. apply A5. right. exact Hin.
  - intros Hc. destruct (A8 Hc) as [B1 B2]. split; [exact B1|]. intros a k. rewrite <- B2. unfold futx. cbn [app].
    unfold futl. cbn [fold_left]. rewrite step_inert by exact Hi. reflexivity.
Qed.

(* a wake-up of task t is appended to the ready queue *)
Lemma MI_append_wake w t : MI w -> (exists tk, get_task t w = Some tk) -> MI (call_soon (HTaskWake t) w).
Proof.
  intros Hm [tk Htk]. destruct Hm as [A1 A2 A3 A4 A5 A6 A7 A8]. constructor; try assumption.
  - intros h Hin. cbn [app call_soon ready set_ready] in Hin. rewrite map_app in Hin. apply in_app_iff in Hin. destruct Hin as [Hin|[<-|[]]].
    + apply A5, Hin.
    + split; [reflexivity|]. intros t' E. inversion E; subst t'. eapply A3, Htk.
  - intros o h Hin Ho. cbn [call_soon ready set_ready] in Hin. apply in_app_iff in Hin. destruct Hin as [Hin|[E|[]]]; [eapply A6; eauto|]. inversion E; subst. congruence.
  - intros Hc. destruct (A8 Hc) as [B1 B2]. split; [exact B1|]. intros a k. specialize (B2 a k).
    set (w' := call_soon (HTaskWake t) w).
    assert (E1 : map snd (ready w') = map snd (ready w) ++ [HTaskWake t]) by (unfold w'; cbn [call_soon ready set_ready]; rewrite map_app; reflexivity).
    change (target a k w') with (target a k w). unfold futx in *. change (glog w') with (glog w). change (sub_entries w') with (sub_entries w).
    change (oneshot w') with (oneshot w). change (fun t0 => live_task t0 w') with (fun t0 => live_task t0 w).
    cbn [app] in *. rewrite E1, futl_app. unfold futl at 1. cbn [fold_left]. rewrite step_wake_fst.
    match goal with |- (if ?c then _ else _) = _ => destruct c eqn:Ec end; [|exact B2].
    apply andb_true_iff in Ec. destruct Ec as [Ec Hr]. apply andb_true_iff in Ec. destruct Ec as [Hl _].
    unfold target. rewrite Hr, (proj1 (A4 t Hl)). reflexivity.
Qed.

(* ------------------------------------------------------------------ deferred transmissions *)
Lemma MI_exec_send (start : bool) ep gs w :
  let h := if start then HSendStartSub ep gs else HSendStopSub ep gs in
  MIx [h] w -> MI (exec h w).
Proof.
  cbv zeta. intros Hm.
  set (ttl := if start then t_subscribe_ttl (cfg w) else 0).
  assert (Hex : exec (if start then HSendStartSub ep gs else HSendStopSub ep gs) w = send_subscribe ttl ep gs w) by (destruct start; reflexivity).
  rewrite Hex. destruct (send_subscribe_proj ttl ep gs w) as [P1 [P2 [P3 [P4 [P5 [P6 [P7 [P8 [P9 P10]]]]]]]]].
  set (w' := send_subscribe ttl ep gs w) in *.
  destruct Hm as [A1 A2 A3 A4 A5 A6 A7 A8].
  assert (Hg : forall t, get_task t w' = get_task t w) by (intros t; unfold get_task; rewrite P2; reflexivity).
  assert (Hlv : forall t, live_task t w' = live_task t w) by (intros t; unfold live_task; rewrite Hg; reflexivity).
  constructor.
  - rewrite P1. exact A1.
  - intros t tk H. rewrite Hg in H. eapply A2, H.
  - intros t tk H. rewrite Hg in H. rewrite P3. eapply A3, H.
  - intros t H. rewrite Hlv in H. rewrite P4, P5. apply A4, H.
  - intros h Hin. cbn [app] in Hin. rewrite P7 in Hin. rewrite P3. apply A5. right. exact Hin.
  - intros o h Hin. rewrite P7 in Hin. eapply A6, Hin.
  - intros p Hin. rewrite P8 in Hin. apply A7, Hin.
  - intros Hc. rewrite P9 in Hc. destruct (A8 Hc) as [B1 B2]. rewrite P6. split; [exact B1|]. intros a k.
    transitivity (target a k w); [|unfold target; rewrite P4, P6; reflexivity]. rewrite <- (B2 a k).
    unfold futx, oneshot. rewrite P1, P6, P7, P10. cbn [app]. rewrite (futl_ext _ _ _ _ _ _ Hlv).
    unfold futl at 2. cbn [fold_left]. f_equal. f_equal.
    destruct start; cbn [step_eff fst snd]; unfold ttl; [|reflexivity].
    destruct (hit a k ep gs); [|reflexivity]. apply N.eqb_neq in A1. rewrite A1. reflexivity.
Qed.

(* ------------------------------------------------------------------ the refresh task *)
Lemma round_proj : forall (G : list (addr * list eventgroup)) w,
  let w' := fold_left (fun acc p => send_subscribe (t_subscribe_ttl (cfg acc)) (fst p) (snd p) acc) G w in
  cfg w' = cfg w /\ tasks w' = tasks w /\ next_id w' = next_id w /\ sub_alive w' = sub_alive w /\ sub_task w' = sub_task w
  /\ sub_entries w' = sub_entries w /\ ready w' = ready w /\ timers w' = timers w
  /\ clean (glog w') = clean (glog w)
  /\ forall a k, holds a k (glog w') = if covered a k G then negb (t_subscribe_ttl (cfg w) =? 0) else holds a k (glog w).
Proof.
  induction G as [|[ep gs] G IH]; intros w; cbv zeta; cbn [fold_left fst snd].
  - repeat split.
  - destruct (send_subscribe_proj (t_subscribe_ttl (cfg w)) ep gs w) as [P1 [P2 [P3 [P4 [P5 [P6 [P7 [P8 [P9 P10]]]]]]]]].
    set (w1 := send_subscribe (t_subscribe_ttl (cfg w)) ep gs w) in *.
    destruct (IH w1) as [Q1 [Q2 [Q3 [Q4 [Q5 [Q6 [Q7 [Q8 [Q9 Q10]]]]]]]]]. cbv zeta in *.
    repeat split; try congruence. intros a k. rewrite Q10, P1, P10. cbn [covered existsb fst snd]. fold (covered a k G).
    destruct (covered a k G); [rewrite orb_true_r; reflexivity|]. rewrite orb_false_r. reflexivity.
Qed.

(* frame with a changed task table: the same tasks are live *)
Lemma MIx_frame2 x x' w w' :
  MIx x w -> cfg w' = cfg w -> next_id w <= next_id w' ->
  (forall t tk, get_task t w' = Some tk -> tk_kind tk = TSub /\ t < next_id w') ->
  (forall t, live_task t w' = live_task t w) ->
  sub_alive w' = sub_alive w -> sub_task w' = sub_task w -> sub_entries w' = sub_entries w ->
  (exists l, x' ++ map snd (ready w') = (x ++ map snd (ready w)) ++ l /\ forallb inert_b l = true /\ forallb sub_h l = true) ->
  (forall o h, In (o, h) (ready w') -> o <> None -> exists t, h = HSleepDone t) ->
  (forall p, In p (timers w') -> exists t, snd p = HSleepDone t) ->
  (clean (glog w') = true -> clean (glog w) = true) -> (forall a k, holds a k (glog w') = holds a k (glog w)) ->
  MIx x' w'.
Proof.
  intros [A1 A2 A3 A4 A5 A6 A7 A8] Hc Hn Hk Hlv Ha Hs He [l [Hl [Hi Hsh]]] Ho Htm Hcl Hh.
  constructor.
  - rewrite Hc. exact A1.
  - intros t tk H. apply (Hk t tk H).
  - intros t tk H. apply (Hk t tk H).
  - intros t H. rewrite Hlv in H. rewrite Ha, Hs. apply A4, H.
  - intros h Hin. rewrite Hl in Hin. apply in_app_iff in Hin. destruct Hin as [Hin|Hin].
    + destruct (A5 h Hin) as [B1 B2]. split; [exact B1|]. intros t E. specialize (B2 t E). lia.
    + rewrite forallb_forall in Hsh, Hi. split; [apply Hsh, Hin|]. intros t E. subst h. specialize (Hi _ Hin). discriminate.
  - exact Ho.
  - exact Htm.
  - intros Hcw. destruct (A8 (Hcl Hcw)) as [B1 B2]. rewrite He. split; [exact B1|]. intros a k.
    unfold futx, target. rewrite Hl, He, Ha, Hh. unfold oneshot. rewrite Hc. rewrite futl_app.
    rewrite futl_inert by exact Hi. rewrite (futl_ext _ _ _ _ _ _ Hlv). exact (B2 a k).
Qed.

(* a wake-up of a task that will not run a round *)
Lemma MIx_drop_dead t w : MIx [HTaskWake t] w -> live_task t w = false -> MI w.
Proof.
  intros [A1 A2 A3 A4 A5 A6 A7 A8] Hd. constructor; try assumption.
  - intros h' Hin. apply A5. right. exact Hin.
  - intros Hc. destruct (A8 Hc) as [B1 B2]. split; [exact B1|]. intros a k. rewrite <- B2. unfold futx. cbn [app].
    unfold futl. cbn [fold_left step_eff]. rewrite Hd. reflexivity.
Qed.

(* the state after a round of the refresh task t: everything requested was sent again; with no refresh interval the
   task has returned *)
Lemma MI_after_round t w w2 :
  MIx [HTaskWake t] w -> live_task t w = true ->
  cfg w2 = cfg w -> next_id w <= next_id w2 ->
  (forall u tk, get_task u w2 = Some tk -> tk_kind tk = TSub /\ u < next_id w2) ->
  (forall u, live_task u w2 = if oneshot w then live_task u w && negb (u =? t) else live_task u w) ->
  sub_alive w2 = sub_alive w -> sub_task w2 = sub_task w -> sub_entries w2 = sub_entries w -> ready w2 = ready w ->
  (forall p, In p (timers w2) -> exists u, snd p = HSleepDone u) ->
  (clean (glog w2) = true -> clean (glog w) = true) ->
  (forall a k, holds a k (glog w2) = if req a k (sub_entries w) then true else holds a k (glog w)) ->
  MI w2.
Proof.
  intros [A1 A2 A3 A4 A5 A6 A7 A8] Hl Hc Hn Hk Hlv Ha Hs He Hr Htm Hcl Hh.
  constructor.
  - rewrite Hc. exact A1.
  - intros u tk H. apply (Hk u tk H).
  - intros u tk H. apply (Hk u tk H).
  - intros u H. rewrite Hlv in H. rewrite Ha, Hs. apply A4. destruct (oneshot w); [apply andb_true_iff in H; apply H|exact H].
  - intros h Hin. cbn [app] in Hin. rewrite Hr in Hin. destruct (A5 h (or_intror Hin)) as [B1 B2]. split; [exact B1|].
    intros u E. specialize (B2 u E). lia.
  - intros o h Hin. rewrite Hr in Hin. eapply A6, Hin.
  - exact Htm.
  - intros Hcw. destruct (A8 (Hcl Hcw)) as [B1 B2]. rewrite He. split; [exact B1|]. intros a k.
    transitivity (target a k w); [|unfold target; rewrite Ha, He; reflexivity]. rewrite <- (B2 a k).
    unfold futx. cbn [app]. rewrite Hr, He, Hh. unfold futl at 2. cbn [fold_left step_eff]. rewrite Hl.
    cbn [memN existsb negb andb fst snd].
    assert (Ho : oneshot w2 = oneshot w) by (unfold oneshot; rewrite Hc; reflexivity). rewrite Ho.
    rewrite (futl_ext _ _ _ _ _ _ Hlv). destruct (oneshot w) eqn:E1.
    + apply futl_kill. intros x. cbn [memN existsb]. rewrite orb_false_r. reflexivity.
    + reflexivity.
Qed.

Lemma MI_task_step t w : MIx [HTaskWake t] w -> MI (task_step t w).
Proof.
  intros Hm. unfold task_step. destruct (get_task t w) as [tk|] eqn:Et.
  2:{ apply (MIx_drop_dead t); [exact Hm|]. unfold live_task. rewrite Et. reflexivity. }
  destruct (tk_done tk) eqn:Ed.
  { apply (MIx_drop_dead t); [exact Hm|]. unfold live_task. rewrite Et, Ed. reflexivity. }
  rewrite (mi_kind _ _ Hm t tk Et).
  assert (Hstep : MI (if tk_must_cancel tk then finish_task t w else subscribe_round t w)).
  2:{ destruct (tk_pc tk); exact Hstep. }
  destruct (tk_must_cancel tk) eqn:Ec.
  - (* cancelled while asleep or before its first step: returns without a round *)
    assert (Hd : live_task t w = false) by (unfold live_task; rewrite Et, Ec, andb_false_r; reflexivity).
    unfold finish_task. rewrite Et. set (tk' := mkTask _ _ _ _ _ _).
    eapply (MIx_frame2 [] [] w); try reflexivity; try lia.
    + apply (MIx_drop_dead t); assumption.
    + intros u tku. rewrite get_task_put. destruct (N.eqb_spec u t) as [->|Hne]; intros H.
      * inversion H; subst tku. cbn [tk_kind tk' next_id put_task set_tasks]. split; [eapply (mi_kind _ _ Hm), Et|eapply (mi_fresh _ _ Hm), Et].
      * split; [eapply (mi_kind _ _ Hm), H|eapply (mi_fresh _ _ Hm), H].
    + intros u. rewrite live_put. destruct (N.eqb_spec u t) as [->|Hne]; [rewrite Hd; reflexivity|reflexivity].
    + exists []. rewrite app_nil_r. repeat split.
    + intros o h Hin. eapply (mi_otid _ _ Hm), Hin.
    + intros p Hin. eapply (mi_timers _ _ Hm), Hin.
    + auto.
  - (* a round *)
    assert (Hl : live_task t w = true) by (unfold live_task; rewrite Et, Ed, Ec; reflexivity).
    unfold subscribe_round.
    destruct (round_proj (group_entries (sub_entries w)) w) as [P1 [P2 [P3 [P4 [P5 [P6 [P7 [P8 [P9 P10]]]]]]]]].
    set (w1 := fold_left _ (group_entries (sub_entries w)) w) in *. cbv zeta in *.
    assert (Hg1 : forall u, get_task u w1 = get_task u w) by (intros u; unfold get_task; rewrite P2; reflexivity).
    assert (Hh1 : forall a k, holds a k (glog w1) = if req a k (sub_entries w) then true else holds a k (glog w)).
    { intros a k. rewrite P10, covered_group_entries. pose proof (mi_ttl _ _ Hm) as A1. apply N.eqb_neq in A1. rewrite A1. reflexivity. }
    assert (Hkf : forall tk' u tku, tk_kind tk' = TSub -> get_task u (put_task t tk' w1) = Some tku -> tk_kind tku = TSub /\ u < next_id w).
    { intros tk' u tku Hk'. rewrite get_task_put. destruct (N.eqb_spec u t) as [->|Hne]; intros H.
      - inversion H; subst tku. split; [exact Hk'|eapply (mi_fresh _ _ Hm), Et].
      - rewrite Hg1 in H. split; [eapply (mi_kind _ _ Hm), H|eapply (mi_fresh _ _ Hm), H]. }
    assert (Hlive1 : forall u, live_task u w1 = live_task u w) by (intros u; unfold live_task; rewrite Hg1; reflexivity).
    destruct (t_refresh (cfg w1)) as [r|] eqn:Er.
    + (* sleeps until the next refresh *)
      assert (Hos : oneshot w = false) by (unfold oneshot; rewrite <- P1, Er; reflexivity).
      unfold task_sleep. destruct (r =? 0).
      * apply MI_append_wake; [|exists (mkTask TSub 1 0 false None false); rewrite get_task_put, N.eqb_refl; reflexivity].
        eapply (MI_after_round t w); try exact Hm; try exact Hl; try assumption; try (cbn; congruence).
        -- cbn [next_id put_task set_tasks]. lia.
        -- intros u tku H. cbn [next_id put_task set_tasks]. rewrite P3. eapply Hkf; [|exact H]. reflexivity.
        -- intros u. rewrite Hos, live_put. destruct (N.eqb_spec u t) as [->|Hne]; [rewrite Hl; reflexivity|apply Hlive1].
        -- intros p Hin. cbn [timers put_task set_tasks] in Hin. rewrite P8 in Hin. apply (mi_timers _ _ Hm), Hin.
      * unfold call_later. set (tid := next_id w1).
        eapply (MI_after_round t w); try exact Hm; try exact Hl; try (cbn; congruence).
        -- cbn [next_id put_task set_tasks set_next_id set_timers]. unfold tid. rewrite P3. lia.
        -- intros u tku H. cbn [next_id put_task set_tasks set_next_id set_timers].
           assert (H' : get_task u (put_task t (mkTask TSub 1 0 false (Some tid) false) w1) = Some tku) by exact H.
           destruct (Hkf (mkTask TSub 1 0 false (Some tid) false) u tku eq_refl H') as [K1 K2]. split; [exact K1|]. unfold tid. rewrite P3. lia.
        -- intros u. rewrite Hos. change (live_task u (put_task t (mkTask TSub 1 0 false (Some tid) false) (set_next_id (tid + 1) (set_timers (timers w1 ++ [(now w1 + r, tid, HSleepDone t)]) w1))))
             with (live_task u (put_task t (mkTask TSub 1 0 false (Some tid) false) w1)).
           rewrite live_put. destruct (N.eqb_spec u t) as [->|Hne]; [rewrite Hl; reflexivity|apply Hlive1].
        -- intros p Hin. cbn [timers put_task set_tasks set_next_id set_timers] in Hin. apply in_app_iff in Hin. destruct Hin as [Hin|[<-|[]]].
           ++ rewrite P8 in Hin. apply (mi_timers _ _ Hm), Hin.
           ++ exists t. reflexivity.
        -- exact Hh1.
    + (* no refresh: the task returns *)
      assert (Hos : oneshot w = true) by (unfold oneshot; rewrite <- P1, Er; reflexivity).
      unfold finish_task. rewrite Hg1, Et. set (tk' := mkTask _ _ _ _ _ _).
      eapply (MI_after_round t w); try exact Hm; try exact Hl; try (cbn; congruence).
      * cbn [next_id put_task set_tasks]. lia.
      * intros u tku H. cbn [next_id put_task set_tasks]. rewrite P3. eapply Hkf; [|exact H]. cbn [tk_kind tk']. eapply (mi_kind _ _ Hm), Et.
      * intros u. rewrite Hos, live_put. destruct (N.eqb_spec u t) as [->|Hne]; cbn [negb andb tk_done tk'].
        -- rewrite andb_false_r. reflexivity.
        -- rewrite andb_true_r. apply Hlive1.
      * intros p Hin. cbn [timers put_task set_tasks] in Hin. rewrite P8 in Hin. apply (mi_timers _ _ Hm), Hin.
      * exact Hh1.
Qed.

(* ------------------------------------------------------------------ more about the symbolic execution *)
Lemma futl_ext_in a k live live' rq one : forall hs s, (forall t, In (HTaskWake t) hs -> live t = live' t) ->
  futl a k live rq one hs s = futl a k live' rq one hs s.
Proof.
  unfold futl. induction hs as [|h hs IH]; intros s H; cbn [fold_left]; [reflexivity|].
  rewrite IH by (intros t Hin; apply H; right; exact Hin). f_equal.
  destruct h; cbn [step_eff]; try reflexivity. rewrite (H t) by (left; reflexivity). reflexivity.
Qed.
Lemma futl_dead a k rq rq' one : forall hs s, futl a k (fun _ => false) rq one hs s = futl a k (fun _ => false) rq' one hs s.
Proof.
  unfold futl. induction hs as [|h hs IH]; intros s; cbn [fold_left]; [reflexivity|]. rewrite IH. f_equal.
Qed.
Lemma futl_dead_fin a k rq one : forall hs s, snd (futl a k (fun _ => false) rq one hs s) = snd s.
Proof.
  unfold futl. induction hs as [|h hs IH]; intros s; cbn [fold_left]; [reflexivity|]. rewrite IH.
  destruct h; reflexivity.
Qed.
Lemma dead_when_stopped w : MI w -> sub_alive w = false -> forall t, live_task t w = false.
Proof. intros Hm Ha t. destruct (live_task t w) eqn:E; [|reflexivity]. destruct (mi_live _ _ Hm t E) as [H _]. congruence. Qed.

(* ------------------------------------------------------------------ HSleepDone *)
Lemma MI_sleep_done t w : MIx [HSleepDone t] w -> MI (sleep_done t w).
Proof.
  intros Hx. assert (Hm : MI w) by (apply (MIx_drop _ _ Hx); reflexivity).
  unfold sleep_done. destruct (get_task t w) as [tk|] eqn:Et; [|exact Hm]. destruct (tk_done tk) eqn:Ed; [exact Hm|].
  set (tk' := mkTask _ _ _ _ _ _). apply MI_append_wake; [|exists tk'; rewrite get_task_put, N.eqb_refl; reflexivity].
  eapply (MIx_frame2 [] [] w); try reflexivity; try lia; try exact Hm.
  - intros u tku. rewrite get_task_put. destruct (N.eqb_spec u t) as [->|Hne]; intros H.
    + inversion H; subst tku. split; [apply (mi_kind _ _ Hm t tk Et)|apply (mi_fresh _ _ Hm t tk Et)].
    + split; [eapply (mi_kind _ _ Hm), H|eapply (mi_fresh _ _ Hm), H].
  - intros u. rewrite live_put. destruct (N.eqb_spec u t) as [->|Hne]; [|reflexivity].
    unfold live_task. rewrite Et, Ed. reflexivity.
  - exists []. rewrite app_nil_r. repeat split.
  - intros o h Hin. eapply (mi_otid _ _ Hm), Hin.
  - intros p Hin. eapply (mi_timers _ _ Hm), Hin.
  - auto.
Qed.

(* ------------------------------------------------------------------ the application's calls *)
Lemma MI_taint ep w : MI w -> MI (ghost (GDupSub ep) w).
Proof.
  intros Hm. eapply (MIx_frame [] [] w); try reflexivity; try lia; try exact Hm.
  - exists []. rewrite app_nil_r. repeat split.
  - intros o h Hin. eapply (mi_otid _ _ Hm), Hin.
  - intros p Hin. eapply (mi_timers _ _ Hm), Hin.
  - intros H. discriminate.
Qed.

Lemma req_snoc a k l g ep : req a k (l ++ [(g, ep)]) = req a k l || (skey_eqb (key_of_eg g) k && (ep =? a)).
Proof. rewrite req_app. cbn [req existsb fst snd]. rewrite orb_false_r. reflexivity. Qed.
Lemma hit_one a k ep g : hit a k ep [g] = skey_eqb (key_of_eg g) k && (ep =? a).
Proof. unfold hit. cbn [existsb]. rewrite orb_false_r. apply andb_comm. Qed.

Lemma MI_subscribe_core g ep w :
  MI w -> (clean (glog w) = true -> req ep (key_of_eg g) (sub_entries w) = false) -> MI (subscribe_core g ep w).
Proof.
  intros Hm Hnd. unfold subscribe_core. set (w1 := set_sub_entries _ w). change (sub_alive w1) with (sub_alive w).
  destruct Hm as [A1 A2 A3 A4 A5 A6 A7 A8].
  assert (Hm1 : forall a k, clean (glog w) = true ->
            nodupk (sub_entries w1) = true /\
            req a k (sub_entries w1) = req a k (sub_entries w) || (skey_eqb (key_of_eg g) k && (ep =? a))).
  { intros a k Hc. destruct (A8 Hc) as [B1 _]. unfold w1. cbn [sub_entries set_sub_entries]. split; [apply nodupk_snoc; [exact B1|apply Hnd, Hc]|apply req_snoc]. }
  destruct (sub_alive w) eqn:Ea.
  - constructor; [exact A1|exact A2|exact A3|intros t H; destruct (A4 t H) as [_ H2]; split; [exact Ea|exact H2]| | |exact A7| ].
    + intros h Hin. cbn [app call_soon ready set_ready] in Hin. change (ready w1) with (ready w) in Hin. rewrite map_app in Hin.
      apply in_app_iff in Hin. destruct Hin as [Hin|[<-|[]]]; [apply A5, Hin|]. split; [reflexivity|intros t E; discriminate].
    + intros o h Hin Ho. cbn [call_soon ready set_ready] in Hin. apply in_app_iff in Hin. destruct Hin as [Hin|[E|[]]]; [eapply A6; eauto|]. inversion E; subst. congruence.
    + intros Hc. change (clean (glog w) = true) in Hc. destruct (A8 Hc) as [B1 B2]. split; [apply (Hm1 ep (key_of_eg g) Hc)|]. intros a k.
      destruct (Hm1 a k Hc) as [_ Hr]. specialize (B2 a k).
      set (w2 := call_soon (HSendStartSub ep [g]) w1).
      assert (E1 : map snd (ready w2) = map snd (ready w) ++ [HSendStartSub ep [g]]) by (unfold w2; cbn [call_soon ready set_ready]; rewrite map_app; reflexivity).
      unfold futx, target in *. change (glog w2) with (glog w). change (sub_entries w2) with (sub_entries w1). change (sub_alive w2) with (sub_alive w).
      change (oneshot w2) with (oneshot w). change (fun t0 => live_task t0 w2) with (fun t0 => live_task t0 w).
      cbn [app] in *. rewrite E1, futl_app. unfold futl at 1. cbn [fold_left step_eff fst]. rewrite hit_one, Hr, Ea. cbn [andb].
      destruct (skey_eqb (key_of_eg g) k && (ep =? a)); [rewrite orb_true_r; reflexivity|]. rewrite orb_false_r. rewrite B2, Ea. reflexivity.
  - constructor; [exact A1|exact A2|exact A3|intros t H; destruct (A4 t H) as [H1 _]; discriminate|exact A5|exact A6|exact A7| ].
    intros Hc. change (clean (glog w) = true) in Hc. destruct (A8 Hc) as [B1 B2]. split; [apply (Hm1 ep (key_of_eg g) Hc)|]. intros a k. specialize (B2 a k).
    assert (Hd : forall t, live_task t w = false).
    { intros t. destruct (live_task t w) eqn:E; [|reflexivity]. destruct (A4 t E) as [H _]. congruence. }
    unfold futx, target in *. change (glog w1) with (glog w). change (sub_alive w1) with (sub_alive w). change (ready w1) with (ready w).
    change (oneshot w1) with (oneshot w). change (fun t0 => live_task t0 w1) with (fun t0 => live_task t0 w).
    rewrite Ea in *. cbn [andb] in *. rewrite <- B2.
    rewrite (futl_ext _ _ _ (fun _ => false) _ _ Hd). rewrite (futl_ext _ _ (fun t0 => live_task t0 w) (fun _ => false) _ _ Hd).
    rewrite (futl_dead _ _ _ (req a k (sub_entries w))). reflexivity.
Qed.
Lemma MI_subscribe g ep w : MI w -> MI (subscribe_eventgroup g ep w).
Proof.
  intros Hm. unfold subscribe_eventgroup, note_dup. destruct (requested g ep (sub_entries w)) eqn:Er.
  - apply MI_subscribe_core; [apply MI_taint, Hm|]. intros H. discriminate.
  - apply MI_subscribe_core; [exact Hm|]. intros _. rewrite <- requested_req. exact Er.
Qed.

Lemma MI_stop_subscribe g ep w : MI w -> MI (stop_subscribe_eventgroup g ep true w).
Proof.
  intros Hm. unfold stop_subscribe_eventgroup. destruct (remove_first sub_entry_eqb (g, ep) (sub_entries w)) as [l|] eqn:Er; [|exact Hm].
  set (w1 := set_sub_entries l w). destruct Hm as [A1 A2 A3 A4 A5 A6 A7 A8]. constructor; [exact A1|exact A2|exact A3|exact A4| | |exact A7| ].
  - intros h Hin. cbn [app call_soon ready set_ready] in Hin. change (ready w1) with (ready w) in Hin. rewrite map_app in Hin.
    apply in_app_iff in Hin. destruct Hin as [Hin|[<-|[]]]; [apply A5, Hin|]. split; [reflexivity|intros t E; discriminate].
  - intros o h Hin Ho. cbn [call_soon ready set_ready] in Hin. apply in_app_iff in Hin. destruct Hin as [Hin|[E|[]]]; [eapply A6; eauto|]. inversion E; subst. congruence.
  - intros Hc. change (clean (glog w) = true) in Hc. destruct (A8 Hc) as [B1 B2].
    destruct (remove_first_req g ep _ _ Er B1) as [R1 [R2 R3]]. split; [exact R1|]. intros a k. specialize (B2 a k).
    set (w2 := call_soon (HSendStopSub ep [g]) w1).
    assert (E1 : map snd (ready w2) = map snd (ready w) ++ [HSendStopSub ep [g]]) by (unfold w2; cbn [call_soon ready set_ready]; rewrite map_app; reflexivity).
    unfold futx, target in *. change (glog w2) with (glog w). change (sub_entries w2) with l. change (sub_alive w2) with (sub_alive w).
    change (oneshot w2) with (oneshot w). change (fun t0 => live_task t0 w2) with (fun t0 => live_task t0 w).
    cbn [app] in *. rewrite E1, futl_app. unfold futl at 1. cbn [fold_left step_eff fst]. rewrite hit_one.
    destruct (skey_eqb (key_of_eg g) k && (ep =? a)) eqn:Eh.
    + apply andb_true_iff in Eh. destruct Eh as [Ek Ee]. apply skey_eqb_eq in Ek. apply N.eqb_eq in Ee. subst k a. rewrite R2, andb_false_r. reflexivity.
    + rewrite (R3 a k Eh). exact B2.
Qed.

Lemma fold_soon_proj (f : addr * list eventgroup -> handle) : forall G w,
  let w' := fold_left (fun acc p => call_soon (f p) acc) G w in
  ready w' = ready w ++ map (fun p => (None, f p)) G /\ cfg w' = cfg w /\ tasks w' = tasks w /\ next_id w' = next_id w
  /\ sub_alive w' = sub_alive w /\ sub_task w' = sub_task w /\ sub_entries w' = sub_entries w /\ timers w' = timers w /\ glog w' = glog w.
Proof.
  induction G as [|p G IH]; intros w; cbv zeta; cbn [fold_left map]; [rewrite app_nil_r; repeat split|].
  destruct (IH (call_soon (f p) w)) as [Q1 [Q2 [Q3 [Q4 [Q5 [Q6 [Q7 [Q8 Q9]]]]]]]]. cbv zeta in *.
  repeat split; try assumption. rewrite Q1. cbn [call_soon ready set_ready]. rewrite <- app_assoc. reflexivity.
Qed.

Lemma MI_sub_start w : MI w -> MI (subscriber_start w).
Proof.
  intros Hm. unfold subscriber_start. destruct (sub_alive w) eqn:Ea; [exact Hm|].
  pose proof (dead_when_stopped w Hm Ea) as Hd.
  unfold new_task. cbv beta iota zeta. change (next_id (set_sub_alive true w)) with (next_id w). set (t := next_id w).
  set (tk0 := mkTask TSub 0 0 false None false).
  set (w' := set_sub_task (Some t) _).
  assert (Hfr : get_task t w = None).
  { destruct (get_task t w) as [tk|] eqn:E; [|reflexivity]. pose proof (mi_fresh _ _ Hm t tk E). unfold t in *. lia. }
  assert (Hg : forall u, get_task u w' = if u =? t then Some tk0 else get_task u w).
  { intros u. unfold w', get_task. cbn [tasks set_sub_task call_soon set_ready set_next_id set_tasks set_sub_alive].
    destruct (N.eqb_spec u t) as [->|Hne].
    - rewrite (aget_app_notin t (tasks w) (t, tk0) Hfr). cbn [fst snd]. rewrite N.eqb_refl. reflexivity.
    - destruct (aget N.eqb u (tasks w)) as [tk|] eqn:E.
      + apply aget_app_in. exact E.
      + rewrite (aget_app_notin u (tasks w) (t, tk0) E). cbn [fst]. apply N.eqb_neq in Hne. rewrite Hne. reflexivity. }
  assert (Hlv : forall u, live_task u w' = (u =? t)).
  { intros u. unfold live_task. rewrite Hg. destruct (u =? t); [reflexivity|]. apply Hd. }
  assert (Er : map snd (ready w') = map snd (ready w) ++ [HTaskWake t]).
  { unfold w'. cbn [ready set_sub_task call_soon set_ready set_next_id set_tasks set_sub_alive]. rewrite map_app. reflexivity. }
  destruct Hm as [A1 A2 A3 A4 A5 A6 A7 A8]. constructor.
  - exact A1.
  - intros u tk. rewrite Hg. destruct (u =? t); intros H; [inversion H; reflexivity|eapply A2, H].
  - intros u tk. rewrite Hg. change (next_id w') with (t + 1). destruct (N.eqb_spec u t) as [->|Hne]; intros H; [lia|]. apply A3 in H. unfold t. lia.
  - intros u H. rewrite Hlv in H. apply N.eqb_eq in H. subst u. split; reflexivity.
  - intros h Hin. cbn [app] in Hin. rewrite Er in Hin. change (next_id w') with (t + 1). apply in_app_iff in Hin. destruct Hin as [Hin|[<-|[]]].
    + destruct (A5 h Hin) as [B1 B2]. split; [exact B1|]. intros u E. specialize (B2 u E). unfold t. lia.
    + split; [reflexivity|]. intros u E. inversion E; subst u. lia.
  - intros o h Hin Ho. unfold w' in Hin. cbn [ready set_sub_task call_soon set_ready set_next_id set_tasks set_sub_alive] in Hin.
    apply in_app_iff in Hin. destruct Hin as [Hin|[E|[]]]; [eapply A6; eauto|]. inversion E; subst. congruence.
  - exact A7.
  - intros Hc. change (clean (glog w) = true) in Hc. destruct (A8 Hc) as [B1 B2]. split; [exact B1|]. intros a k. specialize (B2 a k).
    unfold futx, target in *. cbn [app] in *. rewrite Er, futl_app. change (glog w') with (glog w). change (sub_entries w') with (sub_entries w).
    change (sub_alive w') with true. change (oneshot w') with (oneshot w). rewrite Ea in B2. cbn [andb] in *.
    assert (Hold : futl a k (fun u => live_task u w') (req a k (sub_entries w)) (oneshot w) (map snd (ready w)) (holds a k (glog w), [])
                   = futl a k (fun _ => false) (req a k (sub_entries w)) (oneshot w) (map snd (ready w)) (holds a k (glog w), [])).
    { apply futl_ext_in. intros u Hin. rewrite Hlv. apply N.eqb_neq. destruct (A5 (HTaskWake u) Hin) as [_ B]. specialize (B u eq_refl). unfold t. lia. }
    rewrite Hold. rewrite (futl_ext _ _ _ (fun _ => false) _ _ Hd) in B2.
    unfold futl at 1. cbn [fold_left]. rewrite step_wake_fst, futl_dead_fin, B2, Hlv, N.eqb_refl. cbn [snd memN existsb negb andb].
    destruct (req a k (sub_entries w)); reflexivity.
Qed.

Lemma MI_sub_stop w : MI w -> MI (subscriber_stop true w).
Proof.
  intros Hm. unfold subscriber_stop. destruct (sub_alive w) eqn:Ea; cbn [negb]; [|exact Hm].
  set (w1 := set_sub_alive false w).
  set (w2 := match sub_task w1 with Some t => set_sub_task None (cancel_task t w1) | None => w1 end).
  (* after the cancellation no task is live; the ready queue gained at most a wake-up of the cancelled task *)
  assert (H2 : cfg w2 = cfg w /\ next_id w2 = next_id w /\ sub_alive w2 = false /\ sub_entries w2 = sub_entries w /\ glog w2 = glog w
               /\ (forall p, In p (timers w2) -> In p (timers w))
               /\ (forall u, live_task u w2 = false)
               /\ (forall u tk, get_task u w2 = Some tk -> tk_kind tk = TSub /\ u < next_id w)
               /\ exists l, ready w2 = ready w ++ map (fun t => (None, HTaskWake t)) l /\ forall t, In t l -> t < next_id w).
  { unfold w2. change (sub_task w1) with (sub_task w). destruct (sub_task w) as [t|] eqn:Est.
    2:{ spl; [reflexivity|reflexivity|reflexivity|reflexivity|reflexivity|auto| | |].
        - intros u. change (live_task u w = false). destruct (live_task u w) eqn:E; [|reflexivity]. destruct (mi_live _ _ Hm u E) as [_ H]. congruence.
        - intros u tk H. split; [eapply (mi_kind _ _ Hm), H|eapply (mi_fresh _ _ Hm), H].
        - exists []. cbn [map]. rewrite app_nil_r. split; [reflexivity|intros t []]. }
    assert (Hoth : forall u, u <> t -> live_task u w = false).
    { intros u Hne. destruct (live_task u w) eqn:E; [|reflexivity]. destruct (mi_live _ _ Hm u E) as [_ H]. congruence. }
    unfold cancel_task. change (get_task t w1) with (get_task t w). destruct (get_task t w) as [tk|] eqn:Et.
    2:{ spl; [reflexivity|reflexivity|reflexivity|reflexivity|reflexivity|auto| | |].
        - intros u. change (live_task u w = false). destruct (N.eq_dec u t) as [->|Hne]; [unfold live_task; rewrite Et; reflexivity|apply Hoth, Hne].
        - intros u tk H. split; [eapply (mi_kind _ _ Hm), H|eapply (mi_fresh _ _ Hm), H].
        - exists []. cbn [map]. rewrite app_nil_r. split; [reflexivity|intros ? []]. }
    destruct (tk_done tk) eqn:Ed.
    { spl; [reflexivity|reflexivity|reflexivity|reflexivity|reflexivity|auto| | |].
      - intros u. change (live_task u w = false). destruct (N.eq_dec u t) as [->|Hne]; [unfold live_task; rewrite Et, Ed; reflexivity|apply Hoth, Hne].
      - intros u tk0 H. split; [eapply (mi_kind _ _ Hm), H|eapply (mi_fresh _ _ Hm), H].
      - exists []. cbn [map]. rewrite app_nil_r. split; [reflexivity|intros ? []]. }
    set (tk' := mkTask _ _ _ true None false).
    assert (Hl2 : forall u, live_task u (put_task t tk' w1) = false).
    { intros u. rewrite live_put. destruct (N.eqb_spec u t) as [->|Hne]; [reflexivity|apply Hoth, Hne]. }
    assert (Hk2 : forall u tku, get_task u (put_task t tk' w1) = Some tku -> tk_kind tku = TSub /\ u < next_id w).
    { intros u tku. rewrite get_task_put. destruct (N.eqb_spec u t) as [->|Hne]; intros H.
      - inversion H; subst tku. split; [apply (mi_kind _ _ Hm t tk Et)|apply (mi_fresh _ _ Hm t tk Et)].
      - split; [eapply (mi_kind _ _ Hm), H|eapply (mi_fresh _ _ Hm), H]. }
    destruct (tk_sleep tk) as [tid|].
    - spl; [reflexivity|reflexivity|reflexivity|reflexivity|reflexivity|auto|exact Hl2|exact Hk2|].
      exists [t]. split; [reflexivity|]. intros u [<-|[]]. apply (mi_fresh _ _ Hm t tk Et).
    - spl; [reflexivity|reflexivity|reflexivity|reflexivity|reflexivity|auto|exact Hl2|exact Hk2|].
      exists []. cbn [map]. rewrite app_nil_r. split; [reflexivity|intros ? []]. }
  destruct H2 as [C1 [C2 [C3 [C4 [C5 [C6 [C7 [C8 [lw [C9 C10]]]]]]]]]].
  destruct (fold_soon_proj (fun p => HSendStopSub (fst p) (snd p)) (group_entries (sub_entries w2)) w2) as [Q1 [Q2 [Q3 [Q4 [Q5 [Q6 [Q7 [Q8 Q9]]]]]]]].
  set (w3 := fold_left _ (group_entries (sub_entries w2)) w2) in *. cbv zeta in *.
  assert (Hg3 : forall u, get_task u w3 = get_task u w2) by (intros u; unfold get_task; rewrite Q3; reflexivity).
  assert (Hl3 : forall u, live_task u w3 = false) by (intros u; unfold live_task; rewrite Hg3; apply C7).
  assert (Er : map snd (ready w3) = (map snd (ready w) ++ map HTaskWake lw) ++ map (fun p => HSendStopSub (fst p) (snd p)) (group_entries (sub_entries w))).
  { rewrite Q1, C9, C4, !map_app, !map_map. reflexivity. }
  destruct Hm as [A1 A2 A3 A4 A5 A6 A7 A8]. constructor.
  - rewrite Q2, C1. exact A1.
  - intros u tk H. rewrite Hg3 in H. apply (C8 u tk H).
  - intros u tk H. rewrite Hg3 in H. rewrite Q4, C2. apply (C8 u tk H).
  - intros u H. rewrite Hl3 in H. discriminate.
  - intros h Hin. cbn [app] in Hin. rewrite Er in Hin. rewrite Q4, C2. apply in_app_iff in Hin. destruct Hin as [Hin|Hin]; [apply in_app_iff in Hin; destruct Hin as [Hin|Hin]|].
    + apply A5, Hin.
    + apply in_map_iff in Hin. destruct Hin as [u [<- Hu]]. split; [reflexivity|]. intros u' E. inversion E; subst u'. apply C10, Hu.
    + apply in_map_iff in Hin. destruct Hin as [p [<- _]]. split; [reflexivity|intros u E; discriminate].
  - intros o h Hin Ho. rewrite Q1, C9 in Hin. apply in_app_iff in Hin. destruct Hin as [Hin|Hin]; [apply in_app_iff in Hin; destruct Hin as [Hin|Hin]|].
    + eapply A6; eauto.
    + apply in_map_iff in Hin. destruct Hin as [u [E _]]. inversion E; subst. congruence.
    + apply in_map_iff in Hin. destruct Hin as [p [E _]]. inversion E; subst. congruence.
  - intros p Hin. rewrite Q8 in Hin. apply A7, C6, Hin.
  - intros Hc. rewrite Q9, C5 in Hc. destruct (A8 Hc) as [B1 B2]. rewrite Q7, C4. split; [exact B1|]. intros a k. specialize (B2 a k).
    unfold futx, target in *. cbn [app] in *. rewrite Er, Q9, C5, Q7, C4, Q5, C3. cbn [andb]. rewrite Ea in B2. cbn [andb] in B2.
    rewrite futl_app, futl_stops, covered_group_entries. destruct (req a k (sub_entries w)) eqn:Erq; [reflexivity|].
    rewrite futl_app.
    assert (Hw : forall l s, fst (futl a k (fun t0 => live_task t0 w3) false (oneshot w3) (map HTaskWake l) s) = fst s).
    { induction l as [|u l IH]; intros s; cbn [map]; [reflexivity|]. unfold futl in *. cbn [fold_left]. rewrite IH, step_wake_fst, andb_false_r. reflexivity. }
    rewrite Hw. etransitivity; [|exact B2]. apply futl_norq. reflexivity.
Qed.

(* ------------------------------------------------------------------ every callback, every loop step *)
Lemma MI_exec_api c w : MI w -> sub_api c = true -> MI (exec_api c w).
Proof.
  intros Hm Hc. destruct c; cbn [sub_api] in Hc; try discriminate; cbn [exec_api].
  - apply MI_subscribe, Hm.
  - subst send. apply MI_stop_subscribe, Hm.
  - apply MI_sub_start, Hm.
  - subst send. apply MI_sub_stop, Hm.
  - eapply (MIx_frame [] [] w); try reflexivity; try lia; try exact Hm.
    + exists [HApi c]. cbn [call_soon ready set_ready app]. rewrite map_app. cbn [map snd forallb inert_b sub_h]. rewrite Hc. repeat split.
    + intros o h Hin Ho. cbn [call_soon ready set_ready] in Hin. apply in_app_iff in Hin. destruct Hin as [Hin|[E|[]]]; [eapply (mi_otid _ _ Hm); eauto|]. inversion E; subst. congruence.
    + intros p Hin. eapply (mi_timers _ _ Hm), Hin.
    + auto.
Qed.

Lemma MI_exec h w : MIx [h] w -> MI (exec h w).
Proof.
  intros Hx. assert (Hs : sub_h h = true) by (apply (mi_hs _ _ Hx); left; reflexivity).
  destruct h; cbn [sub_h] in Hs; try discriminate; cbn [exec].
  - apply MI_exec_api; [apply (MIx_drop _ _ Hx); reflexivity|exact Hs].
  - apply (MI_exec_send true), Hx.
  - apply (MI_exec_send false), Hx.
  - apply MI_task_step, Hx.
  - apply MI_sleep_done, Hx.
Qed.

Lemma MI_lstep1 w : MI w -> MI (lstep1 w).
Proof.
  intros Hm. unfold lstep1. destruct (ready w) as [|[o h] r] eqn:Er; [exact Hm|].
  pose proof (MI_pop w o h r Hm Er) as Hx.
  destruct (match o with Some tid => is_cancelled tid (set_ready r w) | None => false end) eqn:Esk; [|apply MI_exec, Hx].
  destruct o as [tid|]; [|discriminate].
  destruct (mi_otid _ _ Hm (Some tid) h) as [t ->]; [rewrite Er; left; reflexivity|discriminate|].
  apply (MIx_drop _ _ Hx). reflexivity.
Qed.
Lemma MI_run_ready : forall n w, MI w -> MI (run_ready n w).
Proof. induction n as [|n IH]; intros w Hm; [exact Hm|]. rewrite run_ready_step. apply IH, MI_lstep1, Hm. Qed.

(* what arrives from outside: the application's calls *)
Definition ext_h (h : handle) : bool := match h with HApi c => sub_api c | _ => false end.
Lemma ext_inert h : ext_h h = true -> inert_b h = true /\ sub_h h = true.
Proof. destruct h; cbn [ext_h inert_b sub_h]; intros H; try discriminate. split; [reflexivity|exact H]. Qed.

Lemma arrivals_proj : forall hs w,
  let w' := fold_left (fun acc h => call_soon h acc) hs w in
  ready w' = ready w ++ map (fun h => (None, h)) hs /\ cfg w' = cfg w /\ tasks w' = tasks w /\ next_id w' = next_id w
  /\ sub_alive w' = sub_alive w /\ sub_task w' = sub_task w /\ sub_entries w' = sub_entries w /\ timers w' = timers w /\ glog w' = glog w
  /\ now w' = now w /\ cancelled w' = cancelled w.
Proof.
  induction hs as [|h hs IH]; intros w; cbv zeta; cbn [fold_left map]; [rewrite app_nil_r; repeat split|].
  destruct (IH (call_soon h w)) as [Q1 [Q2 [Q3 [Q4 [Q5 [Q6 [Q7 [Q8 [Q9 [Q10 Q11]]]]]]]]]]. cbv zeta in *.
  repeat split; try assumption. rewrite Q1. cbn [call_soon ready set_ready]. rewrite <- app_assoc. reflexivity.
Qed.

Lemma MI_iter_pre arrivals rv w : forallb ext_h arrivals = true -> MI w -> MI (iter_pre arrivals rv w).
Proof.
  intros Ha Hm. unfold iter_pre. cbv zeta.
  destruct (arrivals_proj arrivals w) as [Q1 [Q2 [Q3 [Q4 [Q5 [Q6 [Q7 [Q8 [Q9 [Q10 Q11]]]]]]]]]].
  set (w1 := fold_left _ arrivals w) in *. cbv zeta in *.
  assert (Hfil : forall f x, In x (filter f (timers w1)) -> exists t, snd x = HSleepDone t).
  { intros f x Hin. apply filter_In in Hin. apply (mi_timers _ _ Hm). rewrite <- Q8. apply Hin. }
  set (due' := sort_by_when _).
  assert (Hdue : forall x, In x due' -> exists t, snd x = HSleepDone t).
  { intros x Hin. unfold due' in Hin. apply (Permutation_in _ (perm_sort _)) in Hin.
    destruct rv; [apply in_rev in Hin|]; eapply Hfil; exact Hin. }
  eapply (MIx_frame [] [] w); try exact Hm; try assumption; try (cbn; congruence); try lia.
  - cbn [next_id set_timers set_ready]. lia.
  - exists (arrivals ++ map snd due'). cbn [app ready set_timers set_ready]. rewrite Q1, !map_app, !map_map. cbn [snd].
    rewrite map_id, <- app_assoc. split; [reflexivity|]. rewrite !forallb_app. rewrite forallb_forall in Ha.
    split; apply andb_true_iff; split; apply forallb_forall; intros h Hin;
      try (apply ext_inert, Ha, Hin); apply in_map_iff in Hin; destruct Hin as [x [<- Hx]]; destruct (Hdue x Hx) as [t ->]; reflexivity.
  - intros o h Hin Ho. cbn [ready set_timers set_ready] in Hin. rewrite Q1 in Hin. apply in_app_iff in Hin. destruct Hin as [Hin|Hin]; [apply in_app_iff in Hin; destruct Hin as [Hin|Hin]|].
    + eapply (mi_otid _ _ Hm); eauto.
    + apply in_map_iff in Hin. destruct Hin as [x [E _]]. inversion E; subst. congruence.
    + apply in_map_iff in Hin. destruct Hin as [x [E Hx]]. inversion E; subst. apply (Hdue x Hx).
  - intros p Hin. cbn [timers set_timers set_ready] in Hin. eapply Hfil. exact Hin.
Qed.

Theorem MI_iteration arrivals rv w : forallb ext_h arrivals = true -> MI w -> MI (iteration arrivals rv w).
Proof. intros Ha Hm. rewrite iteration_pre. apply MI_run_ready, MI_iter_pre; assumption. Qed.

Lemma split_arrived_ext : forall t evs a l, forallb (fun e => ext_h (snd e)) evs = true -> split_arrived t evs = (a, l) ->
  forallb ext_h (map snd a) = true /\ forallb (fun e => ext_h (snd e)) l = true.
Proof.
  induction evs as [|e evs IH]; intros a l Hf H; cbn [split_arrived] in H.
  - inversion H. split; reflexivity.
  - cbn [forallb] in Hf. apply andb_true_iff in Hf. destruct Hf as [H1 H2]. destruct (fst e <=? t).
    + destruct (split_arrived t evs) as [a' l'] eqn:E. inversion H; subst. destruct (IH a' l H2 eq_refl) as [I1 I2].
      split; [cbn [map forallb]; rewrite H1, I1; reflexivity|exact I2].
    + inversion H; subst. split; [reflexivity|]. cbn [forallb]. rewrite H1, H2. reflexivity.
Qed.

Theorem MI_run : forall fuel events t_end rv w, forallb (fun e => ext_h (snd e)) events = true -> MI w ->
  MI (fst (run fuel events t_end rv w)).
Proof.
  induction fuel as [|f IH]; intros events t_end rv w Hev Hm; cbn [run fst]; [exact Hm|].
  destruct (split_arrived (now w) events) as [arrived later] eqn:Es.
  destruct (split_arrived_ext _ _ _ _ Hev Es) as [Ha Hl].
  set (dn := match next_timer w with Some t => t <=? now w | None => false end).
  destruct (ready w) as [|x r] eqn:Er; [destruct arrived as [|a ar]; [destruct dn|]|];
    try (apply IH; [exact Hl|]; apply MI_iteration; [exact Ha|exact Hm]).
  destruct (omin _ _) as [t|]; [|exact Hm]. destruct (t_end <? t); [exact Hm|].
  apply IH; [exact Hev|]. eapply (MIx_frame [] [] w); try reflexivity; try lia; try exact Hm.
  - exists []. rewrite app_nil_r. repeat split.
  - intros o h Hin. eapply (mi_otid _ _ Hm), Hin.
  - intros p Hin. eapply (mi_timers _ _ Hm), Hin.
  - auto.
Qed.

(* ------------------------------------------------------------------ every reachable state of every scenario of subscriber calls *)
Definition sub_scenario (sc : scenario) : Prop :=
  forallb (fun e => ext_h (snd e)) (sc_events sc) = true /\ t_subscribe_ttl (sc_cfg sc) <> 0.

Lemma MI_init sc : t_subscribe_ttl (sc_cfg sc) <> 0 -> MI (init_world sc).
Proof.
  intros Ht. unfold init_world. constructor.
  - exact Ht.
  - intros t tk H. discriminate.
  - intros t tk H. discriminate.
  - intros t H. discriminate.
  - intros h [].
  - intros o h [].
  - intros p [].
  - intros _. split; [reflexivity|]. intros a k. reflexivity.
Qed.

Theorem MI_reachable sc : sub_scenario sc -> MI (fst (run_scenario sc)).
Proof. intros [He Ht]. unfold run_scenario. apply MI_run; [exact He|apply MI_init, Ht]. Qed.

(* what it says, for users *)
Theorem requests_mirrored_when_idle sc : sub_scenario sc ->
  let w := fst (run_scenario sc) in
  clean (glog w) = true -> ready w = [] ->
  forall a k, holds a k (glog w) = sub_alive w && req a k (sub_entries w).
Proof.
  intros Hs w Hc Hr a k. destruct (mi_mirror _ _ (MI_reachable sc Hs) Hc) as [_ B]. specialize (B a k).
  unfold futx, target in B. fold w in B. rewrite Hr in B. exact B.
Qed.
Theorem requests_mirrored_in_every_state sc : sub_scenario sc ->
  let w := fst (run_scenario sc) in
  clean (glog w) = true -> forall a k, futx a k [] w = sub_alive w && req a k (sub_entries w).
Proof. intros Hs w Hc a k. apply (mi_mirror _ _ (MI_reachable sc Hs) Hc). Qed.
