(* Facts about big-endian encoding and the generic pack/unpack. *)
From PS Require Import Lib.Base Lib.Struct.
From Coq Require Import Lia ZArith ZifyN ZifyBool ZifyNat.
Ltac Zify.zify_post_hook ::= Z.div_mod_to_equations.

Lemma len_app {X} (a b : list X) : len (a ++ b) = len a + len b.
Proof. unfold len. rewrite app_length. lia. Qed.

Lemma len_nil {X} : len (@nil X) = 0. Proof. reflexivity. Qed.
Lemma len_cons {X} (x : X) l : len (x :: l) = len l + 1.
Proof. unfold len. cbn [length]. lia. Qed.

Lemma takeN_app_exact {X} (a b : list X) : takeN (len a) (a ++ b) = a.
Proof.
  unfold takeN, len. rewrite Nat2N.id. rewrite firstn_app, Nat.sub_diag, firstn_all. cbn. apply app_nil_r.
Qed.
Lemma dropN_app_exact {X} (a b : list X) : dropN (len a) (a ++ b) = b.
Proof.
  unfold dropN, len. rewrite Nat2N.id. rewrite skipn_app, Nat.sub_diag, skipn_all. reflexivity.
Qed.
Lemma takeN_all {X} (a : list X) : takeN (len a) a = a.
Proof. rewrite <- (app_nil_r a) at 2. rewrite takeN_app_exact. reflexivity. Qed.
Lemma dropN_all {X} (a : list X) : dropN (len a) a = [].
Proof. rewrite <- (app_nil_r a) at 2. rewrite dropN_app_exact. reflexivity. Qed.
Lemma takeN_dropN {X} n (a : list X) : takeN n a ++ dropN n a = a.
Proof. apply firstn_skipn. Qed.
Lemma len_takeN {X} n (a : list X) : n <= len a -> len (takeN n a) = n.
Proof. unfold len, takeN. intros H. rewrite firstn_length. lia. Qed.
Lemma len_dropN {X} n (a : list X) : len (dropN n a) = len a - n.
Proof. unfold len, dropN. rewrite skipn_length. lia. Qed.

Lemma bytes_ok_app a b : bytes_ok (a ++ b) <-> bytes_ok a /\ bytes_ok b.
Proof. unfold bytes_ok. apply Forall_app. Qed.
Lemma bytes_ok_takeN n a : bytes_ok a -> bytes_ok (takeN n a).
Proof. unfold bytes_ok, takeN. intros H. rewrite <- (firstn_skipn (N.to_nat n) a) in H. apply Forall_app in H. tauto. Qed.
Lemma bytes_ok_dropN n a : bytes_ok a -> bytes_ok (dropN n a).
Proof. unfold bytes_ok, dropN. intros H. rewrite <- (firstn_skipn (N.to_nat n) a) in H. apply Forall_app in H. tauto. Qed.
Lemma bytes_okb_spec l : bytes_okb l = true <-> bytes_ok l.
Proof.
  unfold bytes_okb, bytes_ok, byte_okb. rewrite forallb_forall, Forall_forall.
  split; intros H x Hx; specialize (H x Hx); lia.
Qed.

Lemma be_length k v : length (be k v) = k.
Proof. revert v. induction k as [|k IH]; intros v; cbn [be]; [reflexivity|]. rewrite app_length, IH. cbn. lia. Qed.
Lemma be_len k v : len (be k v) = N.of_nat k.
Proof. unfold len. rewrite be_length. reflexivity. Qed.

Lemma be_bytes_ok k v : bytes_ok (be k v).
Proof.
  revert v. induction k as [|k IH]; intros v; cbn [be]; [constructor|].
  apply bytes_ok_app. split; [apply IH|]. constructor; [|constructor]. lia.
Qed.

Lemma unbe_app l x : unbe (l ++ [x]) = unbe l * 256 + x.
Proof. unfold unbe. rewrite fold_left_app. reflexivity. Qed.

Lemma unbe_be k v : v < 256 ^ N.of_nat k -> unbe (be k v) = v.
Proof.
  revert v. induction k as [|k IH]; intros v Hv.
  - cbn in *. lia.
  - cbn [be]. rewrite unbe_app. rewrite IH.
    + lia.
    + rewrite Nat2N.inj_succ, N.pow_succ_r' in Hv. lia.
Qed.

Lemma unbe_lt l : bytes_ok l -> unbe l < 256 ^ len l.
Proof.
  induction l as [|x l IH] using rev_ind; intros H.
  - cbn. lia.
  - apply bytes_ok_app in H. destruct H as [Hl Hx]. inversion Hx as [|? ? Hx1 _]; subst.
    rewrite unbe_app, len_app. specialize (IH Hl).
    change (len [x]) with 1. rewrite N.pow_add_r. change (256 ^ 1) with 256. nia.
Qed.

Lemma be_unbe l : bytes_ok l -> be (length l) (unbe l) = l.
Proof.
  induction l as [|x l IH] using rev_ind; intros H; [reflexivity|].
  apply bytes_ok_app in H. destruct H as [Hl Hx]. inversion Hx as [|? ? Hx1 _]; subst.
  rewrite app_length. cbn [length]. rewrite Nat.add_1_r. cbn [be]. rewrite unbe_app.
  replace ((unbe l * 256 + x) / 256) with (unbe l) by lia.
  replace ((unbe l * 256 + x) mod 256) with x by lia.
  rewrite IH by exact Hl. reflexivity.
Qed.

(* ---- pack / unpack ---- *)

Lemma pack1_len c v b : pack1 c v = Ok b -> len b = fsize c.
Proof.
  destruct c, v; cbn [pack1]; try discriminate.
  - destruct (n <? 256); [|discriminate]. intros H; inversion H. reflexivity.
  - destruct (n <? 65536); [|discriminate]. intros H; inversion H. reflexivity.
  - destruct (n <? 4294967296); [|discriminate]. intros H; inversion H. reflexivity.
  - destruct (N.eqb_spec (len b0) n); [|discriminate]. intros H; inversion H; subst. reflexivity.
Qed.

Lemma unpack1_pack1 c v b : pack1 c v = Ok b -> unpack1 c b = v.
Proof.
  destruct c, v; cbn [pack1 unpack1]; try discriminate.
  - destruct (N.ltb_spec n 256) as [Hn|Hn]; [|discriminate]. intros Hp. assert (Hb : b = be 1 n) by congruence. subst b. rewrite unbe_be; [reflexivity|cbn; lia].
  - destruct (N.ltb_spec n 65536) as [Hn|Hn]; [|discriminate]. intros Hp. assert (Hb : b = be 2 n) by congruence. subst b. rewrite unbe_be; [reflexivity|cbn; lia].
  - destruct (N.ltb_spec n 4294967296) as [Hn|Hn]; [|discriminate]. intros Hp. assert (Hb : b = be 4 n) by congruence. subst b. rewrite unbe_be; [reflexivity|cbn; lia].
  - destruct (N.eqb_spec (len b0) n) as [Hn|Hn]; [|discriminate]. intros Hp; inversion Hp; subst. reflexivity.
Qed.

Lemma pack_len f vs b : pack f vs = Ok b -> len b = fmt_size f.
Proof.
  revert vs b. induction f as [|c f IH]; intros vs b; destruct vs as [|v vs]; cbn [pack fmt_size]; try discriminate.
  - intros H; inversion H. reflexivity.
  - destruct (pack1 c v) as [b1|] eqn:E1; cbn [bind]; [|discriminate].
    destruct (pack f vs) as [b2|] eqn:E2; cbn [bind]; [|discriminate].
    intros H; inversion H; subst. rewrite len_app. rewrite (pack1_len _ _ _ E1), (IH _ _ E2). reflexivity.
Qed.

Lemma unpack_all_pack f vs b : pack f vs = Ok b -> unpack_all f b = vs.
Proof.
  revert vs b. induction f as [|c f IH]; intros vs b; destruct vs as [|v vs]; cbn [pack]; try discriminate.
  - intros _. reflexivity.
  - destruct (pack1 c v) as [b1|] eqn:E1; cbn [bind]; [|discriminate].
    destruct (pack f vs) as [b2|] eqn:E2; cbn [bind]; [|discriminate].
    intros H; inversion H; subst. cbn [unpack_all].
    rewrite <- (pack1_len _ _ _ E1). rewrite takeN_app_exact, dropN_app_exact.
    rewrite (unpack1_pack1 _ _ _ E1), (IH _ _ E2). reflexivity.
Qed.

Lemma unpack_pack f vs b r : pack f vs = Ok b -> unpack f (b ++ r) = Ok (vs, r).
Proof.
  intros H. unfold unpack. pose proof (pack_len _ _ _ H) as Hl.
  rewrite len_app. destruct (N.ltb_spec (len b + len r) (fmt_size f)); [lia|].
  rewrite <- Hl. rewrite takeN_app_exact, dropN_app_exact. rewrite (unpack_all_pack _ _ _ H). reflexivity.
Qed.

Definition fval_ok (v : fval) : Prop := match v with VI _ => True | VB b => bytes_ok b end.

Lemma pack1_bytes_ok c v b : pack1 c v = Ok b -> fval_ok v -> bytes_ok b.
Proof.
  destruct c, v; cbn [pack1]; try discriminate; intros H Hv.
  - destruct (n <? 256); [|discriminate]. assert (Hb : b = be 1 n) by congruence. subst b. apply be_bytes_ok.
  - destruct (n <? 65536); [|discriminate]. assert (Hb : b = be 2 n) by congruence. subst b. apply be_bytes_ok.
  - destruct (n <? 4294967296); [|discriminate]. assert (Hb : b = be 4 n) by congruence. subst b. apply be_bytes_ok.
  - destruct (len b0 =? n); [|discriminate]. assert (Hb : b = b0) by congruence. subst b. exact Hv.
Qed.

Lemma pack_bytes_ok f vs b : pack f vs = Ok b -> Forall fval_ok vs -> bytes_ok b.
Proof.
  revert vs b. induction f as [|c f IH]; intros vs b; destruct vs as [|v vs]; cbn [pack]; try discriminate.
  - intros H _; inversion H. constructor.
  - destruct (pack1 c v) as [b1|] eqn:E1; cbn [bind]; [|discriminate].
    destruct (pack f vs) as [b2|] eqn:E2; cbn [bind]; [|discriminate].
    intros H Hv; inversion H; subst. inversion Hv; subst. apply bytes_ok_app. split.
    + eapply pack1_bytes_ok; eassumption.
    + eapply IH; eassumption.
Qed.

(* decoding then re-encoding a field gives back the bytes *)
Lemma pack1_unpack1 c b : bytes_ok b -> len b = fsize c -> pack1 c (unpack1 c b) = Ok b.
Proof.
  intros Hb Hl. pose proof (unbe_lt _ Hb) as Hlt. rewrite Hl in Hlt.
  assert (Hbe : be (length b) (unbe b) = b) by (apply be_unbe; exact Hb).
  destruct c; cbn [pack1 unpack1 fsize] in *.
  - change (256 ^ 1) with 256 in Hlt. destruct (N.ltb_spec (unbe b) 256); [|lia].
    replace 1%nat with (length b) by (unfold len in Hl; lia). rewrite Hbe. reflexivity.
  - change (256 ^ 2) with 65536 in Hlt. destruct (N.ltb_spec (unbe b) 65536); [|lia].
    replace 2%nat with (length b) by (unfold len in Hl; lia). rewrite Hbe. reflexivity.
  - change (256 ^ 4) with 4294967296 in Hlt. destruct (N.ltb_spec (unbe b) 4294967296); [|lia].
    replace 4%nat with (length b) by (unfold len in Hl; lia). rewrite Hbe. reflexivity.
  - rewrite Hl, N.eqb_refl. reflexivity.
Qed.

Lemma pack_unpack_all f b : bytes_ok b -> len b = fmt_size f -> pack f (unpack_all f b) = Ok b.
Proof.
  revert b. induction f as [|c f IH]; intros b Hb Hl; cbn [fmt_size unpack_all pack] in *.
  - destruct b; [reflexivity|]. rewrite len_cons in Hl. lia.
  - rewrite pack1_unpack1.
    + cbn [bind]. rewrite IH.
      * cbn [bind]. rewrite takeN_dropN. reflexivity.
      * apply bytes_ok_dropN. exact Hb.
      * rewrite len_dropN. lia.
    + apply bytes_ok_takeN. exact Hb.
    + apply len_takeN. lia.
Qed.

Lemma unpack_ok_inv f b vs r :
  unpack f b = Ok (vs, r) ->
  fmt_size f <= len b /\ vs = unpack_all f (takeN (fmt_size f) b) /\ r = dropN (fmt_size f) b.
Proof.
  unfold unpack. destruct (N.ltb_spec (len b) (fmt_size f)) as [Hlt|Hge]; [discriminate|].
  intros Hu; inversion Hu; subst. repeat split. lia.
Qed.

Lemma unpack_err f b e : unpack f b = Err e -> e = EIncomplete /\ len b < fmt_size f.
Proof.
  unfold unpack. destruct (N.ltb_spec (len b) (fmt_size f)) as [Hlt|Hge]; [|discriminate].
  intros Hu; inversion Hu. split; [reflexivity|lia].
Qed.
