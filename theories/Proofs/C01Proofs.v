(* C01: SOME/IP message layout, round trip, soundness of parse, datagram loop. *)
From PS Require Import Lib.Base Lib.Struct Generated.Consts Model.SdTypes Model.Someip Model.SdCodec Spec.C01Spec.
From PS Require Import Proofs.StructFacts.
From Coq Require Import Lia ZArith ZifyN ZifyBool ZifyNat.
Ltac Zify.zify_post_hook ::= Z.div_mod_to_equations.

Lemma be1 v : v < 256 -> be 1 v = [v].
Proof. intros H. cbn [be app]. f_equal. lia. Qed.
Lemma be2_b16 v : v < 65536 -> be 2 v = b16 v.
Proof. intros H. cbn [be app]. unfold b16. f_equal. lia. Qed.
Lemma be4_b32 v : v < 4294967296 -> be 4 v = b32 v.
Proof.
  intros H. cbn [be app]. unfold b32. rewrite !N.div_div by lia. cbn [N.mul Pos.mul Pos.add].
  f_equal. lia.
Qed.

Lemma fits_spec m :
  fits_msgb m = true <->
  m_sid m < 65536 /\ m_mid m < 65536 /\ m_cid m < 65536 /\ m_sess m < 65536 /\ m_iv m < 256
  /\ m_pv m < 256 /\ m_mt m < 256 /\ m_rc m < 256 /\ len (m_payload m) + 8 < 4294967296.
Proof. unfold fits_msgb. rewrite !andb_true_iff, !N.ltb_lt. tauto. Qed.

Definition hdr_vals (m : someip) : list fval :=
  [VI (m_sid m); VI (m_mid m); VI (len (m_payload m) + 8); VI (m_cid m); VI (m_sess m);
   VI (m_pv m); VI (m_iv m); VI (m_mt m); VI (m_rc m)].

Definition spec_hdr (m : someip) : bytes :=
  b16 (m_sid m) ++ b16 (m_mid m) ++ b32 (len (m_payload m) + 8) ++ b16 (m_cid m) ++ b16 (m_sess m)
  ++ [m_pv m; m_iv m; m_mt m; m_rc m].

(* computes pack on the GENERATED format: a changed format string breaks this proof *)
Lemma pack_hdr_layout m : fits_msgb m = true -> pack fmt_someip (hdr_vals m) = Ok (spec_hdr m).
Proof.
  intros H. apply fits_spec in H. destruct H as (H1 & H2 & H3 & H4 & H5 & H6 & H7 & H8 & H9).
  unfold fmt_someip, hdr_vals. cbn [pack pack1].
  repeat match goal with
         | |- context [?a <? ?b] => let E := fresh in destruct (N.ltb_spec a b) as [E|E]; [|lia]
         end.
  cbn [bind]. rewrite !be2_b16, !be4_b32, !be1 by assumption.
  unfold spec_hdr. cbn [app]. reflexivity.
Qed.

Lemma build_layout m : fits_msgb m = true -> build_msg m = Ok (spec_layout m).
Proof.
  intros H. unfold build_msg. change (pack fmt_someip _) with (pack fmt_someip (hdr_vals m)).
  rewrite pack_hdr_layout by exact H. cbn [bind]. unfold spec_layout, spec_hdr.
  rewrite <- !app_assoc. reflexivity.
Qed.

Lemma build_ok_fits m b : build_msg m = Ok b -> fits_msgb m = true.
Proof.
  unfold build_msg, fmt_someip. cbn [pack pack1]. intros H. apply fits_spec.
  repeat match type of H with
         | context [?a <? ?b] => let E := fresh in destruct (N.ltb_spec a b) as [E|E]; cbn [bind] in H; [|discriminate H]
         end.
  repeat split; assumption.
Qed.

Lemma build_error m e : build_msg m = Err e -> e = EStruct /\ fits_msgb m = false.
Proof.
  intros H. destruct (fits_msgb m) eqn:F.
  - rewrite build_layout in H by exact F. discriminate.
  - split; [|reflexivity]. revert H. unfold build_msg, fmt_someip. cbn [pack pack1].
    repeat match goal with
           | |- context [?a <? ?b] => destruct (a <? b); cbn [bind]; [|intros H; inversion H; reflexivity]
           end.
    discriminate.
Qed.

Lemma wf_spec m :
  wf_msgb m = true <->
  fits_msgb m = true /\ m_pv m = 1 /\ memN (m_mt m) msg_type_values = true
  /\ memN (m_rc m) ret_code_values = true /\ bytes_ok (m_payload m).
Proof. unfold wf_msgb. rewrite !andb_true_iff, N.eqb_eq, bytes_okb_spec. tauto. Qed.

Lemma roundtrip m b r : wf_msgb m = true -> build_msg m = Ok b -> parse_msg (b ++ r) = Ok (m, r).
Proof.
  intros Hwf Hb. apply wf_spec in Hwf. destruct Hwf as (Hf & Hpv & Hmt & Hrc & _).
  unfold build_msg in Hb. change (pack fmt_someip _) with (pack fmt_someip (hdr_vals m)) in Hb.
  destruct (pack fmt_someip (hdr_vals m)) as [hdr|] eqn:Hp; cbn [bind] in Hb; [|discriminate].
  injection Hb as <-. unfold parse_msg. rewrite <- app_assoc.
  rewrite (unpack_pack _ _ _ _ Hp). cbn [bind]. unfold hdr_vals. cbn [parse_header].
  rewrite Hpv, Hmt, Hrc. cbn [N.eqb Pos.eqb negb].
  destruct (N.ltb_spec (len (m_payload m) + 8) 8) as [E|E]; [lia|]. cbn [bind].
  replace (len (m_payload m) + 8 - 8) with (len (m_payload m)) by lia.
  rewrite len_app. destruct (N.ltb_spec (len (m_payload m) + len r) (len (m_payload m))) as [E2|E2]; [lia|].
  rewrite takeN_app_exact, dropN_app_exact. rewrite <- Hpv. destruct m; reflexivity.
Qed.

Lemma roundtrip_layout m r : wf_msgb m = true -> parse_msg (spec_layout m ++ r) = Ok (m, r).
Proof.
  intros H. apply roundtrip; [exact H|]. apply build_layout. apply wf_spec in H. tauto.
Qed.

Lemma fmt_someip_size : fmt_size fmt_someip = 16. Proof. reflexivity. Qed.

Lemma parse_sound b m r :
  bytes_ok b -> parse_msg b = Ok (m, r) ->
  wf_msgb m = true /\ exists b', build_msg m = Ok b' /\ b = b' ++ r.
Proof.
  intros Hb Hp. unfold parse_msg in Hp.
  destruct (unpack fmt_someip b) as [[vs rest]|] eqn:Hu; cbn [bind] in Hp; [|discriminate].
  apply unpack_ok_inv in Hu. rewrite fmt_someip_size in Hu. destruct Hu as (Hlen & Hvs & Hrest).
  set (hdr := takeN 16 b) in *.
  assert (Hhdr_ok : bytes_ok hdr) by (apply bytes_ok_takeN; exact Hb).
  assert (Hhdr_len : len hdr = fmt_size fmt_someip) by (rewrite fmt_someip_size; apply len_takeN; exact Hlen).
  pose proof (pack_unpack_all fmt_someip hdr Hhdr_ok Hhdr_len) as Hpack.
  rewrite <- Hvs in Hpack.
  (* vs is a list of nine integers: compute unpack_all on the generated format *)
  unfold fmt_someip in Hvs. cbn [unpack_all unpack1 fsize] in Hvs.
  rewrite Hvs in Hp. cbn [parse_header] in Hp.
  match type of Hvs with
  | vs = [VI ?x1; VI ?x2; VI ?x3; VI ?x4; VI ?x5; VI ?x6; VI ?x7; VI ?x8; VI ?x9] =>
      set (sid := x1) in *; set (mid := x2) in *; set (size := x3) in *; set (cid := x4) in *;
      set (sess := x5) in *; set (pv := x6) in *; set (iv := x7) in *; set (mt := x8) in *; set (rc := x9) in *
  end.
  destruct (N.eqb_spec pv 1) as [Epv|Epv]; cbn [negb] in Hp; [|discriminate].
  destruct (memN mt msg_type_values) eqn:Emt; cbn [negb] in Hp; [|discriminate].
  destruct (memN rc ret_code_values) eqn:Erc; cbn [negb] in Hp; [|discriminate].
  destruct (N.ltb_spec size 8) as [Esz|Esz]; [discriminate|]. cbn [bind] in Hp.
  destruct (N.ltb_spec (len rest) (size - 8)) as [El|El]; [discriminate|].
  injection Hp as Hm Hr.
  set (p := takeN (size - 8) rest) in *.
  assert (Hlp : len p + 8 = size) by (unfold p; rewrite len_takeN by exact El; lia).
  assert (Hbuild : build_msg m = Ok (hdr ++ p)).
  { unfold build_msg. subst m. cbn [m_sid m_mid m_cid m_sess m_iv m_mt m_pv m_rc m_payload].
    rewrite Hlp. rewrite <- Hvs. rewrite Hpack. reflexivity. }
  split.
  - apply wf_spec. repeat split.
    + eapply build_ok_fits. exact Hbuild.
    + subst m. exact Epv.
    + subst m. exact Emt.
    + subst m. exact Erc.
    + subst m. cbn [m_payload]. unfold p. apply bytes_ok_takeN. rewrite Hrest. apply bytes_ok_dropN. exact Hb.
  - exists (hdr ++ p). split; [exact Hbuild|].
    subst r. unfold p. rewrite <- app_assoc. rewrite takeN_dropN. rewrite Hrest. unfold hdr.
    rewrite takeN_dropN. reflexivity.
Qed.

(* parse only fails with the library's two parse errors *)
Lemma parse_error_kinds b e : parse_msg b = Err e -> e = EParse \/ e = EIncomplete.
Proof.
  unfold parse_msg. destruct (unpack fmt_someip b) as [[vs rest]|e0] eqn:Hu; cbn [bind].
  - apply unpack_ok_inv in Hu. destruct Hu as (_ & Hvs & _).
    unfold fmt_someip in Hvs. cbn [unpack_all unpack1 fsize] in Hvs. rewrite Hvs. cbn [parse_header].
    repeat match goal with
           | |- context [if ?c then _ else _] => destruct c; cbn [bind negb]
           end; intros H; inversion H; auto.
  - apply unpack_err in Hu. destruct Hu as [-> _]. intros H; inversion H. auto.
Qed.

(* the unconsumed rest is a suffix of the input *)
Lemma parse_suffix b m r : parse_msg b = Ok (m, r) -> exists c, b = c ++ r /\ 16 <= len c.
Proof.
  unfold parse_msg.
  destruct (unpack fmt_someip b) as [[vs rest]|] eqn:Hu; cbn [bind]; [|discriminate].
  apply unpack_ok_inv in Hu. rewrite fmt_someip_size in Hu. destruct Hu as (Hlen & _ & Hrest).
  destruct (parse_header vs) as [[size mk]|]; cbn [bind]; [|discriminate].
  destruct (len rest <? size - 8); [discriminate|]. intros H; injection H as _ Hr.
  exists (takeN 16 b ++ takeN (size - 8) rest). split.
  - subst r. rewrite <- app_assoc, takeN_dropN. rewrite Hrest. rewrite takeN_dropN. reflexivity.
  - rewrite len_app, len_takeN by exact Hlen. lia.
Qed.

(* ---- the datagram loop ---- *)
Definition build_all (ms : list someip) : result bytes := concat_map_res build_msg ms.

Lemma build_msg_len m b : build_msg m = Ok b -> 16 <= len b.
Proof.
  unfold build_msg. destruct (pack fmt_someip _) as [hdr|] eqn:Hp; cbn [bind]; [|discriminate].
  intros H; injection H as <-. rewrite len_app. apply pack_len in Hp. rewrite fmt_someip_size in Hp. lia.
Qed.

Lemma datagram_all ms : forall data tail fuel,
  build_all ms = Ok data -> Forall (fun m => wf_msgb m = true) ms ->
  (length (data ++ tail) < fuel)%nat ->
  datagram_msgs fuel (data ++ tail) =
  let '(ms', e) := datagram_msgs (fuel - length ms) tail in (ms ++ ms', e).
Proof.
  induction ms as [|m ms IH]; intros data tail fuel Hb Hwf Hfuel.
  - cbn in Hb. injection Hb as <-. cbn [app length]. rewrite Nat.sub_0_r.
    destruct (datagram_msgs fuel tail). reflexivity.
  - cbn [build_all concat_map_res] in Hb.
    destruct (build_msg m) as [b1|] eqn:Hb1; cbn [bind] in Hb; [|discriminate].
    destruct (concat_map_res build_msg ms) as [b2|] eqn:Hb2; cbn [bind] in Hb; [|discriminate].
    injection Hb as <-. inversion Hwf as [|? ? Hm Hms]; subst.
    pose proof (build_msg_len _ _ Hb1) as Hl1.
    destruct fuel as [|f]; [lia|].
    rewrite <- app_assoc.
    destruct (b1 ++ b2 ++ tail) as [|x xs] eqn:Ed.
    { apply (f_equal (@length N)) in Ed. rewrite app_length in Ed. unfold len in Hl1. cbn in Ed. lia. }
    rewrite <- Ed. cbn [datagram_msgs].
    destruct (b1 ++ b2 ++ tail) eqn:Ed2; [congruence|]. rewrite <- Ed2.
    rewrite (roundtrip m b1 (b2 ++ tail) Hm Hb1).
    rewrite (IH b2 tail f Hb2 Hms).
    + cbn [length Nat.sub]. destruct (datagram_msgs (f - length ms) tail). reflexivity.
    + rewrite <- app_assoc, app_length in Hfuel. unfold len in Hl1. lia.
Qed.

Lemma datagram_clean ms data :
  build_all ms = Ok data -> Forall (fun m => wf_msgb m = true) ms ->
  datagram_split data = (ms, None).
Proof.
  intros Hb Hwf. unfold datagram_split.
  pose proof (datagram_all ms data [] (S (length data)) Hb Hwf) as H.
  rewrite app_nil_r in H. rewrite H by lia.
  destruct (S (length data) - length ms)%nat; cbn [datagram_msgs]; rewrite app_nil_r; reflexivity.
Qed.

Lemma datagram_prefix ms data bad e :
  build_all ms = Ok data -> Forall (fun m => wf_msgb m = true) ms ->
  bad <> [] -> parse_msg bad = Err e ->
  datagram_split (data ++ bad) = (ms, Some e).
Proof.
  intros Hb Hwf Hne Hbad. unfold datagram_split.
  rewrite (datagram_all ms data bad (S (length (data ++ bad))) Hb Hwf) by lia.
  assert (Hlen : (length ms <= length data)%nat).
  { clear -Hb. revert data Hb. induction ms as [|m ms IH]; intros data Hb; [cbn; lia|].
    cbn [build_all concat_map_res] in Hb.
    destruct (build_msg m) as [b1|] eqn:Hb1; cbn [bind] in Hb; [|discriminate].
    destruct (concat_map_res build_msg ms) as [b2|] eqn:Hb2; cbn [bind] in Hb; [|discriminate].
    injection Hb as <-. specialize (IH b2 Hb2). apply build_msg_len in Hb1. unfold len in Hb1.
    rewrite app_length. cbn [length]. lia. }
  rewrite app_length.
  destruct (S (length data + length bad) - length ms)%nat as [|f] eqn:Ef; [lia|].
  destruct bad as [|x xs]; [congruence|]. cbn [datagram_msgs]. rewrite Hbad. rewrite app_nil_r. reflexivity.
Qed.

(* the loop never runs out of fuel, and delivers what it parsed, in order *)
Lemma datagram_no_fuel : forall fuel data ms, (length data < fuel)%nat ->
  datagram_msgs fuel data = (ms, Some EFuel) -> False.
Proof.
  induction fuel as [|f IH]; intros data ms Hf H; [lia|].
  destruct data as [|x xs]; [cbn in H; discriminate|].
  cbn [datagram_msgs] in H.
  destruct (parse_msg (x :: xs)) as [[m rest]|e] eqn:Hp.
  - destruct (datagram_msgs f rest) as [ms' e'] eqn:Hr. injection H as _ He. subst e'.
    apply parse_suffix in Hp. destruct Hp as (c & Hc & Hl).
    apply (IH rest ms'); [|exact Hr].
    apply (f_equal (@length N)) in Hc. rewrite app_length in Hc. unfold len in Hl. cbn [length] in *. lia.
  - injection H as _ He. apply parse_error_kinds in Hp. destruct Hp; congruence.
Qed.

(* non-vacuity *)
Example ex_wf : wf_msgb (mkMsg 0x1234 0x8001 0 7 1 MT_NOTIFICATION 1 RC_E_OK [1; 2; 3]) = true.
Proof. reflexivity. Qed.
Example ex_layout :
  build_msg (mkMsg 0x1234 0x8001 0 7 1 MT_NOTIFICATION 1 RC_E_OK [1; 2; 3])
  = Ok [0x12; 0x34; 0x80; 0x01; 0; 0; 0; 11; 0; 0; 0; 7; 1; 1; 2; 0; 1; 2; 3].
Proof. reflexivity. Qed.
