(* The hand-written models of the pure decision functions equal the definitions TRANSLATED from the Python source text
   (Generated/LogicGen.v, re-generated on every run by harness/gen_logic.py): a change of this logic in /repo breaks
   these proofs.  W_IID / W_MAJ / W_MIN are the literals 0xFFFF / 0xFF / 0xFFFFFFFF of config.py. *)
From PS Require Import Lib.Base Generated.Consts Model.SdTypes Model.Config Model.Session Generated.LogicGen Proofs.AListFacts Proofs.C07Proofs.

Theorem gen_matches_offer_eq s e : gen_matches_offer s e = matches_offer s e.
Proof. reflexivity. Qed.
Theorem gen_matches_find_eq s e : gen_matches_find s e = matches_find s e.
Proof. reflexivity. Qed.
Theorem gen_matches_subscribe_eq s e : gen_matches_subscribe s e = matches_subscribe s e.
Proof. reflexivity. Qed.
Theorem gen_matches_service_eq a b : gen_matches_service a b = matches_service a b.
Proof.
  unfold gen_matches_service, matches_service, W_IID, W_MAJ, W_MIN.
  destruct (s_sid a =? s_sid b), (s_iid a =? 65535), (s_iid b =? 65535), (s_iid a =? s_iid b),
           (s_maj a =? 255), (s_maj b =? 255), (s_maj a =? s_maj b), (s_min a =? 4294967295), (s_min b =? 4294967295), (s_min a =? s_min b);
    reflexivity.
Qed.

Lemma aset_aset_same k v (l : list (in_key * (bool * N))) : aset in_key_eqb k v (aset in_key_eqb k v l) = aset in_key_eqb k v l.
Proof.
  induction l as [|[k2 v2] l IH]; cbn [aset].
  - rewrite (proj2 (in_key_eqb_eq k k) eq_refl). reflexivity.
  - destruct (in_key_eqb k k2) eqn:E; cbn [aset]; rewrite E; [reflexivity|]. rewrite IH. reflexivity.
Qed.

Theorem gen_check_received_eq s a mc f sid : gen_check_received s a mc f sid = check_received s a mc f sid.
Proof.
  unfold gen_check_received, check_received. cbv zeta.
  destruct (aget in_key_eqb (a, mc) (incoming s)) as [[old_flag old_sid]|].
  - destruct (f && (negb old_flag || (0 <? old_sid) && (sid <=? old_sid))); reflexivity.
  - rewrite aset_aset_same. reflexivity.
Qed.

Theorem gen_assign_outgoing_eq s d : gen_assign_outgoing s d = assign_outgoing s d.
Proof. reflexivity. Qed.
