(* SimpleService.client_subscribed and SimpleEventgroup.subscribe / unsubscribe of the service loop model
   (Model/ServiceStack.v) equal the decisions translated from the source text of service.py (Generated/LogicGen.v). *)
From Coq Require Import Lia.
From PS Require Import Lib.Base Generated.Consts Model.SdTypes Model.Config Model.Session Model.Skel Generated.LogicGen
  Model.ServiceStack.

(* the refusal rule: known eventgroup and exactly one endpoint, whatever the endpoints are *)
Theorem client_subscribed_is_the_translated_source eg eps w :
  exec_sapi (SSubscribe eg eps) w
  = if gen_client_subscribed_accepts (eg =? s_eg w) (N.of_nat (length eps))
    then match eps with e :: _ => eg_subscribe e w | [] => w end
    else semit SvNak w.
Proof.
  unfold gen_client_subscribed_accepts. cbn [exec_sapi]. destruct (eg =? s_eg w); cbn [negb andb]; [|reflexivity].
  destruct eps as [|e [|e2 l]]; [reflexivity|reflexivity|].
  replace (N.of_nat (length (e :: e2 :: l)) =? 1) with false; [reflexivity|].
  symmetry. apply N.eqb_neq. cbn [length]. lia.
Qed.
(* the per-endpoint counter of live subscriptions *)
Theorem eg_subscribe_counts_as_the_translated_source e w :
  s_eps (eg_subscribe e w)
  = match aget ep_eqb e (s_eps w) with
    | Some n => aset ep_eqb e (gen_eg_subscribe_count n) (s_eps w)
    | None => s_eps w ++ [(e, gen_eg_subscribe_count 0)]
    end.
Proof.
  unfold eg_subscribe, gen_eg_subscribe_count.
  set (eps := match aget ep_eqb e (s_eps w) with Some n => aset ep_eqb e (n + 1) (s_eps w) | None => s_eps w ++ [(e, 1)] end).
  set (wake := s_cy_waiting w && negb (s_has_clients w)).
  assert (H : forall w', s_eps (snd (snew (KSingle e EvAll None) w')) = s_eps w') by reflexivity.
  rewrite H. destruct (s_cy_task (sw_group eps true (if wake then false else s_cy_waiting w) w)); [destruct wake|]; reflexivity.
Qed.
Theorem eg_unsubscribe_is_the_translated_source e w :
  eg_unsubscribe e w
  = match gen_eg_unsubscribe (match aget ep_eqb e (s_eps w) with Some _ => true | None => false end)
                             (match aget ep_eqb e (s_eps w) with Some n => n | None => 0 end) with
    | None => (w, false)
    | Some r =>
        let eps := match r with None => adel ep_eqb e (s_eps w) | Some c => aset ep_eqb e c (s_eps w) end in
        (sw_group eps (match eps with [] => false | _ => s_has_clients w end) (s_cy_waiting w) w, true)
    end.
Proof.
  unfold eg_unsubscribe, gen_eg_unsubscribe. destruct (aget ep_eqb e (s_eps w)) as [n|]; cbn [negb]; [|reflexivity].
  cbv zeta. replace (n - 1 <=? 0) with (n <=? 1); [destruct (n <=? 1); reflexivity|].
  destruct (N.leb_spec n 1), (N.leb_spec (n - 1) 0); try reflexivity; lia.
Qed.
