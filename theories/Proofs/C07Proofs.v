(* C07 (reboot detection) and C08 (outgoing ids) over Model/Session.v. *)
From PS Require Import Lib.Base Model.Session Spec.C07Spec Spec.C08Spec Proofs.AListFacts.
From Coq Require Import Lia ZArith ZifyN ZifyBool.
Ltac Zify.zify_post_hook ::= Z.div_mod_to_equations.

Lemma in_key_eqb_eq (a b : in_key) : in_key_eqb a b = true <-> a = b.
Proof.
  destruct a as [a1 a2], b as [b1 b2]. unfold in_key_eqb. cbn [fst snd].
  rewrite andb_true_iff, N.eqb_eq, Bool.eqb_true_iff. split; [intros [-> ->]; reflexivity|intros H; inversion H; auto].
Qed.

Lemma dest_eqb_eq (a b : dest) : dest_eqb a b = true <-> a = b.
Proof.
  destruct a as [a|], b as [b|]; cbn; try rewrite N.eqb_eq; split; intros H; try discriminate; try congruence; reflexivity.
Qed.

Definition InvIn (s : sess) (revp : list rx) : Prop :=
  forall k, aget in_key_eqb k (incoming s) = last_same k revp.

Lemma check_step s revp a mc f sid :
  InvIn s revp ->
  fst (check_received s a mc f sid) = detect_code (last_same (a, mc) revp) f sid
  /\ InvIn (snd (check_received s a mc f sid)) ((a, mc, f, sid) :: revp).
Proof.
  intros Hinv. unfold check_received. rewrite (Hinv (a, mc)). split.
  - destruct (last_same (a, mc) revp) as [[of osid]|]; reflexivity.
  - assert (Hs : forall k, aget in_key_eqb k (aset in_key_eqb (a, mc) (f, sid) (incoming s))
                           = last_same k ((a, mc, f, sid) :: revp)).
    { intros k. cbn [last_same]. destruct (in_key_eqb k (a, mc)) eqn:E.
      - apply in_key_eqb_eq in E. subst k. apply (aget_aset_same in_key_eqb in_key_eqb_eq).
      - rewrite (aget_aset_other in_key_eqb in_key_eqb_eq).
        + apply Hinv.
        + intros Hk. subst k. rewrite (eqb_refl in_key_eqb in_key_eqb_eq) in E. discriminate. }
    destruct (last_same (a, mc) revp) as [[of osid]|]; exact Hs.
Qed.

Lemma run_check_spec : forall h s revp, InvIn s revp -> run_check s h = spec_go detect_code revp h.
Proof.
  induction h as [|[[[a mc] f] sid] h IH]; intros s revp Hinv; [reflexivity|].
  cbn [run_check spec_go]. pose proof (check_step s revp a mc f sid Hinv) as [H1 H2].
  destruct (check_received s a mc f sid) as [b s'] eqn:E. cbn [fst snd] in *.
  rewrite H1. f_equal. apply IH. exact H2.
Qed.

Lemma exact_code h : run_check sess_init h = spec_detect_code h.
Proof. apply run_check_spec. intros k. reflexivity. Qed.

Lemma detect_agree prev f sid : f12_at prev f sid = false -> detect_code prev f sid = detect_lit prev f sid.
Proof.
  destruct prev as [[of osid]|]; [|reflexivity]. unfold f12_at, detect_code, detect_lit.
  destruct f, of; cbn [andb orb negb]; try reflexivity.
  destruct osid as [|p]; [|intros _; reflexivity].
  destruct (N.eqb_spec sid 0) as [E|E]; [discriminate|]. intros _.
  destruct (N.leb_spec sid 0) as [E2|E2]; [lia|]. reflexivity.
Qed.

Lemma spec_go_agree : forall h revp,
  forallb negb (f12_go revp h) = true -> spec_go detect_code revp h = spec_go detect_lit revp h.
Proof.
  induction h as [|[[[a mc] f] sid] h IH]; intros revp H; [reflexivity|].
  cbn [f12_go forallb spec_go] in *. apply andb_true_iff in H. destruct H as [H1 H2].
  rewrite detect_agree by (destruct (f12_at _ _ _); [discriminate|reflexivity]).
  f_equal. apply IH. exact H2.
Qed.

Lemma exact h : f12_free h = true -> run_check sess_init h = spec_detect h.
Proof. intros H. rewrite exact_code. apply spec_go_agree. exact H. Qed.

Lemma exact_refuted : exists h, run_check sess_init h <> spec_detect h.
Proof. exists [(1, false, true, 0); (1, false, true, 0)]. vm_compute. discriminate. Qed.

(* corollaries of the literal specification *)
Lemma first_never prev f sid : prev = None -> detect_lit prev f sid = false.
Proof. intros ->. reflexivity. Qed.
Lemma clear_never prev sid : detect_lit prev false sid = false.
Proof. destruct prev as [[? ?]|]; reflexivity. Qed.
Lemma other_keys_ignored k a mc f sid revp :
  in_key_eqb k (a, mc) = false -> last_same k ((a, mc, f, sid) :: revp) = last_same k revp.
Proof. intros H. cbn [last_same]. rewrite H. reflexivity. Qed.

(* ---------------------------------------------------------------- C08 *)
Definition state_after (k : N) : bool * N := (k <? 65535, k mod 65535 + 1).

Definition InvOut (s : sess) (cnt : list (dest * N)) : Prop :=
  forall d, out_get s d = state_after (cnt_get cnt d).

Lemma assign_step s cnt d :
  InvOut s cnt ->
  fst (assign_outgoing s d) = (nth_flag (cnt_get cnt d + 1), nth_id (cnt_get cnt d + 1))
  /\ InvOut (snd (assign_outgoing s d)) (aset dest_eqb d (cnt_get cnt d + 1) cnt).
Proof.
  intros Hinv. unfold assign_outgoing. rewrite (Hinv d). unfold state_after.
  set (k := cnt_get cnt d). cbn [fst snd]. split.
  - unfold nth_flag, nth_id. f_equal; [lia|]. replace (k + 1 - 1) with k by lia. reflexivity.
  - intros d'. unfold out_get, cnt_get. cbn [outgoing].
    destruct (eqb_dec dest_eqb dest_eqb_eq d' d) as [->|Hne].
    + rewrite !(aget_aset_same dest_eqb dest_eqb_eq). unfold state_after.
      destruct (N.leb_spec 65535 (k mod 65535 + 1)) as [E|E]; f_equal; lia.
    + rewrite !(aget_aset_other dest_eqb dest_eqb_eq) by exact Hne. apply Hinv.
Qed.

Lemma run_assign_spec : forall ds s cnt, InvOut s cnt -> run_assign s ds = spec_assign cnt ds.
Proof.
  induction ds as [|d ds IH]; intros s cnt Hinv; [reflexivity|].
  cbn [run_assign spec_assign]. pose proof (assign_step s cnt d Hinv) as [H1 H2].
  destruct (assign_outgoing s d) as [v s'] eqn:E. cbn [fst snd] in *. rewrite H1. f_equal.
  apply IH. exact H2.
Qed.

Lemma assign_cycle ds : run_assign sess_init ds = spec_assign [] ds.
Proof. apply run_assign_spec. intros d. reflexivity. Qed.

Lemma nth_id_range k : 1 <= nth_id k <= 65535.
Proof. unfold nth_id. lia. Qed.
Lemma nth_id_succ k : 1 <= k -> nth_id (k + 1) = if nth_id k =? 65535 then 1 else nth_id k + 1.
Proof. intros H. unfold nth_id. destruct (N.eqb_spec ((k - 1) mod 65535 + 1) 65535); lia. Qed.
Lemma nth_id_first : nth_id 1 = 1. Proof. reflexivity. Qed.
