(* Shifts and masks: packing two fields into one number and taking them apart again. *)
From Coq Require Import NArith Lia Bool.
Open Scope N_scope.

Lemma testbit_high lo k m : lo < 2 ^ k -> k <= m -> N.testbit lo m = false.
Proof.
  intros Hlo Hm. destruct (N.eq_dec lo 0) as [->|Hz]; [apply N.bits_0|].
  apply N.bits_above_log2. apply N.lt_le_trans with k; [|exact Hm].
  apply N.log2_lt_pow2; [lia|exact Hlo].
Qed.

Lemma split_join t k : N.lor (N.shiftl (N.shiftr t k) k) (N.land t (N.ones k)) = t.
Proof.
  apply N.bits_inj. intros n. rewrite N.lor_spec, N.land_spec.
  destruct (N.ltb_spec n k) as [H|H].
  - rewrite N.shiftl_spec_low by exact H. rewrite N.ones_spec_low by exact H.
    rewrite andb_true_r. reflexivity.
  - rewrite N.shiftl_spec_high' by exact H. rewrite N.shiftr_spec'. rewrite N.ones_spec_high by exact H.
    rewrite andb_false_r, orb_false_r. f_equal. lia.
Qed.

Lemma join_hi hi lo k : lo < 2 ^ k -> N.shiftr (N.lor (N.shiftl hi k) lo) k = hi.
Proof.
  intros Hlo. apply N.bits_inj. intros n. rewrite N.shiftr_spec', N.lor_spec.
  rewrite N.shiftl_spec_high' by lia. rewrite (testbit_high lo k (n + k)) by (try exact Hlo; lia).
  rewrite orb_false_r. f_equal. lia.
Qed.

Lemma join_lo hi lo k : lo < 2 ^ k -> N.land (N.lor (N.shiftl hi k) lo) (N.ones k) = lo.
Proof.
  intros Hlo. apply N.bits_inj. intros n. rewrite N.land_spec, N.lor_spec.
  destruct (N.ltb_spec n k) as [H|H].
  - rewrite N.shiftl_spec_low by exact H. rewrite N.ones_spec_low by exact H. rewrite andb_true_r. reflexivity.
  - rewrite N.ones_spec_high by exact H. rewrite andb_false_r. symmetry. apply (testbit_high lo k n Hlo H).
Qed.

Lemma join_bound hi lo k j : hi < 2 ^ j -> lo < 2 ^ k -> N.lor (N.shiftl hi k) lo < 2 ^ (j + k).
Proof.
  intros Hhi Hlo.
  destruct (N.eq_dec (N.lor (N.shiftl hi k) lo) 0) as [->|Hz]; [apply N.neq_0_lt_0; apply N.pow_nonzero; lia|].
  assert (Hjk : 0 < j + k).
  { destruct (N.eq_dec (j + k) 0) as [E|E]; [|lia]. exfalso. apply Hz.
    assert (j = 0) by lia. assert (k = 0) by lia. subst. cbn in Hhi, Hlo.
    assert (hi = 0) by lia. assert (lo = 0) by lia. subst. reflexivity. }
  apply N.log2_lt_pow2; [lia|].
  rewrite N.log2_lor.
  apply N.max_lub_lt.
  - destruct (N.eq_dec hi 0) as [->|Hh]; [rewrite N.shiftl_0_l; cbn; lia|].
    rewrite N.log2_shiftl by exact Hh. apply N.log2_lt_pow2 in Hhi; lia.
  - destruct (N.eq_dec lo 0) as [->|Hl]; [cbn; lia|]. apply N.log2_lt_pow2 in Hlo; lia.
Qed.

Lemma shiftr_bound t k j : t < 2 ^ (j + k) -> N.shiftr t k < 2 ^ j.
Proof.
  intros H. rewrite N.shiftr_div_pow2. apply N.div_lt_upper_bound; [apply N.pow_nonzero; lia|].
  rewrite <- N.pow_add_r. rewrite N.add_comm. exact H.
Qed.

Lemma land_ones_bound t k : N.land t (N.ones k) < 2 ^ k.
Proof. rewrite N.land_ones. apply N.mod_lt. apply N.pow_nonzero. lia. Qed.

Lemma ones16 : 65535 = N.ones 16. Proof. reflexivity. Qed.
Lemma ones4 : 15 = N.ones 4. Proof. reflexivity. Qed.
