(* SD options: encode/decode round trip for every option kind. *)
From PS Require Import Lib.Base Lib.Struct Generated.Consts Model.SdTypes Model.SdCodec.
From PS Require Import Proofs.StructFacts.
From Coq Require Import Lia ZArith ZifyN ZifyBool ZifyNat.

Notation cfg_item := (list N * option (list N))%type (only parsing).

(* a configuration item the property allows: key without '=', and not the degenerate empty item *)
Definition wf_cfg (c : cfg_item) : Prop :=
  ~ In 61 (fst c) /\ (fst c <> [] \/ snd c <> None).

Definition wf_opt (o : sdopt) : Prop :=
  match o with
  | OUnknown ty p => registry_get ty = None
  | OLoadBal _ _ => True
  | OConfig cfgs => Forall wf_cfg cfgs
  | OIP c a _ _ => (2 <= c <= 7)
  end.

Definition enc_item (c : cfg_item) : bytes :=
  match c with
  | (k, Some v) => [len k + len v + 1] ++ k ++ [61] ++ v
  | (k, None) => [len k] ++ k
  end.

Lemma encode_ascii_ok s b : encode_ascii s = Ok b -> b = s /\ decode_ascii s = Ok s.
Proof.
  unfold encode_ascii, decode_ascii. destruct (forallb _ s); [|discriminate]. intros H; injection H as <-. auto.
Qed.

Lemma build_cfgs_enc : forall cfgs buf out,
  build_cfgs buf cfgs = Ok out ->
  out = buf ++ concat (map enc_item cfgs)
  /\ Forall (fun c => decode_ascii (fst c) = Ok (fst c)
                      /\ match snd c with Some v => decode_ascii v = Ok v | None => True end
                      /\ match enc_item c with l :: _ => l < 256 | [] => False end) cfgs.
Proof.
  induction cfgs as [|[k [v|]] cfgs IH]; intros buf out H; cbn [build_cfgs] in H.
  - injection H as <-. cbn. rewrite app_nil_r. auto.
  - unfold byte_append in H. destruct (N.ltb_spec (len k + len v + 1) 256) as [E|E]; cbn [bind] in H; [|discriminate].
    destruct (encode_ascii k) as [kb|] eqn:Ek; cbn [bind] in H; [|discriminate].
    destruct (encode_ascii v) as [vb|] eqn:Ev; cbn [bind] in H; [|discriminate].
    apply encode_ascii_ok in Ek. destruct Ek as [-> Dk]. apply encode_ascii_ok in Ev. destruct Ev as [-> Dv].
    apply IH in H. destruct H as [-> HF]. split.
    + cbn [map concat enc_item]. rewrite <- !app_assoc. reflexivity.
    + constructor; [|exact HF]. cbn [fst snd enc_item app]. auto.
  - unfold byte_append in H. destruct (N.ltb_spec (len k) 256) as [E|E]; cbn [bind] in H; [|discriminate].
    destruct (encode_ascii k) as [kb|] eqn:Ek; cbn [bind] in H; [|discriminate].
    apply encode_ascii_ok in Ek. destruct Ek as [-> Dk].
    apply IH in H. destruct H as [-> HF]. split.
    + cbn [map concat enc_item]. rewrite <- !app_assoc. reflexivity.
    + constructor; [|exact HF]. cbn [fst snd enc_item app]. auto.
Qed.

Lemma find_byte_go_none x l i : ~ In x l ->
  (fix go (i : nat) (l : bytes) : option nat :=
     match l with [] => None | y :: r => if y =? x then Some i else go (S i) r end) i l = None.
Proof.
  revert i. induction l as [|y l IH]; intros i H; [reflexivity|].
  destruct (N.eqb_spec y x) as [E|E]; [exfalso; apply H; left; exact E|].
  apply IH. intros Hi. apply H. right. exact Hi.
Qed.

Lemma find_byte_none x l : ~ In x l -> find_byte x l = None.
Proof. apply find_byte_go_none. Qed.

Lemma find_byte_go_first x k v i : ~ In x k ->
  (fix go (i : nat) (l : bytes) : option nat :=
     match l with [] => None | y :: r => if y =? x then Some i else go (S i) r end) i (k ++ x :: v)
  = Some (i + length k)%nat.
Proof.
  revert i. induction k as [|y k IH]; intros i H; cbn [app length].
  - rewrite N.eqb_refl. f_equal. lia.
  - destruct (N.eqb_spec y x) as [E|E]; [exfalso; apply H; left; exact E|].
    rewrite IH by (intros Hi; apply H; right; exact Hi). f_equal. lia.
Qed.

Lemma find_byte_first x k v : ~ In x k -> find_byte x (k ++ x :: v) = Some (length k).
Proof. intros H. unfold find_byte. rewrite find_byte_go_first by exact H. reflexivity. Qed.

Lemma enc_item_shape c : exists l body, enc_item c = l :: body /\ len body = l.
Proof.
  destruct c as [k [v|]]; cbn [enc_item app].
  - eexists _, _. split; [reflexivity|]. rewrite len_app, len_cons. lia.
  - eexists _, _. split; [reflexivity|]. reflexivity.
Qed.

Lemma parse_cfgs_enc : forall cfgs fuel acc tail,
  Forall wf_cfg cfgs ->
  Forall (fun c => decode_ascii (fst c) = Ok (fst c)
                   /\ match snd c with Some v => decode_ascii v = Ok v | None => True end
                   /\ match enc_item c with l :: _ => l < 256 | [] => False end) cfgs ->
  (length cfgs < fuel)%nat ->
  match concat (map enc_item cfgs) ++ 0 :: tail with
  | nl :: b => parse_cfgs fuel nl b acc = Ok (rev acc ++ cfgs)
  | [] => False
  end.
Proof.
  induction cfgs as [|c cfgs IH]; intros fuel acc tail Hwf Henc Hfuel.
  - cbn [map concat app]. destruct fuel; cbn [parse_cfgs]; rewrite app_nil_r; reflexivity.
  - inversion Hwf as [|? ? Hc Hcs]; subst. inversion Henc as [|? ? He Hes]; subst.
    destruct fuel as [|f]; [cbn in Hfuel; lia|].
    destruct (enc_item_shape c) as (l & body & Hshape & Hbl).
    cbn [map concat]. rewrite Hshape. cbn [app]. rewrite <- app_assoc.
    specialize (IH f (c :: acc) tail Hcs Hes ltac:(cbn in Hfuel; lia)).
    destruct (concat (map enc_item cfgs) ++ 0 :: tail) as [|nl rest] eqn:Erest; [contradiction|].
    (* l is non-zero because the item is not degenerate *)
    assert (Hl0 : l <> 0).
    { destruct Hc as [_ Hnd]. destruct c as [k [v|]]; cbn [enc_item app fst snd] in Hshape, Hnd; injection Hshape as <- _.
      - lia.
      - destruct Hnd as [Hk|Hv]; [|congruence]. destruct k; [congruence|]. rewrite len_cons. lia. }
    cbn [parse_cfgs]. destruct (N.eqb_spec l 0) as [E|_]; [contradiction|].
    rewrite len_app, Hbl. rewrite len_cons.
    destruct (N.ltb_spec (l + (len rest + 1)) (l + 1)) as [E|E]; [lia|].
    rewrite <- Hbl. rewrite takeN_app_exact, dropN_app_exact.
    destruct Hc as [Hno61 _]. destruct He as (Dk & Dv & _).
    destruct c as [k [v|]]; cbn [enc_item app fst snd] in *; injection Hshape as _ <-.
    + rewrite find_byte_first by exact Hno61. rewrite firstn_app, Nat.sub_diag, firstn_all. cbn [firstn]. rewrite app_nil_r.
      replace (skipn (S (length k)) (k ++ 61 :: v)) with v.
      2:{ clear. induction k as [|y k IHk]; [reflexivity|]. cbn [length app skipn]. exact IHk. }
      rewrite Dk, Dv. cbn [bind]. rewrite IH. cbn [rev]. rewrite <- app_assoc. reflexivity.
    + rewrite find_byte_none by exact Hno61. rewrite Dk. cbn [bind]. rewrite IH. cbn [rev]. rewrite <- app_assoc. reflexivity.
Qed.

Lemma registry_classes :
  registry_get OT_0 = Some 0 /\ registry_get OT_1 = Some 1 /\
  (forall c, 2 <= c <= 7 -> registry_get (cls_type c) = Some c).
Proof.
  split; [reflexivity|]. split; [reflexivity|]. intros c Hc.
  assert (H : c = 2 \/ c = 3 \/ c = 4 \/ c = 5 \/ c = 6 \/ c = 7) by lia.
  destruct H as [->|[->|[->|[->|[->| ->]]]]]; reflexivity.
Qed.

Lemma option_hdr_parse ty body b r :
  build_option_hdr ty body = Ok b ->
  unpack fmt_sdoption (b ++ r) = Ok ([VI (len body); VI ty], body ++ r).
Proof.
  unfold build_option_hdr. destruct (pack fmt_sdoption _) as [h|] eqn:Hp; cbn [bind]; [|discriminate].
  intros H; injection H as <-. rewrite <- app_assoc. apply unpack_pack. exact Hp.
Qed.

Lemma ip_fmt_shape c : exists k, (if is_v6_cls c then fmt_ipv6 else fmt_ipv4) = [U8; Raw k; U8; U8; U16].
Proof. destruct (is_v6_cls c); eexists; reflexivity. Qed.

Theorem option_roundtrip o b r :
  wf_opt o -> build_option o = Ok b -> parse_option (b ++ r) = Ok (o, r).
Proof.
  intros Hwf Hb. unfold parse_option. destruct o as [ty p|prio w|cfgs|c a proto port]; cbn [build_option wf_opt] in *.
  - rewrite (option_hdr_parse _ _ _ _ Hb). cbn [bind].
    rewrite len_app. destruct (N.ltb_spec (len p + len r) (len p)) as [E|E]; [lia|].
    rewrite takeN_app_exact, dropN_app_exact, Hwf. reflexivity.
  - destruct (pack [U8; U16; U16] _) as [body|] eqn:Hp; cbn [bind] in Hb; [|discriminate].
    rewrite (option_hdr_parse _ _ _ _ Hb). cbn [bind].
    rewrite len_app. destruct (N.ltb_spec (len body + len r) (len body)) as [E|E]; [lia|].
    rewrite takeN_app_exact, dropN_app_exact. destruct registry_classes as (-> & _ & _). cbn [bind].
    unfold parse_option_body. pose proof (pack_len _ _ _ Hp) as Hl. cbn in Hl. rewrite Hl. cbn [N.eqb Pos.eqb negb].
    cbn [pack] in Hp. destruct (pack1 U8 (VI 0)) as [b1|] eqn:H1; cbn [bind] in Hp; [|discriminate].
    destruct (pack1 U16 (VI prio)) as [b2|] eqn:H2; cbn [bind] in Hp; [|discriminate].
    destruct (pack1 U16 (VI w)) as [b3|] eqn:H3; cbn [bind] in Hp; [|discriminate].
    injection Hp as <-. rewrite app_nil_r.
    replace 1 with (len b1) by (apply pack1_len in H1; exact H1). rewrite dropN_app_exact.
    assert (Hp2 : pack [U16; U16] [VI prio; VI w] = Ok (b2 ++ b3)).
    { cbn [pack]. rewrite H2, H3. cbn [bind]. rewrite app_nil_r. reflexivity. }
    rewrite (unpack_all_pack _ _ _ Hp2). reflexivity.
  - destruct (build_cfgs [0] cfgs) as [buf|] eqn:Hc; cbn [bind] in Hb; [|discriminate].
    rewrite (option_hdr_parse _ _ _ _ Hb). cbn [bind].
    rewrite len_app. destruct (N.ltb_spec (len (buf ++ [0]) + len r) (len (buf ++ [0]))) as [E|E]; [lia|].
    rewrite takeN_app_exact, dropN_app_exact. destruct registry_classes as (_ & -> & _). cbn [bind].
    apply build_cfgs_enc in Hc. destruct Hc as [-> Henc].
    unfold parse_option_body.
    destruct (N.ltb_spec (len (([0] ++ concat (map enc_item cfgs)) ++ [0])) 2) as [E2|E2].
    { rewrite !len_app in E2. change (len [0]) with 1 in E2. lia. }
    cbn [app]. unfold dropN. cbn [N.to_nat Pos.to_nat Pos.iter_op Nat.add skipn].
    pose proof (parse_cfgs_enc cfgs (length (0 :: concat (map enc_item cfgs) ++ [0])) [] [] Hwf Henc) as Hpc.
    destruct (concat (map enc_item cfgs) ++ [0]) as [|nl rest] eqn:Erest.
    { destruct (concat (map enc_item cfgs)); discriminate. }
    change (skipn (Pos.to_nat 1) (0 :: nl :: rest)) with (nl :: rest). lazy beta iota.
    rewrite Hpc; [reflexivity|].
    (* fuel: every item contributes at least one byte *)
    rewrite <- Erest. cbn [length]. rewrite app_length. cbn [length].
    assert (Hlen : (length cfgs <= length (concat (map enc_item cfgs)))%nat).
    { clear. induction cfgs as [|c cfgs IH]; cbn [map concat length]; [lia|].
      rewrite app_length. destruct (enc_item_shape c) as (l & body & -> & _). cbn [length]. lia. }
    lia.
  - destruct (ip_fmt_shape c) as (k & Hf). rewrite Hf in Hb.
    destruct (pack [U8; Raw k; U8; U8; U16] _) as [body|] eqn:Hp; cbn [bind] in Hb; [|discriminate].
    rewrite (option_hdr_parse _ _ _ _ Hb). cbn [bind].
    rewrite len_app. destruct (N.ltb_spec (len body + len r) (len body)) as [E|E]; [lia|].
    rewrite takeN_app_exact, dropN_app_exact. destruct registry_classes as (_ & _ & Hreg).
    rewrite (Hreg c Hwf). cbn [bind].
    unfold parse_option_body.
    assert (Hc : match c with 0 | 1 => False | _ => True end).
    { destruct c as [|[[|[]|]|[|[]|]|]]; cbn; auto; lia. }
    destruct c as [|[[|[]|]|[|[]|]|]]; try contradiction;
      cbn [is_v6_cls N.leb N.compare Pos.compare Pos.compare_cont] in *; rewrite Hf;
      rewrite (pack_len _ _ _ Hp), N.eqb_refl; cbn [negb];
      rewrite (unpack_all_pack _ _ _ Hp); reflexivity.
Qed.
