(* C16: the method-call decision chain equals the reply table. *)
From PS Require Import Lib.Base Generated.Consts Model.SdTypes Model.ServiceRecv Spec.C16Spec.

Lemma reply_spec svc ver ms m mc h : fst (service_receive svc ver ms m mc h) = spec_reply svc ver ms m mc h.
Proof.
  unfold service_receive, spec_reply, spec_verdict.
  destruct mc; [reflexivity|].
  destruct (m_sid m =? svc); cbn [negb]; [|reflexivity].
  destruct (m_iv m =? ver); cbn [negb]; [|reflexivity].
  destruct (memN (m_mid m) ms); cbn [negb]; [|reflexivity].
  change MT_REQUEST with 0. change MT_REQUEST_NO_RETURN with 1. change RC_E_OK with 0.
  destruct ((m_mt m =? 0) || (m_mt m =? 1)); cbn [negb]; [|reflexivity].
  destruct (N.eqb_spec (m_rc m) 0) as [E|E]; cbn [negb]; [|reflexivity].
  destruct h; try reflexivity.
  destruct (m_mt m =? 0); [|reflexivity].
  cbn [fst reply_of]. unfold positive_response. rewrite E. reflexivity.
Qed.

Lemma ff_no_response svc ver ms m mc h r :
  m_mt m = 1 -> spec_reply svc ver ms m mc h = Some r -> m_mt r = 129.
Proof.
  intros Hmt. unfold spec_reply, spec_verdict. rewrite Hmt.
  change (1 =? 0) with false. change (1 =? 1) with true. cbn [orb negb].
  repeat match goal with
         | |- context [if ?c then _ else _] => destruct c
         | |- context [match ?h with HBytes _ => _ | _ => _ end] => destruct h
         end; cbn [reply_of]; intros H; inversion H; reflexivity.
Qed.

Lemma reply_correlated svc ver ms m mc h r :
  spec_reply svc ver ms m mc h = Some r ->
  m_sid r = m_sid m /\ m_mid r = m_mid m /\ m_cid r = m_cid m /\ m_sess r = m_sess m
  /\ m_iv r = m_iv m /\ m_pv r = m_pv m
  /\ ((m_mt r = 129 /\ m_payload r = []) \/ (m_mt r = 128 /\ m_rc r = 0)).
Proof.
  unfold spec_reply. destruct (spec_verdict svc ver ms m mc h); cbn [reply_of]; intros H; inversion H; cbn; tauto.
Qed.

Lemma multicast_silent svc ver ms m h : spec_reply svc ver ms m true h = None.
Proof. reflexivity. Qed.

Lemma handler_called_iff svc ver ms m mc h :
  snd (service_receive svc ver ms m mc h) = true <->
  (mc = false /\ m_sid m = svc /\ m_iv m = ver /\ memN (m_mid m) ms = true
   /\ (m_mt m = 0 \/ m_mt m = 1) /\ m_rc m = 0).
Proof.
  unfold service_receive. change MT_REQUEST with 0. change MT_REQUEST_NO_RETURN with 1. change RC_E_OK with 0.
  destruct mc; [cbn; split; [discriminate|intros [H _]; discriminate]|].
  destruct (N.eqb_spec (m_sid m) svc); cbn [negb snd]; [|split; [discriminate|tauto]].
  destruct (N.eqb_spec (m_iv m) ver); cbn [negb snd]; [|split; [discriminate|tauto]].
  destruct (memN (m_mid m) ms); cbn [negb snd]; [|split; [discriminate|intros (_&_&_&H&_); discriminate]].
  destruct (N.eqb_spec (m_mt m) 0); destruct (N.eqb_spec (m_mt m) 1); cbn [orb negb snd];
    destruct (N.eqb_spec (m_rc m) 0); cbn [negb snd];
    try (split; [discriminate|intros (_&_&_&_&[H|H]&H2); congruence]);
    (split; [intros _; tauto|intros _]); destruct h; try reflexivity; destruct (m_mt m =? 0); reflexivity.
Qed.
