(* The TIME-DEPENDENT whole-run invariants of one stack, for both stacks of the two-stack composition, as long as every
   settle of the run completed (sy_ok: no iteration budget ran out): then every stack is quiet between the instants of
   the composition (nothing ready, nothing due), its clock is the composition's, and the composition never moves a
   clock past a live timer.  Generic in the invariant: it holds in a fresh world, is kept by one loop iteration, and
   survives a move of the clock of a quiet stack to an instant not later than any of its live timers. *)
From Coq Require Import Lia.
From PS Require Import Lib.Base Generated.Consts Model.SdTypes Model.Config Model.Session Model.StackTypes Model.Stack
  Model.StackIO Model.System Proofs.WorldInv Proofs.WorldInv2 Proofs.WorldTime Proofs.WorldDeadline Proofs.SystemProofs.

Lemma settle_ok : forall fuel arr rv w x, settle fuel arr rv w = (x, true) -> ready x = [] /\ due_now x = false.
Proof.
  induction fuel as [|f IH]; intros arr rv w x H; cbn [settle] in H; [discriminate|].
  destruct (ready w) as [|r0 r] eqn:Er; [destruct arr as [|a ar]; [destruct (due_now w) eqn:Ed|]|]; try (eapply IH; exact H).
  injection H as <-. split; assumption.
Qed.
Lemma settle_now : forall fuel arr rv w, now (fst (settle fuel arr rv w)) = now w.
Proof.
  induction fuel as [|f IH]; intros arr rv w; cbn [settle fst]; [reflexivity|].
  destruct (ready w) as [|r0 r]; [destruct arr as [|a ar]; [destruct (due_now w)|]|]; try (rewrite IH; apply (cx_now _ _ (cext_iteration _ _ _))).
  reflexivity.
Qed.
Lemma omin_le_l a b t m : omin a b = Some t -> a = Some m -> t <= m.
Proof. intros H ->. destruct b; cbn in H; injection H as <-; lia. Qed.
Lemma omin_le_r a b t m : omin a b = Some t -> b = Some m -> t <= m.
Proof. intros H ->. destruct a; cbn in H; injection H as <-; lia. Qed.
Lemma not_due_timers w : due_now w = false -> forall tm, In tm (timers w) -> memN (snd (fst tm)) (cancelled w) = false -> now w < fst (fst tm).
Proof.
  unfold due_now. intros H tm Hin Hc. destruct (next_timer w) as [m|] eqn:En.
  - pose proof (next_timer_le w m En tm Hin Hc). apply N.leb_gt in H. lia.
  - rewrite next_timer_fold in En. destruct (nt_fold_none w _ _ En) as [_ Hall]. rewrite (Hall _ Hin) in Hc. discriminate.
Qed.

Section SysInvT.
  Variable I : world -> Prop.
  Hypothesis I_iteration : forall arrivals rv w, all_notexp arrivals -> I w -> I (iteration arrivals rv w).
  Hypothesis I_set_now : forall t w, I w -> ready w = [] -> now w <= t ->
    (forall tm, In tm (timers w) -> memN (snd (fst tm)) (cancelled w) = false -> t <= fst (fst tm)) -> I (set_now t w).
  Hypothesis I_fresh : forall t nd, fresh_insts (nd_insts nd) -> I (fresh_world t nd).

  Lemma IT_settle : forall fuel arr rv w, all_notexp arr -> I w -> I (fst (settle fuel arr rv w)).
  Proof.
    induction fuel as [|f IH]; intros arr rv w Ha Hg; cbn [settle fst]; [exact Hg|].
    destruct (ready w) as [|x r] eqn:Er; [destruct arr as [|a ar]; [destruct (due_now w)|]|];
      try (apply IH; [constructor|apply I_iteration; assumption]). exact Hg.
  Qed.

  (* a stack between two instants of the composition *)
  Definition quiet (tnow : N) (x : world) : Prop := I x /\ ready x = [] /\ due_now x = false /\ now x = tnow.
  Definition okT (tnow : N) (w : option world) : Prop := forall x, w = Some x -> quiet tnow x.

  Lemma quiet_fresh t nd : fresh_insts (nd_insts nd) -> quiet t (fresh_world t nd).
  Proof. intros Hf. split; [apply I_fresh, Hf|]. repeat split. Qed.

  (* moving a quiet stack's clock to an instant of the composition *)
  Lemma quiet_advance t0 t x : quiet t0 x -> t0 <= t -> (forall m, next_timer x = Some m -> t <= m) ->
    I (set_now (N.max t (now x)) x) /\ now (set_now (N.max t (now x)) x) = t.
  Proof.
    intros (Hi & Hr & Hd & Hn) Hle Hnt. assert (Hmax : N.max t (now x) = t) by lia. rewrite Hmax. split; [|reflexivity].
    apply I_set_now; [exact Hi|exact Hr|lia|]. intros tm Hin Hc.
    destruct (next_timer x) as [m|] eqn:En.
    - pose proof (next_timer_le x m En tm Hin Hc). specialize (Hnt m eq_refl). lia.
    - rewrite next_timer_fold in En. destruct (nt_fold_none x _ _ En) as [_ Hall]. rewrite (Hall _ Hin) in Hc. discriminate.
  Qed.

  Lemma IT_node_step t0 t b nd fuel rv ctls arrived w tr : fresh_insts (nd_insts nd) -> okT t0 w -> t0 <= t ->
    (forall x m, w = Some x -> next_timer x = Some m -> t <= m) ->
    snd (node_step t b nd fuel rv ctls arrived w tr) = true ->
    okT t (fst (fst (fst (node_step t b nd fuel rv ctls arrived w tr)))).
  Proof.
    intros Hf Hw Hle Hnt. unfold node_step.
    set (acc0 := (w, tr, @nil handle)).
    (* after the control events the world is the old (quiet at t0) one or a fresh one (quiet at t) *)
    assert (Hfold : forall l acc, (forall x, fst (fst acc) = Some x -> (quiet t0 x /\ (forall m, next_timer x = Some m -> t <= m)) \/ quiet t x) ->
              all_notexp (snd acc) ->
              let r := fold_left (fun acc c => let '(w0, tr0, ap) := acc in
                       match c with
                       | CCrash => (None, match w0 with Some x => out x ++ tr0 | None => tr0 end, [])
                       | CRestart => match w0 with Some _ => (w0, tr0, ap) | None => (Some (fresh_world t nd), tr0, map HApi (nd_init nd)) end
                       | CApi a => (w0, tr0, ap ++ [HApi a])
                       end) l acc in
              (forall x, fst (fst r) = Some x -> (quiet t0 x /\ (forall m, next_timer x = Some m -> t <= m)) \/ quiet t x) /\ all_notexp (snd r)).
    { induction l as [|c l IH]; intros [[w0 tr0] ap] Ha Hn; cbn [fold_left]; cbv zeta; [split; assumption|]. cbn [fst snd] in Ha, Hn. apply IH.
      - destruct c as [a| |]; cbn [fst]; [exact Ha|intros x Hx; discriminate|].
        destruct w0; cbn [fst]; [exact Ha|]. intros x Hx. injection Hx as <-. right. apply quiet_fresh, Hf.
      - destruct c as [a| |]; cbn [snd]; [apply Forall_app; split; [exact Hn|constructor; [reflexivity|constructor]]|constructor|].
        destruct w0; cbn [snd]; [exact Hn|]. apply Forall_forall. intros h Hh. apply in_map_iff in Hh. destruct Hh as (c & <- & _). reflexivity. }
    destruct (Hfold ctls acc0) as [Hf1 Hf2].
    { cbn [fst acc0]. intros x Hx. left. split; [apply Hw, Hx|intros m Hm; eapply Hnt; eauto]. }
    { constructor. }
    cbv zeta in Hf1, Hf2. destruct (fold_left _ ctls acc0) as [[w1 tr1] apis]. cbn [fst snd] in Hf1, Hf2.
    destruct w1 as [x|]; [|cbn [fst snd]; intros _ y Hy; discriminate].
    assert (Hx0 : I (set_now (N.max t (now x)) x) /\ now (set_now (N.max t (now x)) x) = t).
    { destruct (Hf1 x eq_refl) as [[Hq Hm]|Hq]; [exact (quiet_advance t0 t x Hq Hle Hm)|].
      apply (quiet_advance t t x Hq (N.le_refl t)). intros m Hm. destruct Hq as (_ & _ & Hd & Hn). unfold due_now in Hd. rewrite Hm in Hd. apply N.leb_gt in Hd. lia. }
    destruct Hx0 as [Hx0 Hn0].
    assert (Hr0 : ready (set_now (N.max t (now x)) x) = []) by (destruct (Hf1 x eq_refl) as [[Hq _]|Hq]; apply Hq).
    assert (Hhs : all_notexp (apis ++ map (fun d => HDatagram (dg_from d) (dg_mc d) (dg_data d)) arrived)).
    { apply Forall_app. split; [exact Hf2|]. apply Forall_forall. intros h Hh. apply in_map_iff in Hh. destruct Hh as (d & <- & _). reflexivity. }
    set (hs := apis ++ _) in *. clearbody hs. set (x0 := set_now (N.max t (now x)) x) in *.
    assert (Hset : snd (let '(x1, ok) := settle fuel hs rv x0 in (Some x1, tr1, new_sends (out x0) (out x1), ok)) = true ->
                   okT t (fst (fst (fst (let '(x1, ok) := settle fuel hs rv x0 in (Some x1, tr1, new_sends (out x0) (out x1), ok)))))).
    { pose proof (IT_settle fuel hs rv x0 Hhs Hx0) as Hq. pose proof (settle_now fuel hs rv x0) as Hnn.
      destruct (settle fuel hs rv x0) as [x1 ok] eqn:Es. cbn [fst snd] in *. intros Hok y Hy. injection Hy as <-. subst ok.
      destruct (settle_ok _ _ _ _ _ Es) as [S1 S2]. split; [exact Hq|]. split; [exact S1|]. split; [exact S2|]. rewrite Hnn. exact Hn0. }
    destruct hs as [|h0 hs']; [rewrite Hr0; destruct (due_now x0) eqn:Ed|]; try exact Hset.
    cbn [fst snd]. intros _ y Hy. injection Hy as <-. split; [exact Hx0|]. split; [exact Hr0|]. split; [exact Ed|exact Hn0].
  Qed.

  Definition sysT (s : sys) : Prop := sy_ok s = true -> okT (sy_now s) (sy_a s) /\ okT (sy_now s) (sy_b s).

  Lemma enqueue_ok t lat fe from to_ other : forall sends s,
    sy_ok (enqueue t lat fe from to_ sends other s) = sy_ok s /\ sy_now (enqueue t lat fe from to_ sends other s) = sy_now s.
  Proof.
    induction sends as [|[d data] sends IH]; intros s; [split; reflexivity|]. rewrite enqueue_cons.
    match goal with |- context [enqueue _ _ _ _ _ sends _ ?s1] => destruct (IH s1) as [-> ->] end.
    destruct (t <? fe); [destruct (sy_dec s)|]; split; reflexivity.
  Qed.

  Lemma omin_some_l a b m : a = Some m -> exists m', omin a b = Some m' /\ m' <= m.
  Proof. intros ->. destruct b as [y|]; cbn [omin]; eexists; split; try reflexivity; lia. Qed.
  Lemma omin_some_r a b m : b = Some m -> exists m', omin a b = Some m' /\ m' <= m.
  Proof. intros ->. destruct a as [y|]; cbn [omin]; eexists; split; try reflexivity; lia. Qed.

  (* the next instant of the composition is not later than any live timer of a quiet stack *)
  Lemma instant_before_timers sc evs s t0 x m : next_instant sc evs s = Some t0 ->
    (sy_a s = Some x \/ sy_b s = Some x) -> quiet (sy_now s) x -> next_timer x = Some m -> N.max t0 (sy_now s) <= m.
  Proof.
    intros En Hw (_ & _ & Hd & Hn) Hm. unfold due_now in Hd. rewrite Hm in Hd. apply N.leb_gt in Hd.
    assert (Ht0 : t0 <= m).
    { unfold next_instant in En. destruct Hw as [Hx|Hx].
      - destruct (omin_some_l (opt_next_timer (sy_a s)) (opt_next_timer (sy_b s)) m) as (m1 & E1 & L1); [rewrite Hx; exact Hm|].
        pose proof (omin_le_l _ _ _ _ En E1). lia.
      - destruct (omin_some_r (opt_next_timer (sy_a s)) (opt_next_timer (sy_b s)) m) as (m1 & E1 & L1); [rewrite Hx; exact Hm|].
        pose proof (omin_le_l _ _ _ _ En E1). lia. }
    lia.
  Qed.

  Theorem sys_run_T sc : fresh_insts (nd_insts (ss_a sc)) -> fresh_insts (nd_insts (ss_b sc)) ->
    forall fuel evs s, sysT s -> sysT (fst (sys_run fuel sc evs s)).
  Proof.
    intros Ha Hb. induction fuel as [|f IH]; intros evs s Hs; cbn [sys_run fst]; [exact Hs|].
    destruct (next_instant sc evs s) as [t0|] eqn:En; [|exact Hs].
    destruct (ss_end sc <? N.max t0 (sy_now s)); [exact Hs|]. cbv zeta.
    set (t := N.max t0 (sy_now s)).
    match goal with |- context [node_step t false ?nd ?fu ?rv ?c ?ar (sy_a s) ?tr] =>
      pose proof (fun H1 H2 => IT_node_step (sy_now s) t false nd fu rv c ar (sy_a s) tr Ha H1 (N.le_max_r _ _) H2) as Ka;
      destruct (node_step t false nd fu rv c ar (sy_a s) tr) as [[[wa tra] sa] oka] end.
    match goal with |- context [node_step t true ?nd ?fu ?rv ?c ?ar (sy_b s) ?tr] =>
      pose proof (fun H1 H2 => IT_node_step (sy_now s) t true nd fu rv c ar (sy_b s) tr Hb H1 (N.le_max_r _ _) H2) as Kb;
      destruct (node_step t true nd fu rv c ar (sy_b s) tr) as [[[wb trb] sb] okb] end.
    cbn [fst snd] in Ka, Kb. apply IH. unfold sysT.
    match goal with |- sy_ok (enqueue ?t1 ?l ?fe ?fr ?to ?sd ?ot ?s2) = true -> _ =>
      destruct (enqueue_ok t1 l fe fr to ot sd s2) as [-> ->]; destruct (enqueue_worlds t1 l fe fr to ot sd s2) as [-> ->] end.
    match goal with |- sy_ok (enqueue ?t1 ?l ?fe ?fr ?to ?sd ?ot ?s2) = true -> _ =>
      destruct (enqueue_ok t1 l fe fr to ot sd s2) as [-> ->]; destruct (enqueue_worlds t1 l fe fr to ot sd s2) as [-> ->] end.
    cbn [sy_ok sy_now sy_a sy_b]. intros Hok. apply andb_true_iff in Hok. destruct Hok as [Hok Hob]. apply andb_true_iff in Hok. destruct Hok as [Hok Hoa].
    destruct (Hs Hok) as [Hsa Hsb]. split.
    - apply Ka; [exact Hsa| |exact Hoa]. intros x m Hx Hm. apply (instant_before_timers sc evs s t0 x m En (or_introl Hx) (Hsa x Hx) Hm).
    - apply Kb; [exact Hsb| |exact Hob]. intros x m Hx Hm. apply (instant_before_timers sc evs s t0 x m En (or_intror Hx) (Hsb x Hx) Hm).
  Qed.

  Theorem sys_reachable_T sc : fresh_insts (nd_insts (ss_a sc)) -> fresh_insts (nd_insts (ss_b sc)) ->
    sysT (fst (sys_run_scenario sc)).
  Proof.
    intros Ha Hb. unfold sys_run_scenario. apply sys_run_T; [exact Ha|exact Hb|]. intros _. split; intros x Hx; discriminate.
  Qed.
End SysInvT.
