(* What a transmitted SD datagram decodes to: the SOME/IP header with the session id it was given, the SD flags with
   the reboot flag it was given, and - after option resolution - exactly the entries handed to send_sd, in order, each
   with its own option runs.  (C01 + C02 + C08 composed for one transmission.) *)
From PS Require Import Lib.Base Lib.Struct Generated.Consts Model.SdTypes Model.Config Model.Session Model.Someip Model.SdCodec
  Model.StackTypes Model.Stack Spec.C01Spec.
From PS Require Import Proofs.StructFacts Proofs.C01Proofs Proofs.SdOptionProofs Proofs.SdHeaderProofs Proofs.SdMsgProofs Proofs.StackOpsProofs.
From Coq Require Import Lia.

Lemma roundtrip_fits m b r : fits_msgb m = true -> m_pv m = 1 -> memN (m_mt m) msg_type_values = true ->
  memN (m_rc m) ret_code_values = true -> build_msg m = Ok b -> parse_msg (b ++ r) = Ok (m, r).
Proof.
  intros Hf Hpv Hmt Hrc Hb.
  unfold build_msg in Hb. change (pack fmt_someip _) with (pack fmt_someip (hdr_vals m)) in Hb.
  destruct (pack fmt_someip (hdr_vals m)) as [hdr|] eqn:Hp; cbn [bind] in Hb; [|discriminate].
  injection Hb as <-. unfold parse_msg. rewrite <- app_assoc.
  rewrite (unpack_pack _ _ _ _ Hp). cbn [bind]. unfold hdr_vals. cbn [parse_header].
  rewrite Hpv, Hmt, Hrc. cbn [N.eqb Pos.eqb negb].
  destruct (N.ltb_spec (len (m_payload m) + 8) 8) as [E|E]; [lia|]. cbn [bind].
  replace (len (m_payload m) + 8 - 8) with (len (m_payload m)) by lia.
  rewrite len_app. destruct (N.ltb_spec (len (m_payload m) + len r) (len (m_payload m))) as [E2|E2]; [lia|].
  rewrite takeN_app_exact, dropN_app_exact. rewrite <- Hpv. destruct m; reflexivity.
Qed.

Theorem sd_datagram_decodes es f i b : Forall wf_rentry es -> sd_datagram es f i = Ok b ->
  exists a p,
    parse_msg b = Ok (mkMsg SD_SERVICE SD_METHOD 0 i 1 MT_NOTIFICATION 1 RC_E_OK p, [])
    /\ parse_sd p = Ok (a, [])
    /\ sd_reboot a = f
    /\ resolve_sd a = Ok (mkSd es (sd_options a) f true 0).
Proof.
  intros Hwf Hd. destruct (sd_datagram_fields es f i b Hd) as (a & p & Ha & Hp & Hm & Hr).
  assert (Hwm : wf_msg (mkSd es [] f true 0)).
  { split; [constructor|]. split; [exact Hwf|]. cbn. lia. }
  destruct (msg_roundtrip _ a p Hwm Ha Hp) as [P1 P2].
  exists a, p. split; [|split; [exact P1|split; [exact Hr|exact P2]]].
  rewrite <- (app_nil_r b). apply roundtrip_fits; try reflexivity; [|exact Hm].
  apply (build_ok_fits _ _ Hm).
Qed.
