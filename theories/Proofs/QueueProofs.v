(* C15: the send-collection queue.  (1) What queue_send / collector_timeout of Model/Stack.v do, case by case.
   (2) The same algorithm as an abstract machine over (collectors, per-destination queue): for every
   sequence of queue requests and collector firings, per destination
       entries transmitted so far ++ entries pending in the open collector = entries queued so far,
   i.e. nothing is lost, duplicated, reordered or sent to another destination. *)
From PS Require Import Lib.Base Generated.Consts Model.SdTypes Model.Config Model.Session Model.StackTypes Model.Stack.
From PS Require Import Proofs.AListFacts Proofs.C07Proofs.
From Coq Require Import Lia.

(* ---- (1) the model functions ---- *)
Definition open_collector (w : world) (d : dest) : option (N * collector) :=
  match aget dest_eqb d (queues w) with
  | Some c => match aget N.eqb c (collectors w) with
              | Some co => if co_done co then None else Some (c, co)
              | None => None
              end
  | None => None
  end.

Lemma queue_send_zero e d w : t_collect (cfg w) = 0 ->
  queue_send e d w = send_sd [e] d (ghost (GFlush d [e]) (ghost (GQueue e d) w)).
Proof. intros H. unfold queue_send, queue_core. cbn [cfg ghost set_glog]. rewrite H. reflexivity. Qed.

Lemma queue_send_append e d w c co :
  t_collect (cfg w) <> 0 -> open_collector w d = Some (c, co) ->
  queue_send e d w = set_collectors (aset N.eqb c (mkColl (co_dest co) (co_data co ++ [e]) false) (collectors w))
                                    (ghost (GQueue e d) w).
Proof.
  intros Hc Ho. unfold queue_send, queue_core. cbn [cfg ghost set_glog queues collectors].
  destruct (N.eqb_spec (t_collect (cfg w)) 0) as [E|_]; [contradiction|].
  unfold open_collector in Ho. rewrite Ho. reflexivity.
Qed.

Lemma queue_send_new e d w :
  t_collect (cfg w) <> 0 -> open_collector w d = None ->
  let w' := queue_send e d w in
  out w' = out w /\ ready w' = ready w
  /\ timers w' = timers w ++ [(now w + t_collect (cfg w), next_id w, HCollector (next_id w))]
  /\ next_id w' = next_id w + 1
  /\ aget dest_eqb d (queues w') = Some (next_id w)
  /\ collectors w' = collectors w ++ [(next_id w, mkColl d [e] false)].
Proof.
  intros Hc Ho. unfold queue_send, queue_core. cbn [cfg ghost set_glog queues collectors].
  destruct (N.eqb_spec (t_collect (cfg w)) 0) as [E|_]; [contradiction|].
  unfold open_collector in Ho. rewrite Ho. cbn. repeat split.
  apply (aget_aset_same dest_eqb dest_eqb_eq).
Qed.

Lemma collector_timeout_spec c w co :
  aget N.eqb c (collectors w) = Some co ->
  collector_timeout c w
  = send_sd (co_data co) (co_dest co)
      (set_collectors (aset N.eqb c (mkColl (co_dest co) (co_data co) true) (collectors w))
                      (ghost (GFlush (co_dest co) (co_data co)) w)).
Proof. intros H. unfold collector_timeout. rewrite H. reflexivity. Qed.

Lemma send_sd_empty d w : send_sd [] d w = w.
Proof. reflexivity. Qed.

(* ---- (2) the abstract machine ---- *)
Record qstate := mkQ { q_colls : list (N * collector); q_queues : list (dest * N); q_next : N }.
Inductive qop := QSend (e : sdentry) (d : dest) | QFire (c : N).

Definition q_open (s : qstate) (d : dest) : option (N * collector) :=
  match aget dest_eqb d (q_queues s) with
  | Some c => match aget N.eqb c (q_colls s) with
              | Some co => if co_done co then None else Some (c, co)
              | None => None
              end
  | None => None
  end.

(* returns the new state and what is handed to send_sd by this step *)
Definition q_step (s : qstate) (o : qop) : qstate * list (dest * list sdentry) :=
  match o with
  | QSend e d =>
      match q_open s d with
      | Some (c, co) => (mkQ (aset N.eqb c (mkColl (co_dest co) (co_data co ++ [e]) false) (q_colls s)) (q_queues s) (q_next s), [])
      | None => (mkQ (q_colls s ++ [(q_next s, mkColl d [e] false)]) (aset dest_eqb d (q_next s) (q_queues s)) (q_next s + 1), [])
      end
  | QFire c =>
      match aget N.eqb c (q_colls s) with
      | Some co => if co_done co then (s, [])   (* a collector's timer fires once *)
                   else (mkQ (aset N.eqb c (mkColl (co_dest co) (co_data co) true) (q_colls s)) (q_queues s) (q_next s),
                         [(co_dest co, co_data co)])
      | None => (s, [])
      end
  end.

Fixpoint q_run (s : qstate) (ops : list qop) : qstate * list (dest * list sdentry) :=
  match ops with
  | [] => (s, [])
  | o :: r => let '(s1, out1) := q_step s o in let '(s2, out2) := q_run s1 r in (s2, out1 ++ out2)
  end.

Definition queued_for (d : dest) (ops : list qop) : list sdentry :=
  flat_map (fun o => match o with QSend e d' => if dest_eqb d' d then [e] else [] | _ => [] end) ops.
Definition sent_for (d : dest) (log : list (dest * list sdentry)) : list sdentry :=
  flat_map (fun p => if dest_eqb (fst p) d then snd p else []) log.
Definition pending_for (s : qstate) (d : dest) : list sdentry :=
  match q_open s d with Some (_, co) => co_data co | None => [] end.

(* well-formedness: ids are fresh, every collector records its own destination, an open collector is
   the one its destination's queue entry points to *)
Definition QInv (s : qstate) : Prop :=
  NoDup (map fst (q_colls s))
  /\ (forall c co, In (c, co) (q_colls s) -> c < q_next s)
  /\ (forall d c, aget dest_eqb d (q_queues s) = Some c -> exists co, aget N.eqb c (q_colls s) = Some co /\ co_dest co = d)
  /\ (forall c co, aget N.eqb c (q_colls s) = Some co -> co_done co = false -> aget dest_eqb (co_dest co) (q_queues s) = Some c).

Lemma Neqb_eq (a b : N) : N.eqb a b = true <-> a = b. Proof. apply N.eqb_eq. Qed.

Lemma aget_app_notin {V} c (l : list (N * V)) x : aget N.eqb c l = None -> aget N.eqb c (l ++ [x]) = (if N.eqb c (fst x) then Some (snd x) else None).
Proof.
  induction l as [|[c' v'] l IH]; cbn [app aget]; intros H; [destruct x; reflexivity|].
  destruct (N.eqb c c'); [discriminate|]. apply IH. exact H.
Qed.
Lemma aget_app_in {V} c (l : list (N * V)) x v : aget N.eqb c l = Some v -> aget N.eqb c (l ++ [x]) = Some v.
Proof.
  induction l as [|[c' v'] l IH]; cbn [app aget]; intros H; [discriminate|].
  destruct (N.eqb c c'); [exact H|]. apply IH. exact H.
Qed.
Lemma aget_fresh {V} (l : list (N * V)) n : (forall c v, In (c, v) l -> c < n) -> aget N.eqb n l = None.
Proof.
  intros H. apply (aget_none_notin N.eqb Neqb_eq). intros Hin. apply in_map_iff in Hin.
  destruct Hin as ([c v] & E & Hin). cbn in E. subst c. apply H in Hin. lia.
Qed.
Lemma aget_in_N {V} c (l : list (N * V)) v : aget N.eqb c l = Some v -> In (c, v) l.
Proof.
  induction l as [|[c' v'] l IH]; cbn [aget]; [discriminate|].
  destruct (N.eqb_spec c c') as [->|Hne]; [intros H; injection H as ->; left; reflexivity|intros H; right; apply IH; exact H].
Qed.
Lemma in_aset_N {V} c c' (v v' : V) l : In (c', v') (aset N.eqb c v l) -> (c' = c /\ v' = v) \/ In (c', v') l.
Proof.
  induction l as [|[c2 v2] l IH]; cbn [aset In].
  - intros [H|[]]. injection H as <- <-. left. split; reflexivity.
  - destruct (N.eqb_spec c c2) as [->|Hne]; cbn [In].
    + intros [H|H]; [injection H as <- <-; left; split; reflexivity|right; right; exact H].
    + intros [H|H]; [right; left; exact H|]. destruct (IH H) as [Hl|Hr]; [left; exact Hl|right; right; exact Hr].
Qed.

Lemma qinv_step s o : QInv s -> QInv (fst (q_step s o)).
Proof.
  intros (H1 & H2 & H3 & H4). destruct o as [e d|c]; cbn [q_step].
  - destruct (q_open s d) as [[c co]|] eqn:Eo; cbn [fst].
    + (* append to the open collector c *)
      unfold q_open in Eo. destruct (aget dest_eqb d (q_queues s)) as [c0|] eqn:Eq; [|discriminate].
      destruct (aget N.eqb c0 (q_colls s)) as [co0|] eqn:Ec; [|discriminate].
      destruct (co_done co0) eqn:Ed; [discriminate|]. injection Eo as <- <-.
      unfold QInv. cbn [q_colls q_queues q_next]. split; [apply (nodup_aset N.eqb Neqb_eq); exact H1|]. split; [|split].
      * intros c' co' Hin. apply in_aset_N in Hin. destruct Hin as [[-> _]|Hin]; [|eapply H2; exact Hin].
        apply aget_in_N in Ec. eapply H2. exact Ec.
      * intros d' c' Hq. destruct (H3 d' c' Hq) as (co' & Hc' & Hd').
        destruct (N.eq_dec c' c0) as [->|Hne].
        -- eexists. split; [apply (aget_aset_same N.eqb Neqb_eq)|]. cbn. rewrite Ec in Hc'. injection Hc' as <-. exact Hd'.
        -- exists co'. split; [rewrite (aget_aset_other N.eqb Neqb_eq) by exact Hne; exact Hc'|exact Hd'].
      * intros c' co' Hc' Hd'. destruct (N.eq_dec c' c0) as [->|Hne].
        -- rewrite (aget_aset_same N.eqb Neqb_eq) in Hc'. injection Hc' as <-. cbn. apply H4; assumption.
        -- rewrite (aget_aset_other N.eqb Neqb_eq) in Hc' by exact Hne. apply H4; assumption.
    + (* a new collector with the fresh id q_next *)
      unfold QInv. cbn [q_colls q_queues q_next].
      assert (Hfresh : aget N.eqb (q_next s) (q_colls s) = None) by (apply aget_fresh; exact H2).
      split; [rewrite map_app; apply nodup_snoc; [exact H1|]; apply (aget_none_notin N.eqb Neqb_eq); exact Hfresh|].
      split; [|split].
      * intros c' co' Hin. apply in_app_iff in Hin. destruct Hin as [Hin|[E|[]]]; [apply H2 in Hin; lia|]. injection E as <- _. lia.
      * intros d' c' Hq. destruct (eqb_dec dest_eqb dest_eqb_eq d' d) as [->|Hne].
        -- rewrite (aget_aset_same dest_eqb dest_eqb_eq) in Hq. injection Hq as <-.
           eexists. split; [rewrite aget_app_notin by exact Hfresh; cbn [fst snd]; rewrite N.eqb_refl; reflexivity|reflexivity].
        -- rewrite (aget_aset_other dest_eqb dest_eqb_eq) in Hq by exact Hne.
           destruct (H3 d' c' Hq) as (co' & Hc' & Hd'). exists co'. split; [apply aget_app_in; exact Hc'|exact Hd'].
      * intros c' co' Hc' Hd'. destruct (aget N.eqb c' (q_colls s)) as [co2|] eqn:E2.
        -- rewrite (aget_app_in _ _ _ _ E2) in Hc'. injection Hc' as <-.
           pose proof (H4 c' co2 E2 Hd') as Hq.
           destruct (eqb_dec dest_eqb dest_eqb_eq (co_dest co2) d) as [Hd2|Hne].
           ++ (* then d had an open collector: contradiction with q_open = None *)
              exfalso. unfold q_open in Eo. rewrite <- Hd2, Hq, E2, Hd' in Eo. discriminate.
           ++ rewrite (aget_aset_other dest_eqb dest_eqb_eq) by exact Hne. exact Hq.
        -- rewrite (aget_app_notin _ _ _ E2) in Hc'. cbn [fst snd] in Hc'.
           destruct (N.eqb_spec c' (q_next s)) as [->|Hne]; [|discriminate]. injection Hc' as <-. cbn.
           apply (aget_aset_same dest_eqb dest_eqb_eq).
  - destruct (aget N.eqb c (q_colls s)) as [co|] eqn:Ec; cbn [fst]; [|exact (conj H1 (conj H2 (conj H3 H4)))].
    destruct (co_done co) eqn:Ed; cbn [fst]; [exact (conj H1 (conj H2 (conj H3 H4)))|].
    unfold QInv. cbn [q_colls q_queues q_next]. split; [apply (nodup_aset N.eqb Neqb_eq); exact H1|]. split; [|split].
    + intros c' co' Hin. apply in_aset_N in Hin. destruct Hin as [[-> _]|Hin]; [|eapply H2; exact Hin].
      apply aget_in_N in Ec. eapply H2. exact Ec.
    + intros d' c' Hq. destruct (H3 d' c' Hq) as (co' & Hc' & Hd').
      destruct (N.eq_dec c' c) as [->|Hne].
      * eexists. split; [apply (aget_aset_same N.eqb Neqb_eq)|]. cbn. rewrite Ec in Hc'. injection Hc' as <-. exact Hd'.
      * exists co'. split; [rewrite (aget_aset_other N.eqb Neqb_eq) by exact Hne; exact Hc'|exact Hd'].
    + intros c' co' Hc' Hd'. destruct (N.eq_dec c' c) as [->|Hne].
      * rewrite (aget_aset_same N.eqb Neqb_eq) in Hc'. injection Hc' as <-. cbn in Hd'. discriminate.
      * rewrite (aget_aset_other N.eqb Neqb_eq) in Hc' by exact Hne. apply H4; assumption.
Qed.

(* one step: sent ++ pending grows by exactly the entry queued for that destination *)
Lemma step_conservation s o d :
  QInv s ->
  sent_for d (snd (q_step s o)) ++ pending_for (fst (q_step s o)) d
  = pending_for s d ++ queued_for d [o].
Proof.
  intros (H1 & H2 & H3 & H4). unfold pending_for at 2.
  destruct o as [e d0|c]; cbn [q_step queued_for flat_map app].
  - rewrite app_nil_r.
    destruct (q_open s d0) as [[c co]|] eqn:Eo; cbn [fst snd sent_for flat_map app].
    + unfold q_open in Eo. destruct (aget dest_eqb d0 (q_queues s)) as [c0|] eqn:Eq; [|discriminate].
      destruct (aget N.eqb c0 (q_colls s)) as [co0|] eqn:Ec; [|discriminate].
      destruct (co_done co0) eqn:Ed; [discriminate|]. injection Eo as <- <-.
      destruct (H3 d0 c0 Eq) as (co' & Hc' & Hd'). rewrite Ec in Hc'. injection Hc' as <-.
      unfold pending_for, q_open. cbn [q_queues q_colls].
      destruct (eqb_dec dest_eqb dest_eqb_eq d0 d) as [->|Hne].
      * rewrite (eqb_refl dest_eqb dest_eqb_eq). rewrite Eq, (aget_aset_same N.eqb Neqb_eq). cbn [co_done co_data].
        rewrite Ec, Ed. reflexivity.
      * rewrite (eqb_neq dest_eqb dest_eqb_eq) by exact Hne. rewrite app_nil_r.
        destruct (aget dest_eqb d (q_queues s)) as [c1|] eqn:Eq1; [|reflexivity].
        assert (Hc1 : c1 <> c0).
        { intros ->. destruct (H3 d c0 Eq1) as (co1 & Hc1 & Hd1). rewrite Ec in Hc1. injection Hc1 as <-. congruence. }
        rewrite (aget_aset_other N.eqb Neqb_eq) by exact Hc1. reflexivity.
    + assert (Hfresh : aget N.eqb (q_next s) (q_colls s) = None) by (apply aget_fresh; exact H2).
      unfold pending_for, q_open. cbn [q_queues q_colls].
      destruct (eqb_dec dest_eqb dest_eqb_eq d0 d) as [->|Hne].
      * rewrite (eqb_refl dest_eqb dest_eqb_eq). rewrite (aget_aset_same dest_eqb dest_eqb_eq).
        rewrite aget_app_notin by exact Hfresh. cbn [fst snd]. rewrite N.eqb_refl. cbn [co_done co_data].
        fold (q_open s d). rewrite Eo. reflexivity.
      * rewrite (eqb_neq dest_eqb dest_eqb_eq) by exact Hne. rewrite app_nil_r.
        rewrite (aget_aset_other dest_eqb dest_eqb_eq) by (intros E; apply Hne; symmetry; exact E).
        destruct (aget dest_eqb d (q_queues s)) as [c1|] eqn:Eq1; [|reflexivity].
        destruct (H3 d c1 Eq1) as (co1 & Hc1 & _). rewrite (aget_app_in _ _ _ _ Hc1), Hc1. reflexivity.
  - rewrite app_nil_r. destruct (aget N.eqb c (q_colls s)) as [co|] eqn:Ec; cbn [fst snd sent_for flat_map app]; [|reflexivity].
    destruct (co_done co) eqn:Ed; cbn [fst snd sent_for flat_map app]; [reflexivity|].
    pose proof (H4 c co Ec Ed) as Hq.
    unfold pending_for, q_open. cbn [q_queues q_colls fst snd].
    destruct (eqb_dec dest_eqb dest_eqb_eq (co_dest co) d) as [Hd|Hne].
    + rewrite Hd, (eqb_refl dest_eqb dest_eqb_eq). rewrite app_nil_r. rewrite Hd in Hq. rewrite Hq.
      rewrite (aget_aset_same N.eqb Neqb_eq). cbn [co_done]. rewrite Ec, Ed. rewrite app_nil_r. reflexivity.
    + rewrite (eqb_neq dest_eqb dest_eqb_eq) by exact Hne. cbn [app].
      destruct (aget dest_eqb d (q_queues s)) as [c1|] eqn:Eq1; [|reflexivity].
      assert (Hc1 : c1 <> c).
      { intros ->. destruct (H3 d c Eq1) as (co1 & Hc1 & Hd1). rewrite Ec in Hc1. injection Hc1 as <-. congruence. }
      rewrite (aget_aset_other N.eqb Neqb_eq) by exact Hc1. reflexivity.
Qed.

Lemma sent_for_app d a b : sent_for d (a ++ b) = sent_for d a ++ sent_for d b.
Proof. unfold sent_for. apply flat_map_app. Qed.
Lemma queued_for_cons d o r : queued_for d (o :: r) = queued_for d [o] ++ queued_for d r.
Proof. unfold queued_for. cbn [flat_map]. rewrite app_nil_r. reflexivity. Qed.

Theorem run_conservation : forall ops s d, QInv s ->
  sent_for d (snd (q_run s ops)) ++ pending_for (fst (q_run s ops)) d = pending_for s d ++ queued_for d ops.
Proof.
  induction ops as [|o r IH]; intros s d H; cbn [q_run].
  - cbn. rewrite app_nil_r. reflexivity.
  - pose proof (step_conservation s o d H) as Hs. pose proof (qinv_step s o H) as Hi.
    destruct (q_step s o) as [s1 out1]. cbn [fst snd] in *.
    specialize (IH s1 d Hi). destruct (q_run s1 r) as [s2 out2]. cbn [fst snd] in *.
    rewrite sent_for_app, queued_for_cons. rewrite <- app_assoc, IH. rewrite app_assoc, Hs. rewrite <- app_assoc. reflexivity.
Qed.

Definition q_init : qstate := mkQ [] [] 1.
Lemma qinv_init : QInv q_init.
Proof. unfold QInv, q_init. cbn. repeat split; try constructor; intros; try contradiction; discriminate. Qed.

(* exactly once, in order, to the right destination: once no collector is open for d,
   what was transmitted to d is exactly what was queued for d, in the order queued *)
Theorem exactly_once_in_order ops d :
  let r := q_run q_init ops in
  pending_for (fst r) d = [] -> sent_for d (snd r) = queued_for d ops.
Proof.
  intros r Hp. pose proof (run_conservation ops q_init d qinv_init) as H. fold r in H.
  rewrite Hp, app_nil_r in H. exact H.
Qed.

(* no mixing: every batch handed to send_sd for d consists of entries queued for d (corollary of the
   equation above applied to every prefix); here: the destination recorded in a collector never changes *)
Theorem batch_destination_fixed s o c co :
  QInv s -> aget N.eqb c (q_colls s) = Some co ->
  exists co', aget N.eqb c (q_colls (fst (q_step s o))) = Some co' /\ co_dest co' = co_dest co.
Proof.
  intros (H1 & H2 & H3 & H4) Hc. destruct o as [e d|c0]; cbn [q_step].
  - destruct (q_open s d) as [[c1 co1]|] eqn:Eo; cbn [fst q_colls].
    + unfold q_open in Eo. destruct (aget dest_eqb d (q_queues s)) as [c2|]; [|discriminate].
      destruct (aget N.eqb c2 (q_colls s)) as [co2|] eqn:E2; [|discriminate]. destruct (co_done co2); [discriminate|].
      injection Eo as <- <-. destruct (N.eq_dec c c2) as [->|Hne].
      * eexists. split; [apply (aget_aset_same N.eqb Neqb_eq)|]. cbn. congruence.
      * exists co. split; [rewrite (aget_aset_other N.eqb Neqb_eq) by exact Hne; exact Hc|reflexivity].
    + exists co. split; [apply aget_app_in; exact Hc|reflexivity].
  - destruct (aget N.eqb c0 (q_colls s)) as [co0|] eqn:E0; cbn [fst]; [|exists co; split; [exact Hc|reflexivity]].
    destruct (co_done co0); cbn [fst q_colls]; [exists co; split; [exact Hc|reflexivity]|].
    destruct (N.eq_dec c c0) as [->|Hne].
    + eexists. split; [apply (aget_aset_same N.eqb Neqb_eq)|]. cbn. congruence.
    + exists co. split; [rewrite (aget_aset_other N.eqb Neqb_eq) by exact Hne; exact Hc|reflexivity].
Qed.
