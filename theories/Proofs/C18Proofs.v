(* C18: the stream reader and the datagram decoder agree. *)
From PS Require Import Lib.Base Lib.Struct Generated.Consts Model.SdTypes Model.Someip Model.SdCodec Spec.C01Spec.
From PS Require Import Proofs.StructFacts Proofs.C01Proofs.
From Coq Require Import Lia ZArith ZifyN ZifyBool ZifyNat.

(* the only difference: "not enough bytes" is the library's IncompleteReadError for a buffer and
   asyncio's IncompleteReadError (stream ended) for a stream *)
Definition stream_err (e : err) : err := match e with EIncomplete => EStreamEnd | _ => e end.
Definition map_err {X} (r : result X) : result X :=
  match r with Ok x => Ok x | Err e => Err (stream_err e) end.

Lemma read_parse_agree s : read_msg s = map_err (parse_msg s).
Proof.
  unfold read_msg, parse_msg, readexactly, unpack.
  destruct (len s <? fmt_size fmt_someip); cbn [bind map_err stream_err]; [reflexivity|].
  destruct (parse_header (unpack_all fmt_someip (takeN (fmt_size fmt_someip) s))) as [[size mk]|e] eqn:Hh;
    cbn [bind map_err].
  - destruct (len (dropN (fmt_size fmt_someip) s) <? size - 8); reflexivity.
  - f_equal. revert Hh. unfold fmt_someip. cbn [unpack_all unpack1 fsize parse_header].
    repeat match goal with
           | |- context [if ?c then _ else _] => destruct c; cbn [negb]
           end; intros H; inversion H; reflexivity.
Qed.

Definition map_split (r : list someip * option err) : list someip * option err :=
  (fst r, option_map stream_err (snd r)).

Lemma stream_datagram_agree : forall fuel s, stream_msgs fuel s = map_split (datagram_msgs fuel s).
Proof.
  induction fuel as [|f IH]; intros s; destruct s as [|x xs]; try reflexivity.
  cbn [stream_msgs datagram_msgs]. rewrite read_parse_agree.
  destruct (parse_msg (x :: xs)) as [[m rest]|e]; cbn [map_err].
  - rewrite IH. destruct (datagram_msgs f rest) as [ms e]. reflexivity.
  - reflexivity.
Qed.

Lemma stream_split_agree s : stream_split s = map_split (datagram_split s).
Proof. apply stream_datagram_agree. Qed.

(* a stream that ends inside a message yields the incomplete-read error, never a truncated message *)
Lemma no_truncation m b k :
  wf_msgb m = true -> build_msg m = Ok b -> k < len b -> read_msg (takeN k b) = Err EStreamEnd.
Proof.
  intros Hwf Hb Hk. rewrite read_parse_agree.
  destruct (parse_msg (takeN k b)) as [[m' r]|e] eqn:Hp; cbn [map_err].
  - exfalso.
    (* parse of a strict prefix cannot succeed: compare with the parse of the whole encoding *)
    pose proof (roundtrip m b [] Hwf Hb) as Hfull. rewrite app_nil_r in Hfull.
    unfold parse_msg in Hp, Hfull.
    destruct (unpack fmt_someip (takeN k b)) as [[vs rest]|] eqn:Hu; cbn [bind] in Hp; [|discriminate].
    destruct (unpack fmt_someip b) as [[vs2 rest2]|] eqn:Hu2; cbn [bind] in Hfull; [|discriminate].
    apply unpack_ok_inv in Hu. apply unpack_ok_inv in Hu2. rewrite fmt_someip_size in *.
    destruct Hu as (Hl & Hvs & Hrest). destruct Hu2 as (Hl2 & Hvs2 & Hrest2).
    assert (Hk16 : 16 <= k).
    { destruct (N.le_gt_cases k (len b)) as [Hle|Hgt]; [rewrite len_takeN in Hl by exact Hle; exact Hl|lia]. }
    assert (Hsame : takeN 16 (takeN k b) = takeN 16 b).
    { unfold takeN. rewrite firstn_firstn. f_equal. lia. }
    rewrite Hsame in Hvs. rewrite <- Hvs2 in Hvs. subst vs2.
    destruct (parse_header vs) as [[size mk]|]; cbn [bind] in Hp, Hfull; [|discriminate].
    destruct (N.ltb_spec (len rest) (size - 8)) as [E1|E1]; [discriminate|].
    destruct (N.ltb_spec (len rest2) (size - 8)) as [E2|E2]; [discriminate|].
    injection Hfull as _ Hnil.
    assert (Hlr2 : len rest2 = size - 8).
    { apply (f_equal len) in Hnil. rewrite len_dropN in Hnil. change (len []) with 0 in Hnil. lia. }
    subst rest rest2. rewrite !len_dropN in *. rewrite len_takeN in E1 by lia. lia.
  - apply parse_error_kinds in Hp as Hk2. destruct Hk2 as [->| ->]; [|reflexivity].
    exfalso.
    (* a prefix of a valid encoding has a valid header if it has a header at all: no ParseError *)
    pose proof (roundtrip m b [] Hwf Hb) as Hfull. rewrite app_nil_r in Hfull.
    unfold parse_msg in Hp, Hfull.
    destruct (unpack fmt_someip (takeN k b)) as [[vs rest]|e] eqn:Hu; cbn [bind] in Hp.
    + destruct (unpack fmt_someip b) as [[vs2 rest2]|] eqn:Hu2; cbn [bind] in Hfull; [|discriminate].
      apply unpack_ok_inv in Hu. apply unpack_ok_inv in Hu2. rewrite fmt_someip_size in *.
      destruct Hu as (Hl & Hvs & Hrest). destruct Hu2 as (Hl2 & Hvs2 & Hrest2).
      assert (Hsame : takeN 16 (takeN k b) = takeN 16 b).
      { unfold takeN. rewrite firstn_firstn. f_equal.
        destruct (N.le_gt_cases k (len b)) as [Hle|Hgt]; [rewrite len_takeN in Hl by exact Hle; lia|lia]. }
      rewrite Hsame in Hvs. rewrite <- Hvs2 in Hvs. subst vs2.
      destruct (parse_header vs) as [[size mk]|]; cbn [bind] in Hp, Hfull; [|discriminate].
      destruct (len rest <? size - 8); discriminate.
    + apply unpack_err in Hu. destruct Hu as [-> _]. discriminate.
Qed.
