(* SD entries: round trip, canonicalisation (C20), error kinds (C03). *)
From PS Require Import Lib.Base Lib.Struct Generated.Consts Model.SdTypes Model.SdCodec.
From PS Require Import Proofs.StructFacts Proofs.BitFacts.
From Coq Require Import Lia ZArith ZifyN ZifyBool ZifyNat.

Definition sub_type (t : N) : bool := (t =? ET_Subscribe) || (t =? ET_SubscribeAck).

(* an entry as it exists between parse and resolve / between assign and build *)
Definition wf_entry (e : sdentry) (n : N) : Prop :=
  exists oi1 oi2 no1 no2,
    e_idx e = Some (oi1, oi2, no1, no2) /\ memN (e_type e) entry_type_values = true
    /\ oi1 + no1 <= n /\ oi2 + no2 <= n /\ e_opts1 e = [] /\ e_opts2 e = []
    /\ (sub_type (e_type e) = true -> N.land (e_val e) 4293918720 = 0).

Lemma fmt_sdentry_size : fmt_size fmt_sdentry = 16. Proof. reflexivity. Qed.

Lemma entry_roundtrip e b r n :
  wf_entry e n -> build_entry e = Ok b -> parse_entry (b ++ r) n = Ok (e, r).
Proof.
  intros (oi1 & oi2 & no1 & no2 & Hidx & Hty & H1 & H2 & Ho1 & Ho2 & Hval) Hb.
  unfold build_entry in Hb. rewrite Hidx in Hb.
  destruct (N.ltb_spec no1 16) as [Hn1|Hn1]; cbn [andb negb] in Hb; [|discriminate].
  destruct (N.ltb_spec no2 16) as [Hn2|Hn2]; cbn [andb negb] in Hb; [|discriminate].
  fold (sub_type (e_type e)) in Hb.
  assert (Hb' : pack fmt_sdentry [VI (e_type e); VI oi1; VI oi2; VI (N.lor (N.shiftl no1 4) no2); VI (e_sid e); VI (e_iid e);
                                  VI (e_maj e); VI (N.shiftr (e_ttl e) 16); VI (N.land (e_ttl e) 65535); VI (e_val e)] = Ok b).
  { destruct (sub_type (e_type e)) eqn:Es0; cbn [andb] in Hb; [rewrite (Hval eq_refl) in Hb; cbn [N.eqb negb] in Hb|]; exact Hb. }
  clear Hb. rename Hb' into Hb.
  unfold parse_entry. rewrite (unpack_pack _ _ _ _ Hb). cbn [bind].
  rewrite Hty. cbn [negb].
  change 15 with (N.ones 4). change 65535 with (N.ones 16).
  rewrite join_hi by (cbn; lia). rewrite join_lo by (cbn; lia). rewrite split_join.
  destruct (N.ltb_spec n (oi1 + no1)) as [E1|E1]; [lia|].
  destruct (N.ltb_spec n (oi2 + no2)) as [E2|E2]; [lia|].
  fold (sub_type (e_type e)).
  destruct (sub_type (e_type e)) eqn:Es; cbn [andb].
  - rewrite (Hval eq_refl). cbn [N.eqb negb]. destruct e; cbn in *. subst. reflexivity.
  - destruct e; cbn in *. subst. reflexivity.
Qed.

Lemma entry_len e b : build_entry e = Ok b -> len b = 16.
Proof.
  unfold build_entry. destruct (e_idx e) as [[[[oi1 oi2] no1] no2]|]; [|discriminate].
  destruct (negb _); [discriminate|]. destruct (_ && _); [discriminate|]. intros H. apply pack_len in H. exact H.
Qed.

(* decode-encode-decode: an accepted entry re-encodes to exactly the consumed bytes *)
Lemma entry_canonical b n e r :
  bytes_ok b -> parse_entry b n = Ok (e, r) ->
  wf_entry e n /\ exists b', build_entry e = Ok b' /\ b = b' ++ r /\ parse_entry b' n = Ok (e, []).
Proof.
  intros Hb Hp. unfold parse_entry in Hp.
  destruct (unpack fmt_sdentry b) as [[vs rest]|] eqn:Hu; cbn [bind] in Hp; [|discriminate].
  apply unpack_ok_inv in Hu. rewrite fmt_sdentry_size in Hu. destruct Hu as (Hlen & Hvs & Hrest).
  set (hdr := takeN 16 b) in *.
  assert (Hhdr_ok : bytes_ok hdr) by (apply bytes_ok_takeN; exact Hb).
  assert (Hhdr_len : len hdr = fmt_size fmt_sdentry) by (rewrite fmt_sdentry_size; apply len_takeN; exact Hlen).
  pose proof (pack_unpack_all fmt_sdentry hdr Hhdr_ok Hhdr_len) as Hpack. rewrite <- Hvs in Hpack.
  unfold fmt_sdentry in Hvs. cbn [unpack_all unpack1 fsize] in Hvs.
  match type of Hvs with
  | vs = [VI ?x1; VI ?x2; VI ?x3; VI ?x4; VI ?x5; VI ?x6; VI ?x7; VI ?x8; VI ?x9; VI ?x10] =>
      set (ty := x1) in *; set (oi1 := x2) in *; set (oi2 := x3) in *; set (numopt := x4) in *;
      set (sid := x5) in *; set (iid := x6) in *; set (maj := x7) in *; set (thi := x8) in *;
      set (tlo := x9) in *; set (val := x10) in *
  end.
  assert (Htlo : tlo < 2 ^ 16).
  { subst tlo. change (2 ^ 16) with (256 ^ 2). 
    eapply N.lt_le_trans; [apply unbe_lt; apply bytes_ok_takeN; repeat apply bytes_ok_dropN; exact Hhdr_ok|].
    apply N.pow_le_mono_r; [lia|]. unfold len, takeN. rewrite firstn_length. lia. }
  rewrite Hvs in Hp.
  destruct (memN ty entry_type_values) eqn:Ety; cbn [negb] in Hp; [|discriminate].
  destruct (N.ltb_spec n (oi1 + N.shiftr numopt 4)) as [E1|E1]; [discriminate|].
  destruct (N.ltb_spec n (oi2 + N.land numopt 15)) as [E2|E2]; [discriminate|].
  fold (sub_type ty) in Hp.
  assert (Hvalc : sub_type ty = true -> N.land val 4293918720 = 0).
  { intros Hs. rewrite Hs in Hp. cbn [andb] in Hp. destruct (N.eqb_spec (N.land val 4293918720) 0) as [E|E]; [exact E|discriminate]. }
  assert (He : e = mkEntry ty sid iid maj (N.lor (N.shiftl thi 16) tlo) val [] []
                           (Some (oi1, oi2, N.shiftr numopt 4, N.land numopt 15)) /\ r = rest).
  { destruct (sub_type ty); cbn [andb] in Hp.
    - destruct (N.land val 4293918720 =? 0); cbn [negb] in Hp; [|discriminate]. injection Hp as <- <-. auto.
    - injection Hp as <- <-. auto. }
  destruct He as [He Hr]. clear Hp.
  assert (Hwf : wf_entry e n).
  { exists oi1, oi2, (N.shiftr numopt 4), (N.land numopt 15). subst e. cbn. repeat split; try assumption. }
  assert (Hbuild : build_entry e = Ok hdr).
  { unfold build_entry. subst e. cbn [e_idx e_type e_sid e_iid e_maj e_ttl e_val].
    change 15 with (N.ones 4). change 65535 with (N.ones 16).
    assert (Hs4 : N.shiftr numopt 4 <? 16 = true).
    { apply N.ltb_lt. apply (shiftr_bound numopt 4 4). change (2 ^ (4 + 4)) with (256 ^ 1). subst numopt.
      eapply N.lt_le_trans; [apply unbe_lt; apply bytes_ok_takeN; repeat apply bytes_ok_dropN; exact Hhdr_ok|].
      apply N.pow_le_mono_r; [lia|]. unfold len, takeN. rewrite firstn_length. lia. }
    rewrite Hs4. assert (Hl4 : N.land numopt (N.ones 4) <? 16 = true) by (apply N.ltb_lt; apply (land_ones_bound numopt 4)).
    rewrite Hl4. cbn [andb negb].
    assert (Hif : ((ty =? ET_Subscribe) || (ty =? ET_SubscribeAck)) && negb (N.land val 4293918720 =? 0) = false).
    { fold (sub_type ty). destruct (sub_type ty) eqn:Es0; cbn [andb]; [rewrite (Hvalc eq_refl); reflexivity|reflexivity]. }
    rewrite Hif.
    rewrite split_join. rewrite join_hi by exact Htlo. rewrite join_lo by exact Htlo.
    rewrite <- Hvs. exact Hpack. }
  split; [exact Hwf|]. exists hdr. split; [exact Hbuild|]. split.
  - subst r rest. unfold hdr. symmetry. apply takeN_dropN.
  - rewrite <- (app_nil_r hdr). apply entry_roundtrip; [exact Hwf|exact Hbuild].
Qed.

Lemma parse_entry_errs b n e : parse_entry b n = Err e -> e = EParse \/ e = EIncomplete.
Proof.
  unfold parse_entry. destruct (unpack fmt_sdentry b) as [[vs rest]|e0] eqn:Hu; cbn [bind].
  - apply unpack_ok_inv in Hu. destruct Hu as (_ & Hvs & _).
    unfold fmt_sdentry in Hvs. cbn [unpack_all unpack1 fsize] in Hvs. rewrite Hvs.
    repeat match goal with
           | |- context [if ?c then _ else _] => destruct c
           end; intros H; inversion H; auto.
  - apply unpack_err in Hu. destruct Hu as [-> _]. intros H; inversion H. auto.
Qed.

Lemma parse_entry_suffix b n e r : parse_entry b n = Ok (e, r) -> r = dropN 16 b /\ 16 <= len b.
Proof.
  unfold parse_entry. destruct (unpack fmt_sdentry b) as [[vs rest]|] eqn:Hu; cbn [bind]; [|discriminate].
  apply unpack_ok_inv in Hu. rewrite fmt_sdentry_size in Hu. destruct Hu as (Hl & Hvs & Hrest).
  unfold fmt_sdentry in Hvs. cbn [unpack_all unpack1 fsize] in Hvs. rewrite Hvs.
  repeat match goal with
         | |- context [if ?c then _ else _] => destruct c
         end; intros H; inversion H; subst; auto.
Qed.
