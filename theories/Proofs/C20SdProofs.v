(* C20 for whole SD messages, for EVERY accepted input: what parse_sd returns lies in wf_sd and can be built again;
   with sd_roundtrip the rebuilt bytes decode to the same header with nothing left over. *)
From PS Require Import Lib.Base Lib.Struct Generated.Consts Model.SdTypes Model.SdCodec.
From PS Require Import Proofs.StructFacts Proofs.BitFacts Proofs.SdEntryProofs Proofs.SdOptionProofs
  Proofs.SdHeaderProofs Proofs.C20OptionProofs.
From Coq Require Import Lia ZArith ZifyN ZifyBool ZifyNat.

Lemma parse_options_image : forall fuel b acc res, bytes_ok b ->
  parse_options fuel b acc = Ok res ->
  exists opts ob', res = rev acc ++ opts /\ Forall wf_opt opts
                   /\ concat_map_res build_option opts = Ok ob' /\ len ob' <= len b.
Proof.
  induction fuel as [|f IH]; intros b acc res Hb H.
  - destruct b; cbn [parse_options] in H; [|discriminate]. injection H as <-.
    exists [], []. rewrite app_nil_r. cbn. repeat split; auto. lia.
  - destruct b as [|x xs] eqn:Eb.
    { cbn [parse_options] in H. injection H as <-. exists [], []. rewrite app_nil_r. cbn. repeat split; auto. lia. }
    cbn [parse_options] in H. rewrite <- Eb in *. clear Eb.
    destruct (parse_option b) as [[o rest]|] eqn:Hp; cbn [bind] in H; [|discriminate].
    destruct (option_image b o rest Hb Hp) as (Hwf & Hrest & b1 & Hb1 & Hl1).
    destruct (IH rest (o :: acc) res Hrest H) as (opts & ob2 & -> & HF & Hb2 & Hl2).
    exists (o :: opts), (b1 ++ ob2). split.
    + cbn [rev]. rewrite <- app_assoc. reflexivity.
    + split; [constructor; assumption|]. split.
      * cbn [concat_map_res]. rewrite Hb1. cbn [bind]. rewrite Hb2. reflexivity.
      * rewrite len_app. lia.
Qed.

Lemma parse_entries_image : forall fuel b n acc res, bytes_ok b ->
  parse_entries fuel b n acc = Ok res ->
  exists es, res = rev acc ++ es /\ Forall (fun e => wf_entry e n) es /\ concat_map_res build_entry es = Ok b.
Proof.
  induction fuel as [|f IH]; intros b n acc res Hb H.
  - destruct b; cbn [parse_entries] in H; [|discriminate]. injection H as <-.
    exists []. rewrite app_nil_r. cbn. auto.
  - destruct b as [|x xs] eqn:Eb.
    { cbn [parse_entries] in H. injection H as <-. exists []. rewrite app_nil_r. cbn. auto. }
    cbn [parse_entries] in H. rewrite <- Eb in *. clear Eb.
    destruct (parse_entry b n) as [[e rest]|] eqn:Hp; cbn [bind] in H; [|discriminate].
    destruct (entry_canonical b n e rest Hb Hp) as (Hwf & b1 & Hb1 & Hsplit & _).
    assert (Hrest : bytes_ok rest) by (rewrite Hsplit in Hb; apply bytes_ok_app in Hb; tauto).
    destruct (IH rest n (e :: acc) res Hrest H) as (es & -> & HF & Hb2).
    exists (e :: es). split.
    + cbn [rev]. rewrite <- app_assoc. reflexivity.
    + split; [constructor; assumption|].
      cbn [concat_map_res]. rewrite Hb1. cbn [bind]. rewrite Hb2. cbn [bind]. rewrite Hsplit. reflexivity.
Qed.

Lemma unbe4_lt b : bytes_ok b -> unbe (takeN 4 b) < 4294967296.
Proof.
  intros Hb. pose proof (unbe_lt (takeN 4 b) (bytes_ok_takeN _ _ Hb)) as X.
  eapply N.lt_le_trans; [exact X|]. change 4294967296 with (256 ^ 4). apply N.pow_le_mono_r; [lia|].
  unfold len, takeN. rewrite firstn_length. lia.
Qed.

Theorem sd_image b a r : bytes_ok b -> parse_sd b = Ok (a, r) -> wf_sd a /\ exists b', build_sd a = Ok b'.
Proof.
  intros Hb H. unfold parse_sd in H.
  destruct (N.ltb_spec (len b) 12) as [E0|E0]; [discriminate|].
  set (flags := match b with f :: _ => f | [] => 0 end) in *.
  set (el := unbe (takeN 4 (dropN 4 b))) in *.
  set (rest := dropN 8 b) in *.
  destruct (N.ltb_spec (len rest) (el + 4)) as [E1|E1]; [discriminate|].
  set (eb := takeN el rest) in *. set (rest1 := dropN el rest) in *.
  set (ol := unbe (takeN 4 rest1)) in *. set (rest2 := dropN 4 rest1) in *.
  destruct (N.ltb_spec (len rest2) ol) as [E2|E2]; [discriminate|].
  set (ob := takeN ol rest2) in *.
  assert (Hrest : bytes_ok rest) by (apply bytes_ok_dropN; exact Hb).
  assert (Hrest1 : bytes_ok rest1) by (apply bytes_ok_dropN; exact Hrest).
  assert (Hob : bytes_ok ob) by (apply bytes_ok_takeN; apply bytes_ok_dropN; exact Hrest1).
  assert (Heb : bytes_ok eb) by (apply bytes_ok_takeN; exact Hrest).
  assert (Hel : el < 4294967296) by (apply unbe4_lt; apply bytes_ok_dropN; exact Hb).
  assert (Hol : ol < 4294967296) by (apply unbe4_lt; exact Hrest1).
  assert (Hleb : len eb = el) by (apply len_takeN; lia).
  assert (Hlob : len ob = ol) by (apply len_takeN; lia).
  destruct (parse_options (S (length ob)) ob []) as [opts|] eqn:Hpo; cbn [bind] in H; [|discriminate].
  destruct (parse_entries (S (length eb)) eb (len opts) []) as [es|] eqn:Hpe; cbn [bind] in H; [|discriminate].
  injection H as <- _.
  destruct (parse_options_image _ _ _ _ Hob Hpo) as (opts' & ob' & -> & HFo & Hbo & Hlo).
  destruct (parse_entries_image _ _ _ _ _ Heb Hpe) as (es' & -> & HFe & Hbe).
  cbn [rev app] in *.
  assert (Hfu : N.land flags 63 < 64) by (change 63 with (N.ones 6); apply (land_ones_bound flags 6)).
  split.
  - unfold wf_sd. cbn [sd_options sd_entries sd_flags_unknown]. auto.
  - unfold build_sd. cbn [sd_options sd_entries sd_flags_unknown sd_reboot sd_unicast].
    match goal with |- context [byte_append [] ?f] =>
      change f with (flags_of (N.land flags 63) (negb (N.land flags 128 =? 0)) (negb (N.land flags 64 =? 0))) end.
    pose proof (flags_ok (N.land flags 63) (negb (N.land flags 128 =? 0)) (negb (N.land flags 64 =? 0)) Hfu) as (Hf1 & _).
    unfold byte_append.
    match goal with |- context [?f <? 256] => destruct (N.ltb_spec f 256) as [_|F]; [|lia] end.
    cbn [bind]. rewrite Hbe, Hbo. cbn [bind pack pack1].
    destruct (N.ltb_spec (len eb) 4294967296) as [_|F]; [|lia]. cbn [bind].
    destruct (N.ltb_spec (len ob') 4294967296) as [_|F]; [|lia]. cbn [bind].
    eexists; reflexivity.
Qed.

Theorem sd_canonical b a r : bytes_ok b -> parse_sd b = Ok (a, r) ->
  exists b', build_sd a = Ok b' /\ parse_sd b' = Ok (a, []).
Proof.
  intros Hb H. destruct (sd_image b a r Hb H) as (Hwf & b' & Hbuild).
  exists b'. split; [exact Hbuild|]. apply sd_roundtrip; assumption.
Qed.
