(* C04: facts about the two-stack composition (Model/System.v) and the interface lemmas it rests on. *)
From Coq Require Import Lia.
From PS Require Import Lib.Base Generated.Consts Model.SdTypes Model.Config Model.Session Model.StackTypes Model.Stack
  Model.StackIO Model.System Spec.C08Spec Proofs.AListFacts Proofs.C07Proofs.

(* a crashed node sends nothing and keeps nothing: whatever arrives, whatever was pending *)
Theorem crash_is_silent t b nd fuel rv arrived w tr :
  node_step t b nd fuel rv [CCrash] arrived w tr
  = (None, match w with Some x => out x ++ tr | None => tr end, [], true).
Proof. unfold node_step. cbn [fold_left]. destruct w; reflexivity. Qed.

(* a restarted node is a fresh world at the restart instant: fresh session storage, nothing stored, nothing pending *)
Theorem restart_is_fresh t nd :
  let w := fresh_world t nd in
  now w = t /\ sess w = sess_init /\ found w = [] /\ sub_entries w = [] /\ watched w = [] /\ timers w = [] /\ ready w = []
  /\ tasks w = [] /\ collectors w = [] /\ out w = [] /\ cfg w = nd_cfg nd /\ draws w = nd_draws nd.
Proof. cbn. repeat split. Qed.

(* ... so the first message it sends to ANY destination carries the reboot flag and session id 1 *)
Theorem first_message_after_restart d : fst (assign_outgoing sess_init d) = (true, 1).
Proof. reflexivity. Qed.

(* ... which a peer that has heard from it before (any earlier id is >= 1, C08) detects as a reboot, whatever the
   old flag was - and a peer that never heard from it does not *)
Theorem reboot_evidence_detected s a mc f old :
  aget in_key_eqb (a, mc) (incoming s) = Some (f, old) -> 1 <= old ->
  fst (check_received s a mc true 1) = true.
Proof.
  intros H Ho. unfold check_received. rewrite H. cbn [fst andb].
  destruct f; cbn [negb orb]; [|reflexivity].
  destruct (N.ltb_spec 0 old); [|lia]. destruct (N.leb_spec 1 old); [reflexivity|lia].
Qed.
Theorem first_contact_is_no_reboot s a mc f sid :
  aget in_key_eqb (a, mc) (incoming s) = None -> fst (check_received s a mc f sid) = false.
Proof. intros H. unfold check_received. rewrite H. reflexivity. Qed.

(* the network outside the fault window: every transmitted datagram that has a receiver is delivered exactly once,
   after the constant latency, in sending order; the oracle is not consumed *)
Lemma enqueue_cons t lat fe from to_ d data sends other s :
  enqueue t lat fe from to_ ((d, data) :: sends) other s
  = enqueue t lat fe from to_ sends other
      (let '(lats, rest) := if t <? fe then match sy_dec s with [] => ([lat], []) | x :: r => (x, r) end else ([lat], sy_dec s) in
       let target := match d with None => Some (to_, true) | Some a => if a =? other then Some (to_, false) else None end in
       let dgs := match target with Some (node, mc) => map (fun l => mkDg (t + N.max 1 l) node from mc data) lats | None => [] end in
       mkSys (sy_now s) (sy_a s) (sy_b s) (sy_net s ++ dgs) rest (sy_tra s) (sy_trb s) (sy_ok s)).
Proof. reflexivity. Qed.

Definition deliverable (other : N) (sd : dest * bytes) : bool :=
  match fst sd with None => true | Some a => a =? other end.
Definition as_dgram (t lat from to_ other : N) (sd : dest * bytes) : dgram :=
  mkDg (t + N.max 1 lat) to_ from (match fst sd with None => true | Some _ => false end) (snd sd).

Theorem reliable_outside_fault_window t lat fe from to_ other : forall sends s, fe <= t ->
  let s' := enqueue t lat fe from to_ sends other s in
  sy_net s' = sy_net s ++ map (as_dgram t lat from to_ other) (filter (deliverable other) sends)
  /\ sy_dec s' = sy_dec s /\ sy_a s' = sy_a s /\ sy_b s' = sy_b s.
Proof.
  induction sends as [|[d data] sends IH]; intros s Hle; cbn zeta.
  - cbn. rewrite app_nil_r. auto.
  - rewrite enqueue_cons. destruct (N.ltb_spec t fe) as [Hlt|_]; [lia|].
    destruct d as [a|]; [destruct (a =? other) eqn:Ea|]; cbv beta zeta iota; cbn [map].
    + destruct (IH (mkSys (sy_now s) (sy_a s) (sy_b s) (sy_net s ++ [mkDg (t + N.max 1 lat) to_ from false data]) (sy_dec s) (sy_tra s) (sy_trb s) (sy_ok s)) Hle) as (H1 & H2 & H3 & H4).
      cbn zeta in *. cbn [map]. rewrite H1, H2, H3, H4. cbn [sy_net sy_dec sy_a sy_b filter deliverable fst]. rewrite Ea. cbn [map as_dgram fst snd].
      rewrite <- app_assoc. auto.
    + destruct (IH (mkSys (sy_now s) (sy_a s) (sy_b s) (sy_net s ++ []) (sy_dec s) (sy_tra s) (sy_trb s) (sy_ok s)) Hle) as (H1 & H2 & H3 & H4).
      cbn zeta in *. rewrite H1, H2, H3, H4. cbn [sy_net sy_dec sy_a sy_b filter deliverable fst]. rewrite Ea. rewrite app_nil_r. auto.
    + destruct (IH (mkSys (sy_now s) (sy_a s) (sy_b s) (sy_net s ++ [mkDg (t + N.max 1 lat) to_ from true data]) (sy_dec s) (sy_tra s) (sy_trb s) (sy_ok s)) Hle) as (H1 & H2 & H3 & H4).
      cbn zeta in *. cbn [map]. rewrite H1, H2, H3, H4. cbn [sy_net sy_dec sy_a sy_b filter deliverable fst]. cbn [map as_dgram fst snd].
      rewrite <- app_assoc. auto.
Qed.

(* a datagram is never delivered in the instant it was sent: the two loops do not interact within one instant *)
Theorem latency_positive t lat from to_ other sd : t < dg_at (as_dgram t lat from to_ other sd).
Proof. cbn. lia. Qed.
