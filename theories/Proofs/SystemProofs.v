(* C04: facts about the two-stack composition (Model/System.v) and the interface lemmas it rests on. *)
From Coq Require Import Lia.
From PS Require Import Lib.Base Generated.Consts Model.SdTypes Model.Config Model.Session Model.StackTypes Model.Stack
  Model.StackIO Model.System Spec.C08Spec Proofs.AListFacts Proofs.C07Proofs.

(* a crashed node sends nothing and keeps nothing: whatever arrives, whatever was pending *)
Theorem crash_is_silent t b nd fuel rv arrived w tr :
  node_step t b nd fuel rv [CCrash] arrived w tr
  = (None, match w with Some x => out x ++ tr | None => tr end, [], true).
Proof. unfold node_step. cbn [fold_left]. destruct w; reflexivity. Qed.

(* a restarted node is a fresh world at the restart instant: fresh session storage, nothing stored, nothing pending *)
Theorem restart_is_fresh t nd :
  let w := fresh_world t nd in
  now w = t /\ sess w = sess_init /\ found w = [] /\ sub_entries w = [] /\ watched w = [] /\ timers w = [] /\ ready w = []
  /\ tasks w = [] /\ collectors w = [] /\ out w = [] /\ cfg w = nd_cfg nd /\ draws w = nd_draws nd.
Proof. cbn. repeat split. Qed.

(* ... so the first message it sends to ANY destination carries the reboot flag and session id 1 *)
Theorem first_message_after_restart d : fst (assign_outgoing sess_init d) = (true, 1).
Proof. reflexivity. Qed.

(* ... which a peer that has heard from it before (any earlier id is >= 1, C08) detects as a reboot, whatever the
   old flag was - and a peer that never heard from it does not *)
Theorem reboot_evidence_detected s a mc f old :
  aget in_key_eqb (a, mc) (incoming s) = Some (f, old) -> 1 <= old ->
  fst (check_received s a mc true 1) = true.
Proof.
  intros H Ho. unfold check_received. rewrite H. cbn [fst andb].
  destruct f; cbn [negb orb]; [|reflexivity].
  destruct (N.ltb_spec 0 old); [|lia]. destruct (N.leb_spec 1 old); [reflexivity|lia].
Qed.
Theorem first_contact_is_no_reboot s a mc f sid :
  aget in_key_eqb (a, mc) (incoming s) = None -> fst (check_received s a mc f sid) = false.
Proof. intros H. unfold check_received. rewrite H. reflexivity. Qed.

(* the network outside the fault window: every transmitted datagram that has a receiver is delivered exactly once,
   after the constant latency, in sending order; the oracle is not consumed *)
Lemma enqueue_cons t lat fe from to_ d data sends other s :
  enqueue t lat fe from to_ ((d, data) :: sends) other s
  = enqueue t lat fe from to_ sends other
      (let '(lats, rest) := if t <? fe then match sy_dec s with [] => ([lat], []) | x :: r => (x, r) end else ([lat], sy_dec s) in
       let target := match d with None => Some (to_, true) | Some a => if a =? other then Some (to_, false) else None end in
       let dgs := match target with Some (node, mc) => map (fun l => mkDg (t + N.max 1 l) node from mc data) lats | None => [] end in
       mkSys (sy_now s) (sy_a s) (sy_b s) (sy_net s ++ dgs) rest (sy_tra s) (sy_trb s) (sy_ok s)).
Proof. reflexivity. Qed.

Definition deliverable (other : N) (sd : dest * bytes) : bool :=
  match fst sd with None => true | Some a => a =? other end.
Definition as_dgram (t lat from to_ other : N) (sd : dest * bytes) : dgram :=
  mkDg (t + N.max 1 lat) to_ from (match fst sd with None => true | Some _ => false end) (snd sd).

Theorem reliable_outside_fault_window t lat fe from to_ other : forall sends s, fe <= t ->
  let s' := enqueue t lat fe from to_ sends other s in
  sy_net s' = sy_net s ++ map (as_dgram t lat from to_ other) (filter (deliverable other) sends)
  /\ sy_dec s' = sy_dec s /\ sy_a s' = sy_a s /\ sy_b s' = sy_b s.
Proof.
  induction sends as [|[d data] sends IH]; intros s Hle; cbn zeta.
  - cbn. rewrite app_nil_r. auto.
  - rewrite enqueue_cons. destruct (N.ltb_spec t fe) as [Hlt|_]; [lia|].
    destruct d as [a|]; [destruct (a =? other) eqn:Ea|]; cbv beta zeta iota; cbn [map].
    + destruct (IH (mkSys (sy_now s) (sy_a s) (sy_b s) (sy_net s ++ [mkDg (t + N.max 1 lat) to_ from false data]) (sy_dec s) (sy_tra s) (sy_trb s) (sy_ok s)) Hle) as (H1 & H2 & H3 & H4).
      cbn zeta in *. cbn [map]. rewrite H1, H2, H3, H4. cbn [sy_net sy_dec sy_a sy_b filter deliverable fst]. rewrite Ea. cbn [map as_dgram fst snd].
      rewrite <- app_assoc. auto.
    + destruct (IH (mkSys (sy_now s) (sy_a s) (sy_b s) (sy_net s ++ []) (sy_dec s) (sy_tra s) (sy_trb s) (sy_ok s)) Hle) as (H1 & H2 & H3 & H4).
      cbn zeta in *. rewrite H1, H2, H3, H4. cbn [sy_net sy_dec sy_a sy_b filter deliverable fst]. rewrite Ea. rewrite app_nil_r. auto.
    + destruct (IH (mkSys (sy_now s) (sy_a s) (sy_b s) (sy_net s ++ [mkDg (t + N.max 1 lat) to_ from true data]) (sy_dec s) (sy_tra s) (sy_trb s) (sy_ok s)) Hle) as (H1 & H2 & H3 & H4).
      cbn zeta in *. cbn [map]. rewrite H1, H2, H3, H4. cbn [sy_net sy_dec sy_a sy_b filter deliverable fst]. cbn [map as_dgram fst snd].
      rewrite <- app_assoc. auto.
Qed.

(* a datagram is never delivered in the instant it was sent: the two loops do not interact within one instant *)
Theorem latency_positive t lat from to_ other sd : t < dg_at (as_dgram t lat from to_ other sd).
Proof. cbn. lia. Qed.

(* ------------------------------------------------------------------ the ownership invariant of both stacks in every state of the composition *)
From PS Require Import Proofs.WorldInv.

Lemma G_settle : forall fuel arr rv w, G w -> G (fst (settle fuel arr rv w)).
Proof.
  induction fuel as [|f IH]; intros arr rv w Hg; cbn [settle fst]; [exact Hg|].
  destruct (ready w) as [|x r] eqn:Er; [destruct arr as [|a ar]; [destruct (due_now w)|]|];
    try (apply IH; apply G_iteration; exact Hg). exact Hg.
Qed.

Lemma G_fresh_world t nd : fresh_insts (nd_insts nd) -> G (fresh_world t nd).
Proof. intros H. unfold fresh_world. apply G_empty. exact H. Qed.

Definition okw (w : option world) : Prop := forall x, w = Some x -> G x.

Lemma G_node_step t b nd fuel rv ctls arrived w tr : fresh_insts (nd_insts nd) -> okw w ->
  okw (fst (fst (fst (node_step t b nd fuel rv ctls arrived w tr)))).
Proof.
  intros Hf Hw. unfold node_step.
  set (acc0 := (w, tr, @nil handle)).
  assert (Hfold : forall l acc, okw (fst (fst acc)) ->
            okw (fst (fst (fold_left (fun acc c => let '(w0, tr0, ap) := acc in
                     match c with
                     | CCrash => (None, match w0 with Some x => out x ++ tr0 | None => tr0 end, [])
                     | CRestart => match w0 with Some _ => (w0, tr0, ap) | None => (Some (fresh_world t nd), tr0, map HApi (nd_init nd)) end
                     | CApi a => (w0, tr0, ap ++ [HApi a])
                     end) l acc)))).
  { induction l as [|c l IH]; intros [[w0 tr0] ap] Ha; cbn [fold_left]; [exact Ha|]. apply IH. cbn [fst] in Ha.
    destruct c as [a| |]; cbn [fst]; [exact Ha|intros x Hx; discriminate|].
    destruct w0; cbn [fst]; [exact Ha|]. intros x Hx. injection Hx as <-. apply G_fresh_world, Hf. }
  specialize (Hfold ctls acc0 Hw).
  destruct (fold_left _ ctls acc0) as [[w1 tr1] apis]. cbn [fst] in Hfold.
  destruct w1 as [x|]; [|cbn [fst]; intros y Hy; discriminate].
  assert (Hx0 : G (set_now (N.max t (now x)) x)) by (apply GP_set_now; apply Hfold; reflexivity).
  set (hs := apis ++ _). clearbody hs.
  assert (Hset : forall l, okw (fst (fst (fst (let '(x1, ok) := settle fuel l rv (set_now (N.max t (now x)) x) in
                                               (Some x1, tr1, new_sends (out (set_now (N.max t (now x)) x)) (out x1), ok)))))).
  { intros l. pose proof (G_settle fuel l rv _ Hx0) as Hq. destruct (settle fuel l rv (set_now (N.max t (now x)) x)) as [x1 ok].
    cbn [fst] in *. intros y Hy. injection Hy as <-. exact Hq. }
  destruct hs as [|h0 hs']; [destruct (ready (set_now (N.max t (now x)) x)); [destruct (due_now (set_now (N.max t (now x)) x))|]|];
    try apply Hset.
  cbn [fst]. intros y Hy. injection Hy as <-. exact Hx0.
Qed.

Definition sys_ok (s : sys) : Prop := okw (sy_a s) /\ okw (sy_b s).

Lemma enqueue_worlds t lat fe from to_ other : forall sends s,
  sy_a (enqueue t lat fe from to_ sends other s) = sy_a s /\ sy_b (enqueue t lat fe from to_ sends other s) = sy_b s.
Proof.
  induction sends as [|[d data] sends IH]; intros s; [split; reflexivity|]. rewrite enqueue_cons.
  match goal with |- context [enqueue _ _ _ _ _ sends _ ?s1] => destruct (IH s1) as [-> ->] end.
  destruct (t <? fe); [destruct (sy_dec s)|]; split; reflexivity.
Qed.

(* both stacks satisfy the ownership invariant in every state of every run of the composition: after any sequence of
   stop / start / crash / restart and any loss, duplication or reordering of datagrams *)
Theorem sys_run_ok sc : fresh_insts (nd_insts (ss_a sc)) -> fresh_insts (nd_insts (ss_b sc)) ->
  forall fuel evs s, sys_ok s -> sys_ok (fst (sys_run fuel sc evs s)).
Proof.
  intros Ha Hb. induction fuel as [|f IH]; intros evs s Hs; cbn [sys_run fst]; [exact Hs|].
  destruct (next_instant sc evs s) as [t0|]; [|exact Hs].
  destruct (ss_end sc <? N.max t0 (sy_now s)); [exact Hs|]. cbv zeta.
  destruct Hs as [Hsa Hsb].
  match goal with |- context [node_step ?t false ?nd ?fu ?rv ?c ?ar (sy_a s) ?tr] =>
    pose proof (G_node_step t false nd fu rv c ar (sy_a s) tr Ha Hsa) as Ka;
    destruct (node_step t false nd fu rv c ar (sy_a s) tr) as [[[wa tra] sa] oka] end.
  match goal with |- context [node_step ?t true ?nd ?fu ?rv ?c ?ar (sy_b s) ?tr] =>
    pose proof (G_node_step t true nd fu rv c ar (sy_b s) tr Hb Hsb) as Kb;
    destruct (node_step t true nd fu rv c ar (sy_b s) tr) as [[[wb trb] sb] okb] end.
  cbn [fst] in Ka, Kb. apply IH. unfold sys_ok.
  match goal with |- okw (sy_a (enqueue ?t ?l ?fe ?fr ?to ?sd ?ot ?s2)) /\ _ =>
    destruct (enqueue_worlds t l fe fr to ot sd s2) as [-> ->] end.
  match goal with |- okw (sy_a (enqueue ?t ?l ?fe ?fr ?to ?sd ?ot ?s2)) /\ _ =>
    destruct (enqueue_worlds t l fe fr to ot sd s2) as [-> ->] end.
  cbn [sy_a sy_b]. split; assumption.
Qed.

Theorem sys_reachable_ok sc : fresh_insts (nd_insts (ss_a sc)) -> fresh_insts (nd_insts (ss_b sc)) ->
  sys_ok (fst (sys_run_scenario sc)).
Proof.
  intros Ha Hb. unfold sys_run_scenario. apply sys_run_ok; [exact Ha|exact Hb|]. split; intros x Hx; discriminate.
Qed.
