(* The converse of the ownership invariant for the two TimedStores, on the full stack model and under every schedule:
   every pending expiry handle that is not cancelled belongs to the entry CURRENTLY stored under its key.  Together with
   Proofs/WorldInv.v: live expiry timers and stored finite-TTL entries correspond one to one - the timer of a refreshed,
   stopped or removed entry is never live, so it can never remove a successor. *)
From Coq Require Import Lia Permutation.
From PS Require Import Lib.Base Lib.Struct Generated.Consts Model.SdTypes Model.Config Model.Session Model.Someip Model.SdCodec
  Model.StackTypes Model.Stack Model.StackIO Proofs.AListFacts Proofs.EqFacts Proofs.KeyEquiv Proofs.WorldInv.
From PS Require Proofs.Lift.

Definition G2a (w : world) : Prop :=
  forall tid st a k, In (tid, HExpired st a k) (tided w) -> memN tid (cancelled w) = false ->
                     In (k, Some tid) (inner a (get_store st w)).
Definition G2 (w : world) : Prop := G2a w /\ ne_ready w = true.

Definition keeps2 (f : world -> world) : Prop := forall X w, GP X w -> G2 w -> G2 (f w).

Lemma same_G2 {b} w w' : sameb b w w' -> G2 w -> G2 w'.
Proof.
  intros Hs [H Hn]. split; [|rewrite (sm_ne _ _ Hs); exact Hn].
  intros tid st a k. rewrite (same_tided _ _ Hs), (sm_can _ _ Hs), (sm_store _ _ Hs). apply H.
Qed.
Lemma neutral_keeps2 f : neutral f -> keeps2 f.
Proof. intros H X w _ H2. eapply same_G2; eauto. Qed.
Lemma keeps2_comp f g : keeps f -> keeps2 f -> keeps g -> keeps2 g -> keeps2 (fun w => f (g w)).
Proof. intros _ Hf2 Hg Hg2 X w G1 G2'. eapply Hf2; [apply Hg; exact G1|eapply Hg2; eassumption]. Qed.
Lemma keeps2_fold {Y} (f : world -> Y -> world) l :
  (forall x, keeps (fun w => f w x)) -> (forall x, keeps2 (fun w => f w x)) -> keeps2 (fun w => fold_left f l w).
Proof.
  intros Hk H2. induction l as [|x l IH]; intros X w Hg Hg2; cbn [fold_left]; [exact Hg2|].
  eapply IH; [apply (Hk x); exact Hg|eapply (H2 x); eassumption].
Qed.

(* a weaker world: no new expiry handles, no entries lost (except cancelled ones) *)
Lemma G2_mono w w' : G2 w ->
  (forall tid st a k, In (tid, HExpired st a k) (tided w') -> In (tid, HExpired st a k) (tided w)) ->
  (forall tid, memN tid (cancelled w') = false -> memN tid (cancelled w) = false) ->
  (forall st a k tid, In (k, Some tid) (inner a (get_store st w)) -> memN tid (cancelled w') = false -> In (k, Some tid) (inner a (get_store st w'))) ->
  ready w' = ready w ->
  G2 w'.
Proof.
  intros [H Hn] Ht Hc Hs Hr. split; [|unfold ne_ready; rewrite Hr; exact Hn].
  intros tid st a k Hin Hnc. apply Hs; [|exact Hnc]. apply H; [apply Ht; exact Hin|apply Hc; exact Hnc].
Qed.

(* ---- primitives *)
Lemma in_tided_call_later d h w p : In p (tided (snd (call_later d h w))) <-> p = (next_id w, h) \/ In p (tided w).
Proof.
  destruct (call_later_frame d h w) as (F1 & F2 & _). unfold tided, rdy. rewrite F1, F2. rewrite !in_app_iff. cbn [In].
  split; [intros [[H|[H|[]]]|H]; auto|intros [H|[H|H]]; auto].
Qed.

Lemma keeps2_call_later d h : (forall st a k, h <> HExpired st a k) -> keeps2 (fun w => snd (call_later d h w)).
Proof.
  intros Hk X w _ H2. eapply G2_mono; [exact H2| | | |reflexivity].
  - intros tid st a k Hin. apply in_tided_call_later in Hin. destruct Hin as [E|Hin]; [|exact Hin]. injection E as _ E. exfalso. eapply Hk; eauto.
  - intros tid H. exact H.
  - intros st a k tid H _. destruct st; exact H.
Qed.

Lemma keeps2_cancel tid : keeps2 (cancel_timer tid).
Proof.
  intros X w _ H2. eapply G2_mono; [exact H2| | | |reflexivity].
  - intros x st a k H. exact H.
  - intros x. change (cancelled (cancel_timer tid w)) with (tid :: cancelled w). rewrite memN_cons.
    destruct (x =? tid); cbn [orb]; [discriminate|auto].
  - intros st a k x H _. exact H.
Qed.
Lemma keeps2_cancel_opt o : keeps2 (cancel_opt o).
Proof. destruct o; [apply keeps2_cancel|apply neutral_keeps2, n_id]. Qed.

Lemma keeps2_put_task t tk : keeps2 (put_task t tk).
Proof. intros X w _ H2. eapply G2_mono; [exact H2|intros ? ? ? ? H; exact H|intros ? H; exact H|intros st a k x H _; destruct st; exact H|reflexivity]. Qed.

(* ---- store operations *)
(* remove the entry under k and cancel its timer: its handle is cancelled, every other entry stays *)
Lemma keeps2_remove_cancel X st a k w old : GP X w -> G2 w -> aget key_eqb k (inner a (get_store st w)) = Some old ->
  G2 (cancel_opt old (put_store st (aset N.eqb a (adel key_eqb k (inner a (touch a (get_store st w)))) (touch a (get_store st w))) w)).
Proof.
  intros Hg [H2 Hne] Hget. set (w1 := put_store st _ w).
  assert (Hready : ready (cancel_opt old w1) = ready w).
  { destruct (put_store_frame st (aset N.eqb a (adel key_eqb k (inner a (touch a (get_store st w)))) (touch a (get_store st w))) w) as (_&F2&_).
    fold w1 in F2. destruct old; cbn [cancel_opt]; exact F2. }
  split; [|unfold ne_ready; rewrite Hready; exact Hne].
  assert (Hhas : has_store st w = true).
  { destruct st as [|i]; [reflexivity|]. cbn [has_store]. unfold amem. unfold get_store in Hget.
    destruct (aget N.eqb i (insts w)); [reflexivity|]. cbn in Hget. discriminate. }
  destruct (aget_in_E _ _ _ Hget) as (k0 & Hin0 & Heq0).
  intros tid st' a' k' Hin Hnc.
  assert (Ht : tided (cancel_opt old w1) = tided w) by (destruct old; cbn [cancel_opt]; apply put_store_tided).
  rewrite Ht in Hin.
  assert (Hnc0 : memN tid (cancelled w) = false).
  { destruct old as [x|]; cbn [cancel_opt] in Hnc.
    - change (cancelled (cancel_timer x w1)) with (x :: cancelled w1) in Hnc. rewrite memN_cons in Hnc.
      apply orb_false_iff in Hnc. destruct Hnc as [_ Hnc]. destruct (put_store_frame st (aset N.eqb a (adel key_eqb k (inner a (touch a (get_store st w)))) (touch a (get_store st w))) w) as (_&_&F3&_).
      fold w1 in F3. rewrite F3 in Hnc. exact Hnc.
    - destruct (put_store_frame st (aset N.eqb a (adel key_eqb k (inner a (touch a (get_store st w)))) (touch a (get_store st w))) w) as (_&_&F3&_).
      fold w1 in F3. rewrite F3 in Hnc. exact Hnc. }
  pose proof (H2 _ _ _ _ Hin Hnc0) as Hold.
  assert (Hst : get_store st' (cancel_opt old w1) = get_store st' w1) by (destruct old; reflexivity).
  rewrite Hst. destruct (store_id_eqb st' st) eqn:Es.
  - apply store_id_eqb_eq in Es. subst st'. unfold w1. rewrite get_put_same by exact Hhas. rewrite inner_aset, inner_touch.
    destruct (N.eqb_spec a' a) as [->|_]; [|rewrite inner_touch; exact Hold].
    apply in_adel_other; [exact Hold|]. cbn [fst].
    (* the removed entry is the one equivalent to k; if (k', tid) were it, its timer would be the cancelled one *)
    destruct (key_eqb k k') eqn:Ek; [|reflexivity]. exfalso.
    assert (Hsame : (k', Some tid) = (k0, old)).
    { pose proof (g_keys _ _ Hg st a) as Hnd. pose proof (in_aget_E _ _ _ Hnd Hold) as A1.
      pose proof (in_aget_E _ _ _ Hnd Hin0) as A2.
      assert (Hk : key_eqb k' k0 = true) by (eapply key_eqb_trans; [rewrite key_eqb_sym; exact Ek|exact Heq0]).
      (* two equivalent keys in a NoDupE list are the same element *)
      clear -Hnd Hold Hin0 Hk. induction (inner a (get_store st w)) as [|[k2 v2] l IH]; [contradiction|].
      inversion Hnd as [|? ? ? Hne Hnd']; subst. destruct Hold as [E1|H1], Hin0 as [E2|H2'].
      - congruence.
      - injection E1 as -> ->. pose proof (Hne _ H2') as Hx. cbn [fst] in Hx. congruence.
      - injection E2 as -> ->. pose proof (Hne _ H1) as Hx. cbn [fst] in Hx. rewrite key_eqb_sym in Hx. congruence.
      - apply IH; assumption. }
    injection Hsame as -> <-. cbn [cancel_opt] in Hnc. change (cancelled (cancel_timer tid w1)) with (tid :: cancelled w1) in Hnc.
    rewrite memN_cons, N.eqb_refl in Hnc. discriminate.
  - unfold w1. rewrite get_put_other; [exact Hold|]. intros ->. rewrite (proj2 (store_id_eqb_eq st st) eq_refl) in Es. discriminate.
Qed.

Lemma keeps2_touch st a : keeps2 (fun w => put_store st (touch a (get_store st w)) w).
Proof.
  intros X w Hg [H2 Hne].
  split; [|unfold ne_ready; destruct (put_store_frame st (touch a (get_store st w)) w) as (_&F2&_); rewrite F2; exact Hne].
  intros tid st' a' k' Hin Hnc. rewrite put_store_tided in Hin.
  destruct (put_store_frame st (touch a (get_store st w)) w) as (_&_&F3&_). rewrite F3 in Hnc.
  pose proof (H2 _ _ _ _ Hin Hnc) as Hold. destruct (has_store st w) eqn:Hh; [|rewrite get_put_missing by exact Hh; exact Hold].
  destruct (store_id_eqb st' st) eqn:Es.
  - apply store_id_eqb_eq in Es. subst st'. rewrite get_put_same by exact Hh. rewrite inner_touch. exact Hold.
  - rewrite get_put_other; [exact Hold|]. intros ->. rewrite (proj2 (store_id_eqb_eq st st) eq_refl) in Es. discriminate.
Qed.

Lemma keeps2_store_stop st a k : keeps2 (store_stop st a k).
Proof.
  intros X w Hg H2. unfold store_stop. rewrite inner_touch.
  destruct (aget key_eqb k (inner a (get_store st w))) as [old|] eqn:E.
  - eapply same_G2; [apply n_store_callback|]. rewrite <- (inner_touch a a (get_store st w)). eapply keeps2_remove_cancel; eassumption.
  - eapply (keeps2_touch st a); eassumption.
Qed.

Lemma no_equiv_aget_none {V} k (l : list (key * V)) : (forall p, In p l -> key_eqb k (fst p) = false) -> aget key_eqb k l = None.
Proof.
  induction l as [|[k2 v2] l IH]; intros H; cbn [aget]; [reflexivity|].
  pose proof (H (k2, v2) (or_introl eq_refl)) as E. cbn [fst] in E. rewrite E. apply IH. intros p Hp. apply H. right. exact Hp.
Qed.
Lemma adel_none {V} k (l : list (key * V)) : aget key_eqb k l = None -> adel key_eqb k l = l.
Proof.
  induction l as [|[k2 v2] l IH]; cbn [aget adel]; [reflexivity|]. destruct (key_eqb k k2); [discriminate|].
  intros H. rewrite IH by exact H. reflexivity.
Qed.

(* the loop of stop_all_for_address: what it does to the parts the invariants read *)
Lemma fold_cancel_facts st a : forall (l : list (key * option N)) w,
  let wf := fold_left (fun acc p => store_callback st (fst p) a (cancel_opt (snd p) acc)) l w in
  tided wf = tided w /\ ne_ready wf = ne_ready w
  /\ (forall st' a', inner a' (get_store st' wf) = inner a' (get_store st' w))
  /\ (forall tid, memN tid (cancelled wf) = false -> memN tid (cancelled w) = false)
  /\ (forall k tid, In (k, Some tid) l -> memN tid (cancelled wf) = true).
Proof.
  induction l as [|[k0 o] l IH]; intros w; cbn [fold_left]; cbv zeta.
  - repeat split; auto; intros k tid [].
  - cbn [fst snd]. set (w1 := store_callback st k0 a (cancel_opt o w)).
    pose proof (n_store_callback st k0 a (cancel_opt o w)) as Hs. fold w1 in Hs.
    destruct (IH w1) as (A1 & A2 & A3 & A4 & A5). cbv zeta in *.
    assert (C1 : tided (cancel_opt o w) = tided w) by (destruct o; reflexivity).
    assert (C2 : ne_ready (cancel_opt o w) = ne_ready w) by (destruct o; reflexivity).
    assert (C3 : forall st' a', inner a' (get_store st' (cancel_opt o w)) = inner a' (get_store st' w)) by (destruct o; reflexivity).
    repeat split.
    + rewrite A1, (same_tided _ _ Hs). exact C1.
    + rewrite A2, (sm_ne _ _ Hs). exact C2.
    + intros st' a'. rewrite A3, (sm_store _ _ Hs). apply C3.
    + intros tid H. apply A4 in H. rewrite (sm_can _ _ Hs) in H. destruct o as [x|]; [|exact H].
      change (cancelled (cancel_opt (Some x) w)) with (x :: cancelled w) in H. rewrite memN_cons in H. apply orb_false_iff in H. tauto.
    + intros k tid [E|Hin]; [|eapply A5; eauto]. injection E as -> ->.
      destruct (memN tid (cancelled (fold_left _ l w1))) eqn:Em; [reflexivity|]. apply A4 in Em.
      rewrite (sm_can _ _ Hs) in Em. change (cancelled (cancel_opt (Some tid) w)) with (tid :: cancelled w) in Em.
      rewrite memN_cons, N.eqb_refl in Em. discriminate.
Qed.

Lemma keeps2_store_stop_all_for_address st a : keeps2 (store_stop_all_for_address st a).
Proof.
  intros X w Hg [H2 Hne]. unfold store_stop_all_for_address. rewrite inner_touch.
  set (s0 := touch a (get_store st w)). set (d0 := inner a (get_store st w)).
  set (w1 := put_store st (aset N.eqb a [] s0) w).
  destruct (fold_cancel_facts st a d0 w1) as (A1 & A2 & A3 & A4 & A5). cbv zeta in *.
  destruct (put_store_frame st (aset N.eqb a [] s0) w) as (F1 & F2 & F3 & _). fold w1 in F1, F2, F3.
  split; [|rewrite A2; unfold ne_ready; rewrite F2; exact Hne].
  intros tid st' a' k' Hin Hnc. rewrite A1 in Hin. unfold w1 in Hin. rewrite put_store_tided in Hin.
  pose proof (A4 _ Hnc) as Hnc1. rewrite F3 in Hnc1. pose proof (H2 _ _ _ _ Hin Hnc1) as Hold.
  rewrite A3. destruct (has_store st w) eqn:Hh.
  - destruct (store_id_eqb st' st) eqn:Es.
    + apply store_id_eqb_eq in Es. subst st'. unfold w1. rewrite get_put_same by exact Hh. rewrite inner_aset. unfold s0. rewrite inner_touch.
      destruct (N.eqb_spec a' a) as [->|_]; [|exact Hold].
      exfalso. pose proof (A5 _ _ Hold) as Hc. congruence.
    + unfold w1. rewrite get_put_other; [exact Hold|]. intros ->. rewrite (proj2 (store_id_eqb_eq st st) eq_refl) in Es. discriminate.
  - unfold w1. rewrite get_put_missing by exact Hh. exact Hold.
Qed.

(* the tail of refresh, when nothing equivalent to k is stored any more (and the store exists) *)
Lemma keeps2_refresh_tail X st ttl a k w1 : GP X w1 -> G2 w1 -> aget key_eqb k (inner a (get_store st w1)) = None ->
  has_store st w1 = true -> G2 (fst (refresh_tail st ttl a k w1)).
Proof.
  intros Hg0 H20 Hnone0 Hh0. unfold refresh_tail. cbv zeta.
  assert (Hg : GP X (ghost (GRefresh st a k ttl) w1)) by (apply GP_ghost; exact Hg0).
  assert (H2' : G2 (ghost (GRefresh st a k ttl) w1)) by exact H20.
  assert (Hnone : aget key_eqb k (inner a (get_store st (ghost (GRefresh st a k ttl) w1))) = None) by exact Hnone0.
  assert (Hh1 : has_store st (ghost (GRefresh st a k ttl) w1) = true) by exact Hh0.
  revert Hg H2' Hnone Hh1. generalize (ghost (GRefresh st a k ttl) w1). clear w1 Hg0 H20 Hnone0 Hh0. intros w1 Hg [H2 Hne] Hnone Hh1.
  destruct (ttl =? TTL_FOREVER).
  - cbn [fst]. rewrite inner_touch, (adel_none _ _ Hnone).
    destruct (put_store_frame st (aset N.eqb a (inner a (get_store st w1) ++ [(k, None)]) (touch a (get_store st w1))) w1) as (_&F2&F3&_).
    split; [|unfold ne_ready; rewrite F2; exact Hne].
    intros tid st' a' k' Hin Hnc. rewrite put_store_tided in Hin. rewrite F3 in Hnc. pose proof (H2 _ _ _ _ Hin Hnc) as Hold.
    destruct (store_id_eqb st' st) eqn:Es.
    + apply store_id_eqb_eq in Es. subst st'. rewrite get_put_same by exact Hh1. rewrite inner_aset, inner_touch.
      destruct (N.eqb_spec a' a) as [->|_]; [apply in_or_app; left|]; exact Hold.
    + rewrite get_put_other; [exact Hold|]. intros ->. rewrite (proj2 (store_id_eqb_eq st st) eq_refl) in Es. discriminate.
  - destruct (call_later (ttl * usec_per_sec) (HExpired st a k) w1) as [t w'] eqn:Ecl. cbn [fst].
    assert (Hw' : w' = snd (call_later (ttl * usec_per_sec) (HExpired st a k) w1)) by (rewrite Ecl; reflexivity).
    assert (Ht : t = next_id w1) by (destruct (call_later_frame (ttl * usec_per_sec) (HExpired st a k) w1) as (_&_&_&_&_&_&_&_&F9); rewrite Ecl in F9; exact F9).
    assert (Hst : forall st', get_store st' w' = get_store st' w1) by (intros [|i]; rewrite Hw'; reflexivity).
    assert (Hh : has_store st w' = true) by (rewrite Hw'; destruct st; exact Hh1).
    rewrite inner_touch.
    assert (Hin_eq : inner a (get_store st w') = inner a (get_store st w1)) by (rewrite Hst; reflexivity).
    rewrite Hin_eq, (adel_none _ _ Hnone).
    set (s' := aset N.eqb a (inner a (get_store st w1) ++ [(k, Some t)]) (touch a (get_store st w'))).
    set (wf := put_store st s' w').
    destruct (put_store_frame st s' w') as (_&F2&F3&_).
    fold wf in F2, F3.
    split; [|unfold ne_ready; rewrite F2, Hw'; exact Hne].
    intros tid st' a' k' Hin Hnc. unfold wf in Hin. rewrite put_store_tided, Hw' in Hin. apply in_tided_call_later in Hin.
    rewrite F3, Hw' in Hnc. change (cancelled (snd (call_later (ttl * usec_per_sec) (HExpired st a k) w1))) with (cancelled w1) in Hnc.
    destruct Hin as [E|Hin].
    + injection E as -> -> -> ->. subst t.
      unfold wf, s'. rewrite get_put_same by exact Hh. rewrite inner_aset, N.eqb_refl. apply in_or_app. right. left. reflexivity.
    + pose proof (H2 _ _ _ _ Hin Hnc) as Hold.
      destruct (store_id_eqb st' st) eqn:Es.
      * apply store_id_eqb_eq in Es. subst st'. unfold wf, s'. rewrite get_put_same by exact Hh. rewrite inner_aset, inner_touch, Hst.
        destruct (N.eqb_spec a' a) as [->|_]; [apply in_or_app; left|]; exact Hold.
      * unfold wf. rewrite get_put_other; [rewrite Hst; exact Hold|]. intros ->. rewrite (proj2 (store_id_eqb_eq st st) eq_refl) in Es. discriminate.
Qed.

Lemma has_store_put_store st st' s w : has_store st' (put_store st s w) = has_store st' w.
Proof.
  destruct st' as [|j]; [reflexivity|]. destruct st as [|i]; [reflexivity|]. cbn [has_store]. unfold put_store, amem.
  destruct (aget N.eqb i (insts w)) as [ins|] eqn:E; [|reflexivity]. cbn [insts set_insts].
  destruct (N.eqb_spec j i) as [->|Hne].
  - rewrite (aget_aset_same N.eqb N.eqb_eq), E. reflexivity.
  - rewrite (aget_aset_other N.eqb N.eqb_eq) by exact Hne. reflexivity.
Qed.

Lemma keeps2_store_refresh X st ttl a k w : GP X w -> G2 w -> has_store st w = true -> G2 (fst (store_refresh st ttl a k w)).
Proof.
  intros Hg H2 Hh. rewrite store_refresh_unfold. cbv zeta. rewrite inner_touch.
  destruct (aget key_eqb k (inner a (get_store st w))) as [old|] eqn:E.
  - set (w1 := cancel_opt old _).
    assert (Hg1 : GP X w1) by (unfold w1; rewrite <- (inner_touch a a (get_store st w)); apply keeps_remove_cancel; assumption).
    assert (H21 : G2 w1) by (unfold w1; rewrite <- (inner_touch a a (get_store st w)); eapply keeps2_remove_cancel; eassumption).
    assert (Hh1 : has_store st w1 = true).
    { unfold w1. destruct old; cbn [cancel_opt]; [change (has_store st (cancel_timer n ?x)) with (has_store st x)|]; rewrite has_store_put_store; exact Hh. }
    eapply keeps2_refresh_tail; try eassumption.
    apply no_equiv_aget_none. unfold w1.
    assert (Hgs : get_store st (cancel_opt old (put_store st (aset N.eqb a (adel key_eqb k (inner a (get_store st w))) (touch a (get_store st w))) w))
                  = aset N.eqb a (adel key_eqb k (inner a (get_store st w))) (touch a (get_store st w))).
    { destruct old; cbn [cancel_opt]; [change (get_store st (cancel_timer n ?x)) with (get_store st x)|]; apply get_put_same; exact Hh. }
    rewrite Hgs, inner_aset, N.eqb_refl. apply adel_no_equiv. apply (g_keys _ _ Hg).
  - set (w0 := put_store st (touch a (get_store st w)) w).
    assert (Hg0 : GP X w0).
    { apply keeps_put_store; [exact Hg| |].
      - intros a'. rewrite inner_touch. apply (g_keys _ _ Hg).
      - intros a' k' tid. rewrite inner_touch. apply (g_store _ _ Hg). }
    assert (H20 : G2 w0) by (eapply (keeps2_touch st a); eassumption).
    assert (Hn0 : aget key_eqb k (inner a (get_store st w0)) = None).
    { unfold w0. rewrite get_put_same by exact Hh. rewrite inner_touch. exact E. }
    assert (Hh0 : has_store st w0 = true) by (unfold w0; rewrite has_store_put_store; exact Hh).
    destruct st as [|i], k as [s|sub]; try (eapply keeps2_refresh_tail; eassumption).
    + pose proof (n_notify_service listener_offered s a (fun l => n_listener_offered l s a) w0) as Hs.
      eapply keeps2_refresh_tail; [eapply same_G; eauto|eapply same_G2; eauto|rewrite (sm_store _ _ Hs); exact Hn0|reflexivity].
    + destruct (client_subscribed i sub a w0) as [w' ok] eqn:Ec.
      pose proof (n_client_subscribed i sub a w0) as Hs. cbv beta in Hs. rewrite Ec in Hs. cbn [fst] in Hs.
      assert (Hh' : has_store (SSubs i) w' = true).
      { unfold client_subscribed in Ec. destruct (aget N.eqb i (insts w0)); injection Ec as <- _; exact Hh0. }
      destruct ok; cbn [negb]; [|cbn [fst]; eapply same_G2; eauto].
      eapply keeps2_refresh_tail; [eapply same_G; eauto|eapply same_G2; eauto|rewrite (sm_store _ _ Hs); exact Hn0|exact Hh'].
Qed.

(* ------------------------------------------------------------------ both invariants together *)
Definition GG (X : list (N * handle)) (w : world) : Prop := GP X w /\ G2 w.
Definition kk (f : world -> world) : Prop := forall X w, GG X w -> GG X (f w).

Lemma kk_of f : keeps f -> keeps2 f -> kk f.
Proof. intros H1 H2 X w [A B]. split; [apply H1; exact A|eapply H2; eassumption]. Qed.
Lemma kk_neutral f : neutral f -> kk f.
Proof. intros H. apply kk_of; [apply neutral_keeps; exact H|apply neutral_keeps2; exact H]. Qed.
Lemma kk_fold {Y} (f : world -> Y -> world) l : (forall x, kk (fun w => f w x)) -> kk (fun w => fold_left f l w).
Proof. intros H. induction l as [|x l IH]; intros X w Hg; cbn [fold_left]; [exact Hg|]. apply IH. apply (H x). exact Hg. Qed.
Lemma GG_same {b} X w w' : sameb b w w' -> GG X w -> GG X w'.
Proof. intros Hs [A B]. split; [eapply same_G; eauto|eapply same_G2; eauto]. Qed.

(* a world that differs only in parts neither invariant reads, or only by new non-expiry handles *)
Lemma G2_ext w w' : G2 w ->
  (forall tid st a k, In (tid, HExpired st a k) (tided w') -> In (tid, HExpired st a k) (tided w)) ->
  cancelled w' = cancelled w -> (forall st a, inner a (get_store st w') = inner a (get_store st w)) -> ne_ready w' = ne_ready w -> G2 w'.
Proof.
  intros [H Hn] Ht Hc Hs Hr. split; [|rewrite Hr; exact Hn]. intros tid st a k Hin Hnc. rewrite Hs. rewrite Hc in Hnc. apply H; [apply Ht; exact Hin|exact Hnc].
Qed.

Lemma kk_call_later d h : notexp_b h = true -> kk (fun w => snd (call_later d h w)).
Proof.
  intros Hn. apply kk_of; [apply keeps_call_later|]. apply keeps2_call_later. intros st a k ->. discriminate.
Qed.

Lemma kk_store_stop st a k : kk (store_stop st a k).
Proof. apply kk_of; [apply keeps_store_stop|apply keeps2_store_stop]. Qed.
Lemma kk_store_stop_all_for_address st a : kk (store_stop_all_for_address st a).
Proof. apply kk_of; [apply keeps_store_stop_all_for_address|apply keeps2_store_stop_all_for_address]. Qed.

(* what stop_all_for_address does to the stores *)
Lemma inner_stop_all_for_address st a w st' a' :
  inner a' (get_store st' (store_stop_all_for_address st a w))
  = if store_id_eqb st' st && (a' =? a) then [] else inner a' (get_store st' w).
Proof.
  unfold store_stop_all_for_address. rewrite inner_touch.
  destruct (fold_cancel_facts st a (inner a (get_store st w)) (put_store st (aset N.eqb a [] (touch a (get_store st w))) w)) as (_ & _ & A3 & _).
  cbv zeta in A3. rewrite A3. destruct (store_id_eqb st' st) eqn:Es; cbn [andb].
  - apply store_id_eqb_eq in Es. subst st'. destruct (has_store st w) eqn:Hh.
    + rewrite get_put_same by exact Hh. rewrite inner_aset, inner_touch. reflexivity.
    + rewrite get_put_missing by exact Hh. destruct (a' =? a); [|reflexivity].
      destruct st as [|i]; [discriminate|]. cbn [has_store] in Hh. unfold amem in Hh. unfold get_store. destruct (aget N.eqb i (insts w)); [discriminate|reflexivity].
  - rewrite get_put_other; [reflexivity|]. intros ->. rewrite (proj2 (store_id_eqb_eq st st) eq_refl) in Es. discriminate.
Qed.

Lemma kk_store_stop_all st : kk (store_stop_all st).
Proof.
  intros X w Hg. unfold store_stop_all.
  set (wf := fold_left (fun acc p => store_stop_all_for_address st (fst p) acc) (get_store st w) w).
  assert (Hf : GG X wf).
  { unfold wf. apply (kk_fold (fun acc p => store_stop_all_for_address st (fst p) acc)); [|exact Hg]. intros p. apply kk_store_stop_all_for_address. }
  (* every address of the store has been emptied *)
  assert (Hempty : forall a', inner a' (get_store st wf) = []).
  { intros a'. unfold wf.
    assert (Hgen : forall (l : list (addr * list (key * option N))) w0,
              inner a' (get_store st (fold_left (fun acc p => store_stop_all_for_address st (fst p) acc) l w0))
              = if existsb (N.eqb a') (map fst l) then [] else inner a' (get_store st w0)).
    { induction l as [|p l IH]; intros w0; cbn [fold_left map existsb]; [reflexivity|].
      rewrite IH.
      rewrite inner_stop_all_for_address, (proj2 (store_id_eqb_eq st st) eq_refl). cbn [andb].
      destruct (a' =? fst p) eqn:E1; cbn [orb]; [destruct (existsb _ _); reflexivity|reflexivity]. }
    rewrite Hgen.
    destruct (existsb (N.eqb a') (map fst (get_store st w))) eqn:Ee; [reflexivity|].
    unfold inner. destruct (aget N.eqb a' (get_store st w)) as [d|] eqn:Ea; [|reflexivity].
    exfalso. assert (Hin : In a' (map fst (get_store st w))).
    { clear -Ea. induction (get_store st w) as [|[k v] l IH]; cbn [aget] in Ea; [discriminate|].
      destruct (N.eqb_spec a' k) as [->|_]; [left; reflexivity|right; auto]. }
    assert (existsb (N.eqb a') (map fst (get_store st w)) = true) by (apply existsb_exists; exists a'; split; [exact Hin|apply N.eqb_refl]).
    congruence. }
  destruct Hf as [Hf1 Hf2]. split.
  - apply keeps_put_store; [exact Hf1|intros a; constructor|intros a k tid []].
  - destruct Hf2 as [H2 Hne]. destruct (put_store_frame st [] wf) as (_&F2&F3&_).
    split; [|unfold ne_ready; rewrite F2; exact Hne].
    intros tid st' a' k' Hin Hnc. rewrite put_store_tided in Hin. rewrite F3 in Hnc. pose proof (H2 _ _ _ _ Hin Hnc) as Hold.
    destruct (has_store st wf) eqn:Hh; [|rewrite get_put_missing by exact Hh; exact Hold].
    destruct (store_id_eqb st' st) eqn:Es.
    + apply store_id_eqb_eq in Es. subst st'. rewrite Hempty in Hold. contradiction.
    + rewrite get_put_other; [exact Hold|]. intros ->. rewrite (proj2 (store_id_eqb_eq st st) eq_refl) in Es. discriminate.
Qed.

Lemma kk_store_refresh X st ttl a k w : GG X w -> has_store st w = true -> GG X (fst (store_refresh st ttl a k w)).
Proof. intros [A B] Hh. split; [apply keeps_store_refresh; exact A|eapply keeps2_store_refresh; eassumption]. Qed.

(* ---- tasks and collectors: they never create expiry handles and never touch the stores *)
Lemma G2_tasks_only w w' : G2 w -> tided w' = tided w -> cancelled w' = cancelled w -> found w' = found w -> insts w' = insts w -> ready w' = ready w -> G2 w'.
Proof.
  intros H Ht Hc Hf Hi Hr. eapply G2_ext; [exact H|rewrite Ht; auto|exact Hc| |unfold ne_ready; rewrite Hr; reflexivity].
  intros [|i] a; unfold get_store; rewrite ?Hf, ?Hi; reflexivity.
Qed.

Lemma kk_new_task k : kk (fun w => snd (new_task k w)).
Proof.
  apply kk_of; [apply keeps_new_task|]. intros X w _ H2. unfold new_task. cbn [snd].
  eapply same_G2; [apply n_call_soon; reflexivity|]. apply (G2_tasks_only w); [exact H2|reflexivity..].
Qed.
Lemma kk_finish_task t : kk (finish_task t).
Proof.
  apply kk_of; [apply keeps_finish_task|]. intros X w Hg H2. unfold finish_task. destruct (get_task t w); [|exact H2].
  eapply keeps2_put_task; eassumption.
Qed.
Lemma kk_task_sleep t k d pc i : kk (task_sleep t k d pc i).
Proof.
  apply kk_of; [apply keeps_task_sleep|]. intros X w Hg H2. unfold task_sleep. destruct (d =? 0).
  - eapply same_G2; [apply n_call_soon; reflexivity|]. eapply keeps2_put_task; eassumption.
  - destruct (call_later d (HSleepDone t) w) as [tid w1] eqn:E.
    assert (Hw1 : w1 = snd (call_later d (HSleepDone t) w)) by (rewrite E; reflexivity).
    eapply keeps2_put_task; rewrite Hw1; [apply keeps_call_later; exact Hg|eapply keeps2_call_later; [intros st a k0; discriminate|exact Hg|exact H2]].
Qed.
Lemma kk_cancel_task t : kk (cancel_task t).
Proof.
  apply kk_of; [apply keeps_cancel_task|]. intros X w Hg H2. unfold cancel_task. destruct (get_task t w) as [tk|]; [|exact H2].
  destruct (tk_done tk); [exact H2|]. destruct (tk_sleep tk) as [tid|].
  - eapply same_G2; [apply n_call_soon; reflexivity|]. eapply keeps2_cancel; [|eapply keeps2_put_task; eassumption].
    apply keeps_put_task; [exact Hg|cbn; discriminate].
  - eapply keeps2_put_task; eassumption.
Qed.
Lemma kk_sleep_done t : kk (sleep_done t).
Proof.
  apply kk_of; [apply keeps_sleep_done|]. intros X w Hg H2. unfold sleep_done. destruct (get_task t w) as [tk|]; [|exact H2].
  destruct (tk_done tk); [exact H2|]. eapply same_G2; [apply n_call_soon; reflexivity|]. eapply keeps2_put_task; eassumption.
Qed.

Lemma kk_queue_send e d : kk (queue_send e d).
Proof.
  apply kk_of; [apply keeps_queue_send|]. intros X w0 Hg0 H20. unfold queue_send.
  assert (Hg : GP X (ghost (GQueue e d) w0)) by (apply GP_ghost; exact Hg0).
  assert (H2 : G2 (ghost (GQueue e d) w0)) by (apply (G2_tasks_only w0); [exact H20|reflexivity..]).
  revert Hg H2. generalize (ghost (GQueue e d) w0). clear w0 Hg0 H20. intros w Hg H2. unfold queue_core.
  destruct (t_collect (cfg w) =? 0); [eapply same_G2; [apply n_send_sd|]; apply (G2_tasks_only w); [exact H2|reflexivity..]|].
  match goal with |- G2 (match ?o with Some _ => _ | None => _ end) => destruct o as [[c co]|] end.
  - apply (G2_tasks_only w); [exact H2|reflexivity..].
  - destruct (call_later (t_collect (cfg w)) (HCollector (next_id w)) w) as [tid w1] eqn:E.
    assert (Hw1 : w1 = snd (call_later (t_collect (cfg w)) (HCollector (next_id w)) w)) by (rewrite E; reflexivity).
    apply (G2_tasks_only w1); [rewrite Hw1; eapply keeps2_call_later; [intros st a k0; discriminate|exact Hg|exact H2]|reflexivity..].
Qed.
Lemma kk_collector_timeout c : kk (collector_timeout c).
Proof.
  apply kk_of; [apply keeps_collector_timeout|]. intros X w Hg H2. unfold collector_timeout.
  destruct (aget N.eqb c (collectors w)); [|exact H2]. eapply same_G2; [apply n_send_sd|]. apply (G2_tasks_only w); [exact H2|reflexivity..].
Qed.

(* ------------------------------------------------------------------ composite functions *)
(* every protocol function and every callback that is neither an expiry nor a collector timeout keeps both invariants:
   the generic lifting of Proofs/Lift.v, instantiated with the primitives above *)
Theorem kk_exec_soon h : soon_ok h = true -> kk (exec h).
Proof.
  exact (Lift.kk_exec GG GG_same
           (fun d h0 Hs => kk_call_later d h0 (proj1 (andb_prop _ _ Hs)))
           kk_store_stop kk_store_stop_all_for_address kk_store_stop_all kk_store_refresh
           kk_new_task kk_finish_task kk_task_sleep kk_cancel_task kk_sleep_done kk_queue_send h).
Qed.
(* every callback except an expiry keeps both invariants; the expiry callback is treated with its pop (below) *)
Theorem kk_exec h : notexp_b h = true -> kk (exec h).
Proof.
  intros Hn. destruct (nocoll_b h) eqn:Ec.
  - apply kk_exec_soon. unfold soon_ok. rewrite Hn, Ec. reflexivity.
  - destruct h; try discriminate. cbn [exec]. apply kk_collector_timeout.
Qed.

(* ------------------------------------------------------------------ the loop *)
Lemma G2_pop w otid h r : G2 w -> ready w = (otid, h) :: r -> G2 (set_ready r w).
Proof.
  intros [H2 Hne] Hr. split.
  - intros tid st a k Hin Hnc. apply H2; [|exact Hnc]. unfold tided, tmr, rdy in *. cbn [ready set_ready timers] in Hin. rewrite Hr.
    apply in_app_iff in Hin. apply in_or_app. destruct Hin as [Hin|Hin]; [left; exact Hin|right].
    cbn [flat_map]. apply in_or_app. right. exact Hin.
  - unfold ne_ready in *. cbn [ready set_ready]. rewrite Hr in Hne. cbn [forallb] in Hne. apply andb_true_iff in Hne. tauto.
Qed.

Lemma nodupE_unique {V} (l : list (key * V)) k1 v1 k2 v2 : NoDupE l -> In (k1, v1) l -> In (k2, v2) l -> key_eqb k1 k2 = true -> (k1, v1) = (k2, v2).
Proof.
  induction l as [|[k v] l IH]; intros Hnd H1 H2 He; [contradiction|]. inversion Hnd as [|? ? ? Hne Hnd']; subst.
  destruct H1 as [E1|H1], H2 as [E2|H2'].
  - congruence.
  - injection E1 as -> ->. pose proof (Hne _ H2') as Hx. cbn [fst] in Hx. congruence.
  - injection E2 as -> ->. pose proof (Hne _ H1) as Hx. cbn [fst] in Hx. rewrite key_eqb_sym in Hx. congruence.
  - apply IH; assumption.
Qed.

(* the expiry callback, run by the loop for a live timer: it removes exactly the entry that owns the timer *)
Lemma G2_expired_popped w tid st a k r : GG [] w -> ready w = (Some tid, HExpired st a k) :: r -> memN tid (cancelled w) = false ->
  G2 (store_expired st a k (set_ready r w)).
Proof.
  intros [Hg [H2 Hne]] Hr Hnc. set (w1 := set_ready r w).
  assert (Hpend : In (tid, HExpired st a k) (tided w)).
  { unfold tided, rdy. rewrite Hr. apply in_or_app. right. cbn. left. reflexivity. }
  pose proof (H2 _ _ _ _ Hpend Hnc) as Hent.
  assert (Hst1 : forall st', get_store st' w1 = get_store st' w) by (intros [|i]; reflexivity).
  pose proof (g_keys _ _ Hg st a) as Hnd.
  pose proof (in_aget_E _ _ _ Hnd Hent) as Hget.
  assert (Hhas : has_store st w1 = true).
  { destruct st as [|i]; [reflexivity|]. cbn [has_store]. unfold amem. unfold get_store in Hent. change (insts w1) with (insts w).
    destruct (aget N.eqb i (insts w)); [reflexivity|]. cbn in Hent. contradiction. }
  assert (Hnot1 : ~ In tid (map fst (tided w1))).
  { pose proof (g_nodup _ _ Hg) as Hn. cbn [app] in Hn. unfold tided, tmr, rdy in Hn |- *. rewrite Hr in Hn. cbn [flat_map fst snd app] in Hn.
    cbn [ready set_ready timers]. rewrite map_app in Hn |- *. cbn [map fst] in Hn.
    apply NoDup_remove_2 in Hn. rewrite <- map_app in Hn. rewrite <- map_app. exact Hn. }
  unfold store_expired. rewrite inner_touch, Hst1, Hget.
  pose proof (n_store_callback st k a (put_store st (aset N.eqb a (adel key_eqb k (inner a (get_store st w))) (touch a (get_store st w1))) w1)) as Hs.
  match goal with |- G2 (ghost ?g ?x) => change (G2 x) end.
  eapply same_G2; [exact Hs|].
  set (s' := aset N.eqb a (adel key_eqb k (inner a (get_store st w))) (touch a (get_store st w1))).
  destruct (put_store_frame st s' w1) as (_&F2&F3&_).
  split.
  - intros t' st' a' k' Hin Hnc'. rewrite put_store_tided in Hin. rewrite F3 in Hnc'. change (cancelled w1) with (cancelled w) in Hnc'.
    assert (Hin0 : In (t', HExpired st' a' k') (tided w)).
    { unfold tided, tmr, rdy in *. cbn [ready set_ready timers] in Hin. rewrite Hr. apply in_app_iff in Hin. apply in_or_app.
      destruct Hin as [Hin|Hin]; [left; exact Hin|right]. cbn [flat_map]. apply in_or_app. right. exact Hin. }
    pose proof (H2 _ _ _ _ Hin0 Hnc') as Hold.
    destruct (store_id_eqb st' st) eqn:Es.
    + apply store_id_eqb_eq in Es. subst st'. rewrite get_put_same by exact Hhas. unfold s'. rewrite inner_aset, inner_touch, Hst1.
      destruct (N.eqb_spec a' a) as [->|_]; [|exact Hold].
      apply in_adel_other; [exact Hold|]. cbn [fst]. destruct (key_eqb k k') eqn:Ek; [|reflexivity]. exfalso.
      pose proof (nodupE_unique _ _ _ _ _ Hnd Hent Hold Ek) as E. injection E as <- <-.
      apply Hnot1. apply (in_map fst) in Hin. exact Hin.
    + rewrite get_put_other; [rewrite Hst1; exact Hold|]. intros ->. rewrite (proj2 (store_id_eqb_eq st st) eq_refl) in Es. discriminate.
  - unfold ne_ready. rewrite F2. unfold ne_ready in Hne. rewrite Hr in Hne. cbn [forallb] in Hne. apply andb_true_iff in Hne.
    cbn [ready set_ready w1]. tauto.
Qed.

Theorem GG_lstep1 w : GG [] w -> GG [] (lstep1 w).
Proof.
  intros Hgg. split; [apply G_lstep1; exact (proj1 Hgg)|].
  destruct Hgg as [Hg H2]. unfold lstep1. destruct (ready w) as [|[[tid|] h] r] eqn:Hr; [exact H2| |].
  - cbv zeta. destruct (is_cancelled tid (set_ready r w)) eqn:Ec; [eapply G2_pop; eauto|].
    destruct (notexp_b h) eqn:En.
    + refine (proj2 (kk_exec h En [(tid, h)] (set_ready r w) _)). split; [apply pop_GP; assumption|eapply G2_pop; eauto].
    + destruct h; try discriminate. cbn [exec]. apply (G2_expired_popped w tid); [split; assumption|exact Hr|exact Ec].
  - cbv zeta. assert (En : notexp_b h = true).
    { destruct H2 as [_ Hne]. unfold ne_ready in Hne. rewrite Hr in Hne. cbn [forallb fst snd] in Hne. apply andb_true_iff in Hne. tauto. }
    refine (proj2 (kk_exec h En [] (set_ready r w) _)). split; [|eapply G2_pop; eauto].
    apply (same_G_weak _ w); [|exact Hg]. unfold tided, tmr, rdy. cbn [ready set_ready timers]. rewrite Hr. reflexivity.
Qed.

Lemma GG_run_ready : forall n w, GG [] w -> GG [] (run_ready n w).
Proof. induction n as [|n IH]; intros w Hg; [exact Hg|]. rewrite run_ready_step. apply IH, GG_lstep1, Hg. Qed.

Definition all_notexp (hs : list handle) : Prop := Forall (fun h => soon_ok h = true) hs.

Lemma GG_arrivals : forall hs w, all_notexp hs -> GG [] w -> GG [] (fold_left (fun acc h => call_soon h acc) hs w).
Proof.
  induction hs as [|h hs IH]; intros w Ha Hg; cbn [fold_left]; [exact Hg|]. inversion Ha as [|? ? Hh Ha']; subst.
  apply IH; [exact Ha'|]. eapply GG_same; [apply n_call_soon; exact Hh|exact Hg].
Qed.

Lemma GG_iter_pre arrivals rv w : all_notexp arrivals -> GG [] w -> GG [] (iter_pre arrivals rv w).
Proof.
  intros Ha Hg. split; [apply G_iter_pre; exact (proj1 Hg)|].
  pose proof (GG_arrivals arrivals w Ha Hg) as [_ [H2 Hne]].
  destruct (iter_pre_sub arrivals rv w) as (Hsub & Hc & Hf & Hi). cbv zeta in *.
  split.
  - intros tid st a k Hin Hnc. rewrite Hc in Hnc.
    assert (Hst : get_store st (iter_pre arrivals rv w) = get_store st (fold_left (fun acc h => call_soon h acc) arrivals w)).
    { destruct st as [|i]; unfold get_store; rewrite ?Hf, ?Hi; reflexivity. }
    rewrite Hst. apply H2; [apply Hsub; exact Hin|exact Hnc].
  - unfold ne_ready, iter_pre. cbv zeta. cbn [ready set_timers set_ready]. rewrite forallb_app. unfold ne_ready in Hne. rewrite Hne. cbn [andb].
    apply forallb_forall. intros x Hx. apply in_map_iff in Hx. destruct Hx as (t & <- & _). reflexivity.
Qed.

Theorem GG_iteration arrivals rv w : all_notexp arrivals -> GG [] w -> GG [] (iteration arrivals rv w).
Proof.
  intros Ha Hg. rewrite iteration_pre. apply GG_run_ready. split; [apply G_iter_pre; exact (proj1 Hg)|].
  pose proof (GG_arrivals arrivals w Ha Hg) as [_ [H2 Hne]].
  destruct (iter_pre_sub arrivals rv w) as (Hsub & Hc & Hf & Hi). cbv zeta in *.
  split.
  - intros tid st a k Hin Hnc. rewrite Hc in Hnc.
    assert (Hst : get_store st (iter_pre arrivals rv w) = get_store st (fold_left (fun acc h => call_soon h acc) arrivals w)).
    { destruct st as [|i]; unfold get_store; rewrite ?Hf, ?Hi; reflexivity. }
    rewrite Hst. apply H2; [apply Hsub; exact Hin|exact Hnc].
  - unfold ne_ready, iter_pre. cbv zeta. cbn [ready set_timers set_ready]. rewrite forallb_app. unfold ne_ready in Hne. rewrite Hne. cbn [andb].
    apply forallb_forall. intros x Hx. apply in_map_iff in Hx. destruct Hx as (t & <- & _). reflexivity.
Qed.

Lemma split_arrived_notexp : forall t evs a l, Forall (fun e => soon_ok (snd e) = true) evs -> split_arrived t evs = (a, l) ->
  all_notexp (map snd a) /\ Forall (fun e => soon_ok (snd e) = true) l.
Proof.
  induction evs as [|e evs IH]; intros a l Hf H; cbn [split_arrived] in H.
  - injection H as <- <-. split; constructor.
  - inversion Hf as [|? ? He Hf']; subst. destruct (fst e <=? t).
    + destruct (split_arrived t evs) as [a' l'] eqn:E. injection H as <- <-. destruct (IH a' l' Hf' eq_refl) as [A B].
      split; [constructor; assumption|exact B].
    + injection H as <- <-. split; [constructor|exact Hf].
Qed.

Theorem GG_run : forall fuel events t_end rv w, Forall (fun e => soon_ok (snd e) = true) events -> GG [] w ->
  GG [] (fst (run fuel events t_end rv w)).
Proof.
  induction fuel as [|f IH]; intros events t_end rv w Hev Hg; cbn [run fst]; [exact Hg|].
  destruct (split_arrived (now w) events) as [arrived later] eqn:Es.
  destruct (split_arrived_notexp _ _ _ _ Hev Es) as [Ha Hl].
  set (dn := match next_timer w with Some t => t <=? now w | None => false end).
  destruct (ready w) as [|x r] eqn:Er; [destruct arrived as [|a ar]; [destruct dn|]|];
    try (apply IH; [exact Hl|]; apply GG_iteration; [exact Ha|exact Hg]).
  destruct (omin _ _) as [t|]; [|exact Hg]. destruct (t_end <? t); [exact Hg|].
  apply IH; [exact Hev|]. destruct Hg as [A [B C]]. split; [apply GP_set_now; exact A|split; [exact B|exact C]].
Qed.

Lemma d_event_in_notexp s e : d_event_in s = Some e -> soon_ok (snd e) = true.
Proof.
  intros H. unfold d_event_in in H.
  repeat match type of H with
         | match ?x with _ => _ end = Some _ => destruct x; try discriminate
         | obind ?x _ = Some _ => destruct x; cbn [obind] in H; try discriminate
         end; injection H as <-; reflexivity.
Qed.
Lemma dmap_event_notexp : forall l evs, dmap d_event_in l = Some evs -> Forall (fun e => soon_ok (snd e) = true) evs.
Proof.
  induction l as [|s l IH]; intros evs H; cbn [dmap] in H.
  - injection H as <-. constructor.
  - destruct (d_event_in s) as [e|] eqn:E; cbn [obind] in H; [|discriminate].
    destruct (dmap d_event_in l) as [r|] eqn:E2; cbn [obind] in H; [|discriminate]. injection H as <-.
    constructor; [eapply d_event_in_notexp; eauto|apply IH; reflexivity].
Qed.

Lemma GG_empty now0 c ins dr : fresh_insts ins ->
  GG [] (mkWorld now0 [] [] [] 1 c sess_init false None [] [] [] [] None false [] ins [] [] [] dr [] []).
Proof. intros Hf. split; [apply G_empty; exact Hf|]. split; [intros tid st a k []|reflexivity]. Qed.

(* live expiry timers and stored finite-TTL entries correspond one to one in every reachable state *)
Theorem GG_reachable s sc : d_scenario s = Some sc -> GG [] (fst (run_scenario sc)).
Proof.
  intros Hd. unfold run_scenario.
  destruct s as [| |l]; try discriminate. cbn [d_scenario] in Hd.
  destruct l as [|c [|ins [|dr [|ev [|[te| |] [|rv [|[fu| |] [|]]]]]]]]; try discriminate.
  destruct (d_timings c); cbn [obind] in Hd; [|discriminate].
  destruct (dlist d_inst ins) as [ins'|] eqn:Ei; cbn [obind] in Hd; [|discriminate].
  destruct (dlist dN dr); cbn [obind] in Hd; [|discriminate].
  destruct (dlist d_event_in ev) as [evs|] eqn:Ee; cbn [obind] in Hd; [|discriminate].
  destruct (dbool rv); cbn [obind] in Hd; [|discriminate]. injection Hd as <-. cbn [sc_events sc_end sc_rev sc_fuel].
  apply GG_run.
  - unfold dlist in Ee. destruct (dL ev); cbn [obind] in Ee; [|discriminate]. eapply dmap_event_notexp; eauto.
  - unfold init_world. cbn [sc_cfg sc_insts sc_draws]. apply GG_empty.
    unfold dlist in Ei. destruct (dL ins); cbn [obind] in Ei; [|discriminate]. eapply dmap_inst_fresh; eauto.
Qed.
