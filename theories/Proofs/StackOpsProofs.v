(* Function-level theorems about the SD stack model (Model/Stack.v): what each decision function does,
   for every world.  These are the per-callback obligations of C08, C10, C11, C12, C13, C14. *)
From PS Require Import Lib.Base Lib.Struct Generated.Consts Model.SdTypes Model.Config Model.Session
  Model.Someip Model.SdCodec Model.StackTypes Model.Stack.
From PS Require Import Proofs.BitFacts Proofs.AListFacts Proofs.C07Proofs Spec.C08Spec.
From Coq Require Import Lia.

(* ------------------------------------------------------------------ C08: send_sd *)
Lemma send_sd_empty d w : send_sd [] d w = w.
Proof. reflexivity. Qed.

Lemma send_sd_nonempty e es d w :
  send_sd (e :: es) d w =
  let '((flag, sid), s') := assign_outgoing (sess w) d in
  match sd_datagram (e :: es) flag sid with
  | Ok b => emit (ESent d b) (set_sess s' (ghost (GSend (e :: es) d flag sid) w))
  | Err x => emit (ERaised (err_code x)) (set_sess s' (ghost (GSend (e :: es) d flag sid) w))
  end.
Proof. reflexivity. Qed.

Lemma send_sd_sess es d w :
  sess (send_sd es d w) = match es with [] => sess w | _ => snd (assign_outgoing (sess w) d) end.
Proof.
  destruct es as [|e es]; [reflexivity|]. rewrite send_sd_nonempty.
  destruct (assign_outgoing (sess w) d) as [[flag sid] s']. destruct (sd_datagram _ _ _); reflexivity.
Qed.

(* the session id / reboot flag put on the wire by the k-th non-empty send to d (any traffic to others in between) *)
Definition sends_ids (s : Session.sess) (reqs : list (list sdentry * dest)) : list (bool * N) :=
  run_assign s (map snd (filter (fun r => match fst r with [] => false | _ => true end) reqs)).

Theorem send_ids_cycle reqs :
  sends_ids sess_init reqs
  = spec_assign [] (map snd (filter (fun r => match fst r with [] => false | _ => true end) reqs)).
Proof. apply assign_cycle. Qed.

(* the id and flag reach the wire: the SOME/IP header carries sid, the SD flags byte carries the reboot flag *)
Lemma sd_datagram_fields entries flag sid b :
  sd_datagram entries flag sid = Ok b ->
  exists a p, assign_sd (mkSd entries [] flag true 0) = Ok a /\ build_sd a = Ok p
              /\ build_msg (mkMsg SD_SERVICE SD_METHOD 0 sid 1 MT_NOTIFICATION 1 RC_E_OK p) = Ok b
              /\ sd_reboot a = flag.
Proof.
  unfold sd_datagram. destruct (assign_sd _) as [a|] eqn:Ea; cbn [bind]; [|discriminate].
  destruct (build_sd a) as [p|] eqn:Ep; cbn [bind]; [|discriminate]. intros H. exists a, p. repeat split; try assumption.
  unfold assign_sd in Ea. destruct (assign_entries _ _) as [[es opts]|]; cbn [bind] in Ea; [|discriminate].
  injection Ea as <-. reflexivity.
Qed.

(* ------------------------------------------------------------------ C11 *)
Lemma ack_value_echo val : val < 1048576 ->
  N.lor (N.shiftl (N.land (N.shiftr val 16) 15) 16) (N.land val 65535) = val.
Proof.
  intros H. change 15 with (N.ones 4). change 65535 with (N.ones 16).
  assert (Hs : N.shiftr val 16 < 2 ^ 4) by (apply (shiftr_bound val 16 4); exact H).
  rewrite (N.land_ones (N.shiftr val 16) 4). rewrite N.mod_small by exact Hs. apply split_join.
Qed.

(* the acknowledgement echoes service, instance, major version, eventgroup id and counter *)
Theorem ack_echoes e ttl :
  e_val e < 1048576 ->
  let a := to_ack_entry (from_subscribe_entry e) ttl in
  e_type a = ET_SubscribeAck /\ e_sid a = e_sid e /\ e_iid a = e_iid e /\ e_maj a = e_maj e
  /\ e_val a = e_val e /\ e_ttl a = ttl /\ e_opts1 a = [] /\ e_opts2 a = [].
Proof.
  intros H. cbn. repeat split. apply ack_value_echo. exact H.
Qed.

(* nothing matched: exactly one negative acknowledgement, to the sender *)
Theorem no_match_nack e a w :
  (forall i w', inst_handle_subscribe e a i w' = (w', false)) ->
  announcer_handle_subscribe e a w = queue_send (to_ack_entry (from_subscribe_entry e) 0) (Some a) w.
Proof.
  intros H. unfold announcer_handle_subscribe.
  assert (Hf : forall l acc, fold_left (fun acc i => let '(w', m) := inst_handle_subscribe e a i (fst acc) in (w', snd acc || m)) l acc = acc).
  { induction l as [|i l IH]; intros [w0 b0]; [reflexivity|]. cbn [fold_left fst snd]. rewrite H. rewrite orb_false_r. apply IH. }
  rewrite Hf. reflexivity.
Qed.

(* a running, matching instance: exactly one queue_send of the Ack (TTL as requested) or Nack (TTL 0), to the sender *)
Theorem inst_answers_once e a i w ins t :
  get_inst i w = Some ins -> in_task ins = Some t -> matches_subscribe (in_service ins) e = Ok true ->
  e_ttl e <> 0 ->
  let sub := from_subscribe_entry e in
  let '(w1, ok) := store_refresh (SSubs i) (e_ttl e) a (KSub sub) w in
  inst_handle_subscribe e a i w = (queue_send (to_ack_entry sub (if ok then e_ttl e else 0)) (Some a) w1, true).
Proof.
  intros Hi Ht Hm Httl. unfold inst_handle_subscribe. rewrite Hi, Ht, Hm.
  destruct (N.eqb_spec (e_ttl e) 0) as [E|_]; [contradiction|]. cbn [from_subscribe_entry sb_ttl].
  destruct (store_refresh _ _ _ _ _) as [w1 ok]. destruct ok; reflexivity.
Qed.

(* not running, or not matching: the instance does not touch the world *)
Theorem inst_ignores e a i w :
  (match get_inst i w with
   | Some ins => in_task ins = None \/ matches_subscribe (in_service ins) e <> Ok true
   | None => True
   end) -> inst_handle_subscribe e a i w = (w, false).
Proof.
  unfold inst_handle_subscribe. destruct (get_inst i w) as [ins|]; [|reflexivity].
  intros [H|H]; [rewrite H; reflexivity|]. destruct (in_task ins); [|reflexivity].
  destruct (matches_subscribe (in_service ins) e) as [[|]|]; try reflexivity. congruence.
Qed.

(* a StopSubscribe for a matching running instance is handled by the store alone: nothing is queued *)
Theorem stop_subscribe_no_answer e a i w ins t :
  get_inst i w = Some ins -> in_task ins = Some t -> matches_subscribe (in_service ins) e = Ok true ->
  e_ttl e = 0 ->
  inst_handle_subscribe e a i w = (store_stop (SSubs i) a (KSub (from_subscribe_entry e)) w, true).
Proof.
  intros Hi Ht Hm Httl. unfold inst_handle_subscribe. rewrite Hi, Ht, Hm, Httl. reflexivity.
Qed.

(* Subscribe entries received over multicast change nothing *)
Theorem multicast_subscribe_ignored e a w :
  e_type e = ET_Subscribe ->
  sd_message_received (mkSd [e] [] false true 0) a true w = w.
Proof.
  intros Ht. unfold sd_message_received. cbn [sd_unicast negb sd_entries fold_left]. rewrite Ht. reflexivity.
Qed.

(* ------------------------------------------------------------------ C12 *)
Theorem find_who e i w :
  inst_matches_find e i w = true <->
  exists ins, get_inst i w = Some ins /\ in_can_answer ins = true /\ matches_find (in_service ins) e = Ok true.
Proof.
  unfold inst_matches_find. destruct (get_inst i w) as [ins|]; [|split; [discriminate|intros (x & H & _); discriminate]].
  split.
  - intros H. apply andb_true_iff in H. destruct H as [H1 H2]. exists ins. split; [reflexivity|]. split; [exact H1|].
    destruct (matches_find (in_service ins) e) as [[|]|]; try discriminate. reflexivity.
  - intros (x & Hx & H1 & H2). injection Hx as <-. rewrite H1, H2. reflexivity.
Qed.

Theorem find_unicast_immediately e a w :
  announcer_handle_findservice e a false w
  = fold_left (fun acc i => call_soon (HAnswerFind i a) acc) (filter (fun i => inst_matches_find e i w) (announcing w)) w.
Proof. unfold announcer_handle_findservice. destruct (filter _ _); reflexivity. Qed.

Lemma draw_in_window lo hi w : lo <= hi -> lo <= fst (draw lo hi w) <= hi.
Proof. intros H. unfold draw. destruct (draws w); cbn [fst]; lia. Qed.

Theorem find_multicast_delayed e a w :
  filter (fun i => inst_matches_find e i w) (announcing w) <> [] ->
  let d := fst (draw (t_rr_min (cfg w)) (t_rr_max (cfg w)) w) in
  announcer_handle_findservice e a true w
  = fold_left (fun acc i => snd (call_later d (HAnswerFind i a) acc))
              (filter (fun i => inst_matches_find e i w) (announcing w))
              (snd (draw (t_rr_min (cfg w)) (t_rr_max (cfg w)) w)).
Proof.
  intros Hne. unfold announcer_handle_findservice. destruct (filter _ _) as [|x l] eqn:E; [congruence|].
  destruct (draw _ _ w) as [d w1]. reflexivity.
Qed.

Theorem find_nobody_matches e a mc w :
  filter (fun i => inst_matches_find e i w) (announcing w) = [] -> announcer_handle_findservice e a mc w = w.
Proof. intros H. unfold announcer_handle_findservice. rewrite H. reflexivity. Qed.

(* the answer itself: the instance's configured offer, to the requester only; nothing if not (any longer) ready *)
Theorem answer_is_configured_offer i a w ins :
  get_inst i w = Some ins -> in_can_answer ins = true ->
  answer_find i a w = queue_send (create_offer_entry (in_service ins) (t_announce_ttl (cfg w))) (Some a) w.
Proof. intros Hi Hc. unfold answer_find, inst_send_offer. rewrite Hi, Hc. reflexivity. Qed.

Theorem answer_suppressed_when_not_ready i a w :
  (match get_inst i w with Some ins => in_can_answer ins = false | None => True end) -> answer_find i a w = w.
Proof. unfold answer_find. destruct (get_inst i w) as [ins|]; [intros ->; reflexivity|reflexivity]. Qed.

(* ------------------------------------------------------------------ C10 *)
(* a cancelled offer task that has not yet sent its first offer sends nothing at all *)
Theorem stop_before_first_offer_is_silent t w tk inst :
  get_task t w = Some tk -> tk_done tk = false -> tk_must_cancel tk = true -> tk_kind tk = TOffer inst ->
  tk_pc tk = 0 \/ tk_pc tk = 1 -> task_step t w = finish_task t w.
Proof.
  intros Ht Hd Hc Hk Hpc. unfold task_step. rewrite Ht, Hd, Hc, Hk. destruct Hpc as [-> | ->]; reflexivity.
Qed.

(* a cancelled offer task past its first offer: clears the flag and sends exactly one StopOffer if cyclic, none otherwise *)
Theorem stop_after_offer t w tk inst :
  get_task t w = Some tk -> tk_done tk = false -> tk_must_cancel tk = true -> tk_kind tk = TOffer inst ->
  2 <= tk_pc tk ->
  task_step t w =
  let w1 := set_can_answer inst false w in
  finish_task t (if t_cyclic (cfg w1) =? 0 then w1 else inst_send_offer inst None true w1).
Proof.
  intros Ht Hd Hc Hk Hpc. unfold task_step. rewrite Ht, Hd, Hc, Hk.
  destruct (tk_pc tk) as [|p]; [lia|]. destruct p as [p|p|]; try reflexivity; try lia.
  destruct p; reflexivity.
Qed.

(* the first offer goes out when the initial sleep ends, with the configured TTL, to the multicast group,
   and only then may finds be answered *)
Theorem first_offer t w tk inst :
  get_task t w = Some tk -> tk_done tk = false -> tk_must_cancel tk = false -> tk_kind tk = TOffer inst -> tk_pc tk = 1 ->
  task_step t w = offer_next t 0 inst (set_can_answer inst true (inst_send_offer inst None false w)).
Proof. intros Ht Hd Hc Hk Hpc. unfold task_step. rewrite Ht, Hd, Hc, Hk, Hpc. reflexivity. Qed.

Theorem initial_delay_in_window t w tk inst :
  get_task t w = Some tk -> tk_done tk = false -> tk_must_cancel tk = false -> tk_kind tk = TOffer inst -> tk_pc tk = 0 ->
  t_init_min (cfg w) <= t_init_max (cfg w) ->
  exists d w1, t_init_min (cfg w) <= d <= t_init_max (cfg w) /\ task_step t w = task_sleep t (TOffer inst) d 1 0 w1.
Proof.
  intros Ht Hd Hc Hk Hpc Hw. unfold task_step. rewrite Ht, Hd, Hc, Hk, Hpc.
  pose proof (draw_in_window _ _ w Hw) as Hdw. destruct (draw _ _ w) as [d w1]. exists d, w1. split; [exact Hdw|reflexivity].
Qed.

(* repetition i waits base * 2^i; after the last repetition the cyclic phase waits the period, or the task ends *)
Theorem repetition_and_cyclic_delays t i inst w :
  offer_next t i inst w =
  if i <? t_rep_max (cfg w) then task_sleep t (TOffer inst) (N.shiftl 1 i * t_rep_base (cfg w)) 2 i w
  else if t_cyclic (cfg w) =? 0 then finish_task t w
  else task_sleep t (TOffer inst) (t_cyclic (cfg w)) 3 0 w.
Proof. reflexivity. Qed.

(* every offer is the service's configured entry with the announce TTL (or 0 for the StopOffer) *)
Theorem offer_content i d stop w ins :
  get_inst i w = Some ins ->
  inst_send_offer i d stop w
  = queue_send (create_offer_entry (in_service ins) (if stop then 0 else t_announce_ttl (cfg w))) d w.
Proof. intros H. unfold inst_send_offer. rewrite H. reflexivity. Qed.

(* stopping an already stopped announcer is a no-op (repaired F10) *)
Theorem announcer_stop_idempotent w : ann_started w = false -> announcer_stop w = w.
Proof. intros H. unfold announcer_stop. rewrite H. reflexivity. Qed.

(* ------------------------------------------------------------------ C13 *)
Theorem find_round_content w :
  find_entries w
  = flat_map (fun p => if service_found (fst p) w then [] else [create_find_entry (fst p) (t_find_ttl (cfg w))]) (watched w).
Proof. reflexivity. Qed.

Theorem find_entry_preserves_wildcards f ttl :
  let e := create_find_entry f ttl in
  e_type e = ET_FindService /\ e_sid e = s_sid f /\ e_iid e = s_iid f /\ e_maj e = s_maj f /\ e_val e = s_min f
  /\ e_ttl e = ttl /\ e_opts1 e = [] /\ e_opts2 e = [].
Proof. cbn. repeat split. Qed.

(* bounded: after round number i (0-based) another round is scheduled only if i < REPETITIONS_MAX *)
Theorem find_rounds_bounded t i w :
  t_rep_max (cfg w) <= i -> find_next t i w = finish_task t w.
Proof. intros H. unfold find_next. destruct (N.ltb_spec i (t_rep_max (cfg w))); [lia|reflexivity]. Qed.

Theorem find_quiet_when_all_found t w tk :
  get_task t w = Some tk -> tk_done tk = false -> tk_must_cancel tk = false -> tk_kind tk = TFind -> 1 <= tk_pc tk ->
  find_entries w = [] -> task_step t w = finish_task t w.
Proof.
  intros Ht Hd Hc Hk Hpc He. unfold task_step. rewrite Ht, Hd, Hc, Hk.
  destruct (tk_pc tk) as [|p]; [lia|]. destruct p; rewrite He; reflexivity.
Qed.

(* ------------------------------------------------------------------ C14 *)
Theorem subscribe_message_content ttl remote gs w :
  send_subscribe ttl remote gs w = send_sd (map (fun g => create_subscribe_entry g ttl 0) gs) (Some remote) w.
Proof. reflexivity. Qed.

Theorem subscribe_entry_content g ttl :
  g_id g < 65536 ->
  let e := create_subscribe_entry g ttl 0 in
  e_type e = ET_Subscribe /\ e_sid e = g_sid g /\ e_iid e = g_iid g /\ e_maj e = g_maj g /\ e_ttl e = ttl
  /\ e_val e = g_id g
  /\ e_opts1 e = [OIP (if sk_v6 (g_sock g) then 5 else 2) (sk_addr (g_sock g)) (g_proto g) (sk_port (g_sock g))]
  /\ e_opts2 e = [].
Proof. intros H. cbn. repeat split. Qed.

(* a stop request of something not requested changes nothing; otherwise it is forgotten and (optionally) one StopSubscribe is deferred *)
Theorem stop_subscribe_unknown g ep send w :
  remove_first sub_entry_eqb (g, ep) (sub_entries w) = None -> stop_subscribe_eventgroup g ep send w = w.
Proof. intros H. unfold stop_subscribe_eventgroup. rewrite H. reflexivity. Qed.

(* subscribe while alive: recorded and exactly one Subscribe deferred to the same loop turn *)
Theorem subscribe_while_alive g ep w :
  sub_alive w = true -> requested g ep (sub_entries w) = false ->
  subscribe_eventgroup g ep w = call_soon (HSendStartSub ep [g]) (set_sub_entries (sub_entries w ++ [(g, ep)]) w).
Proof. intros H Hr. unfold subscribe_eventgroup, note_dup, subscribe_core. rewrite Hr. cbn. rewrite H. reflexivity. Qed.
