(* C03 (decoder part): every SD decoder terminates (never EFuel), fails only with the library's
   parse errors or - solely for a non-ASCII byte in the input - the Unicode error, and returns an
   unconsumed rest that is a suffix of its input. *)
From PS Require Import Lib.Base Lib.Struct Generated.Consts Model.SdTypes Model.SdCodec.
From PS Require Import Proofs.StructFacts Proofs.SdEntryProofs.
From Coq Require Import Lia ZArith ZifyN ZifyBool ZifyNat.

Definition has_nonascii (b : bytes) : Prop := exists c, In c b /\ 128 <= c.

Lemma incl_firstn {X} n (l : list X) : incl (firstn n l) l.
Proof.
  revert l. induction n as [|n IHn]; intros l; destruct l as [|x l]; cbn [firstn]; try (intros y Hy; destruct Hy).
  - left. assumption.
  - right. apply IHn. assumption.
Qed.
Lemma incl_skipn {X} n (l : list X) : incl (skipn n l) l.
Proof.
  revert l. induction n as [|n IHn]; intros l; destruct l as [|x l]; cbn [skipn]; try (intros y Hy; exact Hy).
  intros y Hy. right. apply IHn. exact Hy.
Qed.

Lemma decode_ascii_err b e : decode_ascii b = Err e -> e = EUnicode /\ has_nonascii b.
Proof.
  unfold decode_ascii. destruct (forallb (fun c => c <? 128) b) eqn:E; [discriminate|].
  intros H; injection H as <-. split; [reflexivity|].
  induction b as [|x b IH]; [discriminate|]. cbn [forallb] in E. apply andb_false_iff in E. destruct E as [E|E].
  - exists x. split; [left; reflexivity|]. lia.
  - destruct (IH E) as (c & Hc & Hge). exists c. split; [right; exact Hc|exact Hge].
Qed.

Lemma nonascii_incl a b : incl a b -> has_nonascii a -> has_nonascii b.
Proof. intros Hi (c & Hc & Hge). exists c. split; [apply Hi; exact Hc|exact Hge]. Qed.

Lemma parse_cfgs_err : forall fuel nl b acc e,
  (length b < fuel)%nat -> parse_cfgs fuel nl b acc = Err e ->
  e = EParse \/ (e = EUnicode /\ has_nonascii b).
Proof.
  induction fuel as [|f IH]; intros nl b acc e Hf H; [lia|]. cbn [parse_cfgs] in H.
  destruct (nl =? 0); [discriminate|].
  destruct (N.ltb_spec (len b) (nl + 1)) as [E|E]; [injection H as <-; auto|].
  set (cfg := takeN nl b) in *.
  assert (Hcfg : incl cfg b) by apply incl_firstn.
  destruct (find_byte 61 cfg) as [i|].
  - destruct (decode_ascii (firstn i cfg)) as [k|e1] eqn:D1; cbn [bind] in H.
    + destruct (decode_ascii (skipn (S i) cfg)) as [v|e2] eqn:D2; cbn [bind] in H.
      * destruct (dropN nl b) as [|nl' b''] eqn:Ed.
        { exfalso. apply (f_equal len) in Ed. rewrite len_dropN in Ed. change (len []) with 0 in Ed. lia. }
        apply IH in H.
        -- destruct H as [H|[H1 H2]]; [auto|right; split; [exact H1|]].
           eapply nonascii_incl; [|exact H2]. intros y Hy. apply (incl_skipn (N.to_nat nl) b). unfold dropN in Ed. rewrite Ed. right. exact Hy.
        -- apply (f_equal (@length N)) in Ed. unfold dropN in Ed. rewrite skipn_length in Ed. cbn [length] in Ed. lia.
      * injection H as <-. apply decode_ascii_err in D2. destruct D2 as [-> D2]. right. split; [reflexivity|].
        eapply nonascii_incl; [|exact D2]. intros y Hy. apply Hcfg. apply (incl_skipn (S i) cfg). exact Hy.
    + injection H as <-. apply decode_ascii_err in D1. destruct D1 as [-> D1]. right. split; [reflexivity|].
      eapply nonascii_incl; [|exact D1]. intros y Hy. apply Hcfg. apply (incl_firstn i cfg). exact Hy.
  - destruct (decode_ascii cfg) as [k|e1] eqn:D1; cbn [bind] in H.
    + destruct (dropN nl b) as [|nl' b''] eqn:Ed.
      { exfalso. apply (f_equal len) in Ed. rewrite len_dropN in Ed. change (len []) with 0 in Ed. lia. }
      apply IH in H.
      * destruct H as [H|[H1 H2]]; [auto|right; split; [exact H1|]].
        eapply nonascii_incl; [|exact H2]. intros y Hy. apply (incl_skipn (N.to_nat nl) b). unfold dropN in Ed. rewrite Ed. right. exact Hy.
      * apply (f_equal (@length N)) in Ed. unfold dropN in Ed. rewrite skipn_length in Ed. cbn [length] in Ed. lia.
    + injection H as <-. apply decode_ascii_err in D1. destruct D1 as [-> D1]. right. split; [reflexivity|].
      eapply nonascii_incl; [|exact D1]. exact Hcfg.
Qed.

Lemma ip_body_err (v6 : bool) (c : N) buf e :
  (let f := if v6 then fmt_ipv6 else fmt_ipv4 in
   if negb (len buf =? fmt_size f) then @Err sdopt EParse else
   match unpack_all f buf with
   | [VI _; VB a; VI _; VI proto; VI port] => Ok (OIP c a proto port)
   | _ => Err EFuel
   end) = Err e -> e = EParse.
Proof.
  cbn zeta. destruct (len buf =? _); cbn [negb]; [|intros H; injection H as <-; reflexivity].
  destruct v6; [unfold fmt_ipv6|unfold fmt_ipv4]; cbn [unpack_all unpack1 fsize]; discriminate.
Qed.

Lemma parse_option_body_err cls buf e :
  parse_option_body cls buf = Err e -> aget N.eqb cls (map (fun p => (snd p, fst p)) opt_registry) <> None ->
  e = EParse \/ (e = EUnicode /\ has_nonascii buf).
Proof.
  intros H Hreg.
  assert (Hc : cls = 0 \/ cls = 1 \/ cls = 2 \/ cls = 3 \/ cls = 4 \/ cls = 5 \/ cls = 6 \/ cls = 7).
  { unfold opt_registry in Hreg. cbn [aget map fst snd] in Hreg.
    repeat match type of Hreg with
           | context [cls =? ?k] => destruct (N.eqb_spec cls k) as [->|?]; [tauto|]
           end. exfalso. apply Hreg. reflexivity. }
  destruct Hc as [->|[->|Hc]].
  - (* load balancing *)
    unfold parse_option_body in H.
    destruct (len buf =? 5) eqn:E; cbn [negb] in H; [|injection H as <-; auto].
    cbn [unpack_all unpack1 fsize] in H. discriminate.
  - (* configuration *)
    unfold parse_option_body in H.
    destruct (N.ltb_spec (len buf) 2) as [E|E]; [injection H as <-; auto|].
    destruct (dropN 1 buf) as [|nl b] eqn:Ed.
    { exfalso. apply (f_equal len) in Ed. rewrite len_dropN in Ed. change (len []) with 0 in Ed. lia. }
    destruct (parse_cfgs (length buf) nl b []) as [c|e1] eqn:Ep; cbn [bind] in H; [discriminate|].
    injection H as <-. apply parse_cfgs_err in Ep.
    + destruct Ep as [Ep|[E1 E2]]; [auto|right; split; [exact E1|]].
      eapply nonascii_incl; [|exact E2]. intros y Hy. apply (incl_skipn (N.to_nat 1) buf). unfold dropN in Ed. rewrite Ed. right. exact Hy.
    + apply (f_equal (@length N)) in Ed. unfold dropN in Ed. rewrite skipn_length in Ed. cbn [length] in Ed. lia.
  - left. destruct Hc as [->|[->|[->|[->|[->| ->]]]]]; unfold parse_option_body in H;
      match type of H with context [is_v6_cls ?k] => apply (ip_body_err (is_v6_cls k) k buf e) end; exact H.
Qed.

Lemma registry_codes_known ty cls :
  registry_get ty = Some cls -> aget N.eqb cls (map (fun p => (snd p, fst p)) opt_registry) <> None.
Proof.
  unfold registry_get, opt_registry. cbn [aget map fst snd].
  repeat (destruct (ty =? _); [intros H; injection H as <-; cbn; discriminate|]). discriminate.
Qed.

Lemma parse_option_err b e :
  parse_option b = Err e -> e = EParse \/ e = EIncomplete \/ (e = EUnicode /\ has_nonascii b).
Proof.
  unfold parse_option. destruct (unpack fmt_sdoption b) as [[vs rest]|e0] eqn:Hu; cbn [bind].
  - apply unpack_ok_inv in Hu. destruct Hu as (_ & Hvs & Hrest).
    unfold fmt_sdoption in Hvs. cbn [unpack_all unpack1 fsize] in Hvs. rewrite Hvs.
    destruct (len rest <? _); [intros H; injection H as <-; auto|].
    destruct (registry_get _) as [cls|] eqn:Er; [|discriminate].
    destruct (parse_option_body cls _) as [o|e1] eqn:Eb; cbn [bind]; [discriminate|].
    intros H; injection H as <-. apply parse_option_body_err in Eb; [|eapply registry_codes_known; exact Er].
    destruct Eb as [Eb|[E1 E2]]; [auto|right; right; split; [exact E1|]].
    eapply nonascii_incl; [|exact E2]. intros y Hy. subst rest.
    unfold takeN, dropN in Hy. apply incl_firstn in Hy. apply incl_skipn in Hy. exact Hy.
  - apply unpack_err in Hu. destruct Hu as [-> _]. intros H; injection H as <-. auto.
Qed.

Lemma parse_option_suffix b o r : parse_option b = Ok (o, r) -> exists c, b = c ++ r /\ 3 <= len c.
Proof.
  unfold parse_option. destruct (unpack fmt_sdoption b) as [[vs rest]|] eqn:Hu; cbn [bind]; [|discriminate].
  apply unpack_ok_inv in Hu. change (fmt_size fmt_sdoption) with 3 in Hu. destruct Hu as (Hl & Hvs & Hrest).
  unfold fmt_sdoption in Hvs. cbn [unpack_all unpack1 fsize] in Hvs. rewrite Hvs.
  match goal with |- context [len rest <? ?l] => set (L := l); destruct (N.ltb_spec (len rest) L) as [E|E]; [discriminate|] end.
  assert (Hc : b = (takeN 3 b ++ takeN L rest) ++ dropN L rest).
  { rewrite <- app_assoc, takeN_dropN. subst rest. rewrite takeN_dropN. reflexivity. }
  assert (Hlc : 3 <= len (takeN 3 b ++ takeN L rest)) by (rewrite len_app, len_takeN by exact Hl; lia).
  destruct (registry_get _).
  - destruct (parse_option_body _ _); cbn [bind]; [|discriminate]. intros H; injection H as _ <-. eauto.
  - intros H; injection H as _ <-. eauto.
Qed.

Lemma parse_options_err : forall fuel b acc e,
  (length b < fuel)%nat -> parse_options fuel b acc = Err e ->
  e = EParse \/ e = EIncomplete \/ (e = EUnicode /\ has_nonascii b).
Proof.
  induction fuel as [|f IH]; intros b acc e Hf H; [lia|].
  destruct b as [|x xs]; [discriminate|]. cbn [parse_options] in H.
  destruct (parse_option (x :: xs)) as [[o rest]|e1] eqn:Ep; cbn [bind] in H.
  - apply parse_option_suffix in Ep. destruct Ep as (c & Hc & Hl).
    apply IH in H.
    + destruct H as [H|[H|[H1 H2]]]; auto. right. right. split; [exact H1|].
      eapply nonascii_incl; [|exact H2]. rewrite Hc. apply incl_appr. apply incl_refl.
    + apply (f_equal (@length N)) in Hc. rewrite app_length in Hc. unfold len in Hl. lia.
  - injection H as <-. apply parse_option_err. exact Ep.
Qed.

Lemma parse_entries_err : forall fuel b n acc e,
  (length b < fuel)%nat -> parse_entries fuel b n acc = Err e -> e = EParse \/ e = EIncomplete.
Proof.
  induction fuel as [|f IH]; intros b n acc e Hf H; [lia|].
  destruct b as [|x xs]; [discriminate|]. cbn [parse_entries] in H.
  destruct (parse_entry (x :: xs) n) as [[en rest]|e1] eqn:Ep; cbn [bind] in H.
  - apply parse_entry_suffix in Ep. destruct Ep as (Hr & Hl). eapply IH; [|exact H].
    subst rest. unfold dropN. rewrite skipn_length. unfold len in Hl. lia.
  - injection H as <-. eapply parse_entry_errs. exact Ep.
Qed.

(* the SD message decoder *)
Theorem parse_sd_err b e :
  parse_sd b = Err e -> e = EParse \/ e = EIncomplete \/ (e = EUnicode /\ has_nonascii b).
Proof.
  unfold parse_sd.
  destruct (len b <? 12); [intros H; injection H as <-; auto|].
  destruct (len (dropN 8 b) <? _); [intros H; injection H as <-; auto|].
  match goal with |- context [parse_options (S (length ?ob)) ?ob []] => set (OB := ob) end.
  destruct (len _ <? _); [intros H; injection H as <-; auto|].
  destruct (parse_options (S (length OB)) OB []) as [opts|e1] eqn:Eo; cbn [bind].
  - match goal with |- context [parse_entries (S (length ?eb)) ?eb ?n []] => destruct (parse_entries (S (length eb)) eb n []) as [es|e2] eqn:Ee end; cbn [bind]; [discriminate|].
    intros H; injection H as <-. apply parse_entries_err in Ee; [|lia]. destruct Ee; auto.
  - intros H; injection H as <-. apply parse_options_err in Eo; [|lia].
    destruct Eo as [H|[H|[H1 H2]]]; auto. right. right. split; [exact H1|].
    eapply nonascii_incl; [|exact H2]. unfold OB. intros y Hy. unfold takeN, dropN in Hy.
    repeat (apply incl_skipn in Hy || apply incl_firstn in Hy). exact Hy.
Qed.

Lemma suffix_dropN (b x : bytes) n : (exists c, b = c ++ x) -> exists c, b = c ++ dropN n x.
Proof. intros [c ->]. exists (c ++ takeN n x). rewrite <- app_assoc, takeN_dropN. reflexivity. Qed.

Theorem parse_sd_suffix b h r : parse_sd b = Ok (h, r) -> exists c, b = c ++ r.
Proof.
  unfold parse_sd.
  destruct (len b <? 12); [discriminate|].
  destruct (len (dropN 8 b) <? _); [discriminate|].
  destruct (len _ <? _); [discriminate|].
  destruct (parse_options _ _ _); cbn [bind]; [|discriminate].
  destruct (parse_entries _ _ _ _); cbn [bind]; [|discriminate].
  intros H; injection H as _ <-.
  repeat apply suffix_dropN. exists []. reflexivity.
Qed.
