(* The dispatching functions of the stack model equal the control-flow SKELETONS translated from the source text of sd.py
   (Generated/LogicGen.v, re-generated on every run by harness/gen_logic.py): which component method is called, directly
   or through call_soon, under which condition on the entry.  A change of that control flow in /repo - an entry type
   dispatched elsewhere, a test moved before or behind another (finding F17 was one) - breaks these proofs. *)
From PS Require Import Lib.Base Generated.Consts Model.SdTypes Model.Config Model.Session Model.Skel Generated.LogicGen Proofs.AListFacts Proofs.QueueProofs Proofs.C07Proofs Model.Someip Model.SdCodec
  Model.StackTypes Model.Stack.

(* the calls of the per-entry dispatch, over the model; None = a call the model does not know at this place *)
Definition run_entry_act (e : sdentry) (a : addr) (mc : bool) (w : option world) (g : gact) : option world :=
  match w, g with
  | Some w, GSoon F_discovery_handle_offer => Some (call_soon (HHandleOffer e a) w)
  | Some w, GCall F_announcer_handle_findservice => Some (announcer_handle_findservice e a mc w)
  | Some w, GCall F_announcer_handle_subscribe => Some (announcer_handle_subscribe e a w)
  | _, _ => None
  end.
Definition run_dispatch (es : list sdentry) (a : addr) (mc : bool) (w : world) : option world :=
  fold_left (fun acc e => fold_left (run_entry_act e a mc) (gen_dispatch_entry e mc) acc) es (Some w).

Theorem sd_message_received_is_the_translated_source h a mc w :
  Some (sd_message_received h a mc w) = if gen_sd_accept (sd_unicast h) then run_dispatch (sd_entries h) a mc w else Some w.
Proof.
  unfold sd_message_received, gen_sd_accept, run_dispatch. destruct (sd_unicast h); cbn [negb]; [|reflexivity].
  generalize w. induction (sd_entries h) as [|e es IH]; intros w0; cbn [fold_left]; [reflexivity|].
  rewrite IH. f_equal. unfold gen_dispatch_entry.
  destruct (e_type e =? ET_OfferService); [reflexivity|]. destruct (e_type e =? ET_SubscribeAck); [destruct (e_ttl e =? 0); reflexivity|].
  destruct (e_type e =? ET_FindService); [reflexivity|]. destruct (e_type e =? ET_Subscribe); [destruct mc; reflexivity|reflexivity].
Qed.

(* the calls of ServiceDiscover.handle_offer; both callees start with Service.from_offer_entry(entry) *)
Definition run_offer_act (e : sdentry) (a : addr) (w : option world) (g : gact) : option world :=
  match w, g with
  | Some w, GCall F_service_offer_stopped =>
      Some (match from_offer_entry e with Ok s => store_stop SFound a (KService s) w | Err _ => w end)
  | Some w, GCall F_service_offered =>
      Some (match from_offer_entry e with Ok s => fst (store_refresh SFound (e_ttl e) a (KService s) w) | Err _ => w end)
  | _, _ => None
  end.
Theorem handle_offer_is_the_translated_source e a w :
  Some (handle_offer e a w) = fold_left (run_offer_act e a) (gen_handle_offer e (is_watching e w)) (Some w).
Proof.
  unfold handle_offer, gen_handle_offer. destruct (e_ttl e =? 0); cbn [fold_left run_offer_act].
  - destruct (from_offer_entry e); reflexivity.
  - destruct (negb (is_watching e w)); cbn [fold_left run_offer_act]; destruct (from_offer_entry e); reflexivity.
Qed.
Theorem is_watching_is_the_translated_source e w :
  is_watching e w = gen_is_watching (match watch_all w with [] => false | _ :: _ => true end)
                                    (existsb (fun p => match matches_offer (fst p) e with Ok true => true | _ => false end) (watched w)).
Proof. unfold is_watching, gen_is_watching. destruct (watch_all w); reflexivity. Qed.

(* ------------------------------------------------------------------ service.py: the reply decision of SimpleService.message_received *)
From PS Require Import Model.ServiceRecv.
Definition reply_of (m : someip) (h : hres) (g : greply) : option someip :=
  match g with
  | GNoReply => None
  | GError rc => Some (error_response m rc)
  | GPositive => match h with HBytes p => Some (positive_response m p) | _ => None end
  end.
Theorem service_receive_is_the_translated_source svc_id ver methods m mc h :
  service_receive svc_id ver methods m mc h
  = let '(g, called) := gen_service_receive svc_id ver (memN (m_mid m) methods) m mc
                          (match h with HMalformed => true | _ => false end) (match h with HBytes _ => true | _ => false end) in
    (reply_of m h g, called).
Proof.
  unfold service_receive, gen_service_receive. destruct mc; [reflexivity|].
  destruct (negb (m_sid m =? svc_id)); [reflexivity|]. destruct (negb (m_iv m =? ver)); [reflexivity|].
  destruct (negb (memN (m_mid m) methods)); [reflexivity|].
  destruct (negb ((m_mt m =? MT_REQUEST) || (m_mt m =? MT_REQUEST_NO_RETURN))); [reflexivity|].
  destruct (negb (m_rc m =? RC_E_OK)); [reflexivity|].
  destruct h as [p| |]; cbn [andb reply_of]; [destruct (m_mt m =? MT_REQUEST); reflexivity|reflexivity|reflexivity].
Qed.

(* ------------------------------------------------------------------ ServiceInstance.handle_subscribe *)
Definition run_sub_act (e : sdentry) (a : addr) (i : N) (w : option world) (g : gact) : option world :=
  let sub := from_subscribe_entry e in
  match w, g with
  | Some w, GCall F_subscribe_stopped => Some (store_stop (SSubs i) a (KSub sub) w)
  | Some w, GCall F_subscriptions_refresh => Some (fst (store_refresh (SSubs i) (sb_ttl sub) a (KSub sub) w))
  | Some w, GCall F_queue_ack => Some (queue_send (to_ack_entry sub (sb_ttl sub)) (Some a) w)
  | Some w, GCall F_send_nack => Some (send_subscribe_nack sub a w)
  | _, _ => None
  end.
(* `accepted` is what the listener said: the store's refresh reports it *)
Theorem inst_handle_subscribe_is_the_translated_source e a i w ins :
  get_inst i w = Some ins ->
  let accepted := snd (store_refresh (SSubs i) (sb_ttl (from_subscribe_entry e)) a (KSub (from_subscribe_entry e)) w) in
  let '(acts, r) := gen_inst_handle_subscribe (match in_task ins with None => true | Some _ => false end)
                      (match matches_subscribe (in_service ins) e with Ok true => true | _ => false end) e accepted in
  fold_left (run_sub_act e a i) acts (Some w) = Some (fst (inst_handle_subscribe e a i w)) /\ r = snd (inst_handle_subscribe e a i w).
Proof.
  intros Hi. cbv zeta. unfold inst_handle_subscribe, gen_inst_handle_subscribe. rewrite Hi.
  destruct (in_task ins); [|split; reflexivity].
  destruct (matches_subscribe (in_service ins) e) as [[|]|]; cbn [negb]; try (split; reflexivity).
  destruct (e_ttl e =? 0); [split; reflexivity|].
  destruct (store_refresh (SSubs i) (sb_ttl (from_subscribe_entry e)) a (KSub (from_subscribe_entry e)) w) as [w1 ok] eqn:E.
  cbn [snd fst]. destruct ok; cbn [gprep fst snd fold_left run_sub_act]; rewrite E; split; reflexivity.
Qed.

(* ------------------------------------------------------------------ ServiceSubscriber: subscribe / stop-subscribe calls *)
Definition run_sact (g : eventgroup) (ep : addr) (w : option world) (s : sact) : option world :=
  match w, s with
  | Some w, SAppend => Some (set_sub_entries (sub_entries w ++ [(g, ep)]) w)
  | Some w, SRemove => match remove_first sub_entry_eqb (g, ep) (sub_entries w) with
                       | Some l => Some (set_sub_entries l w)
                       | None => None
                       end
  | Some w, SSoonStart => Some (call_soon (HSendStartSub ep [g]) w)
  | Some w, SSoonStop => Some (call_soon (HSendStopSub ep [g]) w)
  | None, _ => None
  end.
(* the ghost event of the model (note_dup) is not part of the code; what the call does to the rest is subscribe_core *)
Theorem subscribe_eventgroup_is_the_translated_source g ep w :
  fold_left (run_sact g ep) (gen_sub_subscribe (sub_alive w)) (Some w) = Some (subscribe_core g ep w).
Proof.
  unfold gen_sub_subscribe, subscribe_core. cbn [fold_left run_sact]. change (sub_alive (set_sub_entries _ w)) with (sub_alive w).
  destruct (sub_alive w); reflexivity.
Qed.
Theorem stop_subscribe_eventgroup_is_the_translated_source g ep send w :
  let found := match remove_first sub_entry_eqb (g, ep) (sub_entries w) with Some _ => true | None => false end in
  fold_left (run_sact g ep) (gen_sub_stop_subscribe found send) (Some w) = Some (stop_subscribe_eventgroup g ep send w).
Proof.
  cbv zeta. unfold gen_sub_stop_subscribe, stop_subscribe_eventgroup.
  destruct (remove_first sub_entry_eqb (g, ep) (sub_entries w)) as [l|] eqn:E; [|reflexivity].
  destruct send; cbn [fold_left run_sact app]; rewrite E; reflexivity.
Qed.
(* the deferred transmissions: TTL and entries as the source builds them *)
Theorem send_start_stop_are_the_translated_source ep gs w :
  exec (HSendStartSub ep gs) w
    = send_sd (gen_sub_entries (fun g ttl => create_subscribe_entry g ttl 0) (gen_sub_start_ttl (t_subscribe_ttl (cfg w))) gs) (Some ep) w
  /\ exec (HSendStopSub ep gs) w
    = send_sd (gen_sub_entries (fun g ttl => create_subscribe_entry g ttl 0) (gen_sub_stop_ttl (t_subscribe_ttl (cfg w))) gs) (Some ep) w.
Proof. split; reflexivity. Qed.

(* ------------------------------------------------------------------ TimedStore: refresh / stop / _expired / stop_all_for_address *)
Record skst := mkSk { sk_w : world; sk_old : option N; sk_tid : option N; sk_ok : bool }.
(* sk_ok = false: callback_new raised NakSubscription, the rest of refresh() is skipped.  The ghost events of the model
   (GRefresh next to the store assignment, GExpire in store_expired) are not part of the code. *)
Definition run_tact (st : store_id) (ttl : N) (a : addr) (k : key) (s : skst) (t : tact) : skst :=
  if negb (sk_ok s) then s else
  let w := sk_w s in
  match t with
  | TPop => let s0 := touch a (get_store st w) in
            let d0 := inner a s0 in
            mkSk (put_store st (aset N.eqb a (adel key_eqb k d0) s0) w)
                 (match aget key_eqb k d0 with Some o => o | None => None end) (sk_tid s) true
  | TCancel => mkSk (cancel_opt (sk_old s) w) (sk_old s) (sk_tid s) true
  | TCallNew => let w0 := put_store st (touch a (get_store st w)) w in
                let r := match st, k with
                         | SFound, KService sv => (notify_service listener_offered sv a w0, true)
                         | SSubs i, KSub sub => client_subscribed i sub a w0
                         | _, _ => (w0, true)
                         end in
                mkSk (fst r) (sk_old s) (sk_tid s) (snd r)
  | TArm => let r := call_later (ttl * usec_per_sec) (HExpired st a k) w in mkSk (snd r) (sk_old s) (Some (fst r)) true
  | TStore => let wg := ghost (GRefresh st a k ttl) w in
              let s2 := touch a (get_store st wg) in
              mkSk (put_store st (aset N.eqb a (adel key_eqb k (inner a s2) ++ [(k, sk_tid s)]) s2) wg) (sk_old s) (sk_tid s) true
  | TCallback => mkSk (store_callback st k a w) (sk_old s) (sk_tid s) true
  end.
Definition run_tacts st ttl a k (l : list tact) (w : world) (old : option N) : skst :=
  fold_left (run_tact st ttl a k) l (mkSk w old None true).

Lemma call_later_ghost d h g w :
  call_later d h (ghost g w) = (fst (call_later d h w), ghost g (snd (call_later d h w))).
Proof. reflexivity. Qed.
Lemma get_store_ghost st g w : get_store st (ghost g w) = get_store st w.
Proof. destruct st; reflexivity. Qed.
Lemma put_store_ghost st s g w : put_store st s (ghost g w) = ghost g (put_store st s w).
Proof.
  destruct st; [reflexivity|]. unfold put_store. change (insts (ghost g w)) with (insts w).
  destruct (aget N.eqb inst (insts w)); reflexivity.
Qed.

Ltac fin_refresh ttl := destruct (ttl =? TTL_FOREVER); [reflexivity|]; match goal with |- context [call_later ?d ?h ?x] => destruct (call_later d h x) end; reflexivity.

Theorem store_refresh_is_the_translated_source st ttl a k w :
  let d0 := inner a (touch a (get_store st w)) in
  let found := match aget key_eqb k d0 with Some _ => true | None => false end in
  let timer := match aget key_eqb k d0 with Some (Some _) => true | _ => false end in
  let s := run_tacts st ttl a k (gen_ts_refresh found timer (ttl =? TTL_FOREVER)) w None in
  store_refresh st ttl a k w = (sk_w s, sk_ok s).
Proof.
  cbv zeta. unfold store_refresh, gen_ts_refresh, run_tacts.
  set (s0 := touch a (get_store st w)). set (d0 := inner a s0).
  assert (Htail : forall w1 old, 
            fold_left (run_tact st ttl a k) ((if negb (ttl =? TTL_FOREVER) then [TArm] else []) ++ [TStore]) (mkSk w1 old None true)
            = mkSk (let w1g := ghost (GRefresh st a k ttl) w1 in
                    let '(tid, w2) := if ttl =? TTL_FOREVER then (None, w1g)
                                      else let '(t, w') := call_later (ttl * usec_per_sec) (HExpired st a k) w1g in (Some t, w') in
                    let s2 := touch a (get_store st w2) in
                    put_store st (aset N.eqb a (adel key_eqb k (inner a s2) ++ [(k, tid)]) s2) w2)
                   old (if ttl =? TTL_FOREVER then None else Some (next_id w1)) true).
  { intros w1 old. destruct (ttl =? TTL_FOREVER); cbn [negb app fold_left run_tact sk_ok sk_w sk_old sk_tid]; [reflexivity|].
    rewrite call_later_ghost. cbn [fst snd]. rewrite !get_store_ghost, put_store_ghost. reflexivity. }
  destruct (aget key_eqb k d0) as [[tid|]|] eqn:E.
  - cbn [app fold_left run_tact sk_ok sk_w sk_old sk_tid negb]. fold s0. fold d0. rewrite E. cbn [fold_left run_tact sk_ok sk_w sk_old sk_tid negb app].
    rewrite Htail. cbn [sk_w sk_ok]. fin_refresh ttl.
  - cbn [app fold_left run_tact sk_ok sk_w sk_old sk_tid negb]. fold s0. fold d0. rewrite E. cbn [app]. rewrite Htail. cbn [sk_w sk_ok cancel_opt]. fin_refresh ttl.
  - assert (Hskip : forall l s, sk_ok s = false -> fold_left (run_tact st ttl a k) l s = s).
    { induction l as [|t l IH]; intros s Hs; cbn [fold_left]; [reflexivity|]. unfold run_tact at 2. rewrite Hs. cbn [negb]. apply IH, Hs. }
    cbn [app fold_left].
    change (run_tact st ttl a k (mkSk w None None true) TCallNew)
      with (let r := match st, k with
                     | SFound, KService sv => (notify_service listener_offered sv a (put_store st s0 w), true)
                     | SSubs i, KSub sub => client_subscribed i sub a (put_store st s0 w)
                     | _, _ => (put_store st s0 w, true)
                     end in mkSk (fst r) None None (snd r)).
    cbv zeta.
    destruct st as [|i]; destruct k as [sv|sub]; cbn [fst snd negb].
    + rewrite Htail. cbn [sk_w sk_ok]. fin_refresh ttl.
    + rewrite Htail. cbn [sk_w sk_ok]. fin_refresh ttl.
    + rewrite Htail. cbn [sk_w sk_ok]. fin_refresh ttl.
    + destruct (client_subscribed i sub a (put_store (SSubs i) s0 w)) as [w' ok] eqn:Ec. cbn [fst snd]. destruct ok; cbn [negb].
      * rewrite Htail. cbn [sk_w sk_ok]. fin_refresh ttl.
      * rewrite Hskip by reflexivity. reflexivity.
Qed.

Theorem store_stop_is_the_translated_source st a k w o :
  aget key_eqb k (inner a (touch a (get_store st w))) = Some o ->
  store_stop st a k w = sk_w (run_tacts st 0 a k (gen_ts_stop true (match o with Some _ => true | None => false end)) w None).
Proof.
  intros E. unfold store_stop, gen_ts_stop, run_tacts. cbv zeta. rewrite E.
  destruct o; cbn [app fold_left run_tact sk_ok sk_w sk_old sk_tid negb]; try rewrite E; reflexivity.
Qed.
Theorem store_expired_is_the_translated_source st a k w o :
  aget key_eqb k (inner a (touch a (get_store st w))) = Some o ->
  store_expired st a k w = ghost (GExpire st a k) (sk_w (run_tacts st 0 a k (gen_ts_expired true (match o with Some _ => true | None => false end)) w None)).
Proof.
  intros E. unfold store_expired, gen_ts_expired, run_tacts. cbv zeta. rewrite E.
  cbn [app fold_left run_tact sk_ok sk_w sk_old sk_tid negb]. reflexivity.
Qed.
(* nothing is cancelled and nobody is called when the entry is not there *)
Theorem store_stop_expired_unknown_entry_does_nothing timer : gen_ts_stop false timer = [] /\ gen_ts_expired false timer = [].
Proof. split; reflexivity. Qed.
(* one round of the loop of stop_all_for_address: the snapshot's handle is cancelled, then the snapshot's callback runs *)
Theorem store_stop_all_each_is_the_translated_source st a k o acc :
  store_callback st k a (cancel_opt o acc)
  = sk_w (run_tacts st 0 a k (gen_ts_stop_all_each (match o with Some _ => true | None => false end)) acc o).
Proof. unfold gen_ts_stop_all_each, run_tacts. destruct o; reflexivity. Qed.

(* ------------------------------------------------------------------ ServiceAnnouncer.queue_send *)
Definition open_coll_of (remote : dest) (w : world) : option (N * collector) :=
  match aget dest_eqb remote (queues w) with
  | Some c => match aget N.eqb c (collectors w) with
              | Some co => if co_done co then None else Some (c, co)
              | None => None
              end
  | None => None
  end.
Definition run_qact (e : sdentry) (remote : dest) (w : world) (q : qact) : world :=
  match q with
  | QSendNow => send_sd [e] remote (ghost (GFlush remote [e]) w)
  | QNewCollector =>
      let r := call_later (t_collect (cfg w)) (HCollector (next_id w)) w in
      set_queues (aset dest_eqb remote (fst r) (queues (snd r)))
        (set_collectors (collectors (snd r) ++ [(fst r, mkColl remote [] false)]) (snd r))
  | QAppend =>
      match open_coll_of remote w with
      | Some (c, co) => set_collectors (aset N.eqb c (mkColl (co_dest co) (co_data co ++ [e]) false) (collectors w)) w
      | None => w
      end
  end.

Lemma aset_app_fresh {V} k (v0 v : V) : forall l, aget N.eqb k l = None -> aset N.eqb k v (l ++ [(k, v0)]) = l ++ [(k, v)].
Proof.
  induction l as [|[k' v'] l IH]; cbn [app aset aget]; intros H.
  - rewrite N.eqb_refl. reflexivity.
  - destruct (N.eqb k k'); [discriminate|]. rewrite IH by exact H. reflexivity.
Qed.

(* the ghost event GQueue of the model is written first; the rest is the translated source.  The collector ids are timer ids:
   below next_id in every reachable state (ownership invariant g_collfresh) *)
Theorem queue_send_is_the_translated_source e remote w :
  (forall c co, In (c, co) (collectors w) -> c < next_id w) ->
  let wg := ghost (GQueue e remote) w in
  queue_send e remote w
  = fold_left (run_qact e remote)
      (gen_queue_send (t_collect (cfg w) =? 0) (match open_coll_of remote wg with Some _ => true | None => false end)) wg.
Proof.
  intros Hfresh. cbv zeta. unfold queue_send, queue_core, gen_queue_send.
  set (wg := ghost (GQueue e remote) w). change (cfg wg) with (cfg w).
  destruct (t_collect (cfg w) =? 0); [reflexivity|].
  change (match aget dest_eqb remote (queues wg) with
          | Some c => match aget N.eqb c (collectors wg) with
                      | Some co => if co_done co then None else Some (c, co)
                      | None => None end
          | None => None end) with (open_coll_of remote wg).
  destruct (open_coll_of remote wg) as [[c co]|] eqn:Eo; cbn [negb app fold_left run_qact].
  - rewrite Eo. reflexivity.
  - set (tid := next_id wg).
    assert (Hf : aget N.eqb tid (collectors wg) = None).
    { apply aget_fresh. intros c co Hin. apply (Hfresh c co Hin). }
    cbn [call_later fst snd]. fold tid.
    set (w1 := set_next_id (tid + 1) (set_timers _ wg)).
    change (collectors w1) with (collectors wg). change (queues w1) with (queues wg).
    unfold open_coll_of. cbn [queues set_queues collectors set_collectors].
    rewrite (aget_aset_same dest_eqb C07Proofs.dest_eqb_eq).
    rewrite (aget_app_notin tid (collectors wg) (tid, mkColl remote [] false) Hf). cbn [fst snd co_done co_dest co_data app].
    rewrite N.eqb_refl. cbn [co_done co_dest co_data app fst snd]. rewrite (aset_app_fresh tid _ _ _ Hf). reflexivity.
Qed.

(* ------------------------------------------------------------------ answering a FindService *)
Definition run_fact (e : sdentry) (a : addr) (matching : list N) (s : world * N) (f : fact) : world * N :=
  let '(w, d) := s in
  match f with
  | FDraw => let r := draw (t_rr_min (cfg w)) (t_rr_max (cfg w)) w in (snd r, fst r)
  | FLaterEach => (fold_left (fun acc i => snd (call_later d (HAnswerFind i a) acc)) matching w, d)
  | FSoonEach => (fold_left (fun acc i => call_soon (HAnswerFind i a) acc) matching w, d)
  | FSendOffer => (w, d)
  end.
Theorem handle_findservice_is_the_translated_source e a mc w :
  let matching := filter (fun i => inst_matches_find e i w) (announcing w) in
  announcer_handle_findservice e a mc w
  = fst (fold_left (run_fact e a matching) (gen_handle_find (match matching with [] => false | _ => true end) mc) (w, 0)).
Proof.
  cbv zeta. unfold announcer_handle_findservice, gen_handle_find.
  destruct (filter (fun i => inst_matches_find e i w) (announcing w)) as [|i l]; [reflexivity|].
  destruct mc; cbn [negb fold_left run_fact fst snd]; [|reflexivity].
  destruct (draw (t_rr_min (cfg w)) (t_rr_max (cfg w)) w) as [d w1]. reflexivity.
Qed.
Theorem inst_matches_find_is_the_translated_source e i w ins :
  get_inst i w = Some ins ->
  inst_matches_find e i w
  = gen_inst_matches_find (in_can_answer ins) (match matches_find (in_service ins) e with Ok true => true | _ => false end).
Proof. intros H. unfold inst_matches_find, gen_inst_matches_find. rewrite H. destruct (in_can_answer ins); reflexivity. Qed.
(* readiness is judged when the answer FIRES *)
Theorem answer_find_is_the_translated_source i a w ins :
  get_inst i w = Some ins ->
  answer_find i a w = fold_left (fun acc f => match f with FSendOffer => inst_send_offer i (Some a) false acc | _ => acc end)
                                (gen_answer_find (in_can_answer ins)) w.
Proof. intros H. unfold answer_find, gen_answer_find. rewrite H. destruct (in_can_answer ins); reflexivity. Qed.

(* ------------------------------------------------------------------ message_received / reboot_detected / connection_lost *)
Definition run_ract (a : addr) (w : world) (r : ract) : world :=
  match r with
  | RAnnouncerNow => announcer_reboot_detected a w
  | RSoonSubscriberNoop => w            (* ServiceSubscriber.reboot_detected is `pass`: the model queues no handle for it *)
  | RSoonDiscovery => call_soon (HRebootDisc a) w
  | LSoonSubscriber => call_soon HConnLostSub w
  | LSoonDiscovery => call_soon HConnLostDisc w
  | LSoonAnnouncer => call_soon HConnLostAnn w
  end.
Theorem reboot_detected_is_the_translated_source a w : reboot_detected a w = fold_left (run_ract a) gen_reboot_detected w.
Proof. reflexivity. Qed.
Theorem connection_lost_is_the_translated_source w : connection_lost w = fold_left (run_ract 0) gen_connection_lost w.
Proof. reflexivity. Qed.

Definition run_mact (m : someip) (h : sdheader) (a : addr) (mc : bool) (w : world) (x : mact) : world :=
  match x with
  | MSession => set_sess (snd (check_received (sess w) a mc (sd_reboot h) (m_sess m))) w
  | MReboot => reboot_detected a w
  | MResolveDispatch => match resolve_sd h with Ok hr => sd_message_received hr a mc w | Err _ => w end
  end.
(* the session state is rewritten only AFTER the payload decoded; the reboot fan-out comes before the entries *)
Theorem message_received_is_the_translated_source m a mc w :
  message_received m a mc w
  = match parse_sd (m_payload m) with
    | Ok (h, _) =>
        fold_left (run_mact m h a mc)
          (gen_message_received (is_sd_message m) true (fst (check_received (sess w) a mc (sd_reboot h) (m_sess m)))) w
    | Err _ => fold_left (run_mact m (mkSd [] [] false false 0) a mc) (gen_message_received (is_sd_message m) false false) w
    end.
Proof.
  unfold message_received, gen_message_received. destruct (is_sd_message m); cbn [negb].
  2:{ destruct (parse_sd (m_payload m)) as [[h r]|]; reflexivity. }
  destruct (parse_sd (m_payload m)) as [[h r]|]; [|reflexivity]. cbn [negb].
  destruct (check_received (sess w) a mc (sd_reboot h) (m_sess m)) as [rb s'] eqn:E. cbn [fst].
  destruct rb; cbn [app fold_left run_mact]; rewrite E; reflexivity.
Qed.

(* ------------------------------------------------------------------ send_sd, start / stop *)
Definition run_sdact (entries : list sdentry) (remote : dest) (s : world * (bool * N)) (x : sdact) : world * (bool * N) :=
  let '(w, fi) := s in
  match x with
  | SAssignSession => let r := assign_outgoing (sess w) remote in
                      (set_sess (snd r) (ghost (GSend entries remote (fst (fst r)) (snd (fst r))) w), fst r)
  | SBuildSend => (match sd_datagram entries (fst fi) (snd fi) with
                   | Ok b => emit (ESent remote b) w
                   | Err e => emit (ERaised (err_code e)) w
                   end, fi)
  end.
Theorem send_sd_is_the_translated_source entries remote w :
  send_sd entries remote w
  = fst (fold_left (run_sdact entries remote) (gen_send_sd (match entries with [] => true | _ => false end)) (w, (false, 0))).
Proof.
  unfold send_sd, gen_send_sd. destruct entries as [|e es]; [reflexivity|].
  cbn [fold_left run_sdact]. destruct (assign_outgoing (sess w) remote) as [[f i] s']. reflexivity.
Qed.
Theorem sd_datagram_is_the_translated_source entries flag sid :
  sd_datagram entries flag sid
  = (do a <- assign_sd (mkSd entries [] flag gen_sd_flag_unicast 0);
     do p <- build_sd a;
     build_msg (mkMsg SD_SERVICE SD_METHOD gen_sd_client_id sid gen_sd_interface_version MT_NOTIFICATION 1 RC_E_OK p)).
Proof. reflexivity. Qed.
Definition run_pact (start : bool) (w : world) (x : pact) : world :=
  match x, start with
  | PSubscriber, true => subscriber_start w | PAnnouncer, true => announcer_start w | PDiscovery, true => discovery_start w
  | PSubscriber, false => subscriber_stop true w | PAnnouncer, false => announcer_stop w | PDiscovery, false => discovery_stop w
  end.
Theorem proto_start_stop_are_the_translated_source w :
  proto_start w = fold_left (run_pact true) gen_proto_start w /\ proto_stop w = fold_left (run_pact false) gen_proto_stop w.
Proof. split; reflexivity. Qed.

(* ------------------------------------------------------------------ ServiceAnnouncer: handle_subscribe, announce / stop_announce *)
Theorem announcer_handle_subscribe_is_the_translated_source e a w :
  announcer_handle_subscribe e a w
  = let r := fold_left (fun acc i => let '(w', m) := inst_handle_subscribe e a i (fst acc) in (w', snd acc || m)) (announcing w) (w, false) in
    if gen_announcer_subscribe_nack (snd r) then send_subscribe_nack (from_subscribe_entry e) a (fst r) else fst r.
Proof.
  unfold announcer_handle_subscribe, gen_announcer_subscribe_nack. cbv zeta.
  destruct (fold_left _ (announcing w) (w, false)) as [w1 any]. destruct any; reflexivity.
Qed.
(* ok = false: an exception left the call (instance.start() raising RuntimeError, list.remove raising ValueError) *)
Definition run_aact (i : N) (s : world * bool) (x : aact) : world * bool :=
  let '(w, ok) := s in
  if negb ok then s else
  match x with
  | AStartInstance => inst_start i w
  | AAppend => (set_announcing (announcing w ++ [i]) w, true)
  | ARaiseValueError => (emit (ERaised (err_code EValue)) w, false)
  | ARemove => (match remove_first N.eqb i (announcing w) with Some l => set_announcing l w | None => w end, true)
  | AStopInstance => (fst (inst_stop i w), true)
  end.
Theorem announce_service_is_the_translated_source i w :
  announce_service i w = fst (fold_left (run_aact i) (gen_announce_service (ann_started w)) (w, true)).
Proof.
  unfold announce_service, gen_announce_service. destruct (ann_started w); cbn [app fold_left run_aact negb]; [|reflexivity].
  destruct (inst_start i w) as [w1 ok]. destruct ok; reflexivity.
Qed.
Theorem stop_announce_service_is_the_translated_source i send_stop w :
  stop_announce_service i send_stop w
  = fst (fold_left (run_aact i)
           (gen_stop_announce_service (match remove_first N.eqb i (announcing w) with Some _ => true | None => false end) send_stop (ann_started w))
           (w, true)).
Proof.
  unfold stop_announce_service, gen_stop_announce_service.
  destruct (remove_first N.eqb i (announcing w)) as [l|] eqn:E; cbn [negb fold_left run_aact fst]; [|reflexivity].
  rewrite E. change (ann_started (set_announcing l w)) with (ann_started w).
  destruct (send_stop && ann_started w); reflexivity.
Qed.

(* ---- ServiceDiscover.send_find_services / _service_found (C13) ---- *)
Lemma flat_map_map_fst {A B C} (f : A -> list C) (l : list (A * B)) :
  flat_map (fun p => f (fst p)) l = flat_map f (map fst l).
Proof. induction l as [|p l IH]; cbn [flat_map map]; [reflexivity|]. rewrite IH. reflexivity. Qed.
Theorem service_found_is_the_translated_source f w :
  service_found f w
  = gen_service_found (fun s k => match k with KService s' => matches_service s s' | _ => false end) f (store_keys (found w)).
Proof. reflexivity. Qed.
Theorem find_entries_is_the_translated_source w :
  find_entries w = gen_find_entries (fun s => service_found s w) create_find_entry (t_find_ttl (cfg w)) (map fst (watched w)).
Proof.
  unfold find_entries, gen_find_entries. rewrite <- flat_map_map_fst. apply flat_map_ext. intros p.
  destruct (service_found (fst p) w); reflexivity.
Qed.
Theorem find_next_is_the_translated_source t i w :
  find_next t i w
  = if gen_find_has_round i (t_rep_max (cfg w)) then task_sleep t TFind (gen_find_delay i (t_rep_base (cfg w))) 2 i w
    else finish_task t w.
Proof. unfold find_next, gen_find_has_round, gen_find_delay, pow2. rewrite N.shiftl_1_l. reflexivity. Qed.
(* the two places of the coroutine after a sleep: the first round (pc 1) and a repetition round (pc >= 2) *)
Theorem find_round_is_the_translated_source t w tk :
  get_task t w = Some tk -> tk_done tk = false -> tk_must_cancel tk = false -> tk_kind tk = TFind -> 1 <= tk_pc tk ->
  task_step t w
  = gen_find_round (find_entries w) (fun es => send_sd es None)
      (find_next t (if tk_pc tk =? 1 then 0 else tk_i tk + 1)) (finish_task t) w.
Proof.
  intros Hg Hd Hc Hk Hp. unfold task_step, gen_find_round. rewrite Hg, Hd, Hc, Hk.
  destruct (tk_pc tk) as [|p] eqn:E; [exfalso; apply Hp; reflexivity|]. destruct p; cbn [N.eqb Pos.eqb]; destruct (find_entries w); reflexivity.
Qed.

(* ---- ServiceInstance._offer_task (C10) ---- *)
Theorem offer_next_is_the_translated_source t i inst w :
  offer_next t i inst w
  = gen_offer_next i (t_rep_max (cfg w)) (t_rep_base (cfg w)) (t_cyclic (cfg w))
      (fun d => task_sleep t (TOffer inst) d 2 i w) (finish_task t w) (fun d => task_sleep t (TOffer inst) d 3 0 w).
Proof. unfold offer_next, gen_offer_next, pow2. rewrite N.shiftl_1_l. reflexivity. Qed.
(* cancelled while asleep between repetitions: the handler withdraws the permission to answer, finally sends the StopOffer when cyclic *)
Theorem offer_cancelled_is_the_translated_source t w tk inst :
  get_task t w = Some tk -> tk_done tk = false -> tk_must_cancel tk = true -> tk_kind tk = TOffer inst -> tk_pc tk = 2 ->
  task_step t w
  = let w1 := set_can_answer inst false w in
    finish_task t (if gen_offer_finally_sends_stop (t_cyclic (cfg w1)) then inst_send_offer inst None true w1 else w1).
Proof.
  intros Hg Hd Hc Hk Hp. unfold task_step, gen_offer_finally_sends_stop. rewrite Hg, Hd, Hc, Hk, Hp. cbv zeta.
  destruct (t_cyclic (cfg (set_can_answer inst false w)) =? 0); reflexivity.
Qed.

(* ---- ServiceSubscriber._subscribe (C14) ---- *)
Theorem subscribe_round_is_the_translated_source t w :
  subscribe_round t w
  = gen_subscribe_round (group_entries (sub_entries w))
      (fun p acc => send_subscribe (t_subscribe_ttl (cfg acc)) (fst p) (snd p) acc)
      (fun w1 => t_refresh (cfg w1)) (finish_task t) (fun r => task_sleep t TSub r 1 0) w.
Proof. reflexivity. Qed.
Theorem subscribe_task_is_the_translated_source t w tk :
  get_task t w = Some tk -> tk_done tk = false -> tk_kind tk = TSub ->
  task_step t w = if tk_must_cancel tk && gen_subscribe_cancelled_in_sleep_ends then finish_task t w else subscribe_round t w.
Proof.
  intros Hg Hd Hk. unfold task_step, gen_subscribe_cancelled_in_sleep_ends. rewrite Hg, Hd, Hk, andb_true_r.
  destruct (tk_pc tk) as [|p]; reflexivity.
Qed.
