(* The dispatching functions of the stack model equal the control-flow SKELETONS translated from the source text of sd.py
   (Generated/LogicGen.v, re-generated on every run by harness/gen_logic.py): which component method is called, directly
   or through call_soon, under which condition on the entry.  A change of that control flow in /repo - an entry type
   dispatched elsewhere, a test moved before or behind another (finding F17 was one) - breaks these proofs. *)
From PS Require Import Lib.Base Generated.Consts Model.SdTypes Model.Config Model.Session Model.Skel Generated.LogicGen
  Model.StackTypes Model.Stack.

(* the calls of the per-entry dispatch, over the model; None = a call the model does not know at this place *)
Definition run_entry_act (e : sdentry) (a : addr) (mc : bool) (w : option world) (g : gact) : option world :=
  match w, g with
  | Some w, GSoon F_discovery_handle_offer => Some (call_soon (HHandleOffer e a) w)
  | Some w, GCall F_announcer_handle_findservice => Some (announcer_handle_findservice e a mc w)
  | Some w, GCall F_announcer_handle_subscribe => Some (announcer_handle_subscribe e a w)
  | _, _ => None
  end.
Definition run_dispatch (es : list sdentry) (a : addr) (mc : bool) (w : world) : option world :=
  fold_left (fun acc e => fold_left (run_entry_act e a mc) (gen_dispatch_entry e mc) acc) es (Some w).

Theorem sd_message_received_is_the_translated_source h a mc w :
  Some (sd_message_received h a mc w) = if gen_sd_accept (sd_unicast h) then run_dispatch (sd_entries h) a mc w else Some w.
Proof.
  unfold sd_message_received, gen_sd_accept, run_dispatch. destruct (sd_unicast h); cbn [negb]; [|reflexivity].
  generalize w. induction (sd_entries h) as [|e es IH]; intros w0; cbn [fold_left]; [reflexivity|].
  rewrite IH. f_equal. unfold gen_dispatch_entry.
  destruct (e_type e =? ET_OfferService); [reflexivity|]. destruct (e_type e =? ET_SubscribeAck); [destruct (e_ttl e =? 0); reflexivity|].
  destruct (e_type e =? ET_FindService); [reflexivity|]. destruct (e_type e =? ET_Subscribe); [destruct mc; reflexivity|reflexivity].
Qed.

(* the calls of ServiceDiscover.handle_offer; both callees start with Service.from_offer_entry(entry) *)
Definition run_offer_act (e : sdentry) (a : addr) (w : option world) (g : gact) : option world :=
  match w, g with
  | Some w, GCall F_service_offer_stopped =>
      Some (match from_offer_entry e with Ok s => store_stop SFound a (KService s) w | Err _ => w end)
  | Some w, GCall F_service_offered =>
      Some (match from_offer_entry e with Ok s => fst (store_refresh SFound (e_ttl e) a (KService s) w) | Err _ => w end)
  | _, _ => None
  end.
Theorem handle_offer_is_the_translated_source e a w :
  Some (handle_offer e a w) = fold_left (run_offer_act e a) (gen_handle_offer e (is_watching e w)) (Some w).
Proof.
  unfold handle_offer, gen_handle_offer. destruct (e_ttl e =? 0); cbn [fold_left run_offer_act].
  - destruct (from_offer_entry e); reflexivity.
  - destruct (negb (is_watching e w)); cbn [fold_left run_offer_act]; destruct (from_offer_entry e); reflexivity.
Qed.
Theorem is_watching_is_the_translated_source e w :
  is_watching e w = gen_is_watching (match watch_all w with [] => false | _ :: _ => true end)
                                    (existsb (fun p => match matches_offer (fst p) e with Ok true => true | _ => false end) (watched w)).
Proof. unfold is_watching, gen_is_watching. destruct (watch_all w); reflexivity. Qed.

(* ------------------------------------------------------------------ service.py: the reply decision of SimpleService.message_received *)
From PS Require Import Model.ServiceRecv.
Definition reply_of (m : someip) (h : hres) (g : greply) : option someip :=
  match g with
  | GNoReply => None
  | GError rc => Some (error_response m rc)
  | GPositive => match h with HBytes p => Some (positive_response m p) | _ => None end
  end.
Theorem service_receive_is_the_translated_source svc_id ver methods m mc h :
  service_receive svc_id ver methods m mc h
  = let '(g, called) := gen_service_receive svc_id ver (memN (m_mid m) methods) m mc
                          (match h with HMalformed => true | _ => false end) (match h with HBytes _ => true | _ => false end) in
    (reply_of m h g, called).
Proof.
  unfold service_receive, gen_service_receive. destruct mc; [reflexivity|].
  destruct (negb (m_sid m =? svc_id)); [reflexivity|]. destruct (negb (m_iv m =? ver)); [reflexivity|].
  destruct (negb (memN (m_mid m) methods)); [reflexivity|].
  destruct (negb ((m_mt m =? MT_REQUEST) || (m_mt m =? MT_REQUEST_NO_RETURN))); [reflexivity|].
  destruct (negb (m_rc m =? RC_E_OK)); [reflexivity|].
  destruct h as [p| |]; cbn [andb reply_of]; [destruct (m_mt m =? MT_REQUEST); reflexivity|reflexivity|reflexivity].
Qed.

(* ------------------------------------------------------------------ ServiceInstance.handle_subscribe *)
Definition run_sub_act (e : sdentry) (a : addr) (i : N) (w : option world) (g : gact) : option world :=
  let sub := from_subscribe_entry e in
  match w, g with
  | Some w, GCall F_subscribe_stopped => Some (store_stop (SSubs i) a (KSub sub) w)
  | Some w, GCall F_subscriptions_refresh => Some (fst (store_refresh (SSubs i) (sb_ttl sub) a (KSub sub) w))
  | Some w, GCall F_queue_ack => Some (queue_send (to_ack_entry sub (sb_ttl sub)) (Some a) w)
  | Some w, GCall F_send_nack => Some (send_subscribe_nack sub a w)
  | _, _ => None
  end.
(* `accepted` is what the listener said: the store's refresh reports it *)
Theorem inst_handle_subscribe_is_the_translated_source e a i w ins :
  get_inst i w = Some ins ->
  let accepted := snd (store_refresh (SSubs i) (sb_ttl (from_subscribe_entry e)) a (KSub (from_subscribe_entry e)) w) in
  let '(acts, r) := gen_inst_handle_subscribe (match in_task ins with None => true | Some _ => false end)
                      (match matches_subscribe (in_service ins) e with Ok true => true | _ => false end) e accepted in
  fold_left (run_sub_act e a i) acts (Some w) = Some (fst (inst_handle_subscribe e a i w)) /\ r = snd (inst_handle_subscribe e a i w).
Proof.
  intros Hi. cbv zeta. unfold inst_handle_subscribe, gen_inst_handle_subscribe. rewrite Hi.
  destruct (in_task ins); [|split; reflexivity].
  destruct (matches_subscribe (in_service ins) e) as [[|]|]; cbn [negb]; try (split; reflexivity).
  destruct (e_ttl e =? 0); [split; reflexivity|].
  destruct (store_refresh (SSubs i) (sb_ttl (from_subscribe_entry e)) a (KSub (from_subscribe_entry e)) w) as [w1 ok] eqn:E.
  cbn [snd fst]. destruct ok; cbn [gprep fst snd fold_left run_sub_act]; rewrite E; split; reflexivity.
Qed.

(* ------------------------------------------------------------------ ServiceSubscriber: subscribe / stop-subscribe calls *)
Definition run_sact (g : eventgroup) (ep : addr) (w : option world) (s : sact) : option world :=
  match w, s with
  | Some w, SAppend => Some (set_sub_entries (sub_entries w ++ [(g, ep)]) w)
  | Some w, SRemove => match remove_first sub_entry_eqb (g, ep) (sub_entries w) with
                       | Some l => Some (set_sub_entries l w)
                       | None => None
                       end
  | Some w, SSoonStart => Some (call_soon (HSendStartSub ep [g]) w)
  | Some w, SSoonStop => Some (call_soon (HSendStopSub ep [g]) w)
  | None, _ => None
  end.
(* the ghost event of the model (note_dup) is not part of the code; what the call does to the rest is subscribe_core *)
Theorem subscribe_eventgroup_is_the_translated_source g ep w :
  fold_left (run_sact g ep) (gen_sub_subscribe (sub_alive w)) (Some w) = Some (subscribe_core g ep w).
Proof.
  unfold gen_sub_subscribe, subscribe_core. cbn [fold_left run_sact]. change (sub_alive (set_sub_entries _ w)) with (sub_alive w).
  destruct (sub_alive w); reflexivity.
Qed.
Theorem stop_subscribe_eventgroup_is_the_translated_source g ep send w :
  let found := match remove_first sub_entry_eqb (g, ep) (sub_entries w) with Some _ => true | None => false end in
  fold_left (run_sact g ep) (gen_sub_stop_subscribe found send) (Some w) = Some (stop_subscribe_eventgroup g ep send w).
Proof.
  cbv zeta. unfold gen_sub_stop_subscribe, stop_subscribe_eventgroup.
  destruct (remove_first sub_entry_eqb (g, ep) (sub_entries w)) as [l|] eqn:E; [|reflexivity].
  destruct send; cbn [fold_left run_sact app]; rewrite E; reflexivity.
Qed.
(* the deferred transmissions: TTL and entries as the source builds them *)
Theorem send_start_stop_are_the_translated_source ep gs w :
  exec (HSendStartSub ep gs) w
    = send_sd (gen_sub_entries (fun g ttl => create_subscribe_entry g ttl 0) (gen_sub_start_ttl (t_subscribe_ttl (cfg w))) gs) (Some ep) w
  /\ exec (HSendStopSub ep gs) w
    = send_sd (gen_sub_entries (fun g ttl => create_subscribe_entry g ttl 0) (gen_sub_stop_ttl (t_subscribe_ttl (cfg w))) gs) (Some ep) w.
Proof. split; reflexivity. Qed.
